/-
C15 — the recursion over table dimensions: linearity in the table, exactness on grid nodes and
reproduction of tensor-product polynomials, from the one-dimensional kernel properties.
-/
import OMV.Proofs.C15Akima

set_option linter.unusedSectionVars false
set_option linter.unusedVariables false

namespace OMV.C15

variable {K : Type} [Field K] [LinearOrder K] [IsStrictOrderedRing K]

/-- A grid description: number of points and the coordinates. -/
abbrev Dim (K : Type) := Nat × (Nat → K)

/-! ### linearity in the table -/

theorem evalIdx_add {kern : Kernel K} (ha : KAdd kern) :
    ∀ (ds : List (Dim K)) (idxs : List Nat) (t1 t2 : List Nat → K) (xs : List K),
      evalIdx kern ds idxs (fun is => t1 is + t2 is) xs =
        evalIdx kern ds idxs t1 xs + evalIdx kern ds idxs t2 xs
  | [], _, _, _, _ => by simp [evalIdx]
  | (n, g) :: ds, [], _, _, _ => by simp [evalIdx]
  | (n, g) :: ds, _ :: _, _, _, [] => by simp [evalIdx]
  | (n, g) :: ds, idx :: idxs, t1, t2, x :: xs => by
    simp only [evalIdx]
    rw [← ha n g _ _ idx x]
    congr 1
    funext i
    exact evalIdx_add ha ds idxs (fun js => t1 (i :: js)) (fun js => t2 (i :: js)) xs

theorem evalIdx_smul {kern : Kernel K} (hs : KSmul kern) :
    ∀ (ds : List (Dim K)) (idxs : List Nat) (a : K) (t : List Nat → K) (xs : List K),
      evalIdx kern ds idxs (fun is => a * t is) xs = a * evalIdx kern ds idxs t xs
  | [], _, _, _, _ => by simp [evalIdx]
  | (n, g) :: ds, [], _, _, _ => by simp [evalIdx]
  | (n, g) :: ds, _ :: _, _, _, [] => by simp [evalIdx]
  | (n, g) :: ds, idx :: idxs, a, t, x :: xs => by
    simp only [evalIdx]
    rw [← hs n g a _ idx x]
    congr 1
    funext i
    exact evalIdx_smul hs ds idxs a (fun js => t (i :: js)) xs

/-! ### grid nodes -/

/-- The grid point with multi-index `is`. -/
def nodePoint : List (Dim K) → List Nat → List K
  | (_, g) :: ds, i :: is => g i :: nodePoint ds is
  | _, _ => []

/-- Every dimension has at least `kmin` strictly increasing points. -/
def GridsOK (kmin : Nat) (ds : List (Dim K)) : Prop := ∀ d ∈ ds, kmin ≤ d.1 ∧ StrictOn d.1 d.2

/-- `idxs` brackets the node `is` in every dimension (either neighbouring interval). -/
def NodeBracket : List (Dim K) → List Nat → List Nat → Prop
  | [], [], [] => True
  | (n, _) :: ds, idx :: idxs, i :: is =>
    idx + 1 < n ∧ (i = idx ∨ i = idx + 1) ∧ NodeBracket ds idxs is
  | _, _, _ => False

theorem evalIdx_node {kmin : Nat} {kern : Kernel K} (hk : KNode kmin kern) :
    ∀ (ds : List (Dim K)) (idxs is : List Nat) (tbl : List Nat → K),
      GridsOK kmin ds → NodeBracket ds idxs is →
      evalIdx kern ds idxs tbl (nodePoint ds is) = tbl is
  | [], [], [], _, _, _ => by simp [evalIdx]
  | [], [], _ :: _, _, _, h => by simp [NodeBracket] at h
  | [], _ :: _, _, _, _, h => by simp [NodeBracket] at h
  | (n, g) :: ds, [], _, _, _, h => by simp [NodeBracket] at h
  | (n, g) :: ds, _ :: _, [], _, _, h => by simp [NodeBracket] at h
  | (n, g) :: ds, idx :: idxs, i :: is, tbl, hg, h => by
    obtain ⟨h1, h2, h3⟩ := h
    have hd := hg (n, g) List.mem_cons_self
    have hg' : GridsOK kmin ds := fun d hd => hg d (List.mem_cons_of_mem _ hd)
    simp only [evalIdx, nodePoint]
    rw [hk n g _ idx i hd.1 hd.2 h1 h2]
    exact evalIdx_node hk ds idxs is (fun js => tbl (i :: js)) hg' h3

/-! ### tensor-product polynomials -/

/-- A polynomial in several variables: monomials `c * Π x_j ^ e_j`. -/
abbrev MPoly (K : Type) := List (K × List Nat)

/-- `Π x_j ^ e_j`. -/
def monoVal : List K → List Nat → K
  | x :: xs, e :: es => x ^ e * monoVal xs es
  | _, _ => 1

def polyVal (p : MPoly K) (xs : List K) : K := (p.map (fun m => m.1 * monoVal xs m.2)).sum

/-- The table sampled from `p` on the grid. -/
def polyTbl (ds : List (Dim K)) (p : MPoly K) : List Nat → K := fun is => polyVal p (nodePoint ds is)

/-- Every monomial has one exponent per dimension, each at most `deg`. -/
def DegOK (deg ndim : Nat) (p : MPoly K) : Prop :=
  ∀ m ∈ p, m.2.length = ndim ∧ ∀ e ∈ m.2, e ≤ deg

/-- Substitute the first variable: `c * y^e * Π…` becomes the monomial `(c * y^e) * Π…` of the rest. -/
def absorb (y : K) (m : K × List Nat) : K × List Nat :=
  match m.2 with
  | e :: es => (m.1 * y ^ e, es)
  | [] => m

theorem polyVal_cons (p : MPoly K) (y : K) (xs : List K) (hp : ∀ m ∈ p, m.2 ≠ []) :
    polyVal p (y :: xs) = polyVal (p.map (absorb y)) xs := by
  unfold polyVal
  induction p with
  | nil => simp
  | cons m p ih =>
    have hm := hp m List.mem_cons_self
    have ih' := ih (fun q hq => hp q (List.mem_cons_of_mem _ hq))
    obtain ⟨c, es⟩ := m
    cases es with
    | nil => exact absurd rfl hm
    | cons e es =>
      simp only [List.map_cons, List.sum_cons, absorb, monoVal]
      rw [ih']
      simp only [List.map_map]
      ring_nf

theorem DegOK.absorb {deg ndim : Nat} {p : MPoly K} (h : DegOK deg (ndim + 1) p) (y : K) :
    DegOK deg ndim (p.map (absorb y)) := by
  intro m hm
  obtain ⟨q, hq, rfl⟩ := List.mem_map.mp hm
  obtain ⟨h1, h2⟩ := h q hq
  obtain ⟨c, es⟩ := q
  cases es with
  | nil => simp at h1
  | cons e es =>
    simp only [OMV.C15.absorb]
    exact ⟨by simpa using h1, fun e' he' => h2 e' (List.mem_cons_of_mem _ he')⟩

theorem DegOK.ne_nil {deg ndim : Nat} {p : MPoly K} (h : DegOK deg (ndim + 1) p) :
    ∀ m ∈ p, m.2 ≠ [] := by
  intro m hm e
  have := (h m hm).1
  rw [e] at this
  simp at this

theorem psum_add (C D : Nat → K) (y : K) (k : Nat) :
    psum (fun j => C j + D j) y k = psum C y k + psum D y k := by
  induction k with
  | zero => simp [psum]
  | succ k ih => simp only [psum, ih]; ring

theorem psum_single (c y : K) (e : Nat) :
    ∀ k, psum (fun j => if j = e then c else 0) y k = if e < k then c * y ^ e else 0
  | 0 => by simp [psum]
  | k + 1 => by
    simp only [psum, psum_single c y e k]
    by_cases h1 : e < k
    · have : ¬ k = e := by omega
      simp [h1, this, Nat.lt_succ_of_lt h1]
    · by_cases h2 : k = e
      · subst h2; simp
      · have : ¬ e < k + 1 := by omega
        simp [h1, h2, this]

/-- As a function of the first variable a table row is a polynomial of degree ≤ `deg`. -/
theorem polyVal_absorb_psum {deg ndim : Nat} (xs : List K) :
    ∀ (p : MPoly K), DegOK deg (ndim + 1) p →
      ∃ C : Nat → K, ∀ y, polyVal (p.map (absorb y)) xs = psum C y (deg + 1)
  | [], _ => ⟨fun _ => 0, fun y => by
      have : ∀ k, psum (fun _ => (0 : K)) y k = 0 := by
        intro k; induction k with
        | zero => rfl
        | succ k ih => simp [psum, ih]
      simp [polyVal, this]⟩
  | (c, es) :: p, h => by
    have hp : DegOK deg (ndim + 1) p := fun m hm => h m (List.mem_cons_of_mem _ hm)
    obtain ⟨C, hC⟩ := polyVal_absorb_psum xs p hp
    obtain ⟨h1, h2⟩ := h (c, es) List.mem_cons_self
    cases es with
    | nil => simp at h1
    | cons e es =>
      have he : e ≤ deg := h2 e List.mem_cons_self
      refine ⟨fun j => (if j = e then c * monoVal xs es else 0) + C j, fun y => ?_⟩
      rw [psum_add, psum_single, ← hC y]
      have : e < deg + 1 := by omega
      simp only [polyVal, List.map_cons, List.sum_cons, absorb, this, if_true]
      ring

/-- Bracket indices are in range in every dimension. -/
def IdxOK : List (Dim K) → List Nat → Prop
  | [], [] => True
  | (n, _) :: ds, idx :: idxs => idx < n ∧ IdxOK ds idxs
  | _, _ => False

theorem polyTbl_cons (n : Nat) (g : Nat → K) (ds : List (Dim K)) (p : MPoly K) (i : Nat)
    (hp : ∀ m ∈ p, m.2 ≠ []) :
    (fun js => polyTbl ((n, g) :: ds) p (i :: js)) = polyTbl ds (p.map (absorb (g i))) := by
  funext js
  simp only [polyTbl, nodePoint]
  exact polyVal_cons p (g i) _ hp

/-- A kernel that reproduces polynomials of degree ≤ `deg` in one dimension reproduces
tensor-product polynomials of degree ≤ `deg` per variable in any number of dimensions, at every
point and for every in-range choice of bracket indices. -/
theorem evalIdx_poly {kmin deg : Nat} {kern : Kernel K} (hk : KRep kmin deg kern) :
    ∀ (ds : List (Dim K)) (idxs : List Nat) (p : MPoly K) (xs : List K),
      GridsOK kmin ds → IdxOK ds idxs → DegOK deg ds.length p → xs.length = ds.length →
      evalIdx kern ds idxs (polyTbl ds p) xs = polyVal p xs
  | [], _, p, xs, _, _, hd, hx => by
    have : xs = [] := List.length_eq_zero_iff.mp hx
    subst this
    simp [evalIdx, polyTbl, nodePoint]
  | (n, g) :: ds, [], _, _, _, hi, _, _ => by simp [IdxOK] at hi
  | (n, g) :: ds, idx :: idxs, p, [], _, _, _, hx => by simp at hx
  | (n, g) :: ds, idx :: idxs, p, x :: xs, hg, hi, hd, hx => by
    obtain ⟨hi1, hi2⟩ := hi
    have hdim := hg (n, g) List.mem_cons_self
    have hg' : GridsOK kmin ds := fun d hd => hg d (List.mem_cons_of_mem _ hd)
    have hd' : DegOK deg (ds.length + 1) p := by simpa using hd
    have hx' : xs.length = ds.length := by simpa using hx
    simp only [evalIdx]
    have hrow : (fun i => evalIdx kern ds idxs (fun js => polyTbl ((n, g) :: ds) p (i :: js)) xs) =
        fun i => polyVal (p.map (absorb (g i))) xs := by
      funext i
      rw [polyTbl_cons n g ds p i hd'.ne_nil]
      exact evalIdx_poly hk ds idxs _ xs hg' hi2 (hd'.absorb (g i)) hx'
    rw [hrow]
    obtain ⟨C, hC⟩ := polyVal_absorb_psum (deg := deg) xs p hd'
    have : (fun i => polyVal (p.map (absorb (g i))) xs) = fun i => psum C (g i) (deg + 1) := by
      funext i; exact hC (g i)
    rw [this, hk n g idx x C hdim.1 hdim.2 hi1, ← hC x, ← polyVal_cons p x xs hd'.ne_nil]

end OMV.C15
