/-
C14 — the colored loop of `_compute_colored_partials`: the scratch vector is all zero between
columns, every column of a group receives exactly its rows of the combined perturbation, and —
when the columns of a group have disjoint row sets that cover their nonzeros — that is the
column of the uncolored Jacobian.
-/
import OMV.Proofs.C14Field
import Mathlib.Algebra.BigOperators.Group.List.Basic

set_option linter.unusedSimpArgs false
set_option linter.unusedSectionVars false

namespace OMV.C14

variable {K : Type}

/-- Bookkeeping of one color: with a zero scratch vector at the start and every listed row lying
in an output whose pair with the column's input is declared, (1) the scratch vector is zero
again after the group (the zeroing invariant), (2) each column of the group holds its listed rows
of `imag` and zero elsewhere, (3) nothing else is written. -/
theorem fold_colStep (A : Alg K) (declRow : Nat → Nat → Bool) (imag : Nat → K)
    (grp : List (Nat × List Nat)) :
    ∀ (st : ColState K), (∀ row, st.scratch row = A.lit 0) →
      (grp.map (·.1)).Nodup →
      (∀ cr ∈ grp, ∀ row ∈ cr.2, declRow row cr.1 = true) →
      (∀ row, (grp.foldl (colStep A declRow imag) st).scratch row = A.lit 0) ∧
      (∀ cr ∈ grp, ∀ row, declRow row cr.1 = true →
        (grp.foldl (colStep A declRow imag) st).jac row cr.1
          = if row ∈ cr.2 then imag row else A.lit 0) ∧
      (∀ row col, (col ∉ grp.map (·.1) ∨ declRow row col = false) →
        (grp.foldl (colStep A declRow imag) st).jac row col = st.jac row col) := by
  induction grp with
  | nil => intro st hs _ _; simp [hs]
  | cons a rest ih =>
    intro st hs hnd hdecl
    have hnd' : (rest.map (·.1)).Nodup := (List.nodup_cons.mp (by simpa using hnd)).2
    have hnot : a.1 ∉ rest.map (·.1) := (List.nodup_cons.mp (by simpa using hnd)).1
    have hs' : ∀ row, (colStep A declRow imag st a).scratch row = A.lit 0 := by
      intro row
      simp only [colStep]
      by_cases hd : declRow row a.1 = true
      · simp [hd]
      · have hd' : declRow row a.1 = false := by simpa using hd
        have hr : row ∉ a.2 := fun hm => hd (hdecl a (by simp) row hm)
        simp [hd', hr, hs row]
    obtain ⟨h1, h2, h3⟩ := ih (colStep A declRow imag st a) hs' hnd'
      (fun cr hcr => hdecl cr (List.mem_cons_of_mem _ hcr))
    simp only [List.foldl_cons]
    refine ⟨h1, ?_, ?_⟩
    · intro cr hcr row hd
      rcases List.mem_cons.mp hcr with rfl | hin
      · rw [h3 row cr.1 (Or.inl hnot)]
        simp [colStep, hd, hs row]
      · exact h2 cr hin row hd
    · intro row col hc
      have hrest : col ∉ rest.map (·.1) ∨ declRow row col = false := by
        rcases hc with hc | hc
        · left; intro hm; exact hc (by simp only [List.map_cons, List.mem_cons]; right; exact hm)
        · right; exact hc
      rw [h3 row col hrest]
      simp only [colStep]
      have : ¬ (col = a.1 ∧ declRow row a.1 = true) := by
        rintro ⟨rfl, hd⟩
        rcases hc with hc | hc
        · exact hc (by simp)
        · rw [hd] at hc; exact Bool.noConfusion hc
      simp [this]

theorem sum_map_single [AddCommMonoid K] (l : List Nat) (f : Nat → K) (a : Nat) (hnd : l.Nodup)
    (ha : a ∈ l) (h : ∀ b ∈ l, b ≠ a → f b = 0) : (l.map f).sum = f a := by
  induction l with
  | nil => simp at ha
  | cons b t ih =>
    have hb : b ∉ t := (List.nodup_cons.mp hnd).1
    have ht : t.Nodup := (List.nodup_cons.mp hnd).2
    rcases List.mem_cons.mp ha with rfl | hat
    · have : (t.map f).sum = 0 := by
        apply List.sum_eq_zero
        intro y hy
        obtain ⟨z, hz, rfl⟩ := List.mem_map.mp hy
        exact h z (List.mem_cons_of_mem _ hz) (fun hza => hb (hza ▸ hz))
      simp [this]
    · have hba : b ≠ a := fun hba => hb (hba ▸ hat)
      simp [h b (by simp) hba, ih ht hat (fun y hy => h y (List.mem_cons_of_mem _ hy))]

variable [Field K]

/-- The rows kept for a column of a group are the column of the Jacobian `Jt`, when the combined
perturbation is the sum of the group's columns, the listed rows cover the nonzeros of each
column, and the row lists of different columns of the group are disjoint. -/
theorem group_val (Jt : Nat → Nat → K) (grp : List (Nat × List Nat)) (imag : Nat → K)
    (himag : ∀ row, imag row = ((grp.map (·.1)).map (Jt row)).sum)
    (hnd : (grp.map (·.1)).Nodup)
    (hcov : ∀ cr ∈ grp, ∀ row, Jt row cr.1 ≠ 0 → row ∈ cr.2)
    (hdisj : ∀ a ∈ grp, ∀ b ∈ grp, a.1 ≠ b.1 → ∀ row, row ∈ a.2 → row ∉ b.2) :
    ∀ cr ∈ grp, ∀ row, (if row ∈ cr.2 then imag row else 0) = Jt row cr.1 := by
  intro cr hcr row
  by_cases hr : row ∈ cr.2
  · simp only [hr, if_true, himag row]
    apply sum_map_single _ _ _ hnd (List.mem_map.mpr ⟨cr, hcr, rfl⟩)
    intro col hcol hne
    obtain ⟨b, hb, rfl⟩ := List.mem_map.mp hcol
    by_contra hnz
    exact hdisj cr hcr b hb (fun h => hne h.symm) row hr (hcov b hb row hnz)
  · simp only [hr, if_false]
    by_contra hnz
    exact hr (hcov cr hcr row (fun h => hnz h.symm))

/-- All colors: every declared entry of a column that occurs in the coloring ends up equal to the
uncolored Jacobian `Jt`; all other entries keep the value they had. -/
theorem coloredJac_spec (p : String → K → K) (p2 : String → K → K → K)
    (declRow : Nat → Nat → Bool) (imagOf : List Nat → Nat → K) (Jt : Nat → Nat → K)
    (G : List (List (Nat × List Nat))) :
    ∀ (jac0 : Nat → Nat → K),
      (∀ grp ∈ G, ∀ row, imagOf (grp.map (·.1)) row = ((grp.map (·.1)).map (Jt row)).sum) →
      ((G.flatten.map (·.1)).Nodup) →
      (∀ grp ∈ G, ∀ cr ∈ grp, ∀ row, Jt row cr.1 ≠ 0 → row ∈ cr.2) →
      (∀ grp ∈ G, ∀ a ∈ grp, ∀ b ∈ grp, a.1 ≠ b.1 → ∀ row, row ∈ a.2 → row ∉ b.2) →
      (∀ grp ∈ G, ∀ cr ∈ grp, ∀ row ∈ cr.2, declRow row cr.1 = true) →
      (∀ grp ∈ G, ∀ cr ∈ grp, ∀ row, declRow row cr.1 = true →
        coloredJac (fieldAlg p p2) declRow imagOf jac0 G row cr.1 = Jt row cr.1) ∧
      (∀ row col, (col ∉ G.flatten.map (·.1) ∨ declRow row col = false) →
        coloredJac (fieldAlg p p2) declRow imagOf jac0 G row col = jac0 row col) := by
  induction G with
  | nil => intro jac0 _ _ _ _ _; simp [coloredJac]
  | cons g rest ih =>
    intro jac0 himag hnd hcov hdisj hdecl
    have hnd2 : (g.map (·.1) ++ rest.flatten.map (·.1)).Nodup := by
      simpa [List.flatten_cons, List.map_append] using hnd
    have hg : (g.map (·.1)).Nodup := (List.nodup_append.mp hnd2).1
    have hrest : (rest.flatten.map (·.1)).Nodup := (List.nodup_append.mp hnd2).2.1
    have hdj : ∀ col, col ∈ g.map (·.1) → col ∉ rest.flatten.map (·.1) := by
      intro col h1 h2
      exact (List.nodup_append.mp hnd2).2.2 col h1 col h2 rfl
    -- the first group
    obtain ⟨_, g2, g3⟩ := fold_colStep (fieldAlg p p2) declRow (imagOf (g.map (·.1))) g
      { scratch := fun _ => (fieldAlg p p2).lit 0, jac := jac0 } (fun _ => rfl) hg
      (hdecl g (by simp))
    have gv := group_val Jt g (imagOf (g.map (·.1))) (himag g (by simp)) hg
      (hcov g (by simp)) (hdisj g (by simp))
    obtain ⟨r1, r2⟩ := ih (groupStep (fieldAlg p p2) declRow imagOf jac0 g)
      (fun grp h => himag grp (List.mem_cons_of_mem _ h)) hrest
      (fun grp h => hcov grp (List.mem_cons_of_mem _ h))
      (fun grp h => hdisj grp (List.mem_cons_of_mem _ h))
      (fun grp h => hdecl grp (List.mem_cons_of_mem _ h))
    have hfold : coloredJac (fieldAlg p p2) declRow imagOf jac0 (g :: rest)
        = coloredJac (fieldAlg p p2) declRow imagOf
            (groupStep (fieldAlg p p2) declRow imagOf jac0 g) rest := by
      simp [coloredJac]
    rw [hfold]
    refine ⟨?_, ?_⟩
    · intro grp hgrp cr hcr row hd
      rcases List.mem_cons.mp hgrp with rfl | hin
      · rw [r2 row cr.1 (Or.inl (hdj cr.1 (List.mem_map.mpr ⟨cr, hcr, rfl⟩)))]
        simp only [groupStep]
        rw [g2 cr hcr row hd]
        simpa using gv cr hcr row
      · exact r1 grp hin cr hcr row hd
    · intro row col hc
      have hc1 : col ∉ rest.flatten.map (·.1) ∨ declRow row col = false := by
        rcases hc with hc | hc
        · left; intro hm
          exact hc (by simp only [List.flatten_cons, List.map_append, List.mem_append]; right; exact hm)
        · right; exact hc
      have hc2 : col ∉ g.map (·.1) ∨ declRow row col = false := by
        rcases hc with hc | hc
        · left; intro hm
          exact hc (by simp only [List.flatten_cons, List.map_append, List.mem_append]; left; exact hm)
        · right; exact hc
      rw [r2 row col hc1]
      simp only [groupStep]
      rw [g3 row col hc2]

end OMV.C14
