/-
C28 — nearest-neighbour interpolators and Kriging: helper lemmas.
Sums over the neighbours are handled through one list of per-neighbour records whose projections
are the lists the model functions take (`zipWith f (l.map a) (l.map b) = l.map …`).
-/
import OMV.Proofs.C28RS
import Mathlib.Tactic.LinearCombination

set_option linter.unusedSectionVars false
set_option linter.unusedVariables false

namespace OMV.C28

variable {K : Type} [Field K]

/-! ### projections of one list -/

theorem zipWith_map_map {α β γ δ : Type} (f : β → γ → δ) (a : α → β) (b : α → γ) (l : List α) :
    List.zipWith f (l.map a) (l.map b) = l.map (fun x => f (a x) (b x)) := by
  induction l with
  | nil => rfl
  | cons x xs ih => simp [ih]

theorem mulV_map_map {α : Type} (a b : α → K) (l : List α) :
    mulV (l.map a) (l.map b) = l.map (fun x => a x * b x) := zipWith_map_map _ a b l

theorem dot_map_map {α : Type} (a b : α → K) (l : List α) :
    dot (l.map a) (l.map b) = sumL (l.map (fun x => a x * b x)) := by
  unfold dot; rw [mulV_map_map]

theorem matVec_map {α : Type} (a : α → List K) (l : List α) (e : List K) :
    matVec (l.map a) e = l.map (fun x => dot (a x) e) := by
  simp [matVec, List.map_map, Function.comp_def]

theorem dot_tMatVec_map {α : Type} (n : Nat) (a : α → List K) (c : α → K) (l : List α)
    (e : List K) (h : ∀ x ∈ l, (a x).length = n) :
    dot (tMatVec n (l.map a) (l.map c)) e = sumL (l.map (fun x => c x * dot (a x) e)) := by
  rw [dot_tMatVec n _ _ _ (by
    intro row hrow
    obtain ⟨x, hx, rfl⟩ := List.mem_map.mp hrow
    exact h x hx), matVec_map, dot_map_map]

theorem sumL_map_congr {α : Type} (f g : α → K) (l : List α) (h : ∀ x ∈ l, f x = g x) :
    sumL (l.map f) = sumL (l.map g) := by
  rw [List.map_congr_left h]

theorem sumL_map_mul_left {α : Type} (k : K) (f : α → K) (l : List α) :
    sumL (l.map (fun x => k * f x)) = k * sumL (l.map f) := by
  induction l with
  | nil => simp
  | cons x xs ih => simp [ih]; ring

theorem sumD_re {α : Type} (f : α → Dual K) (l : List α) :
    (sumL (l.map f)).re = sumL (l.map (fun x => (f x).re)) := by
  rw [sumL_re, List.map_map]; rfl

theorem sumD_du {α : Type} (f : α → Dual K) (l : List α) :
    (sumL (l.map f)).du = sumL (l.map (fun x => (f x).du)) := by
  rw [sumL_du, List.map_map]; rfl

theorem dotD_map_map {α : Type} (a b : α → Dual K) (l : List α) :
    dot (l.map a) (l.map b) = sumL (l.map (fun x => a x * b x)) := by
  unfold dot mulV; rw [zipWith_map_map]

/-! ### inverse-distance weights -/

theorem idwW_re (p : Nat) (D : Dual K) : (idwW p D).re = idwW p D.re := by
  unfold idwW
  simp [powN_re]

theorem idwW_du (p : Nat) (D : Dual K) (hd : D.re ≠ 0) :
    (idwW p D).du = (-(p : K)) * (1 / powN D.re (p + 2)) * (D.du * D.re) := by
  unfold idwW
  cases p with
  | zero => simp [powN]
  | succ n =>
    rw [Dual.div_du, powN_du, powN_re]
    simp only [Dual.one_re, Dual.one_du, powN_eq_pow]
    have h1 : D.re ^ (n + 1) ≠ 0 := pow_ne_zero _ hd
    have h2 : D.re ^ (n + 1 + 2) ≠ 0 := pow_ne_zero _ hd
    field_simp
    push_cast
    ring


/-- the code's normalised gradient, dotted with a direction `e` -/
theorem dot_idwGradN {α : Type} (n p : Nat) (l : List α) (d : α → K) (row : α → List K)
    (v : α → K) (e : List K) (hrows : ∀ x ∈ l, (row x).length = n) :
    dot (idwGradN n p (l.map d) (l.map row) (l.map v)) e
      = (sumL (l.map (fun x => idwW p (d x)))
            * sumL (l.map (fun x => (-(p : K)) * (1 / powN (d x) (p + 2)) * v x * dot (row x) e))
          - sumL (l.map (fun x => idwW p (d x) * v x))
            * sumL (l.map (fun x => (-(p : K)) * (1 / powN (d x) (p + 2)) * dot (row x) e)))
        / (sumL (l.map (fun x => idwW p (d x))) * sumL (l.map (fun x => idwW p (d x)))) := by
  unfold idwGradN
  simp only [List.map_map]
  rw [dot_map_div, dot_subV_left _ _ _ (by
    rw [length_smul, length_smul, length_tMatVec n _ _ (by
      intro r hr; obtain ⟨x, hx, rfl⟩ := List.mem_map.mp hr; exact hrows x hx),
      length_tMatVec n _ _ (by
      intro r hr; obtain ⟨x, hx, rfl⟩ := List.mem_map.mp hr; exact hrows x hx)]),
    dot_smul_left, dot_smul_left]
  have e1 : mulV (l.map ((fun d => (-(p : K)) * (1 / powN d (p + 2))) ∘ d)) (l.map v)
      = l.map (fun x => (-(p : K)) * (1 / powN (d x) (p + 2)) * v x) := by
    rw [mulV_map_map]; rfl
  rw [e1, dot_tMatVec_map n row _ l e hrows]
  have e2 : l.map ((fun d => (-(p : K)) * (1 / powN d (p + 2))) ∘ d)
      = l.map (fun x => (-(p : K)) * (1 / powN (d x) (p + 2))) := rfl
  rw [e2, dot_tMatVec_map n row _ l e hrows]
  have e3 : dot (l.map (idwW p ∘ d)) (l.map v) = sumL (l.map (fun x => idwW p (d x) * v x)) := by
    rw [dot_map_map]; rfl
  rw [e3]
  have e4 : l.map (idwW p ∘ d) = l.map (fun x => idwW p (d x)) := rfl
  rw [e4]

/-- the predictor on dual distances: real part and dual part -/
theorem idwCore_dual {α : Type} (p : Nat) (l : List α) (D : α → Dual K) (v : α → K)
    (hre : ∀ x ∈ l, (D x).re ≠ 0) :
    idwCore p (l.map D) ((l.map v).map Dual.const)
      = ⟨idwCore p (l.map (fun x => (D x).re)) (l.map v),
         (sumL (l.map (fun x => (-(p : K)) * (1 / powN (D x).re (p + 2)) * ((D x).du * (D x).re) * v x))
              * sumL (l.map (fun x => idwW p (D x).re))
            - sumL (l.map (fun x => idwW p (D x).re * v x))
              * sumL (l.map (fun x => (-(p : K)) * (1 / powN (D x).re (p + 2)) * ((D x).du * (D x).re))))
          / (sumL (l.map (fun x => idwW p (D x).re)) * sumL (l.map (fun x => idwW p (D x).re)))⟩ := by
  have hW : ((l.map D).map (idwW p)) = l.map (fun x => idwW p (D x)) := by
    rw [List.map_map]; rfl
  have hV : ((l.map v).map Dual.const) = l.map (fun x => Dual.const (v x)) := by
    rw [List.map_map]; rfl
  have hS_re : (sumL (l.map (fun x => idwW p (D x)))).re = sumL (l.map (fun x => idwW p (D x).re)) := by
    rw [sumD_re]; exact sumL_map_congr _ _ _ (fun x _ => idwW_re p (D x))
  have hS_du : (sumL (l.map (fun x => idwW p (D x)))).du
      = sumL (l.map (fun x => (-(p : K)) * (1 / powN (D x).re (p + 2)) * ((D x).du * (D x).re))) := by
    rw [sumD_du]; exact sumL_map_congr _ _ _ (fun x hx => idwW_du p (D x) (hre x hx))
  have hA_re : (sumL (l.map (fun x => idwW p (D x) * Dual.const (v x)))).re
      = sumL (l.map (fun x => idwW p (D x).re * v x)) := by
    rw [sumD_re]; exact sumL_map_congr _ _ _ (fun x _ => by simp [idwW_re])
  have hA_du : (sumL (l.map (fun x => idwW p (D x) * Dual.const (v x)))).du
      = sumL (l.map (fun x => (-(p : K)) * (1 / powN (D x).re (p + 2)) * ((D x).du * (D x).re) * v x)) := by
    rw [sumD_du]; exact sumL_map_congr _ _ _ (fun x hx => by simp [idwW_du p (D x) (hre x hx)])
  unfold idwCore wmean
  rw [hW, hV, dotD_map_map]
  apply Dual.ext'
  · rw [Dual.div_re, hA_re, hS_re]
    have : l.map (fun x => (D x).re) = l.map (fun x => (D x).re) := rfl
    simp only [List.map_map, dot_map_map]
    rfl
  · rw [Dual.div_du, hA_re, hA_du, hS_re, hS_du]

theorem dot_zipWith_scale (t : K) (G R e : List K) :
    dot (List.zipWith (fun g r => g * (t / r)) G R) e = t * dot G (List.zipWith (· / ·) e R) := by
  induction G generalizing R e with
  | nil => simp
  | cons g gs ih => cases R with
    | nil => simp
    | cons r rs => cases e with
      | nil => simp
      | cons x xs => simp [ih rs xs]; ring

/-! ### exact hit -/

section ordered
variable {K : Type} [Field K] [LinearOrder K] [IsStrictOrderedRing K]

/-- the indicator weights of the exact-hit branch -/
def hitW (ds : List K) : List K := ds.map (fun d => if d = 0 then 1 else 0)

theorem idwWeights_hit (p : Nat) (ds : List K) (h : (0 : K) ∈ ds) : idwWeights p ds = hitW ds := by
  unfold idwWeights hitW
  rw [if_pos]
  exact List.any_eq_true.mpr ⟨0, h, by simp⟩

theorem sumL_hitW_nonneg (ds : List K) : 0 ≤ sumL (hitW ds) := by
  induction ds with
  | nil => simp [hitW]
  | cons d ds ih =>
    simp only [hitW, List.map_cons, sumL_cons] at *
    split <;> linarith

theorem sumL_hitW_pos (ds : List K) (h : (0 : K) ∈ ds) : 0 < sumL (hitW ds) := by
  induction ds with
  | nil => simp at h
  | cons d ds ih =>
    have hn := sumL_hitW_nonneg ds
    simp only [hitW, List.map_cons, sumL_cons] at *
    rcases List.mem_cons.mp h with h0 | hm
    · rw [if_pos h0.symm]; linarith
    · have := ih hm
      split <;> linarith

theorem dot_hitW (ds vs : List K) (v : K) (hlen : ds.length = vs.length)
    (hall : ∀ q ∈ ds.zip vs, q.1 = 0 → q.2 = v) : dot (hitW ds) vs = v * sumL (hitW ds) := by
  induction ds generalizing vs with
  | nil => simp [hitW]
  | cons d ds ih => cases vs with
    | nil => simp at hlen
    | cons w ws =>
      simp only [List.length_cons, Nat.add_right_cancel_iff] at hlen
      have ih' := ih ws hlen (fun q hq => hall q (by simp [hq]))
      have hd := hall (d, w) (by simp)
      simp only [hitW, List.map_cons, dot_cons, sumL_cons] at *
      by_cases h0 : d = 0
      · rw [if_pos h0, ih', hd h0]; ring
      · rw [if_neg h0, ih']; ring

end ordered


/-! ### linear interpolator -/

/-- along the chain of neighbours the contract keeps `(p, v)·normal` constant -/
theorem plane_chain [DecidableEq K] (nx : List K) (nz : K) (P : List (List K)) (V : List K)
    (p0 : List K) (v0 : K)
    (hc : planeContract nx nz (p0 :: P) (v0 :: V) = true)
    (hlen : ∀ p ∈ p0 :: P, p.length = nx.length) :
    ∀ q ∈ (p0 :: P).zip (v0 :: V), dot q.1 nx + q.2 * nz = dot p0 nx + v0 * nz := by
  induction P generalizing V p0 v0 with
  | nil => intro q hq; simp at hq; rw [hq]
  | cons p1 ps ih => cases V with
    | nil => intro q hq; simp at hq; rw [hq]
    | cons v1 vs =>
      simp only [planeContract, Bool.and_eq_true, decide_eq_true_eq] at hc
      have h01 : p1.length = p0.length := by
        rw [hlen p1 (by simp), hlen p0 (by simp)]
      have e1 : dot p1 nx + v1 * nz = dot p0 nx + v0 * nz := by
        have := hc.1
        rw [dot_subV_left _ _ _ h01] at this
        linear_combination this
      have ih' := ih vs p1 v1 hc.2 (fun p hp => hlen p (by simp [hp]))
      intro q hq
      simp only [List.zip_cons_cons, List.mem_cons] at hq
      rcases hq with rfl | hq
      · rfl
      · rw [ih' q (by simpa using hq), e1]

theorem const_eq_zero_iff (k : K) : (Dual.const k = (0 : Dual K)) ↔ k = 0 := by
  constructor
  · intro h; exact congrArg Dual.re h
  · intro h; rw [h]; rfl

theorem map_const_re (l : List K) : (l.map Dual.const).map Dual.re = l := map_re_const l

/-! ### scatter / gather -/

theorem dot_set (row W : List K) (i : Nat) (v : K) (hlen : row.length = W.length)
    (hi : i < row.length) :
    dot (row.set i v) W = dot row W + (v - row.getD i 0) * W.getD i 0 := by
  induction row generalizing W i with
  | nil => simp at hi
  | cons r rs ih => cases W with
    | nil => simp at hlen
    | cons w ws =>
      simp only [List.length_cons, Nat.add_right_cancel_iff] at hlen
      cases i with
      | zero => simp; ring
      | succ k =>
        simp only [List.length_cons, Nat.add_lt_add_iff_right] at hi
        simp only [List.set_cons_succ, dot_cons, List.getD_cons_succ]
        rw [ih ws k hlen hi]; ring

theorem getD_set_ne (row : List K) (i j : Nat) (v : K) (h : i ≠ j) :
    (row.set i v).getD j 0 = row.getD j 0 := by
  simp [List.getD_eq_getElem?_getD, List.getElem?_set_ne h]

theorem foldl_set_dot (pairs : List (Nat × K)) (row W : List K) (hlen : row.length = W.length)
    (hlt : ∀ q ∈ pairs, q.1 < row.length) (hnd : (pairs.map Prod.fst).Nodup)
    (hz : ∀ q ∈ pairs, row.getD q.1 0 = 0) :
    dot (pairs.foldl (fun r q => r.set q.1 q.2) row) W
      = dot row W + sumL (pairs.map (fun q => q.2 * W.getD q.1 0)) := by
  induction pairs generalizing row with
  | nil => simp
  | cons q rest ih =>
    simp only [List.map_cons, List.nodup_cons] at hnd
    simp only [List.foldl_cons, List.map_cons, sumL_cons]
    rw [ih (row.set q.1 q.2) (by simpa using hlen)
      (fun q' hq' => by simpa using hlt q' (by simp [hq'])) hnd.2
      (fun q' hq' => by
        have hne : q.1 ≠ q'.1 := by
          intro he
          exact hnd.1 (List.mem_map.mpr ⟨q', hq', he.symm⟩)
        rw [getD_set_ne _ _ _ _ hne]
        exact hz q' (by simp [hq']))]
    rw [dot_set row W q.1 q.2 hlen (hlt q (by simp)), hz q (by simp)]
    ring

theorem sumL_zip_gather (idx : List Nat) (vals W : List K) :
    sumL ((idx.zip vals).map (fun q => q.2 * W.getD q.1 0)) = dot vals (gather W idx) := by
  induction idx generalizing vals with
  | nil => simp [gather]
  | cons i is ih => cases vals with
    | nil => simp
    | cons v vs =>
      simp only [List.zip_cons_cons, List.map_cons, sumL_cons, gather, dot_cons]
      rw [ih vs]; rfl

theorem getD_replicate_zero (m j : Nat) : (List.replicate m (0 : K)).getD j 0 = 0 := by
  simp [List.getD_eq_getElem?_getD, List.getElem?_replicate]
  split <;> rfl

/-- the dense row dotted with the weight vector is the sum over the neighbours -/
theorem dot_scatter (m : Nat) (idx : List Nat) (vals W : List K) (hW : W.length = m)
    (hlen : idx.length = vals.length) (hnd : idx.Nodup) (hlt : ∀ i ∈ idx, i < m) :
    dot (scatter m idx vals) W = dot vals (gather W idx) := by
  unfold scatter
  rw [foldl_set_dot (idx.zip vals) (List.replicate m 0) W (by simp [hW])
    (fun q hq => by
      have := (List.of_mem_zip hq).1
      simpa using hlt q.1 this)
    (by rw [List.map_fst_zip (by omega)]; exact hnd)
    (fun q _ => getD_replicate_zero m q.1)]
  rw [dot_replicate_zero, zero_add, sumL_zip_gather]

/-! ### RBF basis on dual numbers -/

theorem powN_du' (z : Dual K) (n : Nat) :
    (powN z n).du = (n : K) * powN z.re (n - 1) * z.du := by
  cases n with
  | zero => simp [powN]
  | succ k => rw [powN_du]; simp

theorem polyval_dual (cs : List Int) (T : Dual K) (acc : Dual K) (A : K) (h : acc.du = A * T.du) :
    (cs.map (fun (z : Int) => (z : Dual K))).foldl (fun a c => a * T + c) acc
      = ⟨(cs.map (fun (z : Int) => (z : K))).foldl (fun a c => a * T.re + c) acc.re,
         ((cs.map (fun (z : Int) => (z : K))).foldl
            (fun (q : K × K) c => (q.1 * T.re + c, q.2 * T.re + q.1)) (acc.re, A)).2 * T.du⟩ := by
  induction cs generalizing acc A with
  | nil => apply Dual.ext' <;> simp [h]
  | cons c cs ih =>
    simp only [List.map_cons, List.foldl_cons]
    rw [ih (acc * T + (c : Dual K)) (A * T.re + acc.re) (by simp [h]; ring)]
    apply Dual.ext' <;> simp

theorem polyval_re (cs : List Int) (T : Dual K) :
    (polyval (cs.map (fun (z : Int) => (z : Dual K))) T).re
      = polyval (cs.map (fun (z : Int) => (z : K))) T.re := by
  unfold polyval
  rw [polyval_dual cs T 0 0 (by simp)]
  rfl

theorem rbfPhi_re (e : RbfEntry) (T : Dual K) : (rbfPhi e T).re = rbfPhi e T.re := by
  unfold rbfPhi
  simp [powN_re, polyval_re]

section table
variable {K : Type} [Field K] [LinearOrder K] [IsStrictOrderedRing K]

/-- every entry of the table (`b = true`: corrected; `b = false`: as shipped, except the
`dims <= 2`, `rbf_family == 1` entry): `dRp` is the derivative of `Cf * Cb` -/
theorem rbf_dbasis_entries (cls : Nat) (fam : Int) (e : RbfEntry) (b : Bool)
    (h : rbfTable b cls fam = some e) (hb : b = true ∨ ¬ (fam = 1 ∧ cls = 0)) (t u : K) :
    (rbfPhi e (⟨t, u⟩ : Dual K)).du = rbfDPhi e t * u := by
  unfold rbfTable at h
  split at h
  all_goals first
    | (simp at h; done)
    | (obtain rfl := Option.some.inj h
       try (simp at hb; subst hb)
       unfold rbfPhi rbfDPhi polyval
       simp only [Dual.mul_du, Dual.div_du, Dual.div_re, powN_du', powN_re, Dual.natCast_re,
         Dual.natCast_du, Dual.sub_re, Dual.sub_du, Dual.one_re, Dual.one_du, powN_eq_pow]
       rw [polyval_dual _ _ 0 0 (by simp)]
       simp [List.foldl]
       try field_simp
       try ring)

end table

/-! ### RBF gradient -/

theorem dot_rbfGradN [DecidableEq K] {α : Type} (n : Nat) (tiny : K) (e : RbfEntry) (l : List α)
    (d : α → K) (xp : α → List K) (w : α → K) (dN : K) (xpm e' : List K)
    (hrows : ∀ x ∈ l, (xp x).length = n) (hxpm : xpm.length = n)
    (hd : ∀ x ∈ l, d x ≠ 0) (hN : dN ≠ 0) :
    dot (rbfGradN n tiny e (l.map d) dN (l.map xp) xpm (l.map w)) e'
      = sumL (l.map (fun x => rbfDPhi e (d x / dN) * w x
          * ((dot (xp x) e' - (d x / dN) * (d x / dN) * dot xpm e') / (dN * dN * (d x / dN))))) := by
  unfold rbfGradN
  simp only [List.map_map]
  rw [zipWith_map_map, zipWith_map_map]
  rw [dot_tMatVec_map n _ _ l e' (by
    intro x hx
    simp only [Function.comp, List.length_map, length_subV, length_smul, hrows x hx, hxpm, Nat.min_self])]
  apply sumL_map_congr
  intro x hx
  have ht : d x / dN ≠ 0 := div_ne_zero (hd x hx) hN
  simp only [Function.comp, if_neg ht]
  rw [dot_map_div, dot_subV_left _ _ _ (by rw [length_smul, hrows x hx, hxpm]), dot_smul_left]

/-! ### Kriging -/

theorem krig_expo_dual (θ : List K) (xs : List (Dual K)) (Xk : List K) :
    dot (θ.map Dual.const) ((subV xs (Xk.map Dual.const)).map (fun d => d * d))
      = ⟨dot θ ((subV (xs.map Dual.re) Xk).map (fun d => d * d)),
         two * dot (mulV θ (subV (xs.map Dual.re) Xk)) (xs.map Dual.du)⟩ := by
  induction θ generalizing xs Xk with
  | nil => apply Dual.ext' <;> simp [dot, mulV, sumL]
  | cons a as ih => cases xs with
    | nil => apply Dual.ext' <;> simp [dot, mulV, subV, sumL]
    | cons x xs' => cases Xk with
      | nil => apply Dual.ext' <;> simp [dot, mulV, subV, sumL]
      | cons c cs =>
        have e1 : subV (x :: xs') ((c :: cs).map Dual.const)
            = (x - Dual.const c) :: subV xs' (cs.map Dual.const) := by simp [subV]
        rw [List.map_cons, e1, List.map_cons, dotD_cons, ih xs' cs]
        apply Dual.ext'
        · simp
        · simp [two]; ring

theorem normV_dual (X : List (Dual K)) (m s : List K) (hs : ∀ c ∈ s, c ≠ 0)
    (h1 : m.length = X.length) (h2 : s.length = X.length) :
    (normV X (m.map Dual.const) (s.map Dual.const)).map Dual.re = normV (X.map Dual.re) m s
    ∧ (normV X (m.map Dual.const) (s.map Dual.const)).map Dual.du
        = List.zipWith (· / ·) (X.map Dual.du) s := by
  induction X generalizing m s with
  | nil => simp [normV, subV]
  | cons x xs ih => cases m with
    | nil => simp at h1
    | cons a as => cases s with
      | nil => simp at h2
      | cons c cs =>
        simp only [List.length_cons, Nat.add_right_cancel_iff] at h1 h2
        have hc : c ≠ 0 := hs c (by simp)
        obtain ⟨i1, i2⟩ := ih as cs (fun c' hc' => hs c' (by simp [hc'])) h1 h2
        have e1 : normV (x :: xs) ((a :: as).map Dual.const) ((c :: cs).map Dual.const)
            = ((x - Dual.const a) / Dual.const c)
              :: normV xs (as.map Dual.const) (cs.map Dual.const) := by simp [normV, subV]
        have e2 : normV ((x :: xs).map Dual.re) (a :: as) (c :: cs)
            = ((x.re - a) / c) :: normV (xs.map Dual.re) as cs := by simp [normV, subV]
        constructor
        · rw [e1, e2, List.map_cons, i1]; simp
        · rw [e1, List.map_cons, i2]
          simp only [List.map_cons, List.zipWith_cons_cons, List.cons.injEq, and_true]
          simp only [Dual.div_du, Dual.sub_du, Dual.sub_re, Dual.const_re, Dual.const_du]
          field_simp
          ring

theorem dot_zipWith_krig (ystd : K) (g s e : List K) :
    dot (List.zipWith (fun gj sj => ystd * (1 / sj) * gj) g s) e
      = ystd * dot g (List.zipWith (· / ·) e s) := by
  induction g generalizing s e with
  | nil => simp
  | cons a as ih => cases s with
    | nil => simp
    | cons c cs => cases e with
      | nil => simp
      | cons x xs =>
        simp only [List.zipWith_cons_cons, dot_cons]
        rw [ih cs xs]; ring

end OMV.C28
