/-
C11 — lemmas about the COO → slot map of `CSCMatrix._build` / `CSRMatrix._build`
(lexsort, first-occurrence marks, cumsum, scatter).  Core Lean only.
-/
import OMV.Model.C11

namespace OMV.C11

/-! ### marks + cumsum as one recursion -/

/-- slot numbers of the elements after `prev` (whose slot is `acc`) -/
def slotsAux (prev : Pos) (acc : Nat) : List Pos → List Nat
  | [] => []
  | p :: ps => (if p = prev then acc else acc + 1) :: slotsAux p (if p = prev then acc else acc + 1) ps

theorem cumsum_isNewAux (prev : Pos) (acc : Nat) (ps : List Pos) :
    (cumsum (acc + 1) (isNewAux prev ps)).map (· - 1) = slotsAux prev acc ps := by
  induction ps generalizing prev acc with
  | nil => rfl
  | cons p ps ih =>
    by_cases h : p = prev
    · subst h
      simp [isNewAux, cumsum, slotsAux, ih]
    · have hb : (p != prev) = true := by simp [h]
      simp only [isNewAux, cumsum, slotsAux, hb, h, if_false, List.map_cons, Bool.toNat_true]
      rw [ih]
      simp

theorem slotIdx_cons (p : Pos) (ps : List Pos) : slotIdx (p :: ps) = 0 :: slotsAux p 0 ps := by
  unfold slotIdx
  simp only [isNew, cumsum, Bool.toNat_true, List.map_cons]
  have := cumsum_isNewAux p 0 ps
  simp at this
  simp [this]

theorem slotsAux_length (prev : Pos) (acc : Nat) (ps : List Pos) :
    (slotsAux prev acc ps).length = ps.length := by
  induction ps generalizing prev acc with
  | nil => rfl
  | cons p ps ih => simp [slotsAux, ih]

theorem slotIdx_length (l : List Pos) : (slotIdx l).length = l.length := by
  cases l with
  | nil => rfl
  | cons p ps => simp [slotIdx_cons, slotsAux_length]

/-- Every element sits in the slot that holds its own position. -/
theorem slotsAux_spec (ps : List Pos) : ∀ (prev : Pos) (acc : Nat) (U : List Pos),
    U.length = acc + 1 → U[acc]? = some prev → ∀ k (hk : k < ps.length),
    ∃ s, (slotsAux prev acc ps)[k]? = some s ∧ (U ++ uniqAux prev ps)[s]? = some ps[k] := by
  induction ps with
  | nil => intro _ _ _ _ _ k hk; simp at hk
  | cons p ps ih =>
    intro prev acc U hlen hlast k hk
    by_cases h : p = prev
    · subst h
      cases k with
      | zero =>
        refine ⟨acc, by simp [slotsAux], ?_⟩
        simp only [uniqAux, if_true, List.getElem_cons_zero]
        rw [List.getElem?_append_left (by omega)]
        exact hlast
      | succ k =>
        have hk' : k < ps.length := by simpa using hk
        obtain ⟨s, hs1, hs2⟩ := ih p acc U hlen hlast k hk'
        refine ⟨s, by simpa [slotsAux] using hs1, ?_⟩
        simpa [uniqAux] using hs2
    · cases k with
      | zero =>
        refine ⟨acc + 1, by simp [slotsAux, h], ?_⟩
        simp only [uniqAux, h, if_false, List.getElem_cons_zero]
        rw [List.getElem?_append_right (by omega)]
        simp [hlen]
      | succ k =>
        have hk' : k < ps.length := by simpa using hk
        have hlen' : (U ++ [p]).length = (acc + 1) + 1 := by simp [hlen]
        have hlast' : (U ++ [p])[acc + 1]? = some p := by
          rw [List.getElem?_append_right (by omega)]
          simp [hlen]
        obtain ⟨s, hs1, hs2⟩ := ih p (acc + 1) (U ++ [p]) hlen' hlast' k hk'
        refine ⟨s, by simpa [slotsAux, h] using hs1, ?_⟩
        simpa [uniqAux, h] using hs2

theorem slotIdx_spec (l : List Pos) (k : Nat) (hk : k < l.length) :
    ∃ s, (slotIdx l)[k]? = some s ∧ (uniqOf l)[s]? = some l[k] := by
  cases l with
  | nil => simp at hk
  | cons p ps =>
    rw [slotIdx_cons]
    cases k with
    | zero => exact ⟨0, by simp, by simp [uniqOf]⟩
    | succ k =>
      have hk' : k < ps.length := by simpa using hk
      obtain ⟨s, hs1, hs2⟩ := slotsAux_spec ps p 0 [p] rfl rfl k hk'
      exact ⟨s, by simpa using hs1, by simpa [uniqOf] using hs2⟩

/-! ### the distinct positions of a sorted list are strictly increasing -/

section Order
variable (le : Pos → Pos → Bool)
  (htrans : ∀ a b c, le a b = true → le b c = true → le a c = true)
  (hanti : ∀ a b, le a b = true → le b a = true → a = b)

/-- strict version of the order -/
def ltOf (a b : Pos) : Prop := le a b = true ∧ a ≠ b

include htrans hanti in
theorem uniqAux_gt (ps : List Pos) : ∀ prev, (∀ x ∈ ps, le prev x = true) →
    ps.Pairwise (fun a b => le a b = true) → ∀ x ∈ uniqAux prev ps, ltOf le prev x := by
  induction ps with
  | nil => intro _ _ _ x hx; simp [uniqAux] at hx
  | cons p ps ih =>
    intro prev hprev hsorted x hx
    have hp : le prev p = true := hprev p (by simp)
    have hsorted' := (List.pairwise_cons.mp hsorted)
    have hpx : ∀ y ∈ ps, le p y = true := hsorted'.1
    by_cases h : p = prev
    · subst h
      simp only [uniqAux, if_true] at hx
      exact ih p hpx hsorted'.2 x hx
    · simp only [uniqAux, h, if_false, List.mem_cons] at hx
      rcases hx with rfl | hx
      · exact ⟨hp, fun e => h e.symm⟩
      · have hlt := ih p hpx hsorted'.2 x hx
        refine ⟨htrans _ _ _ hp hlt.1, ?_⟩
        intro e
        subst e
        exact hlt.2 (hanti _ _ hlt.1 hp)

include htrans hanti in
theorem uniqAux_pairwise (ps : List Pos) : ∀ prev, (∀ x ∈ ps, le prev x = true) →
    ps.Pairwise (fun a b => le a b = true) → (uniqAux prev ps).Pairwise (ltOf le) := by
  induction ps with
  | nil => intro _ _ _; simp [uniqAux]
  | cons p ps ih =>
    intro prev hprev hsorted
    have hsorted' := (List.pairwise_cons.mp hsorted)
    by_cases h : p = prev
    · subst h
      simp only [uniqAux, if_true]
      exact ih p hsorted'.1 hsorted'.2
    · simp only [uniqAux, h, if_false]
      exact List.pairwise_cons.mpr
        ⟨uniqAux_gt le htrans hanti ps p hsorted'.1 hsorted'.2, ih p hsorted'.1 hsorted'.2⟩

include htrans hanti in
theorem uniqOf_pairwise (l : List Pos) (hs : l.Pairwise (fun a b => le a b = true)) :
    (uniqOf l).Pairwise (ltOf le) := by
  cases l with
  | nil => simp [uniqOf]
  | cons p ps =>
    have hs' := List.pairwise_cons.mp hs
    exact List.pairwise_cons.mpr
      ⟨uniqAux_gt le htrans hanti ps p hs'.1 hs'.2, uniqAux_pairwise le htrans hanti ps p hs'.1 hs'.2⟩

end Order

/-! ### the stable sort is a permutation and sorts -/

theorem orderedInsert_perm {α : Type} (le : α → α → Bool) (a : α) (l : List α) :
    (orderedInsert le a l).Perm (a :: l) := by
  induction l with
  | nil => simp [orderedInsert]
  | cons b l ih =>
    by_cases h : le a b = true
    · simp [orderedInsert, h]
    · simp only [orderedInsert, h]
      exact ((List.Perm.cons b ih).trans (List.Perm.swap a b l))

theorem stableSort_perm {α : Type} (le : α → α → Bool) (l : List α) : (stableSort le l).Perm l := by
  induction l with
  | nil => simp [stableSort]
  | cons a l ih =>
    simp only [stableSort]
    exact (orderedInsert_perm le a _).trans (List.Perm.cons a ih)

theorem orderedInsert_pairwise {α : Type} (le : α → α → Bool)
    (htrans : ∀ a b c, le a b = true → le b c = true → le a c = true)
    (htotal : ∀ a b, (le a b || le b a) = true) (a : α) (l : List α)
    (hl : l.Pairwise (fun x y => le x y = true)) :
    (orderedInsert le a l).Pairwise (fun x y => le x y = true) := by
  induction l with
  | nil => simp [orderedInsert]
  | cons b l ih =>
    have hl' := List.pairwise_cons.mp hl
    by_cases h : le a b = true
    · simp only [orderedInsert, h, if_true]
      refine List.pairwise_cons.mpr ⟨?_, hl⟩
      intro x hx
      rcases List.mem_cons.mp hx with rfl | hx
      · exact h
      · exact htrans _ _ _ h (hl'.1 x hx)
    · simp only [orderedInsert, h]
      have hba : le b a = true := by
        have := htotal a b
        simp only [Bool.or_eq_true] at this
        rcases this with h1 | h1
        · exact absurd h1 h
        · exact h1
      refine List.pairwise_cons.mpr ⟨?_, ih hl'.2⟩
      intro x hx
      have := (orderedInsert_perm le a l).mem_iff.mp hx
      rcases List.mem_cons.mp this with rfl | hx'
      · exact hba
      · exact hl'.1 x hx'

theorem stableSort_pairwise {α : Type} (le : α → α → Bool)
    (htrans : ∀ a b c, le a b = true → le b c = true → le a c = true)
    (htotal : ∀ a b, (le a b || le b a) = true) (l : List α) :
    (stableSort le l).Pairwise (fun x y => le x y = true) := by
  induction l with
  | nil => simp [stableSort]
  | cons a l ih => exact orderedInsert_pairwise le htrans htotal a _ ih

/-! ### the sort order is a permutation and sorts -/

section SortSec
variable (le : Pos → Pos → Bool)
  (htrans : ∀ a b c, le a b = true → le b c = true → le a c = true)
  (htotal : ∀ a b, (le a b || le b a) = true)

theorem sortOrder_perm (P : List Pos) : (sortOrder le P).Perm (List.range P.length) :=
  stableSort_perm _ _

theorem sortOrder_nodup (P : List Pos) : (sortOrder le P).Nodup :=
  (sortOrder_perm le P).nodup_iff.mpr List.nodup_range

theorem sortOrder_length (P : List Pos) : (sortOrder le P).length = P.length := by
  simpa using (sortOrder_perm le P).length_eq

theorem mem_sortOrder (P : List Pos) (i : Nat) : i ∈ sortOrder le P ↔ i < P.length := by
  rw [(sortOrder_perm le P).mem_iff]; simp

include htrans htotal in
theorem sorted_pairwise (P : List Pos) :
    ((sortOrder le P).map (fun i => P.getD i (0, 0))).Pairwise (fun a b => le a b = true) := by
  rw [List.pairwise_map]
  exact stableSort_pairwise (fun i j => le (P.getD i (0, 0)) (P.getD j (0, 0)))
    (fun a b c => htrans _ _ _) (fun a b => htotal _ _) _

end SortSec

/-! ### scatter through a permutation -/

theorem lookup_zip_nodup (order idx : List Nat) : order.Nodup → ∀ k (h1 : k < order.length)
    (h2 : k < idx.length), (order.zip idx).lookup order[k] = some idx[k] := by
  induction order generalizing idx with
  | nil => intro _ k h1; simp at h1
  | cons a order ih =>
    intro hnd k h1 h2
    cases idx with
    | nil => simp at h2
    | cons b idx =>
      have hnd' := List.nodup_cons.mp hnd
      cases k with
      | zero => simp
      | succ k =>
        have h1' : k < order.length := by simpa using h1
        have h2' : k < idx.length := by simpa using h2
        have hne : order[k] ≠ a := fun e => hnd'.1 (e ▸ List.getElem_mem h1')
        simp only [List.zip_cons_cons, List.getElem_cons_succ, List.lookup_cons]
        have : (order[k] == a) = false := by simp [hne]
        rw [this]
        exact ih idx hnd'.2 k h1' h2'

/-- The map sends entry `i` to the slot whose position is the entry's position. -/
theorem cooToSlot_spec (le : Pos → Pos → Bool) (P : List Pos) (i : Nat) (hi : i < P.length) :
    ∃ s, (cooToSlot le P)[i]? = some s ∧ (slotPos le P)[s]? = some P[i] := by
  have hmem : i ∈ sortOrder le P := (mem_sortOrder le P i).mpr hi
  obtain ⟨k, hk, hki⟩ := List.getElem_of_mem hmem
  have hlen := sortOrder_length le P
  let sorted := (sortOrder le P).map (fun i => P.getD i (0, 0))
  have hks : k < sorted.length := by simp [sorted, hk]
  obtain ⟨s, hs1, hs2⟩ := slotIdx_spec sorted k hks
  have hkl : k < (slotIdx sorted).length := by rw [slotIdx_length]; exact hks
  have hsk : (slotIdx sorted)[k] = s := by
    have := List.getElem?_eq_getElem hkl
    rw [this] at hs1
    exact Option.some.inj hs1
  refine ⟨s, ?_, ?_⟩
  · unfold cooToSlot scatter
    simp only
    rw [List.getElem?_map, List.getElem?_range hi]
    simp only [Option.map_some]
    have := lookup_zip_nodup (sortOrder le P) (slotIdx sorted) (sortOrder_nodup le P) k hk hkl
    rw [hki] at this
    simp only [sorted] at this hsk
    rw [this, hsk]
    rfl
  · have hsorted_k : sorted[k] = P[i] := by
      simp only [sorted, List.getElem_map, hki]
      simp [List.getD_eq_getElem?_getD, hi]
    unfold slotPos
    rw [← hsorted_k]
    exact hs2

theorem cooToSlot_length (le : Pos → Pos → Bool) (P : List Pos) :
    (cooToSlot le P).length = P.length := by
  simp [cooToSlot, scatter]

/-! ### consequences: one slot per distinct position, in the order of `le` -/

section Consequences
variable (le : Pos → Pos → Bool)
  (htrans : ∀ a b c, le a b = true → le b c = true → le a c = true)
  (htotal : ∀ a b, (le a b || le b a) = true)
  (hanti : ∀ a b, le a b = true → le b a = true → a = b)

include htrans htotal hanti in
theorem slotPos_pairwise (P : List Pos) : (slotPos le P).Pairwise (ltOf le) :=
  uniqOf_pairwise le htrans hanti _ (sorted_pairwise le htrans htotal P)

theorem pairwise_get {R : Pos → Pos → Prop} (U : List Pos) (h : U.Pairwise R) (a b : Nat)
    (x y : Pos) (hx : U[a]? = some x) (hy : U[b]? = some y) (hab : a < b) : R x y := by
  obtain ⟨ha, hxa⟩ := List.getElem?_eq_some_iff.mp hx
  obtain ⟨hb, hyb⟩ := List.getElem?_eq_some_iff.mp hy
  rw [← hxa, ← hyb]
  exact (List.pairwise_iff_getElem.mp h) a b ha hb hab

include htrans htotal hanti in
/-- Entries at the same position share a slot, entries at different positions never do. -/
theorem slot_eq_iff (P : List Pos) (i j : Nat) (hi : i < P.length) (hj : j < P.length) :
    (cooToSlot le P)[i]? = (cooToSlot le P)[j]? ↔ P[i] = P[j] := by
  obtain ⟨s, hs1, hs2⟩ := cooToSlot_spec le P i hi
  obtain ⟨t, ht1, ht2⟩ := cooToSlot_spec le P j hj
  have hpw := slotPos_pairwise le htrans htotal hanti P
  rw [hs1, ht1]
  constructor
  · intro h
    have : s = t := Option.some.inj h
    subst this
    rw [hs2] at ht2
    exact Option.some.inj ht2
  · intro h
    rcases Nat.lt_trichotomy s t with hlt | heq | hgt
    · exact absurd h (pairwise_get _ hpw s t _ _ hs2 ht2 hlt).2
    · rw [heq]
    · exact absurd h.symm (pairwise_get _ hpw t s _ _ ht2 hs2 hgt).2

include htrans htotal hanti in
/-- The slots follow the order of the positions. -/
theorem slot_lt_of_lt (P : List Pos) (i j : Nat) (hi : i < P.length) (hj : j < P.length)
    (hlt : ltOf le P[i] P[j]) :
    ∃ s t, (cooToSlot le P)[i]? = some s ∧ (cooToSlot le P)[j]? = some t ∧ s < t := by
  obtain ⟨s, hs1, hs2⟩ := cooToSlot_spec le P i hi
  obtain ⟨t, ht1, ht2⟩ := cooToSlot_spec le P j hj
  have hpw := slotPos_pairwise le htrans htotal hanti P
  refine ⟨s, t, hs1, ht1, ?_⟩
  rcases Nat.lt_trichotomy s t with h | h | h
  · exact h
  · subst h
    rw [hs2] at ht2
    exact absurd (Option.some.inj ht2) hlt.2
  · have := pairwise_get _ hpw t s _ _ ht2 hs2 h
    exact absurd (hanti _ _ hlt.1 this.1) hlt.2

end Consequences

/-! ### the two orders used by the code -/

theorem leCsc_trans (a b c : Pos) : leCsc a b = true → leCsc b c = true → leCsc a c = true := by
  simp only [leCsc, Bool.or_eq_true, Bool.and_eq_true, decide_eq_true_eq]; omega

theorem leCsc_total (a b : Pos) : (leCsc a b || leCsc b a) = true := by
  simp only [leCsc, Bool.or_eq_true, Bool.and_eq_true, decide_eq_true_eq]; omega

theorem leCsc_antisymm (a b : Pos) : leCsc a b = true → leCsc b a = true → a = b := by
  simp only [leCsc, Bool.or_eq_true, Bool.and_eq_true, decide_eq_true_eq]
  intro h1 h2
  exact Prod.ext (by omega) (by omega)

theorem leCsr_trans (a b c : Pos) : leCsr a b = true → leCsr b c = true → leCsr a c = true := by
  simp only [leCsr, Bool.or_eq_true, Bool.and_eq_true, decide_eq_true_eq]; omega

theorem leCsr_total (a b : Pos) : (leCsr a b || leCsr b a) = true := by
  simp only [leCsr, Bool.or_eq_true, Bool.and_eq_true, decide_eq_true_eq]; omega

theorem leCsr_antisymm (a b : Pos) : leCsr a b = true → leCsr b a = true → a = b := by
  simp only [leCsr, Bool.or_eq_true, Bool.and_eq_true, decide_eq_true_eq]
  intro h1 h2
  exact Prod.ext (by omega) (by omega)

/-- strict column-major order -/
def colMajorLt (a b : Pos) : Prop := a.2 < b.2 ∨ (a.2 = b.2 ∧ a.1 < b.1)

/-- strict row-major order -/
def rowMajorLt (a b : Pos) : Prop := a.1 < b.1 ∨ (a.1 = b.1 ∧ a.2 < b.2)

theorem ltOf_leCsc (a b : Pos) : ltOf leCsc a b ↔ colMajorLt a b := by
  unfold ltOf colMajorLt
  simp only [leCsc, Bool.or_eq_true, Bool.and_eq_true, decide_eq_true_eq]
  constructor
  · rintro ⟨h, hne⟩
    by_cases h2 : a.2 < b.2
    · exact Or.inl h2
    · have h3 : a.2 = b.2 ∧ a.1 ≤ b.1 := by omega
      refine Or.inr ⟨h3.1, ?_⟩
      rcases Nat.lt_or_ge a.1 b.1 with h4 | h4
      · exact h4
      · exact absurd (Prod.ext (by omega) h3.1) hne
  · intro h
    refine ⟨by omega, ?_⟩
    intro e
    subst e
    omega

theorem ltOf_leCsr (a b : Pos) : ltOf leCsr a b ↔ rowMajorLt a b := by
  unfold ltOf rowMajorLt
  simp only [leCsr, Bool.or_eq_true, Bool.and_eq_true, decide_eq_true_eq]
  constructor
  · rintro ⟨h, hne⟩
    by_cases h2 : a.1 < b.1
    · exact Or.inl h2
    · have h3 : a.1 = b.1 ∧ a.2 ≤ b.2 := by omega
      refine Or.inr ⟨h3.1, ?_⟩
      rcases Nat.lt_or_ge a.2 b.2 with h4 | h4
      · exact h4
      · exact absurd (Prod.ext h3.1 (by omega)) hne
  · intro h
    refine ⟨by omega, ?_⟩
    intro e
    subst e
    omega

end OMV.C11
