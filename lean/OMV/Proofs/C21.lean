/-
C21 — helper lemmas: which dicts the old-style loop produces, and the record/element equivalence
for both code variants.
-/
import OMV.Model.C21
import Mathlib.Algebra.Order.Field.Basic
import Mathlib.Tactic.Linarith
import Mathlib.Tactic.Ring

set_option linter.unusedSectionVars false
set_option linter.unusedVariables false

namespace OMV.C21

variable {K : Type} [Field K] [LinearOrder K] [IsStrictOrderedRing K]

def kindOf (isEq : Bool) : Kind := if isEq then .eq else .ineq

/-- Once the loop variables are scalars they stay the same scalars. -/
theorem mem_oldLoop_sc (v : Variant) (inf u l : K) (isEq : Bool) (n j : Nat) (r : Rec) :
    r ∈ oldLoop v inf isEq n j (.sc u) (.sc l) ↔
      ∃ i, j ≤ i ∧ i < j + n ∧
        (r = ⟨kindOf isEq, i, false⟩ ∨ (isDbl inf u l = true ∧ r = ⟨.ineq, i, true⟩)) := by
  induction n generalizing j with
  | zero =>
    simp only [oldLoop, List.not_mem_nil, Nat.add_zero, false_iff]
    rintro ⟨i, h1, h2, _⟩; omega
  | succ n ih =>
    have hstep : oldLoop v inf isEq (n + 1) j (.sc u) (.sc l) =
        (⟨kindOf isEq, j, false⟩ :: (if isDbl inf u l then [⟨.ineq, j, true⟩] else []))
          ++ oldLoop v inf isEq n (j + 1) (.sc u) (.sc l) := by
      cases hv : v.rebind <;> simp [oldLoop, PyVar.get, hv, kindOf] <;>
        (by_cases hd : isDbl inf u l = true <;> simp [hd])
    rw [hstep, List.mem_append, ih]
    constructor
    · rintro (h | ⟨i, h1, h2, h3⟩)
      · rcases List.mem_cons.mp h with h | h
        · exact ⟨j, le_refl _, by omega, Or.inl h⟩
        · by_cases hd : isDbl inf u l = true
          · rw [if_pos hd] at h
            exact ⟨j, le_refl _, by omega, Or.inr ⟨hd, by simpa using h⟩⟩
          · rw [if_neg hd] at h; simp at h
      · exact ⟨i, by omega, by omega, h3⟩
    · rintro ⟨i, h1, h2, h3⟩
      by_cases hij : i = j
      · subst hij
        left
        rcases h3 with h3 | ⟨hd, h3⟩
        · rw [h3]; exact List.mem_cons_self
        · rw [h3, if_pos hd]; simp
      · right; exact ⟨i, by omega, by omega, h3⟩

/-- Without rebinding every element is tested with its own bounds. -/
theorem mem_oldLoop_arr (v : Variant) (hv : v.rebind = false) (inf : K) (up lo : Nat → K)
    (isEq : Bool) (n j : Nat) (r : Rec) :
    r ∈ oldLoop v inf isEq n j (.arr up) (.arr lo) ↔
      ∃ i, j ≤ i ∧ i < j + n ∧
        (r = ⟨kindOf isEq, i, false⟩ ∨
          (isDbl inf (up i) (lo i) = true ∧ r = ⟨.ineq, i, true⟩)) := by
  induction n generalizing j with
  | zero =>
    simp only [oldLoop, List.not_mem_nil, Nat.add_zero, false_iff]
    rintro ⟨i, h1, h2, _⟩; omega
  | succ n ih =>
    have hstep : oldLoop v inf isEq (n + 1) j (.arr up) (.arr lo) =
        (⟨kindOf isEq, j, false⟩ :: (if isDbl inf (up j) (lo j) then [⟨.ineq, j, true⟩] else []))
          ++ oldLoop v inf isEq n (j + 1) (.arr up) (.arr lo) := by
      simp [oldLoop, PyVar.get, hv, kindOf]
      by_cases hd : isDbl inf (up j) (lo j) = true <;> simp [hd]
    rw [hstep, List.mem_append, ih]
    constructor
    · rintro (h | ⟨i, h1, h2, h3⟩)
      · rcases List.mem_cons.mp h with h | h
        · exact ⟨j, le_refl _, by omega, Or.inl h⟩
        · by_cases hd : isDbl inf (up j) (lo j) = true
          · rw [if_pos hd] at h
            exact ⟨j, le_refl _, by omega, Or.inr ⟨hd, by simpa using h⟩⟩
          · rw [if_neg hd] at h; simp at h
      · exact ⟨i, by omega, by omega, h3⟩
    · rintro ⟨i, h1, h2, h3⟩
      by_cases hij : i = j
      · subst hij
        left
        rcases h3 with h3 | ⟨hd, h3⟩
        · rw [h3]; exact List.mem_cons_self
        · rw [h3, if_pos hd]; simp
      · right; exact ⟨i, by omega, by omega, h3⟩

/-- The element whose bounds decide `dblcon` for element `i`. -/
def dblIdx (v : Variant) (i : Nat) : Nat := if v.rebind then 0 else i

/-- All dicts of one constraint, both code variants. -/
theorem mem_oldRecords (v : Variant) (inf : K) (c : Con K) (r : Rec) :
    r ∈ oldRecords v inf c ↔
      ∃ i, i < c.size ∧
        (r = ⟨kindOf c.equals.isSome, i, false⟩ ∨
          (isDbl inf (c.upper (dblIdx v i)) (c.lower (dblIdx v i)) = true ∧
            r = ⟨.ineq, i, true⟩)) := by
  unfold oldRecords
  cases hv : v.rebind
  · rw [mem_oldLoop_arr v hv]
    simp only [dblIdx, hv, Nat.zero_le, true_and, Nat.zero_add]
    simp
  · cases hn : c.size with
    | zero =>
      simp only [oldLoop, List.not_mem_nil, false_iff]
      rintro ⟨i, h1, _⟩; omega
    | succ n =>
      have hstep : oldLoop v inf c.equals.isSome (n + 1) 0 (.arr c.upper) (.arr c.lower) =
          (⟨kindOf c.equals.isSome, 0, false⟩ ::
            (if isDbl inf (c.upper 0) (c.lower 0) then [⟨.ineq, 0, true⟩] else []))
            ++ oldLoop v inf c.equals.isSome n 1 (.sc (c.upper 0)) (.sc (c.lower 0)) := by
        simp [oldLoop, PyVar.get, hv, kindOf]
        by_cases hd : isDbl inf (c.upper 0) (c.lower 0) = true <;> simp [hd]
      rw [hstep, List.mem_append, mem_oldLoop_sc]
      simp only [dblIdx, hv, if_true]
      constructor
      · rintro (h | ⟨i, h1, h2, h3⟩)
        · rcases List.mem_cons.mp h with h | h
          · exact ⟨0, by omega, Or.inl h⟩
          · by_cases hd : isDbl inf (c.upper 0) (c.lower 0) = true
            · rw [if_pos hd] at h
              exact ⟨0, by omega, Or.inr ⟨hd, by simpa using h⟩⟩
            · rw [if_neg hd] at h; simp at h
        · exact ⟨i, by omega, h3⟩
      · rintro ⟨i, h1, h3⟩
        by_cases hi : i = 0
        · subst hi
          left
          rcases h3 with h3 | ⟨hd, h3⟩
          · rw [h3]; exact List.mem_cons_self
          · rw [h3, if_pos hd]; simp
        · right; exact ⟨i, by omega, by omega, h3⟩

theorem isDbl_iff (inf up lo : K) : isDbl inf up lo = true ↔ up < inf ∧ -inf < lo := by
  simp [isDbl]

/-- The side condition under which the rebinding is harmless: element 0 is double-sided (then every
element gets both dicts) or no later element is. -/
def RebindHarmless (v : Variant) (inf : K) (c : Con K) : Prop :=
  v.rebind = true →
    (isDbl inf (c.upper 0) (c.lower 0) = true ∨
      ∀ j, 0 < j → j < c.size → isDbl inf (c.upper j) (c.lower j) = false)

/-- Records satisfied ⇔ elements feasible, for both variants under `RebindHarmless`. -/
theorem dicts_cover_gen (v : Variant) (inf tol : K) (c : Con K) (g : Nat → K)
    (htol : 0 ≤ tol) (hg : ∀ j, j < c.size → g j < inf) (hH : RebindHarmless v inf c) :
    (∀ r ∈ oldRecords v inf c, recSat tol r.kind (confunc inf c g r)) ↔
      ∀ j, j < c.size → ElemOK inf tol c g j := by
  constructor
  · intro h j hj
    have h1 := h ⟨kindOf c.equals.isSome, j, false⟩
      ((mem_oldRecords v inf c _).mpr ⟨j, hj, Or.inl rfl⟩)
    cases hc : c.equals with
    | some e =>
      simp only [ElemOK, hc, EqOK]
      simpa [recSat, confunc, hc, kindOf] using h1
    | none =>
      simp only [ElemOK, hc, IntervalOK]
      simp only [recSat, confunc, hc, kindOf, Option.isSome_none, Bool.false_or,
        Bool.false_eq_true, if_false, decide_eq_true_eq] at h1
      by_cases hlo : c.lower j ≤ -inf
      · rw [if_pos hlo] at h1
        exact ⟨Or.inl hlo, Or.inr (by linarith)⟩
      · rw [if_neg hlo] at h1
        refine ⟨Or.inr (by linarith), ?_⟩
        by_cases hup : inf ≤ c.upper j
        · exact Or.inl hup
        · right
          have hd : isDbl inf (c.upper j) (c.lower j) = true :=
            (isDbl_iff _ _ _).mpr ⟨not_le.mp hup, not_le.mp hlo⟩
          have hd' : isDbl inf (c.upper (dblIdx v j)) (c.lower (dblIdx v j)) = true := by
            cases hv : v.rebind
            · simpa [dblIdx, hv] using hd
            · simp only [dblIdx, hv, if_true]
              rcases hH hv with h0 | hall
              · exact h0
              · by_cases hj0 : j = 0
                · subst hj0; exact hd
                · have := hall j (Nat.pos_of_ne_zero hj0) hj
                  rw [this] at hd; exact absurd hd (by simp)
          have h2 := h ⟨.ineq, j, true⟩
            ((mem_oldRecords v inf c _).mpr ⟨j, hj, Or.inr ⟨hd', rfl⟩⟩)
          simp only [recSat, confunc, hc, Bool.true_or, if_true] at h2
          linarith
  · intro h r hr
    obtain ⟨i, hi, hr⟩ := (mem_oldRecords v inf c r).mp hr
    have hE := h i hi
    have hgi := hg i hi
    cases hc : c.equals with
    | some e =>
      simp only [ElemOK, hc, EqOK] at hE
      rcases hr with hr | ⟨_, hr⟩
      · subst hr; simpa [recSat, confunc, hc, kindOf] using hE
      · subst hr; simpa [recSat, confunc, hc] using hE.1
    | none =>
      simp only [ElemOK, hc, IntervalOK] at hE
      have hupper : -tol ≤ c.upper i - g i := by
        rcases hE.2 with h2 | h2 <;> linarith
      rcases hr with hr | ⟨_, hr⟩
      · subst hr
        simp only [recSat, confunc, hc, kindOf, Option.isSome_none, Bool.false_or,
          Bool.false_eq_true, if_false, decide_eq_true_eq]
        by_cases hlo : c.lower i ≤ -inf
        · rw [if_pos hlo]; exact hupper
        · rw [if_neg hlo]
          rcases hE.1 with h1 | h1
          · exact absurd h1 hlo
          · linarith
      · subst hr
        simp only [recSat, confunc, hc, Bool.true_or, if_true]
        exact hupper

end OMV.C21
