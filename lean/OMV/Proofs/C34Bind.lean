/-
C34 helper lemmas, part 3: argument binding (`_func_values`, `_ordered_func_invals`), the column
order of the implicit component (`_get_jac2func_inds`, `_reorder_col_chunks`) and the AD contract
for the expression language.
-/
import OMV.Proofs.C34Jac
import OMV.Proofs.C14Comp

set_option linter.unusedSectionVars false
set_option linter.unusedVariables false

namespace OMV.C34
open OMV.C14

/-! ### binding -/

theorem rankBefore_succ_cons (q : Arg → Bool) (b : Arg) (r : List Arg) (p : Nat) :
    rankBefore q (b :: r) (p + 1) = (if q b then 1 else 0) + rankBefore q r p := by
  unfold rankBefore
  by_cases hb : q b = true
  · simp [List.take_succ_cons, List.filter_cons, hb]; omega
  · simp [List.take_succ_cons, List.filter_cons, hb]

/-- `next(it)` hands out the variables in the order `setup` created them: the variable met at
position `p` is the one named `p`. -/
theorem positionsFrom_rank (q : Arg → Bool) : ∀ (args : List Arg) (i p : Nat) (a : Arg),
    args[p]? = some a → q a = true →
    (positionsFrom q i args)[rankBefore q args p]? = some (i + p) := by
  intro args
  induction args with
  | nil => intro i p a h; simp at h
  | cons b r ih =>
    intro i p a h hq
    cases p with
    | zero =>
      simp only [List.getElem?_cons_zero, Option.some.injEq] at h
      subst h
      simp [positionsFrom, hq, rankBefore]
    | succ p =>
      simp only [List.getElem?_cons_succ] at h
      rw [rankBefore_succ_cons]
      have := ih (i + 1) p a h hq
      by_cases hb : q b = true
      · simp only [positionsFrom, hb, if_true]
        rw [Nat.add_comm 1, List.getElem?_cons_succ, this]
        congr 1; omega
      · simp only [positionsFrom, hb]
        simp only [Bool.false_eq_true, if_false, Nat.zero_add]
        rw [this]; congr 1; omega

theorem role_input (f : Func) (p : Nat) (h : f.role p = .input) :
    ∃ a, f.args[p]? = some a ∧ a.isInput = true := by
  unfold Func.role at h
  cases ha : f.args[p]? with
  | none => rw [ha] at h; cases h
  | some a => rw [ha] at h; exact ⟨a, rfl, by simp [Arg.isInput, h]⟩

theorem role_state (f : Func) (p k : Nat) (h : f.role p = .state k) :
    ∃ a, f.args[p]? = some a ∧ a.isState = true := by
  unfold Func.role at h
  cases ha : f.args[p]? with
  | none => rw [ha] at h; cases h
  | some a => rw [ha] at h; exact ⟨a, rfl, by simp [Arg.isState, h]⟩

theorem inputVars_rank (f : Func) (p : Nat) (h : f.role p = .input) :
    f.inputVars.getD (rankBefore Arg.isInput f.args p) f.args.length = p := by
  obtain ⟨a, ha, hq⟩ := role_input f p h
  have := positionsFrom_rank Arg.isInput f.args 0 p a ha hq
  simp [Func.inputVars, List.getD, this]

theorem stateArgs_rank (f : Func) (p k : Nat) (h : f.role p = .state k) :
    f.stateArgs[rankBefore Arg.isState f.args p]? = some p := by
  obtain ⟨a, ha, hq⟩ := role_state f p k h
  have := positionsFrom_rank Arg.isState f.args 0 p a ha hq
  simpa [Func.stateArgs] using this

theorem stateOfResid_spec (f : Func) (k p : Nat) (h : f.stateOfResid k = p)
    (hp : p < f.args.length) : f.role p = .state k := by
  unfold Func.stateOfResid at h
  cases hf : (List.range f.args.length).find? (fun p => f.role p == .state k) with
  | none => rw [hf] at h; simp only at h; omega
  | some q =>
    rw [hf] at h
    simp only at h
    subst h
    have := List.find?_some hf
    simpa using this

/-- With the states in the order of their residuals the positional `next(outs)` hands every state
argument its own output. -/
theorem state_rank_of_inOrder (f : Func) (hord : f.statesInOrder = true) (p k : Nat)
    (h : f.role p = .state k) : rankBefore Arg.isState f.args p = k := by
  have hl : f.stateArgs = (List.range f.rets.length).map f.stateOfResid := by
    simpa [Func.statesInOrder] using hord
  have h1 := stateArgs_rank f p k h
  rw [hl] at h1
  have hp : p < f.args.length := by
    obtain ⟨a, ha, _⟩ := role_state f p k h
    exact (List.getElem?_eq_some_iff.mp ha).1
  rw [List.getElem?_map] at h1
  cases hr : (List.range f.rets.length)[rankBefore Arg.isState f.args p]? with
  | none => rw [hr] at h1; simp at h1
  | some m =>
    rw [hr] at h1
    simp only [Option.map_some, Option.some.injEq] at h1
    have hm : m = rankBefore Arg.isState f.args p := by
      have := List.getElem?_eq_some_iff.mp hr
      obtain ⟨h2, h3⟩ := this
      simpa using h3.symm
    have hrole := stateOfResid_spec f m p h1 hp
    rw [h] at hrole
    cases hrole
    exact hm.symm

section binding
variable {K : Type}

/-- Every argument receives the variable of its own name. -/
theorem orderedInvals_named (byName : Bool) (f : Func) (uin uout opt : Nat → Nat → K)
    (h : byName = true ∨ f.statesInOrder = true) :
    orderedInvals byName f (inputVector f uin) uout opt = namedInvals f uin uout opt := by
  funext p j
  unfold orderedInvals namedInvals
  cases hr : f.role p with
  | option => rfl
  | input =>
    simp only [inputVector]
    rw [inputVars_rank f p hr]
  | state k =>
    simp only
    rcases h with h | h
    · simp [h]
    · rw [state_rank_of_inOrder f h p k hr]; simp

/-- An explicit function has no state arguments: the flag is irrelevant. -/
theorem orderedInvals_named_explicit (byName : Bool) (f : Func) (uin uout opt : Nat → Nat → K)
    (hexp : ∀ p k, f.role p ≠ .state k) :
    orderedInvals byName f (inputVector f uin) uout opt = namedInvals f uin uout opt := by
  funext p j
  unfold orderedInvals namedInvals
  cases hr : f.role p with
  | option => rfl
  | input =>
    simp only [inputVector]
    rw [inputVars_rank f p hr]
  | state k => exact absurd hr (hexp p k)

end binding

/-! ### columns of the implicit component -/

theorem flatMap_range'_getD (l : List Nat) (start size : Nat → Nat) (d : Nat) :
    ∀ q j, j < (l.map size).getD q 0 →
      (l.flatMap fun p => List.range' (start p) (size p)).getD (offset (l.map size) q + j) d
        = start (l.getD q 0) + j := by
  induction l with
  | nil => intro q j hj; simp at hj
  | cons a r ih =>
    intro q j hj
    cases q with
    | zero =>
      simp only [List.map_cons, List.getD_cons_zero] at hj
      simp only [List.map_cons, offset_zero, Nat.zero_add, List.flatMap_cons, List.getD_cons_zero]
      simp only [List.getD_eq_getElem?_getD]
      rw [List.getElem?_append_left (by simpa using hj)]
      simp [List.getElem?_range', hj]
    | succ q =>
      simp only [List.map_cons, List.getD_cons_succ] at hj
      simp only [List.map_cons, offset_succ_cons, List.flatMap_cons, List.getD_cons_succ]
      have := ih q j hj
      simp only [List.getD_eq_getElem?_getD] at this ⊢
      rw [List.getElem?_append_right (by simp; omega)]
      simp only [List.length_range']
      rw [show size a + offset (List.map size r) q + j - size a = offset (List.map size r) q + j by omega]
      exact this

/-- The variables of the OpenMDAO jacobian columns of an implicit component, as argument
positions: outputs in vector order, then inputs in vector order. -/
def Func.omVars (f : Func) : List Nat := (List.range f.rets.length).map f.stateOfResid ++ f.inputVars

theorem omColSizes_eq (f : Func) : f.omColSizes = f.omVars.map f.colSize := rfl

/-- `_get_jac2func_inds` sends column `j` of OpenMDAO variable `q` to column `j` of the argument of
the same name in function order. -/
theorem jac2func_getD (f : Func) (q j : Nat) (hj : j < f.omColSizes.getD q 0) :
    f.jac2func.getD (offset f.omColSizes q + j) f.isize
      = offset f.colSizes (f.omVars.getD q 0) + j := by
  have := flatMap_range'_getD f.omVars (fun p => offset f.colSizes p) f.colSize f.isize q j
    (by simpa [omColSizes_eq] using hj)
  have hc : f.colsOf = fun p => List.range' (offset f.colSizes p) (f.colSize p) := by
    funext p; rfl
  rw [omColSizes_eq]
  unfold Func.jac2func
  rw [hc]
  exact this

theorem chunkOrder_eq (byName : Bool) (f : Func) (h : byName = true ∨ f.statesInOrder = true) :
    f.chunkOrder byName = f.omVars := by
  unfold Func.chunkOrder Func.omVars
  rcases h with h | h
  · simp [h]
  · have hl : f.stateArgs = (List.range f.rets.length).map f.stateOfResid := by
      simpa [Func.statesInOrder] using h
    cases byName <;> simp [hl]

section implicit
variable {K : Type} [Field K]

theorem jvp_eye (f : Func) (ad : AD K) (J : Nat → Nat → Nat → Nat → K) (hJ : IsJac f ad J)
    (u p r j : Nat) (hj : j < f.colSize p) :
    ad.jvp (eyeSeed f.colSizes (offset f.colSizes p + j)) u r = J u p r j := by
  rw [hJ.jvp _ u r (fun p' j' h => eyeSeed_vanish f.colSizes _ p' j' h)]
  rw [← colSizes_length f]
  have := sum_sizes_single f.colSizes p j
    (fun p' j' => eyeSeed (K := K) f.colSizes (offset f.colSizes p + j) p' j' * J u p' r j') hj
    (by
      intro p' j' hj' hne
      have : ¬ (offset f.colSizes p' + j' = offset f.colSizes p + j) := by
        intro he
        exact hne (offset_inj f.colSizes p' j' p j hj' hj he)
      rw [eyeSeed_miss _ _ _ _ (fun hh => this hh.1), zero_mul])
  simp only [Func.colSize] at this ⊢
  rw [this, eyeSeed_hit _ _ _ _ rfl hj, one_mul]

theorem vjp_eye (f : Func) (ad : AD K) (J : Nat → Nat → Nat → Nat → K) (hJ : IsJac f ad J)
    (u p r j : Nat) (hr : r < f.retSize u) :
    ad.vjp (eyeSeed f.retSizes (offset f.retSizes u + r)) p j = J u p r j := by
  rw [hJ.vjp _ p j (fun u' r' h => eyeSeed_vanish f.retSizes _ u' r' h)]
  rw [← retSizes_length f]
  have := sum_sizes_single f.retSizes u r
    (fun u' r' => eyeSeed (K := K) f.retSizes (offset f.retSizes u + r) u' r' * J u' p r' j) hr
    (by
      intro u' r' hr' hne
      have : ¬ (offset f.retSizes u' + r' = offset f.retSizes u + r) := by
        intro he
        exact hne (offset_inj f.retSizes u' r' u r hr' hr he)
      rw [eyeSeed_miss _ _ _ _ (fun hh => this hh.1), zero_mul])
  simp only [Func.retSize] at this ⊢
  rw [this, eyeSeed_hit _ _ _ _ rfl hr, one_mul]

/-- fwd branch of `ImplicitFuncComp._jax_linearize`: `_reorder_cols` puts the exact partial with
respect to the variable of OpenMDAO column block `q` into that block. -/
theorem ifcFwd_exact (f : Func) (ad : AD K) (J : Nat → Nat → Nat → Nat → K) (hJ : IsJac f ad J)
    (u q r j : Nat) (hr : r < f.retSize u) (hj : j < f.omColSizes.getD q 0) :
    ifcFwd f ad (offset f.retSizes u + r) (offset f.omColSizes q + j)
      = J u (f.omVars.getD q 0) r j := by
  unfold ifcFwd
  rw [jac2func_getD f q j hj]
  have hj' : j < f.colSize (f.omVars.getD q 0) := by
    have : f.omColSizes.getD q 0 = f.colSize (f.omVars.getD q 0) ∨ f.omColSizes.getD q 0 = 0 := by
      rw [omColSizes_eq]
      by_cases hq : q < f.omVars.length
      · left; simp [List.getD, List.getElem?_map, List.getElem?_eq_getElem hq]
      · right; simp [List.getD, List.getElem?_eq_none (Nat.le_of_not_lt hq)]
    rcases this with h | h <;> omega
  exact efcFwd_exact f ad J hJ u _ r j hr hj'

/-- rev branch: `_reorder_col_chunks` + `np.hstack`. -/
theorem ifcRev_exact (byName : Bool) (f : Func) (ad : AD K) (J : Nat → Nat → Nat → Nat → K)
    (hJ : IsJac f ad J) (h : byName = true ∨ f.statesInOrder = true)
    (u q r j : Nat) (hr : r < f.retSize u) (hj : j < f.omColSizes.getD q 0) :
    ifcRev byName f ad (offset f.retSizes u + r) (offset f.omColSizes q + j)
      = J u (f.omVars.getD q 0) r j := by
  unfold ifcRev
  simp only [chunkOrder_eq byName f h, ← omColSizes_eq]
  rw [locate_offset f.omColSizes q j hj]
  simp only
  have hq : q < f.omVars.length := by
    have := getD_pos_lt f.omColSizes q j hj
    simpa [omColSizes_eq] using this
  have hp : f.omVars.getD q f.args.length = f.omVars.getD q 0 := by
    simp [List.getD, List.getElem?_eq_getElem hq]
  rw [hp]
  have hj' : j < f.colSize (f.omVars.getD q 0) := by
    have : f.omColSizes.getD q 0 = f.colSize (f.omVars.getD q 0) := by
      rw [omColSizes_eq]; simp [List.getD, List.getElem?_map, List.getElem?_eq_getElem hq]
    omega
  have hrow : offset f.retSizes u + r < f.osize := offset_add_lt f.retSizes u r hr
  rw [revBlock_eq _ _ _ _ _ _ _ hrow (by rw [← colSize_eq f _ j hj']; exact hj')]
  exact vjp_eye f ad J hJ u _ r j hr

end implicit

/-! ### the AD contract holds for the expression language -/

section expr
variable {K : Type} [Field K] (p : String → K → K) (p2 : String → K → K → K) (D : Deriv K)

theorem comp_ins_length (f : Func) : f.comp.ins.length = f.args.length := by simp [Func.comp]

/-- Forward mode over the dual numbers returns `J·d` and the transposed product returns `Jᵀ·w`
with `J` the partials given by the differentiation rules: the expression-language engine meets
the contract that the components rely on. -/
theorem exprAD_isJac (f : Func) (x : Nat → Nat → K) :
    IsJac f (exprAD (fieldAlg p p2) D f x) (exactJ (fieldAlg p p2) D f x) := by
  constructor
  · intro d u r hd
    show duOut (fieldAlg p p2) D f.comp x d u r = _
    rw [duOut_eq_tangent]
    have h := lin_decomp
      (fun d => tangentAt (fieldAlg p p2) D f.comp.sh x d (f.comp.outExpr u)
        (bidx (shapeOf f.comp.sh (f.comp.outExpr u)) r))
      (fun d d' => tangentAt_add p p2 D f.comp.sh x d d' _ _)
      (fun a d => tangentAt_smul p p2 D f.comp.sh x d a _ _)
      f.args.length f.colSize d (fun v j hv => hd v j (fun hh => hv ⟨by
        by_contra hlen
        have : f.colSize v = 0 := by
          simp [Func.colSize, Func.colSizes, List.getD, List.getElem?_eq_none (Nat.le_of_not_lt hlen)]
        omega, hh⟩))
    simp only [exactJ, jacSpec, seedOne_eq_unitDir]
    exact h
  · intro w q j _
    show sumN (fieldAlg p p2) (fun u => sumN (fieldAlg p p2)
      (fun r => (fieldAlg p p2).mul (w u r) (exactJ (fieldAlg p p2) D f x u q r j)) (f.retSize u))
      f.rets.length = _
    rw [sumN_eq_finset]
    apply Finset.sum_congr rfl
    intro u _
    rw [sumN_eq_finset]
    rfl

end expr

end OMV.C34
