/-
C30 — helper lemmas: dual-number arithmetic, sums, boolean masks.
-/
import OMV.Model.C30
import Mathlib.Algebra.Order.Field.Basic
import Mathlib.Tactic.Ring
import Mathlib.Tactic.Linarith
import Mathlib.Tactic.FieldSimp
import Mathlib.Tactic.NormNum

set_option linter.unusedSectionVars false
set_option linter.unusedSimpArgs false

namespace OMV.C30

section basic
variable {K : Type} [Field K]

@[ext] theorem Dual.ext' {x y : Dual K} (h1 : x.re = y.re) (h2 : x.du = y.du) : x = y := by
  cases x; cases y; simp_all

@[simp] theorem add_re (x y : Dual K) : (x + y).re = x.re + y.re := rfl
@[simp] theorem add_du (x y : Dual K) : (x + y).du = x.du + y.du := rfl
@[simp] theorem sub_re (x y : Dual K) : (x - y).re = x.re - y.re := rfl
@[simp] theorem sub_du (x y : Dual K) : (x - y).du = x.du - y.du := rfl
@[simp] theorem neg_re (x : Dual K) : (-x).re = -x.re := rfl
@[simp] theorem neg_du (x : Dual K) : (-x).du = -x.du := rfl
@[simp] theorem mul_re (x y : Dual K) : (x * y).re = x.re * y.re := rfl
@[simp] theorem mul_du (x y : Dual K) : (x * y).du = x.re * y.du + x.du * y.re := rfl
@[simp] theorem const_re (a : K) : (Dual.const a).re = a := rfl
@[simp] theorem const_du (a : K) : (Dual.const a).du = 0 := rfl
@[simp] theorem divK_re (x : Dual K) (k : K) : (x.divK k).re = x.re / k := rfl
@[simp] theorem divK_du (x : Dual K) (k : K) : (x.divK k).du = x.du / k := rfl
@[simp] theorem dtanh_re (th : K → K) (z : Dual K) : (dtanh th z).re = th z.re := rfl
@[simp] theorem dtanh_du (th : K → K) (z : Dual K) :
    (dtanh th z).du = (1 - th z.re * th z.re) * z.du := rfl

theorem half_eq [CharZero K] : (half : K) = 1 / 2 := by
  unfold half; norm_num

/-! ### sums -/

theorem foldl_add_sumK (l : List K) (acc : K) : l.foldl (· + ·) acc = acc + l.sum := by
  induction l generalizing acc with
  | nil => simp
  | cons a l ih => simp [List.foldl_cons, ih, add_assoc]

theorem sumK_eq (l : List K) : sumK l = l.sum := by
  unfold sumK; rw [foldl_add_sumK]; simp

theorem foldl_add_sumD (l : List (Dual K)) (acc : Dual K) :
    l.foldl (· + ·) acc = ⟨acc.re + (l.map Dual.re).sum, acc.du + (l.map Dual.du).sum⟩ := by
  induction l generalizing acc with
  | nil => simp
  | cons a l ih =>
    simp only [List.foldl_cons, ih, List.map_cons, List.sum_cons, add_re, add_du, add_assoc]

theorem sumD_eq (l : List (Dual K)) :
    sumD l = ⟨(l.map Dual.re).sum, (l.map Dual.du).sum⟩ := by
  unfold sumD; rw [foldl_add_sumD]; simp

/-- `Σ x²` as a dual number: `Σ a² + ε · 2 Σ a b`. -/
theorem sumSq_re (zs : List (Dual K)) : (sumSq zs).re = (zs.map (fun z => z.re * z.re)).sum := by
  unfold sumSq; rw [sumD_eq]; simp [List.map_map, Function.comp_def]

theorem sumSq_du (zs : List (Dual K)) :
    (sumSq zs).du = 2 * (zs.map (fun z => z.re * z.du)).sum := by
  unfold sumSq; rw [sumD_eq]
  simp only [List.map_map, Function.comp_def, mul_du]
  induction zs with
  | nil => simp
  | cons z zs ih => simp only [List.map_cons, List.sum_cons, ih]; ring

end basic

section ordered
variable {K : Type} [Field K] [LinearOrder K] [IsStrictOrderedRing K]

theorem sgn_neg {a : K} (h : a < 0) : sgn a = -1 := by simp [sgn, h]
theorem sgn_pos {a : K} (h : 0 < a) : sgn a = 1 := by simp [sgn, h, not_lt.mpr h.le]
@[simp] theorem sgn_zero : sgn (0 : K) = 0 := by simp [sgn]

theorem sgn_mul_self (a : K) : a * sgn a = |a| := by
  rcases lt_trichotomy a 0 with h | h | h
  · rw [sgn_neg h, abs_of_neg h]; ring
  · subst h; simp
  · rw [sgn_pos h, abs_of_pos h]; ring

theorem sum_sq_nonneg (l : List K) : 0 ≤ (l.map (fun a => a * a)).sum := by
  induction l with
  | nil => simp
  | cons a l ih => simp only [List.map_cons, List.sum_cons]; nlinarith [mul_self_nonneg a]

theorem sum_sq_eq_zero {l : List K} (h : (l.map (fun a => a * a)).sum = 0) : ∀ a ∈ l, a = 0 := by
  induction l with
  | nil => simp
  | cons a l ih =>
    simp only [List.map_cons, List.sum_cons] at h
    have h1 := mul_self_nonneg a
    have h2 := sum_sq_nonneg l
    have ha : a * a = 0 := by linarith
    have hl : (l.map (fun a => a * a)).sum = 0 := by linarith
    intro b hb
    rcases List.mem_cons.mp hb with rfl | hb
    · exact mul_self_eq_zero.mp ha
    · exact ih hl b hb

theorem sum_scale_sq (t : K) (l : List K) :
    (l.map (fun b => t * b * (t * b))).sum = t * t * (l.map (fun b => b * b)).sum := by
  induction l with
  | nil => simp
  | cons a l ih => simp only [List.map_cons, List.sum_cons, ih]; ring

/-! ### boolean masks -/

theorem maskSet_select {α β : Type} (p : α → Bool) (f : α → β) (xs : List α) (ds : List β)
    (hl : ds.length = xs.length) :
    maskSet (xs.map p) ds ((select (xs.map p) xs).map f)
      = List.zipWith (fun x d => if p x then f x else d) xs ds := by
  induction xs generalizing ds with
  | nil => cases ds <;> simp [maskSet] at *
  | cons x xs ih =>
    cases ds with
    | nil => simp at hl
    | cons d ds =>
      simp only [List.length_cons, Nat.add_right_cancel_iff] at hl
      cases hp : p x <;> simp [maskSet, select, hp, ih ds hl]

end ordered

/-! ### stand-ins on `ℚ` for the examples in `Props/C30.lean` -/

/-- A `sqrt` on `ℚ` that is exact on the square used in the examples. -/
def exSqrt (q : Rat) : Rat := if q = 25 then 5 else 0

/-- An odd, bounded, sign-preserving stand-in for `tanh` on `ℚ`: `u/(1+|u|)`. -/
def exTh (u : Rat) : Rat := u / (1 + (if u < 0 then -u else u))

end OMV.C30
