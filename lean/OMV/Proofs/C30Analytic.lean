/-
C30 — analytic bridge: at `K = ℝ`, with Mathlib's `Real.sqrt`, `Real.arctan`, `Real.tanh`, the dual
part computed by the model is the derivative of the real part along the perturbation.

`Tracks f z` : the real function `f` passes through `z.re` at `t = 0` with derivative `z.du` there.
It is closed under the dual-number operations the model uses, so every model function built from
them tracks the corresponding real function.
-/
import OMV.Model.C30
import OMV.Proofs.C30
import Mathlib.Analysis.SpecialFunctions.Sqrt
import Mathlib.Analysis.SpecialFunctions.Trigonometric.ArctanDeriv
import Mathlib.Analysis.SpecialFunctions.Trigonometric.DerivHyp

set_option linter.unusedSectionVars false
set_option linter.unusedSimpArgs false

namespace OMV.C30

/-- The real input `re + t·du` (a point of the line through `z.re` with direction `z.du`). -/
def line (z : Dual ℝ) (t : ℝ) : Dual ℝ := Dual.const (z.re + t * z.du)

def Tracks (f : ℝ → ℝ) (z : Dual ℝ) : Prop := f 0 = z.re ∧ HasDerivAt f z.du 0

theorem hasDerivAt_tanh (x : ℝ) :
    HasDerivAt Real.tanh (1 - Real.tanh x * Real.tanh x) x := by
  have hc : Real.cosh x ≠ 0 := (Real.cosh_pos x).ne'
  have h := (Real.hasDerivAt_sinh x).div (Real.hasDerivAt_cosh x) hc
  have e : Real.tanh = fun y => Real.sinh y / Real.cosh y := by
    funext y; exact Real.tanh_eq_sinh_div_cosh y
  have e2 : 1 - Real.tanh x * Real.tanh x
      = (Real.cosh x * Real.cosh x - Real.sinh x * Real.sinh x) / Real.cosh x ^ 2 := by
    rw [Real.tanh_eq_sinh_div_cosh]; field_simp
  rw [e2, e]
  exact h

namespace Tracks
variable {f g : ℝ → ℝ} {x y : Dual ℝ}

theorem line (z : Dual ℝ) : Tracks (fun t => z.re + t * z.du) z := by
  constructor
  · simp
  · have h := ((hasDerivAt_id (0 : ℝ)).mul_const z.du).const_add z.re
    simpa using h

theorem const (a : ℝ) : Tracks (fun _ => a) (Dual.const a) :=
  ⟨rfl, hasDerivAt_const 0 a⟩

theorem add (hf : Tracks f x) (hg : Tracks g y) : Tracks (fun t => f t + g t) (x + y) :=
  ⟨by simp [hf.1, hg.1], hf.2.add hg.2⟩

theorem sub (hf : Tracks f x) (hg : Tracks g y) : Tracks (fun t => f t - g t) (x - y) :=
  ⟨by simp [hf.1, hg.1], hf.2.sub hg.2⟩

theorem neg (hf : Tracks f x) : Tracks (fun t => -f t) (-x) :=
  ⟨by simp [hf.1], hf.2.neg⟩

theorem mul (hf : Tracks f x) (hg : Tracks g y) : Tracks (fun t => f t * g t) (x * y) := by
  constructor
  · simp [hf.1, hg.1]
  · have h := hf.2.mul hg.2
    rw [hf.1, hg.1] at h
    refine h.congr_deriv ?_
    change _ = x.re * y.du + x.du * y.re; ring

theorem divK (hf : Tracks f x) (k : ℝ) : Tracks (fun t => f t / k) (x.divK k) :=
  ⟨by simp [hf.1], hf.2.div_const k⟩

theorem tanh (hf : Tracks f x) : Tracks (fun t => Real.tanh (f t)) (dtanh Real.tanh x) := by
  constructor
  · simp [hf.1]
  · have h := (hasDerivAt_tanh (f 0)).comp 0 hf.2
    rw [hf.1] at h
    exact h

theorem sqrt (hf : Tracks f x) (hx : x.re ≠ 0) :
    Tracks (fun t => Real.sqrt (f t)) (dsqrt Real.sqrt x) := by
  constructor
  · simp [dsqrt, hf.1]
  · have h := hf.2.sqrt (by rw [hf.1]; exact hx)
    rw [hf.1] at h
    have e : (1 + 1 : ℝ) = 2 := by norm_num
    simp only [dsqrt, e]
    exact h

end Tracks

theorem sumSq_cons (z : Dual ℝ) (zs : List (Dual ℝ)) : sumSq (z :: zs) = z * z + sumSq zs := by
  ext
  · simp only [sumSq_re, add_re, mul_re, List.map_cons, List.sum_cons]
  · simp only [sumSq_du, add_du, mul_du, List.map_cons, List.sum_cons]; ring

/-- `t ↦ Σ (aᵢ + t bᵢ)²` tracks `np.sum(x**2)`. -/
theorem tracks_sumSq (zs : List (Dual ℝ)) :
    Tracks (fun t => (zs.map (fun z => (z.re + t * z.du) * (z.re + t * z.du))).sum) (sumSq zs) := by
  induction zs with
  | nil =>
    have : sumSq ([] : List (Dual ℝ)) = Dual.const 0 := rfl
    rw [this]
    simpa using Tracks.const 0
  | cons z zs ih =>
    rw [sumSq_cons]
    simp only [List.map_cons, List.sum_cons]
    exact ((Tracks.line z).mul (Tracks.line z)).add ih

theorem tracks_actTanh {fx fz fa fb : ℝ → ℝ} {x z a b : Dual ℝ} (hx : Tracks fx x)
    (hz : Tracks fz z) (ha : Tracks fa a) (hb : Tracks fb b) (mu : ℝ) :
    Tracks (fun t => half * (fb t - fa t) * (1 + Real.tanh ((fx t - fz t) / mu)) + fa t)
      (actTanh Real.tanh x mu z a b) := by
  unfold actTanh
  exact (((Tracks.const half).mul (hb.sub ha)).mul
    ((Tracks.const 1).add ((hx.sub hz).divK mu).tanh)).add ha

end OMV.C30
