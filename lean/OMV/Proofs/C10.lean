/-
C10 — helper lemmas for `OMV/Props/C10.lean`.

Plan of the proof.  `Rel α₀ αₖ e e'` relates a start entry `e` (its `u` is the start point, its `du`
the Newton step) to the entry `e'` the line search currently holds, when the current step length is
`αₖ`: same bounds, the current point `e'.u` AND the point `e'.u - αₖ·e'.du` that a full contraction
(`alpha → 0`) would reach are both inside the bounds and both on the segment from the start to
`start + α₀·du`.  Both sets are intervals, so every contraction (a convex combination of the two
points) keeps the relation (`Rel.backtrack`).  The three kernels establish it (`scalar_rel`,
`wall_rel`, `vector_rel`).
-/
import OMV.Model.C10
import Mathlib.Algebra.Order.Field.Basic
import Mathlib.Data.List.Forall2
import Mathlib.Tactic.Linarith
import Mathlib.Tactic.Ring
import Mathlib.Tactic.FieldSimp

set_option linter.unusedSectionVars false
set_option linter.unusedVariables false

namespace OMV.C10

variable {K : Type} [Field K] [LinearOrder K] [IsStrictOrderedRing K]

theorem absK_eq (x : K) : absK x = |x| := by
  unfold absK
  split_ifs with h
  · exact (abs_of_neg h).symm
  · exact (abs_of_nonneg (not_lt.mp h)).symm

theorem maxK_eq (a b : K) : maxK a b = max a b := by
  unfold maxK
  split_ifs with h
  · exact (max_eq_right h.le).symm
  · exact (max_eq_left (not_lt.mp h)).symm

theorem minK_eq (a b : K) : minK a b = min a b := by
  unfold minK
  split_ifs with h
  · exact (min_eq_right h.le).symm
  · exact (min_eq_left (not_lt.mp h)).symm

/-! ### the two interval predicates are convex -/

theorem InB.convex {lo hi : Option K} {a b t : K} (ha : InB lo hi a) (hb : InB lo hi b)
    (h0 : 0 ≤ t) (h1 : t ≤ 1) : InB lo hi (a + t * (b - a)) := by
  obtain ⟨ha1, ha2⟩ := ha
  obtain ⟨hb1, hb2⟩ := hb
  constructor
  · cases lo with
    | none => trivial
    | some l =>
      simp only at ha1 hb1 ⊢
      nlinarith [mul_nonneg h0 (sub_nonneg.2 hb1), mul_nonneg (sub_nonneg.2 h1) (sub_nonneg.2 ha1)]
  · cases hi with
    | none => trivial
    | some h =>
      simp only at ha2 hb2 ⊢
      nlinarith [mul_nonneg h0 (sub_nonneg.2 hb2), mul_nonneg (sub_nonneg.2 h1) (sub_nonneg.2 ha2)]

theorem Along.convex {α s d a b t : K} (ha : Along α s d a) (hb : Along α s d b)
    (h0 : 0 ≤ t) (h1 : t ≤ 1) : Along α s d (a + t * (b - a)) := by
  unfold Along at *
  rw [absK_eq, absK_eq] at *
  obtain ⟨ha1, ha2⟩ := ha
  obtain ⟨hb1, hb2⟩ := hb
  rw [abs_le] at ha2 hb2 ⊢
  have e1 : (a + t * (b - a) - s) * d = (1 - t) * ((a - s) * d) + t * ((b - s) * d) := by ring
  refine ⟨?_, ?_, ?_⟩
  · rw [e1]
    exact add_nonneg (mul_nonneg (sub_nonneg.2 h1) ha1) (mul_nonneg h0 hb1)
  · nlinarith [mul_nonneg h0 (sub_nonneg.2 hb2.1), mul_nonneg (sub_nonneg.2 h1) (sub_nonneg.2 ha2.1)]
  · nlinarith [mul_nonneg h0 (sub_nonneg.2 hb2.2), mul_nonneg (sub_nonneg.2 h1) (sub_nonneg.2 ha2.2)]

theorem Along.start {α s d : K} (hα : 0 ≤ α) : Along α s d s := by
  unfold Along
  rw [absK_eq, absK_eq]
  simp only [sub_self, zero_mul, abs_zero, le_refl, true_and]
  exact mul_nonneg hα (abs_nonneg d)

theorem Along.full {α s d : K} (hα : 0 ≤ α) : Along α s d (s + α * d) := by
  unfold Along
  rw [absK_eq, absK_eq]
  have e : s + α * d - s = α * d := by ring
  rw [e, abs_mul, abs_of_nonneg hα]
  exact ⟨by nlinarith [mul_self_nonneg d], le_refl _⟩

/-! ### the relation kept by a line search -/

structure Rel (α₀ αₖ : K) (e e' : Entry K) : Prop where
  lo : e'.lo = e.lo
  hi : e'.hi = e.hi
  inb : InB e.lo e.hi e'.u
  inb_back : InB e.lo e.hi (e'.u - αₖ * e'.du)
  along : Along α₀ e.u e.du e'.u
  along_back : Along α₀ e.u e.du (e'.u - αₖ * e'.du)

/-- One contraction `alpha ← alpha·ρ; u ← u + (alpha_new - alpha_old)·du`. -/
theorem Rel.backtrack {α₀ αₖ ρ : K} {e e' : Entry K} (h : Rel α₀ αₖ e e') (h0 : 0 ≤ ρ)
    (h1 : ρ ≤ 1) :
    Rel α₀ (αₖ * ρ) e { e' with u := e'.u + (αₖ * ρ - αₖ) * e'.du } := by
  have eu : e'.u + (αₖ * ρ - αₖ) * e'.du
      = e'.u + (1 - ρ) * ((e'.u - αₖ * e'.du) - e'.u) := by ring
  have eb : e'.u + (αₖ * ρ - αₖ) * e'.du - αₖ * ρ * e'.du = e'.u - αₖ * e'.du := by ring
  have t0 : (0 : K) ≤ 1 - ρ := sub_nonneg.2 h1
  have t1 : 1 - ρ ≤ (1 : K) := by linarith
  refine ⟨h.lo, h.hi, ?_, ?_, ?_, ?_⟩
  · show InB e.lo e.hi (e'.u + (αₖ * ρ - αₖ) * e'.du)
    rw [eu]; exact h.inb.convex h.inb_back t0 t1
  · show InB e.lo e.hi (e'.u + (αₖ * ρ - αₖ) * e'.du - αₖ * ρ * e'.du)
    rw [eb]; exact h.inb_back
  · show Along α₀ e.u e.du (e'.u + (αₖ * ρ - αₖ) * e'.du)
    rw [eu]; exact h.along.convex h.along_back t0 t1
  · show Along α₀ e.u e.du (e'.u + (αₖ * ρ - αₖ) * e'.du - αₖ * ρ * e'.du)
    rw [eb]; exact h.along_back

/-- Without bounds the plain step satisfies the relation. -/
theorem plain_rel {α : K} (hα : 0 < α) (e : Entry K) (hlo : e.lo = none) (hhi : e.hi = none) :
    Rel α α e (addStep α e) := by
  have eb : e.u + α * e.du - α * e.du = e.u := by ring
  refine ⟨rfl, rfl, ?_, ?_, ?_, ?_⟩
  · rw [hlo, hhi]; exact ⟨trivial, trivial⟩
  · rw [hlo, hhi]; exact ⟨trivial, trivial⟩
  · exact Along.full hα.le
  · show Along α e.u e.du (e.u + α * e.du - α * e.du)
    rw [eb]; exact Along.start hα.le

/-! ### scalar and wall kernels -/

/-- What `changeOf` does to a stepped entry whose start is inside the bounds: the result is the
clamped value, inside the bounds and between start and stepped value. -/
theorem change_facts {α : K} (hα : 0 < α) (e : Entry K) (hs : InB e.lo e.hi e.u) :
    InB e.lo e.hi (e.u + α * e.du + changeOf (addStep α e)) ∧
    Along α e.u e.du (e.u + α * e.du + changeOf (addStep α e)) := by
  obtain ⟨h1, h2⟩ := hs
  unfold changeOf addStep Along InB
  rw [absK_eq, absK_eq]
  have hsq := mul_self_nonneg e.du
  rcases lt_trichotomy e.du 0 with hd | hd | hd
  · -- step downwards
    have habs : |e.du| = -e.du := abs_of_neg hd
    have hm : α * e.du < 0 := mul_neg_of_pos_of_neg hα hd
    cases hlo : e.lo with
    | none =>
      cases hhi : e.hi with
      | none =>
        simp only [add_zero]
        refine ⟨⟨trivial, trivial⟩, ?_, ?_⟩
        · nlinarith
        · rw [show e.u + α * e.du - e.u = α * e.du by ring, abs_of_neg hm, habs]; linarith
      | some h =>
        rw [hhi] at h2; simp only at h2
        have : ¬ h < e.u + α * e.du := by linarith
        simp only [minK, this, if_false, sub_self, add_zero]
        refine ⟨⟨trivial, by linarith⟩, ?_, ?_⟩
        · nlinarith
        · rw [show e.u + α * e.du - e.u = α * e.du by ring, abs_of_neg hm, habs]; linarith
    | some l =>
      rw [hlo] at h1; simp only at h1
      cases hhi : e.hi with
      | none =>
        simp only [maxK, add_zero]
        split_ifs with hc
        · rw [show e.u + α * e.du + (l - (e.u + α * e.du)) = l by ring]
          refine ⟨⟨le_refl _, trivial⟩, ?_, ?_⟩
          · nlinarith
          · rw [abs_of_nonpos (by linarith), habs]; nlinarith
        · rw [sub_self, add_zero]
          refine ⟨⟨not_lt.mp hc, trivial⟩, ?_, ?_⟩
          · nlinarith
          · rw [show e.u + α * e.du - e.u = α * e.du by ring, abs_of_neg hm, habs]; linarith
      | some h =>
        rw [hhi] at h2; simp only at h2
        have : ¬ h < e.u + α * e.du := by linarith
        simp only [maxK, minK, this, if_false, sub_self, add_zero]
        split_ifs with hc
        · rw [show e.u + α * e.du + (l - (e.u + α * e.du)) = l by ring]
          refine ⟨⟨le_refl _, by linarith⟩, ?_, ?_⟩
          · nlinarith
          · rw [abs_of_nonpos (by linarith), habs]; nlinarith
        · rw [sub_self, add_zero]
          refine ⟨⟨not_lt.mp hc, by linarith⟩, ?_, ?_⟩
          · nlinarith
          · rw [show e.u + α * e.du - e.u = α * e.du by ring, abs_of_neg hm, habs]; linarith
  · -- no step
    rw [hd]
    simp only [mul_zero, add_zero, abs_zero, le_refl]
    cases hlo : e.lo with
    | none =>
      cases hhi : e.hi with
      | none => simp
      | some h =>
        rw [hhi] at h2; simp only at h2
        have : ¬ h < e.u := not_lt.mpr h2
        simp [minK, this, h2]
    | some l =>
      rw [hlo] at h1; simp only at h1
      have hl : ¬ e.u < l := not_lt.mpr h1
      cases hhi : e.hi with
      | none => simp [maxK, hl, h1]
      | some h =>
        rw [hhi] at h2; simp only at h2
        have : ¬ h < e.u := not_lt.mpr h2
        simp [maxK, minK, this, hl, h1, h2]
  · -- step upwards
    have habs : |e.du| = e.du := abs_of_pos hd
    have hm : 0 < α * e.du := mul_pos hα hd
    cases hhi : e.hi with
    | none =>
      cases hlo : e.lo with
      | none =>
        simp only [add_zero]
        refine ⟨⟨trivial, trivial⟩, ?_, ?_⟩
        · nlinarith
        · rw [show e.u + α * e.du - e.u = α * e.du by ring, abs_of_pos hm, habs]
      | some l =>
        rw [hlo] at h1; simp only at h1
        have : ¬ e.u + α * e.du < l := by linarith
        simp only [maxK, this, if_false, sub_self, add_zero]
        refine ⟨⟨by linarith, trivial⟩, ?_, ?_⟩
        · nlinarith
        · rw [show e.u + α * e.du - e.u = α * e.du by ring, abs_of_pos hm, habs]
    | some h =>
      rw [hhi] at h2; simp only at h2
      cases hlo : e.lo with
      | none =>
        simp only [minK, zero_add]
        split_ifs with hc
        · rw [show e.u + α * e.du + (h - (e.u + α * e.du)) = h by ring]
          refine ⟨⟨trivial, le_refl _⟩, ?_, ?_⟩
          · nlinarith
          · rw [abs_of_nonneg (by linarith), habs]; nlinarith
        · rw [sub_self, add_zero]
          refine ⟨⟨trivial, not_lt.mp hc⟩, ?_, ?_⟩
          · nlinarith
          · rw [show e.u + α * e.du - e.u = α * e.du by ring, abs_of_pos hm, habs]
      | some l =>
        rw [hlo] at h1; simp only at h1
        have : ¬ e.u + α * e.du < l := by linarith
        simp only [maxK, minK, this, if_false, sub_self, zero_add]
        split_ifs with hc
        · rw [show e.u + α * e.du + (h - (e.u + α * e.du)) = h by ring]
          refine ⟨⟨by linarith, le_refl _⟩, ?_, ?_⟩
          · nlinarith
          · rw [abs_of_nonneg (by linarith), habs]; nlinarith
        · rw [sub_self, add_zero]
          refine ⟨⟨by linarith, not_lt.mp hc⟩, ?_, ?_⟩
          · nlinarith
          · rw [show e.u + α * e.du - e.u = α * e.du by ring, abs_of_pos hm, habs]

theorem scalar_rel {α : K} (hα : 0 < α) (e : Entry K) (hs : InB e.lo e.hi e.u) :
    Rel α α e (scalarEntry α (addStep α e)) := by
  obtain ⟨hb, ha⟩ := change_facts hα e hs
  have hne : α ≠ 0 := hα.ne'
  have eb : e.u + α * e.du + changeOf (addStep α e)
      - α * (e.du + changeOf (addStep α e) / α) = e.u := by field_simp; ring
  refine ⟨rfl, rfl, hb, ?_, ha, ?_⟩
  · show InB e.lo e.hi (e.u + α * e.du + changeOf (addStep α e)
      - α * (e.du + changeOf (addStep α e) / α))
    rw [eb]; exact hs
  · show Along α e.u e.du (e.u + α * e.du + changeOf (addStep α e)
      - α * (e.du + changeOf (addStep α e) / α))
    rw [eb]; exact Along.start hα.le

theorem wallEntry_du_of_ne {α : K} (e : Entry K) (hc : changeOf e ≠ 0) :
    (wallEntry α e).du = 0 := by
  simp only [wallEntry]; rw [if_pos hc]

theorem wallEntry_du_of_eq {α : K} (e : Entry K) (hc : ¬ changeOf e ≠ 0) :
    (wallEntry α e).du = e.du + changeOf e / α := by
  simp only [wallEntry]; rw [if_neg hc]

theorem wall_rel {α : K} (hα : 0 < α) (e : Entry K) (hs : InB e.lo e.hi e.u) :
    Rel α α e (wallEntry α (addStep α e)) := by
  obtain ⟨hb, ha⟩ := change_facts hα e hs
  have hne : α ≠ 0 := hα.ne'
  have hu : (wallEntry α (addStep α e)).u = e.u + α * e.du + changeOf (addStep α e) := rfl
  by_cases hc : changeOf (addStep α e) ≠ 0
  · have hdu := wallEntry_du_of_ne (α := α) _ hc
    have eb : e.u + α * e.du + changeOf (addStep α e) - α * 0
        = e.u + α * e.du + changeOf (addStep α e) := by ring
    refine ⟨rfl, rfl, hb, ?_, ha, ?_⟩
    · rw [hu, hdu, eb]; exact hb
    · rw [hu, hdu, eb]; exact ha
  · have hdu := wallEntry_du_of_eq (α := α) _ hc
    have eb : e.u + α * e.du + changeOf (addStep α e)
        - α * ((addStep α e).du + changeOf (addStep α e) / α) = e.u := by
      show e.u + α * e.du + changeOf (addStep α e)
        - α * (e.du + changeOf (addStep α e) / α) = e.u
      field_simp; ring
    refine ⟨rfl, rfl, hb, ?_, ha, ?_⟩
    · rw [hu, hdu, eb]; exact hs
    · rw [hu, hdu, eb]; exact Along.start hα.le

/-! ### vector kernel -/

theorem raiseTo_ge (d : K) (l : List (Option K)) : d ≤ raiseTo d l := by
  induction l generalizing d with
  | nil => exact le_refl _
  | cons a t ih =>
    cases a with
    | none => exact ih d
    | some v =>
      simp only [raiseTo]
      split_ifs with h
      · exact le_trans h.le (ih v)
      · exact ih d

theorem raiseTo_mem_le (d : K) (l : List (Option K)) (v : K) (hv : some v ∈ l) :
    v ≤ raiseTo d l := by
  induction l generalizing d with
  | nil => simp at hv
  | cons a t ih =>
    rcases List.mem_cons.mp hv with h | h
    · subst h
      simp only [raiseTo]
      split_ifs with hc
      · exact raiseTo_ge v t
      · exact le_trans (not_lt.mp hc) (raiseTo_ge d t)
    · cases a with
      | none => exact ih d h
      | some w => exact ih _ h

theorem raiseTo_eq_or_mem (d : K) (l : List (Option K)) :
    raiseTo d l = d ∨ some (raiseTo d l) ∈ l := by
  induction l generalizing d with
  | nil => exact Or.inl rfl
  | cons a t ih =>
    cases a with
    | none =>
      rcases ih d with h | h
      · exact Or.inl h
      · exact Or.inr (List.mem_cons_of_mem _ h)
    | some v =>
      simp only [raiseTo]
      split_ifs with hc
      · rcases ih v with h | h
        · right; rw [h]; exact List.mem_cons_self
        · exact Or.inr (List.mem_cons_of_mem _ h)
      · rcases ih d with h | h
        · exact Or.inl h
        · exact Or.inr (List.mem_cons_of_mem _ h)

/-- Facts about `d_alpha` computed on stepped entries whose starts are inside the bounds. -/
theorem dAlpha_facts {α : K} (hα : 0 < α) (es : List (Entry K))
    (hs : ∀ e ∈ es, InB e.lo e.hi e.u) :
    0 ≤ dAlpha (es.map (addStep α)) ∧ dAlpha (es.map (addStep α)) ≤ α ∧
    ∀ e ∈ es, e.du ≠ 0 →
      (∀ v, lowerViol (addStep α e) = some v → v ≤ dAlpha (es.map (addStep α))) ∧
      (∀ v, upperViol (addStep α e) = some v → v ≤ dAlpha (es.map (addStep α))) := by
  set st := es.map (addStep α) with hst
  set masked := st.filter (fun e => decide (e.du ≠ 0)) with hmasked
  have hD : dAlpha st = raiseTo (raiseTo 0 (masked.map lowerViol)) (masked.map upperViol) := rfl
  have hd1 : (0 : K) ≤ raiseTo 0 (masked.map lowerViol) := raiseTo_ge _ _
  have hmem : ∀ e ∈ es, e.du ≠ 0 → addStep α e ∈ masked := by
    intro e he hne
    rw [hmasked, List.mem_filter]
    refine ⟨List.mem_map_of_mem he, ?_⟩
    exact decide_eq_true hne
  -- every recorded violation is at most α because the start is inside the bounds
  have hle : ∀ e' ∈ masked, (∀ v, lowerViol e' = some v → v ≤ α) ∧
      (∀ v, upperViol e' = some v → v ≤ α) := by
    intro e' he'
    rw [hmasked, List.mem_filter, hst, List.mem_map] at he'
    obtain ⟨⟨e, he, rfl⟩, hne⟩ := he'
    have hne' : e.du ≠ 0 := of_decide_eq_true hne
    have hpos : 0 < |e.du| := abs_pos.mpr hne'
    obtain ⟨h1, h2⟩ := hs e he
    constructor
    · intro v hv
      unfold lowerViol addStep at hv
      cases hlo : e.lo with
      | none => rw [hlo] at hv; simp at hv
      | some l =>
        rw [hlo] at hv h1; simp only [Option.map_some, Option.some.injEq] at hv h1
        rw [← hv, absK_eq, div_le_iff₀ hpos]
        nlinarith [neg_abs_le e.du, le_abs_self e.du, mul_nonneg hα.le (abs_nonneg e.du),
          mul_le_mul_of_nonneg_left (neg_abs_le e.du) hα.le]
    · intro v hv
      unfold upperViol addStep at hv
      cases hhi : e.hi with
      | none => rw [hhi] at hv; simp at hv
      | some h =>
        rw [hhi] at hv h2; simp only [Option.map_some, Option.some.injEq] at hv h2
        rw [← hv, absK_eq, div_le_iff₀ hpos]
        nlinarith [neg_abs_le e.du, le_abs_self e.du, mul_nonneg hα.le (abs_nonneg e.du),
          mul_le_mul_of_nonneg_left (le_abs_self e.du) hα.le]
  refine ⟨?_, ?_, ?_⟩
  · rw [hD]; exact le_trans hd1 (raiseTo_ge _ _)
  · rw [hD]
    have h1 : raiseTo 0 (masked.map lowerViol) ≤ α := by
      rcases raiseTo_eq_or_mem 0 (masked.map lowerViol) with h | h
      · rw [h]; exact hα.le
      · rw [List.mem_map] at h
        obtain ⟨e', he', hv⟩ := h
        exact (hle e' he').1 _ hv
    rcases raiseTo_eq_or_mem (raiseTo 0 (masked.map lowerViol)) (masked.map upperViol) with h | h
    · rw [h]; exact h1
    · rw [List.mem_map] at h
      obtain ⟨e', he', hv⟩ := h
      exact (hle e' he').2 _ hv
  · intro e he hne
    have hm := hmem e he hne
    constructor
    · intro v hv
      rw [hD]
      refine le_trans (raiseTo_mem_le 0 (masked.map lowerViol) v ?_) (raiseTo_ge _ _)
      rw [List.mem_map]; exact ⟨_, hm, hv⟩
    · intro v hv
      rw [hD]
      refine raiseTo_mem_le _ (masked.map upperViol) v ?_
      rw [List.mem_map]; exact ⟨_, hm, hv⟩

/-- Entry-level effect of the vector kernel for any reduction `d` with `0 ≤ d ≤ α` that covers
the entry's own violations. -/
theorem vector_rel {α d : K} (hα : 0 < α) (e e' : Entry K) (hs : InB e.lo e.hi e.u)
    (hd0 : 0 ≤ d) (hd1 : d ≤ α)
    (hlo : e.du ≠ 0 → ∀ v, lowerViol (addStep α e) = some v → v ≤ d)
    (hhi : e.du ≠ 0 → ∀ v, upperViol (addStep α e) = some v → v ≤ d)
    (e1 : e'.lo = e.lo) (e2 : e'.hi = e.hi) (e3 : e'.u = e.u + α * e.du + (-d) * e.du)
    (e4 : e'.du = e.du * (1 - d / α)) : Rel α α e e' := by
  have hne : α ≠ 0 := hα.ne'
  have eb : e'.u - α * e'.du = e.u := by rw [e3, e4]; field_simp; ring
  have eu : e'.u = e.u + (α - d) * e.du := by rw [e3]; ring
  have hsq := mul_self_nonneg e.du
  have hin : InB e.lo e.hi e'.u := by
    obtain ⟨h1, h2⟩ := hs
    by_cases hz : e.du = 0
    · rw [eu, hz, mul_zero, add_zero]; exact ⟨h1, h2⟩
    · have hpos : 0 < |e.du| := abs_pos.mpr hz
      constructor
      · cases hl : e.lo with
        | none => trivial
        | some l =>
          rw [hl] at h1; simp only at h1 ⊢
          have := hlo hz ((l - (e.u + α * e.du)) / absK e.du) (by simp [lowerViol, addStep, hl])
          rw [absK_eq, div_le_iff₀ hpos] at this
          rw [eu]
          rcases lt_or_gt_of_ne hz with hneg | hpos'
          · rw [abs_of_neg hneg] at this; nlinarith
          · nlinarith [mul_nonneg (sub_nonneg.2 hd1) hpos'.le]
      · cases hh : e.hi with
        | none => trivial
        | some h =>
          rw [hh] at h2; simp only at h2 ⊢
          have := hhi hz ((e.u + α * e.du - h) / absK e.du) (by simp [upperViol, addStep, hh])
          rw [absK_eq, div_le_iff₀ hpos] at this
          rw [eu]
          rcases lt_or_gt_of_ne hz with hneg | hpos'
          · nlinarith [mul_nonneg (sub_nonneg.2 hd1) (neg_nonneg.2 hneg.le)]
          · rw [abs_of_pos hpos'] at this; nlinarith
  have hal : Along α e.u e.du e'.u := by
    unfold Along
    rw [absK_eq, absK_eq, eu, show e.u + (α - d) * e.du - e.u = (α - d) * e.du by ring,
      abs_mul, abs_of_nonneg (sub_nonneg.2 hd1)]
    constructor
    · nlinarith [mul_nonneg (sub_nonneg.2 hd1) hsq]
    · nlinarith [mul_nonneg hd0 (abs_nonneg e.du)]
  refine ⟨e1, e2, hin, ?_, hal, ?_⟩
  · rw [eb]; exact hs
  · rw [eb]; exact Along.start hα.le

/-! ### list level -/

theorem forall₂_map_of_forall {α β : Type} {R : α → β → Prop} {f : α → β} {l : List α}
    (h : ∀ a ∈ l, R a (f a)) : List.Forall₂ R l (l.map f) := by
  rw [List.forall₂_map_right_iff, List.forall₂_same]
  exact h

theorem hasBounds_false {es : List (Entry K)} (h : hasBounds es = false) :
    ∀ e ∈ es, e.lo = none ∧ e.hi = none := by
  intro e he
  unfold hasBounds at h
  rw [List.any_eq_false] at h
  have := h e he
  simp only [Bool.or_eq_true, Option.isSome_iff_ne_none, not_or, not_not] at this
  simpa using this

theorem hasBounds_map_addStep (α : K) (es : List (Entry K)) :
    hasBounds (es.map (addStep α)) = hasBounds es := by
  unfold hasBounds
  rw [List.any_map]
  rfl

theorem enforceVector_rel {α : K} (hα : 0 < α) (c : Bool) (es : List (Entry K))
    (hs : ∀ e ∈ es, InB e.lo e.hi e.u) :
    List.Forall₂ (Rel α α) es (enforceVector c α (es.map (addStep α))) := by
  obtain ⟨hd0, hd1, hv⟩ := dAlpha_facts hα es hs
  unfold enforceVector
  -- the clamp never fires: `d_alpha ≤ α` for a start within bounds
  have hclamp : (if (c && decide (α < dAlpha (es.map (addStep α)))) = true then α
      else dAlpha (es.map (addStep α))) = dAlpha (es.map (addStep α)) := by
    have : decide (α < dAlpha (es.map (addStep α))) = false := decide_eq_false (not_lt.mpr hd1)
    rw [this, Bool.and_false]; rfl
  simp only [hclamp]
  split_ifs with hpos
  · rw [List.map_map]
    apply forall₂_map_of_forall
    intro e he
    exact vector_rel hα e _ (hs e he) hd0 hd1 (fun hz => (hv e he hz).1)
      (fun hz => (hv e he hz).2) rfl rfl rfl rfl
  · have hz : dAlpha (es.map (addStep α)) = 0 := le_antisymm (not_lt.mp hpos) hd0
    apply forall₂_map_of_forall
    intro e he
    refine vector_rel (d := 0) hα e _ (hs e he) (le_refl _) hα.le ?_ ?_ rfl rfl ?_ ?_
    · intro hne v hvv; rw [← hz]; exact (hv e he hne).1 v hvv
    · intro hne v hvv; rw [← hz]; exact (hv e he hne).2 v hvv
    · show e.u + α * e.du = e.u + α * e.du + (-0) * e.du
      ring
    · show e.du = e.du * (1 - 0 / α)
      rw [zero_div, sub_zero, mul_one]

theorem enforceScalar_rel {α : K} (hα : 0 < α) (es : List (Entry K))
    (hs : ∀ e ∈ es, InB e.lo e.hi e.u) :
    List.Forall₂ (Rel α α) es (enforceScalar α (es.map (addStep α))) := by
  unfold enforceScalar
  rw [List.map_map]
  exact forall₂_map_of_forall (fun e he => scalar_rel hα e (hs e he))

theorem enforceWall_rel {α : K} (hα : 0 < α) (es : List (Entry K))
    (hs : ∀ e ∈ es, InB e.lo e.hi e.u) :
    List.Forall₂ (Rel α α) es (enforceWall α (es.map (addStep α))) := by
  unfold enforceWall
  rw [List.map_map]
  exact forall₂_map_of_forall (fun e he => wall_rel hα e (hs e he))

/-- The initial phase of either line search (step of length `α`, then bound enforcement)
establishes the relation, entry by entry. -/
theorem enforce_rel {α : K} (hα : 0 < α) (c : Bool) (m : Method) (es : List (Entry K))
    (hs : ∀ e ∈ es, InB e.lo e.hi e.u) :
    List.Forall₂ (Rel α α) es (enforce c m α (es.map (addStep α))) := by
  unfold enforce
  rw [hasBounds_map_addStep]
  by_cases hb : hasBounds es = true
  · rw [if_pos hb]
    cases m with
    | vector => exact enforceVector_rel hα c es hs
    | scalar => exact enforceScalar_rel hα es hs
    | wall => exact enforceWall_rel hα es hs
  · rw [if_neg hb]
    have hb' : hasBounds es = false := by simpa using hb
    apply forall₂_map_of_forall
    intro e he
    exact plain_rel hα e (hasBounds_false hb' e he).1 (hasBounds_false hb' e he).2

/-- Every further contraction keeps the relation. -/
theorem agBacktrack_rel {α₀ ρ : K} (h0 : 0 ≤ ρ) (h1 : ρ ≤ 1) (es : List (Entry K)) (n : Nat)
    (αₖ : K) (esk : List (Entry K)) (h : List.Forall₂ (Rel α₀ αₖ) es esk) :
    ∀ it ∈ agBacktrack ρ n αₖ esk, ∃ αⱼ, List.Forall₂ (Rel α₀ αⱼ) es it := by
  induction n generalizing αₖ esk with
  | zero => intro it hit; simp [agBacktrack] at hit
  | succ n ih =>
    intro it hit
    simp only [agBacktrack, List.mem_cons] at hit
    have hnext : List.Forall₂ (Rel α₀ (αₖ * ρ)) es
        (esk.map (fun e => { e with u := e.u + (αₖ * ρ - αₖ) * e.du })) := by
      rw [List.forall₂_map_right_iff]
      exact h.imp (fun _ _ hr => hr.backtrack h0 h1)
    rcases hit with rfl | hit
    · exact ⟨_, hnext⟩
    · exact ih _ _ hnext it hit

theorem boundsEnforceSolve_eq (c : Bool) (m : Method) (es : List (Entry K)) :
    boundsEnforceSolve c m es = enforce c m 1 (es.map (addStep 1)) := by
  unfold boundsEnforceSolve
  congr 1
  apply List.map_congr_left
  intro e _
  simp [addStep]

/-- All iterates of either line search are related to the start entries. -/
theorem lsIterates_rel (c : Bool) (ls : LS K) (m : Method) (es : List (Entry K))
    (hα : 0 < ls.alpha)
    (hρ : ∀ α ρ n, ls = .ag α ρ n → 0 ≤ ρ ∧ ρ ≤ 1)
    (hs : ∀ e ∈ es, InB e.lo e.hi e.u) :
    ∀ it ∈ lsIterates c ls m es, ∃ αⱼ, List.Forall₂ (Rel ls.alpha αⱼ) es it := by
  cases ls with
  | bchk =>
    intro it hit
    simp only [lsIterates, List.mem_singleton] at hit
    subst hit
    rw [boundsEnforceSolve_eq]
    exact ⟨1, enforce_rel zero_lt_one c m es hs⟩
  | ag α ρ n =>
    obtain ⟨h0, h1⟩ := hρ α ρ n rfl
    have hα' : 0 < α := by simpa [LS.alpha] using hα
    have hinit := enforce_rel hα' c m es hs
    intro it hit
    simp only [lsIterates, agIterates, List.mem_cons] at hit
    rcases hit with rfl | hit
    · exact ⟨α, hinit⟩
    · exact agBacktrack_rel h0 h1 es _ α _ hinit it hit

theorem forall₂_right_mem {α β : Type} {R : α → β → Prop} {l : List α} {l' : List β}
    (h : List.Forall₂ R l l') : ∀ b ∈ l', ∃ a ∈ l, R a b := by
  induction h with
  | nil => intro b hb; simp at hb
  | cons hr _ ih =>
    intro b hb
    rcases List.mem_cons.mp hb with rfl | hb
    · exact ⟨_, List.mem_cons_self, hr⟩
    · obtain ⟨a, ha, hab⟩ := ih b hb
      exact ⟨a, List.mem_cons_of_mem _ ha, hab⟩

/-- From the relation: every entry of the result lies within its own bounds. -/
theorem Rel.all_in_bounds {α₀ αₖ : K} {es it : List (Entry K)}
    (h : List.Forall₂ (Rel α₀ αₖ) es it) : ∀ e' ∈ it, InB e'.lo e'.hi e'.u := by
  intro e' he'
  obtain ⟨e, _, hr⟩ := forall₂_right_mem h e' he'
  rw [hr.lo, hr.hi]; exact hr.inb

/-! ### physical units -/

theorem toScaled_toPhys {ref ref0 : K} (h : ref ≠ ref0) (u : K) :
    toScaled ref ref0 (toPhys ref ref0 u) = u := by
  have : ref - ref0 ≠ 0 := sub_ne_zero.mpr h
  unfold toScaled toPhys; field_simp; ring

theorem toPhys_toScaled {ref ref0 : K} (h : ref ≠ ref0) (x : K) :
    toPhys ref ref0 (toScaled ref ref0 x) = x := by
  have : ref - ref0 ≠ 0 := sub_ne_zero.mpr h
  unfold toScaled toPhys; field_simp; ring

theorem toScaled_le_pos {ref ref0 : K} (h : ref0 < ref) (a b : K) :
    toScaled ref ref0 a ≤ toScaled ref ref0 b ↔ a ≤ b := by
  unfold toScaled
  rw [div_le_div_iff_of_pos_right (sub_pos.mpr h)]
  exact sub_le_sub_iff_right ref0

theorem toScaled_le_neg {ref ref0 : K} (h : ref < ref0) (a b : K) :
    toScaled ref ref0 a ≤ toScaled ref ref0 b ↔ b ≤ a := by
  unfold toScaled
  rw [div_le_div_right_of_neg (sub_neg.mpr h)]
  exact sub_le_sub_iff_right ref0

/-- Along-the-step is the same statement in solver and in physical units, whatever the sign of
`ref - ref0`. -/
theorem along_phys {ref ref0 α x dx u : K} (h : ref ≠ ref0)
    (ha : Along α (toScaled ref ref0 x) (stepToScaled ref ref0 dx) u) :
    Along α x dx (toPhys ref ref0 u) := by
  have hr : ref - ref0 ≠ 0 := sub_ne_zero.mpr h
  unfold Along at *
  rw [absK_eq, absK_eq] at *
  obtain ⟨h1, h2⟩ := ha
  have ey : toPhys ref ref0 u - x = (u - toScaled ref ref0 x) * (ref - ref0) := by
    unfold toPhys toScaled; field_simp; ring
  have ed : dx = stepToScaled ref ref0 dx * (ref - ref0) := by
    unfold stepToScaled; field_simp
  constructor
  · rw [ey]
    have : (u - toScaled ref ref0 x) * (ref - ref0) * dx
        = ((u - toScaled ref ref0 x) * stepToScaled ref ref0 dx) * ((ref - ref0) * (ref - ref0)) := by
      conv_lhs => rw [ed]
      ring
    rw [this]
    exact mul_nonneg h1 (mul_self_nonneg _)
  · rw [ey, abs_mul]
    conv_rhs => rw [ed, abs_mul, ← mul_assoc]
    exact mul_le_mul_of_nonneg_right h2 (abs_nonneg _)

end OMV.C10
