/-
C28 — helper lemmas: list vectors (`sumL`, `dot`, `addV`, `smul`, `tMatVec` adjointness) and the
componentwise rules of the dual numbers of `OMV.C28`.
-/
import OMV.Model.C28
import Mathlib.Tactic.Ring
import Mathlib.Tactic.FieldSimp
import Mathlib.Tactic.Linarith
import Mathlib.Algebra.Order.Field.Basic

set_option linter.unusedSectionVars false
set_option linter.unusedVariables false

namespace OMV.C28

variable {K : Type} [Field K]

/-! ### sums and dot products -/

@[simp] theorem sumL_nil : sumL ([] : List K) = 0 := rfl
@[simp] theorem sumL_cons (a : K) (l : List K) : sumL (a :: l) = a + sumL l := rfl

theorem sumL_append (a b : List K) : sumL (a ++ b) = sumL a + sumL b := by
  induction a with
  | nil => simp
  | cons x xs ih => simp [ih, add_assoc]

@[simp] theorem dot_nil_left (b : List K) : dot ([] : List K) b = 0 := by simp [dot, mulV]
@[simp] theorem dot_nil_right (a : List K) : dot a ([] : List K) = 0 := by simp [dot, mulV]
@[simp] theorem dot_cons (a b : K) (as bs : List K) :
    dot (a :: as) (b :: bs) = a * b + dot as bs := by simp [dot, mulV]

theorem dot_comm (a b : List K) : dot a b = dot b a := by
  induction a generalizing b with
  | nil => simp
  | cons x xs ih => cases b with
    | nil => simp
    | cons y ys => simp [ih ys, mul_comm]

theorem dot_append (a₁ a₂ b₁ b₂ : List K) (h : a₁.length = b₁.length) :
    dot (a₁ ++ a₂) (b₁ ++ b₂) = dot a₁ b₁ + dot a₂ b₂ := by
  induction a₁ generalizing b₁ with
  | nil => cases b₁ with
    | nil => simp
    | cons _ _ => simp at h
  | cons x xs ih => cases b₁ with
    | nil => simp at h
    | cons y ys =>
      simp only [List.length_cons, Nat.add_right_cancel_iff] at h
      simp [ih ys h, add_assoc]

@[simp] theorem smul_nil (c : K) : smul c ([] : List K) = [] := rfl
@[simp] theorem smul_cons (c a : K) (l : List K) : smul c (a :: l) = c * a :: smul c l := rfl
@[simp] theorem length_smul (c : K) (l : List K) : (smul c l).length = l.length := by simp [smul]

theorem dot_smul_left (c : K) (a b : List K) : dot (smul c a) b = c * dot a b := by
  induction a generalizing b with
  | nil => simp
  | cons x xs ih => cases b with
    | nil => simp
    | cons y ys => simp [ih ys]; ring

theorem dot_smul_right (c : K) (a b : List K) : dot a (smul c b) = c * dot a b := by
  rw [dot_comm, dot_smul_left, dot_comm]

@[simp] theorem addV_nil_left (b : List K) : addV ([] : List K) b = [] := by simp [addV]
@[simp] theorem addV_nil_right (a : List K) : addV a ([] : List K) = [] := by simp [addV]
@[simp] theorem addV_cons (a b : K) (as bs : List K) :
    addV (a :: as) (b :: bs) = (a + b) :: addV as bs := by simp [addV]
@[simp] theorem subV_nil_left (b : List K) : subV ([] : List K) b = [] := by simp [subV]
@[simp] theorem subV_nil_right (a : List K) : subV a ([] : List K) = [] := by simp [subV]
@[simp] theorem subV_cons (a b : K) (as bs : List K) :
    subV (a :: as) (b :: bs) = (a - b) :: subV as bs := by simp [subV]
@[simp] theorem mulV_nil_left (b : List K) : mulV ([] : List K) b = [] := by simp [mulV]
@[simp] theorem mulV_nil_right (a : List K) : mulV a ([] : List K) = [] := by simp [mulV]
@[simp] theorem mulV_cons (a b : K) (as bs : List K) :
    mulV (a :: as) (b :: bs) = (a * b) :: mulV as bs := by simp [mulV]

theorem length_addV (a b : List K) : (addV a b).length = min a.length b.length := by
  simp [addV]
theorem length_subV (a b : List K) : (subV a b).length = min a.length b.length := by
  simp [subV]
theorem length_mulV (a b : List K) : (mulV a b).length = min a.length b.length := by
  simp [mulV]

theorem dot_addV_left (a b v : List K) (h : a.length = b.length) :
    dot (addV a b) v = dot a v + dot b v := by
  induction a generalizing b v with
  | nil => cases b with
    | nil => simp
    | cons _ _ => simp at h
  | cons x xs ih => cases b with
    | nil => simp at h
    | cons y ys =>
      simp only [List.length_cons, Nat.add_right_cancel_iff] at h
      cases v with
      | nil => simp
      | cons w ws => simp [ih ys ws h]; ring

theorem dot_subV_left (a b v : List K) (h : a.length = b.length) :
    dot (subV a b) v = dot a v - dot b v := by
  induction a generalizing b v with
  | nil => cases b with
    | nil => simp
    | cons _ _ => simp at h
  | cons x xs ih => cases b with
    | nil => simp at h
    | cons y ys =>
      simp only [List.length_cons, Nat.add_right_cancel_iff] at h
      cases v with
      | nil => simp
      | cons w ws => simp [ih ys ws h]; ring

theorem dot_subV_right (v a b : List K) (h : a.length = b.length) :
    dot v (subV a b) = dot v a - dot v b := by
  rw [dot_comm, dot_subV_left _ _ _ h, dot_comm a, dot_comm b]

theorem dot_map_div (l e : List K) (s : K) : dot (l.map (fun g => g / s)) e = dot l e / s := by
  induction l generalizing e with
  | nil => simp
  | cons x xs ih => cases e with
    | nil => simp
    | cons y ys => simp [ih ys]; ring

theorem dot_replicate_zero (n : Nat) (e : List K) : dot (List.replicate n (0 : K)) e = 0 := by
  induction n generalizing e with
  | zero => simp
  | succ k ih => cases e with
    | nil => simp
    | cons y ys => simp [List.replicate_succ, ih ys]

theorem dot_mulV_assoc (a b c : List K) : dot (mulV a b) c = dot a (mulV b c) := by
  induction a generalizing b c with
  | nil => simp
  | cons x xs ih => cases b with
    | nil => simp
    | cons y ys => cases c with
      | nil => simp
      | cons z zs => simp [ih ys zs]; ring

/-! ### `Mᵀ a` and adjointness -/

theorem length_tMatVec (n : Nat) (M : List (List K)) (a : List K)
    (h : ∀ row ∈ M, row.length = n) : (tMatVec n M a).length = n := by
  induction M generalizing a with
  | nil => simp [tMatVec]
  | cons row M ih => cases a with
    | nil => simp [tMatVec]
    | cons ak a' =>
      have h1 : row.length = n := h row (by simp)
      have h2 := ih a' (fun r hr => h r (by simp [hr]))
      have e : tMatVec n (row :: M) (ak :: a') = addV (smul ak row) (tMatVec n M a') := by
        simp [tMatVec]
      rw [e, length_addV, length_smul, h1, h2, Nat.min_self]

theorem tMatVec_cons (n : Nat) (row : List K) (M : List (List K)) (ak : K) (a : List K) :
    tMatVec n (row :: M) (ak :: a) = addV (smul ak row) (tMatVec n M a) := by
  simp [tMatVec]

@[simp] theorem tMatVec_nil_right (n : Nat) (M : List (List K)) :
    tMatVec n M ([] : List K) = List.replicate n 0 := by simp [tMatVec]
@[simp] theorem tMatVec_nil_left (n : Nat) (a : List K) :
    tMatVec n ([] : List (List K)) a = List.replicate n 0 := by simp [tMatVec]

/-- `⟨Mᵀ a, e⟩ = ⟨a, M e⟩` -/
theorem dot_tMatVec (n : Nat) (M : List (List K)) (a e : List K)
    (h : ∀ row ∈ M, row.length = n) : dot (tMatVec n M a) e = dot a (matVec M e) := by
  induction M generalizing a with
  | nil => simp [matVec, dot_replicate_zero]
  | cons row M ih => cases a with
    | nil => simp [dot_replicate_zero]
    | cons ak a' =>
      have h1 : row.length = n := h row (by simp)
      have hM : ∀ r ∈ M, r.length = n := fun r hr => h r (by simp [hr])
      rw [tMatVec_cons, dot_addV_left _ _ _ (by rw [length_smul, h1, length_tMatVec n M a' hM]),
        dot_smul_left, ih a' hM]
      simp [matVec]

@[simp] theorem matVec_nil (v : List K) : matVec ([] : List (List K)) v = [] := rfl
@[simp] theorem matVec_cons (r : List K) (M : List (List K)) (v : List K) :
    matVec (r :: M) v = dot r v :: matVec M v := rfl
@[simp] theorem length_matVec (M : List (List K)) (v : List K) : (matVec M v).length = M.length := by
  simp [matVec]

/-! ### dual numbers, componentwise -/

theorem Dual.ext' {a b : Dual K} (h1 : a.re = b.re) (h2 : a.du = b.du) : a = b := by
  cases a; cases b; simp_all

@[simp] theorem Dual.add_re (a b : Dual K) : (a + b).re = a.re + b.re := rfl
@[simp] theorem Dual.add_du (a b : Dual K) : (a + b).du = a.du + b.du := rfl
@[simp] theorem Dual.sub_re (a b : Dual K) : (a - b).re = a.re - b.re := rfl
@[simp] theorem Dual.sub_du (a b : Dual K) : (a - b).du = a.du - b.du := rfl
@[simp] theorem Dual.neg_re (a : Dual K) : (-a).re = -a.re := rfl
@[simp] theorem Dual.neg_du (a : Dual K) : (-a).du = -a.du := rfl
@[simp] theorem Dual.mul_re (a b : Dual K) : (a * b).re = a.re * b.re := rfl
@[simp] theorem Dual.mul_du (a b : Dual K) : (a * b).du = a.du * b.re + a.re * b.du := rfl
@[simp] theorem Dual.div_re (a b : Dual K) : (a / b).re = a.re / b.re := rfl
@[simp] theorem Dual.div_du (a b : Dual K) :
    (a / b).du = (a.du * b.re - a.re * b.du) / (b.re * b.re) := rfl
@[simp] theorem Dual.zero_re : (0 : Dual K).re = 0 := rfl
@[simp] theorem Dual.zero_du : (0 : Dual K).du = 0 := rfl
@[simp] theorem Dual.one_re : (1 : Dual K).re = 1 := rfl
@[simp] theorem Dual.one_du : (1 : Dual K).du = 0 := rfl
@[simp] theorem Dual.const_re (k : K) : (Dual.const k).re = k := rfl
@[simp] theorem Dual.const_du (k : K) : (Dual.const k).du = 0 := rfl
@[simp] theorem Dual.natCast_re (n : Nat) : ((n : Dual K)).re = (n : K) := rfl
@[simp] theorem Dual.natCast_du (n : Nat) : ((n : Dual K)).du = 0 := rfl
@[simp] theorem Dual.intCast_re (n : Int) : ((n : Dual K)).re = (n : K) := rfl
@[simp] theorem Dual.intCast_du (n : Int) : ((n : Dual K)).du = 0 := rfl
@[simp] theorem Dual.lift_re (f f' : K → K) (a : Dual K) : (Dual.lift f f' a).re = f a.re := rfl
@[simp] theorem Dual.lift_du (f f' : K → K) (a : Dual K) :
    (Dual.lift f f' a).du = f' a.re * a.du := rfl

theorem sumL_re (l : List (Dual K)) : (sumL l).re = sumL (l.map Dual.re) := by
  induction l with
  | nil => rfl
  | cons x xs ih =>
    show (x + sumL xs).re = _
    simp [ih]

theorem sumL_du (l : List (Dual K)) : (sumL l).du = sumL (l.map Dual.du) := by
  induction l with
  | nil => rfl
  | cons x xs ih =>
    show (x + sumL xs).du = _
    simp [ih]

theorem dotD_cons (a b : Dual K) (as bs : List (Dual K)) :
    dot (a :: as) (b :: bs) = a * b + dot as bs := by simp [dot, mulV, sumL]

theorem dot_re (a b : List (Dual K)) : (dot a b).re = dot (a.map Dual.re) (b.map Dual.re) := by
  induction a generalizing b with
  | nil => simp [dot, mulV, sumL]
  | cons x xs ih => cases b with
    | nil => simp [dot, mulV, sumL]
    | cons y ys => rw [dotD_cons]; simp [ih ys]

theorem dot_du (a b : List (Dual K)) :
    (dot a b).du = dot (a.map Dual.du) (b.map Dual.re) + dot (a.map Dual.re) (b.map Dual.du) := by
  induction a generalizing b with
  | nil => simp [dot, mulV, sumL]
  | cons x xs ih => cases b with
    | nil => simp [dot, mulV, sumL]
    | cons y ys => rw [dotD_cons]; simp [ih ys]; ring

theorem map_re_const (l : List K) : (l.map Dual.const).map Dual.re = l := by
  induction l with
  | nil => rfl
  | cons x xs ih => simp [ih]

theorem map_du_const (l : List K) : (l.map Dual.const).map Dual.du = List.replicate l.length 0 := by
  induction l with
  | nil => rfl
  | cons x xs ih => simp [ih, List.replicate_succ]

theorem dot_replicate_zero_right (n : Nat) (e : List K) : dot e (List.replicate n (0 : K)) = 0 := by
  rw [dot_comm, dot_replicate_zero]

/-- dot with a constant vector: real and dual parts -/
theorem dot_const_re (a : List (Dual K)) (v : List K) :
    (dot a (v.map Dual.const)).re = dot (a.map Dual.re) v := by
  rw [dot_re, map_re_const]

theorem dot_const_du (a : List (Dual K)) (v : List K) :
    (dot a (v.map Dual.const)).du = dot (a.map Dual.du) v := by
  rw [dot_du, map_re_const, map_du_const, dot_replicate_zero_right, add_zero]

theorem powN_re (z : Dual K) (n : Nat) : (powN z n).re = powN z.re n := by
  induction n with
  | zero => rfl
  | succ k ih => show (powN z k * z).re = _; simp [ih, powN]

theorem powN_du (z : Dual K) (n : Nat) :
    (powN z (n + 1)).du = ((n : K) + 1) * powN z.re n * z.du := by
  induction n with
  | zero => show (powN z 0 * z).du = _; simp [powN]
  | succ k ih =>
    show (powN z (k + 1) * z).du = _
    rw [Dual.mul_du, ih, powN_re]
    simp [powN]; ring

theorem powN_eq_pow (x : K) (n : Nat) : powN x n = x ^ n := by
  induction n with
  | zero => simp [powN]
  | succ k ih => simp [powN, ih, pow_succ]

end OMV.C28
