/-
C25 helper lemmas (3): ks_min as mirror image, KSComp option handling (upper, lower_flag, minimum).
-/
import OMV.Proofs.C25Deriv

namespace OMV.C25

/-! ### `ks_min` as a mirror of `ks_max` -/

lemma jaxKsMin_mirror {x : List ℝ} (hx : x ≠ []) (rho : ℝ) :
    jaxKsMin x rho = -ksRow (x.map (fun v => -v)) rho := by
  unfold jaxKsMin ksRow ksShift exponents
  rw [maxL_map_neg hx]
  simp only [expLog_exp, expLog_log, List.map_map]
  have e : ((fun x_1 => Real.exp (rho * (x_1 - -minL x))) ∘ fun v => -v)
      = fun v => Real.exp (rho * (minL x - v)) := by
    funext v; simp only [Function.comp]; congr 1; ring
  rw [e]; ring

lemma jaxKsMinGrad_eq {x : List ℝ} (hx : x ≠ []) {rho : ℝ} (hr : rho ≠ 0) :
    jaxKsMinGrad x rho
      = dKSdg (x.map (fun v => -v)) rho (maxL (x.map (fun v => -v))) := by
  unfold jaxKsMinGrad dKSdg exponents
  rw [maxL_map_neg hx]
  simp only [expLog_exp, List.map_map]
  have e : ((fun x_1 => Real.exp (rho * (x_1 - -minL x))) ∘ fun v => -v)
      = fun v => Real.exp (rho * (minL x - v)) := by
    funext v; simp only [Function.comp]; congr 1; ring
  rw [e]
  have hs : sumL (List.map (fun v => Real.exp (rho * (minL x - v))) x) ≠ 0 := by
    have := sum_exponents_pos (g := x.map (fun v => -v)) (by simpa using hx) rho (-minL x)
    unfold exponents at this
    simp only [expLog_exp, List.map_map, e] at this
    exact this.ne'
  apply List.map_congr_left
  intro a _
  simp only [Function.comp]
  field_simp

lemma perturb_map_neg (x d : List ℝ) (t : ℝ) :
    (perturb x d t).map (fun v => -v) = perturb (x.map (fun v => -v)) (d.map (fun v => -v)) t := by
  unfold perturb
  rw [List.map_zipWith, List.zipWith_map]
  congr 1
  funext a b; ring

lemma dotL_map_neg_right (a d : List ℝ) : dotL a (d.map (fun v => -v)) = -dotL a d := by
  rw [dotL_eq, dotL_eq]
  induction a generalizing d with
  | nil => simp
  | cons y a ih =>
    cases d with
    | nil => simp
    | cons dx d =>
      simp only [List.map_cons, List.zipWith_cons_cons, List.sum_cons]
      rw [ih d]; ring

lemma dotL_map_neg_left (a d : List ℝ) : dotL (a.map (fun v => -v)) d = -dotL a d := by
  rw [dotL_eq, dotL_eq]
  induction a generalizing d with
  | nil => simp
  | cons y a ih =>
    cases d with
    | nil => simp
    | cons dx d =>
      simp only [List.map_cons, List.zipWith_cons_cons, List.sum_cons]
      rw [ih d]; ring

lemma hasDerivAt_jaxKsMin {x d : List ℝ} (hx : x ≠ []) (hlen : d.length = x.length) {rho : ℝ}
    (hr : rho ≠ 0) :
    HasDerivAt (fun t => jaxKsMin (perturb x d t) rho) (dotL (jaxKsMinGrad x rho) d) 0 := by
  have hx' : x.map (fun v => -v) ≠ [] := by simpa using hx
  have h := (hasDerivAt_ksRow (g := x.map (fun v => -v)) (d := d.map (fun v => -v)) hx'
    (by simpa using hlen) hr).neg
  have e : (fun t => jaxKsMin (perturb x d t) rho)
      = fun t => -ksRow (perturb (x.map (fun v => -v)) (d.map (fun v => -v)) t) rho := by
    funext t
    rw [jaxKsMin_mirror (perturb_ne_nil hx hlen t), perturb_map_neg]
  rw [e]
  refine h.congr_deriv ?_
  rw [dotL_map_neg_right, jaxKsMinGrad_eq hx hr]; ring

/-! ### `KSComp` option handling -/

/-- Sign of `d con_val / d g` in `KSComp.compute`. -/
noncomputable def sgnIn (o : Opts ℝ) : ℝ :=
  (if o.lowerFlag then -1 else 1) * (if o.minimum then -1 else 1)

lemma conElem_eq (o : Opts ℝ) (x : ℝ) : conElem o x = sgnIn o * (x - o.upper) := by
  unfold conElem sgnIn
  cases o.lowerFlag <;> cases o.minimum <;> simp

lemma conVal_perturb (o : Opts ℝ) (g d : List ℝ) (t : ℝ) :
    conVal o (perturb g d t) = perturb (conVal o g) (d.map (fun v => sgnIn o * v)) t := by
  unfold conVal perturb
  rw [List.map_zipWith, List.zipWith_map]
  congr 1
  funext a b
  rw [conElem_eq, conElem_eq]; ring

lemma dotL_map_mul_right (a d : List ℝ) (k : ℝ) :
    dotL a (d.map (fun v => k * v)) = k * dotL a d := by
  rw [dotL_eq, dotL_eq]
  induction a generalizing d with
  | nil => simp
  | cons y a ih =>
    cases d with
    | nil => simp
    | cons dx d =>
      simp only [List.map_cons, List.zipWith_cons_cons, List.sum_cons]
      rw [ih d]; ring

lemma conVal_ne_nil (o : Opts ℝ) {g : List ℝ} (hg : g ≠ []) : conVal o g ≠ [] := by
  unfold conVal; simpa using hg

lemma conVal_length (o : Opts ℝ) (g : List ℝ) : (conVal o g).length = g.length := by
  unfold conVal; simp

/-- `compute_partials` is the derivative of what `compute` returns, for every flag combination. -/
lemma hasDerivAt_computeRow (o : Opts ℝ) {g d : List ℝ} (hg : g ≠ []) (hlen : d.length = g.length)
    (hr : o.rho ≠ 0) :
    HasDerivAt (fun t => computeRow o (perturb g d t)) (dotL (partialsRow o g) d) 0 := by
  have hc := conVal_ne_nil o hg
  have h := hasDerivAt_ksRow (g := conVal o g) (d := d.map (fun v => sgnIn o * v)) hc
    (by simp [conVal_length, hlen]) hr
  rw [dotL_map_mul_right] at h
  have e : (fun t => ksRow (conVal o (perturb g d t)) o.rho)
      = fun t => ksRow (perturb (conVal o g) (d.map (fun v => sgnIn o * v)) t) o.rho := by
    funext t; rw [conVal_perturb]
  rw [← e] at h
  unfold computeRow partialsRow
  simp only
  unfold sgnIn at h
  cases hl : o.lowerFlag <;> cases hm : o.minimum <;> simp only [hl, hm] at h ⊢
  · refine h.congr_deriv ?_; simp
  · refine h.neg.congr_deriv ?_; simp
  · refine h.congr_deriv ?_; simp only [if_true]; rw [dotL_map_neg_left]; simp
  · refine h.neg.congr_deriv ?_; simp only [if_true]; rw [dotL_map_neg_left]; simp

/-! ### bracket for every `KSComp` flag combination -/

lemma conVal_ff (o : Opts ℝ) (g : List ℝ) (hl : o.lowerFlag = false) (hm : o.minimum = false) :
    conVal o g = g.map (fun x => x - o.upper) := by
  unfold conVal conElem; simp [hl, hm]

lemma conVal_tf (o : Opts ℝ) (g : List ℝ) (hl : o.lowerFlag = true) (hm : o.minimum = false) :
    conVal o g = g.map (fun x => -(x - o.upper)) := by
  unfold conVal conElem; simp [hl, hm]

lemma conVal_ft (o : Opts ℝ) (g : List ℝ) (hl : o.lowerFlag = false) (hm : o.minimum = true) :
    conVal o g = g.map (fun x => -(x - o.upper)) := by
  unfold conVal conElem; simp [hl, hm]

lemma conVal_tt (o : Opts ℝ) (g : List ℝ) (hl : o.lowerFlag = true) (hm : o.minimum = true) :
    conVal o g = g.map (fun x => x - o.upper) := by
  unfold conVal conElem; simp [hl, hm]

lemma mono_sub (u : ℝ) : Monotone (fun x : ℝ => x - u) := fun _ _ h => sub_le_sub_right h u
lemma anti_neg_sub (u : ℝ) : Antitone (fun x : ℝ => -(x - u)) :=
  fun _ _ h => neg_le_neg (sub_le_sub_right h u)

lemma computeRow_bracket (o : Opts ℝ) {g : List ℝ} (hg : g ≠ []) (hr : 0 < o.rho) :
    (o.lowerFlag = false → o.minimum = false →
      maxL g - o.upper ≤ computeRow o g ∧
      computeRow o g ≤ maxL g - o.upper + Real.log g.length / o.rho) ∧
    (o.lowerFlag = true → o.minimum = false →
      o.upper - minL g ≤ computeRow o g ∧
      computeRow o g ≤ o.upper - minL g + Real.log g.length / o.rho) ∧
    (o.lowerFlag = false → o.minimum = true →
      minL g - o.upper - Real.log g.length / o.rho ≤ computeRow o g ∧
      computeRow o g ≤ minL g - o.upper) ∧
    (o.lowerFlag = true → o.minimum = true →
      o.upper - maxL g - Real.log g.length / o.rho ≤ computeRow o g ∧
      computeRow o g ≤ o.upper - maxL g) := by
  have hb := ksRow_bracket (conVal_ne_nil o hg) hr
  rw [conVal_length] at hb
  refine ⟨?_, ?_, ?_, ?_⟩ <;> intro hl hm <;> unfold computeRow <;>
    simp only [hm, if_true, Bool.false_eq_true, if_false]
  · rw [conVal_ff o g hl hm] at hb ⊢
    rw [maxL_map_mono hg (mono_sub _)] at hb
    simpa using hb
  · rw [conVal_tf o g hl hm] at hb ⊢
    rw [maxL_map_anti hg (anti_neg_sub _)] at hb
    constructor <;> [linarith [hb.1]; linarith [hb.2]]
  · rw [conVal_ft o g hl hm] at hb ⊢
    rw [maxL_map_anti hg (anti_neg_sub _)] at hb
    constructor <;> [linarith [hb.2]; linarith [hb.1]]
  · rw [conVal_tt o g hl hm] at hb ⊢
    rw [maxL_map_mono hg (mono_sub _)] at hb
    constructor <;> [linarith [hb.2]; linarith [hb.1]]

lemma sum_map_neg' (l : List ℝ) : (l.map (fun v => -v)).sum = -l.sum := by
  induction l with
  | nil => simp
  | cons a l ih => simp only [List.map_cons, List.sum_cons, ih]; ring

lemma partialsRow_sum (o : Opts ℝ) {g : List ℝ} (hg : g ≠ []) (hr : o.rho ≠ 0) :
    (partialsRow o g).sum = if o.lowerFlag then -1 else 1 := by
  unfold partialsRow
  simp only
  have h := dKSdg_sum (conVal_ne_nil o hg) hr (maxL (conVal o g))
  cases o.lowerFlag
  · simpa using h
  · simp only [if_true]
    rw [sum_map_neg', h]

/-! ### the code's `dKS_drho` -/

/-- With at least two entries the sum of exponentials (shift = max) exceeds 1. -/
lemma one_lt_sum_exponents {g : List ℝ} (h2 : 2 ≤ g.length) (rho : ℝ) :
    1 < sumL (exponents g rho (maxL g)) := by
  have hg : g ≠ [] := by intro h; rw [h] at h2; simp at h2
  rw [sumL_eq]
  have h1 : (1 : ℝ) ∈ exponents g rho (maxL g) := by
    refine List.mem_map.mpr ⟨maxL g, maxL_mem hg, ?_⟩
    simp
  rw [← List.sum_erase h1]
  have hpos : 0 < ((exponents g rho (maxL g)).erase 1).sum := by
    apply List.sum_pos
    · intro e he
      exact exponents_pos g rho _ e (List.mem_of_mem_erase he)
    · intro h
      have := List.length_erase_of_mem h1
      rw [h] at this
      simp [exponents] at this
      omega
  linarith

end OMV.C25
