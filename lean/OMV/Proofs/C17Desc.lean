/-
C17 helper lemmas: the descendant query `_list_cases_recurse_flat(coord)` against the list-prefix
specification on recording stacks. Core Lean only.
-/
import OMV.Proofs.C17Coord
import OMV.Proofs.C17Db
namespace OMV.C17


/-- A recorded case together with the recording stack it was recorded under (`none` for problem
cases, whose name is a free string). -/
structure Entry where
  row : Row
  coord : Option Coord

/-- The stored name is the rendering of the stack; names contain no separator. -/
def EntryWF (e : Entry) : Prop :=
  match e.coord with
  | some c => e.row.name = renderStack c ∧ c ≠ [] ∧ WF c
  | none => BarFree e.row.name

/-- `e` was recorded under the stack `c` or below it. -/
def isDesc (c : Coord) (e : Entry) : Bool :=
  match e.coord with
  | some k => c.isPrefixOf k
  | none => false

theorem render_has_bar (c : Coord) (h : c ≠ []) : '|' ∈ renderStack c := by
  cases c with
  | nil => exact absurd rfl h
  | cons x rest => obtain ⟨n, a⟩ := x; rw [renderStack_cons]; simp

theorem not_collide_self (c : Coord) : ¬ Collide c c := by
  rintro ⟨P, nm, a, b, rest, e1, e2, _, hab⟩
  rw [e1] at e2
  have := List.append_cancel_left e2
  simp at this
  exact hab this.1

theorem not_collide_of_mono (c k : Coord)
    (hmono : ∀ P nm a b r, c = P ++ [(nm, a)] → k = P ++ (nm, b) :: r → b ≤ a) : ¬ Collide c k := by
  rintro ⟨P, nm, a, b, rest, e1, e2, hd, hab⟩
  have h1 := hmono P nm a b rest e1 e2
  rcases natDigits_prefix b a hd with h2 | h2
  · exact hab h2
  · omega

theorem startsWith_eq_isDesc (c : Coord) (x : Entry) (hc : c ≠ []) (hwc : WF c) (hx : EntryWF x)
    (hcol : ∀ k, x.coord = some k → ¬ Collide c k) :
    (renderStack c).isPrefixOf x.row.name = isDesc c x := by
  unfold EntryWF at hx
  unfold isDesc
  cases hk : x.coord with
  | none =>
    simp only [hk] at hx ⊢
    apply Bool.eq_false_iff.mpr
    intro h
    have hp := List.isPrefixOf_iff_prefix.mp h
    obtain ⟨t, ht⟩ := hp
    apply hx; rw [← ht]; exact List.mem_append_left _ (render_has_bar c hc)
  | some k =>
    simp only [hk] at hx ⊢
    obtain ⟨hn, _, hwk⟩ := hx
    rw [hn]
    apply Bool.eq_iff_iff.mpr
    rw [List.isPrefixOf_iff_prefix, List.isPrefixOf_iff_prefix]
    constructor
    · intro h
      rcases prefix_or_collide_of_render_prefix c k hwc hwk h with h1 | h1
      · exact h1
      · exact absurd h1 (hcol k hk)
    · exact render_prefix_of_prefix c k

theorem filter_congr_mem {α : Type} (p q : α → Bool) (l : List α) (h : ∀ x ∈ l, p x = q x) :
    l.filter p = l.filter q := by
  induction l with
  | nil => rfl
  | cons a as ih =>
    have h1 := h a List.mem_cons_self
    have h2 := ih (fun x hx => h x (List.mem_cons_of_mem _ hx))
    simp [List.filter_cons, h1, h2]

theorem take_length_succ_append {α : Type} (l1 : List α) (a : α) (l2 : List α) :
    (l1 ++ a :: l2).take (l1.length + 1) = l1 ++ [a] := by
  induction l1 with
  | nil => simp
  | cons x xs ih => simp [ih]

theorem findIn_build (rows : List Row) (k : Kind) (nm : Str) :
    (Db.build rows).findIn k nm = (rows.filter (fun r => r.kind = k)).find? (fun r => r.name = nm) := by
  unfold Db.findIn; rw [build_table]

/-- The four-table cascade of `get_case` / `_list_cases_recurse_flat` finds the row of a unique name. -/
theorem findAny_unique (rows : List Row) (r : Row) (hr : r ∈ rows)
    (hu : ∀ x ∈ rows, x.name = r.name → x = r) :
    (Db.build rows).findAny r.name = some r := by
  have hsome : ∀ k, r.kind = k → (Db.build rows).findIn k r.name = some r := by
    intro k hk
    rw [findIn_build]
    apply find_some_of_unique _ r r.name _ rfl
    · intro x hx hn; exact hu x (List.mem_filter.mp hx).1 hn
    · exact List.mem_filter.mpr ⟨hr, by simp [hk]⟩
  have hnone : ∀ k, r.kind ≠ k → (Db.build rows).findIn k r.name = none := by
    intro k hk
    rw [findIn_build]
    apply find_none_of_absent
    intro x hx hn
    have hm := List.mem_filter.mp hx
    have := hu x hm.1 hn
    subst this
    exact hk (by simpa using hm.2)
  unfold Db.findAny Db.findAny3
  cases hk : r.kind
  · rw [hsome .driver hk]
  · rw [hnone .driver (by simp [hk]), hsome .system hk]
  · rw [hnone .driver (by simp [hk]), hnone .system (by simp [hk]), hsome .solver hk]
  · rw [hnone .driver (by simp [hk]), hnone .system (by simp [hk]), hnone .solver (by simp [hk]),
      hsome .problem hk]

theorem descendants_main (pre post : List Entry) (e : Entry) (c : Coord)
    (hc : e.coord = some c)
    (hwf : ∀ x ∈ pre ++ e :: post, EntryWF x)
    (hnodup : ((pre ++ e :: post).map (·.row.name)).Nodup)
    (hcounter : e.row.counter = pre.length + 1)
    (hpost : ∀ x ∈ post, isDesc c x = false)
    (hmono : ∀ x ∈ pre, ∀ k, x.coord = some k →
      ∀ P nm a b r, c = P ++ [(nm, a)] → k = P ++ (nm, b) :: r → b ≤ a) :
    (Db.build ((pre ++ e :: post).map (·.row))).listRecurseFlat e.row.name =
      .ok (((pre ++ e :: post).filter (isDesc c)).map (·.row.name)) := by
  have hewf := hwf e (by simp)
  unfold EntryWF at hewf
  simp only [hc] at hewf
  obtain ⟨hname, hcne, hwc⟩ := hewf
  -- the queried name is not empty
  have hne : e.row.name.isEmpty = false := by
    have := render_has_bar c hcne
    rw [← hname] at this
    cases h : e.row.name with
    | nil => rw [h] at this; cases this
    | cons _ _ => rfl
  -- unique row of that name
  generalize hrows : (pre ++ e :: post).map (·.row) = rows
  have hmem : e.row ∈ rows := by rw [← hrows]; exact List.mem_map.mpr ⟨e, by simp, rfl⟩
  have hnd : (rows.map (·.name)).Nodup := by
    rw [← hrows]; simpa [List.map_map, Function.comp_def] using hnodup
  have hu : ∀ x ∈ rows, x.name = e.row.name → x = e.row :=
    fun x hx hn => nodup_map_unique (·.name) rows hnd x hx e.row hmem hn
  have hcasc := findAny_unique rows e.row hmem hu
  have hlen : (Db.build rows).global.length = pre.length + 1 + post.length := by
    rw [build_global_length, ← hrows]; simp; omega
  have hgood := good_build rows
  unfold Good at hgood
  have htake := mapOpt_take _ _ _ (pre.length + 1) hgood
  unfold Db.listRecurseFlat
  simp only [hne, Bool.false_eq_true, if_false]
  rw [hcasc]
  simp only [Option.map_some, hcounter]
  have hgt : ¬ pre.length + 1 > (Db.build rows).global.length := by omega
  simp only [hgt, if_false, htake]
  congr 1
  -- the first `pre.length + 1` names are those of `pre ++ [e]`
  have htk : (rows.map (·.name)).take (pre.length + 1) = (pre ++ [e]).map (·.row.name) := by
    rw [← hrows]
    simp only [List.map_map, List.map_append, List.map_cons, List.map_nil]
    have := take_length_succ_append (pre.map ((fun x => x.name) ∘ fun x => x.row)) (e.row.name)
      (post.map ((fun x => x.name) ∘ fun x => x.row))
    simp only [List.length_map] at this
    exact this
  rw [htk, List.filter_map]
  have hsplit : pre ++ e :: post = (pre ++ [e]) ++ post := by simp
  have hpostnil : post.filter (isDesc c) = [] := by
    apply List.filter_eq_nil_iff.mpr
    intro x hx; simp [hpost x hx]
  have hR : (pre ++ e :: post).filter (isDesc c) = (pre ++ [e]).filter (isDesc c) := by
    rw [hsplit, List.filter_append, hpostnil, List.append_nil]
  rw [hR]
  congr 1
  apply filter_congr_mem
  intro x hx
  have hxw : EntryWF x := hwf x (by
    rcases List.mem_append.mp hx with h | h
    · exact List.mem_append_left _ h
    · simp at h; subst h; simp)
  simp only [Function.comp]
  rw [hname]
  apply startsWith_eq_isDesc c x hcne hwc hxw
  intro k hk
  rcases List.mem_append.mp hx with h | h
  · exact not_collide_of_mono c k (hmono x h k hk)
  · simp at h; subst h
    rw [hc] at hk; cases hk
    exact not_collide_self c


end OMV.C17
