/-
C27 — helper lemmas, part 2: `__setitem__` / `__getitem__` characterised through `targetOf`,
frame properties of a store, `SameDecls`, the invariant `Good`.
-/
import OMV.Proofs.C27

namespace OMV.C27

/-! ### resolve / targetOf -/

theorem declOf_eq_some {s : State} {n : String} {e : Entry} (h : lookup n s.dict = some e) :
    s.declOf n = some e.decl := by simp [State.declOf, h]

theorem declOf_eq_none {s : State} {n : String} (h : lookup n s.dict = none) :
    s.declOf n = none := by simp [State.declOf, h]

theorem resolve_spec (s : State) (n : String) :
    (s.targetOf n = none ∧ resolve s n = .error .keyError) ∨
    (∃ t et, s.targetOf n = some t ∧ lookup t s.dict = some et ∧ resolve s n = .ok (t, et)) := by
  cases hn : lookup n s.dict with
  | none => left; simp [resolve, State.targetOf, State.declOf, hn]
  | some e =>
    cases ha : e.decl.alias with
    | none => right; exact ⟨n, e, by simp [State.targetOf, State.declOf, hn, ha], hn,
        by simp [resolve, follow, hn, ha]⟩
    | some oa =>
      cases oa with
      | none => right; exact ⟨n, e, by simp [State.targetOf, State.declOf, hn, ha], hn,
          by simp [resolve, follow, hn, ha]⟩
      | some a =>
        cases hl : lookup a s.dict with
        | none => left; simp [resolve, follow, State.targetOf, State.declOf, hn, ha, hl]
        | some e' => right; exact ⟨a, e', by simp [State.targetOf, State.declOf, hn, ha, hl], hl,
            by simp [resolve, follow, hn, ha, hl]⟩

theorem resolve_cases (s : State) (n : String) :
    (resolve s n = .error .keyError ∧ s.targetOf n = none) ∨
    (∃ t et, resolve s n = .ok (t, et) ∧ s.targetOf n = some t ∧ lookup t s.dict = some et) := by
  rcases resolve_spec s n with ⟨h1, h2⟩ | ⟨t, et, h1, h2, h3⟩
  · exact Or.inl ⟨h2, h1⟩
  · exact Or.inr ⟨t, et, h3, h1, h2⟩

theorem resolve_ok_iff (s : State) (n t : String) (et : Entry) :
    resolve s n = .ok (t, et) ↔ s.targetOf n = some t ∧ lookup t s.dict = some et := by
  rcases resolve_spec s n with ⟨h1, h2⟩ | ⟨t', et', h1, h2, h3⟩
  · simp [h1, h2]
  · rw [h3, h1]
    constructor
    · intro h; cases h; exact ⟨rfl, h2⟩
    · rintro ⟨h, h'⟩; cases h; rw [h2] at h'; cases h'; rfl

/-- `__setitem__` through `resolve` (all failures before validation are `KeyError`). -/
theorem setOpt_eq (cfg : Cfg) (s : State) (n : String) (v : Val) :
    setOpt cfg s n v =
      match resolve s n with
      | .error x => .error x
      | .ok (t, et) =>
        if s.readOnly then .error .keyError
        else match assertValid cfg.checkValid et.decl v with
          | some x => .error x
          | none => .ok { s with dict := storeVal t v s.dict } := by
  cases hn : lookup n s.dict with
  | none => simp [setOpt, resolve, hn]
  | some e =>
    cases ha : e.decl.alias with
    | none =>
      cases hr : s.readOnly <;> cases hv : assertValid cfg.checkValid e.decl v <;>
        simp [setOpt, resolve, follow, hn, ha, hr, hv]
    | some oa =>
      cases oa with
      | none =>
        cases hr : s.readOnly <;> cases hv : assertValid cfg.checkValid e.decl v <;>
          simp [setOpt, resolve, follow, hn, ha, hr, hv]
      | some a =>
        cases hl : lookup a s.dict with
        | none => cases hr : s.readOnly <;> simp [setOpt, resolve, follow, hn, ha, hl, hr]
        | some e' =>
          cases hr : s.readOnly <;> cases hv : assertValid cfg.checkValid e'.decl v <;>
            simp [setOpt, resolve, follow, hn, ha, hl, hr, hv]

theorem getOpt_eq (s : State) (n : String) :
    getOpt s n =
      match resolve s n with
      | .error x => .error x
      | .ok (_, et) =>
        match et.val with
        | some v => .ok v
        | none => .error .runtimeError := by
  cases hn : lookup n s.dict with
  | none => simp [getOpt, resolve, hn]
  | some e =>
    cases ha : e.decl.alias with
    | none => cases hv : e.val <;> simp [getOpt, resolve, follow, hn, ha, hv]
    | some oa =>
      cases oa with
      | none => cases hv : e.val <;> simp [getOpt, resolve, follow, hn, ha, hv]
      | some a =>
        cases hl : lookup a s.dict with
        | none => simp [getOpt, resolve, follow, hn, ha, hl]
        | some e' => cases hv : e'.val <;> simp [getOpt, resolve, follow, hn, ha, hl, hv]

theorem setOpt_ok_iff (cfg : Cfg) (s s' : State) (n : String) (v : Val) :
    setOpt cfg s n v = .ok s' ↔
      ∃ t et, s.targetOf n = some t ∧ lookup t s.dict = some et ∧ s.readOnly = false ∧
        assertValid cfg.checkValid et.decl v = none ∧
        s' = { s with dict := storeVal t v s.dict } := by
  rw [setOpt_eq]
  rcases resolve_cases s n with ⟨h1, h2⟩ | ⟨t, et, h1, h2, h3⟩
  · rw [h1]; simp [h2]
  · rw [h1]
    simp only [h2, Option.some.injEq]
    constructor
    · intro h
      cases hr : s.readOnly with
      | true => rw [hr] at h; simp at h
      | false =>
        rw [hr] at h
        cases ha : assertValid cfg.checkValid et.decl v with
        | some x => rw [ha] at h; simp at h
        | none =>
          rw [ha] at h
          simp only [Bool.false_eq_true, if_false, Except.ok.injEq] at h
          exact ⟨t, et, rfl, h3, rfl, ha, h.symm⟩
    · rintro ⟨t', et', rfl, h3', hr, ha, rfl⟩
      rw [h3] at h3'; cases h3'
      simp [hr, ha]

theorem getOpt_ok_iff (s : State) (n : String) (v : Val) :
    getOpt s n = .ok v ↔ ∃ t, s.targetOf n = some t ∧ s.valOf t = some v := by
  rw [getOpt_eq]
  rcases resolve_cases s n with ⟨h1, h2⟩ | ⟨t, et, h1, h2, h3⟩
  · rw [h1]; simp [h2]
  · rw [h1]
    simp only [h2, Option.some.injEq, exists_eq_left', State.valOf, h3, Option.bind_some]
    cases et.val <;> simp

theorem getOpt_error_class (s : State) (n : String) (x : Exc) (h : getOpt s n = .error x) :
    x = .keyError ∨ x = .runtimeError := by
  rw [getOpt_eq] at h
  rcases resolve_cases s n with ⟨h1, _⟩ | ⟨t, et, h1, _, _⟩
  · rw [h1] at h; simp at h; exact Or.inl h.symm
  · rw [h1] at h
    simp only at h
    cases hv : et.val with
    | none => rw [hv] at h; simp at h; exact Or.inr h.symm
    | some v => rw [hv] at h; simp at h

/-! ### the effect of a store -/

/-- State after `meta['val'] = v` on entry `t`. -/
def State.store (s : State) (t : String) (v : Val) : State :=
  { s with dict := storeVal t v s.dict }

theorem store_declOf (s : State) (t m : String) (v : Val) :
    (s.store t v).declOf m = s.declOf m := by
  unfold State.store State.declOf
  simp only [lookup_storeVal]
  by_cases h : t = m
  · simp only [h, if_true]; cases lookup m s.dict <;> rfl
  · simp [h]

theorem store_valOf (s : State) (t m : String) (v : Val) (et : Entry)
    (ht : lookup t s.dict = some et) :
    (s.store t v).valOf m = if t = m then some v else s.valOf m := by
  unfold State.store State.valOf
  simp only [lookup_storeVal]
  by_cases h : t = m
  · subst h; simp [ht]
  · simp [h]

theorem store_sameDecls (s : State) (t : String) (v : Val) : SameDecls s (s.store t v) :=
  ⟨rfl, fun n => store_declOf s t n v⟩

theorem SameDecls.refl (s : State) : SameDecls s s := ⟨rfl, fun _ => rfl⟩

theorem SameDecls.trans {a b c : State} (h1 : SameDecls a b) (h2 : SameDecls b c) :
    SameDecls a c :=
  ⟨h2.1.trans h1.1, fun n => (h2.2 n).trans (h1.2 n)⟩

theorem SameDecls.symm {a b : State} (h : SameDecls a b) : SameDecls b a :=
  ⟨h.1.symm, fun n => (h.2 n).symm⟩

theorem SameDecls.targetOf {a b : State} (h : SameDecls a b) (n : String) :
    b.targetOf n = a.targetOf n := by
  unfold State.targetOf
  rw [h.2 n]
  cases a.declOf n with
  | none => rfl
  | some d =>
    simp only
    cases d.alias with
    | none => rfl
    | some oa =>
      cases oa with
      | none => rfl
      | some x => simp only [h.2 x]

/-- Changing only the cache keeps the declarations. -/
theorem sameDecls_of_dict {s s' : State} (hd : s'.dict = s.dict) (hr : s'.readOnly = s.readOnly) :
    SameDecls s s' := ⟨hr, fun n => by simp [State.declOf, hd]⟩

theorem targetOf_declared {s : State} {n t : String} (h : s.targetOf n = some t) :
    ∃ et, lookup t s.dict = some et := by
  unfold State.targetOf at h
  cases hn : lookup n s.dict with
  | none => simp [declOf_eq_none hn] at h
  | some e =>
    simp only [declOf_eq_some hn] at h
    cases ha : e.decl.alias with
    | none => rw [ha] at h; simp at h; subst h; exact ⟨e, hn⟩
    | some oa =>
      cases oa with
      | none => rw [ha] at h; simp at h; subst h; exact ⟨e, hn⟩
      | some a =>
        rw [ha] at h
        cases hl : lookup a s.dict with
        | none => simp [declOf_eq_none hl] at h
        | some e' => simp [declOf_eq_some hl] at h; subst h; exact ⟨e', hl⟩

/-! ### the invariant "held values are valid" -/

theorem good_store {cfg : Cfg} {s : State} {t : String} {v : Val} {et : Entry}
    (hg : Good cfg s) (ht : lookup t s.dict = some et)
    (hv : Satisfies cfg.checkValid et.decl v) : Good cfg (s.store t v) := by
  intro n e w hn hw
  unfold State.store at hn
  simp only [lookup_storeVal] at hn
  by_cases h : t = n
  · subst h
    simp only [if_true, ht, Option.map_some, Option.some.injEq] at hn
    subst hn
    simp only [Option.some.injEq] at hw
    subst hw
    exact hv
  · simp only [h, if_false] at hn
    exact hg n e w hn hw

theorem good_of_dict {cfg : Cfg} {s s' : State} (hd : s'.dict = s.dict) (hg : Good cfg s) :
    Good cfg s' := by
  intro n e w hn hw
  rw [hd] at hn
  exact hg n e w hn hw

/-- A value read back through `valOf` is valid for the declaration of that entry. -/
theorem good_valOf {cfg : Cfg} {s : State} {t : String} {v : Val} {et : Entry}
    (hg : Good cfg s) (ht : lookup t s.dict = some et) (hv : s.valOf t = some v) :
    assertValid cfg.checkValid et.decl v = none := by
  rw [assertValid_eq_none]
  apply hg t et v ht
  simpa [State.valOf, ht] using hv

/-- Successful `__setitem__`, summarised. -/
theorem setOpt_ok_spec {cfg : Cfg} {s s' : State} {n : String} {v : Val}
    (h : setOpt cfg s n v = .ok s') :
    ∃ t et, s.targetOf n = some t ∧ lookup t s.dict = some et ∧ s.readOnly = false ∧
      Satisfies cfg.checkValid et.decl v ∧ s' = s.store t v := by
  obtain ⟨t, et, h1, h2, h3, h4, h5⟩ := (setOpt_ok_iff cfg s s' n v).mp h
  exact ⟨t, et, h1, h2, h3, (assertValid_eq_none _ _ _).mp h4, h5⟩

/-- `__setitem__` succeeds when the target exists, the dictionary is writable and the value is
valid. -/
theorem setOpt_succeeds {cfg : Cfg} {s : State} {n t : String} {v : Val} {et : Entry}
    (h1 : s.targetOf n = some t) (h2 : lookup t s.dict = some et) (h3 : s.readOnly = false)
    (h4 : assertValid cfg.checkValid et.decl v = none) :
    setOpt cfg s n v = .ok (s.store t v) :=
  (setOpt_ok_iff cfg s _ n v).mpr ⟨t, et, h1, h2, h3, h4, rfl⟩

theorem setOpt_good {cfg : Cfg} {s s' : State} {n : String} {v : Val}
    (hg : Good cfg s) (h : setOpt cfg s n v = .ok s') : Good cfg s' ∧ SameDecls s s' ∧
      s'.cache = s.cache := by
  obtain ⟨t, et, _, h2, _, h4, rfl⟩ := setOpt_ok_spec h
  exact ⟨good_store hg h2 h4, store_sameDecls s t v, rfl⟩

end OMV.C27
