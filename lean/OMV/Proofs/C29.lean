/-
C29 — helper lemmas: tokenisation (`segs`/`join`/`plug`), the `_SubHelper` counting logic in closed
form, Python list indexing.
-/
import OMV.Model.C29

namespace OMV.C29

/-! ## Well-formed run lists -/

/-- A text that is one field under `p`: non-empty, no separator character. -/
def TokOK (p : Char → Bool) (t : Text) : Prop := t ≠ [] ∧ ∀ c ∈ t, p c = false

/-- A text that is a separator run under `p`. -/
def SepOK (p : Char → Bool) (t : Text) : Prop := t ≠ [] ∧ ∀ c ∈ t, p c = true

/-- Runs alternate, fields are separator-free, separator runs contain only separators. -/
def WF (p : Char → Bool) : List Seg → Prop
  | [] => True
  | [.tok t] => TokOK p t
  | [.sep s] => SepOK p s
  | .tok t :: .sep s :: r => TokOK p t ∧ WF p (.sep s :: r)
  | .sep s :: .tok t :: r => SepOK p s ∧ WF p (.tok t :: r)
  | .tok _ :: .tok _ :: _ => False
  | .sep _ :: .sep _ :: _ => False

theorem join_segs (p : Char → Bool) (s : Text) : join (segs p s) = s := by
  induction s with
  | nil => rfl
  | cons c cs ih =>
    unfold segs
    split
    · rename_i t r h
      rw [h] at ih
      by_cases hp : p c = true
      · simp [hp, join, Seg.text] at ih ⊢; exact ih
      · simp [hp, join, Seg.text] at ih ⊢; exact ih
    · rename_i t r h
      rw [h] at ih
      by_cases hp : p c = true
      · simp [hp, join, Seg.text] at ih ⊢; exact ih
      · simp [hp, join, Seg.text] at ih ⊢; exact ih
    · rename_i h
      rw [h] at ih
      by_cases hp : p c = true
      · simp [hp, join, Seg.text] at ih ⊢; exact ih
      · simp [hp, join, Seg.text] at ih ⊢; exact ih

theorem segs_wf (p : Char → Bool) (s : Text) : WF p (segs p s) := by
  induction s with
  | nil => simp [segs, WF]
  | cons c cs ih =>
    unfold segs
    split
    · rename_i t r h
      rw [h] at ih
      by_cases hp : p c = true
      · simp only [hp, if_true]
        refine ⟨⟨by simp, by simp [hp]⟩, ih⟩
      · have hp' : p c = false := by simpa using hp
        simp only [hp', Bool.false_eq_true, if_false]
        cases r with
        | nil =>
          simp only [WF, TokOK] at ih ⊢
          exact ⟨by simp, by intro x hx; simp at hx; rcases hx with rfl | hx; exact hp'; exact ih.2 x hx⟩
        | cons y r' =>
          cases y with
          | tok t' => simp [WF] at ih
          | sep s' =>
            simp only [WF, TokOK] at ih ⊢
            exact ⟨⟨by simp, by intro x hx; simp at hx; rcases hx with rfl | hx; exact hp'; exact ih.1.2 x hx⟩, ih.2⟩
    · rename_i t r h
      rw [h] at ih
      by_cases hp : p c = true
      · simp only [hp, if_true]
        cases r with
        | nil =>
          simp only [WF, SepOK] at ih ⊢
          exact ⟨by simp, by intro x hx; simp at hx; rcases hx with rfl | hx; exact hp; exact ih.2 x hx⟩
        | cons y r' =>
          cases y with
          | sep s' => simp [WF] at ih
          | tok t' =>
            simp only [WF, SepOK] at ih ⊢
            exact ⟨⟨by simp, by intro x hx; simp at hx; rcases hx with rfl | hx; exact hp; exact ih.1.2 x hx⟩, ih.2⟩
      · have hp' : p c = false := by simpa using hp
        simp only [hp', Bool.false_eq_true, if_false]
        refine ⟨⟨by simp, by simp [hp']⟩, ih⟩
    · by_cases hp : p c = true
      · simp [hp, WF, SepOK]
      · have hp' : p c = false := by simpa using hp
        simp [hp', WF, TokOK]

theorem segs_cons (p : Char → Bool) (c : Char) (cs : Text) :
    segs p (c :: cs) =
      match segs p cs with
      | .tok t :: r => if p c then .sep [c] :: .tok t :: r else .tok (c :: t) :: r
      | .sep s :: r => if p c then .sep (c :: s) :: r else .tok [c] :: .sep s :: r
      | [] => if p c then [.sep [c]] else [.tok [c]] := by
  conv => lhs; rw [segs]
  split <;> rename_i h <;> simp [h]

/-- not starting with a field -/
def NoTokHead : List Seg → Prop
  | .tok _ :: _ => False
  | _ => True

/-- not starting with a separator run -/
def NoSepHead : List Seg → Prop
  | .sep _ :: _ => False
  | _ => True

theorem segs_tok_append (p : Char → Bool) (t rest : Text) (ht : TokOK p t)
    (hr : NoTokHead (segs p rest)) : segs p (t ++ rest) = .tok t :: segs p rest := by
  induction t with
  | nil => exact absurd rfl ht.1
  | cons c t' ih =>
    have hc : p c = false := ht.2 c (by simp)
    cases t' with
    | nil =>
      show segs p (c :: rest) = _
      rw [segs_cons]
      split
      · rename_i t r h; rw [h] at hr; exact absurd hr (by simp [NoTokHead])
      · rename_i s r h; simp [hc, h]
      · rename_i h; simp [hc, h]
    | cons c' t'' =>
      have ht' : TokOK p (c' :: t'') := ⟨by simp, fun x hx => ht.2 x (by simp at hx ⊢; right; exact hx)⟩
      have := ih ht'
      show segs p (c :: ((c' :: t'') ++ rest)) = _
      rw [segs_cons]
      rw [this]
      simp [hc]

theorem segs_sep_append (p : Char → Bool) (s rest : Text) (hs : SepOK p s)
    (hr : NoSepHead (segs p rest)) : segs p (s ++ rest) = .sep s :: segs p rest := by
  induction s with
  | nil => exact absurd rfl hs.1
  | cons c s' ih =>
    have hc : p c = true := hs.2 c (by simp)
    cases s' with
    | nil =>
      show segs p (c :: rest) = _
      rw [segs_cons]
      split
      · rename_i t r h; simp [hc, h]
      · rename_i s r h; rw [h] at hr; exact absurd hr (by simp [NoSepHead])
      · rename_i h; simp [hc, h]
    | cons c' s'' =>
      have hs' : SepOK p (c' :: s'') := ⟨by simp, fun x hx => hs.2 x (by simp at hx ⊢; right; exact hx)⟩
      have := ih hs'
      show segs p (c :: ((c' :: s'') ++ rest)) = _
      rw [segs_cons]
      rw [this]
      simp [hc]

/-- Tokenising the text spelled by a well-formed run list gives the run list back. -/
theorem segs_join (p : Char → Bool) (L : List Seg) (h : WF p L) : segs p (join L) = L := by
  induction L with
  | nil => rfl
  | cons x r ih =>
    cases x with
    | tok t =>
      cases r with
      | nil =>
        have := segs_tok_append p t [] h (by simp [segs, NoTokHead])
        simpa [join, Seg.text, segs] using this
      | cons y r' =>
        cases y with
        | tok t' => simp [WF] at h
        | sep s' =>
          have hr : segs p (join (.sep s' :: r')) = .sep s' :: r' := ih h.2
          have := segs_tok_append p t (join (.sep s' :: r')) h.1 (by rw [hr]; simp [NoTokHead])
          rw [hr] at this
          simpa [join, Seg.text] using this
    | sep s =>
      cases r with
      | nil =>
        have := segs_sep_append p s [] h (by simp [segs, NoSepHead])
        simpa [join, Seg.text, segs] using this
      | cons y r' =>
        cases y with
        | sep s' => simp [WF] at h
        | tok t' =>
          have hr : segs p (join (.tok t' :: r')) = .tok t' :: r' := ih h.2
          have := segs_sep_append p s (join (.tok t' :: r')) h.1 (by rw [hr]; simp [NoSepHead])
          rw [hr] at this
          simpa [join, Seg.text] using this

/-! ## `plug` -/

theorem toks_plug (L : List Seg) (ns : List Text) (h : ns.length = (toks L).length) :
    toks (plug L ns) = ns := by
  induction L generalizing ns with
  | nil => cases ns with
    | nil => rfl
    | cons => simp [toks] at h
  | cons x r ih =>
    cases x with
    | sep s => simpa [plug, toks] using ih ns (by simpa [toks] using h)
    | tok t =>
      cases ns with
      | nil => simp [toks] at h
      | cons n ns' =>
        simp only [plug, toks]
        rw [ih ns' (by simpa [toks] using h)]

/-- the separator runs of a run list -/
def seps : List Seg → List Text
  | [] => []
  | .tok _ :: r => seps r
  | .sep s :: r => s :: seps r

theorem seps_plug (L : List Seg) (ns : List Text) : seps (plug L ns) = seps L := by
  induction L generalizing ns with
  | nil => rfl
  | cons x r ih =>
    cases x with
    | sep s => simp [plug, seps, ih]
    | tok t => cases ns <;> simp [plug, seps, ih]

theorem wf_plug (p : Char → Bool) (L : List Seg) (ns : List Text) (h : WF p L)
    (hn : ∀ n ∈ ns, TokOK p n) : WF p (plug L ns) := by
  induction L generalizing ns with
  | nil => simp [plug, WF]
  | cons x r ih =>
    cases x with
    | sep s =>
      cases r with
      | nil => simpa [plug, WF] using h
      | cons y r' =>
        cases y with
        | sep s' => simp [WF] at h
        | tok t' =>
          have := ih ns h.2 hn
          cases ns with
          | nil => simp only [plug, WF] at this ⊢; exact ⟨h.1, this⟩
          | cons n ns' => simp only [plug, WF] at this ⊢; exact ⟨h.1, this⟩
    | tok t =>
      cases r with
      | nil =>
        cases ns with
        | nil => simpa [plug, WF] using h
        | cons n ns' => simpa [plug, WF] using hn n (by simp)
      | cons y r' =>
        cases y with
        | tok t' => simp [WF] at h
        | sep s' =>
          cases ns with
          | nil =>
            have := ih [] h.2 (by simp)
            simp only [plug, WF] at this ⊢; exact ⟨h.1, this⟩
          | cons n ns' =>
            have := ih ns' h.2 (fun n hn' => hn n (by simp [hn']))
            simp only [plug, WF] at this ⊢; exact ⟨hn n (by simp), this⟩

/-- `re.sub` followed by re-tokenisation: when every new text is one field, the fields of the new
line are exactly the new texts and the separator runs are those of the old line. -/
theorem fields_sub (p : Char → Bool) (line : Text) (ns : List Text)
    (hl : ns.length = (fields p line).length) (hn : ∀ n ∈ ns, TokOK p n) :
    fields p (join (plug (segs p line) ns)) = ns ∧
    seps (segs p (join (plug (segs p line) ns))) = seps (segs p line) := by
  have hw := wf_plug p (segs p line) ns (segs_wf p line) hn
  unfold fields
  rw [segs_join p _ hw]
  exact ⟨toks_plug _ _ hl, seps_plug _ _⟩

theorem toks_tokOK (p : Char → Bool) (L : List Seg) (h : WF p L) : ∀ t ∈ toks L, TokOK p t := by
  induction L with
  | nil => simp [toks]
  | cons x r ih =>
    cases x with
    | sep s =>
      cases r with
      | nil => simp [toks]
      | cons y r' =>
        cases y with
        | sep s' => simp [WF] at h
        | tok t' => simpa [toks] using ih h.2
    | tok t =>
      cases r with
      | nil => simpa [toks, WF] using h
      | cons y r' =>
        cases y with
        | tok t' => simp [WF] at h
        | sep s' =>
          intro x hx
          simp only [toks, List.mem_cons] at hx
          rcases hx with rfl | hx
          · exact h.1
          · exact ih h.2 x (by simpa [toks] using hx)

theorem fields_tokOK (p : Char → Bool) (line : Text) : ∀ t ∈ fields p line, TokOK p t :=
  toks_tokOK p _ (segs_wf p line)


/-! ## `_SubHelper` counting logic -/

theorem getElem?_none_add {α} (l : List α) (k m : Nat) (h : l[k]? = none) : l[k + m]? = none := by
  rw [List.getElem?_eq_none_iff] at h ⊢; omega

theorem replaceArr_cons_put (fmt : Val → Except Err Text) (vals : List Val) (st en : Int)
    (t : Text) (ts : List Text) (cur k : Nat) (v : Val)
    (h : st ≤ (cur : Int) + 1 ∧ (cur : Int) + 1 ≤ en) (hv : vals[k]? = some v) :
    replaceArr fmt vals st en cur k (t :: ts) =
      (fmt v :: (replaceArr fmt vals st en (cur + 1) (k + 1) ts).1,
       (replaceArr fmt vals st en (cur + 1) (k + 1) ts).2) := by
  conv => lhs; rw [replaceArr]
  simp [h, hv]

theorem replaceArr_cons_keep (fmt : Val → Except Err Text) (vals : List Val) (st en : Int)
    (t : Text) (ts : List Text) (cur k : Nat)
    (h : ¬ (st ≤ (cur : Int) + 1 ∧ (cur : Int) + 1 ≤ en) ∨ vals[k]? = none) :
    replaceArr fmt vals st en cur k (t :: ts) =
      (.ok t :: (replaceArr fmt vals st en (cur + 1) k ts).1,
       (replaceArr fmt vals st en (cur + 1) k ts).2) := by
  conv => lhs; rw [replaceArr]
  rcases h with h | h
  · simp [h]
  · by_cases h' : st ≤ (cur : Int) + 1 ∧ (cur : Int) + 1 ≤ en
    · simp [h', h]
    · simp [h']

theorem replaceArr_fst_getElem? (fmt : Val → Except Err Text) (vals : List Val) (st en : Int)
    (ts : List Text) (cur k i : Nat) :
    (replaceArr fmt vals st en cur k ts).1[i]? =
      ts[i]?.map (fun t =>
        if st ≤ (cur : Int) + i + 1 ∧ (cur : Int) + i + 1 ≤ en then
          match vals[k + (i - (st - 1 - cur).toNat)]? with
          | some v => fmt v
          | none => .ok t
        else .ok t) := by
  induction ts generalizing cur k i with
  | nil => simp [replaceArr]
  | cons t ts ih =>
    by_cases hc : st ≤ (cur : Int) + 1 ∧ (cur : Int) + 1 ≤ en
    · have hA : (st - 1 - (cur : Int)).toNat = 0 := by omega
      have hA' : (st - 1 - ((cur + 1 : Nat) : Int)).toNat = 0 := by omega
      cases hv : vals[k]? with
      | none =>
        rw [replaceArr_cons_keep fmt vals st en t ts cur k (Or.inr hv)]
        cases i with
        | zero => simp [hc, hv]
        | succ j =>
          simp only [List.getElem?_cons_succ]
          rw [ih, hA, hA']
          have h1 : vals[k + j]? = none := getElem?_none_add vals k _ hv
          have h2 : vals[k + (j + 1)]? = none := getElem?_none_add vals k _ hv
          simp [h1, h2]
      | some v =>
        rw [replaceArr_cons_put fmt vals st en t ts cur k v hc hv]
        cases i with
        | zero => simp [hc, hv]
        | succ j =>
          simp only [List.getElem?_cons_succ]
          rw [ih, hA, hA']
          have : k + 1 + (j - 0) = k + (j + 1 - 0) := by omega
          rw [this]
          have e : ((cur + 1 : Nat) : Int) + (j : Int) + 1 = (cur : Int) + ((j + 1 : Nat) : Int) + 1 := by omega
          rw [e]
    · rw [replaceArr_cons_keep fmt vals st en t ts cur k (Or.inl hc)]
      cases i with
      | zero => simp [hc]
      | succ j =>
        simp only [List.getElem?_cons_succ]
        rw [ih]
        have e : ((cur + 1 : Nat) : Int) + (j : Int) + 1 = (cur : Int) + ((j + 1 : Nat) : Int) + 1 := by omega
        rw [e]
        cases hts : ts[j]? with
        | none => simp
        | some t' =>
          simp only [Option.map_some]
          by_cases hc2 : st ≤ (cur : Int) + ((j + 1 : Nat) : Int) + 1 ∧ (cur : Int) + ((j + 1 : Nat) : Int) + 1 ≤ en
          · have : j - (st - 1 - ((cur + 1 : Nat) : Int)).toNat = j + 1 - (st - 1 - (cur : Int)).toNat := by omega
            simp only [hc2, and_self, if_true, this]
          · simp only [hc2, if_false]

theorem replaceVar_getElem? (fmt : Val → Except Err Text) (v : Val) (loc : Int) (ts : List Text)
    (cur i : Nat) :
    (replaceVar fmt v loc cur ts)[i]? =
      ts[i]?.map (fun t => if (cur : Int) + i + 1 = loc then fmt v else .ok t) := by
  induction ts generalizing cur i with
  | nil => simp [replaceVar]
  | cons t ts ih =>
    cases i with
    | zero => simp [replaceVar]
    | succ j =>
      simp only [replaceVar, List.getElem?_cons_succ]
      rw [ih]
      have e : ((cur + 1 : Nat) : Int) + (j : Int) + 1 = (cur : Int) + ((j + 1 : Nat) : Int) + 1 := by omega
      rw [e]

/-! ## `allOk` -/

theorem allOk_map_ok (ts : List Text) : allOk (ts.map .ok) = .ok ts := by
  induction ts with
  | nil => rfl
  | cons t ts ih => simp [allOk, ih]

theorem allOk_ok_length (l : List (Except Err Text)) (ts : List Text) (h : allOk l = .ok ts) :
    ts.length = l.length := by
  induction l generalizing ts with
  | nil => simp [allOk] at h; subst h; rfl
  | cons x r ih =>
    cases x with
    | error e => simp [allOk] at h
    | ok t =>
      simp only [allOk] at h
      cases hr : allOk r with
      | error e => simp [hr] at h
      | ok ts' =>
        simp [hr] at h; subst h
        simp [ih ts' hr]

/-! ## closed forms of the two replacement callbacks on a whole line -/

/-- `replace`: only field number `loc` is replaced (nothing if `loc` is not a field number). -/
theorem replaceVar_ok (fmt : Val → Except Err Text) (v : Val) (t : Text) (loc : Int)
    (ts : List Text) (hf : fmt v = .ok t) :
    allOk (replaceVar fmt v loc 0 ts) =
      .ok (if 1 ≤ loc then ts.set (loc - 1).toNat t else ts) := by
  have : replaceVar fmt v loc 0 ts = (if 1 ≤ loc then ts.set (loc - 1).toNat t else ts).map .ok := by
    apply List.ext_getElem?
    intro i
    rw [replaceVar_getElem?]
    by_cases h1 : 1 ≤ loc
    · simp only [h1, if_true, List.getElem?_map, List.getElem?_set]
      by_cases h2 : (loc - 1).toNat = i
      · have : ((0 : Nat) : Int) + (i : Int) + 1 = loc := by omega
        simp only [h2, this, if_true]
        cases hts : ts[i]? with
        | none =>
          have := List.getElem?_eq_none_iff.mp hts
          simp [Nat.not_lt.mpr this]
        | some x =>
          have : i < ts.length := (List.getElem?_eq_some_iff.mp hts).1
          simp [this, hf]
      · have : ¬ (((0 : Nat) : Int) + (i : Int) + 1 = loc) := by omega
        simp only [h2, this, if_false]
    · have : ¬ (((0 : Nat) : Int) + (i : Int) + 1 = loc) := by omega
      simp only [h1, this, if_false, List.getElem?_map]
  rw [this, allOk_map_ok]

/-- The texts laid over the fields with index `a, a+1, …` (0-based), not at or beyond index `b`. -/
def overlayAt (ts texts : List Text) (a b : Nat) : List Text :=
  ts.mapIdx (fun i t => if a ≤ i ∧ i < b then (texts[i - a]?).getD t else t)

/-- `replace_array`: the fields numbered `st..en` are replaced, in order, by the values from
number `k` on, as long as there are values. -/
theorem replaceArr_ok (fmt : Val → Except Err Text) (vals : List Val) (texts : List Text)
    (st en : Int) (k : Nat) (ts : List Text) (hf : vals.map fmt = texts.map .ok) :
    allOk (replaceArr fmt vals st en 0 k ts).1 =
      .ok (overlayAt ts (texts.drop k) (st - 1).toNat en.toNat) := by
  have hv : ∀ j : Nat, vals[j]?.map fmt = texts[j]?.map .ok := by
    intro j
    have := congrArg (fun l => l[j]?) hf
    simpa [List.getElem?_map] using this
  have : (replaceArr fmt vals st en 0 k ts).1 =
      (overlayAt ts (texts.drop k) (st - 1).toNat en.toNat).map .ok := by
    apply List.ext_getElem?
    intro i
    rw [replaceArr_fst_getElem?]
    simp only [overlayAt, List.getElem?_map, List.getElem?_mapIdx, List.getElem?_drop]
    cases hts : ts[i]? with
    | none => simp
    | some x =>
      simp only [Option.map_some]
      by_cases hc : st ≤ ((0 : Nat) : Int) + (i : Int) + 1 ∧ ((0 : Nat) : Int) + (i : Int) + 1 ≤ en
      · have hc' : (st - 1).toNat ≤ i ∧ i < en.toNat := by omega
        have e : (st - 1 - ((0 : Nat) : Int)).toNat = (st - 1).toNat := by omega
        simp only [hc, hc', and_self, if_true, e]
        have := hv (k + (i - (st - 1).toNat))
        cases h1 : vals[k + (i - (st - 1).toNat)]? with
        | none =>
          rw [h1] at this
          cases h2 : texts[k + (i - (st - 1).toNat)]? with
          | none => simp
          | some y => rw [h2] at this; simp at this
        | some v =>
          rw [h1] at this
          cases h2 : texts[k + (i - (st - 1).toNat)]? with
          | none => rw [h2] at this; simp at this
          | some y => rw [h2] at this; simp at this; simp [this]
      · have hc' : ¬ ((st - 1).toNat ≤ i ∧ i < en.toNat) := by omega
        simp only [hc, hc', if_false]
  rw [this, allOk_map_ok]

theorem overlayAt_length (ts texts : List Text) (a b : Nat) :
    (overlayAt ts texts a b).length = ts.length := by
  simp [overlayAt]

/-- When the texts fit into the range and the line: they replace a contiguous block. -/
theorem overlayAt_fit (ts texts : List Text) (a b : Nat) (h1 : a + texts.length ≤ b)
    (h2 : a + texts.length ≤ ts.length) :
    overlayAt ts texts a b = ts.take a ++ texts ++ ts.drop (a + texts.length) := by
  apply List.ext_getElem?
  intro i
  simp only [overlayAt, List.getElem?_mapIdx, List.getElem?_append, List.getElem?_take,
    List.getElem?_drop, List.length_take, List.length_append]
  have hm : min a ts.length = a := by omega
  rw [hm]
  by_cases hi : i < a
  · have : ¬ (a ≤ i ∧ i < b) := by omega
    have hi2 : i < a + texts.length := by omega
    simp [hi, hi2, this]
  · by_cases hi2 : i < a + texts.length
    · have hc : a ≤ i ∧ i < b := by omega
      have hlt : i - a < texts.length := by omega
      have hts : i < ts.length := by omega
      simp only [hi, hi2, if_false, if_true, hc, and_self]
      rw [List.getElem?_eq_getElem hts, List.getElem?_eq_getElem hlt]
      simp
    · simp only [hi, hi2, if_false]
      have e : a + texts.length + (i - (a + texts.length)) = i := by omega
      rw [e]
      cases hts : ts[i]? with
      | none => simp
      | some x =>
        simp only [Option.map_some]
        by_cases hc : a ≤ i ∧ i < b
        · have : texts[i - a]? = none := List.getElem?_eq_none_iff.mpr (by omega)
          simp [hc, this]
        · simp [hc]



/-! ## Python list indexing -/

theorem pyIdx_lt {n : Nat} {i : Int} {k : Nat} (h : pyIdx n i = some k) : k < n := by
  unfold pyIdx at h
  split at h
  · split at h
    · simp at h; omega
    · simp at h
  · split at h
    · simp at h; omega
    · simp at h

theorem pyGet_ok_iff {α : Type} (l : List α) (i : Int) (x : α) :
    pyGet l i = .ok x ↔ ∃ k, pyIdx l.length i = some k ∧ l[k]? = some x := by
  unfold pyGet
  cases h : pyIdx l.length i with
  | none => simp
  | some k =>
    cases h2 : l[k]? with
    | none => simp [h2]
    | some y => simp [h2]

theorem pySet_length {α : Type} (l : List α) (i : Int) (x : α) : (pySet l i x).length = l.length := by
  unfold pySet
  cases pyIdx l.length i <;> simp

theorem pyGet_pySet_same {α : Type} (l : List α) (i : Int) (x : α) (k : Nat)
    (h : pyIdx l.length i = some k) : pyGet (pySet l i x) i = .ok x := by
  have hk := pyIdx_lt h
  unfold pyGet
  rw [pySet_length, h]
  simp [pySet, h, hk]

theorem pyGet_pySet_other {α : Type} (l : List α) (i j : Int) (x : α)
    (h : pyIdx l.length i ≠ pyIdx l.length j) : pyGet (pySet l i x) j = pyGet l j := by
  unfold pyGet
  rw [pySet_length]
  cases hj : pyIdx l.length j with
  | none => rfl
  | some kj =>
    cases hi : pyIdx l.length i with
    | none => simp [pySet, hi]
    | some ki =>
      have : ki ≠ kj := by
        intro e; apply h; rw [hi, hj, e]
      simp [pySet, hi, List.getElem?_set_ne this]

/-- field number `f` (1-based) of a line with `n` fields, as `data[f - 1]` resolves it -/
theorem pyIdx_field {n : Nat} {f : Int} (h1 : 1 ≤ f) (h2 : f ≤ n) :
    pyIdx n (f - 1) = some (f - 1).toNat := by
  unfold pyIdx
  have : 0 ≤ f - 1 := by omega
  have : f - 1 < n := by omega
  simp [*]

/-! ## one line -/

theorem subVarLine_ok (E : Env) (v : Val) (t : Text) (field : Int) (line : Text)
    (hf : E.fmt v = .ok t) :
    subVarLine E v field line =
      .ok (join (plug (segs E.sepG line)
        (if 1 ≤ field then (fields E.sepG line).set (field - 1).toNat t else fields E.sepG line))) := by
  unfold subVarLine
  simp only [replaceVar_ok E.fmt v t field _ hf]
  rfl

theorem subArrLine_ok (E : Env) (vals : List Val) (texts : List Text) (st en : Int) (k : Nat)
    (line : Text) (hf : vals.map E.fmt = texts.map .ok) :
    ∃ k', subArrLine E vals st en k line =
      .ok (join (plug (segs E.sepG line)
        (overlayAt (fields E.sepG line) (texts.drop k) (st - 1).toNat en.toNat)), k') := by
  unfold subArrLine
  simp only [replaceArr_ok E.fmt vals texts st en k _ hf]
  exact ⟨_, rfl⟩



/-- `_counter` after a line: the values are used up one per field of the range, until none is left. -/
theorem replaceArr_snd (fmt : Val → Except Err Text) (vals : List Val) (st en : Int)
    (ts : List Text) (cur k : Nat) :
    (replaceArr fmt vals st en cur k ts).2 =
      min (max k vals.length)
        (k + (min (en - cur).toNat ts.length - (st - 1 - cur).toNat)) := by
  induction ts generalizing cur k with
  | nil => simp [replaceArr]; omega
  | cons t ts ih =>
    by_cases hc : st ≤ (cur : Int) + 1 ∧ (cur : Int) + 1 ≤ en
    · cases hv : vals[k]? with
      | none =>
        rw [replaceArr_cons_keep fmt vals st en t ts cur k (Or.inr hv)]
        simp only [ih]
        have := List.getElem?_eq_none_iff.mp hv
        simp only [List.length_cons]
        omega
      | some v =>
        rw [replaceArr_cons_put fmt vals st en t ts cur k v hc hv]
        simp only [ih]
        have : k < vals.length := (List.getElem?_eq_some_iff.mp hv).1
        simp only [List.length_cons]
        omega
    · rw [replaceArr_cons_keep fmt vals st en t ts cur k (Or.inl hc)]
      simp only [ih, List.length_cons]
      omega


theorem mem_overlayAt (ts texts : List Text) (a b : Nat) (x : Text)
    (h : x ∈ overlayAt ts texts a b) : x ∈ ts ∨ x ∈ texts := by
  obtain ⟨i, hi, rfl⟩ := List.getElem_of_mem h
  have hi' : i < ts.length := by simpa [overlayAt] using hi
  simp only [overlayAt, List.getElem_mapIdx]
  by_cases hc : a ≤ i ∧ i < b
  · simp only [hc, and_self, if_true]
    cases ht : texts[i - a]? with
    | none => left; simp
    | some y => right; simpa using List.mem_of_getElem? ht
  · simp only [hc, if_false]; left; simp

/-- One line through `transfer_var`'s `re.sub`: the line that results, seen as fields. -/
theorem line_subVar (E : Env) (v : Val) (t : Text) (field : Int) (line : Text)
    (hf : E.fmt v = .ok t) (htok : TokOK E.sepG t) :
    ∃ line', subVarLine E v field line = .ok line' ∧
      fields E.sepG line' =
        (if 1 ≤ field then (fields E.sepG line).set (field - 1).toNat t else fields E.sepG line) ∧
      seps (segs E.sepG line') = seps (segs E.sepG line) := by
  refine ⟨_, subVarLine_ok E v t field line hf, ?_⟩
  apply fields_sub
  · split <;> simp
  · intro n hn
    split at hn
    · rcases List.mem_or_eq_of_mem_set hn with h | h
      · exact fields_tokOK _ _ _ h
      · exact h ▸ htok
    · exact fields_tokOK _ _ _ hn

/-- One line through `transfer_array`'s `re.sub`. -/
theorem line_subArr (E : Env) (vals : List Val) (texts : List Text) (st en : Int) (k : Nat)
    (line : Text) (hf : vals.map E.fmt = texts.map .ok) (htok : ∀ t ∈ texts, TokOK E.sepG t) :
    ∃ line', subArrLine E vals st en k line =
        .ok (line', min (max k vals.length)
          (k + (min en.toNat (fields E.sepG line).length - (st - 1).toNat))) ∧
      fields E.sepG line' =
        overlayAt (fields E.sepG line) (texts.drop k) (st - 1).toNat en.toNat ∧
      seps (segs E.sepG line') = seps (segs E.sepG line) := by
  obtain ⟨k', hk'⟩ := subArrLine_ok E vals texts st en k line hf
  have hk2 : k' = min (max k vals.length)
      (k + (min en.toNat (fields E.sepG line).length - (st - 1).toNat)) := by
    have h := hk'
    unfold subArrLine at h
    simp only [replaceArr_ok E.fmt vals texts st en k _ hf] at h
    have h2 := (Prod.mk.inj (Except.ok.inj h)).2
    rw [← h2, replaceArr_snd]
    simp [fields]
  refine ⟨_, hk2 ▸ hk', ?_⟩
  apply fields_sub
  · simp [overlayAt_length]
  · intro n hn
    rcases mem_overlayAt _ _ _ _ _ hn with h | h
    · exact fields_tokOK _ _ _ h
    · exact htok n (List.mem_of_mem_drop h)

theorem rowRange_single (a : Int) : rowRange a a = [a] := by
  have : (a + 1 - a).toNat = 1 := by omega
  simp [rowRange, this, List.range_succ]

theorem map_pySet {α β : Type} (f : α → β) (l : List α) (i : Int) (x y : α)
    (hy : pyGet l i = .ok y) (h : f x = f y) : (pySet l i x).map f = l.map f := by
  obtain ⟨k, hk, hl⟩ := (pyGet_ok_iff l i y).mp hy
  simp only [pySet, hk]
  apply List.ext_getElem?
  intro j
  simp only [List.getElem?_map, List.getElem?_set]
  by_cases hkj : k = j
  · subst hkj
    have hlt := pyIdx_lt hk
    have : l[k] = y := by
      have := List.getElem?_eq_getElem hlt
      rw [this] at hl; exact Option.some.inj hl
    simp [hlt, h, this]
  · simp [hkj]



/-- reading one cell of a file: `FileParser.transfer_var` as a function of the lines -/
theorem readVar_congr (s s' : St) (p : Char → Bool) (row field : Int) (hc : s'.cur = s.cur)
    (hl : pyGet s'.data (s.cur + row) = pyGet s.data (s.cur + row)) :
    s'.readVar p row field = s.readVar p row field := by
  unfold St.readVar
  rw [hc, hl]

theorem parseLine_ok (p : Char → Bool) (line : Text) (h : fields p line ≠ []) :
    parseLine p line = .ok (fields p line) := by
  unfold parseLine
  cases hf : fields p line with
  | nil => exact absurd hf h
  | cons a r => rfl

theorem pyGet_set_other {α : Type} (l : List α) (m : Nat) (x : α) (i : Int)
    (h : pyIdx l.length i ≠ some m) : pyGet (l.set m x) i = pyGet l i := by
  unfold pyGet
  rw [List.length_set]
  cases hi : pyIdx l.length i with
  | none => rfl
  | some k =>
    have : m ≠ k := by intro e; apply h; rw [hi, e]
    simp [List.getElem?_set_ne this]

theorem pySlice_single {α : Type} (l : List α) (j : Int) (x : α) (h0 : 0 ≤ j)
    (hx : pyGet l j = .ok x) : pySlice l j (some (j + 1)) = [x] := by
  obtain ⟨k, hk, hl⟩ := (pyGet_ok_iff l j x).mp hx
  have hlt := pyIdx_lt hk
  have hk' : k = j.toNat := by
    unfold pyIdx at hk
    simp [h0] at hk
    omega
  have hj : j.toNat < l.length := by omega
  unfold pySlice clampIdx
  have h1 : ¬ j < 0 := by omega
  have h2 : ¬ j + 1 < 0 := by omega
  simp only [h1, h2, if_false]
  have e1 : min j.toNat l.length = j.toNat := by omega
  have e2 : min (j + 1).toNat l.length - j.toNat = 1 := by omega
  rw [e1, e2]
  apply List.ext_getElem?
  intro i
  simp only [List.getElem?_take, List.getElem?_drop]
  cases i with
  | zero => simp [← hk', hl]
  | succ i => simp



/-- `transfer_array` on one row when the values fit into the field range of that row. -/
theorem transferArray_single (s : St) (E : Env) (vals : List Val) (texts : List Text) (line : Text)
    (rowStart fs fe : Int) (sep : Text)
    (hline : pyGet s.data (s.cur + rowStart) = .ok line)
    (hfmt : vals.map E.fmt = texts.map .ok) (htok : ∀ t ∈ texts, TokOK E.sepG t)
    (hfs : 1 ≤ fs) (hfit : fs - 1 + texts.length ≤ fe) (hfe : fe ≤ (fields E.sepG line).length) :
    ∃ line', s.transferArray E vals rowStart fs fe none sep =
        .ok { s with data := pySet s.data (s.cur + rowStart) line' } ∧
      fields E.sepG line' =
        (fields E.sepG line).take (fs - 1).toNat ++ texts ++
          (fields E.sepG line).drop ((fs - 1).toNat + texts.length) ∧
      seps (segs E.sepG line') = seps (segs E.sepG line) := by
  obtain ⟨line', h1, h2, h3⟩ := line_subArr E vals texts fs fe 0 line hfmt htok
  have hlen : vals.length = texts.length := by
    have := congrArg List.length hfmt; simpa using this
  refine ⟨line', ?_, ?_, h3⟩
  · unfold St.transferArray
    simp only [Option.getD_none, rowRange_single, arrLoop, hline, if_true, h1]
    have : ¬ (min (max 0 vals.length) (0 + (min fe.toNat (fields E.sepG line).length - (fs - 1).toNat))
        < vals.length) := by omega
    simp only [this, if_false]
  · rw [h2, List.drop_zero]
    exact overlayAt_fit _ _ _ _ (by omega) (by omega)



/-! ## substring search -/

theorem isPrefixOf_nil_false (a : Text) (ha : a ≠ []) : a.isPrefixOf [] = false := by
  cases a with
  | nil => exact absurd rfl ha
  | cons c cs => rfl

theorem hasSub_false_iff (a l : Text) :
    hasSub a l = false ↔ ∀ i, i ≤ l.length → a.isPrefixOf (l.drop i) = false := by
  induction l with
  | nil =>
    simp only [hasSub, List.length_nil, Nat.le_zero_eq, List.drop_nil]
    constructor
    · intro h i _; exact h
    · intro h; exact h 0 rfl
  | cons c cs ih =>
    simp only [hasSub, Bool.or_eq_false_iff, ih]
    constructor
    · rintro ⟨h1, h2⟩ i hi
      cases i with
      | zero => simpa using h1
      | succ j => simpa using h2 j (by simpa using hi)
    · intro h
      refine ⟨by simpa using h 0 (by simp), fun i hi => ?_⟩
      simpa using h (i + 1) (by simpa using hi)

theorem beforeFirst_prefix (a l : Text) : beforeFirst a l <+: l := by
  induction l with
  | nil => simp [beforeFirst]
  | cons c cs ih =>
    unfold beforeFirst
    split
    · exact List.nil_prefix
    · exact (List.prefix_cons_inj c).mpr ih

/-- `line.split(a)[0]` does not contain `a`. -/
theorem hasSub_beforeFirst (a l : Text) (ha : a ≠ []) : hasSub a (beforeFirst a l) = false := by
  induction l with
  | nil => simp [beforeFirst, hasSub, isPrefixOf_nil_false a ha]
  | cons c cs ih =>
    unfold beforeFirst
    split
    · simp [hasSub, isPrefixOf_nil_false a ha]
    · rename_i hnp
      simp only [hasSub, ih, Bool.or_false]
      cases hp : a.isPrefixOf (c :: beforeFirst a cs) with
      | false => rfl
      | true =>
        exfalso
        have h1 : a <+: c :: beforeFirst a cs := List.isPrefixOf_iff_prefix.mp hp
        have h2 : c :: beforeFirst a cs <+: c :: cs := (List.prefix_cons_inj c).mpr (beforeFirst_prefix a cs)
        exact hnp (List.isPrefixOf_iff_prefix.mpr (h1.trans h2))

theorem afterLastGo_spec (a : Text) (ha : a ≠ []) :
    ∀ (rest : Text) (skip : Nat) (cand pre : Text), cand = pre ++ rest.drop skip →
      skip ≤ rest.length →
      (∀ i, i < pre.length → a.isPrefixOf (cand.drop i) = false) →
      hasSub a (afterLastGo a skip rest cand) = false := by
  intro rest
  induction rest with
  | nil =>
    intro skip cand pre hc hs hinv
    simp only [afterLastGo]
    rw [hasSub_false_iff]
    intro i hi
    have hcp : cand = pre := by simpa using hc
    by_cases h : i < pre.length
    · exact hinv i h
    · have : cand.drop i = [] := by
        apply List.drop_eq_nil_of_le; rw [hcp]; omega
      rw [this]; exact isPrefixOf_nil_false a ha
  | cons c cs ih =>
    intro skip cand pre hc hs hinv
    cases skip with
    | succ k =>
      simp only [afterLastGo]
      exact ih k cand pre (by simpa using hc) (by simpa using hs) hinv
    | zero =>
      simp only [afterLastGo]
      split
      · rename_i hp
        have hpre : a <+: c :: cs := List.isPrefixOf_iff_prefix.mp hp
        have hlen : a.length ≤ cs.length + 1 := by simpa using hpre.length_le
        have hpos : 0 < a.length := List.length_pos_iff.mpr ha
        apply ih (a.length - 1) _ [] 
        · have : a.length = (a.length - 1) + 1 := by omega
          conv => lhs; rw [this]
          simp
        · omega
        · intro i hi; simp at hi
      · rename_i hnp
        apply ih 0 cand (pre ++ [c])
        · simpa using hc
        · omega
        · intro i hi
          by_cases h : i < pre.length
          · exact hinv i h
          · have hi' : i = pre.length := by simp at hi; omega
            subst hi'
            have : cand.drop pre.length = c :: cs := by
              rw [hc]; simp
            rw [this]; exact Bool.eq_false_iff.mpr hnp

/-- `line.split(a)[-1]` does not contain `a`. -/
theorem hasSub_afterLast (a l : Text) (ha : a ≠ []) : hasSub a (afterLast a l) = false := by
  unfold afterLast
  exact afterLastGo_spec a ha l 0 l [] (by simp) (by omega) (by intro i hi; simp at hi)



/-! ## anchor searches -/

/-- The `i`-th line of `ls` contains `a` and exactly `m` lines before it do. -/
def NthHit (a : Text) (ls : List Text) (i m : Nat) : Prop :=
  (∃ l, ls[i]? = some l ∧ hasSub a l = true) ∧ ((ls.take i).countP (hasSub a)) = m

theorem nthHit_cons_zero (a l : Text) (ls : List Text) (m : Nat) :
    NthHit a (l :: ls) 0 m ↔ hasSub a l = true ∧ m = 0 := by
  simp only [NthHit, List.getElem?_cons_zero, List.take_zero, List.countP_nil]
  constructor
  · rintro ⟨⟨l', h1, h2⟩, h3⟩; exact ⟨by cases h1; exact h2, h3.symm⟩
  · rintro ⟨h1, h2⟩; exact ⟨⟨l, rfl, h1⟩, h2.symm⟩

theorem nthHit_cons_succ (a l : Text) (ls : List Text) (j m : Nat) :
    NthHit a (l :: ls) (j + 1) m ↔
      NthHit a ls j (m - (if hasSub a l then 1 else 0)) ∧ (hasSub a l = true → 1 ≤ m) := by
  simp only [NthHit, List.getElem?_cons_succ, List.take_succ_cons, List.countP_cons]
  by_cases h : hasSub a l = true
  · simp only [h, if_true]
    constructor
    · rintro ⟨h1, h2⟩; exact ⟨⟨h1, by omega⟩, fun _ => by omega⟩
    · rintro ⟨⟨h1, h2⟩, h3⟩; exact ⟨h1, by have := h3 trivial; omega⟩
  · simp only [h]
    simp

/-- the forward loop when no line is special (not at the anchored start line) -/
theorem fwdGo_plain (a : Text) (anchored : Bool) (ls : List Text) (count need c : Nat)
    (hs : count ≠ 0 ∨ anchored = false) (hn : 1 ≤ need) :
    fwdGo a anchored ls count need = some c ↔
      ∃ i, c = count + i ∧ NthHit a ls i (need - 1) := by
  induction ls generalizing count need with
  | nil => simp [fwdGo, NthHit]
  | cons l ls ih =>
    have hline : (if count = 0 ∧ anchored = true then afterLast a l else l) = l := by
      have : ¬ (count = 0 ∧ anchored = true) := by
        rintro ⟨h1, h2⟩; rcases hs with h | h
        · exact h h1
        · rw [h] at h2; exact Bool.noConfusion h2
      simp [this]
    simp only [fwdGo, hline]
    by_cases hh : hasSub a l = true
    · simp only [hh, if_true]
      by_cases h1 : need = 1
      · simp only [h1, if_true]
        constructor
        · intro h; exact ⟨0, by simpa using h.symm, by simp [nthHit_cons_zero, hh]⟩
        · rintro ⟨i, hi, hN⟩
          cases i with
          | zero => simp [hi]
          | succ j =>
            rw [nthHit_cons_succ] at hN
            have := hN.2 hh; omega
      · simp only [h1, if_false]
        rw [ih (count + 1) (need - 1) (Or.inl (by omega)) (by omega)]
        constructor
        · rintro ⟨j, hj, hN⟩
          refine ⟨j + 1, by omega, ?_⟩
          rw [nthHit_cons_succ]; simp only [hh, if_true]
          exact ⟨hN, fun _ => by omega⟩
        · rintro ⟨i, hi, hN⟩
          cases i with
          | zero => rw [nthHit_cons_zero] at hN; omega
          | succ j =>
            rw [nthHit_cons_succ] at hN; simp only [hh, if_true] at hN
            exact ⟨j, by omega, hN.1⟩
    · have hf : hasSub a l = false := by simpa using hh
      simp only [hf, Bool.false_eq_true, if_false]
      rw [ih (count + 1) need (Or.inl (by omega)) hn]
      constructor
      · rintro ⟨j, hj, hN⟩
        refine ⟨j + 1, by omega, ?_⟩
        rw [nthHit_cons_succ]; simp only [hf, Bool.false_eq_true, if_false]
        exact ⟨hN, fun h => by simp at h⟩
      · rintro ⟨i, hi, hN⟩
        cases i with
        | zero => rw [nthHit_cons_zero] at hN; exact absurd hN.1 hh
        | succ j =>
          rw [nthHit_cons_succ] at hN; simp only [hf, Bool.false_eq_true, if_false] at hN
          exact ⟨j, by omega, hN.1⟩

/-- the forward loop started on an anchored line: that line never counts -/
theorem fwdGo_anchored (a : Text) (ha : a ≠ []) (l : Text) (ls : List Text) (need c : Nat)
    (hn : 1 ≤ need) :
    fwdGo a true (l :: ls) 0 need = some c ↔ ∃ i, c = 1 + i ∧ NthHit a ls i (need - 1) := by
  have : fwdGo a true (l :: ls) 0 need = fwdGo a true ls 1 need := by
    simp [fwdGo, hasSub_afterLast a l ha]
  rw [this, fwdGo_plain a true ls 1 need c (Or.inl (by omega)) hn]

/-- the backward loop when no line is special -/
theorem bwdGo_plain (a : Text) (anchored : Bool) (M : Nat) (ls : List Text) (count need c : Nat)
    (hs : count < M ∨ anchored = false) (hl : ls.length ≤ count + 1) (hn : 1 ≤ need) :
    bwdGo a anchored M ls count need = some c ↔
      ∃ i, c + i = count ∧ NthHit a ls i (need - 1) := by
  induction ls generalizing count need with
  | nil => simp [bwdGo, NthHit]
  | cons l ls ih =>
    have hline : (if count = M ∧ anchored = true then beforeFirst a l else l) = l := by
      have : ¬ (count = M ∧ anchored = true) := by
        rintro ⟨h1, h2⟩; rcases hs with h | h
        · omega
        · rw [h] at h2; exact Bool.noConfusion h2
      simp [this]
    have hl' : ls.length ≤ count := by simpa using hl
    have hs' : count - 1 < M ∨ anchored = false := by
      rcases hs with h | h
      · left; omega
      · right; exact h
    simp only [bwdGo, hline]
    by_cases hh : hasSub a l = true
    · simp only [hh, if_true]
      by_cases h1 : need = 1
      · simp only [h1, if_true]
        constructor
        · intro h; exact ⟨0, by simpa using h.symm, by simp [nthHit_cons_zero, hh]⟩
        · rintro ⟨i, hi, hN⟩
          cases i with
          | zero => simp at hi; simp [hi]
          | succ j =>
            rw [nthHit_cons_succ] at hN
            have := hN.2 hh; omega
      · simp only [h1, if_false]
        by_cases hls : ls = []
        · subst hls
          simp only [bwdGo]
          constructor
          · intro h; exact absurd h (by simp)
          · rintro ⟨i, hi, hN⟩
            cases i with
            | zero => rw [nthHit_cons_zero] at hN; omega
            | succ j => rw [nthHit_cons_succ] at hN; simp [NthHit] at hN
        · have hpos : 0 < ls.length := List.length_pos_iff.mpr hls
          rw [ih (count - 1) (need - 1) hs' (by omega) (by omega)]
          constructor
          · rintro ⟨j, hj, hN⟩
            refine ⟨j + 1, by omega, ?_⟩
            rw [nthHit_cons_succ]; simp only [hh, if_true]
            exact ⟨hN, fun _ => by omega⟩
          · rintro ⟨i, hi, hN⟩
            cases i with
            | zero => rw [nthHit_cons_zero] at hN; omega
            | succ j =>
              rw [nthHit_cons_succ] at hN; simp only [hh, if_true] at hN
              exact ⟨j, by omega, hN.1⟩
    · have hf : hasSub a l = false := by simpa using hh
      simp only [hf, Bool.false_eq_true, if_false]
      by_cases hls : ls = []
      · subst hls
        simp only [bwdGo]
        constructor
        · intro h; exact absurd h (by simp)
        · rintro ⟨i, hi, hN⟩
          cases i with
          | zero => rw [nthHit_cons_zero] at hN; exact absurd hN.1 hh
          | succ j => rw [nthHit_cons_succ] at hN; simp [NthHit] at hN
      · have hpos : 0 < ls.length := List.length_pos_iff.mpr hls
        rw [ih (count - 1) need hs' (by omega) hn]
        constructor
        · rintro ⟨j, hj, hN⟩
          refine ⟨j + 1, by omega, ?_⟩
          rw [nthHit_cons_succ]; simp only [hf, Bool.false_eq_true, if_false]
          exact ⟨hN, fun h => by simp at h⟩
        · rintro ⟨i, hi, hN⟩
          cases i with
          | zero => rw [nthHit_cons_zero] at hN; exact absurd hN.1 hh
          | succ j =>
            rw [nthHit_cons_succ] at hN; simp only [hf, Bool.false_eq_true, if_false] at hN
            exact ⟨j, by omega, hN.1⟩


/-- the backward loop started while anchored: the last line of the file never counts -/
theorem bwdGo_anchored (a : Text) (ha : a ≠ []) (l : Text) (ls : List Text) (need c : Nat)
    (hn : 1 ≤ need) :
    bwdGo a true ls.length (l :: ls) ls.length need = some c ↔
      ∃ i, c + i + 1 = ls.length ∧ NthHit a ls i (need - 1) := by
  have h0 : bwdGo a true ls.length (l :: ls) ls.length need =
      bwdGo a true ls.length ls (ls.length - 1) need := by
    simp [bwdGo, hasSub_beforeFirst a l ha]
  rw [h0]
  by_cases hls : ls = []
  · subst hls
    simp [bwdGo, NthHit]
  · have hpos : 0 < ls.length := List.length_pos_iff.mpr hls
    rw [bwdGo_plain a true ls.length ls (ls.length - 1) need c (Or.inl (by omega)) (by omega) hn]
    constructor
    · rintro ⟨i, hi, hN⟩; exact ⟨i, by omega, hN⟩
    · rintro ⟨i, hi, hN⟩; exact ⟨i, by omega, hN⟩


theorem fwdGo_congr (a : Text) (ha : a ≠ []) (anchored : Bool) (ls ls' : List Text)
    (h : ls.map (hasSub a) = ls'.map (hasSub a)) (count need : Nat) :
    fwdGo a anchored ls count need = fwdGo a anchored ls' count need := by
  induction ls generalizing ls' count need with
  | nil =>
    cases ls' with
    | nil => rfl
    | cons => simp at h
  | cons l ls ih =>
    cases ls' with
    | nil => simp at h
    | cons l' ls' =>
      simp only [List.map_cons, List.cons.injEq] at h
      have e : hasSub a (if count = 0 ∧ anchored = true then afterLast a l else l) =
          hasSub a (if count = 0 ∧ anchored = true then afterLast a l' else l') := by
        by_cases hc : count = 0 ∧ anchored = true
        · simp only [hc, and_self, if_true, hasSub_afterLast _ _ ha]
        · simp only [hc, if_false, h.1]
      simp only [fwdGo, e, ih ls' h.2]

theorem bwdGo_congr (a : Text) (ha : a ≠ []) (anchored : Bool) (M : Nat) (ls ls' : List Text)
    (h : ls.map (hasSub a) = ls'.map (hasSub a)) (count need : Nat) :
    bwdGo a anchored M ls count need = bwdGo a anchored M ls' count need := by
  induction ls generalizing ls' count need with
  | nil =>
    cases ls' with
    | nil => rfl
    | cons => simp at h
  | cons l ls ih =>
    cases ls' with
    | nil => simp at h
    | cons l' ls' =>
      simp only [List.map_cons, List.cons.injEq] at h
      have e : hasSub a (if count = M ∧ anchored = true then beforeFirst a l else l) =
          hasSub a (if count = M ∧ anchored = true then beforeFirst a l' else l') := by
        by_cases hc : count = M ∧ anchored = true
        · simp only [hc, and_self, if_true, hasSub_beforeFirst _ _ ha]
        · simp only [hc, if_false, h.1]
      simp only [bwdGo, e, ih ls' h.2]

/-- the position a `mark_anchor` call leaves behind (or its exception) -/
def posOf : Except Err St → Except Err (Nat × Bool)
  | .ok s => .ok (s.cur, s.anchored)
  | .error e => .error e

theorem markAnchor_data (s s' : St) (a : Text) (occ : Int) (h : s.markAnchor a occ = .ok s') :
    s'.data = s.data := by
  unfold St.markAnchor at h
  split at h
  · split at h
    · simp at h; subst h; rfl
    · simp at h
  · split at h
    · split at h
      · simp at h; subst h; rfl
      · simp at h
    · simp at h



/-! ## `transfer_2Darray` -/

theorem pyIdx_nonneg {n : Nat} {i : Int} (h0 : 0 ≤ i) (h1 : i.toNat < n) :
    pyIdx n i = some i.toNat := by
  unfold pyIdx
  have : i < n := by omega
  simp [h0, this]

theorem pyGet_nonneg {α : Type} (l : List α) (i : Int) (h0 : 0 ≤ i) (h1 : i.toNat < l.length) :
    pyGet l i = .ok l[i.toNat] := by
  unfold pyGet
  simp only [pyIdx_nonneg h0 h1, List.getElem?_eq_getElem h1]

theorem pySet_nonneg {α : Type} (l : List α) (i : Int) (x : α) (h0 : 0 ≤ i)
    (h1 : i.toNat < l.length) : pySet l i x = l.set i.toNat x := by
  unfold pySet
  rw [pyIdx_nonneg h0 h1]

/-- a block of fields replaced -/
def spliceAt (F : List Text) (a : Nat) (ts : List Text) : List Text :=
  F.take a ++ ts ++ F.drop (a + ts.length)

/-- What one row of values has to satisfy to be written into fields `fs..fe` of a line. -/
def RowOK (E : Env) (fs fe : Int) (vr : List Val) (tr : List Text) : Prop :=
  vr.map E.fmt = tr.map .ok ∧ (∀ t ∈ tr, TokOK E.sepG t) ∧ fs - 1 + tr.length ≤ fe

/-- every row of values fits the field range -/
inductive RowsOK (E : Env) (fs fe : Int) : List (List Val) → List (List Text) → Prop
  | nil : RowsOK E fs fe [] []
  | cons {vr tr vals texts} : RowOK E fs fe vr tr → RowsOK E fs fe vals texts →
      RowsOK E fs fe (vr :: vals) (tr :: texts)

theorem arr2Loop_spec (E : Env) (cur : Nat) (fs fe : Int) (hfs : 1 ≤ fs)
    (vals : List (List Val)) (texts : List (List Text))
    (hrows : RowsOK E fs fe vals texts) :
    ∀ (b : Nat) (r0 : Int) (data : List Text), (cur : Int) + r0 = b →
      b + vals.length ≤ data.length →
      (∀ i l, i < vals.length → data[b + i]? = some l → fe ≤ (fields E.sepG l).length) →
      ∃ data', arr2Loop E cur fs fe ((List.range vals.length).map (fun (k : Nat) => r0 + (k : Int)))
          vals data = .ok data' ∧
        data'.length = data.length ∧
        (∀ i l tr, data[b + i]? = some l → texts[i]? = some tr →
          ∃ l', data'[b + i]? = some l' ∧
            fields E.sepG l' = spliceAt (fields E.sepG l) (fs - 1).toNat tr ∧
            seps (segs E.sepG l') = seps (segs E.sepG l)) ∧
        (∀ j, j < b ∨ b + vals.length ≤ j → data'[j]? = data[j]?) := by
  induction hrows with
  | nil =>
    intro b r0 data _ _ _
    refine ⟨data, by simp [arr2Loop], rfl, ?_, fun _ _ => rfl⟩
    intro i l tr _ h; simp at h
  | @cons vr tr vals texts hrow hrest ih =>
    intro b r0 data hb hlen hfe
    have hblt : b < data.length := by simp at hlen; omega
    have h0 : 0 ≤ (cur : Int) + r0 := by omega
    have hbn : ((cur : Int) + r0).toNat = b := by omega
    have hline := pyGet_nonneg data ((cur : Int) + r0) h0 (by omega)
    have hset := fun x => pySet_nonneg data ((cur : Int) + r0) x h0 (by omega)
    simp only [hbn] at hline hset
    obtain ⟨hf, htok, hfit⟩ := hrow
    have hfe0 := hfe 0 data[b] (by simp) (by simp [List.getElem?_eq_getElem hblt])
    obtain ⟨line', h1, h2, h3⟩ := line_subArr E vr tr fs fe 0 data[b] hf htok
    have h2' : fields E.sepG line' = spliceAt (fields E.sepG data[b]) (fs - 1).toNat tr := by
      rw [h2, List.drop_zero]; exact overlayAt_fit _ _ _ _ (by omega) (by omega)
    -- the remaining rows on the updated file
    have hrange : (List.range (vr :: vals).length).map (fun (k : Nat) => r0 + (k : Int)) =
        r0 :: (List.range vals.length).map (fun (k : Nat) => (r0 + 1) + (k : Int)) := by
      simp only [List.length_cons, List.range_succ_eq_map, List.map_cons, List.map_map]
      congr 1
      · simp
      · apply List.map_congr_left
        intro k _
        simp only [Function.comp]; omega
    obtain ⟨data', hd1, hd2, hd3, hd4⟩ := ih (b + 1) (r0 + 1) (data.set b line') (by omega)
      (by simp at hlen ⊢; omega)
      (by
        intro i l hi hl
        rw [List.getElem?_set_ne (by omega)] at hl
        have := hfe (i + 1) l (by simp; omega)
        apply this; rw [← hl]; congr 1; omega)
    have hvl : (vr :: vals).length = vals.length + 1 := rfl
    refine ⟨data', ?_, by rw [hd2, List.length_set], ?_, ?_⟩
    · rw [hrange]
      simp only [arr2Loop, hline, h1, hset]
      exact hd1
    · intro i l tr' hl htr
      cases i with
      | zero =>
        simp only [List.getElem?_cons_zero, Option.some.injEq] at htr; subst htr
        have hl' : l = data[b] := by
          rw [Nat.add_zero, List.getElem?_eq_getElem hblt] at hl; exact (Option.some.inj hl).symm
        subst hl'
        refine ⟨line', ?_, h2', h3⟩
        rw [Nat.add_zero, hd4 b (Or.inl (by omega)), List.getElem?_set_self hblt]
      | succ i' =>
        simp only [List.getElem?_cons_succ] at htr
        have hl2 : (data.set b line')[b + 1 + i']? = some l := by
          rw [List.getElem?_set_ne (by omega)]; rw [← hl]; congr 1; omega
        obtain ⟨l', hl', hf', hs'⟩ := hd3 i' l tr' hl2 htr
        exact ⟨l', by rw [← hl']; congr 1; omega, hf', hs'⟩
    · intro j hj
      rw [hvl] at hj
      rw [hd4 j (by omega), List.getElem?_set_ne (by omega)]



theorem rowRange_eq (rs : Int) (n : Nat) :
    rowRange rs (rs + n - 1) = (List.range n).map (fun (k : Nat) => rs + (k : Int)) := by
  have : (rs + n - 1 + 1 - rs).toNat = n := by omega
  unfold rowRange
  rw [this]

theorem read2DGo_spec (p : Char → Bool) (fs fe : Int) (lines : List Text)
    (rows : List (List Text)) (h : lines.length = rows.length)
    (hrow : ∀ (i : Nat) l tr, lines[i]? = some l → rows[i]? = some tr →
      fields p l ≠ [] ∧ pySlice (fields p l) (fs - 1) (some fe) = tr) :
    read2DGo p fs (some fe) lines = .ok rows := by
  induction lines generalizing rows with
  | nil =>
    cases rows with
    | nil => rfl
    | cons => simp at h
  | cons l ls ih =>
    cases rows with
    | nil => simp at h
    | cons tr rows =>
      obtain ⟨hne, hsl⟩ := hrow 0 l tr rfl rfl
      have := ih rows (by simpa using h) (fun i l' tr' hl' htr' => hrow (i + 1) l' tr' hl' htr')
      simp only [read2DGo, parseLine_ok _ _ hne, this, hsl]

theorem pySlice_spliceAt (F tr : List Text) (fs fe : Int) (hfs : 1 ≤ fs)
    (hfit : fs - 1 + tr.length = fe) (hfe : fe ≤ F.length) :
    pySlice (spliceAt F (fs - 1).toNat tr) (fs - 1) (some fe) = tr := by
  unfold pySlice clampIdx spliceAt
  have n1 : ¬ fs - 1 < 0 := by omega
  have n2 : ¬ fe < 0 := by omega
  simp only [n1, n2, if_false]
  have hla : (F.take (fs - 1).toNat).length = (fs - 1).toNat := by
    rw [List.length_take]; omega
  have hlen : (F.take (fs - 1).toNat ++ tr ++ F.drop ((fs - 1).toNat + tr.length)).length
      = F.length := by
    simp only [List.length_append, List.length_take, List.length_drop]; omega
  rw [hlen]
  have m1 : min (fs - 1).toNat F.length = (fs - 1).toNat := by omega
  have m2 : min fe.toNat F.length = fe.toNat := by omega
  rw [m1, m2, List.append_assoc, List.drop_left' hla]
  have : fe.toNat - (fs - 1).toNat = tr.length + 0 := by omega
  rw [this, List.take_length_add_append]; simp


theorem rowsOK_length {E : Env} {fs fe : Int} {vals : List (List Val)} {texts : List (List Text)}
    (h : RowsOK E fs fe vals texts) : texts.length = vals.length := by
  induction h with
  | nil => rfl
  | cons _ _ ih => simp [ih]

theorem rowsOK_get {E : Env} {fs fe : Int} {vals : List (List Val)} {texts : List (List Text)}
    (h : RowsOK E fs fe vals texts) (i : Nat) (tr : List Text) (ht : texts[i]? = some tr) :
    (∀ t ∈ tr, TokOK E.sepG t) ∧ fs - 1 + tr.length ≤ fe := by
  induction h generalizing i with
  | nil => simp at ht
  | cons hr _ ih =>
    cases i with
    | zero => simp at ht; subst ht; exact ⟨hr.2.1, hr.2.2⟩
    | succ j => exact ih j (by simpa using ht)



/-! ## arrays over several rows -/

/-- `new` laid over `old` position by position (as far as both reach), the rest of `old` kept. -/
def overlay (new old : List Text) : List Text := new.take old.length ++ old.drop new.length

theorem overlay_length (new old : List Text) : (overlay new old).length = old.length := by
  simp only [overlay, List.length_append, List.length_take, List.length_drop]; omega

theorem overlay_getElem? (new old : List Text) (j : Nat) :
    (overlay new old)[j]? = if j < old.length then (match new[j]? with | some x => some x | none => old[j]?) else none := by
  simp only [overlay, List.getElem?_append, List.length_take, List.getElem?_take, List.getElem?_drop]
  by_cases h1 : j < old.length
  · by_cases h2 : j < new.length
    · have : j < min old.length new.length := by omega
      simp only [this, h1, if_true, List.getElem?_eq_getElem h2]
    · have hn : new[j]? = none := List.getElem?_eq_none_iff.mpr (by omega)
      have hm : min old.length new.length = new.length := by omega
      have h3 : ¬ j < new.length := h2
      rw [hm]
      simp only [h3, h1, if_false, if_true, hn]
      congr 1; omega
  · have : ¬ j < min old.length new.length := by omega
    simp only [this, h1, if_false]
    apply List.getElem?_eq_none_iff.mpr; omega

theorem overlay_append (t A B : List Text) :
    overlay t (A ++ B) = overlay t A ++ overlay (t.drop A.length) B := by
  apply List.ext_getElem?
  intro j
  simp only [List.getElem?_append, overlay_getElem?, overlay_length, List.length_append,
    List.getElem?_drop]
  by_cases h1 : j < A.length
  · have : j < A.length + B.length := by omega
    simp only [h1, this, if_true]
  · simp only [h1, if_false]
    by_cases h2 : j < A.length + B.length
    · have : j - A.length < B.length := by omega
      have e : A.length + (j - A.length) = j := by omega
      simp only [h2, this, if_true, e]
    · have : ¬ j - A.length < B.length := by omega
      simp only [h2, this, if_false]

theorem overlayAt_getElem? (F rem : List Text) (a b i : Nat) :
    (overlayAt F rem a b)[i]? =
      F[i]?.map (fun t => if a ≤ i ∧ i < b then (rem[i - a]?).getD t else t) := by
  simp [overlayAt, List.getElem?_mapIdx]

/-- the fields of the range of a line after `replace_array` are the old ones overlaid by the values -/
theorem cells_overlayAt (F rem : List Text) (a b : Nat) :
    ((overlayAt F rem a b).take b).drop a = overlay rem ((F.take b).drop a) := by
  apply List.ext_getElem?
  intro j
  simp only [List.getElem?_drop, List.getElem?_take, overlayAt_getElem?, overlay_getElem?,
    List.length_drop, List.length_take]
  by_cases h1 : a + j < b
  · simp only [h1, if_true]
    cases hF : F[a + j]? with
    | none =>
      have := List.getElem?_eq_none_iff.mp hF
      have : ¬ j < min b F.length - a := by omega
      simp [this]
    | some x =>
      have := (List.getElem?_eq_some_iff.mp hF).1
      have hj : j < min b F.length - a := by omega
      have hc : a ≤ a + j ∧ a + j < b := by omega
      have e : a + j - a = j := by omega
      simp only [Option.map_some, hc, and_self, if_true, e, hj]
      cases rem[j]? <;> simp
  · have : ¬ j < min b F.length - a := by omega
    simp [h1, this]

theorem overlayAt_take (F rem : List Text) (a b : Nat) : (overlayAt F rem a b).take a = F.take a := by
  apply List.ext_getElem?
  intro i
  simp only [List.getElem?_take, overlayAt_getElem?]
  by_cases h : i < a
  · have : ¬ (a ≤ i ∧ i < b) := by omega
    simp only [h, if_true, this, if_false]; cases F[i]? <;> simp
  · simp [h]

theorem overlayAt_drop (F rem : List Text) (a b : Nat) : (overlayAt F rem a b).drop b = F.drop b := by
  apply List.ext_getElem?
  intro i
  simp only [List.getElem?_drop, overlayAt_getElem?]
  have : ¬ (a ≤ b + i ∧ b + i < b) := by omega
  simp only [this, if_false]; cases F[b + i]? <;> simp



/-- `f_end` of a row in `transfer_array` -/
def fEndOf (fe rowEnd row : Int) : Int := if row = rowEnd then fe else 99999

/-- the fields of a row that lie in the range of the array -/
def rowCells (F : List Text) (fs fEnd : Int) : List Text := (F.take fEnd.toNat).drop (fs - 1).toNat

/-- all fields in the range of a multi-row array, in reading order -/
def cellsFlat (fe rowEnd : Int) : List Int → Int → List (List Text) → List Text
  | row :: rows, fs, F :: Fs => rowCells F fs (fEndOf fe rowEnd row) ++ cellsFlat fe rowEnd rows 0 Fs
  | _, _, _ => []

/-- the row loop of `transfer_array` on the level of field lists; `k` values are used up -/
def overlayLines (texts : List Text) (fe rowEnd : Int) :
    List Int → Int → Nat → List (List Text) → List (List Text)
  | row :: rows, fs, k, F :: Fs =>
    overlayAt F (texts.drop k) (fs - 1).toNat (fEndOf fe rowEnd row).toNat ::
      overlayLines texts fe rowEnd rows 0
        (min texts.length (k + (rowCells F fs (fEndOf fe rowEnd row)).length)) Fs
  | _, _, _, _ => []

theorem rowCells_length (F : List Text) (fs fEnd : Int) :
    (rowCells F fs fEnd).length = min fEnd.toNat F.length - (fs - 1).toNat := by
  simp [rowCells, List.length_drop, List.length_take]

theorem drop_min_add (texts : List Text) (k m : Nat) :
    texts.drop (min texts.length (k + m)) = (texts.drop k).drop m := by
  rw [List.drop_drop]
  by_cases h : k + m ≤ texts.length
  · have : min texts.length (k + m) = k + m := by omega
    rw [this]
  · have : min texts.length (k + m) = texts.length := by omega
    rw [this, List.drop_length, List.drop_eq_nil_of_le (by omega)]

/-- Reading-order view: over all rows together, the range fields are the old range fields overlaid
by the values not yet used — the values run on from one row to the next without gap or repeat. -/
theorem cellsFlat_overlayLines (texts : List Text) (fe rowEnd : Int) (rows : List Int) (fs : Int)
    (k : Nat) (Fs : List (List Text)) (h : rows.length = Fs.length) :
    cellsFlat fe rowEnd rows fs (overlayLines texts fe rowEnd rows fs k Fs) =
      overlay (texts.drop k) (cellsFlat fe rowEnd rows fs Fs) := by
  induction rows generalizing fs k Fs with
  | nil => simp [cellsFlat, overlay]
  | cons row rows ih =>
    cases Fs with
    | nil => simp at h
    | cons F Fs =>
      simp only [overlayLines, cellsFlat]
      rw [ih 0 _ Fs (by simpa using h), overlay_append, drop_min_add]
      congr 1
      unfold rowCells
      exact cells_overlayAt F (texts.drop k) _ _

/-- number of values used after all rows -/
def countAfter (texts : List Text) (fe rowEnd : Int) : List Int → Int → Nat → List (List Text) → Nat
  | row :: rows, fs, k, F :: Fs =>
    countAfter texts fe rowEnd rows 0
      (min texts.length (k + (rowCells F fs (fEndOf fe rowEnd row)).length)) Fs
  | _, _, k, _ => k

theorem countAfter_eq (texts : List Text) (fe rowEnd : Int) (rows : List Int) (fs : Int) (k : Nat)
    (Fs : List (List Text)) (h : rows.length = Fs.length) (hk : k ≤ texts.length) :
    countAfter texts fe rowEnd rows fs k Fs =
      min texts.length (k + (cellsFlat fe rowEnd rows fs Fs).length) := by
  induction rows generalizing fs k Fs with
  | nil => simp [countAfter, cellsFlat]; omega
  | cons row rows ih =>
    cases Fs with
    | nil => simp at h
    | cons F Fs =>
      simp only [countAfter, cellsFlat, List.length_append]
      rw [ih 0 _ Fs (by simpa using h) (by omega)]
      omega

theorem overlayLines_length (texts : List Text) (fe rowEnd : Int) (rows : List Int) (fs : Int)
    (k : Nat) (Fs : List (List Text)) (h : rows.length = Fs.length) :
    (overlayLines texts fe rowEnd rows fs k Fs).length = Fs.length := by
  induction rows generalizing fs k Fs with
  | nil => cases Fs <;> simp_all [overlayLines]
  | cons row rows ih =>
    cases Fs with
    | nil => simp at h
    | cons F Fs => simp [overlayLines, ih 0 _ Fs (by simpa using h)]



theorem rows_succ (r0 : Int) (n : Nat) :
    (List.range (n + 1)).map (fun (k : Nat) => r0 + (k : Int)) =
      r0 :: (List.range n).map (fun (k : Nat) => (r0 + 1) + (k : Int)) := by
  simp only [List.range_succ_eq_map, List.map_cons, List.map_map]
  congr 1
  · simp
  · apply List.map_congr_left
    intro k _
    simp only [Function.comp]; omega

/-- The row loop of `transfer_array` does, on the lines `b .. b+n-1`, what `overlayLines` does on
their field lists; separator runs are kept and no other line is touched. -/
theorem arrLoop_spec (E : Env) (vals : List Val) (texts : List Text)
    (hf : vals.map E.fmt = texts.map .ok) (htok : ∀ t ∈ texts, TokOK E.sepG t)
    (cur : Nat) (fe rowEnd : Int) :
    ∀ (n b : Nat) (r0 fs : Int) (data : List Text) (k : Nat) (last : Option (Int × Text)),
      (cur : Int) + r0 = b → b + n ≤ data.length → k ≤ texts.length →
      ∃ data' last',
        arrLoop E vals cur fe rowEnd ((List.range n).map (fun (i : Nat) => r0 + (i : Int))) fs
            { data := data, counter := k, last := last } =
          .ok { data := data',
                counter := countAfter texts fe rowEnd
                  ((List.range n).map (fun (i : Nat) => r0 + (i : Int))) fs k
                  (((data.drop b).take n).map (fields E.sepG)),
                last := last' } ∧
        data'.length = data.length ∧
        ((data'.drop b).take n).map (fields E.sepG) =
          overlayLines texts fe rowEnd ((List.range n).map (fun (i : Nat) => r0 + (i : Int))) fs k
            (((data.drop b).take n).map (fields E.sepG)) ∧
        ((data'.drop b).take n).map (fun l => seps (segs E.sepG l)) =
          ((data.drop b).take n).map (fun l => seps (segs E.sepG l)) ∧
        data'.take b = data.take b ∧ data'.drop (b + n) = data.drop (b + n) := by
  have hlenv : vals.length = texts.length := by
    have := congrArg List.length hf; simpa using this
  intro n
  induction n with
  | zero =>
    intro b r0 fs data k last _ _ _
    exact ⟨data, last, by simp [arrLoop, countAfter], rfl, by simp [overlayLines], by simp, rfl, rfl⟩
  | succ n ih =>
    intro b r0 fs data k last hb hlen hk
    have hblt : b < data.length := by omega
    have h0 : 0 ≤ (cur : Int) + r0 := by omega
    have hbn : ((cur : Int) + r0).toNat = b := by omega
    have hline := pyGet_nonneg data ((cur : Int) + r0) h0 (by omega)
    have hset := fun x => pySet_nonneg data ((cur : Int) + r0) x h0 (by omega)
    simp only [hbn] at hline hset
    obtain ⟨line', h1, h2, h3⟩ :=
      line_subArr E vals texts fs (fEndOf fe rowEnd r0) k data[b] hf htok
    have hk' : min (max k vals.length)
        (k + (min (fEndOf fe rowEnd r0).toNat (fields E.sepG data[b]).length - (fs - 1).toNat)) =
        min texts.length (k + (rowCells (fields E.sepG data[b]) fs (fEndOf fe rowEnd r0)).length) := by
      rw [rowCells_length, hlenv]; omega
    rw [hk'] at h1
    obtain ⟨data', last', hd1, hd2, hd3, hd4, hd5, hd6⟩ :=
      ih (b + 1) (r0 + 1) 0 (data.set b line')
        (min texts.length (k + (rowCells (fields E.sepG data[b]) fs (fEndOf fe rowEnd r0)).length))
        (some ((cur : Int) + r0, line')) (by omega) (by rw [List.length_set]; omega) (by omega)
    have hdrop : (data.set b line').drop (b + 1) = data.drop (b + 1) :=
      List.drop_set_of_lt (by omega)
    rw [hdrop] at hd1 hd3 hd4
    have hsplit : (data.drop b).take (n + 1) = data[b] :: (data.drop (b + 1)).take n := by
      rw [List.drop_eq_getElem_cons hblt, List.take_succ_cons]
    have hb' : b < data'.length := by rw [hd2, List.length_set]; exact hblt
    have hdb : data'[b] = line' := by
      have h := congrArg (fun l => l[b]?) hd5
      simp only [List.getElem?_take_of_lt (Nat.lt_succ_self b)] at h
      rw [List.getElem?_eq_getElem hb', List.getElem?_set_self hblt] at h
      exact Option.some.inj h
    have hsplit' : (data'.drop b).take (n + 1) = line' :: (data'.drop (b + 1)).take n := by
      rw [List.drop_eq_getElem_cons hb', List.take_succ_cons, hdb]
    refine ⟨data', last', ?_, by rw [hd2, List.length_set], ?_, ?_, ?_, ?_⟩
    · rw [rows_succ, hsplit]
      simp only [arrLoop, hline, fEndOf, List.map_cons, countAfter] at h1 ⊢
      simp only [fEndOf] at hd1
      rw [h1]
      simp only [hset]
      exact hd1
    · rw [rows_succ, hsplit, hsplit']
      simp only [List.map_cons, overlayLines, h2]
      rw [hd3]
    · rw [hsplit, hsplit']
      simp only [List.map_cons, h3, hd4]
    · have := congrArg (List.take b) hd5
      rw [List.take_take, List.take_take] at this
      have e : min b (b + 1) = b := by omega
      rw [e] at this
      rw [this, List.take_set_of_le (Nat.le_refl b)]
    · have : b + (n + 1) = b + 1 + n := by omega
      rw [this, hd6, List.drop_set_of_lt (by omega)]



theorem pySlice_some_cells (F : List Text) (fs fe : Int) (hfs : 1 ≤ fs) (hfe : 0 ≤ fe) :
    pySlice F (fs - 1) (some fe) = rowCells F fs fe := by
  unfold pySlice clampIdx rowCells
  have n1 : ¬ fs - 1 < 0 := by omega
  have n2 : ¬ fe < 0 := by omega
  simp only [n1, n2, if_false]
  apply List.ext_getElem?
  intro j
  simp only [List.getElem?_take, List.getElem?_drop]
  by_cases h : j < min fe.toNat F.length - min (fs - 1).toNat F.length
  · have h2 : (fs - 1).toNat + j < fe.toNat := by omega
    have e : min (fs - 1).toNat F.length + j = (fs - 1).toNat + j := by omega
    simp only [h, h2, if_true, e]
  · simp only [h, if_false]
    by_cases h2 : (fs - 1).toNat + j < fe.toNat
    · simp only [h2, if_true]
      symm; apply List.getElem?_eq_none_iff.mpr; omega
    · simp only [h2, if_false]

theorem pySlice_none_cells (F : List Text) (fs : Int) (hfs : 1 ≤ fs) (hF : F.length ≤ 99999) :
    pySlice F (fs - 1) none = rowCells F fs 99999 := by
  unfold pySlice clampIdx rowCells
  have n1 : ¬ fs - 1 < 0 := by omega
  simp only [n1, if_false]
  have e : (99999 : Int).toNat = 99999 := rfl
  rw [e, List.take_of_length_le hF]
  apply List.ext_getElem?
  intro j
  simp only [List.getElem?_take, List.getElem?_drop]
  by_cases h : j < F.length - min (fs - 1).toNat F.length
  · have e : min (fs - 1).toNat F.length + j = (fs - 1).toNat + j := by omega
    simp only [h, if_true, e]
  · simp only [h, if_false]
    symm; apply List.getElem?_eq_none_iff.mpr; omega

/-- `FileParser.transfer_array` over the lines of the range: it returns the range fields in reading
order — the same cells `transfer_array` of the generator writes to (lines with at most 99999
fields, at least one field each). -/
theorem readArrGo_cells (p : Char → Bool) (fe re : Int) (hfe : 0 ≤ fe) :
    ∀ (lines : List Text) (n : Nat) (i : Nat) (r0 fs fsG : Int),
      i + lines.length = n → (r0 + lines.length - 1 = re) → 1 ≤ fs →
      (fsG - 1).toNat = (fs - 1).toNat →
      (∀ l ∈ lines, fields p l ≠ [] ∧ (fields p l).length ≤ 99999) →
      readArrGo p fe n lines i fs =
        .ok (cellsFlat fe re ((List.range lines.length).map (fun (k : Nat) => r0 + (k : Int))) fsG
          (lines.map (fields p))) := by
  intro lines
  induction lines with
  | nil => intro n i r0 fs fsG _ _ _ _ _; simp [readArrGo, cellsFlat]
  | cons l ls ih =>
    intro n i r0 fs fsG hn hre hfs hfsG hl
    obtain ⟨hne, hle⟩ := hl l (by simp)
    have hrec := ih n (i + 1) (r0 + 1) 1 0 (by simp at hn; omega) (by simp at hre; omega)
      (by omega) rfl (fun l' hl' => hl l' (by simp [hl']))
    simp only [List.length_cons]
    rw [rows_succ]
    have hi1 : ((i : Nat) : Int) + 1 = ((i + 1 : Nat) : Int) := by omega
    simp only [readArrGo, parseLine_ok _ _ hne, hi1, hrec, List.map_cons, cellsFlat]
    congr 1
    congr 1
    by_cases hlast : (i : Int) = n - 1
    · have hr : r0 = re := by simp at hn hre; omega
      simp only [hlast, if_true, fEndOf, hr]
      rw [pySlice_some_cells _ _ _ hfs hfe]
      unfold rowCells; rw [hfsG]
    · have hr : ¬ r0 = re := by simp at hn hre; omega
      simp only [hlast, if_false, fEndOf, hr]
      rw [pySlice_none_cells _ _ hfs hle]
      unfold rowCells; rw [hfsG]

theorem overlayLines_get (texts : List Text) (fe rowEnd : Int) :
    ∀ (rows : List Int) (fs : Int) (k : Nat) (Fs : List (List Text)) (i : Nat) (F' : List Text),
      (overlayLines texts fe rowEnd rows fs k Fs)[i]? = some F' →
      ∃ F row rem, Fs[i]? = some F ∧ rows[i]? = some row ∧
        F' = overlayAt F rem (if i = 0 then (fs - 1).toNat else 0) (fEndOf fe rowEnd row).toNat := by
  intro rows
  induction rows with
  | nil => intro fs k Fs i F' h; simp [overlayLines] at h
  | cons row rows ih =>
    intro fs k Fs i F' h
    cases Fs with
    | nil => simp [overlayLines] at h
    | cons F Fs =>
      cases i with
      | zero =>
        simp only [overlayLines, List.getElem?_cons_zero, Option.some.injEq] at h
        exact ⟨F, row, texts.drop k, rfl, rfl, by rw [if_pos rfl]; exact h.symm⟩
      | succ j =>
        simp only [overlayLines, List.getElem?_cons_succ] at h
        obtain ⟨F2, row2, rem, h1, h2, h3⟩ := ih 0 _ Fs j F' h
        refine ⟨F2, row2, rem, by simpa using h1, by simpa using h2, ?_⟩
        rw [h3, if_neg (Nat.succ_ne_zero j)]
        split <;> rfl


theorem overlayLines_lengths (texts : List Text) (fe rowEnd : Int) (rows : List Int) (fs : Int)
    (k : Nat) (Fs : List (List Text)) (h : rows.length = Fs.length) :
    (overlayLines texts fe rowEnd rows fs k Fs).map List.length = Fs.map List.length := by
  induction rows generalizing fs k Fs with
  | nil => cases Fs <;> simp_all [overlayLines]
  | cons row rows ih =>
    cases Fs with
    | nil => simp at h
    | cons F Fs =>
      simp [overlayLines, overlayAt_length, ih 0 _ Fs (by simpa using h)]

end OMV.C29
