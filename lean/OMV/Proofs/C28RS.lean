/-
C28 — ResponseSurface lemmas: the quadratic columns against a triangular coefficient array, the
dual part of the design row, and least squares through the normal equations.
-/
import OMV.Proofs.C28

set_option linter.unusedSectionVars false
set_option linter.unusedVariables false

namespace OMV.C28

variable {K : Type} [Field K]

/-! ### column order -/

/-- rows of an upper triangle of order `n`: lengths `n, n-1, …, 1` -/
def Tri : List (List K) → Nat → Prop
  | [], 0 => True
  | row :: rows, n + 1 => row.length = n + 1 ∧ Tri rows n
  | _, _ => False

theorem dot_map_mul (c : K) (a b : List K) : dot (a.map (c * ·)) b = c * dot a b :=
  dot_smul_left c a b

theorem quadTerms_flatten (A : List (List K)) (x : List K) (h : Tri A x.length) :
    dot (quadTerms x) A.flatten = quadForm A x := by
  induction x generalizing A with
  | nil => cases A with
    | nil => simp [quadTerms, quadForm]
    | cons _ _ => simp [Tri] at h
  | cons xi rest ih => cases A with
    | nil => simp [Tri] at h
    | cons row rows =>
      simp only [Tri, List.length_cons] at h
      obtain ⟨h1, h2⟩ := h
      simp only [quadTerms, List.flatten_cons, quadForm]
      rw [dot_append _ _ _ _ (by simp [h1]), ih rows h2, dot_map_mul]

/-! ### dual part of the design row -/

theorem quadTerms_map_re (xs : List (Dual K)) :
    (quadTerms xs).map Dual.re = quadTerms (xs.map Dual.re) := by
  induction xs with
  | nil => rfl
  | cons z zs ih =>
    simp only [quadTerms, List.map_append, List.map_cons, List.map_map, ih]
    congr 1

theorem length_quadTerms_map (xs : List (Dual K)) :
    (quadTerms (xs.map Dual.re)).length = (quadTerms xs).length := by
  rw [← quadTerms_map_re, List.length_map]

theorem length_rsQuadGrad (x bo : List K) (h : bo.length = (quadTerms x).length) :
    (rsQuadGrad x bo).length = x.length := by
  induction x generalizing bo with
  | nil => rfl
  | cons xi rest ih =>
    simp only [quadTerms, List.length_append, List.length_map, List.length_cons] at h
    simp only [rsQuadGrad, length_addV, length_smul, List.length_take, List.length_cons]
    rw [ih (bo.drop (rest.length + 1)) (by simp [h])]
    omega

theorem dot_map_mul_du (z : Dual K) (l : List (Dual K)) (b : List K) :
    dot ((l.map (fun w => z * w)).map Dual.du) b
      = z.du * dot (l.map Dual.re) b + z.re * dot (l.map Dual.du) b := by
  induction l generalizing b with
  | nil => simp
  | cons w ws ihw => cases b with
    | nil => simp
    | cons c cs =>
      simp only [List.map_cons, dot_cons, Dual.mul_du]
      rw [ihw cs]; ring

/-- the dual part of the quadratic columns, dotted with the quadratic coefficients, is the
contribution of the `linearize` loop -/
theorem quadTerms_du (xs : List (Dual K)) (bo : List K) (h : bo.length = (quadTerms xs).length) :
    dot ((quadTerms xs).map Dual.du) bo
      = dot (rsQuadGrad (xs.map Dual.re) bo) (xs.map Dual.du) := by
  induction xs generalizing bo with
  | nil => simp [quadTerms, rsQuadGrad]
  | cons z zs ih =>
    simp only [quadTerms, List.length_append, List.length_map, List.length_cons] at h
    have hlt : (bo.take (zs.length + 1)).length = zs.length + 1 := by
      simp [List.length_take]; omega
    have hld : (bo.drop (zs.length + 1)).length = (quadTerms zs).length := by simp [h]
    have ih' := ih (bo.drop (zs.length + 1)) hld
    have hg : (rsQuadGrad (zs.map Dual.re) (bo.drop (zs.length + 1))).length = zs.length := by
      rw [length_rsQuadGrad _ _ (by rw [length_quadTerms_map]; exact hld)]; simp
    -- left-hand side
    have lhs : dot ((quadTerms (z :: zs)).map Dual.du) bo
        = (z.du * dot ((z :: zs).map Dual.re) (bo.take (zs.length + 1))
            + z.re * dot ((z :: zs).map Dual.du) (bo.take (zs.length + 1)))
          + dot ((quadTerms zs).map Dual.du) (bo.drop (zs.length + 1)) := by
      conv_lhs => rw [← List.take_append_drop (zs.length + 1) bo]
      show dot (((z :: zs).map (fun w => z * w) ++ quadTerms zs).map Dual.du) _ = _
      rw [List.map_append, dot_append _ _ _ _ (by simp [hlt]), dot_map_mul_du]
    -- right-hand side
    have rhs : dot (rsQuadGrad ((z :: zs).map Dual.re) bo) ((z :: zs).map Dual.du)
        = z.re * dot (bo.take (zs.length + 1)) ((z :: zs).map Dual.du)
          + (dot ((z :: zs).map Dual.re) (bo.take (zs.length + 1)) * z.du
            + dot (rsQuadGrad (zs.map Dual.re) (bo.drop (zs.length + 1))) (zs.map Dual.du)) := by
      show dot (addV (smul z.re (bo.take ((zs.map Dual.re).length + 1)))
          (dot (z.re :: zs.map Dual.re) (bo.take ((zs.map Dual.re).length + 1))
            :: rsQuadGrad (zs.map Dual.re) (bo.drop ((zs.map Dual.re).length + 1))))
          (z.du :: zs.map Dual.du) = _
      rw [List.length_map]
      rw [dot_addV_left _ _ _ (by simp [hlt, hg]), dot_smul_left, dot_cons]
      simp only [List.map_cons]
    rw [lhs, rhs, ih', dot_comm (bo.take (zs.length + 1)) ((z :: zs).map Dual.du)]
    ring

/-! ### normal equations -/

theorem subV_self (a : List K) : subV a a = List.replicate a.length 0 := by
  induction a with
  | nil => rfl
  | cons x xs ih => simp [ih, List.replicate_succ]

theorem addV_replicate_zero (n : Nat) (a : List K) (h : a.length = n) :
    addV a (List.replicate n 0) = a := by
  induction a generalizing n with
  | nil => simp
  | cons x xs ih => cases n with
    | zero => simp at h
    | succ k =>
      simp only [List.length_cons, Nat.add_right_cancel_iff] at h
      simp [List.replicate_succ, ih k h]

theorem smul_zero_vec (row : List K) : smul (0 : K) row = List.replicate row.length 0 := by
  induction row with
  | nil => rfl
  | cons x xs ih => simp [ih, List.replicate_succ]

theorem tMatVec_zero (n : Nat) (M : List (List K)) (k : Nat) (h : ∀ row ∈ M, row.length = n) :
    tMatVec n M (List.replicate k 0) = List.replicate n 0 := by
  induction M generalizing k with
  | nil => simp
  | cons row M ih => cases k with
    | zero => simp
    | succ k =>
      have h1 : row.length = n := h row (by simp)
      rw [List.replicate_succ, tMatVec_cons, ih k (fun r hr => h r (by simp [hr])), smul_zero_vec, h1]
      exact addV_replicate_zero n _ (by simp)

theorem matVec_sub (M : List (List K)) (a b : List K) (h : a.length = b.length) :
    matVec M (subV a b) = subV (matVec M a) (matVec M b) := by
  induction M with
  | nil => rfl
  | cons r M ih => simp [ih, dot_subV_right _ _ _ h]

theorem dot_self_nonneg {K : Type} [Field K] [LinearOrder K] [IsStrictOrderedRing K]
    (e : List K) : 0 ≤ dot e e := by
  induction e with
  | nil => simp
  | cons x xs ih => rw [dot_cons]; nlinarith [mul_self_nonneg x]

theorem dot_self_eq_zero {K : Type} [Field K] [LinearOrder K] [IsStrictOrderedRing K]
    (e : List K) (h : dot e e = 0) : e = List.replicate e.length 0 := by
  induction e with
  | nil => rfl
  | cons x xs ih =>
    rw [dot_cons] at h
    have h1 := dot_self_nonneg xs
    have h2 := mul_self_nonneg x
    have hx : x * x = 0 := by linarith
    have hxs : dot xs xs = 0 := by linarith
    have : x = 0 := by simpa using hx
    simp [this, List.replicate_succ, ← ih hxs]

theorem subV_eq_zero (a b : List K) (h : a.length = b.length)
    (hz : subV a b = List.replicate a.length 0) : a = b := by
  induction a generalizing b with
  | nil => cases b with
    | nil => rfl
    | cons _ _ => simp at h
  | cons x xs ih => cases b with
    | nil => simp at h
    | cons y ys =>
      simp only [List.length_cons, Nat.add_right_cancel_iff] at h
      simp only [subV_cons, List.length_cons, List.replicate_succ, List.cons.injEq] at hz
      rw [sub_eq_zero.mp hz.1, ih ys h hz.2]

theorem mem_matVec_zero (M : List (List K)) (v : List K)
    (h : matVec M v = List.replicate (matVec M v).length 0) : ∀ row ∈ M, dot row v = 0 := by
  induction M with
  | nil => simp
  | cons r M ih =>
    simp only [matVec_cons, List.length_cons, List.replicate_succ, List.cons.injEq] at h
    intro row hrow
    rcases List.mem_cons.mp hrow with rfl | hm
    · exact h.1
    · exact ih h.2 row hm

end OMV.C28
