/-
C16 — bracketing on dual numbers looks at real parts only; glue for fresh tables.
-/
import OMV.Proofs.C16
import OMV.Proofs.C15Top

set_option linter.unusedSectionVars false
set_option linter.unusedVariables false

namespace OMV.C16

open OMV.C15

variable {K : Type} [Field K] [LinearOrder K] [IsStrictOrderedRing K]

theorem descend_dual (g : Nat → K) (x d : K) : ∀ fuel s,
    descend (fun i => Dual.const (g i)) (⟨x, d⟩ : Dual K) fuel s = descend g x fuel s
  | 0, s => rfl
  | f + 1, s => by
    simp only [descend]
    rw [descend_dual g x d f]
    rfl

theorem ascend_dual (g : Nat → K) (x d : K) (hb : Nat) : ∀ fuel s,
    ascend (fun i => Dual.const (g i)) (⟨x, d⟩ : Dual K) hb fuel s = ascend g x hb fuel s
  | 0, s => rfl
  | f + 1, s => by
    simp only [ascend]
    rw [ascend_dual g x d hb f]
    rfl

theorem bisect_dual (g : Nat → K) (x d : K) : ∀ fuel l h,
    bisect (fun i => Dual.const (g i)) (⟨x, d⟩ : Dual K) fuel l h = bisect g x fuel l h
  | 0, l, h => rfl
  | f + 1, l, h => by
    simp only [bisect]
    rw [bisect_dual g x d f, bisect_dual g x d f]
    rfl

theorem bracket_dual (g : Nat → K) (n last : Nat) (x d : K) :
    bracket (fun i => Dual.const (g i)) n last (⟨x, d⟩ : Dual K) = bracket g n last x := by
  unfold bracket
  rw [descend_dual]
  cases descend g x (last + 1) ⟨last, last + 1, 1⟩ with
  | none => rfl
  | some s =>
    simp only [ascend_dual, bisect_dual]

/-- A fresh table brackets the seeded point exactly as the real point. -/
theorem bracketAll_dual : ∀ (ds : List (Dim K)) (xs dirs : List K),
    xs.length = ds.length → dirs.length = ds.length →
    bracketAll (liftDims ds) (seed xs dirs) = bracketAll ds xs
  | [], _, _, _, _ => by simp [liftDims, bracketAll]
  | (n, g) :: ds, [], _, h, _ => by simp at h
  | (n, g) :: ds, _ :: _, [], _, h => by simp at h
  | (n, g) :: ds, x :: xs, d :: dirs, hx, hd => by
    have hlift : liftDims ((n, g) :: ds) = (n, fun i => Dual.const (g i)) :: liftDims ds := rfl
    simp only [hlift, seed, bracketAll, bracket0, bracket_dual]
    rw [bracketAll_dual ds xs dirs (by simpa using hx) (by simpa using hd)]

theorem evalIdx_zero {kern : Kernel K} (hs : KSmul kern) (ds : List (Dim K)) (idxs : List Nat)
    (xs : List K) : evalIdx kern ds idxs (fun _ => 0) xs = 0 := by
  have := evalIdx_smul hs ds idxs 0 (fun _ => 0) xs
  simpa using this

/-- The three table methods whose kernels are Lagrange polynomials of the values. -/
def Lin3 (m : Method) : Prop := m = .slinear ∨ m = .lagrange2 ∨ m = .lagrange3

theorem lin3_facts (m : Method) (h : Lin3 m) (fix : Bool) (eps : K) :
    KAdd (m.kernel fix eps) ∧ KSmul (m.kernel fix eps) ∧ KLocal m.minPts (m.kernel fix eps) ∧
    ∃ kdx, codeDx m = some kdx ∧ KDual m.minPts (m.kernel fix eps) kdx (m.kernel fix (Dual.const eps)) := by
  rcases h with rfl | rfl | rfl
  · exact ⟨slinear_add, slinear_smul, slinear_local, slinearDx, rfl, slinear_dual⟩
  · exact ⟨lagrange2_add, lagrange2_smul, lagrange2_local, lagrange2Dx, rfl, lagrange2_dual⟩
  · exact ⟨lagrange3_add, lagrange3_smul, lagrange3_local, lagrange3Dx, rfl, lagrange3_dual⟩

end OMV.C16
