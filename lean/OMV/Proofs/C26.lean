/-
C26 — helper lemmas: big-operator form of `sumRange`, dual numbers over the `OMV.Spec.Dual`
structure (subtraction, division, numerals, comparison by real part — the complex-step reading),
the block-sum lemma behind every `np.repeat(np.arange(v), len)` row pattern, the
"last assignment or sum" lemma for repeated inputs, and the index arithmetic of MuxComp.
-/
import OMV.Model.C26
import OMV.Model.Spec
import Mathlib.Algebra.BigOperators.Group.Finset.Basic
import Mathlib.Algebra.BigOperators.Ring.Finset
import Mathlib.Algebra.BigOperators.Group.Finset.Sigma
import Mathlib.Algebra.BigOperators.Intervals
import Mathlib.Algebra.Order.Field.Basic
import Mathlib.Tactic.Ring
import Mathlib.Tactic.Linarith
import Mathlib.Tactic.NormNum
import Mathlib.Tactic.FieldSimp

set_option linter.unusedSectionVars false
set_option linter.unusedVariables false

namespace OMV.C26

open OMV.Spec (Dual)
open Finset

/-! ### dual numbers: the operations `OMV.Spec.Dual` lacks -/

section DualInst
variable {K : Type}

scoped instance dualSub [Sub K] : Sub (Dual K) := ⟨fun a b => ⟨a.re - b.re, a.du - b.du⟩⟩

/-- quotient rule -/
scoped instance dualDiv [Sub K] [Mul K] [Div K] : Div (Dual K) :=
  ⟨fun a b => ⟨a.re / b.re, (a.du * b.re - a.re * b.du) / (b.re * b.re)⟩⟩

scoped instance dualOfNat {n : Nat} [OfNat K n] [OfNat K 0] : OfNat (Dual K) n :=
  ⟨⟨OfNat.ofNat n, 0⟩⟩

/-- comparison by the real part (what a complex-step evaluation of `x < c` does) -/
scoped instance dualLT [LT K] : LT (Dual K) := ⟨fun a b => a.re < b.re⟩

scoped instance dualDecLT [LT K] [DecidableLT K] : DecidableLT (Dual K) :=
  fun a b => inferInstanceAs (Decidable (a.re < b.re))

theorem Dual.ext {a b : Dual K} (h1 : a.re = b.re) (h2 : a.du = b.du) : a = b := by
  cases a; cases b; simp_all

@[simp] theorem Dual.add_re [Add K] (a b : Dual K) : (a + b).re = a.re + b.re := rfl
@[simp] theorem Dual.add_du [Add K] (a b : Dual K) : (a + b).du = a.du + b.du := rfl
@[simp] theorem Dual.mul_re [Add K] [Mul K] (a b : Dual K) : (a * b).re = a.re * b.re := rfl
@[simp] theorem Dual.mul_du [Add K] [Mul K] (a b : Dual K) :
    (a * b).du = a.du * b.re + a.re * b.du := rfl
@[simp] theorem Dual.neg_re [Neg K] (a : Dual K) : (-a).re = -a.re := rfl
@[simp] theorem Dual.neg_du [Neg K] (a : Dual K) : (-a).du = -a.du := rfl
@[simp] theorem Dual.sub_re [Sub K] (a b : Dual K) : (a - b).re = a.re - b.re := rfl
@[simp] theorem Dual.sub_du [Sub K] (a b : Dual K) : (a - b).du = a.du - b.du := rfl
@[simp] theorem Dual.div_re [Sub K] [Mul K] [Div K] (a b : Dual K) :
    (a / b).re = a.re / b.re := rfl
@[simp] theorem Dual.div_du [Sub K] [Mul K] [Div K] (a b : Dual K) :
    (a / b).du = (a.du * b.re - a.re * b.du) / (b.re * b.re) := rfl
@[simp] theorem Dual.ofNat_re {n : Nat} [OfNat K n] [OfNat K 0] :
    (OfNat.ofNat n : Dual K).re = OfNat.ofNat n := rfl
@[simp] theorem Dual.ofNat_du {n : Nat} [OfNat K n] [OfNat K 0] :
    (OfNat.ofNat n : Dual K).du = 0 := rfl
@[simp] theorem Dual.zero_re [OfNat K 0] : (0 : Dual K).re = 0 := rfl
@[simp] theorem Dual.zero_du [OfNat K 0] : (0 : Dual K).du = 0 := rfl
@[simp] theorem Dual.one_re [OfNat K 1] [OfNat K 0] : (1 : Dual K).re = 1 := rfl
@[simp] theorem Dual.one_du [OfNat K 1] [OfNat K 0] : (1 : Dual K).du = 0 := rfl
@[simp] theorem Dual.two_re [OfNat K 2] [OfNat K 0] : (2 : Dual K).re = 2 := rfl
@[simp] theorem Dual.two_du [OfNat K 2] [OfNat K 0] : (2 : Dual K).du = 0 := rfl
@[simp] theorem Dual.four_re [OfNat K 4] [OfNat K 0] : (4 : Dual K).re = 4 := rfl
@[simp] theorem Dual.four_du [OfNat K 4] [OfNat K 0] : (4 : Dual K).du = 0 := rfl
theorem Dual.lt_def [LT K] (a b : Dual K) : (a < b) = (a.re < b.re) := rfl

end DualInst

/-! ### sums -/

section Sums
variable {M : Type} [AddCommMonoid M]

theorem sumRange_eq (n : Nat) (f : Nat → M) : sumRange n f = ∑ i ∈ range n, f i := by
  unfold sumRange
  induction n with
  | zero => simp
  | succ n ih => rw [List.range_succ, List.foldl_append, ih, Finset.sum_range_succ]; rfl

theorem div_block (r len j : Nat) (hj : j < len) : (r * len + j) / len = r := by
  have hl : 0 < len := Nat.lt_of_le_of_lt (Nat.zero_le _) hj
  rw [Nat.add_comm, Nat.add_mul_div_right _ _ hl, Nat.div_eq_of_lt hj, Nat.zero_add]

theorem mod_block (r len j : Nat) (hj : j < len) : (r * len + j) % len = j := by
  rw [Nat.add_comm, Nat.add_mul_mod_self_right, Nat.mod_eq_of_lt hj]

/-- the entries of a `rows = np.repeat(np.arange(V), len)` pattern that lie in row `r` are the
`len` consecutive ones starting at `r * len` -/
theorem sum_div_block (V len r : Nat) (hr : r < V) (g : Nat → M) :
    (∑ k ∈ range (V * len), if k / len = r then g k else 0) = ∑ j ∈ range len, g (r * len + j) := by
  induction V with
  | zero => omega
  | succ V ih =>
    rw [Nat.succ_mul, Finset.sum_range_add]
    by_cases h : r < V
    · rw [ih h]
      have : (∑ x ∈ range len, if (V * len + x) / len = r then g (V * len + x) else 0) = 0 := by
        apply Finset.sum_eq_zero
        intro j hj
        rw [div_block V len j (Finset.mem_range.mp hj)]
        have : V ≠ r := by omega
        simp [this]
      rw [this, add_zero]
    · have hrV : r = V := by omega
      subst hrV
      have h1 : (∑ k ∈ range (r * len), if k / len = r then g k else 0) = 0 := by
        apply Finset.sum_eq_zero
        intro k hk
        have hk' : k < r * len := Finset.mem_range.mp hk
        have : k / len < r := Nat.div_lt_of_lt_mul (by rw [Nat.mul_comm]; exact hk')
        have : k / len ≠ r := by omega
        simp [this]
      rw [h1, zero_add]
      apply Finset.sum_congr rfl
      intro j hj
      rw [div_block r len j (Finset.mem_range.mp hj)]
      simp

end Sums

section DualSums
variable {K : Type} [CommRing K]

theorem sumRange_dual (n : Nat) (f g : Nat → K) :
    sumRange n (fun i => (⟨f i, g i⟩ : Dual K)) = ⟨sumRange n f, sumRange n g⟩ := by
  unfold sumRange
  induction n with
  | zero => rfl
  | succ n ih =>
    rw [List.range_succ, List.foldl_append, List.foldl_append, List.foldl_append, ih]
    rfl

theorem sumRange_congr {A : Type} [Add A] [OfNat A 0] (n : Nat) (f g : Nat → A)
    (h : ∀ i, i < n → f i = g i) : sumRange n f = sumRange n g := by
  unfold sumRange
  induction n with
  | zero => rfl
  | succ n ih =>
    rw [List.range_succ, List.foldl_append, List.foldl_append,
      ih (fun i hi => h i (Nat.lt_succ_of_lt hi))]
    simp [h n (Nat.lt_succ_self n)]

end DualSums

/-! ### the `Coo` views -/

section CooLemmas
variable {K : Type} [CommRing K]

theorem mulVec_eq (J : Coo K) (d : Nat → K) (r : Nat) :
    J.mulVec d r = ∑ k ∈ range J.n, if J.row k = r then J.val k * d (J.col k) else 0 := by
  unfold Coo.mulVec; rw [sumRange_eq]

theorem dense_eq (J : Coo K) (r c : Nat) :
    J.dense r c = ∑ k ∈ range J.n, if J.row k = r ∧ J.col k = c then J.val k else 0 := by
  unfold Coo.dense; rw [sumRange_eq]

theorem totalDu_eq (m : Nat) (J : Nat → Coo K) (d : Nat → Nat → K) (r : Nat) :
    totalDu m J d r = ∑ w ∈ range m, (J w).mulVec (d w) r := by
  unfold totalDu; rw [sumRange_eq]

/-- a `diagonal=True` sub-Jacobian multiplies elementwise -/
theorem diag_mulVec (n : Nat) (val d : Nat → K) (r : Nat) (hr : r < n) :
    (diagCoo n val).mulVec d r = val r * d r := by
  rw [mulVec_eq]
  simp only [diagCoo, id]
  rw [Finset.sum_eq_single r]
  · simp
  · intro k _ hk; simp [hk]
  · intro h; exact absurd (Finset.mem_range.mpr hr) h

/-- row-block pattern (`rows = repeat(arange(V), len)`), any column map -/
theorem block_mulVec (V len : Nat) (col : Nat → Nat) (val d : Nat → K) (r : Nat) (hr : r < V) :
    (Coo.mk (V * len) (fun k => k / len) col val).mulVec d r
      = ∑ j ∈ range len, val (r * len + j) * d (col (r * len + j)) := by
  rw [mulVec_eq]
  exact sum_div_block V len r hr (fun k => val k * d (col k))

end CooLemmas

/-! ### repeated names: last assignment or sum -/

section LastOrSum
variable {K : Type} [CommRing K]

/-- sum of the values assigned under the name `w` -/
def sumFor : List (Nat × K) → Nat → K
  | [], _ => 0
  | p :: L, w => (if p.1 = w then p.2 else 0) + sumFor L w

theorem foldl_acc (L : List (Nat × K)) (w : Nat) (cur : K) :
    L.foldl (fun cur p => if p.1 = w then (if true = true then cur + p.2 else p.2) else cur) cur
      = cur + sumFor L w := by
  induction L generalizing cur with
  | nil => simp [sumFor]
  | cons p L ih =>
    rw [List.foldl_cons, ih]
    by_cases h : p.1 = w <;> simp [sumFor, h, add_assoc]

theorem foldl_last_notin (L : List (Nat × K)) (w : Nat) (cur : K)
    (h : w ∉ L.map Prod.fst) :
    L.foldl (fun cur p => if p.1 = w then (if false = true then cur + p.2 else p.2) else cur) cur
      = cur := by
  induction L generalizing cur with
  | nil => rfl
  | cons p L ih =>
    simp only [List.map_cons, List.mem_cons, not_or] at h
    rw [List.foldl_cons]
    have : ¬ p.1 = w := fun e => h.1 e.symm
    simp only [this, if_false]
    exact ih cur h.2

theorem sumFor_notin (L : List (Nat × K)) (w : Nat) (h : w ∉ L.map Prod.fst) :
    sumFor L w = 0 := by
  induction L with
  | nil => rfl
  | cons p L ih =>
    simp only [List.map_cons, List.mem_cons, not_or] at h
    have : ¬ p.1 = w := fun e => h.1 e.symm
    simp [sumFor, this, ih h.2]

theorem foldl_last (L : List (Nat × K)) (w : Nat) (cur : K) (hn : (L.map Prod.fst).Nodup) :
    L.foldl (fun cur p => if p.1 = w then (if false = true then cur + p.2 else p.2) else cur) cur
      = if w ∈ L.map Prod.fst then sumFor L w else cur := by
  induction L generalizing cur with
  | nil => simp
  | cons p L ih =>
    simp only [List.map_cons, List.nodup_cons] at hn
    rw [List.foldl_cons]
    by_cases h : p.1 = w
    · have hw : w ∉ L.map Prod.fst := h ▸ hn.1
      simp only [h, if_true]
      rw [foldl_last_notin L w _ hw]
      simp [sumFor, h, sumFor_notin L w hw]
    · simp only [h, if_false]
      rw [ih cur hn.2]
      have hne : ¬ w = p.1 := fun e => h e.symm
      have hmem : (w ∈ List.map Prod.fst (p :: L)) ↔ (w ∈ List.map Prod.fst L) := by
        rw [List.map_cons, List.mem_cons]
        exact ⟨fun hh => hh.resolve_left hne, Or.inr⟩
      by_cases hw : w ∈ List.map Prod.fst L
      · rw [if_pos hw, if_pos (hmem.mpr hw)]; simp [sumFor, h]
      · rw [if_neg hw, if_neg (fun hh => hw (hmem.mp hh))]

/-- under either reading a name that is assigned at most once ends up with the sum -/
theorem lastOrSum_eq (acc : Bool) (L : List (Nat × K)) (w : Nat)
    (h : acc = true ∨ (L.map Prod.fst).Nodup) : lastOrSum acc L w = sumFor L w := by
  unfold lastOrSum
  cases acc with
  | true => rw [foldl_acc]; simp
  | false =>
    rcases h with h | h
    · exact absurd h (by simp)
    · rw [foldl_last L w 0 h]
      by_cases hw : w ∈ L.map Prod.fst
      · simp [hw]
      · simp [hw, sumFor_notin L w hw]

theorem sum_sumFor (L : List (Nat × K)) (m : Nat) (hL : ∀ p ∈ L, p.1 < m) (g : Nat → K) :
    ∑ w ∈ range m, sumFor L w * g w = (L.map (fun p => p.2 * g p.1)).sum := by
  induction L with
  | nil => simp [sumFor]
  | cons p L ih =>
    have hp : p.1 < m := hL p (List.mem_cons_self ..)
    simp only [sumFor, add_mul, Finset.sum_add_distrib, List.map_cons, List.sum_cons]
    rw [ih (fun q hq => hL q (List.mem_cons_of_mem _ hq))]
    congr 1
    rw [Finset.sum_eq_single p.1]
    · simp
    · intro w _ hw
      have : ¬ p.1 = w := fun e => hw e.symm
      simp [this]
    · intro h; exact absurd (Finset.mem_range.mpr hp) h

theorem sum_lastOrSum (acc : Bool) (L : List (Nat × K)) (m : Nat) (hL : ∀ p ∈ L, p.1 < m)
    (h : acc = true ∨ (L.map Prod.fst).Nodup) (g : Nat → K) :
    ∑ w ∈ range m, lastOrSum acc L w * g w = (L.map (fun p => p.2 * g p.1)).sum := by
  rw [← sum_sumFor L m hL g]
  apply Finset.sum_congr rfl
  intro w _
  rw [lastOrSum_eq acc L w h]

end LastOrSum

/-! ### MuxComp index arithmetic -/

section Mux

theorem muxRow_div (v post i j : Nat) (hp : 0 < post) :
    muxRow v post i j / post = (j / post) * v + i := by
  unfold muxRow
  have : j / post * (v * post) + i * post + j % post = (j / post * v + i) * post + j % post := by
    ring
  rw [this, div_block _ _ _ (Nat.mod_lt _ hp)]

theorem muxRow_mod (v post i j : Nat) (hp : 0 < post) : muxRow v post i j % post = j % post := by
  unfold muxRow
  have : j / post * (v * post) + i * post + j % post = (j / post * v + i) * post + j % post := by
    ring
  rw [this, mod_block _ _ _ (Nat.mod_lt _ hp), ]

/-- the input number is recovered from the output position -/
theorem muxRow_input (v post i j : Nat) (hp : 0 < post) (hi : i < v) :
    muxRow v post i j / post % v = i := by
  rw [muxRow_div v post i j hp, mod_block _ _ _ hi]

/-- the position inside the input is recovered from the output position -/
theorem muxRow_src (v post i j : Nat) (hp : 0 < post) (hi : i < v) :
    muxSrc v post (muxRow v post i j) = j := by
  unfold muxSrc
  rw [muxRow_mod v post i j hp, Nat.mul_comm v post, ← Nat.div_div_eq_div_mul,
    muxRow_div v post i j hp, div_block _ _ _ hi]
  exact Nat.div_add_mod' j post

/-- every output position is the image of its decoded (input, position) pair -/
theorem muxRow_decode (v post r : Nat) (hp : 0 < post) :
    muxRow v post (r / post % v) (muxSrc v post r) = r := by
  unfold muxRow muxSrc
  rw [div_block _ _ _ (Nat.mod_lt _ hp), mod_block _ _ _ (Nat.mod_lt _ hp)]
  have h1 : r / (v * post) = r / post / v := by
    rw [Nat.mul_comm v post, Nat.div_div_eq_div_mul]
  rw [h1]
  have h2 := Nat.div_add_mod' (r / post) v
  have h3 := Nat.div_add_mod' r post
  calc r / post / v * (v * post) + r / post % v * post + r % post
      = (r / post / v * v + r / post % v) * post + r % post := by ring
    _ = r := by rw [h2, h3]

theorem muxSrc_lt (v post pre r : Nat) (hp : 0 < post) (hv : 0 < v) (hr : r < pre * (v * post)) :
    muxSrc v post r < pre * post := by
  unfold muxSrc
  have h1 : r / (v * post) < pre := Nat.div_lt_of_lt_mul (by rw [Nat.mul_comm]; exact hr)
  have h2 : r % post < post := Nat.mod_lt _ hp
  calc r / (v * post) * post + r % post < r / (v * post) * post + post := by omega
    _ = (r / (v * post) + 1) * post := by ring
    _ ≤ pre * post := Nat.mul_le_mul_right _ h1

end Mux

end OMV.C26
