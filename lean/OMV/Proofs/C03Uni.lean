/-
C03 helper lemmas, part 4: a proper forward coloring reconstructs every matrix with the pattern;
`colorFwd P` is proper; the reverse case by transposition.
-/
import OMV.Proofs.C03Lin
import OMV.Proofs.C03Greedy
import OMV.Proofs.C03Order
import Mathlib.Data.List.Pairwise
import Mathlib.Data.List.Flatten

set_option linter.unusedSectionVars false
set_option linter.unusedSimpArgs false

namespace OMV.C03

/-! ## what a sequence of writes leaves at a position -/

theorem applyWrites_spec {α : Type} [Zero α] (J : Jac α) (w : List (Pos × α)) (q : Pos) :
    (∃ x, (q, x) ∈ w ∧ getAt (applyWrites J w) q = x) ∨
    ((∀ x, (q, x) ∉ w) ∧ getAt (applyWrites J w) q = getAt J q) := by
  induction w generalizing J with
  | nil => right; exact ⟨by simp, rfl⟩
  | cons pv w ih =>
    obtain ⟨p, y⟩ := pv
    have e : applyWrites J ((p, y) :: w) = applyWrites (setAt J p y) w := rfl
    rw [e]
    rcases ih (setAt J p y) with ⟨x, hx, hv⟩ | ⟨hn, hv⟩
    · left; exact ⟨x, List.mem_cons_of_mem _ hx, hv⟩
    · rw [getAt_setAt] at hv
      by_cases hpq : p = q
      · left
        rw [if_pos hpq] at hv
        exact ⟨y, by rw [hpq]; exact List.mem_cons_self, hv⟩
      · right
        rw [if_neg hpq] at hv
        refine ⟨?_, hv⟩
        intro x hx
        rcases List.mem_cons.mp hx with h | h
        · exact hpq (by simpa using (congrArg Prod.fst h).symm)
        · exact hn x h

theorem mem_fwdWritesFrom {α : Type} (nz : List (List Nat)) (v : Nat → Nat → α) (i : Nat)
    (gs : List (List Nat)) (pv : Pos × α) :
    pv ∈ fwdWritesFrom nz v i gs ↔
      ∃ k g, gs[k]? = some g ∧ ∃ c ∈ g, ∃ r ∈ nz.getD c [], pv = ((r, c), v (i + k) r) := by
  induction gs generalizing i with
  | nil => simp [fwdWritesFrom]
  | cons g0 gs ih =>
    simp only [fwdWritesFrom, List.mem_append, List.mem_flatMap, List.mem_map, ih]
    constructor
    · rintro (⟨c, hc, r, hr, rfl⟩ | ⟨k, g, hk, c, hc, r, hr, rfl⟩)
      · exact ⟨0, g0, by simp, c, hc, r, hr, by simp⟩
      · exact ⟨k + 1, g, by simpa using hk, c, hc, r, hr, by
          have : i + 1 + k = i + (k + 1) := by omega
          rw [this]⟩
    · rintro ⟨k, g, hk, c, hc, r, hr, rfl⟩
      cases k with
      | zero =>
        left
        simp only [List.getElem?_cons_zero, Option.some.injEq] at hk
        subst hk
        exact ⟨c, hc, r, hr, by simp⟩
      | succ k =>
        right
        refine ⟨k, g, by simpa using hk, c, hc, r, hr, ?_⟩
        have : i + 1 + k = i + (k + 1) := by omega
        rw [this]

/-! ## sums with a single nonzero term -/

section sums
variable {R : Type} [CommRing R] {ι : Type}

theorem foldl_add_zero (l : List ι) (f : ι → R) (acc : R) (h : ∀ x ∈ l, f x = 0) :
    l.foldl (fun a x => a + f x) acc = acc := by
  induction l generalizing acc with
  | nil => rfl
  | cons x l ih =>
    simp only [List.foldl_cons]
    rw [h x List.mem_cons_self, add_zero]
    exact ih acc (fun y hy => h y (List.mem_cons_of_mem _ hy))

theorem foldl_add_single [DecidableEq ι] (l : List ι) (f : ι → R) (acc : R) (c : ι) (hn : l.Nodup)
    (hc : c ∈ l) (h : ∀ x ∈ l, x ≠ c → f x = 0) :
    l.foldl (fun a x => a + f x) acc = acc + f c := by
  induction l generalizing acc with
  | nil => simp at hc
  | cons x l ih =>
    simp only [List.foldl_cons]
    rw [List.nodup_cons] at hn
    by_cases hx : x = c
    · subst hx
      exact foldl_add_zero l f _ (fun y hy => h y (List.mem_cons_of_mem _ hy)
        (fun e => hn.1 (e ▸ hy)))
    · rw [h x List.mem_cons_self hx, add_zero]
      have hc' : c ∈ l := by
        rcases List.mem_cons.mp hc with e | e
        · exact absurd e.symm hx
        · exact e
      exact ih acc hn.2 hc' (fun y hy => h y (List.mem_cons_of_mem _ hy))

theorem sumOver_single [DecidableEq ι] (l : List ι) (f : ι → R) (c : ι) (hn : l.Nodup)
    (hc : c ∈ l) (h : ∀ x ∈ l, x ≠ c → f x = 0) : sumOver l f = f c := by
  unfold sumOver
  rw [foldl_add_single l f 0 c hn hc h, zero_add]

end sums

theorem pairwise_forall_symm {β : Type} {R : β → β → Prop} (hs : ∀ a b, R a b → R b a)
    {l : List β} (h : l.Pairwise R) {a b : β} (ha : a ∈ l) (hb : b ∈ l) (hne : a ≠ b) : R a b := by
  induction l with
  | nil => simp at ha
  | cons x l ih =>
    rw [List.pairwise_cons] at h
    rcases List.mem_cons.mp ha with rfl | ha' <;> rcases List.mem_cons.mp hb with rfl | hb'
    · exact absurd rfl hne
    · exact h.1 b hb'
    · exact hs _ _ (h.1 a ha')
    · exact ih h.2 ha' hb'

/-! ## proper forward colorings -/

/-- A forward-only coloring that is a structurally orthogonal partition of the nonzero columns. -/
structure ProperFwd (P : Pattern) (C : Coloring) : Prop where
  norev : C.rev = []
  nosubs : C.subs = []
  nodup : C.fwd.flatten.Nodup
  orth : ∀ g ∈ C.fwd, ∀ a ∈ g, ∀ b ∈ g, a ≠ b → ∀ r, ¬ ((r, a) ∈ P.nz ∧ (r, b) ∈ P.nz)
  nz : ∀ c ∈ C.fwd.flatten, ∀ r, r ∈ C.fwdNz.getD c [] ↔ (r, c) ∈ P.nz
  cover : ∀ p ∈ P.nz, p.2 ∈ C.fwd.flatten

theorem properFwd_exact {R : Type} [CommRing R] (P : Pattern) (C : Coloring) (h : ProperFwd P C)
    (M : Pos → R) (hM : ∀ p, p ∉ P.nz → M p = 0) (q : Pos) :
    getAt (recover C (compress C M)) q = M q := by
  have hrec : recover C (compress C M) =
      applyWrites [] (fwdWritesFrom C.fwdNz (compress C M).fwd 0 C.fwd) := by
    unfold recover rawJac solveWrites
    rw [h.nosubs, h.norev]
    simp [applySubs, revWritesFrom]
  rw [hrec]
  -- every write stores the right value
  have hval : ∀ p x, (p, x) ∈ fwdWritesFrom C.fwdNz (compress C M).fwd 0 C.fwd → x = M p := by
    intro p x hpx
    obtain ⟨k, g, hk, c, hc, r, hr, e⟩ := (mem_fwdWritesFrom _ _ _ _ _).mp hpx
    simp only [Prod.mk.injEq, Nat.zero_add] at e
    obtain ⟨rfl, rfl⟩ := e
    have hg : g ∈ C.fwd := List.mem_of_getElem? hk
    have hgd : C.fwd.getD k [] = g := by simp [List.getD_eq_getElem?_getD, hk]
    have hcf : c ∈ C.fwd.flatten := List.mem_flatten.mpr ⟨g, hg, hc⟩
    have hrc : (r, c) ∈ P.nz := (h.nz c hcf r).mp hr
    have hgn : g.Nodup := (List.nodup_flatten.mp h.nodup).1 g hg
    show sumOver (C.fwd.getD k []) (fun c' => M (r, c')) = M (r, c)
    rw [hgd]
    refine sumOver_single g _ c hgn hc ?_
    intro c' hc' hne
    exact hM _ (fun hin => h.orth g hg c' hc' c hc hne r ⟨hin, hrc⟩)
  rcases applyWrites_spec ([] : Jac R) _ q with ⟨x, hx, hv⟩ | ⟨hn, hv⟩
  · rw [hv]; exact hval q x hx
  · rw [hv, getAt_nil]
    symm
    apply hM
    intro hq
    -- a nonzero of the pattern is always written
    obtain ⟨r, c⟩ := q
    have hcf : c ∈ C.fwd.flatten := h.cover (r, c) hq
    obtain ⟨g, hg, hc⟩ := List.mem_flatten.mp hcf
    obtain ⟨k, hk⟩ := List.getElem?_of_mem hg
    have hr : r ∈ C.fwdNz.getD c [] := (h.nz c hcf r).mpr hq
    exact hn _ ((mem_fwdWritesFrom _ _ _ _ _).mpr ⟨k, g, hk, c, hc, r, hr, rfl⟩)

/-! ## `colorFwd P` is proper -/

theorem has_iff (P : Pattern) (r c : Nat) : P.has r c = true ↔ (r, c) ∈ P.nz := by
  simp [Pattern.has]

theorem wf_bounds {P : Pattern} (hw : P.wf = true) {r c : Nat} (h : (r, c) ∈ P.nz) :
    r < P.nrows ∧ c < P.ncols := by
  unfold Pattern.wf at hw
  have := List.all_eq_true.mp hw (r, c) h
  simpa using this

theorem mem_colRows {P : Pattern} {r c : Nat} : r ∈ colRows P c ↔ r < P.nrows ∧ (r, c) ∈ P.nz := by
  simp [colRows, has_iff]

theorem mem_colAdj {P : Pattern} {c c' : Nat} :
    c' ∈ colAdj P c ↔ c' < P.ncols ∧ ∃ r, r < P.nrows ∧ (r, c) ∈ P.nz ∧ (r, c') ∈ P.nz := by
  simp only [colAdj, List.mem_filter, List.mem_range, List.any_eq_true, mem_colRows, has_iff]
  constructor
  · rintro ⟨h1, r, ⟨h2, h3⟩, h4⟩; exact ⟨h1, r, h2, h3, h4⟩
  · rintro ⟨h1, r, h2, h3, h4⟩; exact ⟨h1, r, ⟨h2, h3⟩, h4⟩

theorem adjOf_adjList (P : Pattern) (c : Nat) :
    adjOf (adjList P) c = if c < P.ncols then colAdj P c else [] := by
  unfold adjOf adjList
  by_cases h : c < P.ncols
  · simp [List.getD_eq_getElem?_getD, h]
  · simp [List.getD_eq_getElem?_getD, h]

theorem mem_adjOf {P : Pattern} {c c' : Nat} :
    c' ∈ adjOf (adjList P) c ↔
      c < P.ncols ∧ c' < P.ncols ∧ ∃ r, r < P.nrows ∧ (r, c) ∈ P.nz ∧ (r, c') ∈ P.nz := by
  rw [adjOf_adjList]
  by_cases h : c < P.ncols
  · simp [h, mem_colAdj]
  · simp [h]

theorem adjOf_symm {P : Pattern} {c c' : Nat} (h : c' ∈ adjOf (adjList P) c) :
    c ∈ adjOf (adjList P) c' := by
  obtain ⟨h1, h2, r, h3, h4, h5⟩ := mem_adjOf.mp h
  exact mem_adjOf.mpr ⟨h2, h1, r, h3, h5, h4⟩

/-- With a well-formed pattern the marked columns are exactly the columns holding a nonzero. -/
theorem marked_of_nz {P : Pattern} (hw : P.wf = true) {r c : Nat} (h : (r, c) ∈ P.nz) :
    c ∈ markedCols (adjOf (adjList P)) P.ncols := by
  obtain ⟨hr, hc⟩ := wf_bounds hw h
  refine mem_markedCols.mpr ⟨hc, ?_⟩
  unfold isMarked
  rw [List.any_eq_true]
  refine ⟨c, List.mem_range.mpr hc, ?_⟩
  have : c ∈ adjOf (adjList P) c := mem_adjOf.mpr ⟨hc, hc, r, hr, h, h⟩
  simpa using this

theorem fwdGroups_spec (P : Pattern) :
    (∀ g ∈ fwdGroups P, g ≠ []) ∧
    (∀ g ∈ fwdGroups P, GroupOK (adjOf (adjList P)) g) ∧
    (fwdGroups P).flatten.Perm (markedCols (adjOf (adjList P)) P.ncols) ∧
    (fwdGroups P).length ≤ P.ncols := by
  have hs := greedyFrom_spec (adjOf (adjList P)) (orderByID (adjOf (adjList P)) P.ncols) []
    (by simp) (by simp)
  have hp := orderByID_perm (adjOf (adjList P)) P.ncols
  have e : fwdGroups P = greedyFrom (adjOf (adjList P)) [] (orderByID (adjOf (adjList P)) P.ncols) :=
    rfl
  rw [e]
  obtain ⟨a, b, c, d⟩ := hs
  refine ⟨a, b, ?_, ?_⟩
  · simpa using c.trans hp
  · have := hp.length_eq
    have := markedCols_length_le (adjOf (adjList P)) P.ncols
    simp only [List.length_nil, Nat.zero_add] at d
    omega

theorem colorFwd_proper (P : Pattern) (hw : P.wf = true) : ProperFwd P (colorFwd P) := by
  obtain ⟨_, hok, hperm, _⟩ := fwdGroups_spec P
  have hflat : ∀ c, c ∈ (fwdGroups P).flatten ↔ c ∈ markedCols (adjOf (adjList P)) P.ncols :=
    fun c => hperm.mem_iff
  refine ⟨rfl, rfl, ?_, ?_, ?_, ?_⟩
  · exact hperm.nodup_iff.mpr (markedCols_nodup _ _)
  · intro g hg a ha b hb hne r hab
    have hR := pairwise_forall_symm (R := fun a b : Nat => a ∉ adjOf (adjList P) b)
      (fun x y hxy hyx => hxy (adjOf_symm hyx)) (hok g hg) ha hb hne
    have ha' := wf_bounds hw hab.1
    have hb' := wf_bounds hw hab.2
    exact hR (mem_adjOf.mpr ⟨hb'.2, ha'.2, r, ha'.1, hab.2, hab.1⟩)
  · intro c hc r
    have hcn : c < P.ncols := (mem_markedCols.mp ((hflat c).mp hc)).1
    show r ∈ ((List.range P.ncols).map (colRows P)).getD c [] ↔ _
    have : ((List.range P.ncols).map (colRows P)).getD c [] = colRows P c := by
      simp [List.getD_eq_getElem?_getD, hcn]
    rw [this, mem_colRows]
    constructor
    · exact fun h => h.2
    · exact fun h => ⟨(wf_bounds hw h).1, h⟩
  · intro p hp
    exact (hflat p.2).mpr (marked_of_nz hw (r := p.1) hp)

/-! ## the reverse direction by transposition -/

def swapPos (p : Pos) : Pos := (p.2, p.1)

theorem revWritesFrom_eq_swap {α : Type} (nz : List (List Nat)) (v : Nat → Nat → α) (i : Nat)
    (gs : List (List Nat)) :
    revWritesFrom nz v i gs = (fwdWritesFrom nz v i gs).map fun pv => (swapPos pv.1, pv.2) := by
  induction gs generalizing i with
  | nil => rfl
  | cons g gs ih =>
    simp only [revWritesFrom, fwdWritesFrom, List.map_append, ih, List.map_flatMap, List.map_map]
    rfl

theorem getAt_swapJac {α : Type} [Zero α] (J : Jac α) (q : Pos) :
    getAt (J.map fun pv => (swapPos pv.1, pv.2)) q = getAt J (swapPos q) := by
  induction J with
  | nil => rfl
  | cons pv J ih =>
    obtain ⟨p, x⟩ := pv
    simp only [List.map_cons]
    rw [getAt_cons, getAt_cons, ih]
    have : (swapPos p = q) ↔ (p = swapPos q) := by
      obtain ⟨a, b⟩ := p
      obtain ⟨c, d⟩ := q
      simp only [swapPos, Prod.mk.injEq]
      tauto
    by_cases hpq : swapPos p = q
    · rw [if_pos hpq, if_pos (this.mp hpq)]
    · rw [if_neg hpq, if_neg (fun e => hpq (this.mpr e))]

theorem applyWrites_swap {α : Type} (J : Jac α) (w : List (Pos × α)) :
    applyWrites (J.map fun pv => (swapPos pv.1, pv.2)) (w.map fun pv => (swapPos pv.1, pv.2)) =
      (applyWrites J w).map fun pv => (swapPos pv.1, pv.2) := by
  induction w generalizing J with
  | nil => rfl
  | cons pv w ih =>
    simp only [applyWrites, List.map_cons, List.foldl_cons]
    exact ih (setAt J pv.1 pv.2)

/-- A reverse-only coloring behaves as the forward-only coloring with the same groups on the
transposed matrix. -/
theorem recover_rev_eq {α : Type} [Zero α] [Add α] [Sub α] (groups nzl : List (List Nat))
    (M : Pos → α) (q : Pos) :
    getAt (recover { rev := groups, revNz := nzl } (compress { rev := groups, revNz := nzl } M)) q =
      getAt (recover { fwd := groups, fwdNz := nzl }
        (compress { fwd := groups, fwdNz := nzl } (fun p => M (swapPos p)))) (swapPos q) := by
  unfold recover rawJac solveWrites
  simp only [applySubs, List.foldl_nil, fwdWritesFrom, revWritesFrom, List.nil_append,
    List.append_nil]
  rw [revWritesFrom_eq_swap]
  have e : ([] : Jac α) = ([] : Jac α).map fun pv => (swapPos pv.1, pv.2) := rfl
  rw [e, applyWrites_swap, getAt_swapJac]
  rfl

theorem mem_transpose {P : Pattern} {p : Pos} : p ∈ P.transpose.nz ↔ swapPos p ∈ P.nz := by
  obtain ⟨a, b⟩ := p
  simp only [Pattern.transpose, List.mem_map, swapPos]
  constructor
  · rintro ⟨⟨x, y⟩, h, e⟩
    simp only [Prod.mk.injEq] at e
    obtain ⟨rfl, rfl⟩ := e
    exact h
  · intro h; exact ⟨(b, a), h, rfl⟩

theorem wf_transpose {P : Pattern} (hw : P.wf = true) : P.transpose.wf = true := by
  unfold Pattern.wf
  rw [List.all_eq_true]
  intro p hp
  have := wf_bounds hw (r := p.2) (c := p.1) (mem_transpose.mp hp)
  simp [Pattern.transpose, this.1, this.2]

end OMV.C03
