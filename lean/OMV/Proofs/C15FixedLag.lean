/-
C15 — the fixed-dimension lagrange2 / lagrange3 tables (cell coefficients in the power basis of the
cell-local coordinate, contracted with `einsum`) against the general recursion.
-/
import OMV.Proofs.C15Fixed

set_option linter.unusedSectionVars false
set_option linter.unusedVariables false

namespace OMV.C15

variable {K : Type} [Field K] [LinearOrder K] [IsStrictOrderedRing K]

/-! ### stencil indices -/

theorem fixIdx2_nat {n : Nat} (idx : Nat) (hn : 3 ≤ n) : fixIdx2 n (idx : Int) = lag2Start n idx := by
  unfold fixIdx2 lag2Start
  split_ifs <;> first | omega | contradiction | simp

theorem fixIdx2_neg {n : Nat} (hn : 3 ≤ n) : fixIdx2 n (-1) = lag2Start n 0 := by
  unfold fixIdx2 lag2Start
  split_ifs <;> omega

theorem fixIdx3_nat {n : Nat} (idx : Nat) (hn : 4 ≤ n) : fixIdx3 n (idx : Int) = lag3Start n idx := by
  unfold fixIdx3 lag3Start
  split_ifs <;> first | omega | contradiction | simp

theorem fixIdx3_neg {n : Nat} (hn : 4 ≤ n) : fixIdx3 n (-1) = lag3Start n 0 := by
  unfold fixIdx3 lag3Start
  split_ifs <;> omega

/-! ### pure algebra of the contractions (arbitrary coefficient arrays) -/

theorem alg1_3 (t : Nat → Nat → K) (T : Nat → K) (d : K) :
    sum3 (fun p => t 0 p * T p) + d * (sum3 (fun p => t 1 p * T p) + d * sum3 (fun p => t 2 p * T p)) =
      sum3 (fun p => T p * sum3 (fun m => t m p * pow3 d m)) := by
  simp [sum3, pow3]; ring

theorem alg2_3 (tx ty : Nat → Nat → K) (T : Nat → Nat → K) (X Y : Nat → K) :
    sum3 (fun m => sum3 (fun n => sum3 (fun p => sum3 (fun q => tx m p * ty n q * T p q)) * X m * Y n)) =
      sum3 (fun p => sum3 (fun q => T p q * sum3 (fun n => ty n q * Y n)) * sum3 (fun m => tx m p * X m)) := by
  simp only [sum3]; ring

/-- Peeling the first axis off a three-axis contraction. -/
theorem alg3_3_inner (tx ty tz : Nat → Nat → K) (T : Nat → Nat → Nat → K) (m n o : Nat) :
    sum3 (fun p => sum3 (fun q => sum3 (fun r => tx m p * ty n q * tz o r * T p q r))) =
      sum3 (fun p => tx m p * sum3 (fun q => sum3 (fun r => ty n q * tz o r * T p q r))) := by
  simp only [sum3]; ring

theorem alg3_3_outer (tx : Nat → Nat → K) (W : Nat → Nat → Nat → K) (X Y Z : Nat → K) :
    sum3 (fun m => sum3 (fun n => sum3 (fun o => sum3 (fun p => tx m p * W p n o) * X m * Y n * Z o))) =
      sum3 (fun p => sum3 (fun n => sum3 (fun o => W p n o * Y n * Z o)) * sum3 (fun m => tx m p * X m)) := by
  simp only [sum3]; ring

theorem alg1_4 (t : Nat → Nat → K) (T : Nat → K) (d : K) :
    sum4 (fun p => t 0 p * T p) + d * (sum4 (fun p => t 1 p * T p) +
        d * (sum4 (fun p => t 2 p * T p) + d * sum4 (fun p => t 3 p * T p))) =
      sum4 (fun p => T p * sum4 (fun m => t m p * pow4 d m)) := by
  simp [sum4, pow4]; ring

theorem alg2_4 (tx ty : Nat → Nat → K) (T : Nat → Nat → K) (X Y : Nat → K) :
    sum4 (fun m => sum4 (fun n => sum4 (fun p => sum4 (fun q => tx m p * ty n q * T p q)) * X m * Y n)) =
      sum4 (fun p => sum4 (fun q => T p q * sum4 (fun n => ty n q * Y n)) * sum4 (fun m => tx m p * X m)) := by
  simp only [sum4]; ring

theorem alg3_4_inner (tx ty tz : Nat → Nat → K) (T : Nat → Nat → Nat → K) (m n o : Nat) :
    sum4 (fun p => sum4 (fun q => sum4 (fun r => tx m p * ty n q * tz o r * T p q r))) =
      sum4 (fun p => tx m p * sum4 (fun q => sum4 (fun r => ty n q * tz o r * T p q r))) := by
  simp only [sum4]; ring

theorem alg3_4_outer (tx : Nat → Nat → K) (W : Nat → Nat → Nat → K) (X Y Z : Nat → K) :
    sum4 (fun m => sum4 (fun n => sum4 (fun o => sum4 (fun p => tx m p * W p n o) * X m * Y n * Z o))) =
      sum4 (fun p => sum4 (fun n => sum4 (fun o => W p n o * Y n * Z o)) * sum4 (fun m => tx m p * X m)) := by
  simp only [sum4]; ring

/-! ### one-dimensional basis in power form -/

theorem lag2Poly_basis {x1 x2 x3 : K} (V : Nat → K) (x : K) (h12 : x1 - x2 ≠ 0) (h13 : x1 - x3 ≠ 0)
    (h23 : x2 - x3 ≠ 0) :
    lag2Poly x1 x2 x3 (V 0) (V 1) (V 2) x =
      sum3 (fun p => V p * sum3 (fun m => lag2Term x1 x2 x3 m p * pow3 (x - x1) m)) := by
  simp [lag2Poly, sum3, lag2Term, pow3]
  field_simp
  ring

theorem lag3Poly_basis {p1 p2 p3 p4 : K} (V : Nat → K) (x : K) (h12 : p1 - p2 ≠ 0) (h13 : p1 - p3 ≠ 0)
    (h14 : p1 - p4 ≠ 0) (h23 : p2 - p3 ≠ 0) (h24 : p2 - p4 ≠ 0) (h34 : p3 - p4 ≠ 0) :
    lag3Poly p1 p2 p3 p4 (V 0) (V 1) (V 2) (V 3) x =
      sum4 (fun p => V p * sum4 (fun m => lag3Term p1 p2 p3 p4 m p * pow4 (x - p1) m)) := by
  simp [lag3Poly, sum4, lag3Term, pow4]
  field_simp
  ring

/-- The three stencil points of lagrange2 at start `s` are pairwise distinct. -/
theorem lag2_ne {n : Nat} {g : Nat → K} (hg : StrictOn n g) (s : Nat) (hs : s + 2 < n) :
    g s - g (s + 1) ≠ 0 ∧ g s - g (s + 2) ≠ 0 ∧ g (s + 1) - g (s + 2) ≠ 0 :=
  ⟨hg.sub_ne (by omega) (by omega), hg.sub_ne (by omega) (by omega), hg.sub_ne (by omega) (by omega)⟩

theorem lagrange2K_basis {n : Nat} {g : Nat → K} (hn : 3 ≤ n) (hg : StrictOn n g) (v : Nat → K)
    (idx : Nat) (x : K) :
    lagrange2K n g v idx x = sum3 (fun p => v (lag2Start n idx + p) *
      sum3 (fun m => lag2Term (g (lag2Start n idx)) (g (lag2Start n idx + 1)) (g (lag2Start n idx + 2)) m p *
        pow3 (x - g (lag2Start n idx)) m)) := by
  obtain ⟨h12, h13, h23⟩ := lag2_ne hg (lag2Start n idx) (lag2Start_lt idx hn)
  rw [lagrange2K_eq]
  exact lag2Poly_basis (fun p => v (lag2Start n idx + p)) x h12 h13 h23

theorem lagrange3K_basis {n : Nat} {g : Nat → K} (hn : 4 ≤ n) (hg : StrictOn n g) (v : Nat → K)
    (idx : Nat) (x : K) :
    lagrange3K n g v idx x = sum4 (fun p => v (lag3Start n idx - 1 + p) *
      sum4 (fun m => lag3Term (g (lag3Start n idx - 1)) (g (lag3Start n idx)) (g (lag3Start n idx + 1))
        (g (lag3Start n idx + 2)) m p * pow4 (x - g (lag3Start n idx - 1)) m)) := by
  obtain ⟨hb1, hb2⟩ := lag3Start_bounds idx hn
  rw [lagrange3K_eq]
  have e1 : lag3Start n idx = lag3Start n idx - 1 + 1 := by omega
  have e2 : lag3Start n idx + 1 = lag3Start n idx - 1 + 2 := by omega
  have e3 : lag3Start n idx + 2 = lag3Start n idx - 1 + 3 := by omega
  have := lag3Poly_basis (fun p => v (lag3Start n idx - 1 + p)) x
    (hg.sub_ne (i := lag3Start n idx - 1) (j := lag3Start n idx) (by omega) (by omega))
    (hg.sub_ne (i := lag3Start n idx - 1) (j := lag3Start n idx + 1) (by omega) (by omega))
    (hg.sub_ne (i := lag3Start n idx - 1) (j := lag3Start n idx + 2) (by omega) (by omega))
    (hg.sub_ne (i := lag3Start n idx) (j := lag3Start n idx + 1) (by omega) (by omega))
    (hg.sub_ne (i := lag3Start n idx) (j := lag3Start n idx + 2) (by omega) (by omega))
    (hg.sub_ne (i := lag3Start n idx + 1) (j := lag3Start n idx + 2) (by omega) (by omega))
  simp only [Nat.add_zero, ← e1, ← e2, ← e3] at this
  exact this

/-! ### lagrange2: fixed = general -/

theorem lagrange2_1D_eq_aux {n : Nat} {g : Nat → K} (hn : 3 ≤ n) (hg : StrictOn n g)
    (tbl : List Nat → K) (ix : Int) (idx : Nat) (x : K) (h : fixIdx2 n ix = lag2Start n idx) :
    lagrange2_1D n g tbl ix x = evalIdx lagrange2K [(n, g)] [idx] tbl [x] := by
  simp only [evalIdx, lagrange2K_basis hn hg, lagrange2_1D, h]
  exact alg1_3 _ (fun p => tbl [lag2Start n idx + p]) _

theorem lagrange2_2D_eq_aux {nx ny : Nat} {gx gy : Nat → K} (hnx : 3 ≤ nx) (hny : 3 ≤ ny)
    (hgx : StrictOn nx gx) (hgy : StrictOn ny gy) (tbl : List Nat → K) (ix iy : Int) (i j : Nat)
    (x y : K) (hx : fixIdx2 nx ix = lag2Start nx i) (hy : fixIdx2 ny iy = lag2Start ny j) :
    lagrange2_2D nx ny gx gy tbl ix iy x y =
      evalIdx lagrange2K [(nx, gx), (ny, gy)] [i, j] tbl [x, y] := by
  simp only [evalIdx, lagrange2K_basis hnx hgx, lagrange2K_basis hny hgy, lagrange2_2D, hx, hy]
  exact alg2_3 _ _ (fun p q => tbl [lag2Start nx i + p, lag2Start ny j + q]) _ _

theorem lagrange2_3D_eq_aux {nx ny nz : Nat} {gx gy gz : Nat → K} (hnx : 3 ≤ nx) (hny : 3 ≤ ny)
    (hnz : 3 ≤ nz) (hgx : StrictOn nx gx) (hgy : StrictOn ny gy) (hgz : StrictOn nz gz)
    (tbl : List Nat → K) (ix iy iz : Int) (i j k : Nat) (x y z : K)
    (hx : fixIdx2 nx ix = lag2Start nx i) (hy : fixIdx2 ny iy = lag2Start ny j)
    (hz : fixIdx2 nz iz = lag2Start nz k) :
    lagrange2_3D nx ny nz gx gy gz tbl ix iy iz x y z =
      evalIdx lagrange2K [(nx, gx), (ny, gy), (nz, gz)] [i, j, k] tbl [x, y, z] := by
  have h2 := lagrange2_2D_eq_aux hny hnz hgy hgz
  simp only [evalIdx] at h2 ⊢
  simp only [lagrange2K_basis hnx hgx]
  -- the inner two axes, for each first-axis node, are the 2-D fixed formula
  have hin : ∀ p, lagrange2K ny gy (fun i_1 => lagrange2K nz gz
      (fun i_2 => tbl [lag2Start nx i + p, i_1, i_2]) k z) j y =
      lagrange2_2D ny nz gy gz (fun js => tbl ((lag2Start nx i + p) :: js)) iy iz y z := by
    intro p
    exact (h2 (fun js => tbl ((lag2Start nx i + p) :: js)) iy iz j k y z hy hz).symm
  simp only [hin, lagrange2_3D, lagrange2_2D, hx, hy, hz, alg3_3_inner]
  exact alg3_3_outer _ (fun p n o => sum3 (fun q => sum3 (fun r =>
    lag2Term (gy (lag2Start ny j)) (gy (lag2Start ny j + 1)) (gy (lag2Start ny j + 2)) n q *
    lag2Term (gz (lag2Start nz k)) (gz (lag2Start nz k + 1)) (gz (lag2Start nz k + 2)) o r *
    tbl [lag2Start nx i + p, lag2Start ny j + q, lag2Start nz k + r]))) _ _ _

/-! ### lagrange3: fixed = general -/

theorem lagrange3_1D_eq_aux {n : Nat} {g : Nat → K} (hn : 4 ≤ n) (hg : StrictOn n g)
    (tbl : List Nat → K) (ix : Int) (idx : Nat) (x : K) (h : fixIdx3 n ix = lag3Start n idx) :
    lagrange3_1D n g tbl ix x = evalIdx lagrange3K [(n, g)] [idx] tbl [x] := by
  simp only [evalIdx, lagrange3K_basis hn hg, lagrange3_1D, h]
  exact alg1_4 _ (fun p => tbl [lag3Start n idx - 1 + p]) _

theorem lagrange3_2D_eq_aux {nx ny : Nat} {gx gy : Nat → K} (hnx : 4 ≤ nx) (hny : 4 ≤ ny)
    (hgx : StrictOn nx gx) (hgy : StrictOn ny gy) (tbl : List Nat → K) (ix iy : Int) (i j : Nat)
    (x y : K) (hx : fixIdx3 nx ix = lag3Start nx i) (hy : fixIdx3 ny iy = lag3Start ny j) :
    lagrange3_2D nx ny gx gy tbl ix iy x y =
      evalIdx lagrange3K [(nx, gx), (ny, gy)] [i, j] tbl [x, y] := by
  simp only [evalIdx, lagrange3K_basis hnx hgx, lagrange3K_basis hny hgy, lagrange3_2D, hx, hy]
  exact alg2_4 _ _ (fun p q => tbl [lag3Start nx i - 1 + p, lag3Start ny j - 1 + q]) _ _

theorem lagrange3_3D_eq_aux {nx ny nz : Nat} {gx gy gz : Nat → K} (hnx : 4 ≤ nx) (hny : 4 ≤ ny)
    (hnz : 4 ≤ nz) (hgx : StrictOn nx gx) (hgy : StrictOn ny gy) (hgz : StrictOn nz gz)
    (tbl : List Nat → K) (ix iy iz : Int) (i j k : Nat) (x y z : K)
    (hx : fixIdx3 nx ix = lag3Start nx i) (hy : fixIdx3 ny iy = lag3Start ny j)
    (hz : fixIdx3 nz iz = lag3Start nz k) :
    lagrange3_3D nx ny nz gx gy gz tbl ix iy iz x y z =
      evalIdx lagrange3K [(nx, gx), (ny, gy), (nz, gz)] [i, j, k] tbl [x, y, z] := by
  have h2 := lagrange3_2D_eq_aux hny hnz hgy hgz
  simp only [evalIdx] at h2 ⊢
  simp only [lagrange3K_basis hnx hgx]
  have hin : ∀ p, lagrange3K ny gy (fun i_1 => lagrange3K nz gz
      (fun i_2 => tbl [lag3Start nx i - 1 + p, i_1, i_2]) k z) j y =
      lagrange3_2D ny nz gy gz (fun js => tbl ((lag3Start nx i - 1 + p) :: js)) iy iz y z := by
    intro p
    exact (h2 (fun js => tbl ((lag3Start nx i - 1 + p) :: js)) iy iz j k y z hy hz).symm
  simp only [hin, lagrange3_3D, lagrange3_2D, hx, hy, hz, alg3_4_inner]
  exact alg3_4_outer _ (fun p n o => sum4 (fun q => sum4 (fun r =>
    lag3Term (gy (lag3Start ny j - 1)) (gy (lag3Start ny j)) (gy (lag3Start ny j + 1))
      (gy (lag3Start ny j + 2)) n q *
    lag3Term (gz (lag3Start nz k - 1)) (gz (lag3Start nz k)) (gz (lag3Start nz k + 1))
      (gz (lag3Start nz k + 2)) o r *
    tbl [lag3Start nx i - 1 + p, lag3Start ny j - 1 + q, lag3Start nz k - 1 + r]))) _ _ _

end OMV.C15
