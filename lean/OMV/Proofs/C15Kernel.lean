/-
C15 — one-dimensional kernels: linearity in the values, exactness on the nodes of the bracketing
interval, reproduction of polynomials up to the method's degree.
-/
import OMV.Proofs.C15Bracket
import Mathlib.Algebra.Order.Field.Basic
import Mathlib.Tactic.Ring
import Mathlib.Tactic.FieldSimp
import Mathlib.Tactic.Linarith

set_option linter.unusedSectionVars false
set_option linter.unusedVariables false

namespace OMV.C15

variable {K : Type} [Field K] [LinearOrder K] [IsStrictOrderedRing K]

/-! ### properties of a kernel -/

/-- Additive in the values. -/
def KAdd (kern : Kernel K) : Prop :=
  ∀ n g u w idx x, kern n g (fun i => u i + w i) idx x = kern n g u idx x + kern n g w idx x

/-- Homogeneous in the values. -/
def KSmul (kern : Kernel K) : Prop :=
  ∀ n g a u idx x, kern n g (fun i => a * u i) idx x = a * kern n g u idx x

/-- Returns the value at both nodes of the bracketing interval. -/
def KNode (kmin : Nat) (kern : Kernel K) : Prop :=
  ∀ n g v idx i, kmin ≤ n → StrictOn n g → idx + 1 < n → (i = idx ∨ i = idx + 1) →
    kern n g v idx (g i) = v i

/-- Reproduces the monomials `x^e`, `e ≤ deg`, at every point and for every bracket index. -/
def KMono (kmin deg : Nat) (kern : Kernel K) : Prop :=
  ∀ n g idx x e, kmin ≤ n → StrictOn n g → idx < n → e ≤ deg →
    kern n g (fun i => g i ^ e) idx x = x ^ e

/-- `Σ_{k<m} C k * y^k`. -/
def psum (C : Nat → K) (y : K) : Nat → K
  | 0 => 0
  | k + 1 => psum C y k + C k * y ^ k

/-- Reproduces every polynomial of degree ≤ `deg` (sampled on the grid). -/
def KRep (kmin deg : Nat) (kern : Kernel K) : Prop :=
  ∀ n g idx x (C : Nat → K), kmin ≤ n → StrictOn n g → idx < n →
    kern n g (fun i => psum C (g i) (deg + 1)) idx x = psum C x (deg + 1)

theorem KRep_of_linear {kmin deg : Nat} {kern : Kernel K} (ha : KAdd kern) (hs : KSmul kern)
    (hm : KMono kmin deg kern) : KRep kmin deg kern := by
  intro n g idx x C hn hg hi
  have key : ∀ m, m ≤ deg + 1 → kern n g (fun i => psum C (g i) m) idx x = psum C x m := by
    intro m
    induction m with
    | zero =>
      intro _
      have := hs n g 0 (fun _ => 0) idx x
      simpa [psum] using this
    | succ k ih =>
      intro hk
      have h1 := ha n g (fun i => psum C (g i) k) (fun i => C k * g i ^ k) idx x
      have h2 := hs n g (C k) (fun i => g i ^ k) idx x
      have h3 := hm n g idx x k hn hg hi (by omega)
      simp only [psum]
      rw [h1, h2, h3, ih (by omega)]
  exact key (deg + 1) (le_refl _)

theorem StrictOn.sub_ne {n : Nat} {g : Nat → K} (h : StrictOn n g) {i j : Nat} (hij : i < j)
    (hj : j < n) : g i - g j ≠ 0 := sub_ne_zero.mpr (h i j hij hj).ne

theorem StrictOn.sub_ne' {n : Nat} {g : Nat → K} (h : StrictOn n g) {i j : Nat} (hij : i < j)
    (hj : j < n) : g j - g i ≠ 0 := sub_ne_zero.mpr (h i j hij hj).ne'

/-! ### slinear -/

/-- The line through `(x0, v0)`, `(x1, v1)` as the code writes it. -/
def slinPoly (x0 x1 v0 v1 x : K) : K := v0 + (x - x0) * ((v1 - v0) * (1 / (x1 - x0)))

/-- Interval used by slinear. -/
def slinStart (n idx : Nat) : Nat := if idx = n - 1 then idx - 1 else idx

theorem slinearK_eq (n : Nat) (g v : Nat → K) (idx : Nat) (x : K) :
    slinearK n g v idx x = slinPoly (g (slinStart n idx)) (g (slinStart n idx + 1))
      (v (slinStart n idx)) (v (slinStart n idx + 1)) x := rfl

theorem slinStart_lt {n idx : Nat} (hn : 2 ≤ n) (hi : idx < n) : slinStart n idx + 1 < n := by
  unfold slinStart; split_ifs <;> omega

theorem slinear_add : KAdd (slinearK (K := K)) := by
  intro n g u w idx x; simp only [slinearK_eq, slinPoly]; ring

theorem slinear_smul : KSmul (slinearK (K := K)) := by
  intro n g a u idx x; simp only [slinearK_eq, slinPoly]; ring

theorem slinear_node : KNode 2 (slinearK (K := K)) := by
  intro n g v idx i hn hg hi hcase
  have hs : slinStart n idx = idx := by unfold slinStart; split_ifs <;> omega
  rw [slinearK_eq, hs]
  have hne : g (idx + 1) - g idx ≠ 0 := hg.sub_ne' (Nat.lt_succ_self idx) hi
  rcases hcase with h | h
  · subst h; unfold slinPoly; ring
  · subst h; unfold slinPoly; field_simp; ring

theorem slinear_mono : KMono 2 1 (slinearK (K := K)) := by
  intro n g idx x e hn hg hi he
  rw [slinearK_eq]
  have hlt := slinStart_lt hn hi
  have hne : g (slinStart n idx + 1) - g (slinStart n idx) ≠ 0 :=
    hg.sub_ne' (Nat.lt_succ_self _) hlt
  match e, he with
  | 0, _ => unfold slinPoly; simp
  | 1, _ => unfold slinPoly; field_simp; ring

theorem slinear_rep : KRep 2 1 (slinearK (K := K)) :=
  KRep_of_linear slinear_add slinear_smul slinear_mono

/-! ### lagrange2 -/

/-- The quadratic through three points as `InterpLagrange2.interpolate` writes it. -/
def lag2Poly (x1 x2 x3 v1 v2 v3 x : K) : K :=
  (x - x3) * (v1 / ((x1 - x2) * (x1 - x3)) * (x - x2) - v2 / ((x1 - x2) * (x2 - x3)) * (x - x1)) +
    v3 / ((x1 - x3) * (x2 - x3)) * (x - x1) * (x - x2)

theorem lagrange2K_eq (n : Nat) (g v : Nat → K) (idx : Nat) (x : K) :
    lagrange2K n g v idx x = lag2Poly (g (lag2Start n idx)) (g (lag2Start n idx + 1))
      (g (lag2Start n idx + 2)) (v (lag2Start n idx)) (v (lag2Start n idx + 1))
      (v (lag2Start n idx + 2)) x := rfl

theorem lag2Start_lt {n : Nat} (idx : Nat) (hn : 3 ≤ n) : lag2Start n idx + 2 < n := by
  unfold lag2Start; split_ifs <;> omega

theorem lagrange2_add : KAdd (lagrange2K (K := K)) := by
  intro n g u w idx x; simp only [lagrange2K_eq, lag2Poly]; ring

theorem lagrange2_smul : KSmul (lagrange2K (K := K)) := by
  intro n g a u idx x; simp only [lagrange2K_eq, lag2Poly]; ring

theorem lag2Poly_node1 {x1 x2 x3 : K} (v1 v2 v3 : K) (h12 : x1 - x2 ≠ 0) (h13 : x1 - x3 ≠ 0)
    (h23 : x2 - x3 ≠ 0) : lag2Poly x1 x2 x3 v1 v2 v3 x1 = v1 := by
  unfold lag2Poly; field_simp; ring

theorem lag2Poly_node2 {x1 x2 x3 : K} (v1 v2 v3 : K) (h12 : x1 - x2 ≠ 0) (h13 : x1 - x3 ≠ 0)
    (h23 : x2 - x3 ≠ 0) : lag2Poly x1 x2 x3 v1 v2 v3 x2 = v2 := by
  unfold lag2Poly; field_simp; ring

theorem lag2Poly_node3 {x1 x2 x3 : K} (v1 v2 v3 : K) (h12 : x1 - x2 ≠ 0) (h13 : x1 - x3 ≠ 0)
    (h23 : x2 - x3 ≠ 0) : lag2Poly x1 x2 x3 v1 v2 v3 x3 = v3 := by
  unfold lag2Poly; field_simp; ring

theorem lag2Poly_mono {x1 x2 x3 : K} (x : K) (h12 : x1 - x2 ≠ 0) (h13 : x1 - x3 ≠ 0)
    (h23 : x2 - x3 ≠ 0) (e : Nat) (he : e ≤ 2) :
    lag2Poly x1 x2 x3 (x1 ^ e) (x2 ^ e) (x3 ^ e) x = x ^ e := by
  match e, he with
  | 0, _ => unfold lag2Poly; field_simp; ring
  | 1, _ => unfold lag2Poly; field_simp; ring
  | 2, _ => unfold lag2Poly; field_simp; ring

theorem lagrange2_node : KNode 3 (lagrange2K (K := K)) := by
  intro n g v idx i hn hg hi hcase
  rw [lagrange2K_eq]
  have hlt := lag2Start_lt idx hn
  have h12 := hg.sub_ne (i := lag2Start n idx) (j := lag2Start n idx + 1) (by omega) (by omega)
  have h13 := hg.sub_ne (i := lag2Start n idx) (j := lag2Start n idx + 2) (by omega) (by omega)
  have h23 := hg.sub_ne (i := lag2Start n idx + 1) (j := lag2Start n idx + 2) (by omega) (by omega)
  by_cases hc : n - 3 < idx
  · -- idx = n - 2: stencil n-3, n-2, n-1
    have hs : lag2Start n idx = n - 3 := by unfold lag2Start; simp [hc]
    have hidx : idx = n - 2 := by omega
    rcases hcase with h | h
    · have : i = lag2Start n idx + 1 := by omega
      rw [this]; exact lag2Poly_node2 _ _ _ h12 h13 h23
    · have : i = lag2Start n idx + 2 := by omega
      rw [this]; exact lag2Poly_node3 _ _ _ h12 h13 h23
  · have hs : lag2Start n idx = idx := by unfold lag2Start; simp [hc]
    rcases hcase with h | h
    · have : i = lag2Start n idx := by omega
      rw [this]; exact lag2Poly_node1 _ _ _ h12 h13 h23
    · have : i = lag2Start n idx + 1 := by omega
      rw [this]; exact lag2Poly_node2 _ _ _ h12 h13 h23

theorem lagrange2_mono : KMono 3 2 (lagrange2K (K := K)) := by
  intro n g idx x e hn hg hi he
  rw [lagrange2K_eq]
  have hlt := lag2Start_lt idx hn
  exact lag2Poly_mono x (hg.sub_ne (by omega) (by omega)) (hg.sub_ne (by omega) (by omega))
    (hg.sub_ne (by omega) (by omega)) e he

theorem lagrange2_rep : KRep 3 2 (lagrange2K (K := K)) :=
  KRep_of_linear lagrange2_add lagrange2_smul lagrange2_mono

/-! ### lagrange3 -/

/-- The cubic through four points as `InterpLagrange3.interpolate` writes it. -/
def lag3Poly (p1 p2 p3 p4 v1 v2 v3 v4 x : K) : K :=
  (x - p4) * ((x - p3) * (v1 * (1 / (p1 - p2) * (1 / (p1 - p3)) * (1 / (p1 - p4))) * (x - p2) -
      v2 * (1 / (p1 - p2) * (1 / (p2 - p3)) * (1 / (p2 - p4))) * (x - p1)) +
    v3 * (1 / (p1 - p3) * (1 / (p2 - p3)) * (1 / (p3 - p4))) * (x - p1) * (x - p2)) -
  v4 * (1 / (p1 - p4) * (1 / (p2 - p4)) * (1 / (p3 - p4))) * (x - p1) * (x - p2) * (x - p3)

theorem lagrange3K_eq (n : Nat) (g v : Nat → K) (idx : Nat) (x : K) :
    lagrange3K n g v idx x = lag3Poly (g (lag3Start n idx - 1)) (g (lag3Start n idx))
      (g (lag3Start n idx + 1)) (g (lag3Start n idx + 2)) (v (lag3Start n idx - 1))
      (v (lag3Start n idx)) (v (lag3Start n idx + 1)) (v (lag3Start n idx + 2)) x := rfl

theorem lag3Start_bounds {n : Nat} (idx : Nat) (hn : 4 ≤ n) :
    1 ≤ lag3Start n idx ∧ lag3Start n idx + 2 < n := by
  unfold lag3Start; split_ifs <;> omega

theorem lagrange3_add : KAdd (lagrange3K (K := K)) := by
  intro n g u w idx x; simp only [lagrange3K_eq, lag3Poly]; ring

theorem lagrange3_smul : KSmul (lagrange3K (K := K)) := by
  intro n g a u idx x; simp only [lagrange3K_eq, lag3Poly]; ring

section Lag3
variable {p1 p2 p3 p4 : K} (v1 v2 v3 v4 : K) (h12 : p1 - p2 ≠ 0) (h13 : p1 - p3 ≠ 0)
  (h14 : p1 - p4 ≠ 0) (h23 : p2 - p3 ≠ 0) (h24 : p2 - p4 ≠ 0) (h34 : p3 - p4 ≠ 0)
include h12 h13 h14 h23 h24 h34

theorem lag3Poly_node1 : lag3Poly p1 p2 p3 p4 v1 v2 v3 v4 p1 = v1 := by
  unfold lag3Poly; field_simp; ring

theorem lag3Poly_node2 : lag3Poly p1 p2 p3 p4 v1 v2 v3 v4 p2 = v2 := by
  unfold lag3Poly; field_simp; ring

theorem lag3Poly_node3 : lag3Poly p1 p2 p3 p4 v1 v2 v3 v4 p3 = v3 := by
  unfold lag3Poly; field_simp; ring

theorem lag3Poly_node4 : lag3Poly p1 p2 p3 p4 v1 v2 v3 v4 p4 = v4 := by
  unfold lag3Poly; field_simp; ring

theorem lag3Poly_mono (x : K) (e : Nat) (he : e ≤ 3) :
    lag3Poly p1 p2 p3 p4 (p1 ^ e) (p2 ^ e) (p3 ^ e) (p4 ^ e) x = x ^ e := by
  match e, he with
  | 0, _ => unfold lag3Poly; field_simp; ring
  | 1, _ => unfold lag3Poly; field_simp; ring
  | 2, _ => unfold lag3Poly; field_simp; ring
  | 3, _ => unfold lag3Poly; field_simp; ring

end Lag3

theorem lagrange3_node : KNode 4 (lagrange3K (K := K)) := by
  intro n g v idx i hn hg hi hcase
  rw [lagrange3K_eq]
  obtain ⟨hb1, hb2⟩ := lag3Start_bounds idx hn
  have e0 : lag3Start n idx = (lag3Start n idx - 1) + 1 := by omega
  have h12 := hg.sub_ne (i := lag3Start n idx - 1) (j := lag3Start n idx) (by omega) (by omega)
  have h13 := hg.sub_ne (i := lag3Start n idx - 1) (j := lag3Start n idx + 1) (by omega) (by omega)
  have h14 := hg.sub_ne (i := lag3Start n idx - 1) (j := lag3Start n idx + 2) (by omega) (by omega)
  have h23 := hg.sub_ne (i := lag3Start n idx) (j := lag3Start n idx + 1) (by omega) (by omega)
  have h24 := hg.sub_ne (i := lag3Start n idx) (j := lag3Start n idx + 2) (by omega) (by omega)
  have h34 := hg.sub_ne (i := lag3Start n idx + 1) (j := lag3Start n idx + 2) (by omega) (by omega)
  have hs : (n - 3 < idx ∧ lag3Start n idx = n - 3) ∨ (idx = 0 ∧ lag3Start n idx = 1) ∨
      (lag3Start n idx = idx) := by
    unfold lag3Start; split_ifs <;> omega
  have hpos : i = lag3Start n idx - 1 ∨ i = lag3Start n idx ∨ i = lag3Start n idx + 1 ∨
      i = lag3Start n idx + 2 := by omega
  rcases hpos with h | h | h | h
  · rw [h]; exact lag3Poly_node1 _ _ _ _ h12 h13 h14 h23 h24 h34
  · rw [h]; exact lag3Poly_node2 _ _ _ _ h12 h13 h14 h23 h24 h34
  · rw [h]; exact lag3Poly_node3 _ _ _ _ h12 h13 h14 h23 h24 h34
  · rw [h]; exact lag3Poly_node4 _ _ _ _ h12 h13 h14 h23 h24 h34

theorem lagrange3_mono : KMono 4 3 (lagrange3K (K := K)) := by
  intro n g idx x e hn hg hi he
  rw [lagrange3K_eq]
  obtain ⟨hb1, hb2⟩ := lag3Start_bounds idx hn
  exact lag3Poly_mono (hg.sub_ne (by omega) (by omega)) (hg.sub_ne (by omega) (by omega))
    (hg.sub_ne (by omega) (by omega)) (hg.sub_ne (by omega) (by omega))
    (hg.sub_ne (by omega) (by omega)) (hg.sub_ne (by omega) (by omega)) x e he

theorem lagrange3_rep : KRep 4 3 (lagrange3K (K := K)) :=
  KRep_of_linear lagrange3_add lagrange3_smul lagrange3_mono

end OMV.C15
