/-
C03 helper lemmas, part 3: `_order_by_ID` visits every column that occurs in the adjacency matrix
exactly once (the `-ncols` sentinel argument), for an arbitrary adjacency function.
-/
import OMV.Model.C03
import Mathlib.Data.List.Basic
import Mathlib.Data.List.Perm.Subperm
import Mathlib.Data.List.Nodup
import Mathlib.Data.List.Range

namespace OMV.C03

theorem getD_map_range (n : Nat) (f : Nat → Int) (j : Nat) (h : j < n) :
    ((List.range n).map f).getD j 0 = f j := by
  simp [List.getD_eq_getElem?_getD, h]

/-! ## argmax -/

/-- The fold of `argmaxFirst` over the first `k` indices. -/
def amFold (d : List Int) (k : Nat) : Nat :=
  (List.range k).foldl (fun b j => if d.getD b 0 < d.getD j 0 then j else b) 0

theorem amFold_succ (d : List Int) (k : Nat) :
    amFold d (k + 1) = if d.getD (amFold d k) 0 < d.getD k 0 then k else amFold d k := by
  simp [amFold, List.range_succ, List.foldl_append]

theorem amFold_spec (d : List Int) (k : Nat) :
    amFold d k < max k 1 ∧ ∀ j < k, d.getD j 0 ≤ d.getD (amFold d k) 0 := by
  induction k with
  | zero => simp [amFold]
  | succ k ih =>
    obtain ⟨h1, h2⟩ := ih
    rw [amFold_succ]
    split
    · rename_i hlt
      refine ⟨by omega, ?_⟩
      intro j hj
      rcases Nat.lt_succ_iff_lt_or_eq.mp hj with hj | rfl
      · have := h2 j hj; omega
      · omega
    · rename_i hnl
      refine ⟨by omega, ?_⟩
      intro j hj
      rcases Nat.lt_succ_iff_lt_or_eq.mp hj with hj | rfl
      · exact h2 j hj
      · omega

theorem argmaxFirst_spec (d : List Int) (hd : 0 < d.length) :
    argmaxFirst d < d.length ∧ ∀ j < d.length, d.getD j 0 ≤ d.getD (argmaxFirst d) 0 := by
  have := amFold_spec d d.length
  have e : argmaxFirst d = amFold d d.length := rfl
  rw [e]
  exact ⟨by omega, this.2⟩

/-! ## the incidence-degree loop -/

theorem mem_markedCols {adj : Nat → List Nat} {n j : Nat} :
    j ∈ markedCols adj n ↔ j < n ∧ isMarked adj n j = true := by
  simp [markedCols]

theorem markedCols_nodup (adj : Nat → List Nat) (n : Nat) : (markedCols adj n).Nodup :=
  List.nodup_range.filter _

theorem markedCols_length_le (adj : Nat → List Nat) (n : Nat) : (markedCols adj n).length ≤ n := by
  have := List.length_filter_le (isMarked adj n) (List.range n)
  simpa [markedCols] using this

/-- A column that is not marked is nobody's neighbour. -/
theorem not_nbr_of_not_marked {adj : Nat → List Nat} {n j c : Nat} (hc : c < n)
    (h : isMarked adj n j = false) : (adj c).contains j = false := by
  unfold isMarked at h
  rw [List.any_eq_false] at h
  have := h c (List.mem_range.mpr hc)
  simpa using this

/-- Invariant of the loop after the columns `vis` have been visited. -/
structure OInv (adj : Nat → List Nat) (n : Nat) (deg : List Int) (vis : List Nat) : Prop where
  len : deg.length = n
  nodup : vis.Nodup
  sub : ∀ v ∈ vis, v ∈ markedCols adj n
  unvis : ∀ j ∈ markedCols adj n, j ∉ vis → 1 ≤ deg.getD j 0
  unmarked : ∀ j, j < n → j ∉ markedCols adj n → deg.getD j 0 = 0
  visited : ∀ v ∈ vis, deg.getD v 0 + n < vis.length

theorem oinv_init (adj : Nat → List Nat) (n : Nat) : OInv adj n (initDeg adj n) [] where
  len := by simp [initDeg]
  nodup := List.nodup_nil
  sub := by simp
  unvis := by
    intro j hj _
    obtain ⟨hjn, hm⟩ := mem_markedCols.mp hj
    unfold initDeg
    rw [getD_map_range n _ j hjn, hm]
    simp
  unmarked := by
    intro j hjn hj
    have : isMarked adj n j = false := by
      cases h : isMarked adj n j
      · rfl
      · exact absurd (mem_markedCols.mpr ⟨hjn, h⟩) hj
    unfold initDeg
    rw [getD_map_range n _ j hjn, this]
    simp
  visited := by simp

theorem exists_unvisited {mk vis : List Nat} (hmk : mk.Nodup) (hlt : vis.length < mk.length) :
    ∃ j ∈ mk, j ∉ vis := by
  by_contra hcon
  have hsub : mk ⊆ vis := fun j hj => by
    by_contra hv
    exact hcon ⟨j, hj, hv⟩
  have := (List.subperm_of_subset hmk hsub).length_le
  omega

theorem oinv_step (adj : Nat → List Nat) (n : Nat) (deg : List Int) (vis : List Nat)
    (inv : OInv adj n deg vis) (hlt : vis.length < (markedCols adj n).length) :
    (idStep adj n deg).1 ∈ markedCols adj n ∧ (idStep adj n deg).1 ∉ vis ∧
      OInv adj n (idStep adj n deg).2 (vis ++ [(idStep adj n deg).1]) := by
  obtain ⟨j0, hj0, hj0v⟩ := exists_unvisited (markedCols_nodup adj n) hlt
  have hj0n : j0 < n := (mem_markedCols.mp hj0).1
  have hmle := markedCols_length_le adj n
  have hdl : 0 < deg.length := by rw [inv.len]; omega
  obtain ⟨hcl, hmax⟩ := argmaxFirst_spec deg hdl
  rw [inv.len] at hcl hmax
  set col := argmaxFirst deg with hcol
  have hge : 1 ≤ deg.getD col 0 := by
    have a := inv.unvis j0 hj0 hj0v
    have b := hmax j0 hj0n
    omega
  have hcv : col ∉ vis := by
    intro hv
    have := inv.visited col hv
    omega
  have hcm : col ∈ markedCols adj n := by
    by_contra hcm
    have := inv.unmarked col hcl hcm
    omega
  have hstep1 : (idStep adj n deg).1 = col := rfl
  have hget : ∀ j, j < n → (idStep adj n deg).2.getD j 0 =
      if j = col then -(n : Int) else deg.getD j 0 + (if (adj col).contains j then 1 else 0) := by
    intro j hj
    show ((List.range n).map _).getD j 0 = _
    rw [getD_map_range n _ j hj]
  rw [hstep1]
  refine ⟨hcm, hcv, ?_⟩
  constructor
  · show ((List.range n).map _).length = n
    simp
  · exact List.nodup_append.mpr ⟨inv.nodup, List.nodup_singleton _, by
      intro a ha b hb
      simp only [List.mem_singleton] at hb
      subst hb
      intro e; subst e; exact hcv ha⟩
  · intro v hv
    rcases List.mem_append.mp hv with hv | hv
    · exact inv.sub v hv
    · simp only [List.mem_singleton] at hv; subst hv; exact hcm
  · intro j hj hjv
    have hjn := (mem_markedCols.mp hj).1
    have hjc : j ≠ col := fun e => hjv (by simp [e])
    have hjv' : j ∉ vis := fun h => hjv (List.mem_append_left _ h)
    rw [hget j hjn, if_neg hjc]
    have := inv.unvis j hj hjv'
    split <;> omega
  · intro j hjn hj
    have hjc : j ≠ col := fun e => hj (e ▸ hcm)
    have hm : isMarked adj n j = false := by
      cases h : isMarked adj n j
      · rfl
      · exact absurd (mem_markedCols.mpr ⟨hjn, h⟩) hj
    rw [hget j hjn, if_neg hjc, not_nbr_of_not_marked hcl hm, inv.unmarked j hjn hj]
    simp
  · intro v hv
    simp only [List.length_append, List.length_singleton]
    rcases List.mem_append.mp hv with hv | hv
    · have hvn := (mem_markedCols.mp (inv.sub v hv)).1
      have hvc : v ≠ col := fun e => hcv (e ▸ hv)
      rw [hget v hvn, if_neg hvc]
      have := inv.visited v hv
      split <;> omega
    · simp only [List.mem_singleton] at hv
      subst hv
      rw [hget _ hcl, if_pos rfl]
      omega

theorem orderLoop_spec (adj : Nat → List Nat) (n : Nat) (k : Nat) (deg : List Int) (vis : List Nat)
    (inv : OInv adj n deg vis) (hk : vis.length + k ≤ (markedCols adj n).length) :
    (vis ++ orderLoop adj n k deg).Nodup ∧
    (∀ v ∈ vis ++ orderLoop adj n k deg, v ∈ markedCols adj n) ∧
    (orderLoop adj n k deg).length = k := by
  induction k generalizing deg vis with
  | zero => simp [orderLoop, inv.nodup]; exact inv.sub
  | succ k ih =>
    obtain ⟨_, _, inv'⟩ := oinv_step adj n deg vis inv (by omega)
    have := ih (idStep adj n deg).2 (vis ++ [(idStep adj n deg).1]) inv'
      (by simp only [List.length_append, List.length_singleton]; omega)
    simp only [orderLoop, List.length_cons]
    simp only [List.append_assoc, List.singleton_append] at this
    exact ⟨this.1, this.2.1, by omega⟩

/-- The visiting order is a permutation of the columns occurring in the adjacency matrix. -/
theorem orderByID_perm (adj : Nat → List Nat) (n : Nat) :
    (orderByID adj n).Perm (markedCols adj n) := by
  obtain ⟨h1, h2, h3⟩ := orderLoop_spec adj n (markedCols adj n).length (initDeg adj n) []
    (oinv_init adj n) (by simp)
  simp only [List.nil_append] at h1 h2
  exact (List.subperm_of_subset h1 (fun v hv => h2 v hv)).perm_of_length_le (by
    show (markedCols adj n).length ≤ (orderByID adj n).length
    unfold orderByID; omega)

end OMV.C03
