/-
C14 — ExecComp evaluates its expressions and their exact partials.
Property theorems only (plus non-vacuity examples and kernel-checked counterexamples).

Reading guide.  `evalAt A` is NumPy evaluation of the expression over a carrier `A`; over
`dualAlg A D` it is what `_exec` does on the complex arrays, to first order in the step.
`tangentAt` is the derivative by the differentiation rules, `jacSpec` the exact partial
`∂ out_u[r] / ∂ in_v[j]`.  `partialEntry` is `compute_partials` (uncolored / has_diag_partials),
`coloredEntry` is `_compute_colored_partials`, `Comp.declared`/`Comp.decl` is `_setup_partials`.
-/
import OMV.Proofs.C14Comp
import OMV.Generated.C14ExecFuncs

set_option linter.unusedSimpArgs false
set_option linter.unusedSectionVars false
set_option linter.unusedVariables false

namespace OMV.C14

/-! ## 1. Complex step = exact derivative, for every expression -/

/-- Forward-mode AD is correct: evaluating any expression on `x + ε·d` (dual numbers, i.e. the
complex step to first order) returns the plain value as real part and the derivative given by
the sum/product/quotient/power/chain rules as dual part.  Structural induction over `Expr`;
holds for every carrier and every table of primitives `(f, f')`. -/
theorem C14_ad_correct {K : Type} (A : Alg K) (D : Deriv K) (sh : Nat → Shape)
    (x d : Nat → Nat → K) (e : Expr) (i : Nat) :
    evalAt (dualAlg A D) sh (pairUp x d) e i
      = ⟨evalAt A sh x e i, tangentAt A D sh x d e i⟩ :=
  evalAt_dual A D sh x d e i

/-- `compute`: the outputs (real parts of the complex execution) are the expression evaluated on
the inputs; `imag(out)/h` after a perturbation `d` is the tangent along `d`. -/
theorem C14_value_real {K : Type} (A : Alg K) (D : Deriv K) (c : Comp) (x d : Nat → Nat → K)
    (u r : Nat) :
    valOut A D c x u r = evalAt A c.sh x (c.outExpr u) (bidx (shapeOf c.sh (c.outExpr u)) r) ∧
    duOut A D c x d u r
      = tangentAt A D c.sh x d (c.outExpr u) (bidx (shapeOf c.sh (c.outExpr u)) r) :=
  ⟨valOut_eq_eval A D c x u r, duOut_eq_tangent A D c x d u r⟩

section field
variable {K : Type} [Field K] (p : String → K → K) (p2 : String → K → K → K) (D : Deriv K)

/-- The Jacobian assembled from unit perturbations *is* the derivative: for every direction `d`
(supported on the entries of the inputs) the first-order response of output entry `(u, r)` is
`Σ_v Σ_j J[u,v][r,j] · d_v[j]`, i.e. `f(x + ε d) = f(x) + ε · J(x) d`. -/
theorem C14_jac_mulvec (c : Comp) (x d : Nat → Nat → K) (u r : Nat)
    (hd : ∀ v j, ¬ (v < c.ins.length ∧ j < (c.sh v).size) → d v j = 0) :
    duOut (fieldAlg p p2) D c x d u r
      = ∑ v ∈ Finset.range c.ins.length, ∑ j ∈ Finset.range (c.sh v).size,
          d v j * jacSpec (fieldAlg p p2) D c x u v r j := by
  rw [duOut_eq_tangent]
  have h := lin_decomp
    (fun d => tangentAt (fieldAlg p p2) D c.sh x d (c.outExpr u)
      (bidx (shapeOf c.sh (c.outExpr u)) r))
    (fun d d' => tangentAt_add p p2 D c.sh x d d' _ _)
    (fun a d => tangentAt_smul p p2 D c.sh x d a _ _)
    c.ins.length (fun v => (c.sh v).size) d hd
  simp only [jacSpec, seedOne_eq_unitDir]
  exact h

end field

/-! ## 2. `compute_partials` without coloring -/

/-- Without `has_diag_partials` every declared sub-Jacobian holds the exact partials: array inputs
are perturbed entry by entry, one-element inputs in one go (`psize == 1`). Any carrier. -/
theorem C14_uncolored_exact {K : Type} (A : Alg K) (D : Deriv K) (fix : Bool) (c : Comp)
    (x : Nat → Nat → K) (u v r j : Nat) (hdecl : c.declared u v = true)
    (hr : r < (c.outShape u).size) (hj : j < (c.sh v).size) :
    partialEntry A D fix false c x u v r j = some (jacSpec A D c x u v r j) := by
  have hd : c.decl false u v = .dense := by simp [Comp.decl, hdecl]
  simp only [partialEntry, hd, Bool.false_or]
  by_cases h1 : (c.sh v).size = 1
  · have hj0 : j = 0 := by omega
    subst hj0
    have hseed : seedAll A v 1 = seedOne A v 0 := by
      funext w i; simp [seedAll, seedOne]
    simp [h1, setDense, duOut_eq_tangent, jacSpec, hseed]
  · have : ((c.sh v).size == 1) = false := by simpa using h1
    simp [this, duOut_eq_tangent, jacSpec]

section field2
variable {K : Type} [Field K] (p : String → K → K) (p2 : String → K → K → K) (D : Deriv K)

/-- `has_diag_partials`: for an elementwise expression the sub-Jacobian of an array output with
respect to an array input of the same size is diagonal, and the single perturbation of all
entries returns exactly its diagonal. -/
theorem C14_diag_sound (fix : Bool) (c : Comp) (x : Nat → Nat → K) (u v r j : Nat)
    (hdecl : c.decl true u v = .diag) (hel : (c.outExpr u).elementwise = true)
    (hr : r < (c.sh v).size) :
    partialEntry (fieldAlg p p2) D fix true c x u v r j
      = some (jacSpec (fieldAlg p p2) D c x u v r j) := by
  -- the input is a genuine array (size > 1), hence not broadcast
  have hsz : (c.sh v).size > 1 := by
    by_contra hcon
    have hne : c.decl true u v ≠ .diag := by
      unfold Comp.decl
      by_cases h0 : c.declared u v = true
      · have h1 : decide ((c.sh v).size > 1) = false := by simpa using hcon
        simp [h0, h1]
      · simp [h0]
    exact hne hdecl
  have hnb : (c.sh v).broad = false := by
    cases hs : c.sh v with
    | sc => rw [hs] at hsz; simp [Shape.size] at hsz
    | arr n =>
      rw [hs] at hsz
      simp only [Shape.size] at hsz
      simp only [Shape.broad]
      have : n ≠ 1 := by omega
      simpa using this
  have hb : ∀ i, bidx (c.sh v) i = i := by intro i; simp [bidx, hnb]
  simp only [partialEntry, hdecl, duOut_eq_tangent, jacSpec]
  congr 1
  by_cases hrj : r = j
  · subst hrj
    simp only [if_true]
    refine tangentAt_local _ _ _ _ _ _ _ ?_ _ hel
    intro w
    by_cases hw : w = v
    · subst hw; simp [seedAll, seedOne, hb, hr]
    · simp [seedAll, seedOne, hw]
  · simp only [hrj, if_false, fieldAlg_lit0]
    symm
    have h0 := tangentAt_local (fieldAlg p p2) D c.sh x (seedOne (fieldAlg p p2) v j)
      (fun _ _ => 0) r (by
        intro w
        by_cases hw : w = v
        · subst hw; simp [seedOne, hb, hrj]
        · simp [seedOne, hw]) (c.outExpr u) hel
    rw [h0]
    exact tangentAt_indep p p2 D c.sh x (fun _ _ => 0) _ (fun _ _ _ => rfl) _

/-- Every structurally dependent `(of, wrt)` pair is declared: an undeclared pair has zero exact
partials (the input does not occur in the expression), so taking it as zero is right. -/
theorem C14_decl_covers (c : Comp) (x : Nat → Nat → K) (u v r j : Nat)
    (hu : u < c.outs.length) (hv : v < c.ins.length) (hdecl : c.declared u v = false) :
    jacSpec (fieldAlg p p2) D c x u v r j = 0 := by
  have hnot : v ∉ (c.outExpr u).vars := by
    intro hm
    have : c.declared u v = true := by
      simp [Comp.declared, hu, hv, List.contains_iff_mem, hm]
    rw [this] at hdecl; exact Bool.noConfusion hdecl
  simp only [jacSpec]
  apply tangentAt_indep
  intro w hw i
  have : w ≠ v := fun h => hnot (h ▸ hw)
  simp [seedOne, this]

end field2

/-- With the proposed repair (`perEntryDense = true`) every dense sub-Jacobian is exact also
under `has_diag_partials`. Any carrier, any expression. -/
theorem C14_hd_dense_exact_repaired {K : Type} (A : Alg K) (D : Deriv K) (hd : Bool) (c : Comp)
    (x : Nat → Nat → K) (u v r j : Nat) (hdecl : c.decl hd u v = .dense)
    (hr : r < (c.outShape u).size) (hj : j < (c.sh v).size) :
    partialEntry A D true hd c x u v r j = some (jacSpec A D c x u v r j) := by
  simp only [partialEntry, hdecl, Bool.true_and]
  by_cases h1 : (c.sh v).size = 1
  · have hj0 : j = 0 := by omega
    subst hj0
    have hseed : seedAll A v 1 = seedOne A v 0 := by
      funext w i; simp [seedAll, seedOne]
    simp [h1, setDense, duOut_eq_tangent, jacSpec, hseed]
  · have h2 : ((c.sh v).size == 1) = false := by simpa using h1
    have h3 : (c.sh v).size > 1 := by omega
    simp [h2, h3, duOut_eq_tangent, jacSpec]

/-- The current code under `has_diag_partials` is exact for dense sub-Jacobians with respect to
one-element inputs (the extra hypothesis `psize = 1`). -/
theorem C14_hd_dense_partial {K : Type} (A : Alg K) (D : Deriv K) (c : Comp)
    (x : Nat → Nat → K) (u v r j : Nat) (hdecl : c.decl true u v = .dense)
    (hp : (c.sh v).size = 1) (hr : r < (c.outShape u).size) (hj : j < (c.sh v).size) :
    partialEntry A D false true c x u v r j = some (jacSpec A D c x u v r j) := by
  have hj0 : j = 0 := by omega
  subst hj0
  have hseed : seedAll A v 1 = seedOne A v 0 := by
    funext w i; simp [seedAll, seedOne]
  simp [partialEntry, hdecl, hp, setDense, duOut_eq_tangent, jacSpec, hseed]

/-! ### Counterexamples (kernel-checked on the exact `Rat` instance the driver runs) -/

/-- `y = sum(x)` with `x` of size 3, `y` of size 1. -/
def exSum : Comp := { ins := [.arr 3], outs := [(.arr 1, .sum (.var 0))] }
/-- `y = x * sum(x)`: not elementwise. -/
def exNonElem : Comp := { ins := [.arr 3], outs := [(.arr 3, .mul (.var 0) (.sum (.var 0)))] }
def x123 : Nat → Nat → Rat := fun _ i => (i : Rat) + 1

/-- The full statement "dense sub-Jacobians are exact under has_diag_partials" is false of the
current code: for `y = sum(x)` the all-at-once perturbation yields the *sum* of the partials and
`DenseSubjac.set_val` broadcasts that scalar over the 1×3 sub-Jacobian: `[3, 3, 3]` instead of
`[1, 1, 1]`. (The repaired code returns `[1, 1, 1]`.) -/
theorem C14_hd_dense_wrong :
    exSum.decl true 0 0 = .dense ∧
    partialEntry ratAlg ratDeriv false true exSum x123 0 0 0 1 = some 3 ∧
    jacSpec ratAlg ratDeriv exSum x123 0 0 0 1 = 1 ∧
    partialEntry ratAlg ratDeriv true true exSum x123 0 0 0 1 = some 1 := by
  decide +kernel

/-- The hypothesis `elementwise` of `C14_diag_sound` is needed: for `y = x*sum(x)` the diagonal
declaration keeps `3·x_i + Σx` (the directional derivative along all ones) where the exact
diagonal entry is `x_i + Σx` and the exact Jacobian is not diagonal at all. -/
theorem C14_diag_needs_elementwise :
    exNonElem.decl true 0 0 = .diag ∧
    partialEntry ratAlg ratDeriv false true exNonElem x123 0 0 0 0 = some 9 ∧
    jacSpec ratAlg ratDeriv exNonElem x123 0 0 0 0 = 7 ∧
    jacSpec ratAlg ratDeriv exNonElem x123 0 0 0 1 = 1 := by
  decide +kernel

/-! ## 3. Colored partials -/

section colored
variable {K : Type} [Field K] (p : String → K → K) (p2 : String → K → K → K) (D : Deriv K)

/-- `_compute_colored_partials` returns the uncolored (exact) Jacobian when the coloring lists
every column at most once, the row lists of the columns of a group are pairwise disjoint
(structurally disjoint columns), the listed rows of a column cover the nonzeros of that column
at the current point, and listed rows lie in declared pairs.  The proof carries the invariant
that the scratch vector is identically zero before every column (so nothing leaks from one
column, or one group, into the next). -/
theorem C14_colored_eq (c : Comp) (x : Nat → Nat → K) (G : List (List (Nat × List Nat)))
    (hnd : (G.flatten.map (·.1)).Nodup)
    (hcov : ∀ grp ∈ G, ∀ cr ∈ grp, ∀ row,
      imagRow (fieldAlg p p2) D c x [cr.1] row ≠ 0 → row ∈ cr.2)
    (hdisj : ∀ grp ∈ G, ∀ a ∈ grp, ∀ b ∈ grp, a.1 ≠ b.1 → ∀ row, row ∈ a.2 → row ∉ b.2)
    (hdecl : ∀ grp ∈ G, ∀ cr ∈ grp, ∀ row ∈ cr.2, c.declRow row cr.1 = true)
    (u v r j : Nat) (huv : c.declared u v = true)
    (hr : r < (c.outShape u).size) (hj : j < (c.sh v).size)
    (hcol : (inOffset c v + j) ∈ G.flatten.map (·.1)) :
    coloredEntry (fieldAlg p p2) D c x G u v r j
      = some (jacSpec (fieldAlg p p2) D c x u v r j) := by
  have hu : u < c.outs.length := by
    simp only [Comp.declared, Bool.and_eq_true, decide_eq_true_eq] at huv; exact huv.1.1
  have hv : v < c.ins.length := by
    simp only [Comp.declared, Bool.and_eq_true, decide_eq_true_eq] at huv; exact huv.1.2
  obtain ⟨cr, hcr, hcr1⟩ := List.mem_map.mp hcol
  obtain ⟨grp, hgrp, hcrg⟩ := List.mem_flatten.mp hcr
  have hspec := (coloredJac_spec p p2 c.declRow (imagRow (fieldAlg p p2) D c x)
    (fun row col => imagRow (fieldAlg p p2) D c x [col] row) G (fun _ _ => (fieldAlg p p2).lit 0)
    (fun g hg row => by
      rw [imagRow_sum p p2 D c x _ (nodup_of_mem_flatten G g hg hnd) row, List.map_map])
    hnd hcov hdisj hdecl).1 grp hgrp cr hcrg (outOffset c u + r)
  have hdr : c.declRow (outOffset c u + r) cr.1 = true := by
    rw [hcr1]
    simp only [Comp.declRow, rowVar_offset c u r hu hr, colVar_offset c v j hv hj, huv]
  have h1 := hspec hdr
  simp only [coloredEntry, huv, if_true]
  rw [← hcr1, h1, hcr1]
  simp only [imagRow, rowVar_offset c u r hu hr, seedCols_single (fieldAlg p p2) c v j hv hj,
    duOut_eq_tangent, jacSpec]

/-- The same with the hypotheses discharged by the executable validator `coloringOk` that the
driver runs on every coloring taken from the implementation. -/
theorem C14_colored_eq_checked [DecidableEq K] (c : Comp) (x : Nat → Nat → K)
    (G : List (List (Nat × List Nat)))
    (hok : coloringOk (fieldAlg p p2) D (fun q => decide (q = 0)) c x G = true)
    (u v r j : Nat) (huv : c.declared u v = true)
    (hr : r < (c.outShape u).size) (hj : j < (c.sh v).size)
    (hcol : (inOffset c v + j) ∈ G.flatten.map (·.1)) :
    coloredEntry (fieldAlg p p2) D c x G u v r j
      = some (jacSpec (fieldAlg p p2) D c x u v r j) := by
  obtain ⟨h1, h2, h3, h4⟩ := coloringOk_sound p p2 D c x G hok
  exact C14_colored_eq p p2 D c x G h1 h2 h3 h4 u v r j huv hr hj hcol

end colored

/-- `y = maximum(a, b)` with `a`, `b`, `y` of size 2. -/
def exMax : Comp :=
  { ins := [.arr 2, .arr 2], outs := [(.arr 2, .prim2 "maximum" (.var 0) (.var 1))] }
/-- The coloring found at a point where `a > b` (the columns of `b` have no nonzero rows). -/
def exMaxColoring : List (List (Nat × List Nat)) := [[(0, [0]), (1, [1]), (2, []), (3, [])]]
def xAbove : Nat → Nat → Rat := fun v i => if v = 0 then 5 + i else 1 + i
def xBelow : Nat → Nat → Rat := fun v i => if v = 0 then 1 + i else 5 + i

/-- The coverage hypothesis of `C14_colored_eq` is needed and is *not* guaranteed by the code: a
coloring is computed once (near the first point) and reused; at a later point where `b > a` the
exact `∂y/∂b` is the identity but the colored loop stores zeros, because the rows of `b`'s
columns are not in the coloring. At the first point the same coloring is valid and exact. -/
theorem C14_colored_needs_coverage :
    coloringOk ratAlg ratDeriv (fun q => q == 0) exMax xAbove exMaxColoring = true ∧
    coloredEntry ratAlg ratDeriv exMax xAbove exMaxColoring 0 0 0 0 = some 1 ∧
    jacSpec ratAlg ratDeriv exMax xAbove 0 0 0 0 = 1 ∧
    coloringOk ratAlg ratDeriv (fun q => q == 0) exMax xBelow exMaxColoring = false ∧
    coloredEntry ratAlg ratDeriv exMax xBelow exMaxColoring 0 1 0 0 = some 0 ∧
    jacSpec ratAlg ratDeriv exMax xBelow 0 1 0 0 = 1 := by
  decide +kernel

/-! ## 4. The function table -/

/-- Every entry of the live `_expr_dict` is modelled (a primitive with a derivative rule, a
reduction, or a constant) or is on the explicit exclusion list. -/
theorem C14_funcs_covered :
    ∀ f ∈ Generated.execFuncs, f.1 ∈ modelledNames ∨ f.1 ∈ excludedNames := by
  decide

/-- Every modelled function is flagged complex-safe in the live table (so the complex-step path
that the model describes is the one taken), and is callable unless it is a constant. -/
theorem C14_funcs_complex_safe :
    ∀ f ∈ Generated.execFuncs, f.1 ∈ modelledNames →
      f.2.2 = true ∧ (f.2.1 = true ∨ f.1 ∈ constantNames) := by
  decide

/-- Conversely, every name the model and the exclusion list mention exists in the live table. -/
theorem C14_model_names_live :
    ∀ n ∈ modelledNames ++ excludedNames, n ∈ Generated.execFuncs.map (·.1) := by
  decide

/-! ## Non-vacuity: concrete instances meeting the hypotheses -/

/-- `y = a * sin(x)`-like rational stand-in `y = a * x**2 / (1 + x)` with array `x`, scalar `a`. -/
def exElem : Comp :=
  { ins := [.arr 3, .arr 1],
    outs := [(.arr 3, .div (.mul (.var 1) (.powi (.var 0) 2)) (.add (.lit 1) (.var 0)))] }

example : exElem.decl true 0 0 = .diag ∧ (exElem.outExpr 0).elementwise = true ∧
    exElem.decl true 0 1 = .dense ∧ (exElem.sh 1).size = 1 ∧ exElem.declared 0 0 = true ∧
    partialEntry ratAlg ratDeriv false true exElem (fun v i => if v = 0 then i + 1 else 2) 0 0 1 1
      = some (16 / 9) ∧
    jacSpec ratAlg ratDeriv exElem (fun v i => if v = 0 then i + 1 else 2) 0 0 1 1 = 16 / 9 := by
  decide +kernel

-- C14_colored_eq_checked applies to a concrete instance: the coloring of `exMax` passes the
-- validator at `xAbove`, hence every declared entry of every listed column is exact there.
example (u v r j : Nat) (huv : exMax.declared u v = true) (hr : r < (exMax.outShape u).size)
    (hj : j < (exMax.sh v).size) (hcol : (inOffset exMax v + j) ∈ exMaxColoring.flatten.map (·.1)) :
    coloredEntry ratAlg ratDeriv exMax xAbove exMaxColoring u v r j
      = some (jacSpec ratAlg ratDeriv exMax xAbove u v r j) := by
  have hok : coloringOk ratAlg ratDeriv (fun q => decide (q = 0)) exMax xAbove exMaxColoring
      = true := by decide +kernel
  rw [← fieldAlg_rat] at hok ⊢
  exact C14_colored_eq_checked ratPrim ratPrim2 ratDeriv exMax xAbove exMaxColoring hok u v r j
    huv hr hj hcol

-- C14_decl_covers: an undeclared pair exists in a two-expression component.
example : ({ ins := [.arr 2, .arr 2], outs := [(.arr 2, .var 0), (.arr 2, .var 1)] } : Comp).declared
    0 1 = false := by decide

end OMV.C14
