/-
C04 — Connected inputs hold their source value with indices and units applied.
Property theorems (proofs of the lemmas are in OMV/Proofs/SpecList.lean, SpecSweep.lean,
SpecExpr.lean).
-/
import OMV.Model.Spec
import OMV.Proofs.SpecList
import OMV.Proofs.SpecSweep
import OMV.Proofs.SpecExpr
import OMV.Model.C04Idx
import OMV.Props.C05

namespace OMV.Spec

/-- Indexing commutes with relabelling: applying every level of `src_indices` to `arange(n)` and
gathering once through the result (what the transfer does) equals indexing the source value level
after level (what the user wrote), for every chain whose indices are in range at their level. -/
theorem C04_chain_naturality {K : Type} [OfNat K 0] (levels : List (List Nat)) (v : List K)
    (h : ChainOk v.length levels) :
    gather (chainPos v.length levels) v = chainVal levels v := by
  unfold chainVal chainPos
  have := chain_fold levels (List.range v.length) v (by simpa using h)
  rw [gather_range] at this
  exact this.symm

/-- The in-range hypothesis is needed (and is what `_check_bounds` enforces): an out-of-range
inner index would read element 0 instead of nothing. -/
theorem C04_chain_needs_bounds :
    gather (chainPos 2 [[1], [3]]) [(10 : Int), 20] ≠ chainVal [[1], [3]] [(10 : Int), 20] := by
  decide

example : ChainOk 4 [[3, 1, 1], [2, 0]] ∧
    gather (chainPos 4 [[3, 1, 1], [2, 0]]) [(5 : Int), 6, 7, 8] = [6, 8] := by
  refine ⟨?_, by decide⟩
  simp [ChainOk]

/-- Solver scaling and unit conversion combine consistently: un-scaling a transferred (scaled)
value with the input's scale factors `(g(a0), g(a1) - g(0))` gives the unit conversion `g` of the
source's physical value, for every ref/ref0 (`a0 = ref0`, `a1 = ref - ref0`) of either sign. -/
theorem C04_scaled_transfer {K : Type} [CommRing K] (fac off a0 a1 xh : K) :
    unscale (inScale0 fac off a0) (inScale1 fac off a1) xh = convert fac off (unscale a0 a1 xh) := by
  unfold unscale inScale0 inScale1 convert; ring

/-- Right before a component is evaluated, and still after the whole pass, its inputs are the
gather + unit conversion of the outputs: later evaluations do not disturb them when the execution
order respects data flow. -/
theorem C04_after_sweep {K : Type} [Add K] [Mul K] [OfNat K 0] (pre post : List (Comp K))
    (c : Comp K) (u : Nat → K) (h : TopoOK (c :: post)) :
    inputsOf (sweep u (pre ++ c :: post)) c = inputsOf (sweep u pre) c := by
  obtain ⟨h0, h1, _⟩ := h
  have e : sweep u (pre ++ c :: post) = sweep (stepComp (sweep u pre) c) post := by
    simp [sweep, List.foldl_append]
  rw [e, inputs_sweep_preserved post _ c h1, inputs_after_own_step _ c h0]

/-- every input element is the unit conversion of the gathered source element (definition of the
transfer made explicit) -/
theorem C04_input_value {K : Type} [Add K] [Mul K] (u : Nat → K) (c : Comp K) (k : Nat)
    (hk : k < c.ins.length) :
    (inputsOf u c)[k]'(by simpa [inputsOf] using hk) = convert c.ins[k].fac c.ins[k].off (u c.ins[k].src) := by
  simp [inputsOf]

/-- A residual written over input variables and evaluated on transferred values equals the
residual with the transfer expressions substituted: the composed model is the model. -/
theorem C04_transfer_subst {K : Type} [CommRing K] (env : Nat → K) (σ : Nat → Expr K) (e : Expr K) :
    Expr.eval env (Expr.subst σ e) = Expr.eval (fun v => Expr.eval env (σ v)) e :=
  eval_subst env σ e

/-! ### from index specifications to positions (ties C05's indexer model into C04) -/

open OMV.C05 OMV.C04Idx in
/-- the indexer of one level returns NumPy's positions and shape -/
def LevelRefines (shape : List Nat) (spec : C05.Spec) (flat : Bool) : Prop :=
  ∀ out, omIndexer spec shape flat = .ok out →
    out.positions = (npIndex (levelShape shape flat) spec).map (fun r => natsToInts r.1) ∧
    out.rshape = (npIndex (levelShape shape flat) spec).map (·.2)

open OMV.C05 OMV.C04Idx in
/-- every level of a chain refines NumPy on the shape the previous levels leave -/
def ChainRefines : List Nat → List (C05.Spec × Bool) → Prop
  | _, [] => True
  | shape, (sp, fl) :: rest =>
    LevelRefines shape sp fl ∧ ∀ r, levelNp shape sp fl = .ok r → ChainRefines r.2 rest

open OMV.C05 OMV.C04Idx in
theorem levelOm_eq_np (shape : List Nat) (spec : C05.Spec) (flat : Bool)
    (h : LevelRefines shape spec flat) (r : List Nat × List Nat)
    (hr : levelOm shape spec flat = .ok r) : levelNp shape spec flat = .ok r := by
  unfold levelOm at hr
  cases ho : omIndexer spec shape flat with
  | error e => simp [ho, bind, Except.bind] at hr
  | ok o =>
    obtain ⟨h1, h2⟩ := h o ho
    simp only [ho, bind, Except.bind] at hr
    cases hp : o.positions with
    | error e => simp [hp] at hr
    | ok p =>
      cases hs : o.rshape with
      | error e => simp [hp, hs] at hr
      | ok sh =>
        simp only [hp, hs, pure, Except.pure, Except.ok.injEq] at hr
        unfold levelNp
        cases hn : npIndex (levelShape shape flat) spec with
        | error e => rw [hn, hp] at h1; simp [Except.map] at h1
        | ok ab =>
          rw [hn, hp] at h1; rw [hn, hs] at h2
          simp only [Except.map, Except.ok.injEq] at h1 h2
          subst hr
          have : (natsToInts ab.1).map Int.toNat = ab.1 := by
            simp [natsToInts, List.map_map, Function.comp_def]
          rw [h1, this, h2]

open OMV.C05 OMV.C04Idx in
/-- **The positions OpenMDAO computes for a chain of index specifications are NumPy's.**  If every
level's indexer refines NumPy (C05), the per-level positions `core/conn_graph.py` composes are the
ones NumPy indexing gives level after level on the shapes it leaves. -/
theorem C04_chain_specs_numpy (levels : List (C05.Spec × Bool)) :
    ∀ (shape : List Nat) (ps : List (List Nat)), ChainRefines shape levels →
      chainSpecsOm shape levels = .ok ps → chainSpecsNp shape levels = .ok ps := by
  induction levels with
  | nil => intro shape ps _ h; simpa [chainSpecsOm, chainSpecsNp, chainWith] using h
  | cons l rest ih =>
    obtain ⟨sp, fl⟩ := l
    intro shape ps hc h
    obtain ⟨h1, h2⟩ := hc
    simp only [chainSpecsOm, chainSpecsNp, chainWith, bind, Except.bind] at h ⊢
    cases hl : levelOm shape sp fl with
    | error e => simp [hl] at h
    | ok r =>
      have hn := levelOm_eq_np shape sp fl h1 r hl
      simp only [hl] at h
      simp only [hn]
      cases hr : chainWith levelOm r.2 rest with
      | error e => simp [hr] at h
      | ok qs =>
        simp only [hr, pure, Except.pure, Except.ok.injEq] at h
        have := ih r.2 qs (h2 r hn) (by simpa [chainSpecsOm] using hr)
        simp only [chainSpecsNp] at this
        simp [this, pure, Except.pure, h]

open OMV.C05 OMV.C04Idx in
/-- levels written as tuples without an ellipsis and without zero steps (the form the generator
calls "safe"; what C05 proves to refine NumPy for every shape) -/
def TupLevels (levels : List (C05.Spec × Bool)) : Prop :=
  ∀ l ∈ levels, ∃ xs, l.1 = .tup xs ∧ xs.any isEll = false ∧ ∀ x ∈ xs, stepOk x

open OMV.C05 OMV.C04Idx in
theorem C04_tuple_levels_refine (levels : List (C05.Spec × Bool)) (h : TupLevels levels) :
    ∀ shape, ChainRefines shape levels := by
  induction levels with
  | nil => intro _; trivial
  | cons l rest ih =>
    obtain ⟨sp, fl⟩ := l
    intro shape
    obtain ⟨xs, hx, hne, hst⟩ := h (sp, fl) (by simp)
    simp only at hx
    subst hx
    refine ⟨?_, fun r _ => ih (fun l hl => h l (List.mem_cons_of_mem _ hl)) r.2⟩
    intro out ho
    simpa [levelShape] using C05_tuple_refines_numpy xs shape fl out hne hst ho

open OMV.C05 OMV.C04Idx in
/-- End to end for tuple-form chains: the positions the indexer computes are NumPy's, and gathering
the source once through their composition equals indexing the value level after level. -/
theorem C04_connected_value_numpy {K : Type} [OfNat K 0] (shape : List Nat)
    (levels : List (C05.Spec × Bool)) (ps : List (List Nat)) (v : List K)
    (ht : TupLevels levels) (hom : chainSpecsOm shape levels = .ok ps)
    (hok : ChainOk v.length ps) :
    chainSpecsNp shape levels = .ok ps ∧
      gather (chainPos v.length ps) v = chainVal ps v :=
  ⟨C04_chain_specs_numpy levels shape ps (C04_tuple_levels_refine levels ht shape) hom,
   C04_chain_naturality ps v hok⟩

open OMV.C05 OMV.C04Idx in
example : chainSpecsOm [3, 4] [(.tup [.slice (some 1) none none, .arr [2] [0, 3]], false),
                               (.tup [.slice none none (some (-1))], true)]
    = .ok [[4, 7, 8, 11], [3, 2, 1, 0]] ∧
    TupLevels [(.tup [.slice (some 1) none none, .arr [2] [0, 3]], false),
               (.tup [.slice none none (some (-1))], true)] := by
  refine ⟨by decide +kernel, ?_⟩
  intro l hl
  simp only [List.mem_cons, List.not_mem_nil, or_false] at hl
  rcases hl with rfl | rfl
  · exact ⟨_, rfl, by decide, by intro x hx; simp at hx; rcases hx with rfl | rfl <;> simp [stepOk]⟩
  · exact ⟨_, rfl, by decide, by intro x hx; simp at hx; subst hx; simp [stepOk]⟩

end OMV.Spec
