/-
C04 — Connected inputs hold their source value with indices and units applied.
Property theorems (proofs of the lemmas are in OMV/Proofs/SpecList.lean, SpecSweep.lean,
SpecExpr.lean).
-/
import OMV.Model.Spec
import OMV.Proofs.SpecList
import OMV.Proofs.SpecSweep
import OMV.Proofs.SpecExpr

namespace OMV.Spec

/-- Indexing commutes with relabelling: applying every level of `src_indices` to `arange(n)` and
gathering once through the result (what the transfer does) equals indexing the source value level
after level (what the user wrote), for every chain whose indices are in range at their level. -/
theorem C04_chain_naturality {K : Type} [OfNat K 0] (levels : List (List Nat)) (v : List K)
    (h : ChainOk v.length levels) :
    gather (chainPos v.length levels) v = chainVal levels v := by
  unfold chainVal chainPos
  have := chain_fold levels (List.range v.length) v (by simpa using h)
  rw [gather_range] at this
  exact this.symm

/-- The in-range hypothesis is needed (and is what `_check_bounds` enforces): an out-of-range
inner index would read element 0 instead of nothing. -/
theorem C04_chain_needs_bounds :
    gather (chainPos 2 [[1], [3]]) [(10 : Int), 20] ≠ chainVal [[1], [3]] [(10 : Int), 20] := by
  decide

example : ChainOk 4 [[3, 1, 1], [2, 0]] ∧
    gather (chainPos 4 [[3, 1, 1], [2, 0]]) [(5 : Int), 6, 7, 8] = [6, 8] := by
  refine ⟨?_, by decide⟩
  simp [ChainOk]

/-- Solver scaling and unit conversion combine consistently: un-scaling a transferred (scaled)
value with the input's scale factors `(g(a0), g(a1) - g(0))` gives the unit conversion `g` of the
source's physical value, for every ref/ref0 (`a0 = ref0`, `a1 = ref - ref0`) of either sign. -/
theorem C04_scaled_transfer {K : Type} [CommRing K] (fac off a0 a1 xh : K) :
    unscale (inScale0 fac off a0) (inScale1 fac off a1) xh = convert fac off (unscale a0 a1 xh) := by
  unfold unscale inScale0 inScale1 convert; ring

/-- Right before a component is evaluated, and still after the whole pass, its inputs are the
gather + unit conversion of the outputs: later evaluations do not disturb them when the execution
order respects data flow. -/
theorem C04_after_sweep {K : Type} [Add K] [Mul K] [OfNat K 0] (pre post : List (Comp K))
    (c : Comp K) (u : Nat → K) (h : TopoOK (c :: post)) :
    inputsOf (sweep u (pre ++ c :: post)) c = inputsOf (sweep u pre) c := by
  obtain ⟨h0, h1, _⟩ := h
  have e : sweep u (pre ++ c :: post) = sweep (stepComp (sweep u pre) c) post := by
    simp [sweep, List.foldl_append]
  rw [e, inputs_sweep_preserved post _ c h1, inputs_after_own_step _ c h0]

/-- every input element is the unit conversion of the gathered source element (definition of the
transfer made explicit) -/
theorem C04_input_value {K : Type} [Add K] [Mul K] (u : Nat → K) (c : Comp K) (k : Nat)
    (hk : k < c.ins.length) :
    (inputsOf u c)[k]'(by simpa [inputsOf] using hk) = convert c.ins[k].fac c.ins[k].off (u c.ins[k].src) := by
  simp [inputsOf]

/-- A residual written over input variables and evaluated on transferred values equals the
residual with the transfer expressions substituted: the composed model is the model. -/
theorem C04_transfer_subst {K : Type} [CommRing K] (env : Nat → K) (σ : Nat → Expr K) (e : Expr K) :
    Expr.eval env (Expr.subst σ e) = Expr.eval (fun v => Expr.eval env (σ v)) e :=
  eval_subst env σ e

end OMV.Spec
