/-
C34 — Function-based and jax components compute their functions and exact partials.
Property theorems only (plus non-vacuity examples and a kernel-checked counterexample).
Helper lemmas: `OMV/Proofs/C34Shape.lean`, `C34Jac.lean`, `C34Bind.lean`.

Reading guide.  A `Func` is the wrapped Python function: positional arguments (inputs, states,
static options) with NumPy shapes and a tuple of return values whose bodies are C14 expressions
over C-order flattened arrays.  `orderedInvals` is `_func_values` / `_ordered_func_invals` (how
the vectors are handed to the function), `outVal` is `outputs.set_vals(f(*args))`.  `AD` is
jax's `jvp`/`vjp` at the current point; `IsJac f ad J` is the contract "jvp returns `J·d`, vjp
returns `Jᵀ·w`" for partials `J u p r j = ∂ ret_u[r] / ∂ arg_p[j]` — an assumption about jax,
discharged for the expression language by `C34_ad_contract_expr`.  `efcFwd/efcRev` are the two
branches of `ExplicitFuncComp._jax_linearize`, `derivBlock` is `_jax_derivs2partials`,
`efcFwdColored/efcRevColored` the colored branches with `Coloring._expand_jac`, `ifcFwd/ifcRev`
the column reordering of `ImplicitFuncComp._jax_linearize`.  Rows are addressed as
`offset f.retSizes u + r` (entry `r` of return value `u`), columns as `offset f.colSizes p + j`
(entry `j` of argument `p`; options contribute no columns).
-/
import OMV.Proofs.C34Bind

set_option linter.unusedSectionVars false
set_option linter.unusedVariables false

namespace OMV.C34
open OMV.C14

/-! ## 1. Outputs = the function of the inputs -/

/-- `ExplicitFuncComp.compute` (and `JaxExplicitComponent.compute` through `compute_primal`): for
every signature — any number and order of inputs and static options — and any number and shape of
return values, entry `r` of output `u` is entry `r` of the `u`-th return expression evaluated with
every argument bound to the input (option) *of its own name*.  Any carrier. -/
theorem C34_outputs {K : Type} (A : Alg K) (D : Deriv K) (byName : Bool) (f : Func)
    (uin uout opt : Nat → Nat → K) (hexp : ∀ p k, f.role p ≠ .state k) (u r : Nat) :
    outVal A D f (orderedInvals byName f (inputVector f uin) uout opt) u r
      = evalAt A f.comp.sh (namedInvals f uin uout opt) (f.comp.outExpr u)
          (bidx (shapeOf f.comp.sh (f.comp.outExpr u)) r) := by
  rw [orderedInvals_named_explicit byName f uin uout opt hexp]
  exact valOut_eq_eval A D f.comp _ u r

/-- The binding itself: walking the signature with `next(inputs)` hands argument `p` the input
variable that `setup` created for it. -/
theorem C34_binding_inputs (f : Func) (p : Nat) (h : f.role p = .input) :
    f.inputVars.getD (rankBefore Arg.isInput f.args p) f.args.length = p :=
  inputVars_rank f p h

/-! ## 2. Residuals of the implicit function component -/

/-- `ImplicitFuncComp.apply_nonlinear` with states bound by name (the repaired
`_ordered_func_invals`): the residual vector is the function of inputs and outputs, each under its
own name, for every order of the arguments in the signature.  No sign is applied: the residual is
what the function returns. -/
theorem C34_implicit_residual {K : Type} (A : Alg K) (D : Deriv K) (f : Func)
    (uin uout opt : Nat → Nat → K) (u r : Nat) :
    outVal A D f (orderedInvals true f (inputVector f uin) uout opt) u r
      = evalAt A f.comp.sh (namedInvals f uin uout opt) (f.comp.outExpr u)
          (bidx (shapeOf f.comp.sh (f.comp.outExpr u)) r) := by
  rw [orderedInvals_named true f uin uout opt (Or.inl rfl)]
  exact valOut_eq_eval A D f.comp _ u r

/-- The code as it is (`next(outs)` for every state met in the signature) is right under the extra
hypothesis that the states appear in the signature in the order of their residuals. -/
theorem C34_implicit_residual_partial {K : Type} (A : Alg K) (D : Deriv K) (f : Func)
    (uin uout opt : Nat → Nat → K) (hord : f.statesInOrder = true) (u r : Nat) :
    outVal A D f (orderedInvals false f (inputVector f uin) uout opt) u r
      = evalAt A f.comp.sh (namedInvals f uin uout opt) (f.comp.outExpr u)
          (bidx (shapeOf f.comp.sh (f.comp.outExpr u)) r) := by
  rw [orderedInvals_named false f uin uout opt (Or.inr hord)]
  exact valOut_eq_eval A D f.comp _ u r

/-- `def f(x, y1, y0): return 2*y0 - x, 3*y1` with `add_output('y0', resid=r0)`,
`add_output('y1', resid=r1)`: the states are listed in the other order than their residuals. -/
def exSwapped : Func :=
  { args := [⟨.input, []⟩, ⟨.state 1, []⟩, ⟨.state 0, []⟩]
    rets := [([], .sub (.mul (.lit 2) (.var 2)) (.var 0)), ([], .mul (.lit 3) (.var 1))] }

/-- Without that hypothesis the statement is false of the current code: with `x = 1`, `y0 = 5`,
`y1 = 7` the component computes `r0 = 2·7 − 1 = 13` and `r1 = 3·5 = 15` (each state argument
received the *other* output), the function of the named variables is `r0 = 9`, `r1 = 21`. -/
theorem C34_implicit_residual_needs_order :
    exSwapped.statesInOrder = false ∧
    outVal ratAlg ratDeriv exSwapped
      (orderedInvals false exSwapped (inputVector exSwapped (fun _ _ => 1))
        (fun k _ => if k = 0 then 5 else 7) (fun _ _ => 0)) 0 0 = 13 ∧
    outVal ratAlg ratDeriv exSwapped
      (orderedInvals true exSwapped (inputVector exSwapped (fun _ _ => 1))
        (fun k _ => if k = 0 then 5 else 7) (fun _ _ => 0)) 0 0 = 9 ∧
    outVal ratAlg ratDeriv exSwapped
      (orderedInvals false exSwapped (inputVector exSwapped (fun _ _ => 1))
        (fun k _ => if k = 0 then 5 else 7) (fun _ _ => 0)) 1 0 = 15 := by
  decide +kernel

/-! ## 3. C-order flattening -/

/-- The two facts about C order that every reshape in the assembly rests on: `unravel` inverts
`ravel`, and the flat position in a concatenated shape `s ++ t` is `ravel s · prod t + ravel t`
(so reshaping `out_shape ++ in_shape` to `(size_out, size_in)`, `out_shape ++ [n]` to
`(size_out, n)` and `[n] ++ in_shape` to `(n, size_in)` keeps every entry at the flat positions of
its output and input multi-indices). -/
theorem C34_c_order (s t : List Nat) (a b : Nat) (ha : a < prod s) (hb : b < prod t) :
    ravel s (unravel s a) = a ∧
    unravel (s ++ t) (a * prod t + b) = unravel s a ++ unravel t b ∧
    prod (s ++ t) = prod s * prod t :=
  ⟨ravel_unravel s a ha, unravel_append s t a b ha hb, prod_append s t⟩

example : unravel [2, 3] 4 = [1, 1] ∧ ravel [2, 3] [1, 1] = 4 ∧
    unravel ([2, 3] ++ [4]) (4 * 4 + 3) = [1, 1, 3] := by decide

/-! ## 4. Partials assembled from jvp / vjp blocks -/

section partials
variable {K : Type} [Field K]

/-- `ExplicitFuncComp._jax_linearize` without coloring, GIVEN the AD contract: in the fwd branch
(one jvp per row of `np.eye`, arrays of shape `out_shape ++ [isize]` reshaped to
`(size_out, isize)` and stacked) and in the rev branch (one vjp per row of `np.eye(osize)`, arrays
`[osize] ++ in_shape` reshaped to `(osize, size_in)` and placed at `cstart:cend`) the dense array
holds, at row `r` of return value `u` and column `j` of argument `p`, exactly
`∂ ret_u[r] / ∂ arg_p[j]` — for any number, order and shapes of arguments and return values, with
static arguments skipped — and `set_dense_jac` hands that entry to the declared sub-jacobian. -/
theorem C34_partials_exact (f : Func) (ad : AD K) (J : Nat → Nat → Nat → Nat → K)
    (hJ : IsJac f ad J) (declared : Nat → Nat → Bool)
    (u p r j : Nat) (hd : declared u p = true) (hr : r < f.retSize u) (hj : j < f.colSize p) :
    subjacEntry f declared (efcFwd f ad) u p r j = some (J u p r j) ∧
    subjacEntry f declared (efcRev f ad) u p r j = some (J u p r j) := by
  simp only [subjacEntry, hd, if_true, efcFwd_exact f ad J hJ u p r j hr hj,
    efcRev_exact f ad J hJ u p r j hr hj, and_self]

/-- A function with one bare (non-tuple) return value: the fwd branch then iterates over the first
axis of the single array (row by row, or entry by entry for a scalar) — the assembled array is the
same exact jacobian. -/
theorem C34_single_return_rows (f : Func) (ad : AD K) (J : Nat → Nat → Nat → Nat → K)
    (hJ : IsJac f ad J) (p r j : Nat) (hr : r < f.retSize 0) (hj : j < f.colSize p) :
    efcFwdSingle f ad r (offset f.colSizes p + j) = J 0 p r j := by
  unfold efcFwdSingle
  have hcol : offset f.colSizes p + j < f.isize := offset_add_lt f.colSizes p j hj
  rw [fwdBlockSingle_eq _ _ _ _ _ _ _ (by rw [← retSize_eq f 0 r hr]; exact hr) hcol]
  exact jvp_eye f ad J hJ 0 p r j hj

/-- A pair declared with `rows`/`cols` receives the exact partials at the listed positions. -/
theorem C34_partials_sparse (f : Func) (ad : AD K) (J : Nat → Nat → Nat → Nat → K)
    (hJ : IsJac f ad J) (u p : Nat) (rows cols : List Nat)
    (hrows : ∀ r ∈ rows, r < f.retSize u) (hcols : ∀ c ∈ cols, c < f.colSize p) :
    subjacSparse f (efcFwd f ad) u p rows cols = (rows.zip cols).map (fun rc => J u p rc.1 rc.2) ∧
    subjacSparse f (efcRev f ad) u p rows cols = (rows.zip cols).map (fun rc => J u p rc.1 rc.2) := by
  constructor <;>
  · apply List.map_congr_left
    intro rc hrc
    have h1 := hrows rc.1 (List.of_mem_zip hrc).1
    have h2 := hcols rc.2 (List.of_mem_zip hrc).2
    first
      | exact efcFwd_exact f ad J hJ u p rc.1 rc.2 h1 h2
      | exact efcRev_exact f ad J hJ u p rc.1 rc.2 h1 h2

/-- `_jax_derivs2partials` (`JaxExplicitComponent` / `JaxImplicitComponent` without coloring): the
`out_shape ++ in_shape` block returned by `jax.jacfwd/jacrev` for one `(of, wrt)` pair, reshaped to
`(size_of, size_wrt)`, holds at `(r, c)` the derivative of flat output entry `r` with respect to
flat input entry `c` (C order on both sides), also through a `rows`/`cols` gather. -/
theorem C34_derivs2partials (J : Nat → Nat → K) (so si : List Nat) :
    (∀ r c, r < prod so → c < prod si → derivBlock J so si r c = J r c) ∧
    (∀ rows cols : List Nat, (∀ r ∈ rows, r < prod so) → (∀ c ∈ cols, c < prod si) →
      derivSparse J so si rows cols = (rows.zip cols).map fun rc => J rc.1 rc.2) := by
  refine ⟨fun r c hr hc => derivBlock_eq J so si r c hr hc, ?_⟩
  intro rows cols hrows hcols
  apply List.map_congr_left
  intro rc hrc
  exact derivBlock_eq J so si rc.1 rc.2 (hrows _ (List.of_mem_zip hrc).1)
    (hcols _ (List.of_mem_zip hrc).2)

/-! ## 5. Colored evaluation and `_expand_jac` -/

/-- Colored jvp (vjp) + `Coloring._expand_jac` reproduces the jacobian: GIVEN the AD contract, if the
exact jacobian vanishes outside the sparsity stored in the coloring, no column (row) is in two
groups, every column (row) of the sparsity is in a group and two members of a group never share a
row (column) of the sparsity, then the expanded array equals the exact jacobian at every position
— the recovered nonzeros and the zeros. -/
theorem C34_colored_expand (f : Func) (ad : AD K) (J : Nat → Nat → Nat → Nat → K)
    (hJ : IsJac f ad J) (C : Coloring)
    (hsupp : ∀ u p r j, r < f.retSize u → j < f.colSize p →
      (offset f.retSizes u + r, offset f.colSizes p + j) ∉ C.nz → J u p r j = 0)
    (u p r j : Nat) (hr : r < f.retSize u) (hj : j < f.colSize p) :
    (ProperFwd C →
      efcFwdColored f ad C (offset f.retSizes u + r) (offset f.colSizes p + j) = J u p r j) ∧
    (ProperRev C →
      efcRevColored f ad C (offset f.retSizes u + r) (offset f.colSizes p + j) = J u p r j) :=
  ⟨fun h => efcFwdColored_exact f ad J hJ C h hsupp u p r j hr hj,
   fun h => efcRevColored_exact f ad J hJ C h hsupp u p r j hr hj⟩

/-- The same with the hypotheses on the coloring discharged by the executable validators
`coloringOkFwd` / `coloringOkRev` that the driver runs on every coloring object exported from the
implementation (the C03-style certificate for one direction). -/
theorem C34_colored_expand_checked (f : Func) (ad : AD K) (J : Nat → Nat → Nat → Nat → K)
    (hJ : IsJac f ad J) (C : Coloring)
    (hsupp : ∀ u p r j, r < f.retSize u → j < f.colSize p →
      (offset f.retSizes u + r, offset f.colSizes p + j) ∉ C.nz → J u p r j = 0)
    (u p r j : Nat) (hr : r < f.retSize u) (hj : j < f.colSize p) :
    (coloringOkFwd C = true →
      efcFwdColored f ad C (offset f.retSizes u + r) (offset f.colSizes p + j) = J u p r j) ∧
    (coloringOkRev C = true →
      efcRevColored f ad C (offset f.retSizes u + r) (offset f.colSizes p + j) = J u p r j) :=
  ⟨fun h => (C34_colored_expand f ad J hJ C hsupp u p r j hr hj).1 (coloringOkFwd_sound C h),
   fun h => (C34_colored_expand f ad J hJ C hsupp u p r j hr hj).2 (coloringOkRev_sound C h)⟩

/-! ## 6. Partials of the implicit function component -/

/-- `ImplicitFuncComp._jax_linearize` without coloring, GIVEN the AD contract: in the OpenMDAO
column order (outputs in vector order, then inputs) block `q` holds the exact partials of the
residuals with respect to *that* variable — outputs and inputs alike, no sign applied — in the fwd
branch (`_reorder_cols` with the name-keyed `_get_jac2func_inds`) for every signature, and in the
rev branch (`_reorder_col_chunks`) when the states are bound by name or listed in residual order. -/
theorem C34_implicit_partials (byName : Bool) (f : Func) (ad : AD K)
    (J : Nat → Nat → Nat → Nat → K) (hJ : IsJac f ad J)
    (u q r j : Nat) (hr : r < f.retSize u) (hj : j < f.omColSizes.getD q 0) :
    ifcFwd f ad (offset f.retSizes u + r) (offset f.omColSizes q + j)
      = J u (f.omVars.getD q 0) r j ∧
    (byName = true ∨ f.statesInOrder = true →
      ifcRev byName f ad (offset f.retSizes u + r) (offset f.omColSizes q + j)
        = J u (f.omVars.getD q 0) r j) :=
  ⟨ifcFwd_exact f ad J hJ u q r j hr hj,
   fun h => ifcRev_exact byName f ad J hJ h u q r j hr hj⟩

/-! ## 7. The contract holds for the expression language -/

/-- For functions written in the expression language (constants, `+ − * /`, integer powers, unary
primitives given with their derivatives, `sum`, `dot`, indexing, reversal, scalar broadcasting) the
engine `exprAD` — forward mode over dual numbers, reverse mode as the transposed product — meets
`IsJac` with `J` the partials given by the differentiation rules (`C14_ad_correct`).  So for these
functions sections 4–6 hold without any assumption. -/
theorem C34_ad_contract_expr (p : String → K → K) (p2 : String → K → K → K) (D : Deriv K)
    (f : Func) (x : Nat → Nat → K) :
    IsJac f (exprAD (fieldAlg p p2) D f x) (exactJ (fieldAlg p p2) D f x) :=
  exprAD_isJac p p2 D f x

/-- Sections 4 and 7 together: for an expression-language function the sub-jacobians that
`ExplicitFuncComp` assembles are the exact partials, in both directions. -/
theorem C34_partials_exact_expr (p : String → K → K) (p2 : String → K → K → K) (D : Deriv K)
    (f : Func) (x : Nat → Nat → K) (u q r j : Nat) (hr : r < f.retSize u) (hj : j < f.colSize q) :
    efcFwd f (exprAD (fieldAlg p p2) D f x) (offset f.retSizes u + r) (offset f.colSizes q + j)
      = exactJ (fieldAlg p p2) D f x u q r j ∧
    efcRev f (exprAD (fieldAlg p p2) D f x) (offset f.retSizes u + r) (offset f.colSizes q + j)
      = exactJ (fieldAlg p p2) D f x u q r j :=
  ⟨efcFwd_exact f _ _ (exprAD_isJac p p2 D f x) u q r j hr hj,
   efcRev_exact f _ _ (exprAD_isJac p p2 D f x) u q r j hr hj⟩

end partials

/-! ## Non-vacuity: concrete instances meeting the hypotheses -/

/-- `def f(x, k, y): return k * x * x, sum(y) * x[0]` with `x` of shape `(3,)`, `k` a static option
and `y` of shape `(2, 2)`; return shapes `(3,)` and `()`. -/
def exF : Func :=
  { args := [⟨.input, [3]⟩, ⟨.option, []⟩, ⟨.input, [2, 2]⟩]
    rets := [([3], .mul (.mul (.var 1) (.var 0)) (.var 0)),
             ([], .mul (.sum (.var 2)) (.idx (.var 0) 0))] }

def exX : Nat → Nat → Rat := fun p j => if p = 1 then 2 else if p = 0 then j + 1 else 10 * (j + 1)

-- C34_outputs / C34_binding_inputs: an explicit function with an option in the middle; the input
-- vector has two variables named 0 and 2; outputs are the returns.
example : (∀ p k, exF.role p ≠ .state k) ∧ exF.inputVars = [0, 2] ∧
    exF.role 2 = .input ∧ rankBefore Arg.isInput exF.args 2 = 1 ∧
    outVal ratAlg ratDeriv exF exX 0 1 = 8 ∧ outVal ratAlg ratDeriv exF exX 1 0 = 100 := by
  refine ⟨?_, by decide +kernel, by decide +kernel, by decide +kernel, by decide +kernel,
    by decide +kernel⟩
  intro p k
  match p with
  | 0 => simp [Func.role, exF]
  | 1 => simp [Func.role, exF]
  | 2 => simp [Func.role, exF]
  | (n + 3) => simp [Func.role, exF]

-- C34_partials_exact(_expr): sizes, offsets and an assembled entry in both directions: row 3 is
-- the scalar return, column 4 is `y[0, 1]` (the option contributes no column).
example : exF.retSize 1 = 1 ∧ exF.colSize 2 = 4 ∧ exF.colSize 1 = 0 ∧
    offset exF.retSizes 1 + 0 = 3 ∧ offset exF.colSizes 2 + 1 = 4 ∧
    efcFwd exF (exprAD ratAlg ratDeriv exF exX) 3 4 = 1 ∧
    efcRev exF (exprAD ratAlg ratDeriv exF exX) 3 4 = 1 ∧
    efcFwd exF (exprAD ratAlg ratDeriv exF exX) 1 1 = 8 ∧
    efcFwdSingle { exF with rets := exF.rets.take 1 }
      (exprAD ratAlg ratDeriv { exF with rets := exF.rets.take 1 } exX) 1 1 = 8 ∧
    efcRev exF (exprAD ratAlg ratDeriv exF exX) 3 0 = 100 ∧
    exactJ ratAlg ratDeriv exF exX 1 0 0 0 = 100 := by
  decide +kernel

/-- The sparsity of `exF` at `exX` (rows 0–2: diagonal in `x`; row 3: `x[0]` and all of `y`) with
a proper column coloring: `x[1]`, `x[2]` share no row with the columns of `y`. -/
def exColoring : Coloring :=
  { nz := [(0, 0), (1, 1), (2, 2), (3, 0), (3, 3), (3, 4), (3, 5), (3, 6)]
    groups := [[0], [1, 3], [2, 4], [5], [6]] }

-- C34_colored_expand_checked: the validator accepts a proper coloring and rejects one that merges
-- two columns sharing row 3; the colored evaluation returns the exact entries.
example : coloringOkFwd exColoring = true ∧
    coloringOkFwd { exColoring with groups := [[0, 3], [1], [2, 4], [5], [6]] } = false ∧
    efcFwdColored exF (exprAD ratAlg ratDeriv exF exX) exColoring 3 4 = 1 ∧
    efcFwdColored exF (exprAD ratAlg ratDeriv exF exX) exColoring 1 1 = 8 ∧
    efcFwdColored exF (exprAD ratAlg ratDeriv exF exX) exColoring 1 3 = 0 := by
  decide +kernel

/-- `def f(y1, x, y0): return 2*y0 - x*y1, y1*y1 + x` — states listed out of order; `byName`. -/
def exI : Func :=
  { args := [⟨.state 1, []⟩, ⟨.input, []⟩, ⟨.state 0, []⟩]
    rets := [([], .sub (.mul (.lit 2) (.var 2)) (.mul (.var 1) (.var 0))),
             ([], .add (.mul (.var 0) (.var 0)) (.var 1))] }

-- C34_implicit_partials: OpenMDAO columns are (y0, y1, x) = arguments (2, 0, 1).
example : exI.omVars = [2, 0, 1] ∧ exI.jac2func = [2, 0, 1] ∧ exI.statesInOrder = false ∧
    exSwapped.omVars = [2, 1, 0] ∧
    ({ args := [⟨.input, [2]⟩, ⟨.state 0, [2]⟩, ⟨.state 1, []⟩],
       rets := [([2], .var 1), ([], .var 2)] } : Func).statesInOrder = true := by
  decide +kernel

def exIx : Nat → Nat → Rat := fun p _ => if p = 0 then 3 else if p = 1 then 5 else 7

-- ... and the assembled residual partials in that column order, fwd and rev (states bound by name):
-- ∂r0/∂y0 = 2, ∂r0/∂y1 = −x = −5, ∂r0/∂x = −y1 = −3; ∂r1/∂y1 = 2·y1 = 6, ∂r1/∂x = 1.
example : exI.omColSizes = [1, 1, 1] ∧
    (List.range 3).map (ifcFwd exI (exprAD ratAlg ratDeriv exI exIx) 0) = [2, -5, -3] ∧
    (List.range 3).map (ifcRev true exI (exprAD ratAlg ratDeriv exI exIx) 0) = [2, -5, -3] ∧
    (List.range 3).map (ifcRev true exI (exprAD ratAlg ratDeriv exI exIx) 1) = [0, 6, 1] ∧
    -- the positional chunk order of the current code puts ∂/∂y1 into the y0 block
    (List.range 3).map (ifcRev false exI (exprAD ratAlg ratDeriv exI exIx) 0) = [-5, 2, -3] := by
  decide +kernel

-- C34_derivs2partials / C34_partials_sparse: a (2,3) × (3,) block and a rows/cols gather.
example : derivBlock (fun r c => (10 * r + c : Rat)) [2, 3] [3] 4 2 = 42 ∧
    derivSparse (fun r c => (10 * r + c : Rat)) [2, 3] [3] [0, 5] [1, 2] = [1, 52] ∧
    subjacSparse exF (efcFwd exF (exprAD ratAlg ratDeriv exF exX)) 0 0 [0, 1, 2] [0, 1, 2]
      = [4, 8, 12] := by
  decide +kernel

-- C34_ad_contract_expr on the concrete carrier the driver runs.
example : IsJac exF (exprAD ratAlg ratDeriv exF exX) (exactJ ratAlg ratDeriv exF exX) := by
  have := C34_ad_contract_expr ratPrim ratPrim2 ratDeriv exF exX
  rwa [fieldAlg_rat] at this

end OMV.C34
