/-
C26 — Stock math components compute their formulas and exact partials.

For every component the statement has the same shape: evaluate the component's formula
(`OMV.C26.…Out`, the definition the driver runs) on dual numbers `x + ε d`; the result is
`formula x + ε · (J x · d)`, where `J x · d` is computed from the `rows / cols / values` the
component declares (`Coo.mulVec`, `totalDu`).  Over `K[ε]/(ε²)` this *is* "the declared partials
are the exact Jacobian", for every `vec_size`, length, shape, axis, scaling factor and flag.
Property theorems only (plus non-vacuity examples).
-/
import OMV.Proofs.C26

set_option linter.unusedSectionVars false
set_option linter.unusedVariables false

namespace OMV.C26

open OMV.Spec (Dual)
open Finset

/-! ### what the compared "dense view" means -/

/-- The dense matrix the harness compares (`Coo.dense`, duplicates summed) acts on a direction
exactly like the declared triplets (`Coo.mulVec`, used by all theorems below). -/
theorem C26_coo_mulVec_dense {K : Type} [CommRing K] (J : Coo K) (nc : Nat)
    (hc : ∀ k, k < J.n → J.col k < nc) (d : Nat → K) (r : Nat) :
    J.mulVec d r = ∑ c ∈ range nc, J.dense r c * d c := by
  rw [mulVec_eq]
  simp only [dense_eq, Finset.sum_mul]
  rw [Finset.sum_comm]
  apply Finset.sum_congr rfl
  intro k hk
  have hk' := hc k (Finset.mem_range.mp hk)
  by_cases h : J.row k = r
  · simp only [h, true_and, if_true]
    rw [Finset.sum_eq_single (J.col k)]
    · simp
    · intro c _ hcne
      have : ¬ J.col k = c := fun e => hcne e.symm
      simp [this]
    · intro hh; exact absurd (Finset.mem_range.mpr hk') hh
  · simp [h]

/-! ### AddSubtractComp -/

section AddSub
variable {K : Type} [CommRing K]

theorem addsub_foldl (terms : List (Nat × K)) (x : Nat → Nat → K) (i : Nat) (t : K) :
    terms.foldl (fun t p => t + x p.1 i * p.2) t
      = t + (terms.map (fun p => p.2 * x p.1 i)).sum := by
  induction terms generalizing t with
  | nil => simp
  | cons p L ih => rw [List.foldl_cons, ih]; simp [add_assoc, mul_comm]

/-- the accumulation loop computes `Σ_j sf_j · input_j` -/
theorem C26_addsub_formula (terms : List (Nat × K)) (x : Nat → Nat → K) (i : Nat) :
    addsubOut terms x i = (terms.map (fun p => p.2 * x p.1 i)).sum := by
  unfold addsubOut; rw [addsub_foldl]; simp

theorem addsub_foldl_dual (terms : List (Nat × K)) (x d : Nat → Nat → K) (i : Nat) (t : Dual K) :
    terms.foldl (fun t p => t + (⟨x p.1 i, d p.1 i⟩ : Dual K) * (⟨p.2, 0⟩ : Dual K)) t
      = ⟨t.re + (terms.map (fun p => p.2 * x p.1 i)).sum,
         t.du + (terms.map (fun p => p.2 * d p.1 i)).sum⟩ := by
  induction terms generalizing t with
  | nil => simp
  | cons p L ih =>
    rw [List.foldl_cons, ih]
    apply Dual.ext <;> simp [add_assoc, mul_comm]

/-- `sf * eye(n)` per input is the exact Jacobian of the weighted sum — for every number of
inputs, size and scaling factors — provided no input name is repeated in the equation (or
repeated names are accumulated). -/
theorem C26_addsub_partials (acc : Bool) (terms : List (Nat × K)) (m n : Nat)
    (hm : ∀ p ∈ terms, p.1 < m) (h : acc = true ∨ (terms.map Prod.fst).Nodup)
    (x d : Nat → Nat → K) (i : Nat) (hi : i < n) :
    addsubOut (terms.map (fun p => (p.1, (⟨p.2, 0⟩ : Dual K))))
        (fun w k => (⟨x w k, d w k⟩ : Dual K)) i
      = ⟨addsubOut terms x i, totalDu m (addsubJac acc terms n) d i⟩ := by
  have e1 : addsubOut (terms.map (fun p => (p.1, (⟨p.2, 0⟩ : Dual K))))
        (fun w k => (⟨x w k, d w k⟩ : Dual K)) i
      = terms.foldl (fun t p => t + (⟨x p.1 i, d p.1 i⟩ : Dual K) * (⟨p.2, 0⟩ : Dual K)) 0 := by
    unfold addsubOut; rw [List.foldl_map]
  rw [e1, addsub_foldl_dual, C26_addsub_formula, totalDu_eq]
  apply Dual.ext
  · simp
  · simp only [Dual.zero_du, zero_add]
    have : ∀ w, (addsubJac acc terms n w).mulVec (d w) i = lastOrSum acc terms w * d w i := by
      intro w; unfold addsubJac; rw [diag_mulVec _ _ _ _ hi]
    simp only [this]
    rw [sum_lastOrSum acc terms m hm h (fun w => d w i)]

/-- With the code as it is (`accumulate = false`: the last `declare_partials` for a repeated
name wins) the hypothesis is needed: `o = 2 a + 3 a` has derivative 5, the declared value is 3. -/
theorem C26_addsub_dup_counterexample :
    (addsubOut [(0, (⟨2, 0⟩ : Dual Rat)), (0, ⟨3, 0⟩)] (fun _ _ => ⟨1, 1⟩) 0).du = 5 ∧
    totalDu 1 (addsubJac false [(0, (2 : Rat)), (0, 3)] 1) (fun _ _ => 1) 0 = 3 ∧
    totalDu 1 (addsubJac true [(0, (2 : Rat)), (0, 3)] 1) (fun _ _ => 1) 0 = 5 := by
  decide +kernel

example : ((([(0, (2 : Rat)), (1, -1)] : List (Nat × Rat)).map Prod.fst).Nodup) ∧
    addsubOut [(0, (2 : Rat)), (1, -1)] (fun w k => if w = 0 then 3 else 4) 0 = 2 := by
  decide +kernel

end AddSub

/-! ### DotProductComp -/

section Dot
variable {K : Type} [CommRing K]

/-- `b.ravel()` / `a.ravel()` on the `repeat(arange(v), len)` × `arange(v len)` pattern is the
exact Jacobian of the row-wise dot product, for every `vec_size` and `length`; `a_name ≠ b_name`
is needed with the code as it is. -/
theorem C26_dot_partials (acc : Bool) (v len m aId bId : Nat) (ha : aId < m) (hb : bId < m)
    (h : acc = true ∨ aId ≠ bId) (x d : Nat → Nat → K) (n : Nat) (hn : n < v) :
    dotOut len (fun i => (⟨x aId i, d aId i⟩ : Dual K)) (fun i => ⟨x bId i, d bId i⟩) n
      = ⟨dotOut len (x aId) (x bId) n, totalDu m (dotJac acc v len aId bId x) d n⟩ := by
  unfold dotOut
  have e : (fun i => (⟨x aId (n * len + i), d aId (n * len + i)⟩ : Dual K)
                      * ⟨x bId (n * len + i), d bId (n * len + i)⟩)
      = fun i => (⟨x aId (n * len + i) * x bId (n * len + i),
                   d aId (n * len + i) * x bId (n * len + i)
                     + x aId (n * len + i) * d bId (n * len + i)⟩ : Dual K) := by
    funext i; rfl
  rw [e, sumRange_dual]
  apply Dual.ext
  · rfl
  · simp only [totalDu_eq, sumRange_eq]
    unfold dotJac rowBlockCoo
    simp only [block_mulVec _ _ _ _ _ _ hn, id]
    rw [Finset.sum_comm]
    apply Finset.sum_congr rfl
    intro j _
    have hnd : acc = true ∨
        (([(aId, x bId (n * len + j)), (bId, x aId (n * len + j))] : List (Nat × K)).map
          Prod.fst).Nodup := by
      rcases h with h | h
      · exact Or.inl h
      · right; simp [h]
    rw [sum_lastOrSum acc _ m (by
      intro p hp
      simp only [List.mem_cons, List.mem_nil_iff, or_false] at hp
      rcases hp with rfl | rfl <;> assumption) hnd (fun w => d w (n * len + j))]
    simp; ring

/-- `c = a · a` (same input on both sides): derivative `2 a`, stored partial `a`. -/
theorem C26_dot_dup_counterexample :
    (dotOut 1 (fun _ => (⟨3, 1⟩ : Dual Rat)) (fun _ => ⟨3, 1⟩) 0).du = 6 ∧
    totalDu 1 (dotJac false 1 1 0 0 (fun _ _ => (3 : Rat))) (fun _ _ => 1) 0 = 3 ∧
    totalDu 1 (dotJac true 1 1 0 0 (fun _ _ => (3 : Rat))) (fun _ _ => 1) 0 = 6 := by
  decide +kernel

example : dotOut 2 (fun i => ((i : Rat) + 1)) (fun i => 2 * (i : Rat)) 1 = 3 * 4 + 4 * 6 := by
  decide +kernel

end Dot

/-! ### MatrixVectorProductComp -/

section MatVec
variable {K : Type} [CommRing K]

/-- the two `np.nonzero(block_diag(...))` patterns with `np.repeat(x, nr, axis=0)` resp.
`A.ravel()` as values are the exact Jacobians of `b = A x` for every `vec_size` and `A_shape` -/
theorem C26_matvec_partials (v nr nc : Nat) (A x dA dx : Nat → K) (r : Nat) (hr : r < v * nr) :
    matvecOut nr nc (fun i => (⟨A i, dA i⟩ : Dual K)) (fun i => ⟨x i, dx i⟩) r
      = ⟨matvecOut nr nc A x r,
         (matvecJacA v nr nc x).mulVec dA r + (matvecJacX v nr nc A).mulVec dx r⟩ := by
  unfold matvecOut
  have e : (fun j => (⟨A (r * nc + j), dA (r * nc + j)⟩ : Dual K)
                      * ⟨x (r / nr * nc + j), dx (r / nr * nc + j)⟩)
      = fun j => (⟨A (r * nc + j) * x (r / nr * nc + j),
                   dA (r * nc + j) * x (r / nr * nc + j)
                     + A (r * nc + j) * dx (r / nr * nc + j)⟩ : Dual K) := by
    funext j; rfl
  rw [e, sumRange_dual]
  apply Dual.ext
  · rfl
  · simp only [sumRange_eq]
    unfold matvecJacA matvecJacX
    rw [block_mulVec _ _ _ _ _ _ hr, block_mulVec _ _ _ _ _ _ hr, ← Finset.sum_add_distrib]
    apply Finset.sum_congr rfl
    intro j hj
    have hj' := Finset.mem_range.mp hj
    simp only [id, div_block r nc j hj', mod_block r nc j hj']
    ring

example : matvecOut 2 2 (fun i => ((i : Rat) + 1)) (fun i => if i = 2 then 1 else 0) 2
    = 5 := by decide +kernel

end MatVec

/-! ### LinearSystemComp -/

section LinSys
variable {K : Type} [CommRing K]

theorem linsys_index (size r k : Nat) (hs : 0 < size) (hk : k < size) :
    (r * size + k) % (size * size) = (r % size) * size + k := by
  rw [Nat.mod_mul, mod_block r size k hk, div_block r size k hk]; ring

theorem linsys_index_vec (size r k : Nat) :
    r / size * (size * size) + r % size * size + k = r * size + k := by
  have := Nat.div_add_mod' r size
  calc r / size * (size * size) + r % size * size + k
      = (r / size * size + r % size) * size + k := by ring
    _ = r * size + k := by rw [this]

/-- the residual is `A x − b`, with the same meaning of `A x` as MatrixVectorProductComp
(one matrix per right-hand side), resp. with the one shared matrix -/
theorem C26_linsys_formula (size : Nat) (A b x : Nat → K) (r : Nat) :
    linsysRes size true A b x r = matvecOut size size A x r - b r ∧
    linsysRes size false A b x r
      = sumRange size (fun k => A (r % size * size + k) * x (r / size * size + k)) - b r := by
  constructor
  · unfold linsysRes matvecOut linsysAOff
    simp only [if_true, linsys_index_vec]
  · unfold linsysRes linsysAOff
    simp

/-- `-1` on the diagonal for `b`, `np.tile(x, size)` on the `A` pattern and (tiled) `A.flat` on the
`x` pattern are the exact Jacobians of the residual `A x − b`, for every `size`, `vec_size` and both
settings of `vectorize_A` -/
theorem C26_linsys_partials (size v : Nat) (vecA : Bool) (A b x dA db dx : Nat → K) (r : Nat)
    (hr : r < v * size) :
    linsysRes size vecA (fun i => (⟨A i, dA i⟩ : Dual K)) (fun i => ⟨b i, db i⟩)
        (fun i => ⟨x i, dx i⟩) r
      = ⟨linsysRes size vecA A b x r,
         (linsysJacA size v vecA x).mulVec dA r + (linsysJacX size v vecA A).mulVec dx r
           + (linsysJacB size v).mulVec db r⟩ := by
  have hs : 0 < size := by
    rcases Nat.eq_zero_or_pos size with h | h
    · subst h; simp at hr
    · exact h
  unfold linsysRes
  have e : (fun k => (⟨A (linsysAOff size vecA (r / size) + r % size * size + k),
                       dA (linsysAOff size vecA (r / size) + r % size * size + k)⟩ : Dual K)
                      * ⟨x (r / size * size + k), dx (r / size * size + k)⟩)
      = fun k => (⟨A (linsysAOff size vecA (r / size) + r % size * size + k)
                     * x (r / size * size + k),
                   dA (linsysAOff size vecA (r / size) + r % size * size + k)
                     * x (r / size * size + k)
                   + A (linsysAOff size vecA (r / size) + r % size * size + k)
                     * dx (r / size * size + k)⟩ : Dual K) := by
    funext k; rfl
  rw [e, sumRange_dual]
  apply Dual.ext
  · rfl
  · simp only [Dual.sub_du, sumRange_eq]
    unfold linsysJacA linsysJacX linsysJacB
    rw [block_mulVec _ _ _ _ _ _ hr, block_mulVec _ _ _ _ _ _ hr, diag_mulVec _ _ _ _ hr,
      ← Finset.sum_add_distrib]
    have : (∑ k ∈ range size,
          (dA (linsysAOff size vecA (r / size) + r % size * size + k) * x (r / size * size + k)
            + A (linsysAOff size vecA (r / size) + r % size * size + k)
              * dx (r / size * size + k)))
        = ∑ j ∈ range size,
          (x ((r * size + j) / size / size * size + (r * size + j) % size)
              * dA (if vecA = true then r * size + j else (r * size + j) % (size * size))
            + A (if vecA = true then r * size + j else (r * size + j) % (size * size))
              * dx ((r * size + j) / size / size * size + (r * size + j) % size)) := by
      apply Finset.sum_congr rfl
      intro j hj
      have hj' := Finset.mem_range.mp hj
      rw [div_block r size j hj', mod_block r size j hj', linsys_index size r j hs hj']
      cases vecA with
      | true => simp only [linsysAOff, if_true, linsys_index_vec]; ring
      | false => simp only [linsysAOff]; simp; ring
    rw [this]
    ring

example : linsysRes 2 false (fun i => ((i : Rat) + 1)) (fun _ => 1) (fun i => (i : Rat)) 3
    = 3 * 2 + 4 * 3 - 1 := by decide +kernel

end LinSys

/-! ### MuxComp -/

section Mux
variable {K : Type} [CommRing K]

/-- the output is the stack of the inputs along `axis`: element `j` of input `i` is found at the
position `np.stack` gives it -/
theorem C26_mux_formula {α : Type} (v post : Nat) (hp : 0 < post) (x : Nat → Nat → α) (i j : Nat)
    (hi : i < v) : muxOut v post x (muxRow v post i j) = x i j := by
  unfold muxOut
  rw [muxRow_input v post i j hp hi, muxRow_src v post i j hp hi]

/-- … and every output element is such an image (of an input `< vec_size` and a position inside
the input), so the output is determined completely -/
theorem C26_mux_onto (v post pre r : Nat) (hp : 0 < post) (hv : 0 < v)
    (hr : r < pre * (v * post)) :
    r / post % v < v ∧ muxSrc v post r < pre * post ∧
      muxRow v post (r / post % v) (muxSrc v post r) = r :=
  ⟨Nat.mod_lt _ hv, muxSrc_lt v post pre r hp hv hr, muxRow_decode v post r hp⟩

/-- `val = 1` at `(muxRow i j, j)` for input `i` is the exact Jacobian of the stack, for every
`vec_size`, input shape (`pre * post` elements) and axis -/
theorem C26_mux_partials (v post pre : Nat) (hp : 0 < post) (hv : 0 < v) (x d : Nat → Nat → K)
    (r : Nat) (hr : r < pre * (v * post)) :
    muxOut v post (fun i j => (⟨x i j, d i j⟩ : Dual K)) r
      = ⟨muxOut v post x r, totalDu v (fun i => muxJac v post (pre * post) i) d r⟩ := by
  obtain ⟨h1, h2, h3⟩ := C26_mux_onto v post pre r hp hv hr
  unfold muxOut
  apply Dual.ext
  · rfl
  · show d (r / post % v) (muxSrc v post r) = _
    rw [totalDu_eq]
    simp only [mulVec_eq, muxJac, id, one_mul]
    rw [Finset.sum_eq_single (r / post % v)]
    · rw [Finset.sum_eq_single (muxSrc v post r)]
      · simp [h3]
      · intro k _ hk
        have : ¬ muxRow v post (r / post % v) k = r := by
          intro e
          apply hk
          rw [← muxRow_src v post (r / post % v) k hp h1, e]
        simp [this]
      · intro hh; exact absurd (Finset.mem_range.mpr h2) hh
    · intro i hi hne
      apply Finset.sum_eq_zero
      intro k _
      have : ¬ muxRow v post i k = r := by
        intro e
        apply hne
        rw [← muxRow_input v post i k hp (Finset.mem_range.mp hi), e]
      simp [this]
    · intro hh; exact absurd (Finset.mem_range.mpr h1) hh

example : muxRow 3 2 1 3 = 9 ∧ muxSrc 3 2 9 = 3 ∧ 9 / 2 % 3 = 1 := by decide

end Mux

/-! ### CrossProductComp -/

section Cross
variable {K : Type} [CommRing K]

theorem sumRange_three {A : Type} [Add A] [OfNat A 0] (f : Nat → A) :
    sumRange 3 f = 0 + f 0 + f 1 + f 2 := rfl

/-- `np.cross` on rows: perpendicular to both factors and anticommutative (together with
bilinearity and `e₁ × e₂ = e₃`, checked in the example below, this pins the formula down) -/
theorem C26_cross_formula (a b : Nat → K) (n r : Nat) :
    dotOut 3 a (crossOut a b) n = 0 ∧ dotOut 3 b (crossOut a b) n = 0 ∧
      crossOut a b r = - crossOut b a r := by
  have h0 : (n * 3 + 0) / 3 = n ∧ (n * 3 + 0) % 3 = 0 := by omega
  have h1 : (n * 3 + 1) / 3 = n ∧ (n * 3 + 1) % 3 = 1 := by omega
  have h2 : (n * 3 + 2) / 3 = n ∧ (n * 3 + 2) % 3 = 2 := by omega
  refine ⟨?_, ?_, ?_⟩
  · simp only [dotOut, sumRange_three, crossOut, h0, h1, h2]
    have e : 3 * n = n * 3 := by ring
    simp only [e]; ring
  · simp only [dotOut, sumRange_three, crossOut, h0, h1, h2]
    have e : 3 * n = n * 3 := by ring
    simp only [e]; ring
  · unfold crossOut
    have : r % 3 = 0 ∨ r % 3 = 1 ∨ r % 3 = 2 := by omega
    rcases this with h | h | h <;> simp only [h] <;> ring

example : (List.range 3).map (crossOut (fun i => if i = 0 then (1 : Rat) else 0)
    (fun i => if i = 1 then 1 else 0)) = [0, 0, 1] := by decide +kernel

/-- `einsum(b, -K)` / `einsum(a, K)` on the `rows = repeat(arange(3 v), 2)`,
`cols = M + 3 i` pattern are the exact Jacobians of `a × b`, for every `vec_size`;
`a_name ≠ b_name` is needed with the code as it is. -/
theorem C26_cross_partials (acc : Bool) (v m aId bId : Nat) (ha : aId < m) (hb : bId < m)
    (h : acc = true ∨ aId ≠ bId) (x d : Nat → Nat → K) (r : Nat) (hr : r < 3 * v) :
    crossOut (fun i => (⟨x aId i, d aId i⟩ : Dual K)) (fun i => ⟨x bId i, d bId i⟩) r
      = ⟨crossOut (x aId) (x bId) r, totalDu m (crossJac acc v aId bId x) d r⟩ := by
  have hdu : totalDu m (crossJac acc v aId bId x) d r
      = ∑ e ∈ range 2,
          (crossVal (fun j i => - crossK j i) (x bId) (r * 2 + e)
              * d aId (crossM ((r * 2 + e) % 6) + 3 * ((r * 2 + e) / 6))
            + crossVal crossK (x aId) (r * 2 + e)
              * d bId (crossM ((r * 2 + e) % 6) + 3 * ((r * 2 + e) / 6))) := by
    rw [totalDu_eq]
    unfold crossJac
    simp only [block_mulVec _ _ _ _ _ _ hr]
    rw [Finset.sum_comm]
    apply Finset.sum_congr rfl
    intro e _
    have hnd : acc = true ∨
        (([(aId, crossVal (fun j i => - crossK j i) (x bId) (r * 2 + e)),
           (bId, crossVal crossK (x aId) (r * 2 + e))] : List (Nat × K)).map Prod.fst).Nodup := by
      rcases h with h | h
      · exact Or.inl h
      · right; simp [h]
    rw [sum_lastOrSum acc _ m (by
      intro p hp
      simp only [List.mem_cons, List.mem_nil_iff, or_false] at hp
      rcases hp with rfl | rfl <;> assumption) hnd
      (fun w => d w (crossM ((r * 2 + e) % 6) + 3 * ((r * 2 + e) / 6)))]
    simp
  rw [hdu, Finset.sum_range_succ, Finset.sum_range_succ, Finset.sum_range_zero]
  have hcase : r % 3 = 0 ∨ r % 3 = 1 ∨ r % 3 = 2 := by omega
  rcases hcase with ht | ht | ht
  · have a0 : (r * 2 + 0) % 6 = 0 ∧ (r * 2 + 0) / 6 = r / 3 := by omega
    have a1 : (r * 2 + 1) % 6 = 1 ∧ (r * 2 + 1) / 6 = r / 3 := by omega
    apply Dual.ext
    · simp only [crossOut, ht]; rfl
    · simp only [crossOut, ht, crossVal, sumRange_three, a0, a1, crossK, crossM]
      simp; ring_nf
  · have a0 : (r * 2 + 0) % 6 = 2 ∧ (r * 2 + 0) / 6 = r / 3 := by omega
    have a1 : (r * 2 + 1) % 6 = 3 ∧ (r * 2 + 1) / 6 = r / 3 := by omega
    apply Dual.ext
    · simp only [crossOut, ht]; rfl
    · simp only [crossOut, ht, crossVal, sumRange_three, a0, a1, crossK, crossM]
      simp; ring_nf
  · have a0 : (r * 2 + 0) % 6 = 4 ∧ (r * 2 + 0) / 6 = r / 3 := by omega
    have a1 : (r * 2 + 1) % 6 = 5 ∧ (r * 2 + 1) / 6 = r / 3 := by omega
    apply Dual.ext
    · simp only [crossOut, ht]; rfl
    · simp only [crossOut, ht, crossVal, sumRange_three, a0, a1, crossK, crossM]
      simp; ring_nf

/-- `c = a × a` is identically zero, the stored partial is `a · K ≠ 0`. -/
theorem C26_cross_dup_counterexample :
    (crossOut (fun i => (⟨(i : Rat) + 1, 1⟩ : Dual Rat)) (fun i => ⟨(i : Rat) + 1, 1⟩) 0).du = 0 ∧
    totalDu 1 (crossJac false 1 0 0 (fun _ i => (i : Rat) + 1)) (fun _ _ => 1) 0 = -1 ∧
    totalDu 1 (crossJac true 1 0 0 (fun _ i => (i : Rat) + 1)) (fun _ _ => 1) 0 = 0 := by
  decide +kernel

end Cross

/-! ### VectorMagnitudeComp

`sqrt` enters only through its defining equation `m * m = Σ aᵢ²`. -/

section VecMag
variable {K : Type} [Field K]

/-- `aᵢ / m` on the row-block pattern is the exact derivative of the magnitude: a dual number with
real part `m = sqrt(Σ aᵢ²) ≠ 0` is a square root of `Σ (aᵢ + ε dᵢ)²` exactly when its dual part is
`(J a · d)`, for every `vec_size` and `length` (characteristic ≠ 2). -/
theorem C26_vecmag_partials (sqrt : K → K) (v len : Nat) (a d : Nat → K) (n : Nat) (hn : n < v)
    (hs : sqrt (dotOut len a a n) * sqrt (dotOut len a a n) = dotOut len a a n)
    (h0 : sqrt (dotOut len a a n) ≠ 0) (h2 : (2 : K) ≠ 0) (M : Dual K)
    (hM : M.re = vecmagOut sqrt len a n) :
    M * M = dotOut len (fun i => (⟨a i, d i⟩ : Dual K)) (fun i => ⟨a i, d i⟩) n
      ↔ M.du = (vecmagJac sqrt v len a).mulVec d n := by
  have hd : dotOut len (fun i => (⟨a i, d i⟩ : Dual K)) (fun i => ⟨a i, d i⟩) n
      = ⟨dotOut len a a n, 2 * ∑ j ∈ range len, a (n * len + j) * d (n * len + j)⟩ := by
    unfold dotOut
    have e : (fun i => (⟨a (n * len + i), d (n * len + i)⟩ : Dual K)
                        * ⟨a (n * len + i), d (n * len + i)⟩)
        = fun i => (⟨a (n * len + i) * a (n * len + i),
                     d (n * len + i) * a (n * len + i) + a (n * len + i) * d (n * len + i)⟩
                      : Dual K) := by
      funext i; rfl
    rw [e, sumRange_dual]
    apply Dual.ext
    · rfl
    · simp only [sumRange_eq, Finset.mul_sum]
      apply Finset.sum_congr rfl
      intro j _; ring
  have hJ : (vecmagJac sqrt v len a).mulVec d n
      = (∑ j ∈ range len, a (n * len + j) * d (n * len + j)) / sqrt (dotOut len a a n) := by
    unfold vecmagJac rowBlockCoo
    rw [block_mulVec _ _ _ _ _ _ hn, div_eq_mul_inv, Finset.sum_mul]
    apply Finset.sum_congr rfl
    intro j hj
    simp only [id, div_block n len j (Finset.mem_range.mp hj), vecmagOut]
    ring
  unfold vecmagOut at hM
  rw [hd, hJ]
  set m := sqrt (dotOut len a a n) with hm
  set S := ∑ j ∈ range len, a (n * len + j) * d (n * len + j) with hS
  constructor
  · intro h
    have hdu : (M * M).du = 2 * S := by rw [h]
    simp only [Dual.mul_du, hM] at hdu
    field_simp
    have : 2 * (M.du * m) = 2 * S := by rw [← hdu]; ring
    exact mul_left_cancel₀ h2 this
  · intro h
    apply Dual.ext
    · simp only [Dual.mul_re, hM]; exact hs
    · simp only [Dual.mul_du, hM, h]
      field_simp
      ring

/-- the output is *the* Euclidean norm: the only non-negative number whose square is `Σ aᵢ²` -/
theorem C26_vecmag_formula [LinearOrder K] [IsStrictOrderedRing K] (sqrt : K → K) (len : Nat)
    (a : Nat → K) (n : Nat)
    (hs : sqrt (dotOut len a a n) * sqrt (dotOut len a a n) = dotOut len a a n)
    (hnn : 0 ≤ sqrt (dotOut len a a n)) (m : K) (hm : 0 ≤ m) (hmm : m * m = dotOut len a a n) :
    vecmagOut sqrt len a n = m := by
  unfold vecmagOut
  have h := hs.trans hmm.symm
  rcases mul_self_eq_mul_self_iff.mp h with h | h
  · exact h
  · have : m = 0 := by linarith
    rw [h, this]; simp

example : dotOut 2 (fun i => if i = 0 then (3 : Rat) else 4) (fun i => if i = 0 then 3 else 4) 0
    = 5 * 5 ∧ (5 : Rat) ≠ 0 ∧ (2 : Rat) ≠ 0 := by decide +kernel

end VecMag

/-! ### EQConstraintComp / BalanceComp -/

section Eq
variable {K : Type} [Field K] [LinearOrder K] [IsStrictOrderedRing K]

/-- the quotient rule used for dual numbers really is division: `(a / b) * b = a` -/
theorem C26_dual_div_spec (a b : Dual K) (hb : b.re ≠ 0) : a / b * b = a := by
  apply Dual.ext
  · simp only [Dual.mul_re, Dual.div_re]; field_simp
  · simp only [Dual.mul_du, Dual.div_du, Dual.div_re]; field_simp; ring

theorem csAbs_dual (r dr : K) :
    csAbs (⟨r, dr⟩ : Dual K) = ⟨csAbs r, if r < 0 then -dr else dr⟩ := by
  unfold csAbs
  by_cases h : r < 0
  · have h' : (⟨r, dr⟩ : Dual K) < 0 := h
    rw [if_pos h', if_pos h, if_pos h]; rfl
  · have h' : ¬ (⟨r, dr⟩ : Dual K) < 0 := h
    rw [if_neg h', if_neg h, if_neg h]

theorem isSmall_dual (r dr : K) : isSmall (⟨r, dr⟩ : Dual K) = isSmall r := by
  unfold isSmall
  rw [csAbs_dual, decide_eq_decide]
  exact Iff.rfl

theorem csAbs_eq_abs (r : K) : csAbs r = |r| := by
  unfold csAbs
  by_cases h : r < 0
  · rw [if_pos h, abs_of_neg h]
  · rw [if_neg h, abs_of_nonneg (not_lt.mp h)]

theorem eqScale_dual (normalize : Bool) (r dr : K) :
    eqScale normalize (⟨r, dr⟩ : Dual K)
      = ⟨eqScale normalize r, eqDScaleAt normalize (isSmall r) r * dr⟩ := by
  unfold eqScale eqScaleAt eqDScaleAt
  rw [isSmall_dual]
  cases normalize with
  | false => apply Dual.ext <;> simp
  | true =>
    simp only [if_true]
    cases hsm : isSmall r with
    | true =>
      apply Dual.ext
      · simp [eqScaleSel]
      · simp [eqScaleSel, eqDScaleSel]; ring
    | false =>
      have hns : ¬ csAbs r < 2 := by
        unfold isSmall at hsm; exact of_decide_eq_false hsm
      unfold eqScaleSel eqDScaleSel
      simp only [Bool.false_eq_true, if_false]
      rw [csAbs_dual]
      by_cases h : r < 0
      · have hsg : npSign r = -1 := by unfold npSign; rw [if_pos h]
        apply Dual.ext
        · simp
        · simp only [Dual.div_du, Dual.one_re, Dual.one_du, if_pos h, hsg]
          have : csAbs r = -r := by unfold csAbs; rw [if_pos h]
          rw [this]; ring
      · have hc : csAbs r = r := by unfold csAbs; rw [if_neg h]
        have hpos : 0 < r := by
          rw [hc] at hns
          have : (2 : K) ≤ r := not_lt.mp hns
          linarith
        have hsg : npSign r = 1 := by unfold npSign; rw [if_neg h, if_pos hpos]
        apply Dual.ext
        · simp
        · simp only [Dual.div_du, Dual.one_re, Dual.one_du, if_neg h, hsg, hc]
          ring

/-- `lhs · sf`, `mult · sf` and `(mult · lhs − rhs) · sf' − sf` on the three diagonals are the exact
derivatives of `(mult · lhs − rhs) · sf(rhs)` with respect to `mult`, `lhs`, `rhs`, for both
settings of `normalize` and `use_mult`, every value of `rhs` (both normalisation regimes, either
sign) — provided the derivative code puts the element in the same index set as the value code
(`small = isSmall rhs`: EQConstraintComp always, BalanceComp see below). -/
theorem C26_eq_partials (normalize useMult : Bool) (m l r dm dl dr : K) :
    eqOut normalize useMult (⟨m, dm⟩ : Dual K) ⟨l, dl⟩ ⟨r, dr⟩
      = ⟨eqOut normalize useMult m l r,
         (if useMult then eqDMult normalize (isSmall r) l r * dm else 0)
           + eqDLhs normalize (isSmall r) useMult m r * dl
           + eqDRhs normalize (isSmall r) useMult m l r * dr⟩ := by
  unfold eqOut
  rw [eqScale_dual]
  cases useMult with
  | true =>
    apply Dual.ext
    · simp
    · simp [eqDMult, eqDLhs, eqDRhs, eqMult, eqScale]; ring
  | false =>
    apply Dual.ext
    · simp
    · simp [eqDLhs, eqDRhs, eqMult, eqScale]; ring

/-- the documented normalisation `f_norm` -/
def fNorm (normalize : Bool) (r : K) : K :=
  if normalize then (if |r| < 2 then 1 / 4 * r ^ 2 + 1 else |r|) else 1

/-- the value is `(mult · lhs − rhs) / f_norm(rhs)` with the documented `f_norm > 0` -/
theorem C26_eq_formula (normalize useMult : Bool) (m l r : K) :
    eqOut normalize useMult m l r = (eqMult useMult m * l - r) / fNorm normalize r ∧
      0 < fNorm normalize r := by
  constructor
  · unfold eqOut eqScale eqScaleAt eqScaleSel isSmall fNorm eqMult
    rw [csAbs_eq_abs]
    cases normalize <;> cases useMult <;> by_cases h : |r| < 2 <;> simp [h] <;> ring
  · unfold fNorm
    cases normalize
    · simp
    · by_cases h : |r| < 2
      · simp only [if_true, h]; positivity
      · simp only [if_true, h, if_false]
        have : (2 : K) ≤ |r| := not_lt.mp h
        linarith

/-- the two normalisation regimes meet C¹ at `|rhs| = 2`: factor and derivative agree there, so
the index set chosen for a boundary element is immaterial -/
theorem C26_eq_norm_C1 :
    eqScaleSel true (2 : K) = eqScaleSel false 2 ∧ eqDScaleSel true (2 : K) = eqDScaleSel false 2 ∧
    eqScaleSel true (-2 : K) = eqScaleSel false (-2) ∧
    eqDScaleSel true (-2 : K) = eqDScaleSel false (-2) := by
  have h2 : ¬ (2 : K) < 0 := by norm_num
  have h2' : (0 : K) < 2 := by norm_num
  have hm2 : (-2 : K) < 0 := by norm_num
  refine ⟨?_, ?_, ?_, ?_⟩
  · simp only [eqScaleSel, csAbs, if_true, Bool.false_eq_true, if_false, if_neg h2]; norm_num
  · simp only [eqDScaleSel, npSign, if_true, Bool.false_eq_true, if_false, if_neg h2, if_pos h2']
    norm_num
  · simp only [eqScaleSel, csAbs, if_true, Bool.false_eq_true, if_false, if_pos hm2]; norm_num
  · simp only [eqDScaleSel, npSign, if_true, Bool.false_eq_true, if_false, if_pos hm2]; norm_num

theorem slabSmall_one (r : Nat → K) (i : Nat) : slabSmall 1 r i = isSmall (r i) := by
  simp [slabSmall]

/-- BalanceComp.linearize, one-dimensional state (`slab = 1`): same statement as for
EQConstraintComp.  For states with more than one axis the code selects whole slabs
(`np.where(...)[0]`) and the statement fails, see the counterexample. -/
theorem C26_balance_partials_partial (normalize useMult : Bool) (m l r dm dl dr : Nat → K)
    (i : Nat) :
    eqOut normalize useMult (⟨m i, dm i⟩ : Dual K) ⟨l i, dl i⟩ ⟨r i, dr i⟩
      = ⟨eqOut normalize useMult (m i) (l i) (r i),
         (if useMult then eqDMult normalize (slabSmall 1 r i) (l i) (r i) * dm i else 0)
           + eqDLhs normalize (slabSmall 1 r i) useMult (m i) (r i) * dl i
           + eqDRhs normalize (slabSmall 1 r i) useMult (m i) (l i) (r i) * dr i⟩ := by
  rw [slabSmall_one]; exact C26_eq_partials normalize useMult (m i) (l i) (r i) (dm i) (dl i) (dr i)

end Eq

/-- state of shape `(1, 2)`, `rhs = [1, 4]`, `lhs = 1`: the second element has `|rhs| ≥ 2`, its
residual is `(lhs − 4) / 4` with `∂/∂lhs = 1/4`, but `linearize` stores `1 / (4²/4 + 1) = 1/5`
because the first element of the slab is small. -/
theorem C26_balance_2d_counterexample :
    let r : Nat → Rat := fun i => if i = 0 then 1 else 4
    (eqOut true false (⟨0, 0⟩ : Dual Rat) ⟨1, 1⟩ ⟨r 1, 0⟩).du = 1 / 4 ∧
      eqDLhs true (isSmall (r 1)) false 0 (r 1) = 1 / 4 ∧
      eqDLhs true (slabSmall 2 r 1) false 0 (r 1) = 1 / 5 := by
  decide +kernel

/-! ### SplineComp: declared pattern -/

section Spline
variable {K : Type} [CommRing K]

/-- the declared `rows / cols` make the Jacobian block diagonal over the `vec_size` points:
output `(k, i)` depends on the control points of the same `k` only, and there the entry is
`dy_ddata[k, i, j]` -/
theorem C26_spline_pattern (v ni ncp : Nat) (hncp : 0 < ncp) (val : Nat → K) (r c : Nat)
    (hr : r < v * ni) :
    (splineJac v ni ncp val).dense r c
      = if c / ncp = r / ni then val (r * ncp + c % ncp) else 0 := by
  rw [dense_eq]
  unfold splineJac
  simp only [ite_and]
  rw [sum_div_block (v * ni) ncp r hr
    (fun e => if e / ncp / ni * ncp + e % ncp = c then val e else 0)]
  have key : ∀ j, j < ncp → ((r * ncp + j) / ncp / ni * ncp + (r * ncp + j) % ncp = c
      ↔ (c / ncp = r / ni ∧ j = c % ncp)) := by
    intro j hj
    rw [div_block r ncp j hj, mod_block r ncp j hj]
    constructor
    · intro h; subst h
      exact ⟨div_block _ _ _ hj, (mod_block _ _ _ hj).symm⟩
    · rintro ⟨h1, h2⟩
      rw [← h1, h2]; exact Nat.div_add_mod' c ncp
  by_cases h : c / ncp = r / ni
  · rw [if_pos h, Finset.sum_eq_single (c % ncp)]
    · rw [if_pos ((key _ (Nat.mod_lt _ hncp)).mpr ⟨h, rfl⟩)]
    · intro j hj hne
      rw [if_neg]
      intro hh
      exact hne ((key j (Finset.mem_range.mp hj)).mp hh).2
    · intro hh; exact absurd (Finset.mem_range.mpr (Nat.mod_lt _ hncp)) hh
  · rw [if_neg h]
    apply Finset.sum_eq_zero
    intro j hj
    rw [if_neg]
    intro hh
    exact h ((key j (Finset.mem_range.mp hj)).mp hh).1

end Spline

end OMV.C26
