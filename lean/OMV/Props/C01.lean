/-
C01 — Total derivatives equal the exact derivative of the converged model.

The model is the flat residual system `R : List (Expr K)` of OMV/Model/Spec.lean (polynomial
residuals over output variables `[0,n)` and design parameters `[n,n+L)`, connected inputs already
substituted by their transfer expressions, see `C04_transfer_subst`).  `jacEntry R env k j` is the
partial-derivative matrix the linear solves of `compute_totals` use (`A = ∂R/∂u`, `B = ∂R/∂x`).
-/
import OMV.Model.Spec
import OMV.Proofs.SpecExpr
import Mathlib.Tactic.FieldSimp

namespace OMV.Spec

open Finset

variable {K : Type} [CommRing K]

theorem sumTo_split (n m : Nat) (f : Nat → K) :
    sumTo (n + m) f = sumTo n f + sumTo m (fun l => f (n + l)) := by
  simp only [sumTo_eq, Finset.sum_range_add]

/-- **Exact derivative.** Let `env` be a converged point (all residuals zero) and let the state
direction `du` solve the linearised system `A du + B dx = 0` for a design direction `dx`
(what the seeded linear solve of `compute_totals` delivers, column by column).  Then the residuals
evaluated in dual numbers at `(u + ε du, x + ε dx)` vanish identically: the perturbed state is the
converged state of the perturbed design to first order, i.e. `du` *is* the derivative of the
converged outputs in direction `dx`. -/
theorem C01_exact_derivative (n L : Nat) (R : List (Expr K)) (env du dx : Nat → K)
    (hv : ∀ e ∈ R, Expr.varsBelow (n + L) e)
    (hconv : ∀ e ∈ R, Expr.eval env e = 0)
    (hlin : ∀ k, k < R.length →
      sumTo n (fun j => jacEntry R env k j * du j)
        + sumTo L (fun l => jacEntry R env k (n + l) * dx l) = 0) :
    ∀ e ∈ R, Expr.evalWith Dual.const
      (fun v => (⟨env v, if v < n then du v else dx (v - n)⟩ : Dual K)) e = ⟨0, 0⟩ := by
  intro e he
  rw [eval_dual, hconv e he]
  congr 1
  obtain ⟨k, hk, rfl⟩ := List.mem_iff_getElem.mp he
  rw [evalD_eq_sum (n + L) env _ _ (hv _ he), ← sumTo_eq, sumTo_split]
  have h := hlin k hk
  have e1 : ∀ j, jacEntry R env k j = Expr.eval env (Expr.diff j R[k]) := by
    intro j; simp [jacEntry, List.getElem?_eq_getElem hk]
  simp only [e1] at h
  rw [← h]
  congr 1
  · simp only [sumTo_eq]
    apply Finset.sum_congr rfl
    intro j hj
    simp [mem_range.mp hj]
  · simp only [sumTo_eq]
    apply Finset.sum_congr rfl
    intro l _
    simp

/-- **fwd = rev.** If `x` is the forward solution for a design seed (`A x = -B e_l`) and `y` the
reverse solution for a response seed (`Aᵀ y = e_o`), then the forward total `x o` equals the
reverse total `-(yᵀ B)_l`: both modes give the same matrix entry, without any matrix inverse. -/
theorem C01_fwd_eq_rev (n : Nat) (A : Nat → Nat → K) (Bl x y : Nat → K) (o : Nat) (ho : o < n)
    (hx : ∀ k, k < n → sumTo n (fun j => A k j * x j) = - Bl k)
    (hy : ∀ j, j < n → sumTo n (fun k => A k j * y k) = if j = o then 1 else 0) :
    x o = - sumTo n (fun k => y k * Bl k) := by
  have h := adjoint_identity n A x y (fun k => - Bl k) (fun j => if j = o then 1 else 0) hx hy
  simp only [sumTo_eq] at *
  have e1 : ∑ j ∈ range n, (if j = o then (1 : K) else 0) * x j = x o := by
    rw [Finset.sum_eq_single o]
    · simp
    · intro b _ hb; simp [hb]
    · intro hn; exact absurd (mem_range.mpr ho) hn
  rw [e1] at h
  rw [← h]
  simp [Finset.sum_neg_distrib]

/-- **Uniqueness.** With a left inverse `Linv · A = I` (exhibited and checked by the driver for
every generated model) the linearised system has at most one solution, so "the" derivative is
well defined and any correct linear solver returns it. -/
theorem C01_unique (n : Nat) (A Linv : Nat → Nat → K) (b v v' : Nat → K)
    (hL : ∀ j i, j < n → i < n → sumTo n (fun k => Linv j k * A k i) = if j = i then 1 else 0)
    (hv : ∀ k, k < n → sumTo n (fun i => A k i * v i) = b k)
    (hv' : ∀ k, k < n → sumTo n (fun i => A k i * v' i) = b k) :
    ∀ j, j < n → v j = v' j := by
  have key : ∀ w : Nat → K, (∀ k, k < n → sumTo n (fun i => A k i * w i) = b k) →
      ∀ j, j < n → w j = sumTo n (fun k => Linv j k * b k) := by
    intro w hw j hj
    simp only [sumTo_eq] at *
    have h1 : ∑ k ∈ range n, Linv j k * b k
        = ∑ k ∈ range n, ∑ i ∈ range n, Linv j k * (A k i * w i) := by
      apply Finset.sum_congr rfl; intro k hk
      rw [← hw k (mem_range.mp hk), Finset.mul_sum]
    rw [h1, Finset.sum_comm]
    have h2 : ∀ i ∈ range n, ∑ k ∈ range n, Linv j k * (A k i * w i)
        = (if j = i then 1 else 0) * w i := by
      intro i hi
      rw [← hL j i hj (mem_range.mp hi), Finset.sum_mul]
      apply Finset.sum_congr rfl; intro k _; ring
    rw [Finset.sum_congr rfl h2, Finset.sum_eq_single j]
    · simp
    · intro i _ hi
      have : ¬ j = i := fun h => hi h.symm
      simp [this]
    · intro hn; exact absurd (mem_range.mpr hj) hn
  intro j hj
  rw [key v hv j hj, key v' hv' j hj]

/-- Unit / driver scaling of one Jacobian entry is the chain rule for affine maps: if the response
is reported as `(r + a_r) * s_r` and the design variable is driven as `(x + a_x) * s_x`, a design
direction `d` in driver units is `d / s_x` in model units and the response moves by
`s_r * J * d / s_x`; the adders do not enter. -/
theorem C01_scaled_entry {F : Type} [Field F] (J sr ar sx ax r x d : F) (hsx : sx ≠ 0) :
    ((r + J * (d / sx)) + ar) * sr - (r + ar) * sr = (sr * J / sx) * d
    ∧ ((x + d / sx) + ax) * sx - (x + ax) * sx = d := by
  constructor
  · field_simp; ring
  · field_simp; ring

-- non-vacuity: u0 = x (IVC), u1 = 3*u0^2 at x = 2 : du = (1, 12) for dx = 1
example :
    let R : List (Expr Int) := [Expr.add (Expr.var 0) (Expr.neg (Expr.var 2)),
      Expr.add (Expr.var 1) (Expr.neg (Expr.mul (Expr.const 3) (Expr.mul (Expr.var 0) (Expr.var 0))))]
    let env : Nat → Int := fun v => [2, 12, 2].getD v 0
    (∀ e ∈ R, Expr.eval env e = 0) ∧
    (∀ k, k < R.length → sumTo 2 (fun j => jacEntry R env k j * ([1, 12].getD j 0))
        + sumTo 1 (fun l => jacEntry R env k (2 + l) * 1) = 0) := by
  decide

/-! ### the block-relaxation solvers deliver a solution of the linear system -/

section GS
variable {F : Type} [Field F]

theorem row_split (n : Nat) (a : Nat → Nat → F) (x : Nat → F) (i : Nat) (hi : i < n) :
    sumTo n (fun j => a i j * x j) = a i i * x i + offDiag n a x i := by
  unfold offDiag
  simp only [sumTo_eq]
  rw [← Finset.add_sum_erase (range n) (fun j => a i j * x j) (mem_range.mpr hi)]
  congr 1
  rw [← Finset.add_sum_erase (range n) (fun j => if j = i then 0 else a i j * x j)
    (mem_range.mpr hi)]
  simp only [if_true, zero_add]
  apply Finset.sum_congr rfl
  intro j hj
  have : j ≠ i := (Finset.mem_erase.mp hj).1
  simp [this]

/-- visiting unknown `i` makes row `i` hold -/
theorem gsStep_row (n : Nat) (a : Nat → Nat → F) (b x : Nat → F) (i : Nat) (hi : i < n)
    (hd : a i i ≠ 0) :
    sumTo n (fun j => a i j * gsStep n a b x i j) = b i := by
  rw [row_split n a _ i hi]
  have h1 : gsStep n a b x i i = (b i - offDiag n a x i) / a i i := by simp [gsStep]
  have h2 : offDiag n a (gsStep n a b x i) i = offDiag n a x i := by
    unfold offDiag
    simp only [sumTo_eq]
    apply Finset.sum_congr rfl
    intro j _
    by_cases hj : j = i
    · simp [hj]
    · simp [hj, gsStep]
  rw [h1, h2]
  field_simp
  ring

/-- **LinearBlockGS: a fixed point of the sweep solves the system.**  If visiting any unknown leaves
the iterate unchanged (what a converged block Gauss-Seidel iteration has reached) then every row
of `A x = b` holds. -/
theorem C01_gs_fixed_point (n : Nat) (a : Nat → Nat → F) (b x : Nat → F)
    (hd : ∀ i, i < n → a i i ≠ 0) (hfix : ∀ i, i < n → gsStep n a b x i = x) :
    ∀ i, i < n → sumTo n (fun j => a i j * x j) = b i := by
  intro i hi
  have := gsStep_row n a b x i hi (hd i hi)
  rwa [hfix i hi] at this

/-- a row that does not involve unknown `i` is not disturbed by visiting `i` -/
theorem gsStep_keeps_row (n : Nat) (a : Nat → Nat → F) (b x : Nat → F) (i k : Nat)
    (h0 : a k i = 0) :
    sumTo n (fun j => a k j * gsStep n a b x i j) = sumTo n (fun j => a k j * x j) := by
  simp only [sumTo_eq]
  apply Finset.sum_congr rfl
  intro j _
  by_cases hj : j = i
  · subst hj; simp [h0]
  · simp [gsStep, hj]

/-- rows of the unknowns visited so far hold, provided no visited row involves a later unknown -/
theorem gsSweep_rows (n : Nat) (a : Nat → Nat → F) (b : Nat → F) :
    ∀ (order : List Nat) (x : Nat → F) (done : List Nat),
      (∀ i ∈ order, i < n ∧ a i i ≠ 0) →
      (∀ k ∈ done, sumTo n (fun j => a k j * x j) = b k) →
      (∀ k ∈ done, ∀ i ∈ order, a k i = 0) →
      order.Pairwise (fun p q => a p q = 0) →
      ∀ k ∈ done ++ order, sumTo n (fun j => a k j * gsSweep n a b x order j) = b k := by
  intro order
  induction order with
  | nil => intro x done _ hdone _ _ k hk; simpa [gsSweep] using hdone k (by simpa using hk)
  | cons i rest ih =>
    intro x done hin hdone hz hpw k hk
    obtain ⟨hi, hdi⟩ := hin i (by simp)
    have hstep : gsSweep n a b x (i :: rest) = gsSweep n a b (gsStep n a b x i) rest := by
      simp [gsSweep]
    rw [hstep]
    have hpw' := List.pairwise_cons.mp hpw
    apply ih (gsStep n a b x i) (done ++ [i])
    · intro j hj; exact hin j (List.mem_cons_of_mem _ hj)
    · intro k hk
      rcases List.mem_append.mp hk with hk | hk
      · rw [gsStep_keeps_row n a b x i k (hz k hk i (by simp))]; exact hdone k hk
      · have : k = i := by simpa using hk
        subst this; exact gsStep_row n a b x k hi hdi
    · intro k hk j hj
      rcases List.mem_append.mp hk with hk | hk
      · exact hz k hk j (List.mem_cons_of_mem _ hj)
      · have : k = i := by simpa using hk
        subst this; exact hpw'.1 j hj
    · exact hpw'.2
    · simpa [List.append_assoc] using hk

/-- **LinearRunOnce on a feed-forward model is an exact solve.**  If no row involves an unknown
that is visited later (the matrix is triangular with respect to the visiting order: execution
order on `A` in forward mode, reverse order on `Aᵀ` in reverse mode), a single pass from any
starting vector satisfies every visited row. -/
theorem C01_runonce_triangular (n : Nat) (a : Nat → Nat → F) (b x : Nat → F) (order : List Nat)
    (hin : ∀ i ∈ order, i < n ∧ a i i ≠ 0)
    (htri : order.Pairwise (fun p q => a p q = 0)) :
    ∀ k ∈ order, sumTo n (fun j => a k j * gsSweep n a b x order j) = b k := by
  have := gsSweep_rows n a b order x [] hin (by simp) (by simp) htri
  simpa using this

example : gsSweep 2 (fun i j => if i = 1 ∧ j = 0 then (3 : Rat) else if i = j then 1 else 0)
    (fun i => if i = 0 then 2 else 5) (fun _ => 7) [0, 1] 1 = -1 := by
  decide +kernel

end GS

end OMV.Spec
