/-
C06 — Unit conversion is a consistent affine algebra.
Property theorems only (plus non-vacuity examples and the counterexamples that mark the exact
hypotheses).  Helper lemmas: OMV/Proofs/C06Basic.lean, C06Names.lean, C06Eval.lean.

Sections
  A. conversion laws over any field (round trip, composition, compatibility decides success)
  B. the factor implied by the parts (product, quotient, power, inverse power, SI prefix) and the
     offset-rejection rule
  C. `simplify_unit`: the invariant `factor = ∏ atom ^ power` along evaluation and soundness of
     rendering the name and parsing it again (over ℚ), with kernel-checked witnesses on the inputs
     that were wrong before the repairs of units.py
  D. the hypotheses hold for the whole shipped library (generated table) and stay true when
     `_find_unit` adds prefixed units
-/
import OMV.Model.C06
import OMV.Generated.C06UnitLib
import OMV.Proofs.C06Basic
import OMV.Proofs.C06Names
import OMV.Proofs.C06Eval

set_option linter.unusedSectionVars false
set_option linter.unusedVariables false
set_option linter.unusedSimpArgs false

namespace OMV.C06
open _root_.OMV.C06.PUnit

/-! ## A. Conversion laws -/

section Field
variable {K : Type} [Field K] [DecidableEq K]

/-- `convert_units` preserves the physical quantity: the converted value, read in unit `b`, is
the same amount of base units as the original value read in unit `a`. -/
theorem C06_convert_preserves_quantity (x y : K) (a b : PUnit K) (ha : a.factor ≠ 0)
    (hb : b.factor ≠ 0) (h : convert x a b = .ok y) : toBase b y = toBase a x := by
  by_cases hp : a.powers = b.powers
  · rw [convert_ok x a b ha hb hp] at h
    simp at h
    subst h
    unfold toBase
    field_simp
    ring
  · simp [convert, conversionTuple, hp] at h

/-- A → B → A returns the value. -/
theorem C06_roundtrip (x : K) (a b : PUnit K) (ha : a.factor ≠ 0) (hb : b.factor ≠ 0)
    (hp : a.powers = b.powers) :
    ∃ y, convert x a b = .ok y ∧ convert y b a = .ok x := by
  refine ⟨_, convert_ok x a b ha hb hp, ?_⟩
  rw [convert_ok _ b a hb ha hp.symm]
  congr 1
  field_simp
  ring

/-- A → B → C equals A → C. -/
theorem C06_compose (x : K) (a b c : PUnit K) (ha : a.factor ≠ 0) (hb : b.factor ≠ 0)
    (hc : c.factor ≠ 0) (hab : a.powers = b.powers) (hbc : b.powers = c.powers) :
    ∃ y z, convert x a b = .ok y ∧ convert y b c = .ok z ∧ convert x a c = .ok z := by
  refine ⟨_, _, convert_ok x a b ha hb hab, convert_ok _ b c hb hc hbc, ?_⟩
  rw [convert_ok x a c ha hc (hab.trans hbc)]
  congr 1
  field_simp
  ring

/-- `is_compatible` is an equivalence relation. -/
theorem C06_compat_equiv :
    (∀ a : PUnit K, isCompatible a a = true) ∧
    (∀ a b : PUnit K, isCompatible a b = true → isCompatible b a = true) ∧
    (∀ a b c : PUnit K, isCompatible a b = true → isCompatible b c = true →
      isCompatible a c = true) := by
  refine ⟨?_, ?_, ?_⟩
  · intro a; simp [isCompatible]
  · intro a b h; simp [isCompatible] at *; exact h.symm
  · intro a b c h1 h2; simp [isCompatible] at *; exact h1.trans h2

/-- `is_compatible` decides exactly whether `convert_units` / `unit_conversion` succeed, and the
failure of an incompatible pair is the `TypeError` branch. -/
theorem C06_convert_ok_iff_compat (x : K) (a b : PUnit K) (ha : a.factor ≠ 0) (hb : b.factor ≠ 0) :
    ((∃ y, convert x a b = .ok y) ↔ isCompatible a b = true) ∧
    ((∃ sd, conversionTuple a b = .ok sd) ↔ isCompatible a b = true) ∧
    (isCompatible a b = false → convert x a b = .error .typeErr ∧
      conversionTuple a b = .error .typeErr) := by
  by_cases hp : a.powers = b.powers
  · simp [convert, conversionTuple, isCompatible, hp, ha, hb]
  · simp [convert, conversionTuple, isCompatible, hp, ha, hb]

/-- The hypothesis "non-zero factor" is needed: a unit with factor 0 (`0*m`) is compatible with
`m` and cannot be converted. -/
theorem C06_convert_ok_iff_compat_needs_nonzero :
    let z : PUnit Rat := ⟨0, 0, [1], []⟩
    let m : PUnit Rat := ⟨1, 0, [1], []⟩
    isCompatible z m = true ∧ convert (1 : Rat) z m = .error .zeroDiv := by decide +kernel

/-! ## B. Composite units get the factor implied by their parts -/

/-- product: factors multiply, dimensions add, and `x [a] · y [b] = (x·y) [a*b]` -/
theorem C06_mul_factor (a b c : PUnit K) (h : mul a b = .ok c) :
    c.factor = a.factor * b.factor ∧ c.offset = 0 ∧
    c.powers = List.zipWith (· + ·) a.powers b.powers ∧
    ∀ x y, toBase c (x * y) = toBase a x * toBase b y := by
  unfold mul at h
  split at h
  · simp at h
  · rename_i ho
    simp only [not_or, not_not] at ho
    simp at h
    subst h
    refine ⟨rfl, rfl, rfl, ?_⟩
    intro x y
    simp [toBase, ho.1, ho.2]
    ring

/-- quotient -/
theorem C06_div_factor (a b c : PUnit K) (h : div a b = .ok c) :
    b.factor ≠ 0 ∧ c.factor = a.factor / b.factor ∧ c.offset = 0 ∧
    c.powers = List.zipWith (· - ·) a.powers b.powers ∧
    ∀ x y, toBase c (x / y) = toBase a x / toBase b y := by
  unfold div at h
  split at h
  · simp at h
  · rename_i ho
    simp only [not_or, not_not] at ho
    split at h
    · simp at h
    · rename_i hb
      simp at h
      subst h
      refine ⟨hb, rfl, rfl, rfl, ?_⟩
      intro x y
      simp [toBase, ho.1, ho.2]
      ring

/-- integer power (negative exponents included) -/
theorem C06_pow_factor (a c : PUnit K) (n : Int) (h : powI a n = .ok c) :
    c.factor = a.factor ^ n ∧ c.offset = 0 ∧ c.powers = a.powers.map (· * n) ∧
    ∀ x, toBase c (x ^ n) = (toBase a x) ^ n := by
  unfold powI at h
  split at h
  · simp at h
  · rename_i ho
    simp only [not_not] at ho
    split at h
    · simp at h
    · simp at h
      subst h
      refine ⟨powInt_eq _ _, rfl, rfl, ?_⟩
      intro x
      simp [toBase, ho, powInt_eq, mul_zpow]

/-- inverse-integer power `u ** (1/r)`: the result is an `r`-th root of the factor and of the
dimension (for any `root` oracle that returns `r`-th roots). -/
theorem C06_pow_inv_factor (root : K → Int → Option K) (bn : List String) (a c : PUnit K) (r : Int)
    (hroot : ∀ x y, root x r = some y → y ^ r = x) (h : powInv root bn a r = .ok c) :
    r ≠ 0 ∧ c.factor ^ r = a.factor ∧ c.offset = 0 ∧ c.powers.map (· * r) = a.powers := by
  unfold powInv at h
  split at h
  · simp at h
  · split at h
    · simp at h
    · rename_i hr
      split at h
      · rename_i hall
        split at h
        · simp at h
        · rename_i f hf
          simp at h
          subst h
          refine ⟨hr, hroot _ _ hf, rfl, ?_⟩
          simp only [List.map_map]
          conv_rhs => rw [← List.map_id a.powers]
          apply List.map_congr_left
          intro p hp
          have := List.all_eq_true.mp hall p hp
          simp at this
          simp [Function.comp]
          exact Int.ediv_mul_cancel (Int.dvd_of_emod_eq_zero this)
      · simp at h

/-- SI prefix: what `_find_unit` stores for `prefix+name` is `prefix` times the unit, under its own
name, and a value `x` in the prefixed unit is `prefix·x` in the unit. -/
theorem C06_prefix_factor (u v : PUnit K) (p : K) (item : String) (h : prefixed u p item = .ok v) :
    v.factor = u.factor * p ∧ v.offset = 0 ∧ v.powers = u.powers ∧ u.offset = 0 ∧
    v.names = [(Atom.sym item, Pw.one)] ∧ ∀ x, toBase v x = toBase u (p * x) := by
  unfold prefixed mulNum at h
  split at h
  · simp at h
  · rename_i w hw
    split at hw
    · simp at hw
    · rename_i ho
      simp only [not_not] at ho
      simp at hw
      simp at h
      subst h
      subst hw
      refine ⟨rfl, by simp [ho], rfl, ho, rfl, ?_⟩
      intro x
      simp [toBase, ho]
      ring

/-- number / unit (`__rdiv__`) -/
theorem C06_rdiv_factor (a c : PUnit K) (x : K) (k : Atom K) (h : rdiv a x k = .ok c) :
    a.offset = 0 ∧ a.factor ≠ 0 ∧ c.factor = x / a.factor ∧ c.offset = 0 ∧
    c.powers = a.powers.map (fun p => -p) ∧
    ∀ y z, toBase c (y / z) = y * x / toBase a z := by
  unfold rdiv at h
  split at h
  · simp at h
  · rename_i ho
    simp only [not_not] at ho
    split at h
    · simp at h
    · rename_i hf
      simp at h
      subst h
      refine ⟨ho, hf, rfl, rfl, rfl, ?_⟩
      intro y z
      simp [toBase, ho]
      ring

/-- `*`, `/`, `**`, multiplication / division by a number and number / unit raise `TypeError`
exactly when an offset is present. -/
theorem C06_offset_arith_rejected (a b : PUnit K) (x : K) (k : Atom K) (n : Int) :
    (mul a b = .error .typeErr ↔ (a.offset ≠ 0 ∨ b.offset ≠ 0)) ∧
    (div a b = .error .typeErr ↔ (a.offset ≠ 0 ∨ b.offset ≠ 0)) ∧
    (powI a n = .error .typeErr ↔ a.offset ≠ 0) ∧
    (mulNum a x k = .error .typeErr ↔ a.offset ≠ 0) ∧
    (divNum a x k = .error .typeErr ↔ a.offset ≠ 0) ∧
    (rdiv a x k = .error .typeErr ↔ a.offset ≠ 0) := by
  refine ⟨?_, ?_, ?_, ?_, ?_, ?_⟩
  · unfold mul; split <;> simp_all
  · unfold div; split
    · simp_all
    · split <;> simp_all
  · unfold powI; split
    · simp_all
    · split <;> simp_all
  · unfold mulNum; split <;> simp_all
  · unfold divNum; split
    · simp_all
    · split <;> simp_all
  · unfold rdiv; split
    · simp_all
    · split <;> simp_all

end Field

-- non-vacuity: Celsius / Fahrenheit / kelvin with exact rational data
section Examples
def exC : PUnit Rat := ⟨1, 27315 / 100, [1], []⟩
def exF : PUnit Rat := ⟨5 / 9, 45967 / 100, [1], []⟩
def exK : PUnit Rat := ⟨1, 0, [1], []⟩
def exM : PUnit Rat := ⟨1, 0, [1, 0], []⟩
def exS : PUnit Rat := ⟨1, 0, [0, 1], []⟩
def exFt : PUnit Rat := ⟨381 / 1250, 0, [1, 0], []⟩

example : convert (100 : Rat) exC exF = .ok 212 ∧ convert (212 : Rat) exF exC = .ok 100 ∧
    convert (212 : Rat) exF exK = .ok (37315 / 100) ∧ convert (100 : Rat) exC exK = .ok (37315 / 100) ∧
    exC.factor ≠ 0 ∧ exF.factor ≠ 0 ∧ exC.powers = exF.powers := by decide +kernel
example : isCompatible exM exS = false ∧ convert (1 : Rat) exM exS = .error .typeErr ∧
    isCompatible exM exFt = true ∧ convert (1 : Rat) exM exFt = .ok (1250 / 381) := by decide +kernel
example : (match mul exFt exS with
      | .ok c => decide (c.factor = 381 / 1250 ∧ c.powers = [1, 1])
      | _ => false) = true ∧
    (match powI exFt (-2) with
      | .ok c => decide (c.factor = (1250 / 381) ^ 2 ∧ c.powers = [-2, 0])
      | _ => false) = true ∧
    (match prefixed exFt 1000 "kft" with
      | .ok c => decide (c.factor = 1524 / 5)
      | _ => false) = true ∧
    mul exC exS = .error .typeErr ∧ powI exC 2 = .error .typeErr ∧
    rdiv exC 1 (Atom.litI 1) = .error .typeErr ∧
    (match rdiv exFt 2 (Atom.litI 2) with
      | .ok c => decide (c.factor = 2500 / 381 ∧ c.powers = [-1, 0])
      | _ => false) = true := by decide +kernel
example : (match powInv (fun x r => if x = 16 ∧ r = 2 then some 4 else none) []
      (⟨16, 0, [2, 0], []⟩ : PUnit Rat) 2 with
    | .ok c => decide (c.factor = 4 ∧ c.powers = [1, 0])
    | _ => false) = true := by decide +kernel
end Examples

/-! ## C. `simplify_unit` -/

/-- Along evaluation with integer powers only (`noRoot`: every inverse-integer power fails) and no
zero literal, every unit satisfies `factor = ∏ atom ^ power`, `powers = Σ power • atomPowers`,
all its atoms are table units / non-zero numbers, its factor is non-zero, and it is either an
untouched table unit or has no offset and only offset-free unit names in `_names` (every operator,
`__rdiv__` included, rejects offset operands). -/
theorem C06_names_invariant (bn : List String) (t : Table) (n : Nat) (hT : TableOK t n)
    (e : Expr) (u : PUnit Rat) (hz : NoZeroLit e) (h : evalE noRoot bn t e = .ok (.unit u)) :
    u.factor = namesF t u.names ∧ u.powers.length = n ∧
    (∀ i, u.powers.getD i 0 = namesPAt t i u.names) ∧
    (∀ kv ∈ u.names, AtomOK t n kv.1) ∧ u.factor ≠ 0 ∧
    ((∃ a, u.names = [(Atom.sym a, Pw.one)] ∧ tlookup t a = some u) ∨
     (u.offset = 0 ∧ OffFree t u.names)) := by
  obtain ⟨hI, hS⟩ := eval_inv bn t n hT e (.unit u) hz h
  exact ⟨hI.fac, hI.len, hI.pw, hI.atoms, hI.factor_ne_zero, hS⟩

/-- Soundness of `name()` followed by parsing again, for any unit that satisfies the invariant:
evaluating the rendered name gives the same factor, offset and dimension, and the value is a unit
(not a bare number) whenever a unit name is left in `_names` — the case in which `simplify_unit`
returns the rendered name. -/
theorem C06_name_sound (root : Rat → Int → Option Rat) (bn : List String) (t : Table) (n : Nat)
    (u : PUnit Rat) (hI : Inv t n u) (hS : Shape t u) :
    ∃ v, evalE root bn t (nameExpr u.names) = .ok v ∧ valF v = u.factor ∧ valO v = u.offset ∧
      (∀ i, valPAt i v = u.powers.getD i 0) ∧ (∀ w, v = .unit w → w.powers = u.powers) ∧
      (hasUnitName t u.names = true → ∃ w, v = .unit w) := by
  rcases hS with ⟨a, hn, ha⟩ | ⟨ho, hoff⟩
  · refine ⟨.unit u, ?_, rfl, rfl, fun _ => rfl, ?_, fun _ => ⟨u, rfl⟩⟩
    · simp [hn, nameExpr, nameHead, numPieces, denPieces, pieceExpr, atomExpr, Pw.one, evalE, ha]
    · intro w hw; cases hw; rfl
  · have hent : ∀ kv ∈ u.names, EntryOK t n kv := fun kv hkv => ⟨hI.atoms kv hkv, hoff kv hkv⟩
    obtain ⟨v, hv, hg, hf, hp, hu⟩ := nameExpr_eval root bn t n u.names hent
    refine ⟨v, hv, by rw [hf, hI.fac], ?_, fun i => by rw [hp, hI.pw], ?_, ?_⟩
    · cases v with
      | num x => simp [valO, ho]
      | unit w => simp [valO, ho, hg.1]
    · intro w hw
      subst hw
      exact list_eq_of_getD _ _ (hg.2.1.trans hI.len.symm) (fun i => by
        have := hp i; simp only [valPAt] at this; rw [this, hI.pw])
    · intro hh
      rw [hasUnitName_split t n u.names hI.atoms, ← hu] at hh
      cases v with
      | num x => simp [Val.isUnit] at hh
      | unit w => exact ⟨w, rfl⟩

/-- `simplify_unit` is sound (full strength for expressions with integer powers): evaluate an
accepted expression, render the name of the result, evaluate the rendered name again — same
factor, offset and dimension, and a unit again whenever the rendered name is what `simplify_unit`
returns (`hasUnitName`; otherwise it returns its argument, or `None` for `'1'`).
The only hypotheses left are the well-formed table and "no zero literal" (non-zero factors);
`IntNames` / `LitsPos` / `OffFree` of the former `_partial` statement are now consequences. -/
theorem C06_simplify_sound (root : Rat → Int → Option Rat) (bn : List String) (t : Table)
    (n : Nat) (hT : TableOK t n) (e : Expr) (u : PUnit Rat) (hz : NoZeroLit e)
    (h : evalE noRoot bn t e = .ok (.unit u)) :
    ∃ v, evalE root bn t (nameExpr u.names) = .ok v ∧ valF v = u.factor ∧ valO v = u.offset ∧
      (∀ i, valPAt i v = u.powers.getD i 0) ∧ (∀ w, v = .unit w → w.powers = u.powers) ∧
      (hasUnitName t u.names = true → ∃ w, v = .unit w) := by
  obtain ⟨hI, hS⟩ := eval_inv bn t n hT e (.unit u) hz h
  exact C06_name_sound root bn t n u hI hS

/-! ### the inputs that were wrong before the repairs (generated table, `decide +kernel`),
through the whole modelled API: lexer, parser, `_find_unit` with its prefix scan, `name()` -/

/-- `(m**4)**0.5` is simplified to `m**2` (was `m**2.0`, which does not parse back), and that
string denotes the same unit. -/
theorem C06_simplify_inverse_power_witness :
    simpIs (apiSimplify rootOfOne Gen.lib "(m**4)**0.5")
      (.toks [Tok.ident "m", Tok.dstar, Tok.int 2]) = true ∧
    findIs (findUnit rootOfOne Gen.lib "(m**4)**0.5") 1 0 [2, 0, 0, 0, 0, 0, 0, 0, 0, 0, 0, 0, 0] = true ∧
    findIs (findUnit rootOfOne Gen.lib "m**2") 1 0 [2, 0, 0, 0, 0, 0, 0, 0, 0, 0, 0, 0, 0] = true := by
  decide +kernel

/-- `1/degC*m` is rejected with `TypeError` by every entry point (was accepted, and its
simplified form `1*m/degC` rejected). -/
theorem C06_offset_rdiv_witness :
    simpErrIs (apiSimplify noRoot Gen.lib "1/degC*m") .typeErr = true ∧
    simpErrIs (apiSimplify noRoot Gen.lib "1/degF") .typeErr = true := by
  decide +kernel

/-- `(-2*m)**2` has factor 4 and is simplified to `m**2*(-2)**2`, which has factor 4 again
(was `m**2*-2**2`, factor -4). -/
theorem C06_simplify_negative_number_witness :
    simpIs (apiSimplify noRoot Gen.lib "(-2*m)**2")
      (.toks [Tok.ident "m", Tok.dstar, Tok.int 2, Tok.star, Tok.lpar, Tok.minus, Tok.int 2,
              Tok.rpar, Tok.dstar, Tok.int 2]) = true ∧
    findIs (findUnit noRoot Gen.lib "(-2*m)**2") 4 0 [2, 0, 0, 0, 0, 0, 0, 0, 0, 0, 0, 0, 0] = true ∧
    findIs (findUnit noRoot Gen.lib "m**2*(-2)**2") 4 0 [2, 0, 0, 0, 0, 0, 0, 0, 0, 0, 0, 0, 0] = true := by
  decide +kernel

/-- `m/m*2` is returned as it is (was `'2'`, which is not a unit string); `ft*s/s` is still
simplified to `ft`, and `m/m` to `None`. -/
theorem C06_simplify_number_only_witness :
    simpIs (apiSimplify noRoot Gen.lib "m/m*2") .same = true ∧
    simpIs (apiSimplify noRoot Gen.lib "ft*s/s") (.toks [Tok.ident "ft"]) = true ∧
    simpIs (apiSimplify noRoot Gen.lib "m/m") .unity = true := by
  decide +kernel

/-- From the pristine library, `km*1e3` and `km*arc_minute` are accepted by the first call (the
prefix scan no longer takes `e3`, `arc`, `minute` for unit names); an unknown name still gives
`None`. -/
theorem C06_prefix_scan_witness :
    scanItems "km*1e3".toList = ["km".toList] ∧
    scanItems "1.5e-3*kW/arc_minute".toList = ["kW".toList, "arc_minute".toList] ∧
    findIs (findUnit noRoot Gen.lib "km*1e3") 1000000 0 [1, 0, 0, 0, 0, 0, 0, 0, 0, 0, 0, 0, 0] = true ∧
    (match (findUnit noRoot Gen.lib "km*arc_minute").1 with
      | .ok u => decide (u.powers = [1, 0, 0, 0, 0, 0, 0, 1, 0, 0, 0, 0, 0])
      | .error _ => false) = true ∧
    (match (findUnit noRoot Gen.lib "km*foo").1 with
      | .error .invalid => true
      | _ => false) = true := by
  decide +kernel

-- non-vacuity of C06_names_invariant / C06_name_sound / C06_simplify_sound on the shipped table:
-- `ft*s**2/(-3*lbf)` evaluates, has no zero literal, the link `parse ∘ name` is the name
-- expression, and evaluating the rendered name returns the same factor, dimension and offset;
-- a bare offset unit (`degC`) renders as itself
example :
    (match evalE noRoot Gen.baseNames Gen.unitTable
        (Expr.div (Expr.mul (Expr.ident "ft") (Expr.pow (Expr.ident "s") (Expr.int 2)))
          (Expr.mul (Expr.neg (Expr.int 3)) (Expr.ident "lbf"))) with
      | .ok (.unit u) =>
        decide (u.offset = 0) && offFreeB Gen.unitTable u.names && hasUnitName Gen.unitTable u.names &&
        decide (parseToks (nameToks u.names) = some (nameExpr u.names)) &&
        (match evalE noRoot Gen.baseNames Gen.unitTable (nameExpr u.names) with
          | .ok (.unit w) => decide (w.factor = u.factor ∧ w.powers = u.powers ∧ w.offset = 0)
          | _ => false)
      | _ => false) = true ∧
    (match evalE noRoot Gen.baseNames Gen.unitTable (Expr.ident "degC") with
      | .ok (.unit u) =>
        decide (u.offset ≠ 0) &&
        (match evalE noRoot Gen.baseNames Gen.unitTable (nameExpr u.names) with
          | .ok (.unit w) => decide (w = u)
          | _ => false)
      | _ => false) = true := by decide +kernel

/-! ## D. The shipped library -/

/-- The generated table (the live `_UNIT_LIB.unit_table`) is well formed: every factor is
non-zero, every unit has one power per base unit, every entry is named by a key of the same unit.
So the hypotheses of all theorems above hold for every unit of the shipped library. -/
theorem C06_lib_wellformed : TableOK Gen.unitTable Gen.baseNames.length := by
  intro s u hu
  obtain ⟨k1, h1, _⟩ := all_of_lookup Gen.factor_pos hu
  obtain ⟨k2, h2, _⟩ := all_of_lookup Gen.powers_len hu
  obtain ⟨k3, h3, _⟩ := all_of_lookup Gen.names_alias hu
  refine ⟨?_, ?_, ?_⟩
  · simp at h1; exact h1.ne'
  · simpa using h2
  · simp only at h3
    split at h3
    · rename_i a p hn
      simp at h3
      exact ⟨a, by rw [hn, h3.1], h3.2⟩
    · simp at h3

/-- offsets occur exactly on the generated list of offset units (`degC`, `degF`) -/
theorem C06_lib_offsets (s : String) (u : PUnit Rat) (hu : tlookup Gen.unitTable s = some u)
    (hs : s ∉ Gen.offsetUnits) : u.offset = 0 := by
  obtain ⟨k, h, hk⟩ := all_of_lookup Gen.offset_iff hu
  subst hk
  simp only [beq_iff_eq] at h
  by_contra hne
  have : Gen.offsetUnits.contains k = true := by rw [← h]; simpa using hne
  exact hs (by simpa using this)

/-- all conversion laws for every pair / triple of compatible library units, every value -/
theorem C06_lib_laws (sa sb sc : String) (a b c : PUnit Rat)
    (ha : tlookup Gen.unitTable sa = some a) (hb : tlookup Gen.unitTable sb = some b)
    (hc : tlookup Gen.unitTable sc = some c) (x : Rat) :
    ((∃ y, convert x a b = .ok y) ↔ isCompatible a b = true) ∧
    (a.powers = b.powers → ∃ y, convert x a b = .ok y ∧ convert y b a = .ok x) ∧
    (a.powers = b.powers → b.powers = c.powers →
      ∃ y z, convert x a b = .ok y ∧ convert y b c = .ok z ∧ convert x a c = .ok z) := by
  have fa := (C06_lib_wellformed sa a ha).1
  have fb := (C06_lib_wellformed sb b hb).1
  have fc := (C06_lib_wellformed sc c hc).1
  exact ⟨(C06_convert_ok_iff_compat x a b fa fb).1, C06_roundtrip x a b fa fb,
    C06_compose x a b c fa fb fc⟩

/-- One item of `_find_unit`'s prefix scan keeps the table well formed (prefix multipliers are
non-zero), so the hypotheses also hold in every library state reachable by adding prefixed units. -/
theorem C06_prefix_scan_preserves_wellformed (lib lib' : Lib) (n : Nat) (item : List Char)
    (hT : TableOK lib.table n) (hp : ∀ k v, plookup lib.prefixes k = some v → v ≠ 0)
    (h : scanOne lib item = .ok (some lib')) :
    TableOK lib'.table n ∧ lib'.prefixes = lib.prefixes := by
  have key : ∀ (pf : Rat) (u v : PUnit Rat) (name base : String), pf ≠ 0 →
      tlookup lib.table name = none → tlookup lib.table base = some u →
      prefixed u pf name = .ok v → TableOK (lib.table ++ [(name, v)]) n := by
    intro pf u v name base hpf hfresh hu hv
    obtain ⟨h1, _, h3, _, h5, _⟩ := C06_prefix_factor u v pf name hv
    obtain ⟨g1, g2, _⟩ := hT base u hu
    exact tableOK_append hT name v hfresh (by rw [h1]; exact mul_ne_zero g1 hpf)
      (by rw [h3]; exact g2) h5
  have ite_some : ∀ (c : Prop) [Decidable c] (o : Option (PUnit Rat)) (u : PUnit Rat),
      (if c then o else none) = some u → o = some u := by
    intro c _ o u h
    split at h
    · exact h
    · simp at h
  unfold scanOne at h
  simp only at h
  split at h
  · simp at h; subst h; exact ⟨hT, rfl⟩
  · rename_i hfresh
    split at h
    · rename_i pf u hpf hu
      split at h
      · simp at h
      · rename_i v hv
        simp at h; subst h
        exact ⟨key pf u v _ _ (hp _ _ hpf) hfresh (ite_some _ _ _ hu) hv, rfl⟩
    · split at h
      · rename_i pf u hpf hu
        split at h
        · simp at h
        · rename_i v hv
          simp at h; subst h
          exact ⟨key pf u v _ _ (hp _ _ hpf) hfresh (ite_some _ _ _ hu) hv, rfl⟩
      · simp at h

/-- the shipped prefix multipliers are non-zero -/
theorem C06_lib_prefix_ne_zero (k : String) (v : Rat) (h : plookup Gen.prefixes k = some v) : v ≠ 0 := by
  have : ∀ (p : List (String × Rat)), p.all (fun e => decide (0 < e.2)) = true →
      plookup p k = some v → v ≠ 0 := by
    intro p
    induction p with
    | nil => intro _ h; simp [plookup] at h
    | cons e rest ih =>
      intro hall h
      obtain ⟨k', w⟩ := e
      simp only [List.all_cons, Bool.and_eq_true, decide_eq_true_eq] at hall
      unfold plookup at h
      split at h
      · simp at h; subst h; exact hall.1.ne'
      · exact ih hall.2 h
  exact this _ Gen.prefix_pos h

end OMV.C06
