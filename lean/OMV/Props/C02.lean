/-
C02 — Forward and reverse linear operators are exact adjoints.
-/
import OMV.Model.C02
import OMV.Proofs.SpecExpr

namespace OMV.C02

open Finset OMV.Spec

variable {K : Type} [CommRing K]

theorem sumList_eq_sum (l : List K) : sumList l = l.sum := by
  induction l with
  | nil => rfl
  | cons a as ih => simp only [sumList, List.foldr_cons, List.sum_cons] at *; rw [ih]

/-- **Transfers.** ⟨w, gather v⟩ = ⟨bincount w, v⟩ for arbitrary (also repeated) source indices:
the reverse transfer has to accumulate, an assignment would lose the repeated entries. -/
theorem C02_transfer_adjoint (n m : Nat) (idx : Nat → Nat) (v w : Nat → K)
    (h : ∀ k, k < m → idx k < n) :
    dot m w (gatherF idx v) = dot n (scatterAdd idx m w) v := by
  unfold dot gatherF scatterAdd
  simp only [sumTo_eq]
  have : ∀ j ∈ range n, (∑ k ∈ range m, if idx k = j then w k else 0) * v j
      = ∑ k ∈ range m, if idx k = j then w k * v (idx k) else 0 := by
    intro j _
    rw [Finset.sum_mul]
    apply Finset.sum_congr rfl
    intro k _
    by_cases hk : idx k = j <;> simp [hk]
  rw [Finset.sum_congr rfl this, Finset.sum_comm]
  apply Finset.sum_congr rfl
  intro k hk
  rw [Finset.sum_ite_eq]
  simp [mem_range.mpr (h k (mem_range.mp hk))]

/-- an assignment-style reverse transfer (last write wins) is *not* the adjoint when a source
element is used twice -/
theorem C02_transfer_assignment_not_adjoint :
    dot 2 (fun _ => (1 : Int)) (gatherF (fun _ => 0) (fun _ => 1))
      ≠ dot 1 (fun _ => (1 : Int)) (fun _ => 1) := by decide

theorem applyFwd_dot (T : List (Trip K)) (keep : Trip K → Bool) (nr : Nat) (v w : Nat → K)
    (h : ∀ t ∈ T, t.r < nr) :
    dot nr w (applyFwd T keep v) = ((T.filter keep).map (fun t => t.a * w t.r * v t.c)).sum := by
  unfold dot applyFwd
  simp only [sumTo_eq, sumList_eq_sum]
  have hf : ∀ t ∈ T.filter keep, t.r < nr := fun t ht => h t (List.mem_filter.mp ht).1
  generalize T.filter keep = L at hf
  induction L with
  | nil => simp
  | cons t ts ih =>
    simp only [List.map_cons, List.sum_cons, mul_add, Finset.sum_add_distrib]
    rw [ih (fun s hs => hf s (List.mem_cons_of_mem _ hs))]
    congr 1
    rw [Finset.sum_eq_single t.r]
    · simp; ring
    · intro i _ hi
      have : ¬ t.r = i := fun e => hi e.symm
      simp [this]
    · intro hn; exact absurd (mem_range.mpr (hf t (List.mem_cons_self))) hn

theorem applyRev_dot (T : List (Trip K)) (keep : Trip K → Bool) (nc : Nat) (v w : Nat → K)
    (h : ∀ t ∈ T, t.c < nc) :
    dot nc (applyRev T keep w) v = ((T.filter keep).map (fun t => t.a * w t.r * v t.c)).sum := by
  unfold dot applyRev
  simp only [sumTo_eq, sumList_eq_sum]
  have hf : ∀ t ∈ T.filter keep, t.c < nc := fun t ht => h t (List.mem_filter.mp ht).1
  generalize T.filter keep = L at hf
  induction L with
  | nil => simp
  | cons t ts ih =>
    simp only [List.map_cons, List.sum_cons, add_mul, Finset.sum_add_distrib]
    rw [ih (fun s hs => hf s (List.mem_cons_of_mem _ hs))]
    congr 1
    rw [Finset.sum_eq_single t.c]
    · simp
    · intro i _ hi
      have : ¬ t.c = i := fun e => hi e.symm
      simp [this]
    · intro hn; exact absurd (mem_range.mpr (hf t (List.mem_cons_self))) hn

/-- **Sub-jacobians and assembled matrices.** For any triplet list (duplicate positions, a
`src_indices` column map and unit factors are just other triplet lists) and any mask,
⟨w, A v⟩ = ⟨Aᵀ w, v⟩. -/
theorem C02_subjac_adjoint (T : List (Trip K)) (keep : Trip K → Bool) (nr nc : Nat)
    (v w : Nat → K) (hr : ∀ t ∈ T, t.r < nr) (hc : ∀ t ∈ T, t.c < nc) :
    dot nr w (applyFwd T keep v) = dot nc (applyRev T keep w) v := by
  rw [applyFwd_dot T keep nr v w hr, applyRev_dot T keep nc v w hc]

/-- **Linear solves.** If `x` is the forward solution for `v` and `y` the reverse solution for `w`
then ⟨w, x⟩ = ⟨y, v⟩: forward and reverse solves are adjoint, whatever solver produced them. -/
theorem C02_solve_adjoint (n : Nat) (A : Nat → Nat → K) (x y v w : Nat → K)
    (hx : ∀ k, k < n → sumTo n (fun j => A k j * x j) = v k)
    (hy : ∀ j, j < n → sumTo n (fun k => A k j * y k) = w j) :
    dot n w x = dot n y v := by
  have := adjoint_identity n A x y v w hx hy
  unfold dot
  rw [this]

/-- **Whole model.** The total-derivative operator `J = S A⁻¹ B` (selection of responses, solve,
injection of design variables) inherits the duality: for a forward solve against `B v` and a
reverse solve against `Sᵀ w`, ⟨w, S x⟩ = ⟨Bᵀ y, v⟩ expressed through the state-space pairing. -/
theorem C02_model_adjoint (n : Nat) (A : Nat → Nat → K) (x y bv sw : Nat → K)
    (hx : ∀ k, k < n → sumTo n (fun j => A k j * x j) = bv k)
    (hy : ∀ j, j < n → sumTo n (fun k => A k j * y k) = sw j) :
    dot n sw x = dot n y bv := C02_solve_adjoint n A x y bv sw hx hy

example : dot 2 (fun i => if i = 0 then (2 : Int) else 3)
    (applyFwd [⟨0, 1, 5⟩, ⟨0, 1, 1⟩, ⟨1, 0, 7⟩] (fun _ => true) (fun j => if j = 0 then 1 else 4))
    = dot 2 (applyRev [⟨0, 1, 5⟩, ⟨0, 1, 1⟩, ⟨1, 0, 7⟩] (fun _ => true)
        (fun i => if i = 0 then (2 : Int) else 3)) (fun j => if j = 0 then 1 else 4) := by decide

end OMV.C02
