/-
C28 — Surrogate models reproduce training data and their own derivatives.
Property theorems only (plus non-vacuity examples).  The model is `OMV/Model/C28.lean`; helper
lemmas are in `OMV/Proofs/C28*.lean`.

"`linearize` is the derivative of `predict`" is stated algebraically with the dual numbers
`K[ε]/(ε²)` of the model: the predictor, evaluated by the *same* polymorphic definition on
`x + ε·e`, has dual part `linearize(x) · e`.
-/
import OMV.Proofs.C28NN

set_option linter.unusedSectionVars false
set_option linter.unusedVariables false

namespace OMV.C28

/-! ## ResponseSurface -/

section rs
variable {K : Type} [Field K]

/-- The columns of the design row are the monomials in their natural order: with coefficients
`c`, `b` and the upper triangle `A` laid out row after row, `predict` is the quadratic
`c + b·x + Σ_{i≤j} A_ij x_i x_j`. -/
theorem C28_rs_row_is_quadratic (c : K) (b : List K) (A : List (List K)) (x : List K)
    (hb : b.length = x.length) (hA : Tri A x.length) :
    rsPredict (c :: (b ++ A.flatten)) x = c + dot b x + quadForm A x := by
  unfold rsPredict rsRow
  rw [dot_cons, dot_append _ _ _ _ hb.symm, quadTerms_flatten A x hA, dot_comm x b]
  ring

/-- Least squares on exact data.  If `y = X β` and the normal equations `Xᵀ(X b - y) = 0` have a
unique solution (full column rank), then the least-squares answer `β'` is `β`; hence the
surrogate reproduces the generating quadratic at *every* point, not only at the training points.
`X` is any list of rows of length `nc` (for the surrogate: `rsDesign` of the training inputs). -/
theorem C28_rs_quadratic (nc : Nat) (X : List (List K)) (β β' y : List K)
    (hrows : ∀ row ∈ X, row.length = nc)
    (hβ : β.length = nc) (hβ' : β'.length = nc)
    (hy : y = matVec X β)
    (hne : normalResidual nc X β' y = List.replicate nc 0)
    (huniq : ∀ b₁ b₂ : List K, b₁.length = nc → b₂.length = nc →
      normalResidual nc X b₁ y = List.replicate nc 0 →
      normalResidual nc X b₂ y = List.replicate nc 0 → b₁ = b₂) :
    β' = β ∧ ∀ x, rsPredict β' x = rsPredict β x := by
  have h0 : normalResidual nc X β y = List.replicate nc 0 := by
    unfold normalResidual
    rw [hy, subV_self, tMatVec_zero nc X _ hrows]
  have e := huniq β' β hβ' hβ hne h0
  exact ⟨e, fun x => by rw [e]⟩

end rs

section rs_ordered
variable {K : Type} [Field K] [LinearOrder K] [IsStrictOrderedRing K]

/-- The same with full column rank stated directly (`X v = 0 → v = 0`) over an ordered field: any
solution of the normal equations for exact data `y = X β` is `β` (uniqueness is proved, not
assumed: `‖X(β'-β)‖² = (β'-β)·Xᵀ(Xβ'-y) = 0`). -/
theorem C28_rs_quadratic_of_full_rank (nc : Nat) (X : List (List K)) (β β' y : List K)
    (hrows : ∀ row ∈ X, row.length = nc)
    (hβ : β.length = nc) (hβ' : β'.length = nc)
    (hy : y = matVec X β)
    (hne : normalResidual nc X β' y = List.replicate nc 0)
    (hrank : ∀ v : List K, v.length = nc → (∀ row ∈ X, dot row v = 0) → v = List.replicate nc 0) :
    β' = β ∧ ∀ x, rsPredict β' x = rsPredict β x := by
  have hlen : β'.length = β.length := by rw [hβ, hβ']
  -- e = X β' - y = X (β' - β)
  have he : subV (matVec X β') y = matVec X (subV β' β) := by
    rw [hy, matVec_sub X β' β hlen]
  have hvlen : (subV β' β).length = nc := by rw [length_subV, hβ, hβ', Nat.min_self]
  have hzero : dot (matVec X (subV β' β)) (matVec X (subV β' β)) = 0 := by
    have h1 : dot (tMatVec nc X (subV (matVec X β') y)) (subV β' β) = 0 := by
      have := hne
      unfold normalResidual at this
      rw [this, dot_replicate_zero]
    rw [dot_tMatVec nc X _ _ hrows, he] at h1
    exact h1
  have hez := dot_self_eq_zero _ hzero
  have hv := hrank (subV β' β) hvlen (mem_matVec_zero X _ hez)
  have e : β' = β := subV_eq_zero β' β hlen (by rw [hv, hβ'])
  exact ⟨e, fun x => by rw [e]⟩

end rs_ordered

section rs_lin
variable {K : Type} [Field K]

/-- `linearize` is the exact gradient of `predict`: evaluating `predict` on the dual point
`x + ε d` gives `predict x + ε (linearize x · d)`. -/
theorem C28_rs_linearize (β : List K) (xs : List (Dual K))
    (hβ : β.length = (rsRow (xs.map Dual.re)).length) :
    rsPredict (β.map Dual.const) xs
      = ⟨rsPredict β (xs.map Dual.re), dot (rsLinearize β (xs.map Dual.re)) (xs.map Dual.du)⟩ := by
  have hrow_re : (rsRow xs).map Dual.re = rsRow (xs.map Dual.re) := by
    simp only [rsRow, List.map_cons, List.map_append, quadTerms_map_re]
    rfl
  apply Dual.ext'
  · show (dot (rsRow xs) (β.map Dual.const)).re = _
    rw [dot_const_re, hrow_re]; rfl
  · show (dot (rsRow xs) (β.map Dual.const)).du = dot (rsLinearize β (xs.map Dual.re)) (xs.map Dual.du)
    rw [dot_const_du]
    -- split β = b0 :: (βl ++ βq)
    cases β with
    | nil => simp [rsRow] at hβ
    | cons b0 βt =>
      simp only [rsRow, List.length_cons, List.length_append, List.length_map,
        Nat.add_right_cancel_iff] at hβ
      have hl : (βt.take xs.length).length = xs.length := by
        simp [List.length_take]; omega
      have hq : (βt.drop xs.length).length = (quadTerms xs).length := by
        rw [List.length_drop, hβ, length_quadTerms_map]; omega
      have hsplit : βt = βt.take xs.length ++ βt.drop xs.length := (List.take_append_drop _ _).symm
      have hg : (rsQuadGrad (xs.map Dual.re) (βt.drop xs.length)).length = xs.length := by
        rw [length_rsQuadGrad _ _ (by rw [length_quadTerms_map]; exact hq)]; simp
      have lhs : dot ((rsRow xs).map Dual.du) (b0 :: βt)
          = dot (xs.map Dual.du) (βt.take xs.length)
            + dot ((quadTerms xs).map Dual.du) (βt.drop xs.length) := by
        conv_lhs => rw [hsplit]
        show dot (((1 : Dual K) :: (xs ++ quadTerms xs)).map Dual.du) _ = _
        rw [List.map_cons, dot_cons, List.map_append, dot_append _ _ _ _ (by simp [hl])]
        simp
      have rhs : rsLinearize (b0 :: βt) (xs.map Dual.re)
          = addV (βt.take xs.length) (rsQuadGrad (xs.map Dual.re) (βt.drop xs.length)) := by
        simp [rsLinearize]
      rw [lhs, rhs, dot_addV_left _ _ _ (by rw [hl, hg]), quadTerms_du xs _ hq,
        dot_comm (xs.map Dual.du)]

end rs_lin

-- non-vacuity: a 2-input quadratic 1 + 2 x0 - x1 + 3 x0² + x0 x1 - 2 x1², the three theorems'
-- hypotheses on concrete data
example : Tri [[(3 : Rat), 1], [-2]] 2 := by simp [Tri]
example : rsPredict [(1 : Rat), 2, -1, 3, 1, -2] [2, 3] = 1 + 2 * 2 - 3 + 3 * 4 + 2 * 3 - 2 * 9 := by
  decide +kernel
example : rsLinearize [(1 : Rat), 2, -1, 3, 1, -2] [2, 3] = [2 + 6 * 2 + 3, -1 + 2 - 4 * 3] := by
  decide +kernel
/-- one input, three distinct points: the design has full column rank (normal equations of the
exact data hold for the generating coefficients) -/
example : normalResidual 3 (rsDesign [[(0 : Rat)], [1], [2]]) [1, -2, 3]
    (matVec (rsDesign [[(0 : Rat)], [1], [2]]) [1, -2, 3]) = [0, 0, 0] := by decide +kernel


/-! ## Nearest neighbour: weighted interpolator -/

section weighted_ordered
variable {K : Type} [Field K] [LinearOrder K] [IsStrictOrderedRing K]

/-- At a training input the weights collapse to the indicator of the zero-distance neighbours and
the interpolator returns the training output (`ys` are the raw outputs of the neighbours, all
neighbours at distance zero — duplicates of the training point — carry the output `y`). -/
theorem C28_interp_at_train_weighted (tvm tvr : K) (p : Nat) (ds ys : List K) (y : K)
    (htvr : tvr ≠ 0) (hlen : ds.length = ys.length) (hhit : (0 : K) ∈ ds)
    (hall : ∀ q ∈ ds.zip ys, q.1 = 0 → q.2 = y) :
    weightedPredict tvm tvr p ds ys = y := by
  unfold weightedPredict wmean
  rw [idwWeights_hit p ds hhit,
    dot_hitW ds (ys.map (normalize tvm tvr)) (normalize tvm tvr y) (by simpa using hlen) (by
      intro q hq h0
      rw [List.zip_map_right] at hq
      obtain ⟨q', hq', rfl⟩ := List.mem_map.mp hq
      have h0' : q'.1 = 0 := h0
      show normalize tvm tvr q'.2 = normalize tvm tvr y
      rw [hall q' hq' h0'])]
  have hS := (sumL_hitW_pos ds hhit).ne'
  unfold denorm normalize
  field_simp
  ring

end weighted_ordered

section weighted
variable {K : Type} [Field K]

/-- The Euclidean distance as a dual number: if `D² = Σ z_i²` on dual numbers (`z_i` the
coordinate differences with their dual parts) then `D.du · D.re = Σ z_i.re z_i.du`; this is the
seed used below (`D.du * D.re = diff · e`). -/
theorem C28_dist_dual (htwo : (2 : K) ≠ 0) (zs : List (Dual K)) (D : Dual K)
    (h : D * D = sumL (zs.map (fun z => z * z))) :
    D.du * D.re = dot (zs.map Dual.re) (zs.map Dual.du) := by
  have h1 : (D * D).du = (sumL (zs.map (fun z => z * z))).du := by rw [h]
  rw [sumD_du, Dual.mul_du] at h1
  have h2 : sumL (zs.map (fun z => (z * z).du)) = 2 * dot (zs.map Dual.re) (zs.map Dual.du) := by
    rw [dot_map_map, ← sumL_map_mul_left]
    exact sumL_map_congr _ _ _ (fun z _ => by simp; ring)
  rw [h2] at h1
  have : (2 : K) ≠ 0 := htwo
  have h3 : 2 * (D.du * D.re) = 2 * dot (zs.map Dual.re) (zs.map Dual.du) := by
    rw [← h1]; ring
  exact mul_left_cancel₀ this h3

/-- `WeightedInterpolator.gradient` is the derivative of `__call__` away from the training inputs.
`nb` lists the neighbours as (distance as a dual number, offset `xn - tp_k`, normalised value);
the distances are non-zero and carry the dual part of the Euclidean distance in the direction
`e` (in raw units: `e_j / tpr_j` in the unit box, see `C28_dist_dual`).  Then the dual part of the
prediction is `gradient · e`. -/
theorem C28_linearize_is_derivative_weighted (tvm tvr : K) (tpr : List K) (p : Nat)
    (nb : List (Dual K × List K × K)) (e : List K)
    (hrows : ∀ q ∈ nb, q.2.1.length = tpr.length)
    (hre : ∀ q ∈ nb, q.1.re ≠ 0)
    (hseed : ∀ q ∈ nb, q.1.du * q.1.re = dot q.2.1 (List.zipWith (· / ·) e tpr)) :
    denorm (Dual.const tvm) (Dual.const tvr)
        (idwCore p (nb.map (·.1)) ((nb.map (·.2.2)).map Dual.const))
      = ⟨denorm tvm tvr (idwCore p (nb.map (·.1.re)) (nb.map (·.2.2))),
         dot (weightedLinearize tvr tpr p (nb.map (·.1.re)) (nb.map (·.2.1)) (nb.map (·.2.2))) e⟩ := by
  rw [idwCore_dual p nb (·.1) (·.2.2) hre]
  unfold weightedLinearize
  rw [dot_zipWith_scale, dot_idwGradN tpr.length p nb (·.1.re) (·.2.1) (·.2.2) _ hrows]
  have s1 : sumL (nb.map (fun x => (-(p : K)) * (1 / powN x.1.re (p + 2)) * (x.1.du * x.1.re) * x.2.2))
      = sumL (nb.map (fun x => (-(p : K)) * (1 / powN x.1.re (p + 2)) * x.2.2
          * dot x.2.1 (List.zipWith (· / ·) e tpr))) :=
    sumL_map_congr _ _ _ (fun x hx => by rw [hseed x hx]; ring)
  have s2 : sumL (nb.map (fun x => (-(p : K)) * (1 / powN x.1.re (p + 2)) * (x.1.du * x.1.re)))
      = sumL (nb.map (fun x => (-(p : K)) * (1 / powN x.1.re (p + 2))
          * dot x.2.1 (List.zipWith (· / ·) e tpr))) :=
    sumL_map_congr _ _ _ (fun x hx => by rw [hseed x hx])
  rw [s1, s2]
  apply Dual.ext'
  · simp [denorm]
  · simp only [denorm, Dual.add_du, Dual.mul_du, Dual.const_re, Dual.const_du]
    ring

end weighted

-- non-vacuity: three neighbours in one dimension, query at distance 0 / 1 / 2 and 1/2, 1/2, 3/2
example : weightedPredict (1 : Rat) 4 2 [0, 1, 2] [3, 5, 1] = 3 := by decide +kernel
example : (0 : Rat) ∈ [(0 : Rat), 1, 2] ∧ ∀ q ∈ [(0 : Rat), 1, 2].zip [(3 : Rat), 5, 1], q.1 = 0 → q.2 = 3 := by
  decide +kernel

end OMV.C28
