/-
C28 — Surrogate models reproduce training data and their own derivatives.
Property theorems only (plus non-vacuity examples).  The model is `OMV/Model/C28.lean`; helper
lemmas are in `OMV/Proofs/C28*.lean`.

"`linearize` is the derivative of `predict`" is stated algebraically with the dual numbers
`K[ε]/(ε²)` of the model: the predictor, evaluated by the *same* polymorphic definition on
`x + ε·e`, has dual part `linearize(x) · e`.
-/
import OMV.Proofs.C28NN

set_option linter.unusedSectionVars false
set_option linter.unusedVariables false

namespace OMV.C28

/-! ## ResponseSurface -/

section rs
variable {K : Type} [Field K]

/-- The columns of the design row are the monomials in their natural order: with coefficients
`c`, `b` and the upper triangle `A` laid out row after row, `predict` is the quadratic
`c + b·x + Σ_{i≤j} A_ij x_i x_j`. -/
theorem C28_rs_row_is_quadratic (c : K) (b : List K) (A : List (List K)) (x : List K)
    (hb : b.length = x.length) (hA : Tri A x.length) :
    rsPredict (c :: (b ++ A.flatten)) x = c + dot b x + quadForm A x := by
  unfold rsPredict rsRow
  rw [dot_cons, dot_append _ _ _ _ hb.symm, quadTerms_flatten A x hA, dot_comm x b]
  ring

/-- Least squares on exact data.  If `y = X β` and the normal equations `Xᵀ(X b - y) = 0` have a
unique solution (full column rank), then the least-squares answer `β'` is `β`; hence the
surrogate reproduces the generating quadratic at *every* point, not only at the training points.
`X` is any list of rows of length `nc` (for the surrogate: `rsDesign` of the training inputs). -/
theorem C28_rs_quadratic (nc : Nat) (X : List (List K)) (β β' y : List K)
    (hrows : ∀ row ∈ X, row.length = nc)
    (hβ : β.length = nc) (hβ' : β'.length = nc)
    (hy : y = matVec X β)
    (hne : normalResidual nc X β' y = List.replicate nc 0)
    (huniq : ∀ b₁ b₂ : List K, b₁.length = nc → b₂.length = nc →
      normalResidual nc X b₁ y = List.replicate nc 0 →
      normalResidual nc X b₂ y = List.replicate nc 0 → b₁ = b₂) :
    β' = β ∧ ∀ x, rsPredict β' x = rsPredict β x := by
  have h0 : normalResidual nc X β y = List.replicate nc 0 := by
    unfold normalResidual
    rw [hy, subV_self, tMatVec_zero nc X _ hrows]
  have e := huniq β' β hβ' hβ hne h0
  exact ⟨e, fun x => by rw [e]⟩

end rs

section rs_ordered
variable {K : Type} [Field K] [LinearOrder K] [IsStrictOrderedRing K]

/-- The same with full column rank stated directly (`X v = 0 → v = 0`) over an ordered field: any
solution of the normal equations for exact data `y = X β` is `β` (uniqueness is proved, not
assumed: `‖X(β'-β)‖² = (β'-β)·Xᵀ(Xβ'-y) = 0`). -/
theorem C28_rs_quadratic_of_full_rank (nc : Nat) (X : List (List K)) (β β' y : List K)
    (hrows : ∀ row ∈ X, row.length = nc)
    (hβ : β.length = nc) (hβ' : β'.length = nc)
    (hy : y = matVec X β)
    (hne : normalResidual nc X β' y = List.replicate nc 0)
    (hrank : ∀ v : List K, v.length = nc → (∀ row ∈ X, dot row v = 0) → v = List.replicate nc 0) :
    β' = β ∧ ∀ x, rsPredict β' x = rsPredict β x := by
  have hlen : β'.length = β.length := by rw [hβ, hβ']
  -- e = X β' - y = X (β' - β)
  have he : subV (matVec X β') y = matVec X (subV β' β) := by
    rw [hy, matVec_sub X β' β hlen]
  have hvlen : (subV β' β).length = nc := by rw [length_subV, hβ, hβ', Nat.min_self]
  have hzero : dot (matVec X (subV β' β)) (matVec X (subV β' β)) = 0 := by
    have h1 : dot (tMatVec nc X (subV (matVec X β') y)) (subV β' β) = 0 := by
      have := hne
      unfold normalResidual at this
      rw [this, dot_replicate_zero]
    rw [dot_tMatVec nc X _ _ hrows, he] at h1
    exact h1
  have hez := dot_self_eq_zero _ hzero
  have hv := hrank (subV β' β) hvlen (mem_matVec_zero X _ hez)
  have e : β' = β := subV_eq_zero β' β hlen (by rw [hv, hβ'])
  exact ⟨e, fun x => by rw [e]⟩

end rs_ordered

section rs_lin
variable {K : Type} [Field K]

/-- `linearize` is the exact gradient of `predict`: evaluating `predict` on the dual point
`x + ε d` gives `predict x + ε (linearize x · d)`. -/
theorem C28_rs_linearize (β : List K) (xs : List (Dual K))
    (hβ : β.length = (rsRow (xs.map Dual.re)).length) :
    rsPredict (β.map Dual.const) xs
      = ⟨rsPredict β (xs.map Dual.re), dot (rsLinearize β (xs.map Dual.re)) (xs.map Dual.du)⟩ := by
  have hrow_re : (rsRow xs).map Dual.re = rsRow (xs.map Dual.re) := by
    simp only [rsRow, List.map_cons, List.map_append, quadTerms_map_re]
    rfl
  apply Dual.ext'
  · show (dot (rsRow xs) (β.map Dual.const)).re = _
    rw [dot_const_re, hrow_re]; rfl
  · show (dot (rsRow xs) (β.map Dual.const)).du = dot (rsLinearize β (xs.map Dual.re)) (xs.map Dual.du)
    rw [dot_const_du]
    -- split β = b0 :: (βl ++ βq)
    cases β with
    | nil => simp [rsRow] at hβ
    | cons b0 βt =>
      simp only [rsRow, List.length_cons, List.length_append, List.length_map,
        Nat.add_right_cancel_iff] at hβ
      have hl : (βt.take xs.length).length = xs.length := by
        simp [List.length_take]; omega
      have hq : (βt.drop xs.length).length = (quadTerms xs).length := by
        rw [List.length_drop, hβ, length_quadTerms_map]; omega
      have hsplit : βt = βt.take xs.length ++ βt.drop xs.length := (List.take_append_drop _ _).symm
      have hg : (rsQuadGrad (xs.map Dual.re) (βt.drop xs.length)).length = xs.length := by
        rw [length_rsQuadGrad _ _ (by rw [length_quadTerms_map]; exact hq)]; simp
      have lhs : dot ((rsRow xs).map Dual.du) (b0 :: βt)
          = dot (xs.map Dual.du) (βt.take xs.length)
            + dot ((quadTerms xs).map Dual.du) (βt.drop xs.length) := by
        conv_lhs => rw [hsplit]
        show dot (((1 : Dual K) :: (xs ++ quadTerms xs)).map Dual.du) _ = _
        rw [List.map_cons, dot_cons, List.map_append, dot_append _ _ _ _ (by simp [hl])]
        simp
      have rhs : rsLinearize (b0 :: βt) (xs.map Dual.re)
          = addV (βt.take xs.length) (rsQuadGrad (xs.map Dual.re) (βt.drop xs.length)) := by
        simp [rsLinearize]
      rw [lhs, rhs, dot_addV_left _ _ _ (by rw [hl, hg]), quadTerms_du xs _ hq,
        dot_comm (xs.map Dual.du)]

end rs_lin

-- non-vacuity: a 2-input quadratic 1 + 2 x0 - x1 + 3 x0² + x0 x1 - 2 x1², the three theorems'
-- hypotheses on concrete data
example : Tri [[(3 : Rat), 1], [-2]] 2 := by simp [Tri]
example : rsPredict [(1 : Rat), 2, -1, 3, 1, -2] [2, 3] = 1 + 2 * 2 - 3 + 3 * 4 + 2 * 3 - 2 * 9 := by
  decide +kernel
example : rsLinearize [(1 : Rat), 2, -1, 3, 1, -2] [2, 3] = [2 + 6 * 2 + 3, -1 + 2 - 4 * 3] := by
  decide +kernel
/-- one input, three distinct points: the design has full column rank (normal equations of the
exact data hold for the generating coefficients) -/
example : normalResidual 3 (rsDesign [[(0 : Rat)], [1], [2]]) [1, -2, 3]
    (matVec (rsDesign [[(0 : Rat)], [1], [2]]) [1, -2, 3]) = [0, 0, 0] := by decide +kernel


/-! ## Nearest neighbour: weighted interpolator -/

section weighted_ordered
variable {K : Type} [Field K] [LinearOrder K] [IsStrictOrderedRing K]

/-- At a training input the weights collapse to the indicator of the zero-distance neighbours and
the interpolator returns the training output (`ys` are the raw outputs of the neighbours, all
neighbours at distance zero — duplicates of the training point — carry the output `y`). -/
theorem C28_interp_at_train_weighted (tvm tvr : K) (p : Nat) (ds ys : List K) (y : K)
    (htvr : tvr ≠ 0) (hlen : ds.length = ys.length) (hhit : (0 : K) ∈ ds)
    (hall : ∀ q ∈ ds.zip ys, q.1 = 0 → q.2 = y) :
    weightedPredict tvm tvr p ds ys = y := by
  unfold weightedPredict wmean
  rw [idwWeights_hit p ds hhit,
    dot_hitW ds (ys.map (normalize tvm tvr)) (normalize tvm tvr y) (by simpa using hlen) (by
      intro q hq h0
      rw [List.zip_map_right] at hq
      obtain ⟨q', hq', rfl⟩ := List.mem_map.mp hq
      have h0' : q'.1 = 0 := h0
      show normalize tvm tvr q'.2 = normalize tvm tvr y
      rw [hall q' hq' h0'])]
  have hS := (sumL_hitW_pos ds hhit).ne'
  unfold denorm normalize
  field_simp
  ring

end weighted_ordered

section weighted
variable {K : Type} [Field K]

/-- The Euclidean distance as a dual number: if `D² = Σ z_i²` on dual numbers (`z_i` the
coordinate differences with their dual parts) then `D.du · D.re = Σ z_i.re z_i.du`; this is the
seed used below (`D.du * D.re = diff · e`). -/
theorem C28_dist_dual (htwo : (2 : K) ≠ 0) (zs : List (Dual K)) (D : Dual K)
    (h : D * D = sumL (zs.map (fun z => z * z))) :
    D.du * D.re = dot (zs.map Dual.re) (zs.map Dual.du) := by
  have h1 : (D * D).du = (sumL (zs.map (fun z => z * z))).du := by rw [h]
  rw [sumD_du, Dual.mul_du] at h1
  have h2 : sumL (zs.map (fun z => (z * z).du)) = 2 * dot (zs.map Dual.re) (zs.map Dual.du) := by
    rw [dot_map_map, ← sumL_map_mul_left]
    exact sumL_map_congr _ _ _ (fun z _ => by simp; ring)
  rw [h2] at h1
  have : (2 : K) ≠ 0 := htwo
  have h3 : 2 * (D.du * D.re) = 2 * dot (zs.map Dual.re) (zs.map Dual.du) := by
    rw [← h1]; ring
  exact mul_left_cancel₀ this h3

/-- `WeightedInterpolator.gradient` is the derivative of `__call__` away from the training inputs.
`nb` lists the neighbours as (distance as a dual number, offset `xn - tp_k`, normalised value);
the distances are non-zero and carry the dual part of the Euclidean distance in the direction
`e` (in raw units: `e_j / tpr_j` in the unit box, see `C28_dist_dual`).  Then the dual part of the
prediction is `gradient · e`. -/
theorem C28_linearize_is_derivative_weighted (tvm tvr : K) (tpr : List K) (p : Nat)
    (nb : List (Dual K × List K × K)) (e : List K)
    (hrows : ∀ q ∈ nb, q.2.1.length = tpr.length)
    (hre : ∀ q ∈ nb, q.1.re ≠ 0)
    (hseed : ∀ q ∈ nb, q.1.du * q.1.re = dot q.2.1 (List.zipWith (· / ·) e tpr)) :
    denorm (Dual.const tvm) (Dual.const tvr)
        (idwCore p (nb.map (·.1)) ((nb.map (·.2.2)).map Dual.const))
      = ⟨denorm tvm tvr (idwCore p (nb.map (·.1.re)) (nb.map (·.2.2))),
         dot (weightedLinearize tvr tpr p (nb.map (·.1.re)) (nb.map (·.2.1)) (nb.map (·.2.2))) e⟩ := by
  rw [idwCore_dual p nb (·.1) (·.2.2) hre]
  unfold weightedLinearize
  rw [dot_zipWith_scale, dot_idwGradN tpr.length p nb (·.1.re) (·.2.1) (·.2.2) _ hrows]
  have s1 : sumL (nb.map (fun x => (-(p : K)) * (1 / powN x.1.re (p + 2)) * (x.1.du * x.1.re) * x.2.2))
      = sumL (nb.map (fun x => (-(p : K)) * (1 / powN x.1.re (p + 2)) * x.2.2
          * dot x.2.1 (List.zipWith (· / ·) e tpr))) :=
    sumL_map_congr _ _ _ (fun x hx => by rw [hseed x hx]; ring)
  have s2 : sumL (nb.map (fun x => (-(p : K)) * (1 / powN x.1.re (p + 2)) * (x.1.du * x.1.re)))
      = sumL (nb.map (fun x => (-(p : K)) * (1 / powN x.1.re (p + 2))
          * dot x.2.1 (List.zipWith (· / ·) e tpr))) :=
    sumL_map_congr _ _ _ (fun x hx => by rw [hseed x hx])
  rw [s1, s2]
  apply Dual.ext'
  · simp [denorm]
  · simp only [denorm, Dual.add_du, Dual.mul_du, Dual.const_re, Dual.const_du]
    ring

end weighted

-- non-vacuity: three neighbours in one dimension, query at distance 0 / 1 / 2 and 1/2, 1/2, 3/2
example : weightedPredict (1 : Rat) 4 2 [0, 1, 2] [3, 5, 1] = 3 := by decide +kernel
example : (0 : Rat) ∈ [(0 : Rat), 1, 2] ∧ ∀ q ∈ [(0 : Rat), 1, 2].zip [(3 : Rat), 5, 1], q.1 = 0 → q.2 = 3 := by
  decide +kernel


/-! ## Nearest neighbour: linear interpolator -/

section linear
variable {K : Type} [Field K] [DecidableEq K]

/-- At a training input (which is its own nearest neighbour `p0`) the hyperplane interpolator
returns the training output — for *any* normal the SVD may have produced, on both branches
(`normal[-1] == 0`: value of the nearest neighbour; otherwise `(x·nx - pc) / -nz`). -/
theorem C28_interp_at_train_linear (tvm tvr : K) (nx : List K) (nz : K) (p0 : List K) (y0 : K)
    (htvr : tvr ≠ 0) :
    linearPredict tvm tvr nx nz p0 y0 p0 = y0 := by
  unfold linearPredict linPlane denorm normalize
  by_cases h : nz = 0
  · rw [if_pos h]; field_simp; ring
  · rw [if_neg h]; field_simp; ring

/-- With the contract of the null vector (orthogonal to the differences of consecutive
neighbours) and a non-vertical plane, the interpolant passes through *all* `n+1` neighbours. -/
theorem C28_linear_through_neighbours (tvm tvr : K) (nx : List K) (nz : K)
    (P : List (List K)) (Y : List K) (p0 : List K) (y0 : K) (htvr : tvr ≠ 0) (hnz : nz ≠ 0)
    (hc : planeContract nx nz (p0 :: P) ((y0 :: Y).map (normalize tvm tvr)) = true)
    (hlen : ∀ p ∈ p0 :: P, p.length = nx.length) :
    ∀ q ∈ (p0 :: P).zip (y0 :: Y), linearPredict tvm tvr nx nz p0 y0 q.1 = q.2 := by
  intro q hq
  have hq' : (q.1, normalize tvm tvr q.2) ∈ (p0 :: P).zip ((y0 :: Y).map (normalize tvm tvr)) := by
    rw [List.zip_map_right]
    exact List.mem_map.mpr ⟨q, hq, rfl⟩
  have hch : dot q.1 nx + normalize tvm tvr q.2 * nz = dot p0 nx + normalize tvm tvr y0 * nz :=
    plane_chain nx nz P (Y.map (normalize tvm tvr)) p0 (normalize tvm tvr y0)
      hc hlen (q.1, normalize tvm tvr q.2) hq'
  unfold linearPredict linPlane
  rw [if_neg hnz]
  have : dot q.1 nx - (dot p0 nx + normalize tvm tvr y0 * nz) = -(normalize tvm tvr q.2 * nz) := by
    linear_combination hch
  rw [this]
  unfold denorm normalize
  field_simp
  ring

/-- `LinearInterpolator.gradient` is the derivative of `__call__` for a fixed neighbour set:
on the dual point `xn + ε u` (unit-box coordinates, `u_j = e_j / tpr_j`) the dual part of the
prediction is `gradient · e`. -/
theorem C28_linearize_is_derivative_linear (tvm tvr : K) (tpr nx : List K) (nz : K) (p0 : List K)
    (y0 : K) (Xs : List (Dual K)) (e : List K)
    (hseed : Xs.map Dual.du = List.zipWith (· / ·) e tpr) :
    linearPredict (Dual.const tvm) (Dual.const tvr) (nx.map Dual.const) (Dual.const nz)
        (p0.map Dual.const) (Dual.const y0) Xs
      = ⟨linearPredict tvm tvr nx nz p0 y0 (Xs.map Dual.re),
         dot (linearLinearize tvr tpr nx nz) e⟩ := by
  have hlin : dot (linearLinearize tvr tpr nx nz) e
      = tvr * dot (nx.map (fun a => if nz = 0 then 0 else -a / nz)) (Xs.map Dual.du) := by
    unfold linearLinearize
    rw [hseed, ← dot_zipWith_scale, List.zipWith_map_left]
  rw [hlin]
  unfold linearPredict linPlane
  by_cases h : nz = 0
  · have hD : Dual.const nz = (0 : Dual K) := (const_eq_zero_iff nz).mpr h
    rw [if_pos h, if_pos hD]
    have hz : dot (nx.map (fun a => if nz = 0 then (0 : K) else -a / nz)) (Xs.map Dual.du) = 0 := by
      have : nx.map (fun a => if nz = 0 then (0 : K) else -a / nz) = List.replicate nx.length 0 := by
        simp [h]
      rw [this, dot_replicate_zero]
    rw [hz]
    apply Dual.ext' <;> simp [denorm, normalize]
  · have hD : ¬ Dual.const nz = (0 : Dual K) := fun hh => h ((const_eq_zero_iff nz).mp hh)
    rw [if_neg h, if_neg hD]
    have hm : nx.map (fun a => if nz = 0 then (0 : K) else -a / nz) = nx.map (fun a => -a / nz) := by
      simp [h]
    rw [hm]
    have hdm : dot (nx.map (fun a => -a / nz)) (Xs.map Dual.du)
        = -(dot (Xs.map Dual.du) nx) / nz := by
      have : nx.map (fun a => -a / nz) = (smul (-1) nx).map (fun g => g / nz) := by
        simp [smul, List.map_map, Function.comp_def]
      rw [this, dot_map_div, dot_smul_left, dot_comm]; ring
    rw [hdm]
    apply Dual.ext'
    · simp only [denorm, normalize, Dual.add_re, Dual.mul_re, Dual.div_re, Dual.sub_re, Dual.neg_re,
        Dual.const_re, dot_re, map_re_const]
    · simp only [denorm, normalize, Dual.add_du, Dual.mul_du, Dual.div_du, Dual.sub_du, Dual.sub_re,
        Dual.neg_re, Dual.neg_du, Dual.const_re, Dual.const_du, dot_const_du, dot_const_re,
        Dual.add_re, Dual.mul_re, map_re_const, map_du_const, dot_replicate_zero]
      field_simp
      ring

end linear

-- non-vacuity: plane through (0,0)->1, (1,0)->3, (0,1)->2 in the unit box (normal (2,1,-1))
example : planeContract [(2 : Rat), 1] (-1) [[0, 0], [1, 0], [0, 1]]
    ([(1 : Rat), 3, 2].map (normalize 0 1)) = true := by decide +kernel
example : linearPredict (0 : Rat) 1 [2, 1] (-1) [0, 0] 1 [1, 0] = 3 := by decide +kernel

/-! ## Nearest neighbour: RBF interpolator -/

section rbf
variable {K : Type} [Field K]

/-- The dense row that `_find_R` builds by scattering into a row of zeros, dotted with the weight
vector, is the sum over the (distinct) neighbours — the form `_find_dR` differentiates. -/
theorem C28_rbf_dense_eq_neighbour_sum (m : Nat) (e : RbfEntry) (idx : List Nat) (ds : List K)
    (dN : K) (W : List K) (hW : W.length = m) (hlen : idx.length = ds.length)
    (hnd : idx.Nodup) (hlt : ∀ i ∈ idx, i < m) :
    dot (rbfDenseRow m e idx ds dN) W = rbfPredictN e ds dN (gather W idx) := by
  unfold rbfDenseRow rbfPredictN
  exact dot_scatter m idx _ W hW (by simpa [rbfRow] using hlen) hnd hlt

/-- Training solves `Rt W = tv` (certificate: row `i` of that system); a query at training input
`i` finds the neighbours of training point `i` (KD-tree contract), hence builds row `i` of `Rt`
and returns the training output. -/
theorem C28_interp_at_train_rbf (tvm tvr : K) (m : Nat) (e : RbfEntry) (idx : List Nat)
    (ds : List K) (dN : K) (W : List K) (yi : K) (htvr : tvr ≠ 0)
    (hsolve : dot (rbfDenseRow m e idx ds dN) W = normalize tvm tvr yi) :
    rbfPredict tvm tvr m e idx ds dN W = yi := by
  unfold rbfPredict
  rw [hsolve]
  unfold denorm normalize
  field_simp
  ring

end rbf

section rbf_ordered
variable {K : Type} [Field K] [LinearOrder K] [IsStrictOrderedRing K]

/-- The whole table of `_find_dR` with the corrected `dims <= 2`, `rbf_family == 1` entry:
`frnt * polyval(dRp_poly, T)` is the derivative of `Cf * polyval(cb_poly, T)` for every
family `-2 … 4` and every dimension class. -/
theorem C28_rbf_dbasis (cls : Nat) (fam : Int) (e : RbfEntry)
    (h : rbfTable true cls fam = some e) (t u : K) :
    rbfPhi e (⟨t, u⟩ : Dual K) = ⟨rbfPhi e t, rbfDPhi e t * u⟩ := by
  apply Dual.ext'
  · exact rbfPhi_re e ⟨t, u⟩
  · exact rbf_dbasis_entries cls fam e true h (Or.inl rfl) t u

/-- The table as shipped: all entries except `dims <= 2`, `rbf_family == 1`. -/
theorem C28_rbf_dbasis_partial (cls : Nat) (fam : Int) (e : RbfEntry)
    (h : rbfTable false cls fam = some e) (hne : ¬ (fam = 1 ∧ cls = 0)) (t u : K) :
    rbfPhi e (⟨t, u⟩ : Dual K) = ⟨rbfPhi e t, rbfDPhi e t * u⟩ := by
  apply Dual.ext'
  · exact rbfPhi_re e ⟨t, u⟩
  · exact rbf_dbasis_entries cls fam e false h (Or.inr hne) t u

end rbf_ordered

/-- The shipped `dims <= 2`, `rbf_family == 1` entry is *not* the derivative (it is its negative):
at `T = 1/2` the derivative of `Cf * Cb` is `-1/8`, the table gives `+1/8`. -/
theorem C28_rbf_dbasis_shipped_counterexample :
    ∃ e, rbfTable false 0 1 = some e ∧
      (rbfPhi e (⟨1 / 2, 1⟩ : Dual Rat)).du = -1 / 8 ∧ rbfDPhi e (1 / 2 : Rat) * 1 = 1 / 8 := by
  refine ⟨_, rfl, ?_, ?_⟩ <;> decide +kernel

section rbf_grad
variable {K : Type} [Field K] [DecidableEq K]

/-- `_find_dR` is the derivative of `__call__` (neighbour-sum form, fixed neighbours, away from
the training inputs), for any basis whose `dRp` is the derivative of `Cf * Cb` (`hphi`, provided
by `C28_rbf_dbasis`).  `nb` lists the first `N-1` neighbours as (distance as a dual number,
offset `xn - tp_j`, weight), `DN`/`xpm` belong to the farthest neighbour; the dual parts of the
distances are those of the Euclidean distance in the direction `e` (`C28_dist_dual`). -/
theorem C28_linearize_is_derivative_rbf (tvm tvr : K) (tpr : List K) (tiny : K) (e : RbfEntry)
    (hphi : ∀ t u : K, rbfPhi e (⟨t, u⟩ : Dual K) = ⟨rbfPhi e t, rbfDPhi e t * u⟩)
    (nb : List (Dual K × List K × K)) (DN : Dual K) (xpm ev : List K)
    (hrows : ∀ q ∈ nb, q.2.1.length = tpr.length) (hxpm : xpm.length = tpr.length)
    (hre : ∀ q ∈ nb, q.1.re ≠ 0) (hN : DN.re ≠ 0)
    (hseed : ∀ q ∈ nb, q.1.du * q.1.re = dot q.2.1 (List.zipWith (· / ·) ev tpr))
    (hseedN : DN.du * DN.re = dot xpm (List.zipWith (· / ·) ev tpr)) :
    denorm (Dual.const tvm) (Dual.const tvr)
        (rbfPredictN e (nb.map (·.1)) DN ((nb.map (·.2.2)).map Dual.const))
      = ⟨denorm tvm tvr (rbfPredictN e (nb.map (·.1.re)) DN.re (nb.map (·.2.2))),
         dot (rbfLinearize tvr tpr tiny e (nb.map (·.1.re)) DN.re (nb.map (·.2.1)) xpm
           (nb.map (·.2.2))) ev⟩ := by
  have hphi' : ∀ T : Dual K, rbfPhi e T = ⟨rbfPhi e T.re, rbfDPhi e T.re * T.du⟩ :=
    fun T => hphi T.re T.du
  -- the predictor on dual numbers
  have hP : rbfPredictN e (nb.map (·.1)) DN ((nb.map (·.2.2)).map Dual.const)
      = sumL (nb.map (fun q => rbfPhi e (q.1 / DN) * Dual.const q.2.2)) := by
    unfold rbfPredictN rbfRow
    rw [List.map_map, List.map_map, dotD_map_map]
    rfl
  have hPr : rbfPredictN e (nb.map (·.1.re)) DN.re (nb.map (·.2.2))
      = sumL (nb.map (fun q => rbfPhi e (q.1.re / DN.re) * q.2.2)) := by
    unfold rbfPredictN rbfRow
    rw [List.map_map, dot_map_map]
    rfl
  unfold rbfLinearize
  rw [dot_zipWith_scale,
    dot_rbfGradN tpr.length tiny e nb (·.1.re) (·.2.1) (·.2.2) DN.re xpm _ hrows hxpm hre hN,
    hP, hPr]
  apply Dual.ext'
  · simp only [denorm, Dual.add_re, Dual.mul_re, Dual.const_re]
    rw [sumD_re]
    congr 2
    exact sumL_map_congr _ _ _ (fun q _ => by rw [Dual.mul_re, hphi']; rfl)
  · simp only [denorm, Dual.add_du, Dual.mul_du, Dual.const_re, Dual.const_du]
    rw [sumD_du]
    have : sumL (nb.map (fun q => (rbfPhi e (q.1 / DN) * Dual.const q.2.2).du))
        = sumL (nb.map (fun x => rbfDPhi e (x.1.re / DN.re) * x.2.2
            * ((dot x.2.1 (List.zipWith (· / ·) ev tpr)
                - (x.1.re / DN.re) * (x.1.re / DN.re) * dot xpm (List.zipWith (· / ·) ev tpr))
              / (DN.re * DN.re * (x.1.re / DN.re))))) := by
      apply sumL_map_congr
      intro q hq
      rw [Dual.mul_du, hphi' (q.1 / DN)]
      simp only [Dual.div_re, Dual.div_du, Dual.const_re, Dual.const_du]
      rw [← hseed q hq, ← hseedN]
      have h1 := hre q hq
      field_simp
      ring
    rw [this]
    ring

end rbf_grad


-- non-vacuity: family 2 in one dimension exists in the table and a row is reproduced
example : (rbfTable true 0 2).isSome = true ∧ (rbfTable false 3 4).isSome = true := by decide
example : rbfPredict (0 : Rat) 1 3 ⟨1, 1, [1], none, 1, [-1]⟩ [0, 1] [0, 1 / 2] 1 [4, 2, 7]
    = 4 * 1 + 2 * (1 / 2) := by decide +kernel

/-! ## Kriging -/

section kriging
variable {K : Type} [Field K]

/-- The interpolation error at a training input is exactly the residual of the linear solve:
`predict(x_i) - y_i = Y_std · ((R α)_i - Y_i)` where `Ri` is row `i` of the correlation matrix
(unit diagonal: what `predict` evaluates) and `Y_i = (y_i - Y_mean) / Y_std`. -/
theorem C28_kriging_train_residual (ymean ystd : K) (Ri α : List K) (yi : K) (hstd : ystd ≠ 0) :
    krigPredict ymean ystd Ri α - yi = ystd * (dot Ri α - normalize ymean ystd yi) := by
  unfold krigPredict normalize
  field_simp
  ring

/-- Zero nugget: if `α` solves `R α = Y` (certificate for row `i`), the predictor returns the
training output at training input `i`. -/
theorem C28_interp_at_train_kriging (ymean ystd : K) (Ri α : List K) (yi : K) (hstd : ystd ≠ 0)
    (hsolve : dot Ri α = normalize ymean ystd yi) :
    krigPredict ymean ystd Ri α = yi := by
  have := C28_kriging_train_residual ymean ystd Ri α yi hstd
  rw [hsolve, sub_self, mul_zero] at this
  exact sub_eq_zero.mp this

/-- With a nugget `ν` on the diagonal of the training matrix (`(R + νI) α = Y`) the training
output is missed by exactly `-Y_std · ν · α_i`. -/
theorem C28_kriging_nugget_error (ymean ystd ν αi : K) (Ri α : List K) (yi : K) (hstd : ystd ≠ 0)
    (hsolve : dot Ri α + ν * αi = normalize ymean ystd yi) :
    krigPredict ymean ystd Ri α - yi = -(ystd * ν * αi) := by
  rw [C28_kriging_train_residual ymean ystd Ri α yi hstd, ← hsolve]
  ring

/-- unit vector `e_i` of length `m` -/
def unitVec (m i : Nat) : List K := (List.replicate m 0).set i 1

theorem dot_unitVec (m i : Nat) (row : List K) (hi : i < m) (hrow : row.length = m) :
    dot row (unitVec m i) = row.getD i 0 := by
  unfold unitVec
  rw [dot_comm, dot_set _ _ _ _ (by simp [hrow]) (by simpa using hi), dot_replicate_zero,
    getD_replicate_zero]
  ring

/-- The textbook form `μ + wᵀ(y - μ)` with `R w = r`: at training input `i` the right-hand side
`r` is column `i` of `R` (zero nugget), which is `R e_i`; if `R` is injective (invertible) the
solve returns `w = e_i`, and the predictor `wᵀ Y` picks the training value `Y_i`. -/
theorem C28_kriging_unit_weights (m i : Nat) (R : List (List K)) (w Y : List K) (hi : i < m)
    (hrows : ∀ row ∈ R, row.length = m) (hw : w.length = m) (hY : Y.length = m)
    (hinj : ∀ a b : List K, a.length = m → b.length = m → matVec R a = matVec R b → a = b)
    (hsolve : matVec R w = R.map (fun row => row.getD i 0)) :
    w = unitVec m i ∧ dot w Y = Y.getD i 0 := by
  have hcol : matVec R (unitVec m i) = R.map (fun row => row.getD i 0) := by
    unfold matVec
    exact List.map_congr_left (fun row hr => dot_unitVec m i row hi (hrows row hr))
  have e : w = unitVec m i :=
    hinj w (unitVec m i) hw (by simp [unitVec]) (by rw [hsolve, hcol])
  refine ⟨e, ?_⟩
  rw [e, dot_comm, dot_unitVec m i Y hi hY]

end kriging

section kriging_lin
variable {K : Type} [Field K]

/-- `KrigingSurrogate.linearize` is the derivative of `predict`.  `E` is the exponential as an
abstract primitive whose derivative is itself (the pair `(E, E)` lifts it to dual numbers);
`nb` lists the training points as (normalised input `X_k`, weight `α_k`); `Xd` is the raw query
`x + ε e`. -/
theorem C28_linearize_is_derivative_kriging (E : K → K) (xmean xstd : List K) (ymean ystd : K)
    (θ : List K) (nb : List (List K × K)) (Xd : List (Dual K))
    (hstd : ∀ c ∈ xstd, c ≠ 0) (hm : xmean.length = Xd.length) (hs : xstd.length = Xd.length)
    (hθ : θ.length = Xd.length) (hX : ∀ q ∈ nb, q.1.length = Xd.length) :
    krigModel (Dual.lift E E) (xmean.map Dual.const) (xstd.map Dual.const) (Dual.const ymean)
        (Dual.const ystd) (θ.map Dual.const) (nb.map (fun q => q.1.map Dual.const))
        ((nb.map (·.2)).map Dual.const) Xd
      = ⟨krigModel E xmean xstd ymean ystd θ (nb.map (·.1)) (nb.map (·.2)) (Xd.map Dual.re),
         dot (krigLinearize ystd xstd θ
               (nb.map (fun q => krigCorr E θ (normV (Xd.map Dual.re) xmean xstd) q.1))
               (nb.map (fun q => subV (normV (Xd.map Dual.re) xmean xstd) q.1))
               (nb.map (·.2)))
             (Xd.map Dual.du)⟩ := by
  obtain ⟨hnre, hndu⟩ := normV_dual Xd xmean xstd hstd hm hs
  set Xn := normV Xd (xmean.map Dual.const) (xstd.map Dual.const) with hXn
  set xn := normV (Xd.map Dual.re) xmean xstd with hxn
  have hxnlen : xn.length = Xd.length := by
    rw [hxn]; simp [normV, length_subV, hm, hs]
  -- one correlation on dual numbers
  have hcorr : ∀ Xk : List K, krigCorr (Dual.lift E E) (θ.map Dual.const) Xn (Xk.map Dual.const)
      = ⟨krigCorr E θ xn Xk,
         E (-(dot θ ((subV xn Xk).map (fun d => d * d))))
           * -(two * dot (mulV θ (subV xn Xk)) (List.zipWith (· / ·) (Xd.map Dual.du) xstd))⟩ := by
    intro Xk
    unfold krigCorr
    rw [krig_expo_dual θ Xn Xk, hnre, hndu]
    rfl
  -- the model on dual numbers as a sum over the training points
  have hM : krigModel (Dual.lift E E) (xmean.map Dual.const) (xstd.map Dual.const)
        (Dual.const ymean) (Dual.const ystd) (θ.map Dual.const)
        (nb.map (fun q => q.1.map Dual.const)) ((nb.map (·.2)).map Dual.const) Xd
      = Dual.const ymean + Dual.const ystd
          * sumL (nb.map (fun q => krigCorr (Dual.lift E E) (θ.map Dual.const) Xn (q.1.map Dual.const)
              * Dual.const q.2)) := by
    unfold krigModel krigPredict
    rw [List.map_map, List.map_map, dotD_map_map]
    rfl
  have hMr : krigModel E xmean xstd ymean ystd θ (nb.map (·.1)) (nb.map (·.2)) (Xd.map Dual.re)
      = ymean + ystd * sumL (nb.map (fun q => krigCorr E θ xn q.1 * q.2)) := by
    unfold krigModel krigPredict
    rw [List.map_map, dot_map_map]
    rfl
  -- the code's jacobian dotted with the direction
  have hJ : dot (krigLinearize ystd xstd θ (nb.map (fun q => krigCorr E θ xn q.1))
        (nb.map (fun q => subV xn q.1)) (nb.map (·.2))) (Xd.map Dual.du)
      = ystd * sumL (nb.map (fun q => krigCorr E θ xn q.1 * (-two) * q.2
          * dot (mulV θ (subV xn q.1)) (List.zipWith (· / ·) (Xd.map Dual.du) xstd))) := by
    unfold krigLinearize
    rw [dot_zipWith_krig, List.map_map, zipWith_map_map,
      dot_tMatVec_map xstd.length _ _ nb _ (by
        intro q hq
        simp only [Function.comp, length_mulV, length_subV, hθ, hxnlen, hX q hq, hs, Nat.min_self])]
    rfl
  rw [hM, hMr, hJ]
  apply Dual.ext'
  · simp only [Dual.add_re, Dual.mul_re, Dual.const_re]
    rw [sumD_re]
    congr 2
    exact sumL_map_congr _ _ _ (fun q _ => by rw [Dual.mul_re, hcorr]; rfl)
  · simp only [Dual.add_du, Dual.mul_du, Dual.const_re, Dual.const_du]
    rw [sumD_du]
    have : sumL (nb.map (fun q => (krigCorr (Dual.lift E E) (θ.map Dual.const) Xn
          (q.1.map Dual.const) * Dual.const q.2).du))
        = sumL (nb.map (fun q => krigCorr E θ xn q.1 * (-two) * q.2
          * dot (mulV θ (subV xn q.1)) (List.zipWith (· / ·) (Xd.map Dual.du) xstd))) := by
      apply sumL_map_congr
      intro q _
      rw [Dual.mul_du, hcorr]
      simp only [Dual.const_re, Dual.const_du, krigCorr]
      ring
    rw [this]
    ring

end kriging_lin

-- non-vacuity: two training points, correlations (1, 1/2), R = [[1,1/2],[1/2,1]], Y = (1,-1):
-- α = (2,-2) solves R α = Y
example : dot [(1 : Rat), 1 / 2] [2, -2] = normalize 5 3 8 ∧ krigPredict (5 : Rat) 3 [1, 1 / 2] [2, -2] = 8 := by
  decide +kernel

/-! ## MetaModelUnStructuredComp, `vec_size > 1` -/

/-- The declared sparse pattern and the flat value array put `derivs_j[a][idx + b]` — the
surrogate's Jacobian at point `j`, column slice of the input variable — at row `j·n_of + a`,
column `j·n_wrt + b`: the diagonal block of point `j`. -/
theorem C28_comp_vec_entry {K : Type} [OfNat K 0] (derivs : Nat → List (List K))
    (nOf nWrt idx j a b : Nat) (ha : a < nOf) (hb : b < nWrt) :
    let t := j * (nOf * nWrt) + (a * nWrt + b)
    vecRow nOf nWrt t = j * nOf + a ∧ vecCol nOf nWrt t = j * nWrt + b ∧
      vecVal derivs nOf nWrt idx t = ((derivs j).getD a []).getD (idx + b) 0 := by
  intro t
  have hL : a * nWrt + b < nOf * nWrt := by
    calc a * nWrt + b < a * nWrt + nWrt := by omega
      _ = (a + 1) * nWrt := by ring
      _ ≤ nOf * nWrt := Nat.mul_le_mul_right _ ha
  have hpos : 0 < nOf * nWrt := by omega
  have h1 : t / (nOf * nWrt) = j := by
    show (j * (nOf * nWrt) + (a * nWrt + b)) / (nOf * nWrt) = j
    rw [Nat.add_comm, Nat.add_mul_div_right _ _ hpos, Nat.div_eq_of_lt hL, Nat.zero_add]
  have h2 : t % (nOf * nWrt) = a * nWrt + b := by
    show (j * (nOf * nWrt) + (a * nWrt + b)) % (nOf * nWrt) = _
    rw [Nat.add_comm, Nat.add_mul_mod_self_right, Nat.mod_eq_of_lt hL]
  have hw : 0 < nWrt := by omega
  have h3 : (a * nWrt + b) / nWrt = a := by
    rw [Nat.add_comm, Nat.add_mul_div_right _ _ hw, Nat.div_eq_of_lt hb, Nat.zero_add]
  have h4 : (a * nWrt + b) % nWrt = b := by
    rw [Nat.add_comm, Nat.add_mul_mod_self_right, Nat.mod_eq_of_lt hb]
  refine ⟨?_, ?_, ?_⟩
  · unfold vecRow; rw [h1, h2, h3]; ring
  · unfold vecCol; rw [h1, h2, h4]; ring
  · unfold vecVal; simp only [h1, h2, h3, h4]

/-- No two entries of the pattern share a position: an entry index `t` is determined by its
`(row, col)` (so nothing is overwritten and every stored value is visible). -/
theorem C28_comp_vec_entry_unique (nOf nWrt t t' : Nat) (hO : 0 < nOf) (hW : 0 < nWrt)
    (hr : vecRow nOf nWrt t = vecRow nOf nWrt t') (hc : vecCol nOf nWrt t = vecCol nOf nWrt t') :
    t = t' := by
  unfold vecRow at hr
  unfold vecCol at hc
  have hL : 0 < nOf * nWrt := Nat.mul_pos hO hW
  -- decompose both
  have d1 := Nat.div_add_mod t (nOf * nWrt)
  have d2 := Nat.div_add_mod t' (nOf * nWrt)
  have m1 := Nat.mod_lt t hL
  have m2 := Nat.mod_lt t' hL
  have e1 := Nat.div_add_mod (t % (nOf * nWrt)) nWrt
  have e2 := Nat.div_add_mod (t' % (nOf * nWrt)) nWrt
  have b1 := Nat.mod_lt (t % (nOf * nWrt)) hW
  have b2 := Nat.mod_lt (t' % (nOf * nWrt)) hW
  have a1 : t % (nOf * nWrt) / nWrt < nOf := by
    rw [Nat.div_lt_iff_lt_mul hW]; exact m1
  have a2 : t' % (nOf * nWrt) / nWrt < nOf := by
    rw [Nat.div_lt_iff_lt_mul hW]; exact m2
  -- from the columns: same point and same b; from the rows: same a
  have hj : t / (nOf * nWrt) = t' / (nOf * nWrt) := by
    have := congrArg (· / nWrt) hc
    simp only [Nat.add_mul_div_right _ _ hW, Nat.div_eq_of_lt b1, Nat.div_eq_of_lt b2,
      Nat.zero_add] at this
    exact this
  rw [hj] at hr hc
  have hb : t % (nOf * nWrt) % nWrt = t' % (nOf * nWrt) % nWrt := Nat.add_right_cancel hc
  have ha : t % (nOf * nWrt) / nWrt = t' % (nOf * nWrt) / nWrt := Nat.add_right_cancel hr
  have hk : t % (nOf * nWrt) = t' % (nOf * nWrt) := by
    rw [← e1, ← e2, ha, hb]
  rw [← d1, ← d2, hj, hk]

-- non-vacuity: 2 points, 2 outputs, 3 columns
example : vecRow 2 3 (1 * (2 * 3) + (1 * 3 + 2)) = 1 * 2 + 1 ∧ vecCol 2 3 (1 * (2 * 3) + (1 * 3 + 2)) = 1 * 3 + 2 := by
  decide


/-! ## Summary: training outputs at training inputs -/

/-- The four interpolation clauses side by side (weighted: exact hit; linear: any normal, both
branches; RBF and Kriging: given the certificate of the linear solve for row `i`). -/
theorem C28_interp_at_train {K : Type} [Field K] [LinearOrder K] [IsStrictOrderedRing K] :
    (∀ (tvm tvr : K) (p : Nat) (ds ys : List K) (y : K), tvr ≠ 0 → ds.length = ys.length →
        (0 : K) ∈ ds → (∀ q ∈ ds.zip ys, q.1 = 0 → q.2 = y) → weightedPredict tvm tvr p ds ys = y) ∧
    (∀ (tvm tvr : K) (nx : List K) (nz : K) (p0 : List K) (y0 : K), tvr ≠ 0 →
        linearPredict tvm tvr nx nz p0 y0 p0 = y0) ∧
    (∀ (tvm tvr : K) (m : Nat) (e : RbfEntry) (idx : List Nat) (ds : List K) (dN : K) (W : List K)
        (yi : K), tvr ≠ 0 → dot (rbfDenseRow m e idx ds dN) W = normalize tvm tvr yi →
        rbfPredict tvm tvr m e idx ds dN W = yi) ∧
    (∀ (ymean ystd : K) (Ri α : List K) (yi : K), ystd ≠ 0 →
        dot Ri α = normalize ymean ystd yi → krigPredict ymean ystd Ri α = yi) :=
  ⟨fun tvm tvr p ds ys y h1 h2 h3 h4 => C28_interp_at_train_weighted tvm tvr p ds ys y h1 h2 h3 h4,
   fun tvm tvr nx nz p0 y0 h => C28_interp_at_train_linear tvm tvr nx nz p0 y0 h,
   fun tvm tvr m e idx ds dN W yi h1 h2 => C28_interp_at_train_rbf tvm tvr m e idx ds dN W yi h1 h2,
   fun ymean ystd Ri α yi h1 h2 => C28_interp_at_train_kriging ymean ystd Ri α yi h1 h2⟩

end OMV.C28
