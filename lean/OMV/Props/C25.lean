/-
C25 — KS aggregation brackets the extremum and has exact gradients.

Property theorems about `OMV/Model/C25.lean` instantiated at `ℝ` with `Real.exp` / `Real.log`
(`instExpLogReal` in `OMV/Proofs/C25.lean`); the driver runs the same definitions at `Float`.
Rows are `List ℝ`; `n = g.length`; `perturb g d t = g + t d`; `dotL` is the dot product.
-/
import OMV.Proofs.C25Comp
import OMV.Proofs.C25Pattern

namespace OMV.C25

/-! ### the maximum / minimum scans -/

/-- `maxL` (the model of `np.max(axis=-1)` / `jnp.max`) returns the greatest entry. -/
theorem C25_max_is_max {g : List ℝ} (hg : g ≠ []) : maxL g ∈ g ∧ ∀ y ∈ g, y ≤ maxL g :=
  ⟨maxL_mem hg, fun _ hy => le_maxL hy⟩

/-- `minL` (`jnp.min`) returns the least entry. -/
theorem C25_min_is_min {g : List ℝ} (hg : g ≠ []) : minL g ∈ g ∧ ∀ y ∈ g, minL g ≤ y :=
  ⟨minL_mem hg, fun _ hy => minL_le hy⟩

example : minL ([1, 3, 2] : List ℝ) ∈ ([1, 3, 2] : List ℝ) := (C25_min_is_min (by simp)).1

example : maxL ([1, 3, 2] : List ℝ) = 3 := by
  apply maxL_unique <;> norm_num

/-! ### value -/

/-- `KSfunction.compute` / `ks_max`: for `n ≥ 1` entries and `rho > 0`,
`max g ≤ KS ≤ max g + ln n / rho`. -/
theorem C25_bracket {g : List ℝ} (hg : g ≠ []) {rho : ℝ} (hr : 0 < rho) :
    maxL g ≤ ksRow g rho ∧ ksRow g rho ≤ maxL g + Real.log g.length / rho :=
  ksRow_bracket hg hr

example : maxL ([1, 3, 2] : List ℝ) ≤ ksRow [1, 3, 2] 50 ∧
    ksRow ([1, 3, 2] : List ℝ) 50 ≤ maxL [1, 3, 2] + Real.log (3 : ℕ) / 50 :=
  C25_bracket (by simp) (by norm_num)

/-- Log-sum-exp identity: the returned value does not depend on the shift that is subtracted
before exponentiating (the code uses the maximum only to avoid overflow). -/
theorem C25_shift_invariant {g : List ℝ} (hg : g ≠ []) {rho : ℝ} (hr : rho ≠ 0) (m m' : ℝ) :
    ksShift g rho m = ksShift g rho m' :=
  ksShift_shift hg hr m m'

/-- In particular the value is the unshifted `log(Σ exp(rho g_i)) / rho`. -/
theorem C25_unshifted {g : List ℝ} (hg : g ≠ []) {rho : ℝ} (hr : rho ≠ 0) :
    ksRow g rho = Real.log ((g.map (fun x => Real.exp (rho * x))).sum) / rho := by
  unfold ksRow
  rw [ksShift_shift hg hr (maxL g) 0]
  unfold ksShift exponents
  rw [sumL_eq]
  simp only [sub_zero, expLog_exp, expLog_log]
  ring

example : ksRow ([1, 3, 2] : List ℝ) 50
    = Real.log ((([1, 3, 2] : List ℝ).map (fun x => Real.exp (50 * x))).sum) / 50 :=
  C25_unshifted (by simp) (by norm_num)

example : ksShift ([1, 3, 2] : List ℝ) 50 3 = ksShift [1, 3, 2] 50 (-7) :=
  C25_shift_invariant (by simp) (by norm_num) _ _

/-- `ks_min` is the mirror image `-ks_max(-x)` and brackets the minimum from below:
`min x - ln n / rho ≤ ks_min x ≤ min x`. -/
theorem C25_min_mirror {x : List ℝ} (hx : x ≠ []) {rho : ℝ} (hr : 0 < rho) :
    jaxKsMin x rho = -ksRow (x.map (fun v => -v)) rho ∧
    minL x - Real.log x.length / rho ≤ jaxKsMin x rho ∧ jaxKsMin x rho ≤ minL x := by
  have hm := jaxKsMin_mirror hx rho
  have hx' : x.map (fun v => -v) ≠ [] := by simpa using hx
  have hb := ksRow_bracket hx' hr
  rw [maxL_map_neg hx, List.length_map] at hb
  refine ⟨hm, ?_, ?_⟩ <;> rw [hm] <;> [linarith [hb.2]; linarith [hb.1]]

example : minL ([1, 3, 2] : List ℝ) - Real.log (3 : ℕ) / 100 ≤ jaxKsMin [1, 3, 2] 100 :=
  (C25_min_mirror (by simp) (by norm_num)).2.1

/-! ### gradient -/

/-- The directional derivative of the returned value (with its moving maximum as shift) along any
direction `d` is `Σ w_i d_i` with the weights `KSfunction.derivatives(g, rho)[0]`
(`w_i = exp(rho (g_i - m)) / Σ_j exp(rho (g_j - m))`): those weights are the exact gradient, also
at ties of the maximum. -/
theorem C25_grad {g d : List ℝ} (hg : g ≠ []) (hlen : d.length = g.length) {rho : ℝ}
    (hr : rho ≠ 0) :
    HasDerivAt (fun t => ksRow (perturb g d t) rho) (dotL (dKSdg g rho (maxL g)) d) 0 :=
  hasDerivAt_ksRow hg hlen hr

example : HasDerivAt (fun t => ksRow (perturb ([1, 3, 3] : List ℝ) [1, 0, -2] t) 50)
    (dotL (dKSdg [1, 3, 3] 50 (maxL [1, 3, 3])) [1, 0, -2]) 0 :=
  C25_grad (by simp) (by simp) (by norm_num)

/-- The gradient weights sum to one. -/
theorem C25_grad_sums_to_one {g : List ℝ} (hg : g ≠ []) {rho : ℝ} (hr : rho ≠ 0) (m : ℝ) :
    (dKSdg g rho m).sum = 1 :=
  dKSdg_sum hg hr m

/-- Each gradient weight lies in `[0, 1]`. -/
theorem C25_grad_nonneg {g : List ℝ} (hg : g ≠ []) {rho : ℝ} (hr : rho ≠ 0) (m : ℝ) :
    ∀ w ∈ dKSdg g rho m, 0 ≤ w ∧ w ≤ 1 :=
  dKSdg_nonneg hg hr m

example : ∀ w ∈ dKSdg ([1, 3, 2] : List ℝ) 50 3, 0 ≤ w ∧ w ≤ 1 :=
  C25_grad_nonneg (by simp) (by norm_num) _

example : (dKSdg ([1, 3, 2] : List ℝ) 50 3).sum = 1 :=
  C25_grad_sums_to_one (by simp) (by norm_num) _

/-- `ks_min`: the exact gradient is the vector of soft-min weights. -/
theorem C25_min_grad {x d : List ℝ} (hx : x ≠ []) (hlen : d.length = x.length) {rho : ℝ}
    (hr : rho ≠ 0) :
    HasDerivAt (fun t => jaxKsMin (perturb x d t) rho) (dotL (jaxKsMinGrad x rho) d) 0 :=
  hasDerivAt_jaxKsMin hx hlen hr

example : HasDerivAt (fun t => jaxKsMin (perturb ([1, 3, 1] : List ℝ) [1, 0, -2] t) 100)
    (dotL (jaxKsMinGrad [1, 3, 1] 100) [1, 0, -2]) 0 :=
  C25_min_grad (by simp) (by simp) (by norm_num)

/-! ### `KSComp`: `upper`, `lower_flag`, `minimum` -/

/-- What `KSComp.compute` returns, for each combination of `lower_flag` / `minimum`:
* neither: `max g - upper ≤ KS ≤ max g - upper + ln n / rho` (so `KS ≤ 0` forces every `g_i ≤ upper`);
* `lower_flag`: `upper - min g ≤ KS ≤ upper - min g + ln n / rho` (`KS ≤ 0` forces `g_i ≥ upper`);
* `minimum`: `min g - upper - ln n / rho ≤ KS ≤ min g - upper`;
* both (documented as "the negative of the aggregated max"):
  `upper - max g - ln n / rho ≤ KS ≤ upper - max g`. -/
theorem C25_comp_bracket (o : Opts ℝ) {g : List ℝ} (hg : g ≠ []) (hr : 0 < o.rho) :
    (o.lowerFlag = false → o.minimum = false →
      maxL g - o.upper ≤ computeRow o g ∧
      computeRow o g ≤ maxL g - o.upper + Real.log g.length / o.rho) ∧
    (o.lowerFlag = true → o.minimum = false →
      o.upper - minL g ≤ computeRow o g ∧
      computeRow o g ≤ o.upper - minL g + Real.log g.length / o.rho) ∧
    (o.lowerFlag = false → o.minimum = true →
      minL g - o.upper - Real.log g.length / o.rho ≤ computeRow o g ∧
      computeRow o g ≤ minL g - o.upper) ∧
    (o.lowerFlag = true → o.minimum = true →
      o.upper - maxL g - Real.log g.length / o.rho ≤ computeRow o g ∧
      computeRow o g ≤ o.upper - maxL g) :=
  computeRow_bracket o hg hr

example : (1 : ℝ) - minL [1, 3, 2] ≤
    computeRow ({ upper := 1, lowerFlag := true, minimum := false, rho := 50 } : Opts ℝ)
      [1, 3, 2] :=
  ((C25_comp_bracket { upper := 1, lowerFlag := true, minimum := false, rho := (50 : ℝ) }
    (g := [1, 3, 2]) (by simp) (by norm_num)).2.1 rfl rfl).1

/-- The sign handling of `compute_partials` matches that of `compute`: for every flag combination
the stored partials are the exact gradient of the value `compute` returns. -/
theorem C25_comp_grad (o : Opts ℝ) {g d : List ℝ} (hg : g ≠ []) (hlen : d.length = g.length)
    (hr : o.rho ≠ 0) :
    HasDerivAt (fun t => computeRow o (perturb g d t)) (dotL (partialsRow o g) d) 0 :=
  hasDerivAt_computeRow o hg hlen hr

example : HasDerivAt
    (fun t => computeRow { upper := 1, lowerFlag := true, minimum := true, rho := (50 : ℝ) }
      (perturb [1, 3, 3] [1, 0, -2] t))
    (dotL (partialsRow { upper := 1, lowerFlag := true, minimum := true, rho := (50 : ℝ) }
      [1, 3, 3]) [1, 0, -2]) 0 :=
  C25_comp_grad _ (by simp) (by simp) (by norm_num)

/-- The partials of one row sum to `+1`, or to `-1` with `lower_flag`. -/
theorem C25_comp_partials_sum (o : Opts ℝ) {g : List ℝ} (hg : g ≠ []) (hr : o.rho ≠ 0) :
    (partialsRow o g).sum = if o.lowerFlag then -1 else 1 :=
  partialsRow_sum o hg hr

example : (partialsRow ({ upper := 1, lowerFlag := true, minimum := false, rho := 50 } : Opts ℝ)
    [1, 3, 2]).sum = -1 := by
  have h := C25_comp_partials_sum
    ({ upper := 1, lowerFlag := true, minimum := false, rho := 50 } : Opts ℝ) (g := [1, 3, 2])
    (by simp) (by norm_num)
  simpa using h

/-- The sparsity pattern declared in `setup`: stored entry `k` sits in column `k` and row
`k / width`, i.e. `partials.flatten()[k] = d KS[k / width] / d g[k / width, k % width]`. -/
theorem C25_pattern (vecSize width : Nat) (hw : 0 < width) :
    declCols vecSize width = List.range (vecSize * width) ∧
    declRows vecSize width = (List.range (vecSize * width)).map (fun k => k / width) :=
  ⟨declCols_eq vecSize width, declRows_eq vecSize width hw⟩

example : declRows 2 3 = [0, 0, 0, 1, 1, 1] ∧ declCols 2 3 = [0, 1, 2, 3, 4, 5] := by
  decide +kernel

/-- `partials['KS', 'g'] = derivs.flatten()`: stored entry `k` is entry `k % width` of the gradient
of row `k / width` — together with `C25_pattern` and `C25_comp_grad`, the value stored at
(row `r`, column `r * width + c`) is `d KS[r] / d g[r, c]`, and nothing is declared across rows. -/
theorem C25_partials_entry (o : Opts ℝ) (vecSize width : Nat) (G : List (List ℝ))
    (vals : List ℝ) (h : partialsFlat o vecSize width G = some vals) (k : Nat) :
    vals[k]? = (G[k / width]?).bind (fun r => (partialsRow o r)[k % width]?) := by
  unfold partialsFlat at h
  split at h
  · rename_i hc
    have hG : ∀ r ∈ G, r.length = width := by
      intro r hr
      have := List.all_eq_true.mp hc.2.2.2 r hr
      simpa using this
    injection h with h
    rw [← h]
    exact flatMap_partials_entry o width hc.2.2.1 G hG k
  · exact absurd h (by simp)

example : partialsFlat ({ upper := 0, lowerFlag := false, minimum := false, rho := 50 } : Opts ℝ)
    2 2 [[1, 2], [3, 4]] ≠ none := by
  simp [partialsFlat]

/-! ### `KSfunction.derivatives(g, rho)[1]` (`dKS_drho`) -/

/-- The exact derivative of the KS value with respect to `rho`. -/
theorem C25_drho {g : List ℝ} (hg : g ≠ []) {rho : ℝ} (hr : rho ≠ 0) :
    HasDerivAt (fun r => ksRow g r) (dKSdrhoExact g rho (maxL g)) rho :=
  hasDerivAt_ksShift_rho hg hr (maxL g)

example : HasDerivAt (fun r => ksRow ([1, 3, 2] : List ℝ) r)
    (dKSdrhoExact [1, 3, 2] 50 (maxL [1, 3, 2])) 50 :=
  C25_drho (by simp) (by norm_num)

/-- The value the code returns as `dKS_drho` is that derivative only when the sum of exponentials
is 1 — e.g. for a single constraint (`width = 1`). -/
theorem C25_drho_code_partial (x rho : ℝ) (hr : rho ≠ 0) :
    HasDerivAt (fun r => ksRow [x] r) (dKSdrhoCode [x] rho (maxL [x])) rho := by
  have h := C25_drho (g := [x]) (by simp) hr
  refine h.congr_deriv ?_
  unfold dKSdrhoExact
  simp [exponents, sumL, maxL]

example : HasDerivAt (fun r => ksRow ([2] : List ℝ) r) (dKSdrhoCode [2] 50 (maxL [2])) 50 :=
  C25_drho_code_partial 2 50 (by norm_num)

/-- Full statement "`dKS_drho` is the derivative of the returned value" is false of the current
code: for every row with at least two entries (and `rho > 0`) the returned `dKS_drho` is *not* the
derivative; it misses the term `-log(summation) / rho²`. -/
theorem C25_drho_code_wrong {g : List ℝ} (h2 : 2 ≤ g.length) {rho : ℝ} (hr : 0 < rho) :
    ¬ HasDerivAt (fun r => ksRow g r) (dKSdrhoCode g rho (maxL g)) rho := by
  intro h
  have hg : g ≠ [] := by intro e; rw [e] at h2; simp at h2
  have hu := h.unique (C25_drho hg hr.ne')
  unfold dKSdrhoExact at hu
  have hlog : 0 < Real.log (sumL (exponents g rho (maxL g))) :=
    Real.log_pos (one_lt_sum_exponents h2 rho)
  have hq : 0 < Real.log (sumL (exponents g rho (maxL g))) / (rho * rho) := by positivity
  simp only [expLog_log] at hu
  linarith

example : ¬ HasDerivAt (fun r => ksRow ([1, 3, 2] : List ℝ) r)
    (dKSdrhoCode [1, 3, 2] 50 (maxL [1, 3, 2])) 50 :=
  C25_drho_code_wrong (by simp) (by norm_num)

/-- Concrete witness (replayed on the implementation by the harness): `g = [0, 0]`, `rho = 1`;
the code returns `0`, the derivative is `-log 2`. -/
theorem C25_drho_code_counterexample :
    dKSdrhoCode ([0, 0] : List ℝ) 1 (maxL [0, 0]) = 0 ∧
    HasDerivAt (fun r => ksRow ([0, 0] : List ℝ) r) (-Real.log 2) 1 := by
  constructor
  · simp [dKSdrhoCode, exponents, sumL, maxL]
  · have h := C25_drho (g := [0, 0]) (by simp) (one_ne_zero)
    refine h.congr_deriv ?_
    simp [dKSdrhoExact, dKSdrhoCode, exponents, sumL, maxL]
    norm_num

end OMV.C25
