/-
C10 — Bounds enforcement keeps Newton updates inside bounds and along the step.
Property theorems only (plus non-vacuity examples).  Helper lemmas: `OMV/Proofs/C10.lean`.

Reading guide.  An `Entry` is one flat entry of the output vector in solver units (`u`, step `du`,
optional bounds).  In every theorem the *input* entries hold the START point of a Newton iteration
(`u` = start, assumed within bounds) and the Newton step `du`; the line search first adds `α·du`
(`addStep`), then runs one of the three kernels, then (ArmijoGoldstein) contracts.

* `C10_vector_in_bounds`, `C10_scalar_in_bounds`, `C10_wall_in_bounds`, `C10_backtrack_stays`,
  `C10_along_step` hold for the code as it is: in SOLVER units and exact arithmetic the mechanism
  is correct.  (`clamp` = the `clampDAlpha` flag of the model: the theorems hold for the code as it
  is and for the variant that limits `d_alpha` to `alpha`; for a start within bounds the two agree,
  which is the content of `dAlpha_facts`: `0 ≤ d_alpha ≤ α`.  In floating point that inequality
  can fail by rounding — see the harness, known finding "d_alpha exceeds alpha".)
* `C10_physical`: solver-unit bounds mean the declared physical bounds iff the scaled bounds are
  exchanged for `ref < ref0`.  The code does not exchange them: `C10_physical_partial` (needs
  `ref0 < ref`), `C10_physical_counterexample`.
* `C10_newton_update` is the property itself (physical units, every point a line search can
  return): proved for the repaired variant (`C10_newton_update_fixed`) and for the code as it is
  under `ref0 < ref` (`C10_newton_update_partial`); `C10_newton_update_counterexample` shows the
  code as it is leaves the bounds and moves against the step for `ref = -1, ref0 = 0`.
-/
import OMV.Model.C10
import OMV.Proofs.C10
import Mathlib.Algebra.Order.Field.Basic
import Mathlib.Data.List.Forall2

set_option linter.unusedSectionVars false
set_option linter.unusedVariables false

namespace OMV.C10

variable {K : Type} [Field K] [LinearOrder K] [IsStrictOrderedRing K]

/-! ### The three kernels (solver units) -/

/-- `_enforce_bounds_vector`: start within bounds, `0 < α`, step `α·du` added ⇒ afterwards every
entry lies within its bounds (an absent bound constrains nothing). -/
theorem C10_vector_in_bounds (clamp : Bool) (α : K) (es : List (Entry K)) (hα : 0 < α)
    (hs : ∀ e ∈ es, InB e.lo e.hi e.u) :
    ∀ e' ∈ enforceVector clamp α (es.map (addStep α)), InB e'.lo e'.hi e'.u :=
  Rel.all_in_bounds (enforceVector_rel hα clamp es hs)

example :
    let es : List (Entry Rat) := [⟨1, -4, some (1/2), some 10⟩, ⟨1, 3, some (-10), some (3/2)⟩,
      ⟨0, 7, none, none⟩]
    (∀ e ∈ es, InB e.lo e.hi e.u) ∧ dAlpha (es.map (addStep 1)) = 7/8 ∧
    (enforceVector false 1 (es.map (addStep 1))).map (·.u) = [1/2, 11/8, 7/8] := by decide +kernel

/-- The assumption written in the code of `_enforce_bounds_vector` ("the original point was valid,
therefore 0 <= d_alpha <= alpha") is a theorem in exact arithmetic. -/
theorem C10_d_alpha_le_alpha (α : K) (es : List (Entry K)) (hα : 0 < α)
    (hs : ∀ e ∈ es, InB e.lo e.hi e.u) :
    0 ≤ dAlpha (es.map (addStep α)) ∧ dAlpha (es.map (addStep α)) ≤ α :=
  ⟨(dAlpha_facts hα es hs).1, (dAlpha_facts hα es hs).2.1⟩

/-- Hence limiting `d_alpha` to `alpha` changes nothing for a start within bounds (exact
arithmetic); it only matters when rounding breaks the inequality above. -/
theorem C10_clamp_noop (α : K) (es : List (Entry K)) (hα : 0 < α)
    (hs : ∀ e ∈ es, InB e.lo e.hi e.u) :
    enforceVector true α (es.map (addStep α)) = enforceVector false α (es.map (addStep α)) := by
  have h := (C10_d_alpha_le_alpha α es hα hs).2
  unfold enforceVector
  have : decide (α < dAlpha (es.map (addStep α))) = false := decide_eq_false (not_lt.mpr h)
  simp only [this, Bool.and_false, Bool.false_eq_true, if_false]

/-- Outside the hypothesis (start beyond its upper bound) the two variants differ: the code as it
is moves the other entry backwards past its start. -/
example :
    let st : List (Entry Rat) := [⟨5, 1/2, none, some 4⟩, ⟨0, -1, none, none⟩]
    dAlpha st = 2 ∧ (enforceVector false 1 st).map (·.u) = [4, 2] ∧
    (enforceVector true 1 st).map (·.u) = [9/2, 1] := by decide +kernel

/-- `_enforce_bounds_scalar`. -/
theorem C10_scalar_in_bounds (α : K) (es : List (Entry K)) (hα : 0 < α)
    (hs : ∀ e ∈ es, InB e.lo e.hi e.u) :
    ∀ e' ∈ enforceScalar α (es.map (addStep α)), InB e'.lo e'.hi e'.u :=
  Rel.all_in_bounds (enforceScalar_rel hα es hs)

example :
    let es : List (Entry Rat) := [⟨1, -4, some (1/2), some 10⟩, ⟨1, 3, some (-10), some (3/2)⟩,
      ⟨0, 7, none, none⟩]
    (enforceScalar 2 (es.map (addStep 2))).map (·.u) = [1/2, 3/2, 14] ∧
    (enforceScalar 2 (es.map (addStep 2))).map (·.du) = [-1/4, 1/4, 7] := by decide +kernel

/-- `_enforce_bounds_wall`. -/
theorem C10_wall_in_bounds (α : K) (es : List (Entry K)) (hα : 0 < α)
    (hs : ∀ e ∈ es, InB e.lo e.hi e.u) :
    ∀ e' ∈ enforceWall α (es.map (addStep α)), InB e'.lo e'.hi e'.u :=
  Rel.all_in_bounds (enforceWall_rel hα es hs)

example :
    let es : List (Entry Rat) := [⟨1, -4, some (1/2), some 10⟩, ⟨1, 3, some (-10), some (3/2)⟩,
      ⟨0, 7, none, none⟩]
    (enforceWall 2 (es.map (addStep 2))).map (·.u) = [1/2, 3/2, 14] ∧
    (enforceWall 2 (es.map (addStep 2))).map (·.du) = [0, 0, 7] := by decide +kernel

/-! ### The line searches (solver units) -/

/-- `BoundsEnforceLS._solve`: the point it returns is within bounds. -/
theorem C10_bounds_enforce_stays (clamp : Bool) (m : Method) (es : List (Entry K))
    (hs : ∀ e ∈ es, InB e.lo e.hi e.u) :
    ∀ e' ∈ boundsEnforceSolve clamp m es, InB e'.lo e'.hi e'.u := by
  rw [boundsEnforceSolve_eq]
  exact Rel.all_in_bounds (enforce_rel zero_lt_one clamp m es hs)

/-- `ArmijoGoldsteinLS`: the bounds are enforced once, at step length `α`; every later iterate
`u ← u + (α·ρᵏ⁺¹ - α·ρᵏ)·du` stays within bounds, for every contraction factor `0 ≤ ρ ≤ 1` and
every `maxiter`. -/
theorem C10_backtrack_stays (clamp : Bool) (m : Method) (α ρ : K) (maxiter : Nat)
    (es : List (Entry K)) (hα : 0 < α) (hρ0 : 0 ≤ ρ) (hρ1 : ρ ≤ 1)
    (hs : ∀ e ∈ es, InB e.lo e.hi e.u) :
    ∀ it ∈ agIterates clamp m α ρ maxiter es, ∀ e' ∈ it, InB e'.lo e'.hi e'.u := by
  intro it hit
  obtain ⟨αⱼ, h⟩ := lsIterates_rel clamp (.ag α ρ maxiter) m es hα
    (fun a r n h => by cases h; exact ⟨hρ0, hρ1⟩) hs it hit
  exact Rel.all_in_bounds h

example :
    let es : List (Entry Rat) := [⟨1, -4, some (1/2), some 10⟩, ⟨1, 3, some (-10), some (3/2)⟩]
    (agIterates false .scalar 2 (1/2) 3 es).map (fun it => it.map (·.u))
      = [[1/2, 3/2], [3/4, 5/4], [7/8, 9/8]] ∧
    (agIterates false .wall 2 (1/2) 3 es).map (fun it => it.map (·.u))
      = [[1/2, 3/2], [1/2, 3/2], [1/2, 3/2]] := by decide +kernel

/-- No entry moves opposite to its Newton step or beyond the (initial-length) step: for every
point either line search can return, entry by entry,
`0 ≤ (u_new - u_start)·du` and `|u_new - u_start| ≤ α·|du|` (`α = 1` for `BoundsEnforceLS`). -/
theorem C10_along_step (clamp : Bool) (ls : LS K) (m : Method) (es : List (Entry K))
    (hα : 0 < ls.alpha) (hρ : ∀ α ρ n, ls = .ag α ρ n → 0 ≤ ρ ∧ ρ ≤ 1)
    (hs : ∀ e ∈ es, InB e.lo e.hi e.u) :
    ∀ it ∈ lsIterates clamp ls m es,
      List.Forall₂ (fun e e' => 0 ≤ (e'.u - e.u) * e.du ∧ |e'.u - e.u| ≤ ls.alpha * |e.du|)
        es it := by
  intro it hit
  obtain ⟨αⱼ, h⟩ := lsIterates_rel clamp ls m es hα hρ hs it hit
  refine h.imp (fun e e' hr => ?_)
  have := hr.along
  unfold Along at this
  rwa [absK_eq, absK_eq] at this

/-! ### Solver units versus physical units -/

/-- Membership in the scaled bounds of `_setup_solvers` (solver units) is membership in the
declared bounds (physical units), provided the scaled bounds are exchanged when `ref < ref0`
(`swap = true`) or the scaling is positive (`ref0 < ref`). -/
theorem C10_physical (swap : Bool) (m : Meta K) (x : K) (hne : m.ref ≠ m.ref0)
    (h : swap = true ∨ m.ref0 < m.ref) :
    InB (scaledBounds swap m).1 (scaledBounds swap m).2 (toScaled m.ref m.ref0 x)
      ↔ InB m.lower m.upper x := by
  obtain ⟨ref, ref0, lower, upper⟩ := m
  simp only at hne h ⊢
  rcases lt_or_gt_of_ne hne with hlt | hgt
  · -- ref < ref0: only the repaired variant
    have hs : swap = true := by
      rcases h with h | h
      · exact h
      · exact absurd h (not_lt.mpr hlt.le)
    subst hs
    simp only [scaledBounds, Bool.true_and, decide_eq_true hlt, if_true]
    unfold InB
    cases lower <;> cases upper <;>
      (simp only [Option.map_none, Option.map_some, toScaled_le_neg hlt, true_and, and_true]
       try exact and_comm)
  · have hnl : ¬ ref < ref0 := not_lt.mpr hgt.le
    simp only [scaledBounds, decide_eq_false hnl, Bool.and_false, Bool.false_eq_true, if_false]
    unfold InB
    cases lower <;> cases upper <;>
      simp only [Option.map_none, Option.map_some, toScaled_le_pos hgt]

/-- The code as it is (`swapWhenNegative = false`): correct when `ref0 < ref`. -/
theorem C10_physical_partial (m : Meta K) (x : K) (h : m.ref0 < m.ref) :
    InB (scaledBounds false m).1 (scaledBounds false m).2 (toScaled m.ref m.ref0 x)
      ↔ InB m.lower m.upper x :=
  C10_physical false m x (ne_of_gt h) (Or.inr h)

/-- The repaired variant: correct for every scaling. -/
theorem C10_physical_fixed (m : Meta K) (x : K) (hne : m.ref ≠ m.ref0) :
    InB (scaledBounds true m).1 (scaledBounds true m).2 (toScaled m.ref m.ref0 x)
      ↔ InB m.lower m.upper x :=
  C10_physical true m x hne (Or.inl rfl)

/-- The code as it is, `ref = -1, ref0 = 0`, declared bounds `[1/2, 10]`: the physical value `1` is
within the declared bounds but outside the solver's scaled "bounds" (lower `-1/2`, upper `-10`:
an empty interval).  So `C10_physical_partial` needs its hypothesis. -/
theorem C10_physical_counterexample :
    let m : Meta Rat := ⟨-1, 0, some (1/2), some 10⟩
    scaledBounds false m = (some (-1/2), some (-10)) ∧
    InB m.lower m.upper 1 ∧
    ¬ InB (scaledBounds false m).1 (scaledBounds false m).2 (toScaled m.ref m.ref0 1) := by
  decide +kernel

/-! ### The property: one Newton update in physical units -/

/-- What the property demands of one point `it` returned for the start `vs`: each entry within
its declared bounds, not moved against its Newton step `dx`, not moved further than `α·|dx|`. -/
def UpdateOK (α : K) (vs : List (PVar K)) (it : List K) : Prop :=
  List.Forall₂ (fun v y => InB v.md.lower v.md.upper y ∧ 0 ≤ (y - v.x) * v.dx ∧
    |y - v.x| ≤ α * |v.dx|) vs it

/-- Every point that the line search of one Newton iteration can return satisfies the property,
for all three enforcement methods and both line searches, whenever the start is within the
declared bounds — provided (`hsw`) the scaled bounds are exchanged for `ref < ref0` or no entry
has `ref < ref0`. -/
theorem C10_newton_update (swap clamp : Bool) (ls : LS K) (m : Method) (vs : List (PVar K))
    (hsw : swap = true ∨ ∀ v ∈ vs, v.md.ref0 < v.md.ref)
    (hne : ∀ v ∈ vs, v.md.ref ≠ v.md.ref0) (hα : 0 < ls.alpha)
    (hρ : ∀ α ρ n, ls = .ag α ρ n → 0 ≤ ρ ∧ ρ ≤ 1)
    (hs : ∀ v ∈ vs, InB v.md.lower v.md.upper v.x) :
    ∀ it ∈ newtonUpdate swap clamp ls m vs, UpdateOK ls.alpha vs it := by
  have hsw' : ∀ v ∈ vs, swap = true ∨ v.md.ref0 < v.md.ref := by
    intro v hv
    rcases hsw with h | h
    · exact Or.inl h
    · exact Or.inr (h v hv)
  have hstart : ∀ e ∈ vs.map (mkEntry swap), InB e.lo e.hi e.u := by
    intro e he
    rw [List.mem_map] at he
    obtain ⟨v, hv, rfl⟩ := he
    exact (C10_physical swap v.md v.x (hne v hv) (hsw' v hv)).mpr (hs v hv)
  intro it hit
  unfold newtonUpdate at hit
  rw [List.mem_map] at hit
  obtain ⟨sit, hsit, rfl⟩ := hit
  obtain ⟨αⱼ, hrel⟩ := lsIterates_rel clamp ls m _ hα hρ hstart sit hsit
  rw [List.forall₂_map_left_iff] at hrel
  -- transfer entry by entry
  unfold UpdateOK physOf
  have key : ∀ (ws : List (PVar K)) (ss : List (Entry K)), (∀ v ∈ ws, v ∈ vs) →
      List.Forall₂ (fun v e' => Rel ls.alpha αⱼ (mkEntry swap v) e') ws ss →
      List.Forall₂ (fun v y => InB v.md.lower v.md.upper y ∧ 0 ≤ (y - v.x) * v.dx ∧
        |y - v.x| ≤ ls.alpha * |v.dx|) ws
        (List.zipWith (fun v e => toPhys v.md.ref v.md.ref0 e.u) ws ss) := by
    intro ws ss hsub h
    induction h with
    | nil => exact List.Forall₂.nil
    | @cons v e' ws' ss' hr _ ih =>
      have hv : v ∈ vs := hsub v List.mem_cons_self
      refine List.Forall₂.cons ⟨?_, ?_⟩ (ih (fun w hw => hsub w (List.mem_cons_of_mem _ hw)))
      · have h1 := hr.inb
        have := (C10_physical swap v.md (toPhys v.md.ref v.md.ref0 e'.u) (hne v hv) (hsw' v hv))
        rw [toScaled_toPhys (hne v hv)] at this
        exact this.mp h1
      · have h2 := along_phys (hne v hv) hr.along
        unfold Along at h2
        rwa [absK_eq, absK_eq] at h2
  exact key vs sit (fun v hv => hv) hrel

/-- The repaired variant satisfies the property for every scaling. -/
theorem C10_newton_update_fixed (clamp : Bool) (ls : LS K) (m : Method) (vs : List (PVar K))
    (hne : ∀ v ∈ vs, v.md.ref ≠ v.md.ref0) (hα : 0 < ls.alpha)
    (hρ : ∀ α ρ n, ls = .ag α ρ n → 0 ≤ ρ ∧ ρ ≤ 1)
    (hs : ∀ v ∈ vs, InB v.md.lower v.md.upper v.x) :
    ∀ it ∈ newtonUpdate true clamp ls m vs, UpdateOK ls.alpha vs it :=
  C10_newton_update true clamp ls m vs (Or.inl rfl) hne hα hρ hs

/-- The code as it is satisfies the property when every output has `ref0 < ref`. -/
theorem C10_newton_update_partial (clamp : Bool) (ls : LS K) (m : Method) (vs : List (PVar K))
    (hpos : ∀ v ∈ vs, v.md.ref0 < v.md.ref) (hα : 0 < ls.alpha)
    (hρ : ∀ α ρ n, ls = .ag α ρ n → 0 ≤ ρ ∧ ρ ≤ 1)
    (hs : ∀ v ∈ vs, InB v.md.lower v.md.upper v.x) :
    ∀ it ∈ newtonUpdate false clamp ls m vs, UpdateOK ls.alpha vs it :=
  C10_newton_update false clamp ls m vs (Or.inr hpos) (fun v hv => ne_of_gt (hpos v hv)) hα hρ hs

/-- The code as it is with `ref = -1, ref0 = 0` (replayed on the implementation by the harness,
`corpus/C10`): bounds `[1/2, 10] × [-10, 3/2]`, start `(1, 1)` within bounds, Newton step
`(-4, 3)`.  `vector` enforcement returns `(47/3, -10)`: entry 0 is outside its bounds and has
moved against its step; `scalar` enforcement returns `(10, -10)`: both entries moved against
their step.  The repaired variant returns `(1/2, 11/8)` and `(1/2, 3/2)`. -/
theorem C10_newton_update_counterexample :
    let vs : List (PVar Rat) := [⟨⟨-1, 0, some (1/2), some 10⟩, 1, -4⟩,
                                 ⟨⟨-1, 0, some (-10), some (3/2)⟩, 1, 3⟩]
    (∀ v ∈ vs, InB v.md.lower v.md.upper v.x) ∧
    newtonUpdate false false .bchk .vector vs = [[47/3, -10]] ∧
    ¬ InB (some (1/2 : Rat)) (some 10) (47/3) ∧ (47/3 - 1 : Rat) * (-4) < 0 ∧
    newtonUpdate false false .bchk .scalar vs = [[10, -10]] ∧
    ((10 - 1 : Rat) * (-4) < 0 ∧ (-10 - 1 : Rat) * 3 < 0) ∧
    newtonUpdate true false .bchk .vector vs = [[1/2, 11/8]] ∧
    newtonUpdate true false .bchk .scalar vs = [[1/2, 3/2]] := by
  decide +kernel

-- non-vacuity of `C10_newton_update`: mixed scalings (one entry with `ref < ref0`), repaired
-- variant, ArmijoGoldstein with `α = 2`, `ρ = 1/2`, three evaluations.
example :
    let vs : List (PVar Rat) := [⟨⟨-1, 0, some (1/2), some 10⟩, 1, -4⟩,
                                 ⟨⟨4, 2, none, some (3/2)⟩, 1, 3⟩, ⟨⟨1, 0, none, none⟩, 0, 7⟩]
    (∀ v ∈ vs, v.md.ref ≠ v.md.ref0) ∧ (∀ v ∈ vs, InB v.md.lower v.md.upper v.x) ∧
    newtonUpdate true true (.ag 2 (1/2) 3) .scalar vs
      = [[1/2, 3/2, 14], [3/4, 5/4, 7], [7/8, 9/8, 7/2]] := by decide +kernel

end OMV.C10
