/-
C33 — Vector arithmetic and scaling round-trips match NumPy.
Property theorems only (plus non-vacuity examples).  Model: `OMV/Model/C33.lean`
(`DefaultVector` storage, views, in-place arithmetic, scaling), helper lemmas: `OMV/Proofs/C33.lean`.

Clauses of the property and the theorems that carry them:
* "operations act on the flat data exactly as the NumPy operations":
  `C33_ops_pointwise`, `C33_ops_pointwise_nodup`, `C33_step_arith`, `C33_cell_formulas`,
  `C33_step_frame`, `C33_run_shape`, dot/norm: `C33_dot_comm`, `C33_dot_add_scal_vec`,
  `C33_norm2_eq_dot_self`;
* "named views alias the right slices": `C33_views_tile`, `C33_views_disjoint`,
  `C33_named_write_local`, `C33_named_other_unchanged`, `C33_subvec_views_agree`,
  `C33_subvec_root_agree`, `C33_subvec_root_agree_step`, `C33_subvec_refines`;
* "scaling to solver units and back returns the original data": `C33_scale_cell_roundtrip`,
  `C33_scale_roundtrip` (hypothesis: scalers non-zero; `C33_scale_roundtrip_needs_nonzero`),
  and what the scaling arrays mean: `C33_input_scaling_consistent`, `C33_linear_input_scaling`,
  `C33_shared_scaler_unchanged` (`C33_shared_scaler_needs_unit_a1`).
-/
import OMV.Proofs.C33

set_option linter.unusedSectionVars false
set_option linter.unusedVariables false
set_option linter.unusedSimpArgs false

namespace OMV.C33

/-! ## in-place operations are the pointwise NumPy formula -/

section Lists
variable {α β : Type} [Inhabited α]

/-- `a[off:][ps] op= vs` (gather, compute, write back in order): the length is kept, every position
that is not addressed keeps its value, and an addressed position holds `g old value` for the value
paired with its *last* occurrence in the index list (NumPy's behaviour with repeated indices). -/
theorem C33_ops_pointwise (d : List α) (off : Nat) (ps : List Nat) (vs : List β) (g : α → β → α)
    (hlen : ps.length ≤ vs.length) (hin : ∀ p ∈ ps, off + p < d.length) :
    (updAt d off ps vs g).length = d.length ∧
    (∀ q, (∀ p ∈ ps, off + p ≠ q) → (updAt d off ps vs g)[q]? = d[q]?) ∧
    (∀ k (hk : k < ps.length), (∀ j (hj : j < ps.length), k < j → ps[j] ≠ ps[k]) →
      (updAt d off ps vs g)[off + ps[k]]? =
        some (g (d[off + ps[k]]'(hin _ (List.getElem_mem _))) (vs[k]'(by omega)))) :=
  ⟨updAt_length d off ps vs g, fun q hq => updAt_getElem?_untouched d off ps vs g q hq,
   fun k hk hlast => updAt_getElem?_last d off ps vs g k hk (by omega) hlast
     (hin _ (List.getElem_mem _))⟩

/-- Without repeated indices (full vector, slices, duplicate-free index lists) every addressed
position `off + ps[k]` becomes `g old vs[k]`. -/
theorem C33_ops_pointwise_nodup (d : List α) (off : Nat) (ps : List Nat) (vs : List β)
    (g : α → β → α) (hnd : ps.Nodup) (hlen : ps.length ≤ vs.length)
    (hin : ∀ p ∈ ps, off + p < d.length) (k : Nat) (hk : k < ps.length) :
    (updAt d off ps vs g)[off + ps[k]]? =
      some (g (d[off + ps[k]]'(hin _ (List.getElem_mem _))) (vs[k]'(by omega))) := by
  apply updAt_getElem?_last d off ps vs g k hk (by omega) _ (hin _ (List.getElem_mem _))
  intro j hj hkj e
  exact (List.pairwise_iff_getElem.mp hnd k j hk hj hkj) e.symm

/-- Refinement of (root vector, sub-system vector) to one flat array: an update made through a
vector that is the slice `[|pre|, |pre| + |mid|)` of the root is exactly the update of that vector
taken on its own, with the rest of the root untouched — and, read the other way, whatever is written
into that part of the root is what the sub-system vector holds. -/
theorem C33_subvec_refines (pre mid post : List α) (ps : List Nat) (vs : List β) (g : α → β → α)
    (hps : ∀ p ∈ ps, p < mid.length) :
    updAt (pre ++ mid ++ post) pre.length ps vs g = pre ++ updAt mid 0 ps vs g ++ post :=
  updAt_append pre mid post ps vs g hps

example : updAt [10, 20, 30, 40, 50] 1 [2, 0, 2] [1, 2, 3] (fun (a b : Nat) => a + b)
    = [10, 22, 30, 43, 50] := by decide

end Lists

section Cells
variable {K : Type} [Field K]

/-- What the cell maps are in NumPy terms: a raw assignment of a real resets the imaginary part,
`asarray()`-level operations without complex step leave it alone, and with complex step a real
operand acts on both parts as complex arithmetic does. -/
theorem C33_cell_formulas (z : Cx K) (s : K) :
    cellUpd true false .set z (Cx.ofReal s) = ⟨s, 0⟩ ∧
    cellUpd false false .set z (Cx.ofReal s) = ⟨s, z.im⟩ ∧
    cellUpd false true .add z (Cx.ofReal s) = ⟨z.re + s, z.im⟩ ∧
    cellUpd false true .sub z (Cx.ofReal s) = ⟨z.re - s, z.im⟩ ∧
    cellUpd false true .mul z (Cx.ofReal s) = ⟨z.re * s, z.im * s⟩ ∧
    cellUpd false false .mul z (Cx.ofReal s) = ⟨z.re * s, z.im⟩ ∧
    readCell false z = ⟨z.re, 0⟩ ∧ readCell true z = z := by
  refine ⟨?_, ?_, ?_, ?_, ?_, ?_, ?_, ?_⟩ <;>
    simp [cellUpd, BinOp.cx, BinOp.re, Cx.ofReal, Cx.add, Cx.sub, Cx.mul, readCell]

end Cells

section StateLevel
variable {K : Type} [Add K] [Sub K] [Mul K] [Div K] [OfNat K 0] [OfNat K 1]

/-- A successful `set_val` / `iadd` / `isub` / `imul` / `+=` / `set_vec` / `add_scal_vec` on a
(sub-)vector `t`: no output, mode flag and all other root vectors unchanged, and the root array of
`t` is the gather/compute/scatter update at offset `t.off` with the cell map of the call
(`C33_ops_pointwise` then gives every cell). -/
theorem C33_step_arith (st : State K) (t : Handle) (f : BinOp) (raw : Bool) (src : Src K)
    (idx : Idx) (v : RootVec K) (vs0 vs : List (Cx K)) (ps : List Nat)
    (hv : st.vecs[t.vid]? = some v) (hsrc : src.eval st = some vs0)
    (hps : idx.positions t.len = some ps) (hbc : bcast vs0 ps.length = some vs) :
    (step st (.arith t f raw src idx)).2 = .none ∧
    (step st (.arith t f raw src idx)).1.cs = st.cs ∧
    (∀ i, i ≠ t.vid → (step st (.arith t f raw src idx)).1.vecs[i]? = st.vecs[i]?) ∧
    (step st (.arith t f raw src idx)).1.vecs[t.vid]? =
      some { v with data := (updAt v.data t.off ps vs
                (fun old x => cellUpd raw (st.underCS v) f old x)) } ∧
    (∀ p ∈ ps, p < t.len) ∧ vs.length = ps.length := by
  simp only [step, arithStep, hv, hsrc, hps, hbc]
  exact ⟨trivial, setData_cs _ _ _, fun i hi => setData_get_ne _ _ _ i hi, setData_get _ _ _ v hv,
    positions_lt idx t.len ps hps, bcast_length vs0 ps.length vs hbc⟩

/-- Frame: whatever the operation and whether or not it fails, a step keeps the number of root
vectors, their lengths, storage kind and scaling arrays; it can change cell values only in the root
vector it addresses; and only `setCS` changes the mode flag. -/
theorem C33_step_frame (st : State K) (op : Op K) :
    (step st op).1.vecs.length = st.vecs.length ∧
    (∀ i : Nat, ((step st op).1.vecs[i]?).map RootVec.shape = (st.vecs[i]?).map RootVec.shape) ∧
    (∀ i : Nat, op.target ≠ some i → (step st op).1.vecs[i]? = st.vecs[i]?) ∧
    (step st op).1.cs = (match op with | .setCS b => b | _ => st.cs) :=
  ⟨(step_frame st op).1, (step_frame st op).2.1, (step_frame st op).2.2, step_cs st op⟩

/-- The same for whole histories: no sequence of calls changes a vector's size, storage kind or
scaling arrays. -/
theorem C33_run_shape (st : State K) (ops : List (Op K)) :
    (run st ops).vecs.length = st.vecs.length ∧
    ∀ i : Nat, ((run st ops).vecs[i]?).map RootVec.shape = (st.vecs[i]?).map RootVec.shape := by
  induction ops generalizing st with
  | nil => exact ⟨rfl, fun _ => rfl⟩
  | cons o os ih =>
    have h := step_frame st o
    have h2 := ih (step st o).1
    simp only [run]
    exact ⟨h2.1.trans h.1, fun i => (h2.2 i).trans (h.2.1 i)⟩

end StateLevel

/-! ## named views alias the right slices -/

/-- `_initialize_data`: variable `k` gets `[Σ_{j<k} size_j, Σ_{j≤k} size_j)`, of its own size,
inside the vector. -/
theorem C33_views_tile (vars : List Var) (k : Nat) (hk : k < vars.length) :
    (mkViews vars)[k]'(by rw [mkViews, mkViewsFrom_length]; exact hk) =
      ⟨vars[k].name, vars[k].shape, totalLen (vars.take k), totalLen (vars.take (k + 1))⟩ ∧
    totalLen (vars.take (k + 1)) = totalLen (vars.take k) + vars[k].size ∧
    totalLen (vars.take (k + 1)) ≤ totalLen vars :=
  views_tile vars k hk

/-- Distinct variables occupy disjoint ranges. -/
theorem C33_views_disjoint (vars : List Var) (i j : Nat) (hij : i < j) (hj : j < vars.length) :
    ((mkViews vars)[i]'(by rw [mkViews, mkViewsFrom_length]; omega)).stop ≤
      ((mkViews vars)[j]'(by rw [mkViews, mkViewsFrom_length]; exact hj)).start := by
  have hi : i < vars.length := by omega
  rw [(C33_views_tile vars i hi).1, (C33_views_tile vars j hj).1]
  exact totalLen_take_mono vars (i + 1) j (by omega)

/-- If the variables of a sub-system are a contiguous run `sub` of the parent's variables (what
`_initialize_data` relies on when it takes the start of the first one), each of them is found in
the parent at the sub-system's own range shifted by the length of what precedes the run. -/
theorem C33_subvec_views_agree (pre sub post : List Var)
    (hnd : ((pre ++ sub ++ post).map Var.name).Nodup) (k : Nat) (hk : k < sub.length) :
    lookup (mkViews (pre ++ sub ++ post)) sub[k].name =
      some ⟨sub[k].name, sub[k].shape,
        totalLen pre + ((mkViews sub)[k]'(by rw [mkViews, mkViewsFrom_length]; exact hk)).start,
        totalLen pre + ((mkViews sub)[k]'(by rw [mkViews, mkViewsFrom_length]; exact hk)).stop⟩ := by
  have hlen : pre.length + k < (pre ++ sub ++ post).length := by simp; omega
  have hget : (pre ++ sub ++ post)[pre.length + k] = sub[k] := by
    simp [List.getElem_append, hk]
  have h := lookup_mkViewsFrom 0 (pre ++ sub ++ post) hnd (pre.length + k) hlen
  simp only [hget] at h
  rw [mkViews, h, mkViewsFrom_getElem 0 _ _ hlen]
  have htake : (pre ++ sub ++ post).take (pre.length + k) = pre ++ sub.take k := by
    rw [List.append_assoc, List.take_length_add_append, List.take_append_of_le_length (by omega)]
  rw [(C33_views_tile sub k hk).1]
  simp only [hget, htake, totalLen_append, Nat.zero_add, totalLen_take_succ sub k hk]
  simp [Nat.add_assoc]

/-- The sub-system vector built by `_initialize_data` lives in the parent's root array at the
parent's offset plus the length of the preceding variables, has the sub-system's total length, and
a variable seen through it is the very same root slice as seen through the parent. -/
theorem C33_subvec_root_agree (parent hs : Handle) (pre sub post : List Var) (sr : Bool)
    (hviews : parent.views = mkViews (pre ++ sub ++ post))
    (hnd : ((pre ++ sub ++ post).map Var.name).Nodup)
    (hsub : subHandle parent sub sr = some hs) (k : Nat) (hk : k < sub.length) :
    hs.vid = parent.vid ∧ hs.off = parent.off + totalLen pre ∧ hs.len = totalLen sub ∧
    hs.absRange sub[k].name = parent.absRange sub[k].name := by
  cases sub with
  | nil => simp at hk
  | cons v vs =>
    have h0 := C33_subvec_views_agree pre (v :: vs) post hnd 0 (by simp)
    have t0 := (C33_views_tile (v :: vs) 0 (by simp)).1
    simp only [List.getElem_cons_zero] at h0 t0
    rw [t0] at h0
    simp only [subHandle, hviews, h0, Option.map_some, Option.some.injEq, List.take_zero,
      totalLen, Nat.add_zero] at hsub
    subst hsub
    refine ⟨rfl, by simp [Nat.add_assoc], rfl, ?_⟩
    have hk' := C33_subvec_views_agree pre (v :: vs) post hnd k hk
    have hl : lookup (mkViews (v :: vs)) (v :: vs)[k].name =
        some ((mkViews (v :: vs))[k]'(by rw [mkViews, mkViewsFrom_length]; exact hk)) :=
      lookup_mkViewsFrom 0 (v :: vs) (nodup_sub pre (v :: vs) post hnd) k hk
    unfold Handle.absRange
    rw [hviews, hk']
    simp only [hl, Option.map_some, Nat.add_assoc]

section NamedState
variable {K : Type} [Add K] [Sub K] [Mul K] [Div K] [OfNat K 0] [OfNat K 1]

/-- Hence a write (or read) by name through the sub-system vector and through the parent (root)
vector are the same step: a sub-vector write is visible in the root and vice versa. -/
theorem C33_subvec_root_agree_step (st : State K) (parent hs : Handle) (pre sub post : List Var)
    (sr : Bool) (hviews : parent.views = mkViews (pre ++ sub ++ post))
    (hnd : ((pre ++ sub ++ post).map Var.name).Nodup)
    (hsub : subHandle parent sub sr = some hs) (k : Nat) (hk : k < sub.length)
    (f : BinOp) (raw : Bool) (vals : List (Cx K)) (idx : Idx) :
    step st (.named hs sub[k].name f raw vals idx) =
      step st (.named parent sub[k].name f raw vals idx) ∧
    step st (.get hs sub[k].name) = step st (.get parent sub[k].name) := by
  obtain ⟨hvid, _, _, hr⟩ := C33_subvec_root_agree parent hs pre sub post sr hviews hnd hsub k hk
  simp only [step, Handle.var, hr, hvid]
  cases parent.absRange sub[k].name with
  | none => simp
  | some r => simp [arithStep, State.read]

/-- Write by name = write exactly that variable's slice: a named operation on vector `t` is the
plain vector operation on the (nameless) vector occupying `[start, stop)` of the variable in the
root array — with the same index and broadcasting rules and the same error cases. -/
theorem C33_views_alias (st : State K) (t : Handle) (name : String) (f : BinOp) (raw : Bool)
    (vals : List (Cx K)) (idx : Idx) :
    step st (.named t name f raw vals idx) =
      match t.absRange name with
      | none => (st, .err "name")
      | some (a, b) =>
        step st (.arith { vid := t.vid, off := a, len := b - a, views := [],
                          solverRef := t.solverRef } f raw (.vals vals) idx) := by
  cases h : t.absRange name with
  | none => simp [step, Handle.var, h]
  | some r =>
    obtain ⟨a, b⟩ := r
    simp [step, var_eq t name a b h]

/-- `set_var(name, value, idxs)` (non-flat) once NumPy has resolved the index to the positions
`ps`: with a directly assignable value it is the raw assignment of the broadcast values at `ps`;
otherwise — the reshape fallback — a value with as many entries as the selection is assigned *to
the vector's cells* `ps` in C order (by `C33_step_arith`/`C33_ops_pointwise` cell `a + ps[k]`
becomes `vals[k]`; it is not lost in a temporary), and any other value is an error that leaves the
state alone. -/
theorem C33_set_var_sel (st : State K) (t : Handle) (name : String) (a b : Nat) (ps : List Nat)
    (bvals : Option (List (Cx K))) (vals : List (Cx K)) (h : t.absRange name = some (a, b)) :
    step st (.setVarSel t name (some ps) bvals vals) =
      match bvals with
      | some bv =>
        step st (.arith { vid := t.vid, off := a, len := b - a, views := [],
                          solverRef := t.solverRef } .set true (.vals bv) (.list ps))
      | none =>
        if vals.length = ps.length then
          step st (.arith { vid := t.vid, off := a, len := b - a, views := [],
                            solverRef := t.solverRef } .set true (.vals vals) (.list ps))
        else (st, .err "shape") := by
  cases bvals <;> simp [step, var_eq t name a b h]

/-- Writing by name (`set_var`, `__setitem__`, `_abs_set_val`, `vec[name] op= v`), successful or
not, changes nothing outside the variable's `[start, stop)` of the root array. -/
theorem C33_named_write_local (st : State K) (t : Handle) (name : String) (f : BinOp) (raw : Bool)
    (vals : List (Cx K)) (idx : Idx) (a b : Nat) (h : t.absRange name = some (a, b))
    (q : Nat) (hq : q < a ∨ b ≤ q) :
    ((step st (.named t name f raw vals idx)).1.dataOf t.vid)[q]? = (st.dataOf t.vid)[q]? ∧
    ((step st (.namedIop t name f vals)).1.dataOf t.vid)[q]? = (st.dataOf t.vid)[q]? ∧
    (∀ sel bvals, ((step st (.setVarSel t name sel bvals vals)).1.dataOf t.vid)[q]? =
      (st.dataOf t.vid)[q]?) := by
  have hv := var_eq t name a b h
  have hq' : q < a ∨ a + (b - a) ≤ q := by omega
  have key : ∀ (f : BinOp) (raw : Bool) (src : Src K) (idx : Idx),
      ((arithStep st ⟨t.vid, a, b - a, [], t.solverRef⟩ f raw src idx).1.dataOf t.vid)[q]? =
        (st.dataOf t.vid)[q]? := by
    intro f raw src idx
    obtain ⟨d', e, _, hd⟩ := arithStep_spec st
      { vid := t.vid, off := a, len := b - a, views := [], solverRef := t.solverRef } f raw src idx
    rw [e]
    simp only at hd ⊢
    cases hvv : st.vecs[t.vid]? with
    | none =>
      have : st.setData t.vid d' = st := by unfold State.setData; rw [hvv]
      rw [this]
    | some v =>
      rw [dataOf_setData _ _ _ v hvv]
      exact hd q hq'
  refine ⟨?_, ?_, ?_⟩
  rotate_left 2
  · intro sel bvals
    simp only [step, hv]
    cases sel with
    | none => rfl
    | some ps =>
      cases bvals with
      | some bv => exact key _ _ _ _
      | none =>
        simp only
        split
        · exact key _ _ _ _
        · rfl
  · simp only [step, hv]
    obtain ⟨d', e, _, hd⟩ := arithStep_spec st
      { vid := t.vid, off := a, len := b - a, views := [], solverRef := t.solverRef } f raw
      (.vals vals) idx
    rw [e]
    simp only at hd ⊢
    cases hvv : st.vecs[t.vid]? with
    | none =>
      have : st.setData t.vid d' = st := by unfold State.setData; rw [hvv]
      rw [this]
    | some v =>
      rw [dataOf_setData _ _ _ v hvv]
      exact hd q hq'
  · simp only [step, hv]
    split
    · rename_i st1 e1
      split
      · rename_i cur hcur
        obtain ⟨d1, e, _, hd1⟩ := arithStep_spec st
          { vid := t.vid, off := a, len := b - a, views := [], solverRef := t.solverRef } f false
          (.vals vals) .full
        rw [e1] at e
        simp only at e hd1
        obtain ⟨d2, e2, _, hd2⟩ := arithStep_spec st1
          { vid := t.vid, off := a, len := b - a, views := [], solverRef := t.solverRef } .set true
          (.vals cur) .full
        rw [e2]
        simp only at hd2 ⊢
        cases hvv : st.vecs[t.vid]? with
        | none =>
          have h1 : st.setData t.vid d1 = st := by unfold State.setData; rw [hvv]
          rw [e, h1]
          have h2 : st.setData t.vid d2 = st := by unfold State.setData; rw [hvv]
          rw [h2]
        | some v =>
          rw [e, setData_setData, dataOf_setData _ _ _ v hvv]
          rw [e, dataOf_setData _ _ _ v hvv] at hd2
          rw [hd2 q hq', hd1 q hq']
      · rfl
    · rfl

/-- Distinct names are disjoint: after any write to variable `i`, reading any other variable `j`
of the same vector returns what it returned before. -/
theorem C33_named_other_unchanged (st : State K) (t : Handle) (vars : List Var)
    (hviews : t.views = mkViews vars) (hnd : (vars.map Var.name).Nodup) (i j : Nat)
    (hi : i < vars.length) (hj : j < vars.length) (hij : i ≠ j) (f : BinOp) (raw : Bool)
    (vals : List (Cx K)) (idx : Idx) :
    (step (step st (.named t vars[i].name f raw vals idx)).1 (.get t vars[j].name)).2 =
      (step st (.get t vars[j].name)).2 := by
  have hri := absRange_mkViews t vars hviews hnd i hi
  have hrj := absRange_mkViews t vars hviews hnd j hj
  have hvi := var_eq t _ _ _ hri
  obtain ⟨d', e, _, hd⟩ := arithStep_spec st
    { vid := t.vid, off := t.off + totalLen (vars.take i),
      len := t.off + totalLen (vars.take (i + 1)) - (t.off + totalLen (vars.take i)),
      views := [], solverRef := t.solverRef } f raw (.vals vals) idx
  apply get_congr st _ t _ _ _ d' hrj
  · simp only [step, hvi]
    exact e
  · intro q hq1 hq2
    apply hd
    simp only
    have ti := (C33_views_tile vars i hi).2.1
    have tj := (C33_views_tile vars j hj).2.1
    rcases Nat.lt_or_gt_of_ne hij with hlt | hgt
    · have := totalLen_take_mono vars (i + 1) j (by omega)
      right; omega
    · have := totalLen_take_mono vars (j + 1) i (by omega)
      left; omega

end NamedState

/-! ## scaling to solver units and back -/

section Scaling
variable {K : Type} [Field K]

/-- One cell: `_scale_reverse ∘ _scale_forward = id = _scale_forward ∘ _scale_reverse` for a
non-zero scaler, with or without adder, with or without complex step. -/
theorem C33_scale_cell_roundtrip (cs : Bool) (z : Cx K) (s : K) (a : Option K) (hs : s ≠ 0) :
    scaleRevCell cs (scaleFwdCell cs z (s, a)) (s, a) = z ∧
    scaleFwdCell cs (scaleRevCell cs z (s, a)) (s, a) = z :=
  ⟨scale_cell_rev_fwd cs z s a hs, scale_cell_fwd_rev cs z s a hs⟩

/-- Whole vectors, both orders (`toNorm` is arbitrary, so this is `scale_to_norm` then
`scale_to_phys` and `scale_to_phys` then `scale_to_norm`), both modes, root and sub-system vectors,
with and without `_has_solver_ref`: the second call restores the complete state, provided the
scalers it uses on the vector's slice are non-zero. -/
theorem C33_scale_roundtrip (st : State K) (t : Handle) (toNorm rev : Bool) (v : RootVec K)
    (sa : List (K × Option K)) (hv : st.vecs[t.vid]? = some v)
    (hsa : scalePairs v t (scalePlan toNorm rev t.solverRef).2 = some sa)
    (hlen : t.len ≤ sa.length) (hfit : t.off + t.len ≤ v.data.length)
    (hnz : ∀ x ∈ sa, x.1 ≠ 0) :
    (step (step st (.scale t toNorm rev)).1 (.scale t (!toNorm) rev)).1 = st := by
  obtain ⟨hf2, hf1⟩ := scalePlan_flip toNorm rev t.solverRef
  have hcs : ∀ d, (st.setData t.vid d).underCS { v with data := d } = st.underCS v := by
    intro d; simp [State.underCS, setData_cs]
  simp only [step, hv, hsa]
  rw [setData_get _ _ _ v hv]
  simp only [hf2, hf1, scalePairs_data, hsa, hcs, setData_setData]
  have hin : ∀ p ∈ List.range t.len, t.off + p < v.data.length := by
    intro p hp
    have : p < t.len := by simpa using hp
    omega
  have hlen' : (List.range t.len).length ≤ sa.length := by simpa using hlen
  cases hp : (scalePlan toNorm rev t.solverRef).1
  · simp only [Bool.false_eq_true, if_false, Bool.not_false, if_true]
    rw [updAt_inverse v.data t.off (List.range t.len) sa _ _ List.nodup_range hlen' hin
      (fun x s hs => by
        have := scale_cell_fwd_rev (st.underCS v) x s.1 s.2 (hnz s hs)
        simpa using this)]
    exact setData_self st t.vid v hv
  · simp only [Bool.not_true, Bool.false_eq_true, if_false, if_true]
    rw [updAt_inverse v.data t.off (List.range t.len) sa _ _ List.nodup_range hlen' hin
      (fun x s hs => by
        have := scale_cell_rev_fwd (st.underCS v) x s.1 s.2 (hnz s hs)
        simpa using this)]
    exact setData_self st t.vid v hv

/-- The hypothesis is needed: with a zero scaler (`ref == ref0`) the value is not recovered. -/
theorem C33_scale_roundtrip_needs_nonzero :
    scaleRevCell false (scaleFwdCell false (⟨1, 0⟩ : Cx Rat) (0, none)) (0, none) ≠ ⟨1, 0⟩ := by
  decide +kernel

/-- What `_set_scaling` puts into the nonlinear input arrays: if an input holds its source's value
converted to the input's units, `(x + offset) * factor`, then scaling the input to solver units
gives the same number as scaling the source output with its own `(ref0, ref - ref0)`. -/
theorem C33_input_scaling_consistent (a0 a1 fac off x : K) (h1 : a1 ≠ 0) (hf : fac ≠ 0) :
    ((x + off) * fac - (scale0 false true (some (fac, off)) a0).getD 0) /
        scale1 false true (some (fac, off)) a1 = (x - a0) / a1 ∧
    (x - (scale0 false true none a0).getD 0) / scale1 false true none a1 = (x - a0) / a1 := by
  constructor
  · simp only [scale0, scale1, Bool.false_eq_true, if_false, Option.getD_some]
    field_simp
    ring
  · simp [scale0, scale1]

/-- Linear input vectors. Forward (`_has_solver_ref`: divide by the *nonlinear* input scaler): a
converted derivative `factor * dx` scales to the source's scaled derivative `dx / a1`. Reverse
(multiply by the linear scaler `factor / a1`, or `1 / a1`): the result is the adjoint of the unit
conversion, `factor * lam`, in the source's scaled units. -/
theorem C33_linear_input_scaling (a1 fac off dx lam : K) (h1 : a1 ≠ 0) (hf : fac ≠ 0) :
    (fac * dx) / scale1 false true (some (fac, off)) a1 = dx / scale1 true false none a1 ∧
    lam * scale1 true true (some (fac, off)) a1 = (fac * lam) / scale1 true false none a1 ∧
    lam * scale1 true true none a1 = lam / scale1 true false none a1 := by
  refine ⟨?_, ?_, ?_⟩
  · simp only [scale1, Bool.false_eq_true, if_false, Bool.and_false, Bool.true_and]
    field_simp
  · simp only [scale1, if_true, Bool.and_false, Bool.false_eq_true, if_false]
    field_simp
  · simp only [scale1, Bool.and_self, if_true, Bool.and_false, Bool.false_eq_true, if_false]
    field_simp

/-- Without a solver ref the linear root vector writes its scalers into the nonlinear vector's
array (`_allocate_scaling_data` re-uses it). That is harmless because it only happens when no
output has `ref`/`ref0`, i.e. `a1 = 1`, where both flavours write the same number. -/
theorem C33_shared_scaler_unchanged (isinput : Bool) (unit : Option (K × K)) :
    scale1 true isinput unit (1 : K) = scale1 false isinput unit 1 := by
  cases unit with
  | none => cases isinput <;> simp [scale1]
  | some u => obtain ⟨fac, off⟩ := u; simp [scale1]

/-- ... and it would not be with output scaling, which is why `_has_solver_ref` allocates a
separate array. -/
theorem C33_shared_scaler_needs_unit_a1 :
    scale1 true true none (2 : Rat) ≠ scale1 false true none 2 := by decide +kernel

end Scaling

/-! ## dot and norm -/

section Dot
variable {K : Type} [Field K]

theorem C33_dot_comm (a b : List (Cx K)) : dotList a b = dotList b a := by
  unfold dotList
  rw [List.zipWith_comm]
  congr 1
  apply zipWith_congr_mem
  intro x _ y
  exact Cx.mul_comm' y x

/-- `add_scal_vec` and `dot` fit together: `(x + c·y) · z = x·z + c (y·z)`. -/
theorem C33_dot_add_scal_vec (c : Cx K) (xs ys zs : List (Cx K)) (h : xs.length = ys.length) :
    dotList (List.zipWith (fun x y => x.add (c.mul y)) xs ys) zs =
      (dotList xs zs).add (c.mul (dotList ys zs)) := by
  induction xs generalizing ys zs with
  | nil =>
    cases ys with
    | nil => apply Cx.ext' <;> simp [dotList, Cx.add, Cx.mul]
    | cons y ys => simp at h
  | cons x xs ih =>
    cases ys with
    | nil => simp at h
    | cons y ys =>
      cases zs with
      | nil => apply Cx.ext' <;> simp [dotList, Cx.add, Cx.mul]
      | cons z zs =>
        have hh := ih ys zs (by simpa using h)
        simp only [dotList, List.zipWith_cons_cons, List.foldr_cons] at hh ⊢
        rw [hh]
        apply Cx.ext' <;> simp [Cx.add, Cx.mul] <;> ring

/-- Outside complex step (`asarray()` shows zero imaginary parts) `get_norm()² = dot(self)`. -/
theorem C33_norm2_eq_dot_self (a : List (Cx K)) (h : ∀ z ∈ a, z.im = 0) :
    dotList a a = ⟨norm2List a, 0⟩ := by
  induction a with
  | nil => simp [dotList, norm2List]
  | cons z zs ih =>
    have hz : z.im = 0 := h z (by simp)
    have hh := ih (fun w hw => h w (by simp [hw]))
    simp only [dotList, norm2List, List.zipWith_cons_cons, List.foldr_cons, List.map_cons] at hh ⊢
    rw [hh]
    apply Cx.ext' <;> simp [Cx.add, Cx.mul, hz]

end Dot

/-! ## non-vacuity: one concrete vector meets the hypotheses and shows non-trivial behaviour

Root vector `0` with variables `a` (shape (2,)), `b` (scalar), `c` (shape (2,)), complex storage,
scalers `[2,2,4,4,8]`, adders `[1,1,0,0,0]`; the sub-system owns `b`, `c`. -/

example :
    let vars : List Var := [⟨"a", [2]⟩, ⟨"b", []⟩, ⟨"c", [2]⟩]
    let root := rootHandle 0 vars false
    let st : State Rat := { cs := false, vecs := [{
      data := [⟨1, 0⟩, ⟨2, 0⟩, ⟨3, 0⟩, ⟨4, 7⟩, ⟨5, 0⟩], allocComplex := true,
      scaling := some ([2, 2, 4, 4, 8], some [1, 1, 0, 0, 0]), nlScaler := [2, 2, 4, 4, 8] }] }
    -- layout hypotheses of C33_subvec_root_agree with pre = [a], sub = [b, c], post = []
    root.views = mkViews ([⟨"a", [2]⟩] ++ [⟨"b", []⟩, ⟨"c", [2]⟩] ++ []) ∧
    ((vars.map Var.name).Nodup) ∧
    (subHandle root [⟨"b", []⟩, ⟨"c", [2]⟩] true).map (fun h => (h.vid, h.off, h.len)) =
      some (0, 2, 3) ∧
    -- `sub['c'] += [10, 20]` without complex step: real parts of root cells 3, 4 only
    ((subHandle root [⟨"b", []⟩, ⟨"c", [2]⟩] true).map fun h =>
      (step st (.named h "c" .add false [⟨10, 0⟩, ⟨20, 0⟩] .full)).1.dataOf 0) =
      some [⟨1, 0⟩, ⟨2, 0⟩, ⟨3, 0⟩, ⟨14, 7⟩, ⟨25, 0⟩] ∧
    -- `set_var` (raw) resets the imaginary part; repeated index: the last value wins
    (step st (.named root "c" .set true [⟨8, 0⟩, ⟨9, 0⟩] (.list [1, 1]))).1.dataOf 0 =
      [⟨1, 0⟩, ⟨2, 0⟩, ⟨3, 0⟩, ⟨4, 7⟩, ⟨9, 0⟩] ∧
    -- scale_to_norm is not the identity here, and scale_to_phys brings the data back
    (step st (.scale root true false)).1.dataOf 0 =
      [⟨0, 0⟩, ⟨1/2, 0⟩, ⟨3/4, 0⟩, ⟨1, 7⟩, ⟨5/8, 0⟩] ∧
    (step (step st (.scale root true false)).1 (.scale root false false)).1.dataOf 0 =
      st.dataOf 0 ∧
    -- hypotheses of C33_scale_roundtrip
    (scalePairs (st.vecs[0]'(by decide)) root (scalePlan true false root.solverRef).2).map
      (fun sa => decide (root.len ≤ sa.length) && sa.all (fun x => decide (x.1 ≠ 0))) = some true := by
  decide +kernel

end OMV.C33
