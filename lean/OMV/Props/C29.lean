/-
C29 — Wrapped input files parse back to the values written.
Property theorems only (plus non-vacuity examples).  Helper lemmas: `OMV/Proofs/C29.lean`.

Reading guide.  `St` is the position of a generator or parser in a file (`_data`, `_current_row`,
`_anchored`), `Env` holds the generator's separator predicate and the formatter.  A value `v` is
written as the text `t` with `E.fmt v = .ok t`; the contract on the Python runtime is
`TokOK E.sepG t` (the text is non-empty and contains no delimiter character) together with
"pyparsing converts `t` back to `v`" (checked per case by the harness, `parse (fmt v) = v`).
The theorems below show that the parser is handed exactly `t` from the location that was written
and exactly the old field texts from every other location.
-/
import OMV.Proofs.C29

deriving instance DecidableEq for Except

set_option linter.unusedSectionVars false
set_option linter.unusedVariables false

namespace OMV.C29

/-! ## Tokenisation: the regular expression and `re.sub` lose nothing -/

/-- Cutting a line into fields and separator runs and gluing them back is the identity
(what `re.sub` with the identity callback returns). -/
theorem C29_join_segs (p : Char → Bool) (line : Text) : join (segs p line) = line :=
  join_segs p line

/-- The run list of a line is canonical: any alternating list of non-empty separator-free fields
and separator runs is the tokenisation of the text it spells. -/
theorem C29_segs_join (p : Char → Bool) (L : List Seg) (h : WF p L) : segs p (join L) = L :=
  segs_join p L h

example : WF (isSep " ".toList) (segs (isSep " ".toList) "  a 12  b\n".toList) := segs_wf _ _

/-! ## `_SubHelper`: which match is replaced by which value -/

/-- `replace`: on a whole line exactly field number `loc` (1-based) is replaced; nothing is
replaced when `loc < 1` or beyond the last field. -/
theorem C29_replace_var_spec (fmt : Val → Except Err Text) (v : Val) (t : Text) (loc : Int)
    (ts : List Text) (hf : fmt v = .ok t) :
    allOk (replaceVar fmt v loc 0 ts) =
      .ok (if 1 ≤ loc then ts.set (loc - 1).toNat t else ts) :=
  replaceVar_ok fmt v t loc ts hf

/-- `replace_array`, started with `_counter = k`: fields `st..en` receive the values number
`k, k+1, …` in order while values remain, every other field is kept, and `_counter` ends at
`k +` the number of fields of the range that exist (capped by the number of values). -/
theorem C29_replace_array_spec (fmt : Val → Except Err Text) (vals : List Val) (texts : List Text)
    (st en : Int) (k : Nat) (ts : List Text) (hf : vals.map fmt = texts.map .ok) :
    allOk (replaceArr fmt vals st en 0 k ts).1 =
        .ok (overlayAt ts (texts.drop k) (st - 1).toNat en.toNat) ∧
      (replaceArr fmt vals st en 0 k ts).2 =
        min (max k vals.length) (k + (min en.toNat ts.length - (st - 1).toNat)) := by
  refine ⟨replaceArr_ok fmt vals texts st en k ts hf, ?_⟩
  rw [replaceArr_snd]; simp

/-- The overlay, spelled out when the values fit: a contiguous block of fields is replaced. -/
theorem C29_overlay_fit (ts texts : List Text) (a b : Nat) (h1 : a + texts.length ≤ b)
    (h2 : a + texts.length ≤ ts.length) :
    overlayAt ts texts a b = ts.take a ++ texts ++ ts.drop (a + texts.length) :=
  overlayAt_fit ts texts a b h1 h2

/-! ## `transfer_var` → `FileParser.transfer_var` -/

/-- Round trip of one value: after `transfer_var(v, row, field)` the parser's
`transfer_var(row, field)` (same anchor position, same delimiters) is handed exactly the text
written for `v`. -/
theorem C29_var_roundtrip (s : St) (E : Env) (v : Val) (t line : Text) (row field : Int)
    (hline : pyGet s.data (s.cur + row) = .ok line)
    (hfmt : E.fmt v = .ok t) (htok : TokOK E.sepG t)
    (hfield : 1 ≤ field ∧ field ≤ (fields E.sepG line).length) :
    ∃ s', s.transferVar E v row field = .ok s' ∧ s'.cur = s.cur ∧ s'.anchored = s.anchored ∧
      s'.readVar E.sepG row field = .ok t := by
  obtain ⟨line', h1, h2, _⟩ := line_subVar E v t field line hfmt htok
  obtain ⟨k, hk, _⟩ := (pyGet_ok_iff _ _ _).mp hline
  refine ⟨{ s with data := pySet s.data (s.cur + row) line' }, ?_, rfl, rfl, ?_⟩
  · simp [St.transferVar, hline, h1]
  · simp only [St.readVar]
    rw [pyGet_pySet_same _ _ _ k hk]
    simp only [hfield.1, if_true] at h2
    have hne : fields E.sepG line' ≠ [] := by
      intro e; rw [e] at h2
      have := congrArg List.length h2
      simp at this; omega
    simp only [parseLine_ok _ _ hne, h2]
    unfold pyGet
    rw [List.length_set, pyIdx_field hfield.1 hfield.2]
    have hlt : (field - 1).toNat < (fields E.sepG line).length := by omega
    simp only [List.getElem?_set_self hlt]

/-- Frame: every other cell — another line, or another field of the same line — is read back
exactly as before the write; the number of lines does not change. -/
theorem C29_var_frame (s s' : St) (E : Env) (v : Val) (t line : Text) (row field row' field' : Int)
    (hline : pyGet s.data (s.cur + row) = .ok line)
    (hfmt : E.fmt v = .ok t) (htok : TokOK E.sepG t)
    (hw : s.transferVar E v row field = .ok s')
    (hother : pyIdx s.data.length (s.cur + row') ≠ pyIdx s.data.length (s.cur + row) ∨
      pyIdx (fields E.sepG line).length (field' - 1) ≠ some (field - 1).toNat) :
    s'.data.length = s.data.length ∧
      s'.readVar E.sepG row' field' = s.readVar E.sepG row' field' := by
  obtain ⟨line', h1, h2, _⟩ := line_subVar E v t field line hfmt htok
  obtain ⟨k, hk, _⟩ := (pyGet_ok_iff _ _ _).mp hline
  have hs' : s' = { s with data := pySet s.data (s.cur + row) line' } := by
    simp [St.transferVar, hline, h1] at hw; exact hw.symm
  subst hs'
  refine ⟨pySet_length _ _ _, ?_⟩
  by_cases hrow : pyIdx s.data.length (s.cur + row') = pyIdx s.data.length (s.cur + row)
  · -- same line, other field
    have hf' := hother.resolve_left (fun h => h hrow)
    have hg : pyGet s.data (s.cur + row') = .ok line := by
      unfold pyGet at hline ⊢; rw [hrow]; exact hline
    have hg' : pyGet (pySet s.data (s.cur + row) line') (s.cur + row') = .ok line' := by
      have := pyGet_pySet_same s.data (s.cur + row) line' k hk
      unfold pyGet at this ⊢; rw [pySet_length] at this ⊢; rw [hrow]; exact this
    simp only [St.readVar, hg, hg']
    by_cases hfield : 1 ≤ field
    · simp only [hfield, if_true] at h2
      cases hfl : fields E.sepG line with
      | nil =>
        have : fields E.sepG line' = [] := by rw [h2, hfl]; rfl
        simp [parseLine, this, hfl]
      | cons a r =>
        have hne : fields E.sepG line ≠ [] := by rw [hfl]; simp
        have hne' : fields E.sepG line' ≠ [] := by
          intro e; rw [e] at h2
          have := congrArg List.length h2
          simp [hfl] at this
        rw [parseLine_ok _ _ hne, parseLine_ok _ _ hne', h2]
        exact pyGet_set_other _ _ _ _ hf'
    · simp only [hfield, if_false] at h2
      simp [parseLine, h2]
  · exact readVar_congr s _ _ _ _ rfl (pyGet_pySet_other _ _ _ _ (fun e => hrow e.symm))

/-- Layout: on every line of the file the separator runs are unchanged and the number of fields is
unchanged. -/
theorem C29_var_layout (s s' : St) (E : Env) (v : Val) (t : Text) (row field : Int)
    (hfmt : E.fmt v = .ok t) (htok : TokOK E.sepG t)
    (hw : s.transferVar E v row field = .ok s') :
    s'.data.map (fun l => seps (segs E.sepG l)) = s.data.map (fun l => seps (segs E.sepG l)) ∧
    s'.data.map (fun l => (fields E.sepG l).length) =
      s.data.map (fun l => (fields E.sepG l).length) := by
  cases hline : pyGet s.data (s.cur + row) with
  | error e => simp [St.transferVar, hline] at hw
  | ok line =>
    obtain ⟨line', h1, h2, h3⟩ := line_subVar E v t field line hfmt htok
    have hs' : s' = { s with data := pySet s.data (s.cur + row) line' } := by
      simp [St.transferVar, hline, h1] at hw; exact hw.symm
    subst hs'
    refine ⟨map_pySet _ _ _ _ _ hline h3, map_pySet _ _ _ _ _ hline ?_⟩
    rw [h2]; split <;> simp


/-! ## `transfer_array` (one row) → `FileParser.transfer_array` -/

/-- Round trip of an array that fits into fields `fs..fe` of a row: the parser's
`transfer_array(row, fs, None, fe)` is handed the texts written for the values, followed by the
old texts of the fields of the range that were not needed. In particular (`C29_array_roundtrip_exact`)
an array that fills the range exactly is read back as exactly the texts written. -/
theorem C29_array_roundtrip (s : St) (E : Env) (vals : List Val) (texts : List Text) (line : Text)
    (rowStart fs fe : Int) (sep : Text)
    (hrow : 0 ≤ (s.cur : Int) + rowStart)
    (hline : pyGet s.data (s.cur + rowStart) = .ok line)
    (hfmt : vals.map E.fmt = texts.map .ok) (htok : ∀ t ∈ texts, TokOK E.sepG t)
    (hfs : 1 ≤ fs) (hfe1 : 1 ≤ fe) (hfit : fs - 1 + texts.length ≤ fe)
    (hfe : fe ≤ (fields E.sepG line).length) :
    ∃ s', s.transferArray E vals rowStart fs fe none sep = .ok s' ∧ s'.cur = s.cur ∧
      s'.anchored = s.anchored ∧
      s'.readArray E.sepG rowStart fs none fe =
        .ok (texts ++ ((fields E.sepG line).drop ((fs - 1).toNat + texts.length)).take
          (fe.toNat - ((fs - 1).toNat + texts.length))) := by
  obtain ⟨line', h1, h2, _⟩ :=
    transferArray_single s E vals texts line rowStart fs fe sep hline hfmt htok hfs hfit hfe
  obtain ⟨k, hk, _⟩ := (pyGet_ok_iff _ _ _).mp hline
  refine ⟨_, h1, rfl, rfl, ?_⟩
  have hg := pyGet_pySet_same s.data (s.cur + rowStart) line' k hk
  have hne : fields E.sepG line' ≠ [] := by
    intro e
    have := congrArg List.length h2
    rw [e] at this
    simp at this; omega
  have hfe0 : ¬ fe = 0 := by omega
  simp only [St.readArray, hfe0, if_false, pySlice_single _ _ _ hrow hg, readArrGo,
    parseLine_ok _ _ hne]
  have e1 : (0 : Int) = (s.cur : Int) + rowStart + 1 - ((s.cur : Int) + rowStart) - 1 := by omega
  simp only [← e1, if_true, List.append_nil]
  congr 1
  rw [h2]
  unfold pySlice clampIdx
  have n1 : ¬ fs - 1 < 0 := by omega
  have n2 : ¬ fe < 0 := by omega
  simp only [n1, n2, if_false]
  have hla : ((fields E.sepG line).take (fs - 1).toNat).length = (fs - 1).toNat := by
    rw [List.length_take]; omega
  have hlen : ((fields E.sepG line).take (fs - 1).toNat ++ texts ++
      (fields E.sepG line).drop ((fs - 1).toNat + texts.length)).length =
      (fields E.sepG line).length := by
    simp only [List.length_append, List.length_take, List.length_drop]; omega
  rw [hlen]
  have m1 : min (fs - 1).toNat (fields E.sepG line).length = (fs - 1).toNat := by omega
  have m2 : min fe.toNat (fields E.sepG line).length = fe.toNat := by omega
  rw [m1, m2, List.append_assoc, List.drop_left' hla]
  have : fe.toNat - (fs - 1).toNat = texts.length + (fe.toNat - ((fs - 1).toNat + texts.length)) := by
    omega
  rw [this, List.take_length_add_append]

/-- An array that fills the range `fs..fe` exactly is read back as exactly the texts written. -/
theorem C29_array_roundtrip_exact (s : St) (E : Env) (vals : List Val) (texts : List Text)
    (line : Text) (rowStart fs fe : Int) (sep : Text)
    (hrow : 0 ≤ (s.cur : Int) + rowStart)
    (hline : pyGet s.data (s.cur + rowStart) = .ok line)
    (hfmt : vals.map E.fmt = texts.map .ok) (htok : ∀ t ∈ texts, TokOK E.sepG t)
    (hfs : 1 ≤ fs) (hne : texts ≠ []) (hfit : fs - 1 + texts.length = fe)
    (hfe : fe ≤ (fields E.sepG line).length) :
    ∃ s', s.transferArray E vals rowStart fs fe none sep = .ok s' ∧
      s'.readArray E.sepG rowStart fs none fe = .ok texts := by
  have hl : 0 < texts.length := List.length_pos_iff.mpr hne
  obtain ⟨s', h1, _, _, h2⟩ := C29_array_roundtrip s E vals texts line rowStart fs fe sep hrow hline
    hfmt htok hfs (by omega) (by omega) hfe
  refine ⟨s', h1, ?_⟩
  rw [h2]
  have : fe.toNat - ((fs - 1).toNat + texts.length) = 0 := by omega
  rw [this, List.take_zero, List.append_nil]

/-- Frame for arrays: a cell on another line, or a field of the same line outside the block that
received values, is read back exactly as before; the number of lines is unchanged. -/
theorem C29_array_frame (s s' : St) (E : Env) (vals : List Val) (texts : List Text) (line : Text)
    (rowStart fs fe row' field' : Int) (sep : Text)
    (hline : pyGet s.data (s.cur + rowStart) = .ok line)
    (hfmt : vals.map E.fmt = texts.map .ok) (htok : ∀ t ∈ texts, TokOK E.sepG t)
    (hfs : 1 ≤ fs) (hfit : fs - 1 + texts.length ≤ fe) (hfe : fe ≤ (fields E.sepG line).length)
    (hw : s.transferArray E vals rowStart fs fe none sep = .ok s')
    (hother : pyIdx s.data.length (s.cur + row') ≠ pyIdx s.data.length (s.cur + rowStart) ∨
      ∀ m, pyIdx (fields E.sepG line).length (field' - 1) = some m →
        m < (fs - 1).toNat ∨ (fs - 1).toNat + texts.length ≤ m) :
    s'.data.length = s.data.length ∧
      s'.readVar E.sepG row' field' = s.readVar E.sepG row' field' := by
  obtain ⟨line', h1, h2, _⟩ :=
    transferArray_single s E vals texts line rowStart fs fe sep hline hfmt htok hfs hfit hfe
  obtain ⟨k, hk, _⟩ := (pyGet_ok_iff _ _ _).mp hline
  have hs' : s' = { s with data := pySet s.data (s.cur + rowStart) line' } := by
    rw [h1] at hw; exact (Except.ok.inj hw).symm
  subst hs'
  refine ⟨pySet_length _ _ _, ?_⟩
  by_cases hrow : pyIdx s.data.length (s.cur + row') = pyIdx s.data.length (s.cur + rowStart)
  · have hf' := hother.resolve_left (fun h => h hrow)
    have hg : pyGet s.data (s.cur + row') = .ok line := by
      unfold pyGet at hline ⊢; rw [hrow]; exact hline
    have hg' : pyGet (pySet s.data (s.cur + rowStart) line') (s.cur + row') = .ok line' := by
      have := pyGet_pySet_same s.data (s.cur + rowStart) line' k hk
      unfold pyGet at this ⊢; rw [pySet_length] at this ⊢; rw [hrow]; exact this
    have hlen : (fields E.sepG line').length = (fields E.sepG line).length := by
      rw [h2]; simp only [List.length_append, List.length_take, List.length_drop]; omega
    simp only [St.readVar, hg, hg']
    cases hfl : fields E.sepG line with
    | nil =>
      have : fields E.sepG line' = [] := by
        apply List.eq_nil_of_length_eq_zero; rw [hlen, hfl]; rfl
      simp [parseLine, this, hfl]
    | cons a r =>
      have hne : fields E.sepG line ≠ [] := by rw [hfl]; simp
      have hne' : fields E.sepG line' ≠ [] := by
        intro e; rw [e, hfl] at hlen; simp at hlen
      rw [parseLine_ok _ _ hne, parseLine_ok _ _ hne']
      show pyGet _ _ = pyGet _ _
      unfold pyGet
      rw [hlen]
      cases hm : pyIdx (fields E.sepG line).length (field' - 1) with
      | none => rfl
      | some m =>
        have hmlt := pyIdx_lt hm
        simp only [h2]
        have := hf' m hm
        congr 1
        simp only [List.getElem?_append, List.length_append, List.length_take, List.getElem?_take,
          List.getElem?_drop]
        have m1 : min (fs - 1).toNat (fields E.sepG line).length = (fs - 1).toNat := by omega
        rw [m1]
        rcases this with h | h
        · have : m < (fs - 1).toNat + texts.length := by omega
          simp only [h, this, if_true]
        · have n1 : ¬ m < (fs - 1).toNat + texts.length := by omega
          have n2 : ¬ m < (fs - 1).toNat := by omega
          simp only [n1, n2, if_false]
          congr 1; omega
  · exact readVar_congr s _ _ _ _ rfl (pyGet_pySet_other _ _ _ _ (fun e => hrow e.symm))

/-- Layout for arrays: separator runs and the number of fields of every line are unchanged. -/
theorem C29_array_layout (s s' : St) (E : Env) (vals : List Val) (texts : List Text) (line : Text)
    (rowStart fs fe : Int) (sep : Text)
    (hline : pyGet s.data (s.cur + rowStart) = .ok line)
    (hfmt : vals.map E.fmt = texts.map .ok) (htok : ∀ t ∈ texts, TokOK E.sepG t)
    (hfs : 1 ≤ fs) (hfit : fs - 1 + texts.length ≤ fe) (hfe : fe ≤ (fields E.sepG line).length)
    (hw : s.transferArray E vals rowStart fs fe none sep = .ok s') :
    s'.data.map (fun l => seps (segs E.sepG l)) = s.data.map (fun l => seps (segs E.sepG l)) ∧
    s'.data.map (fun l => (fields E.sepG l).length) =
      s.data.map (fun l => (fields E.sepG l).length) := by
  obtain ⟨line', h1, h2, h3⟩ :=
    transferArray_single s E vals texts line rowStart fs fe sep hline hfmt htok hfs hfit hfe
  have hs' : s' = { s with data := pySet s.data (s.cur + rowStart) line' } := by
    rw [h1] at hw; exact (Except.ok.inj hw).symm
  subst hs'
  refine ⟨map_pySet _ _ _ _ _ hline h3, map_pySet _ _ _ _ _ hline ?_⟩
  rw [h2]; simp only [List.length_append, List.length_take, List.length_drop]; omega




/-! ## `transfer_array` over several rows → `FileParser.transfer_array` -/

/-- Round trip and frame for an array written over rows `rs .. rs+n-1` (first row from field `fs`,
last row up to field `fe`, every field of the rows between), when the template range has room for
all values: the parser's `transfer_array(rs, fs, rs+n-1, fe)` is handed the range fields in reading
order with the texts written laid over them from the start (`overlay`); lines outside the rows, all
separator runs and the number of fields of every line are unchanged. -/
theorem C29_array_rows_roundtrip (s : St) (E : Env) (vals : List Val) (texts : List Text)
    (rs fs fe : Int) (n b : Nat) (sep : Text)
    (hf : vals.map E.fmt = texts.map .ok) (htok : ∀ t ∈ texts, TokOK E.sepG t)
    (hn : 1 ≤ n) (hb : (s.cur : Int) + rs = b) (hlen : b + n ≤ s.data.length)
    (hfs : 1 ≤ fs) (hfe : 1 ≤ fe)
    (hlines : ∀ l ∈ (s.data.drop b).take n,
      fields E.sepG l ≠ [] ∧ (fields E.sepG l).length ≤ 99999)
    (hfit : texts.length ≤ (cellsFlat fe (rs + n - 1)
      ((List.range n).map (fun (k : Nat) => rs + (k : Int))) fs
      (((s.data.drop b).take n).map (fields E.sepG))).length) :
    ∃ s', s.transferArray E vals rs fs fe (some (rs + n - 1)) sep = .ok s' ∧ s'.cur = s.cur ∧
      s'.data.length = s.data.length ∧ s'.data.take b = s.data.take b ∧
      s'.data.drop (b + n) = s.data.drop (b + n) ∧
      s'.data.map (fun l => seps (segs E.sepG l)) = s.data.map (fun l => seps (segs E.sepG l)) ∧
      s'.data.map (fun l => (fields E.sepG l).length) =
        s.data.map (fun l => (fields E.sepG l).length) ∧
      s'.readArray E.sepG rs fs (some (rs + n - 1)) fe =
        .ok (overlay texts (cellsFlat fe (rs + n - 1)
          ((List.range n).map (fun (k : Nat) => rs + (k : Int))) fs
          (((s.data.drop b).take n).map (fields E.sepG)))) := by
  have hlenv : vals.length = texts.length := by
    have := congrArg List.length hf; simpa using this
  obtain ⟨data', last', h1, h2, h3, h4, h5, h6⟩ :=
    arrLoop_spec E vals texts hf htok s.cur fe (rs + n - 1) n b rs fs s.data 0 none hb hlen
      (Nat.zero_le _)
  have hrl : ((List.range n).map (fun (k : Nat) => rs + (k : Int))).length =
      (((s.data.drop b).take n).map (fields E.sepG)).length := by
    simp only [List.length_map, List.length_range, List.length_take, List.length_drop]; omega
  have hcnt := countAfter_eq texts fe (rs + n - 1) _ fs 0 _ hrl (Nat.zero_le _)
  -- whole-file reassembly
  have hsplit : ∀ (d : List Text), d = d.take b ++ ((d.drop b).take n ++ d.drop (b + n)) := by
    intro d
    rw [← List.drop_drop, List.take_append_drop, List.take_append_drop]
  have hmap : ∀ {β : Type} (g : Text → β),
      ((data'.drop b).take n).map g = ((s.data.drop b).take n).map g → data'.map g = s.data.map g := by
    intro β g hg
    rw [hsplit data', hsplit s.data, h5, h6]
    simp only [List.map_append, hg]
  have hlens : ((data'.drop b).take n).map (fun l => (fields E.sepG l).length) =
      ((s.data.drop b).take n).map (fun l => (fields E.sepG l).length) := by
    have := overlayLines_lengths texts fe (rs + n - 1) _ fs 0 _ hrl
    rw [← h3] at this
    simp only [List.map_map] at this
    exact this
  refine ⟨{ s with data := data' }, ?_, rfl, h2, h5, h6, hmap _ h4, hmap _ hlens, ?_⟩
  · simp only [St.transferArray, Option.getD_some, rowRange_eq, h1, hcnt]
    have : ¬ (min texts.length (0 + (cellsFlat fe (rs + ↑n - 1)
        (List.map (fun (k : Nat) => rs + (k : Int)) (List.range n)) fs
        (List.map (fields E.sepG) (List.take n (List.drop b s.data)))).length) < vals.length) := by
      omega
    simp only [this, if_false]
  · -- the read
    have c1 : ¬ fe = 0 := by omega
    have hslice : pySlice data' ((s.cur : Int) + rs) (some ((s.cur : Int) + (rs + n - 1) + 1))
        = (data'.drop b).take n := by
      unfold pySlice clampIdx
      have n1 : ¬ (s.cur : Int) + rs < 0 := by omega
      have n2 : ¬ (s.cur : Int) + (rs + n - 1) + 1 < 0 := by omega
      simp only [n1, n2, if_false]
      have e1 : min ((s.cur : Int) + rs).toNat data'.length = b := by omega
      have e2 : min ((s.cur : Int) + (rs + n - 1) + 1).toNat data'.length - b = n := by omega
      rw [e1, e2]
    have hll : ((data'.drop b).take n).length = n := by
      simp only [List.length_take, List.length_drop]; omega
    have hnew : ∀ l ∈ (data'.drop b).take n,
        fields E.sepG l ≠ [] ∧ (fields E.sepG l).length ≤ 99999 := by
      intro l hl
      obtain ⟨i, hi, rfl⟩ := List.getElem_of_mem hl
      have hi' : i < ((s.data.drop b).take n).length := by
        simp only [List.length_take, List.length_drop] at hi ⊢; omega
      have hx : (fields E.sepG ((data'.drop b).take n)[i]).length =
          (fields E.sepG ((s.data.drop b).take n)[i]).length := by
        have := congrArg (fun L => L[i]?) hlens
        simp only [List.getElem?_map, List.getElem?_eq_getElem hi, List.getElem?_eq_getElem hi',
          Option.map_some] at this
        exact Option.some.inj this
      obtain ⟨g1, g2⟩ := hlines _ (List.getElem_mem hi')
      refine ⟨?_, by omega⟩
      intro e; rw [e] at hx
      exact g1 (List.eq_nil_of_length_eq_zero hx.symm)
    have hread := readArrGo_cells E.sepG fe (rs + n - 1) (by omega) ((data'.drop b).take n) n 0 rs fs fs
      (by omega) (by rw [hll]) hfs rfl hnew
    simp only [St.readArray, c1, if_false, hslice]
    have e : (s.cur : Int) + (rs + n - 1) + 1 - ((s.cur : Int) + rs) = (n : Int) := by omega
    rw [e]
    have hr := hread
    simp only [Int.natCast_zero] at hr ⊢
    rw [hll] at hr
    rw [hr, h3, cellsFlat_overlayLines _ _ _ _ _ _ _ hrl, List.drop_zero]

/-- … in particular an array that fills the range exactly is read back as exactly the texts
written. -/
theorem C29_overlay_exact (texts cells : List Text) (h : texts.length = cells.length) :
    overlay texts cells = texts := by
  simp only [overlay, ← h, List.take_length, List.drop_eq_nil_of_le (Nat.le_of_eq h.symm), List.append_nil]


/-! ## `transfer_2Darray` → `FileParser.transfer_2Darray` -/

/-- Write side and frame: row `i` of the array replaces the block of fields starting at `fs` on
line `b + i` (`b` = anchor row + `row_start`), with the separators of that line unchanged; every
line outside `b .. b + rows - 1` is untouched and the number of lines is unchanged. -/
theorem C29_2d_write (s : St) (E : Env) (vals : List (List Val)) (texts : List (List Text))
    (rs fs fe : Int) (b : Nat) (hfs : 1 ≤ fs) (hrows : RowsOK E fs fe vals texts)
    (hb : (s.cur : Int) + rs = b) (hlen : b + vals.length ≤ s.data.length)
    (hfe : ∀ i l, i < vals.length → s.data[b + i]? = some l → fe ≤ (fields E.sepG l).length) :
    ∃ s', s.transfer2D E vals rs (rs + vals.length - 1) fs fe = .ok s' ∧ s'.cur = s.cur ∧
      s'.anchored = s.anchored ∧ s'.data.length = s.data.length ∧
      (∀ i l tr, s.data[b + i]? = some l → texts[i]? = some tr →
        ∃ l', s'.data[b + i]? = some l' ∧
          fields E.sepG l' = spliceAt (fields E.sepG l) (fs - 1).toNat tr ∧
          seps (segs E.sepG l') = seps (segs E.sepG l)) ∧
      (∀ j, j < b ∨ b + vals.length ≤ j → s'.data[j]? = s.data[j]?) := by
  obtain ⟨data', h1, h2, h3, h4⟩ := arr2Loop_spec E s.cur fs fe hfs vals texts hrows b rs s.data hb hlen hfe
  refine ⟨{ s with data := data' }, ?_, rfl, rfl, h2, h3, h4⟩
  simp only [St.transfer2D, rowRange_eq, h1]

/-- Round trip of a 2-D array whose rows fill fields `fs..fe` exactly: the parser's
`transfer_2Darray(rs, fs, re, fe)` is handed, row by row, exactly the texts written, and returns an
array with as many rows as were written. -/
theorem C29_2d_roundtrip (s : St) (E : Env) (vals : List (List Val)) (texts : List (List Text))
    (rs fs fe : Int) (b : Nat) (hfs : 1 ≤ fs) (hrows : RowsOK E fs fe vals texts)
    (hexact : ∀ tr ∈ texts, fs - 1 + tr.length = fe) (hw1 : fs ≤ fe) (hne : vals ≠ [])
    (hb : (s.cur : Int) + rs = b) (hlen : b + vals.length ≤ s.data.length)
    (hfe : ∀ i l, i < vals.length → s.data[b + i]? = some l → fe ≤ (fields E.sepG l).length) :
    ∃ s', s.transfer2D E vals rs (rs + vals.length - 1) fs fe = .ok s' ∧
      s'.read2D E.sepG rs fs (rs + vals.length - 1) (some fe) = .ok (texts, vals.length) := by
  obtain ⟨s', hw, hc, _, hl, hrow, _⟩ := C29_2d_write s E vals texts rs fs fe b hfs hrows hb hlen hfe
  have htl := rowsOK_length hrows
  have hn : 0 < vals.length := List.length_pos_iff.mpr hne
  refine ⟨s', hw, ?_⟩
  -- the first row is non-empty, so `fe ≥ 1`
  have hfe1 : 1 ≤ fe := by omega
  have c1 : ¬ fe = 0 := by omega
  have c2 : ¬ fe < fs := by omega
  have c3 : ¬ rs + vals.length - 1 < rs := by omega
  -- the lines read
  have hslice : pySlice s'.data ((s'.cur : Int) + rs) (some ((s'.cur : Int) + (rs + vals.length - 1) + 1))
      = (s'.data.drop b).take vals.length := by
    unfold pySlice clampIdx
    rw [hc]
    have n1 : ¬ (s.cur : Int) + rs < 0 := by omega
    have n2 : ¬ (s.cur : Int) + (rs + vals.length - 1) + 1 < 0 := by omega
    simp only [n1, n2, if_false]
    have e1 : min ((s.cur : Int) + rs).toNat s'.data.length = b := by omega
    have e2 : min ((s.cur : Int) + (rs + vals.length - 1) + 1).toNat s'.data.length - b
        = vals.length := by omega
    rw [e1, e2]
  have hread : read2DGo E.sepG fs (some fe) ((s'.data.drop b).take vals.length) = .ok texts := by
    apply read2DGo_spec
    · simp only [List.length_take, List.length_drop]; omega
    · intro i l' tr hl' htr
      have hi : i < vals.length := by
        have := (List.getElem?_eq_some_iff.mp htr).1; omega
      have hl2 : s'.data[b + i]? = some l' := by
        simpa [List.getElem?_take, hi, List.getElem?_drop] using hl'
      have hbi : b + i < s.data.length := by omega
      obtain ⟨l'', h1, h2, _⟩ := hrow i s.data[b + i] tr (List.getElem?_eq_getElem hbi) htr
      have : l'' = l' := by rw [h1] at hl2; exact Option.some.inj hl2
      subst this
      have hx := hexact tr (List.mem_of_getElem? htr)
      have hF := hfe i s.data[b + i] hi (List.getElem?_eq_getElem hbi)
      refine ⟨?_, ?_⟩
      · intro e
        have := congrArg List.length h2
        rw [e] at this
        simp only [spliceAt, List.length_nil, List.length_append, List.length_take,
          List.length_drop] at this
        omega
      · rw [h2]; exact pySlice_spliceAt _ _ _ _ hfs hx hF
  cases htx : texts with
  | nil => rw [htx] at htl; simp at htl; omega
  | cons r0 rest =>
    have hall : (r0 :: rest).all (fun r => decide (r.length = r0.length)) = true := by
      rw [List.all_eq_true]
      intro r hr
      have h1 := hexact r (by rw [htx]; exact hr)
      have h2 := hexact r0 (by rw [htx]; simp)
      simp only [decide_eq_true_eq]; omega
    have hdn : (s'.data.drop b).take vals.length ≠ [] := by
      intro e
      have := congrArg List.length e
      simp only [List.length_take, List.length_drop, List.length_nil] at this
      omega
    have hfeN : truthyInt (some fe) = some fe := by
      unfold truthyInt
      split
      · rename_i h; exact absurd (Option.some.inj h) c1
      · rfl
    simp only [St.read2D, hfeN, Option.any_some, c2, c3, decide_false, Bool.false_eq_true, if_false, hslice]
    rw [htx] at hread
    cases hd : (s'.data.drop b).take vals.length with
    | nil => exact absurd hd hdn
    | cons x xs =>
      rw [hd] at hread
      simp only [hread, hall, if_true]
      congr 2
      rw [hc]; omega


/-! ## Anchors -/

/-- Forward search `mark_anchor(a, n)`, `n ≥ 1`: the search starts at the current row — or at the
row after it when a previous anchor is set, because `line.split(a)[-1]` never contains `a` — and
selects the row `start + i` such that this line contains the anchor text and exactly `n - 1` of
the lines `start .. start + i - 1` do: the `n`-th occurrence.  It raises iff there is no such row. -/
theorem C29_anchor_forward (s : St) (a : Text) (n r : Nat) (ha : a ≠ []) (hn : 1 ≤ n) :
    (∃ s', s.markAnchor a (n : Int) = .ok s' ∧ s'.cur = r ∧ s'.anchored = true ∧
        s'.data = s.data) ↔
      ∃ i, r = s.cur + (if s.anchored then 1 else 0) + i ∧
        NthHit a (s.data.drop (s.cur + (if s.anchored then 1 else 0))) i (n - 1) := by
  have hpos : (0 : Int) < (n : Int) := by omega
  have hnn : ((n : Int)).toNat = n := by omega
  simp only [St.markAnchor, hpos, if_true, hnn]
  cases hanc : s.anchored with
  | false =>
    simp only [Bool.false_eq_true, if_false, Nat.add_zero]
    cases hf : fwdGo a false (s.data.drop s.cur) 0 n with
    | none =>
      constructor
      · rintro ⟨s', h, _⟩; simp at h
      · rintro ⟨i, hi, hN⟩
        have := (fwdGo_plain a false (s.data.drop s.cur) 0 n i (Or.inr rfl) hn).mpr ⟨i, by omega, hN⟩
        rw [hf] at this; simp at this
    | some c =>
      have := (fwdGo_plain a false (s.data.drop s.cur) 0 n c (Or.inr rfl) hn).mp hf
      obtain ⟨i, hi, hN⟩ := this
      constructor
      · rintro ⟨s', h, hr, _⟩
        simp at h; subst h; simp at hr
        exact ⟨i, by omega, hN⟩
      · rintro ⟨i', hi', hN'⟩
        have h2 := (fwdGo_plain a false (s.data.drop s.cur) 0 n i' (Or.inr rfl) hn).mpr ⟨i', by omega, hN'⟩
        rw [hf] at h2
        have : c = i' := by simpa using h2
        exact ⟨_, rfl, by simp; omega, rfl, rfl⟩
  | true =>
    simp only [if_true]
    cases hd : s.data.drop s.cur with
    | nil =>
      have hd1 : s.data.drop (s.cur + 1) = [] := by
        rw [List.drop_eq_nil_iff] at hd ⊢; omega
      simp [fwdGo, hd1, NthHit]
    | cons l ls =>
      have hd1 : s.data.drop (s.cur + 1) = ls := by
        have := congrArg (List.drop 1) hd
        simpa [List.drop_drop, Nat.add_comm] using this
      rw [hd1]
      cases hf : fwdGo a true (l :: ls) 0 n with
      | none =>
        constructor
        · rintro ⟨s', h, _⟩; simp at h
        · rintro ⟨i, hi, hN⟩
          have := (fwdGo_anchored a ha l ls n (1 + i) hn).mpr ⟨i, rfl, hN⟩
          rw [hf] at this; simp at this
      | some c =>
        obtain ⟨i, hi, hN⟩ := (fwdGo_anchored a ha l ls n c hn).mp hf
        constructor
        · rintro ⟨s', h, hr, _⟩
          simp at h; subst h; simp at hr
          exact ⟨i, by omega, hN⟩
        · rintro ⟨i', hi', hN'⟩
          have h2 := (fwdGo_anchored a ha l ls n (1 + i') hn).mpr ⟨i', rfl, hN'⟩
          rw [hf] at h2
          have : c = 1 + i' := by simpa using h2
          exact ⟨_, rfl, by simp; omega, rfl, rfl⟩

/-- Backward search `mark_anchor(a, -n)`, `n ≥ 1`: counting lines from the end of the file
(`i = 0` is the last line; the current row plays no role), the row selected is the `n`-th line from
the end that contains the anchor text.  When a previous anchor is set the last line of the file is
passed over (`line.split(a)[0]` never contains `a`, and the code applies it to the last line, not
to the anchored one). -/
theorem C29_anchor_backward (s : St) (a : Text) (n r : Nat) (ha : a ≠ []) (hn : 1 ≤ n) :
    (∃ s', s.markAnchor a (-(n : Int)) = .ok s' ∧ s'.cur = r ∧ s'.anchored = true ∧
        s'.data = s.data) ↔
      ∃ i, r + i + (if s.anchored then 1 else 0) + 1 = s.data.length ∧
        NthHit a (s.data.reverse.drop (if s.anchored then 1 else 0)) i (n - 1) := by
  have h1 : ¬ (0 : Int) < -(n : Int) := by omega
  have h2 : -(n : Int) < 0 := by omega
  have hnn : (-(-(n : Int))).toNat = n := by omega
  simp only [St.markAnchor, h1, h2, if_true, if_false, hnn]
  cases hanc : s.anchored with
  | false =>
    simp only [Bool.false_eq_true, if_false, Nat.add_zero, List.drop_zero]
    have key : ∀ c, bwdGo a false (s.data.length - 1) s.data.reverse (s.data.length - 1) n = some c ↔
        ∃ i, c + i = s.data.length - 1 ∧ NthHit a s.data.reverse i (n - 1) :=
      fun c => bwdGo_plain a false _ _ _ n c (Or.inr rfl) (by simp; omega) hn
    have hlen : ∀ i, NthHit a s.data.reverse i (n - 1) → i < s.data.length := by
      rintro i ⟨⟨l, hl, _⟩, _⟩
      have := (List.getElem?_eq_some_iff.mp hl).1
      simpa using this
    cases hf : bwdGo a false (s.data.length - 1) s.data.reverse (s.data.length - 1) n with
    | none =>
      constructor
      · rintro ⟨s', h, _⟩; simp at h
      · rintro ⟨i, hi, hN⟩
        have := (key r).mpr ⟨i, by omega, hN⟩
        rw [hf] at this; simp at this
    | some c =>
      obtain ⟨i, hi, hN⟩ := (key c).mp hf
      have := hlen i hN
      constructor
      · rintro ⟨s', h, hr, _⟩
        simp at h; subst h; simp at hr
        exact ⟨i, by omega, hN⟩
      · rintro ⟨i', hi', hN'⟩
        have h3 := (key r).mpr ⟨i', by omega, hN'⟩
        rw [hf] at h3
        have : c = r := by simpa using h3
        exact ⟨_, rfl, by simp; omega, rfl, rfl⟩
  | true =>
    simp only [if_true]
    cases hd : s.data.reverse with
    | nil =>
      simp [bwdGo, NthHit]
    | cons l ls =>
      have hlen : s.data.length = ls.length + 1 := by
        have := congrArg List.length hd; simpa using this
      have hM : s.data.length - 1 = ls.length := by omega
      rw [hM]
      simp only [List.drop_succ_cons, List.drop_zero]
      have key := fun c => bwdGo_anchored a ha l ls n c hn
      cases hf : bwdGo a true ls.length (l :: ls) ls.length n with
      | none =>
        constructor
        · rintro ⟨s', h, _⟩; simp at h
        · rintro ⟨i, hi, hN⟩
          have := (key r).mpr ⟨i, by omega, hN⟩
          rw [hf] at this; simp at this
      | some c =>
        obtain ⟨i, hi, hN⟩ := (key c).mp hf
        constructor
        · rintro ⟨s', h, hr, _⟩
          simp at h; subst h; simp at hr
          exact ⟨i, by omega, hN⟩
        · rintro ⟨i', hi', hN'⟩
          have h3 := (key r).mpr ⟨i', by omega, hN'⟩
          rw [hf] at h3
          have : c = r := by simpa using h3
          exact ⟨_, rfl, by simp; omega, rfl, rfl⟩



/-- `mark_anchor` looks at the file only through "which lines contain the anchor text": two files
with the same pattern resolve every anchor call to the same row (or the same exception).  This is
what lets the parser, running the generator's anchor calls on the generated file, arrive at the
generator's rows — provided the values written did not create or destroy an occurrence of the
anchor text. -/
theorem C29_anchor_stable (s s' : St) (a : Text) (occ : Int) (ha : a ≠ [])
    (hc : s'.cur = s.cur) (hanc : s'.anchored = s.anchored)
    (hpat : s'.data.map (hasSub a) = s.data.map (hasSub a)) :
    posOf (s'.markAnchor a occ) = posOf (s.markAnchor a occ) := by
  have hlen : s'.data.length = s.data.length := by
    have := congrArg List.length hpat; simpa using this
  have h1 : (s'.data.drop s.cur).map (hasSub a) = (s.data.drop s.cur).map (hasSub a) := by
    rw [List.map_drop, List.map_drop, hpat]
  have h2 : s'.data.reverse.map (hasSub a) = s.data.reverse.map (hasSub a) := by
    rw [List.map_reverse, List.map_reverse, hpat]
  unfold St.markAnchor
  rw [hc, hanc, hlen, fwdGo_congr a ha s.anchored _ _ h1, bwdGo_congr a ha s.anchored _ _ _ h2]
  by_cases hp : 0 < occ
  · simp only [hp, if_true]
    cases fwdGo a s.anchored (s.data.drop s.cur) 0 occ.toNat <;> simp [posOf]
  · simp only [hp, if_false]
    by_cases hn : occ < 0
    · simp only [hn, if_true]
      cases bwdGo a s.anchored (s.data.length - 1) s.data.reverse (s.data.length - 1) (-occ).toNat <;>
        simp [posOf]
    · simp [hn, posOf]

/-- Round trip relative to an anchor: the generator marks an anchor and writes `v` at
`(row, field)` from it; a parser positioned like the generator before its `mark_anchor`, reading
the generated lines, issues the same `mark_anchor` and `transfer_var(row, field)` and is handed the
text written — as long as the write left the lines-containing-the-anchor pattern alone. -/
theorem C29_anchored_roundtrip (s s1 s2 : St) (E : Env) (a : Text) (occ : Int) (v : Val)
    (t line : Text) (row field : Int) (ha : a ≠ [])
    (hm : s.markAnchor a occ = .ok s1)
    (hline : pyGet s1.data (s1.cur + row) = .ok line)
    (hfmt : E.fmt v = .ok t) (htok : TokOK E.sepG t)
    (hfield : 1 ≤ field ∧ field ≤ (fields E.sepG line).length)
    (hw : s1.transferVar E v row field = .ok s2)
    (hpat : s2.data.map (hasSub a) = s.data.map (hasSub a)) :
    ∃ p1, ({ data := s2.data, cur := s.cur, anchored := s.anchored } : St).markAnchor a occ = .ok p1 ∧
      p1.cur = s1.cur ∧ p1.readVar E.sepG row field = .ok t := by
  obtain ⟨s2', hw', hc2, _, hr⟩ := C29_var_roundtrip s1 E v t line row field hline hfmt htok hfield
  have : s2' = s2 := by rw [hw] at hw'; exact (Except.ok.inj hw').symm
  subst this
  have hst := C29_anchor_stable s { data := s2'.data, cur := s.cur, anchored := s.anchored } a occ ha
    rfl rfl hpat
  rw [hm] at hst
  cases hp : ({ data := s2'.data, cur := s.cur, anchored := s.anchored } : St).markAnchor a occ with
  | error e => rw [hp] at hst; simp [posOf] at hst
  | ok p1 =>
    rw [hp] at hst
    simp only [posOf, Except.ok.injEq, Prod.mk.injEq] at hst
    have hd := markAnchor_data _ _ _ _ hp
    refine ⟨p1, rfl, hst.1, ?_⟩
    have : p1.readVar E.sepG row field = s2'.readVar E.sepG row field := by
      unfold St.readVar; rw [hd, hst.1, hc2]
    rw [this, hr]


/-! ## The formatter: `_getformat` is not total on floats -/

/-- Finite floats always get a format (`_partial`: the hypothesis "finite" is what has to be added
to the claim "every float can be written"). -/
theorem C29_format_total_partial (fixed : Bool) (rt : Rt) (q : Rat) (z : Bool) :
    fmtFloat fixed rt (.fin q z) = .ok (rt.pct (getformatFin q) (.fin q z)) ∧
      getformat (.fin q z) = .ok (getformatFin q) := ⟨rfl, rfl⟩

/-- Counterexample 1: `_getformat(inf)` raises `OverflowError`, so no infinity can be written. -/
theorem C29_format_total_fails_inf (rt : Rt) (neg : Bool) :
    getformat (.inf neg) = .error .overflowError ∧
      fmtVal false rt (.flt (.inf neg)) = .error .overflowError := ⟨rfl, rfl⟩

/-- Counterexample 2: `_getformat(nan)` raises `ValueError`. -/
theorem C29_format_total_fails_nan (rt : Rt) :
    getformat .nan = .error .valueError ∧
      fmtVal false rt (.flt .nan) = .error .valueError := ⟨rfl, rfl⟩

/-- The exception reaches the caller: `transfer_var(nan, row, field)` raises whenever the target
field exists (the callback for that field is run). -/
theorem C29_transfer_nonfinite_raises (s : St) (E : Env) (v : Val) (e : Err) (line : Text)
    (row field : Int) (hline : pyGet s.data (s.cur + row) = .ok line)
    (hfmt : E.fmt v = .error e)
    (hfield : 1 ≤ field ∧ field ≤ (fields E.sepG line).length) :
    s.transferVar E v row field = .error e := by
  have key : ∀ (ts : List Text) (cur : Nat), (cur : Int) + 1 ≤ field → field ≤ cur + ts.length →
      allOk (replaceVar E.fmt v field cur ts) = .error e := by
    intro ts
    induction ts with
    | nil => intro cur h1 h2; simp at h2; omega
    | cons t ts ih =>
      intro cur h1 h2
      simp only [replaceVar]
      by_cases hc : ((cur + 1 : Nat) : Int) = field
      · simp [hc, hfmt, allOk]
      · simp only [hc, if_false, allOk]
        rw [ih (cur + 1) (by omega) (by simp at h2; omega)]
  simp only [St.transferVar, hline, subVarLine]
  rw [key _ 0 (by omega) (by simpa [fields] using hfield.2)]

/-- With the repair (`fixed`) the formatter is total on floats … -/
theorem C29_format_total_fixed (rt : Rt) (f : Flt) : ∃ t, fmtFloat true rt f = .ok t := by
  cases f with
  | nan => exact ⟨_, rfl⟩
  | inf neg => exact ⟨_, rfl⟩
  | fin q z => exact ⟨_, rfl⟩

/-- … and what it writes for nan / ±inf is read back as the same value by the (repaired) special
token table of the parser, and is one field under every delimiter set that does not contain one of
its characters. -/
theorem C29_special_roundtrip_fixed (rt : Rt) (f t) (hf : ∀ q z, f ≠ .fin q z)
    (h : fmtFloat true rt f = .ok t) : parseSpecial true t = some f := by
  cases f with
  | nan => simp [fmtFloat] at h; subst h; decide +kernel
  | inf neg =>
    cases neg with
    | false => simp [fmtFloat] at h; subst h; decide +kernel
    | true => simp [fmtFloat] at h; subst h; decide +kernel
  | fin q z => exact absurd rfl (hf q z)

/-- The parser as it is loses the sign of `-Inf` (`_ToInf.postParse` returns `float('inf')`),
so writing `-Inf` alone would not make `-inf` round-trip. -/
theorem C29_neg_inf_sign_lost :
    parseSpecial false "-Inf".toList = some (.inf false) ∧
      parseSpecial true "-Inf".toList = some (.inf true) := by decide +kernel

/-! ## Overflow of `transfer_array` drops the newline of the line it extends -/

def exRt : Rt := { pct := pctImpl, strF := fun _ => [] }
def exEnv : Env := { sepG := isSep [' '], fmt := fmtVal false exRt, pystr := strVal exRt }
def exSt : St :=
  { data := ["KEY 1 2\n".toList, "x 3 4\n".toList, "KEY 5 6\n".toList], cur := 0, anchored := false }

/-- Counterexample to "the number of lines is unchanged" for an array longer than the template
range on a line that is not the last one: `newline.rstrip()` removes the line's `\n`, and the file
that is written has one line less (`"KEY 7 8 9x 3 4\n"`). -/
theorem C29_overflow_drops_newline :
    (match exSt.transferArray exEnv [.int 7, .int 8, .int 9] 0 2 3 none [' '] with
      | .ok s' => (s'.data.length, (readlines s'.data.flatten).length)
      | .error _ => (0, 0)) = (3, 2) := by decide +kernel

/-- With the repaired overflow branch (`keepEol`) the same call keeps all three lines. -/
theorem C29_overflow_keeps_newline_fixed :
    (match exSt.transferArray { exEnv with keepEol := true } [.int 7, .int 8, .int 9] 0 2 3 none [' '] with
      | .ok s' => (s'.data.length, (readlines s'.data.flatten).length)
      | .error _ => (0, 0)) = (3, 3) := by decide +kernel

-- non-vacuity of the round-trip / frame theorems on a concrete file
example : (match exSt.transferVar exEnv (.flt (.fin (3/2) false)) 1 2 with
    | .ok s' => [s'.readVar exEnv.sepG 1 2, s'.readVar exEnv.sepG 1 3, s'.readVar exEnv.sepG 0 2]
    | .error _ => []) = [.ok "1.5".toList, .ok "4".toList, .ok "1".toList] := by decide +kernel

example : pyGet exSt.data ((exSt.cur : Int) + 1) = .ok "x 3 4\n".toList ∧
    exEnv.fmt (.flt (.fin (3/2) false)) = .ok "1.5".toList ∧ TokOK exEnv.sepG "1.5".toList ∧
    (1 : Int) ≤ 2 ∧ (2 : Int) ≤ (fields exEnv.sepG "x 3 4\n".toList).length := by
  refine ⟨by decide +kernel, by decide +kernel, ⟨by decide, by decide +kernel⟩, by decide, by decide +kernel⟩

-- a two-row array: "x 3 4" from field 2 and "KEY 5 6" up to field 2 receive 7 8 9 in reading order
example : (match exSt.transferArray exEnv [.int 7, .int 8, .int 9] 1 2 2 (some 2) [' '] with
    | .ok s' => (s'.data.map String.ofList, s'.readArray exEnv.sepG 1 2 (some 2) 2)
    | .error _ => ([], .error .indexError)) =
    (["KEY 1 2\n", "x 7 8\n", "9 5 6\n"], .ok ["7".toList, "8".toList, "9".toList, "5".toList]) := by
  decide +kernel

def curOf : Except Err St → Option Nat
  | .ok s => some s.cur
  | .error _ => none

example : curOf (exSt.markAnchor "KEY".toList 2) = some 2 ∧
    curOf (exSt.markAnchor "KEY".toList (-2)) = some 0 ∧
    curOf (exSt.markAnchor "KEY".toList 3) = none := by decide +kernel
-- anchored: the forward search skips the current row, the backward search the last line
example : curOf (({ exSt with anchored := true } : St).markAnchor "KEY".toList 1) = some 2 ∧
    curOf (({ exSt with anchored := true } : St).markAnchor "KEY".toList (-1)) = some 0 := by
  decide +kernel


end OMV.C29
