/-
C11 — Assembled Jacobian formats represent the same linear operator.
Property theorems only (plus non-vacuity examples); lemmas are in `OMV/Proofs/C11*.lean`.

`K` is any commutative semiring (ℚ as run by the driver, ℝ, ℂ for complex step).  The operator a
set of sub-jacobians defines is the sum-of-duplicates matrix `denseAt (allTrips …)` =
`Σ_subjacs factor·coo`; `mulVec` / `mulVecT` are its forward and transposed products.
-/
import OMV.Proofs.C11Dict
import Mathlib.Tactic.NormNum

set_option linter.unusedSectionVars false

namespace OMV.C11

variable {K : Type} [CommSemiring K]

/-! ### the COO → CSC / CSR slot map (`CSCMatrix._build`, `CSRMatrix._build`) -/

/-- For any list of positions the lexsort / first-occurrence / cumsum / scatter map of
`CSCMatrix._build`: (1) the slot list is strictly increasing in column-major order — one slot per
distinct position, ordered as scipy's CSC stores them; (2) every COO entry is sent to the slot
holding its own position; hence (3) entries share a slot iff they are at the same position and
(4) the slots follow the column-major order of the positions. -/
theorem C11_csc_map_correct (P : List Pos) :
    (slotPos leCsc P).Pairwise colMajorLt ∧
    (∀ i (hi : i < P.length),
      ∃ s, (cooToSlot leCsc P)[i]? = some s ∧ (slotPos leCsc P)[s]? = some P[i]) ∧
    (∀ i j (hi : i < P.length) (hj : j < P.length),
      ((cooToSlot leCsc P)[i]? = (cooToSlot leCsc P)[j]? ↔ P[i] = P[j]) ∧
      (colMajorLt P[i] P[j] → ∃ s t, (cooToSlot leCsc P)[i]? = some s ∧
        (cooToSlot leCsc P)[j]? = some t ∧ s < t)) := by
  refine ⟨?_, fun i hi => cooToSlot_spec leCsc P i hi, fun i j hi hj => ⟨?_, ?_⟩⟩
  · exact (slotPos_pairwise leCsc leCsc_trans leCsc_total leCsc_antisymm P).imp
      (fun {a b} h => (ltOf_leCsc a b).mp h)
  · exact slot_eq_iff leCsc leCsc_trans leCsc_total leCsc_antisymm P i j hi hj
  · intro h
    exact slot_lt_of_lt leCsc leCsc_trans leCsc_total leCsc_antisymm P i j hi hj
      ((ltOf_leCsc _ _).mpr h)

/-- The same for `CSRMatrix._build` with row-major order. -/
theorem C11_csr_map_correct (P : List Pos) :
    (slotPos leCsr P).Pairwise rowMajorLt ∧
    (∀ i (hi : i < P.length),
      ∃ s, (cooToSlot leCsr P)[i]? = some s ∧ (slotPos leCsr P)[s]? = some P[i]) ∧
    (∀ i j (hi : i < P.length) (hj : j < P.length),
      ((cooToSlot leCsr P)[i]? = (cooToSlot leCsr P)[j]? ↔ P[i] = P[j]) ∧
      (rowMajorLt P[i] P[j] → ∃ s t, (cooToSlot leCsr P)[i]? = some s ∧
        (cooToSlot leCsr P)[j]? = some t ∧ s < t)) := by
  refine ⟨?_, fun i hi => cooToSlot_spec leCsr P i hi, fun i j hi hj => ⟨?_, ?_⟩⟩
  · exact (slotPos_pairwise leCsr leCsr_trans leCsr_total leCsr_antisymm P).imp
      (fun {a b} h => (ltOf_leCsr a b).mp h)
  · exact slot_eq_iff leCsr leCsr_trans leCsr_total leCsr_antisymm P i j hi hj
  · intro h
    exact slot_lt_of_lt leCsr leCsr_trans leCsr_total leCsr_antisymm P i j hi hj
      ((ltOf_leCsr _ _).mpr h)

-- a concrete pattern with a repeated position: entries 0 and 2 share slot 1, entry 1 gets slot 0
example : cooToSlot leCsc [(1, 1), (0, 0), (1, 1), (0, 2)] = [1, 0, 1, 2] ∧
    slotPos leCsc [(1, 1), (0, 0), (1, 1), (0, 2)] = [(0, 0), (1, 1), (0, 2)] ∧
    cooToSlot leCsr [(1, 1), (0, 0), (1, 1), (0, 2)] = [2, 0, 2, 1] := by decide +kernel

/-! ### `np.add.at` versus buffered `+=`, and the duplicate flag -/

/-- `np.add.at` executed entry by entry adds to each cell all entries addressed to it. -/
theorem C11_add_at_seq (d : Nat → K) (idx : List Nat) (vals : List K) :
    addAtSeq d idx vals = addAt d idx vals := addAtSeq_eq idx d vals

/-- `data[idx] += vals` executed as gather / add / element-wise assignment adds to each cell only
the last entry addressed to it. -/
theorem C11_buffered_seq (d : Nat → K) (idx : List Nat) (vals : List K) :
    addBufferedSeq d idx vals = addBuffered d idx vals := addBufferedSeq_eq d idx vals

/-- Plain `+=` equals `np.add.at` when the slice of the map has no repeated slot. -/
theorem C11_buffered_add_partial (d : Nat → K) (idx : List Nat) (vals : List K) (h : idx.Nodup) :
    addBufferedSeq d idx vals = addAtSeq d idx vals := by
  rw [addBufferedSeq_eq, addAtSeq_eq, addBuffered_eq_addAt_of_nodup d idx vals h]

/-- Exactly then: over any `K` with `0 ≠ 1`, plain `+=` agrees with `np.add.at` for all arrays and
values iff the slice has no repeated slot — which is why the duplicate flag must be exact. -/
theorem C11_buffered_add_iff (h01 : (0 : K) ≠ 1) (idx : List Nat) :
    (∀ (d : Nat → K) (vals : List K), addBufferedSeq d idx vals = addAtSeq d idx vals) ↔
      idx.Nodup := buffered_iff h01 idx

/-- A concrete instance: with a repeated slot the first contribution is lost. -/
theorem C11_buffered_add_needs_no_duplicates :
    addBufferedSeq (fun _ => (0 : Rat)) [0, 0] [1, 2] 0 = 2 ∧
    addAtSeq (fun _ => (0 : Rat)) [0, 0] [1, 2] 0 = 3 := by decide +kernel

/-- The flag `n > 1 and np.unique(idx).size != n` is off exactly when the slice has no repeated
slot, so the `+=` branch is only taken where it is correct … -/
theorem C11_flag_exact (idx : List Nat) : hasDupFlag idx = false ↔ idx.Nodup :=
  hasDupFlag_false_iff idx

/-- … and `_update_from_submat` with this flag is `np.add.at` in both branches. -/
theorem C11_update_is_add_at (d : Nat → K) (idx : List Nat) (data : List K) :
    sparseUpdate d idx (hasDupFlag idx) data = addAtSeq d idx data := by
  rw [sparseUpdate_exact, addAtSeq_eq]

example : hasDupFlag [3, 1, 3] = true ∧ hasDupFlag [3, 1, 2] = false ∧ hasDupFlag [5] = false := by
  decide +kernel

/-! ### accumulation: CSC / CSR data represent `Σ_subjacs factor·coo` -/

/-- After any history of updates followed by `_pre_update; _update_from_submat*` with values
`vals`, the CSC (`le = leCsc`) or CSR (`le = leCsr`) data read at their slot positions are the
sum-of-duplicates matrix of the sub-jacobians' triplets: independent of the previous updates, of
their dtype conversions and of the starting data. -/
theorem C11_accumulate (le : Pos → Pos → Bool) (subs : List (SubJ K))
    (hist : List ((K → K) × List (List K))) (conv : K → K) (vals : List (List K)) (d : Nat → K)
    (p : Pos) :
    sparseDense (slotPos le (cooPositions subs))
      (sparseRun (sparseBuild le subs) subs (hist ++ [(conv, vals)]) d) p =
      denseAt (allTrips (subs.zip vals)) p := by
  simp only [sparseRun, List.foldl_append, List.foldl_cons, List.foldl_nil]
  exact sparse_dense le subs conv _ vals p

/-- The accumulated data do not depend on the order in which the sub-jacobians are processed. -/
theorem C11_accumulate_order (L1 L2 : List ((List Nat × Bool) × (SubJ K × List K)))
    (hp : L1.Perm L2) (hflag : ∀ x ∈ L1, x.1.2 = hasDupFlag x.1.1) (d : Nat → K) (j : Nat) :
    L1.foldl (fun d x => sparseUpdate d x.1.1 x.1.2 (scaleData x.2.1.factor x.2.2)) d j =
      L2.foldl (fun d x => sparseUpdate d x.1.1 x.1.2 (scaleData x.2.1.factor x.2.2)) d j := by
  have h1 : ∀ (L : List ((List Nat × Bool) × (SubJ K × List K))),
      (∀ x ∈ L, x.1.2 = hasDupFlag x.1.1) →
      L.foldl (fun d x => sparseUpdate d x.1.1 x.1.2 (scaleData x.2.1.factor x.2.2)) d j =
        d j + (L.map (fun x => contrib x.1.1 (scaleData x.2.1.factor x.2.2) j)).sum := by
    intro L hL
    rw [List.foldl_ext (g := fun d x => addAt d x.1.1 (scaleData x.2.1.factor x.2.2))]
    · exact foldl_addAt (fun x : (List Nat × Bool) × (SubJ K × List K) => x.1.1)
        (fun x => scaleData x.2.1.factor x.2.2) L d j
    · intro d x hx
      rw [hL x hx]
      exact sparseUpdate_exact d x.1.1 _
  rw [h1 L1 hflag, h1 L2 (fun x hx => hflag x (hp.mem_iff.mpr hx))]
  congr 1
  exact (hp.map _).sum_eq

/-! ### all formats -/

/-- For well-formed values (one value per stored entry) and arbitrary previous states, the dense
forms of the CSC data, of the CSR data and of `DenseMatrix`'s summed COO data (the path taken when
positions repeat) are all the matrix `Σ_subjacs factor·coo`. -/
theorem C11_all_formats_equal (subs : List (SubJ K)) (vals : List (List K))
    (h1 : vals.length = subs.length)
    (hv : ∀ x ∈ subs.zip vals, x.2.length = x.1.positions.length)
    (c₁ c₂ c₃ : K → K) (dcsc dcsr : Nat → K) (data : List (List K))
    (h2 : data.length = subs.length) (p : Pos) :
    sparseDense (slotPos leCsc (cooPositions subs))
      (sparseStep (sparseBuild leCsc subs) subs c₁ dcsc vals) p =
        denseAt (allTrips (subs.zip vals)) p ∧
    sparseDense (slotPos leCsr (cooPositions subs))
      (sparseStep (sparseBuild leCsr subs) subs c₂ dcsr vals) p =
        denseAt (allTrips (subs.zip vals)) p ∧
    cooDense subs (cooStep subs c₃ data vals) p = denseAt (allTrips (subs.zip vals)) p :=
  ⟨sparse_dense leCsc subs c₁ dcsc vals p, sparse_dense leCsr subs c₂ dcsr vals p,
    coo_dense subs c₃ data vals h1 h2 hv p⟩

/-- Matrices with the same dense form have the same forward and transposed products (`n`, `m`
bound the column and row indices), so equality of the dense forms is equality as operators. -/
theorem C11_same_dense_same_operator (T T' : List (Pos × K)) (m n : Nat)
    (hT : ∀ t ∈ T, t.1.1 < m ∧ t.1.2 < n) (hT' : ∀ t ∈ T', t.1.1 < m ∧ t.1.2 < n)
    (h : ∀ p, denseAt T p = denseAt T' p) (x y : Nat → K) (r c : Nat) :
    mulVec T x r = mulVec T' x r ∧ mulVecT T y c = mulVecT T' y c := by
  constructor
  · rw [mulVec_of_dense T n (fun t ht => (hT t ht).2), mulVec_of_dense T' n (fun t ht => (hT' t ht).2)]
    simp [h]
  · rw [mulVecT_of_dense T m (fun t ht => (hT t ht).1),
      mulVecT_of_dense T' m (fun t ht => (hT' t ht).1)]
    simp [h]

/-- The dictionary (matrix-free) application — forward transfer through `src_indices` and the unit
factor followed by `Subjac.apply_fwd`; `apply_rev` followed by the reverse transfer — summed over
the sub-jacobians is the product with `Σ_subjacs factor·coo`, forward and transposed.  (`z.1.2` is
the size of the input; local columns lie below it.) -/
theorem C11_dictionary_equal (L : List ((SubJ K × Nat) × List K))
    (hn : ∀ z ∈ L, ∀ p ∈ localPos z.1.1.pat, p.2 < z.1.2) (dout dres : Nat → K) (r c : Nat) :
    (L.map (fun z => dictFwd z.1.1 z.2 dout r)).sum =
      mulVec (allTrips (L.map (fun z => (z.1.1, z.2)))) dout r ∧
    (L.map (fun z => dictRev z.1.1 z.1.2 z.2 dres c)).sum =
      mulVecT (allTrips (L.map (fun z => (z.1.1, z.2)))) dres c := by
  constructor
  · rw [mulVec_allTrips, List.map_map]
    congr 1
    apply List.map_congr_left
    intro z _
    exact dictFwd_eq z.1.1 z.2 dout r
  · rw [mulVecT_allTrips, List.map_map]
    congr 1
    apply List.map_congr_left
    intro z hz
    exact dictRev_eq z.1.1 z.1.2 z.2 dres c (hn z hz)

/-! ### the plain array of `DenseMatrix` (no repeated positions) -/

/-- `DenseMatrix` without repeated positions assigns and scales and never zeroes.  After any
history of updates (each conversion keeping zero, each set of values well formed) the array is
`Σ factor·coo` — for the code as it is (`whole = true`: `view *= factor` scales the whole view of a
dense sub-jacobian) only under the extra hypothesis that the view of every sub-jacobian contains,
besides its own cells, only cells that no sub-jacobian writes. -/
theorem C11_dense_plain_partial (whole : Bool) (subs : List (SubJ K))
    (hist : List ((K → K) × List (List K))) (conv : K → K) (vals : List (List K)) (M0 : Pos → K)
    (hM0 : ∀ p, p ∉ cooPositions subs → M0 p = 0)
    (hhist : ∀ h ∈ hist ++ [(conv, vals)], h.1 0 = 0 ∧ h.2.length = subs.length ∧
      ∀ x ∈ subs.zip h.2, SubOk x.1 x.2)
    (hnd : (cooPositions subs).Nodup)
    (hview : whole = true → ∀ s ∈ subs, ∀ p, inView s p = true →
      p ∈ s.positions ∨ p ∉ cooPositions subs) (p : Pos) :
    denseRun whole subs (hist ++ [(conv, vals)]) M0 p = denseAt (allTrips (subs.zip vals)) p := by
  -- invariant: the array vanishes outside the positions of the matrix
  have hinv : ∀ (H : List ((K → K) × List (List K))) (M : Pos → K),
      (∀ p, p ∉ cooPositions subs → M p = 0) →
      (∀ h ∈ H, h.1 0 = 0 ∧ h.2.length = subs.length ∧ ∀ x ∈ subs.zip h.2, SubOk x.1 x.2) →
      ∀ p, p ∉ cooPositions subs → denseRun whole subs H M p = 0 := by
    intro H
    induction H with
    | nil => intro M hM _ p hp; exact hM p hp
    | cons h H ih =>
      intro M hM hH p hp
      have hh := hH h (by simp)
      simp only [denseRun, List.foldl_cons]
      apply ih _ _ (fun g hg => hH g (by simp [hg])) p hp
      intro q hq
      rw [dense_step_eq whole subs h.1 M h.2 hM hh.1 hh.2.1 hh.2.2 hnd hview q]
      apply denseAt_of_not_mem
      rw [allTrips_map_fst _ (fun x hx => (hh.2.2 x hx).2.1), flatMap_zip_positions subs h.2 hh.2.1]
      exact hq
  have hlast := hhist (conv, vals) (by simp)
  have hpre : ∀ h ∈ hist, h.1 0 = 0 ∧ h.2.length = subs.length ∧ ∀ x ∈ subs.zip h.2, SubOk x.1 x.2 :=
    fun h hh => hhist h (by simp [hh])
  have hsplit : denseRun whole subs (hist ++ [(conv, vals)]) M0 =
      denseStep whole subs conv (denseRun whole subs hist M0) vals := by
    simp [denseRun, List.foldl_append]
  rw [hsplit]
  exact dense_step_eq whole subs conv _ vals (hinv hist M0 hM0 hpre) hlast.1 hlast.2.1 hlast.2.2
    hnd hview p

/-- With `whole = false` (only the assigned cells are scaled) no hypothesis on the views is needed. -/
theorem C11_dense_plain_cells_scaled (subs : List (SubJ K))
    (hist : List ((K → K) × List (List K))) (conv : K → K) (vals : List (List K)) (M0 : Pos → K)
    (hM0 : ∀ p, p ∉ cooPositions subs → M0 p = 0)
    (hhist : ∀ h ∈ hist ++ [(conv, vals)], h.1 0 = 0 ∧ h.2.length = subs.length ∧
      ∀ x ∈ subs.zip h.2, SubOk x.1 x.2)
    (hnd : (cooPositions subs).Nodup) (p : Pos) :
    denseRun false subs (hist ++ [(conv, vals)]) M0 p = denseAt (allTrips (subs.zip vals)) p :=
  C11_dense_plain_partial false subs hist conv vals M0 hM0 hhist hnd (fun h => by simp at h) p

/-- two inputs of one component, connected to elements 0 and 1 of the same 2-element source, the
second one with a unit factor 100 and a dense partial -/
def exViewSubs : List (SubJ Rat) :=
  [{ pat := .coo [0] [0], row0 := 0, col0 := 1, parentNcols := 2, src := some [0], factor := none },
   { pat := .dense 1 1, row0 := 0, col0 := 1, parentNcols := 2, src := some [1], factor := some 100 }]

/-- The code as it is violates the full statement: `view *= factor` of the second sub-jacobian also
multiplies the entry the first one wrote (100 instead of 1); scaling only the assigned cells gives
the right matrix.  The CSC path is right on the same input. -/
theorem C11_dense_view_scaling_counterexample :
    denseStep true exViewSubs id (fun _ => 0) [[1], [2]] (0, 1) = 100 ∧
    denseStep false exViewSubs id (fun _ => 0) [[1], [2]] (0, 1) = 1 ∧
    denseAt (allTrips (exViewSubs.zip [[1], [2]])) (0, 1) = 1 ∧
    sparseDense (slotPos leCsc (cooPositions exViewSubs))
      (sparseStep (sparseBuild leCsc exViewSubs) exViewSubs id (fun _ => 0) [[1], [2]]) (0, 1) = 1 := by
  decide +kernel

/-! ### dtype switches -/

/-- Complex-step dtype switches: whatever updates, conversions (`real → complex`, `complex → real`)
and values came before, after the next update the CSC data, the CSR data and the COO data of
`DenseMatrix` represent `Σ factor·coo` of the *current* values — in particular a
real → complex → real history ends with the operator a single real update gives. -/
theorem C11_dtype_switch (subs : List (SubJ K))
    (hist₁ hist₂ : List ((K → K) × List (List K))) (conv₁ conv₂ : K → K) (vals : List (List K))
    (d₁ d₂ : Nat → K) (data₁ data₂ : List (List K))
    (h1 : vals.length = subs.length)
    (hv : ∀ x ∈ subs.zip vals, x.2.length = x.1.positions.length)
    (hd₁ : (cooRun subs hist₁ data₁).length = subs.length)
    (hd₂ : (cooRun subs hist₂ data₂).length = subs.length) (p : Pos) :
    (∀ le, sparseDense (slotPos le (cooPositions subs))
        (sparseRun (sparseBuild le subs) subs (hist₁ ++ [(conv₁, vals)]) d₁) p =
      sparseDense (slotPos le (cooPositions subs))
        (sparseRun (sparseBuild le subs) subs (hist₂ ++ [(conv₂, vals)]) d₂) p) ∧
    cooDense subs (cooRun subs (hist₁ ++ [(conv₁, vals)]) data₁) p =
      cooDense subs (cooRun subs (hist₂ ++ [(conv₂, vals)]) data₂) p := by
  constructor
  · intro le
    rw [C11_accumulate, C11_accumulate]
  · have e₁ : cooRun subs (hist₁ ++ [(conv₁, vals)]) data₁ =
        cooStep subs conv₁ (cooRun subs hist₁ data₁) vals := by simp [cooRun, List.foldl_append]
    have e₂ : cooRun subs (hist₂ ++ [(conv₂, vals)]) data₂ =
        cooStep subs conv₂ (cooRun subs hist₂ data₂) vals := by simp [cooRun, List.foldl_append]
    rw [e₁, e₂, coo_dense subs conv₁ _ vals h1 hd₁ hv p, coo_dense subs conv₂ _ vals h1 hd₂ hv p]

/-! ### a concrete instance meeting the hypotheses: duplicates within and across sub-jacobians -/

/-- rows 1-2 depend on a 2-element input whose `src_indices = [0, 0]` repeat source element 0
(duplicate *within* the sub-jacobian, unit factor 100); a second input of the same rows is connected
to the same source element (duplicate *across* sub-jacobians); `-I` on the diagonal. -/
def exSubs : List (SubJ Rat) :=
  [{ pat := .dense 2 2, row0 := 1, col0 := 0, parentNcols := 1, src := some [0, 0], factor := some 100 },
   { pat := .coo [1] [0], row0 := 1, col0 := 0, parentNcols := 1, src := some [0], factor := none },
   { pat := .diag 3, row0 := 0, col0 := 0, parentNcols := 3, src := none, factor := none }]

def exVals : List (List Rat) := [[1, 2, 3, 4], [5], [-1, -1, -1]]

example : (sparseBuild leCsc exSubs).map (·.2) = [true, false, false] ∧
    hasRepeated (cooPositions exSubs) = true ∧
    sparseDense (slotPos leCsc (cooPositions exSubs))
      (sparseStep (sparseBuild leCsc exSubs) exSubs id (fun _ => 7) exVals) (2, 0) = 705 ∧
    sparseDense (slotPos leCsr (cooPositions exSubs))
      (sparseStep (sparseBuild leCsr exSubs) exSubs id (fun _ => 7) exVals) (2, 0) = 705 ∧
    cooDense exSubs (cooStep exSubs id [[9, 9, 9, 9], [9], [9, 9, 9]] exVals) (2, 0) = 705 ∧
    denseAt (allTrips (exSubs.zip exVals)) (2, 0) = 705 ∧
    exVals.length = exSubs.length ∧
    (exSubs.zip exVals).all (fun x => x.2.length == x.1.positions.length) = true := by
  decide +kernel

/-- seed vector used in the examples -/
def exSeed (i : Nat) : Rat := if i = 0 then 2 else if i = 1 then -3 else 5

example : (List.map (fun z : (SubJ Rat × Nat) × List Rat => dictFwd z.1.1 z.2 exSeed 2)
      ((exSubs.zip [2, 1, 3]).zip exVals)).sum = 1405 ∧
    mulVec (allTrips (exSubs.zip exVals)) exSeed 2 = 1405 ∧
    (List.map (fun z : (SubJ Rat × Nat) × List Rat => dictRev z.1.1 z.1.2 z.2 exSeed 0)
      ((exSubs.zip [2, 1, 3]).zip exVals)).sum = 2623 ∧
    mulVecT (allTrips (exSubs.zip exVals)) exSeed 0 = 2623 := by
  decide +kernel

end OMV.C11
