/-
C15 — Table interpolation is exact on nodes and reproduces its polynomial degree.
Property theorems only (plus non-vacuity examples).  Helper lemmas: `OMV/Proofs/C15*.lean`.

Vocabulary: a table dimension is a pair `(n, g)` (number of points, coordinates); `GridsOK k ds`
says every dimension has at least `k` strictly increasing points (any sign); tables are functions
of the multi-index; `polyTbl ds p` is the table sampled from the polynomial `p` on the grid;
`evalND kern ds tbl xs` is what a fresh `InterpND` of that method returns at `xs`, `evalIdx` the
same with the bracket index of every dimension chosen freely (any state of `last_index`).
-/
import OMV.Proofs.C15Top
import Mathlib.Tactic.NormNum

set_option linter.unusedSectionVars false
set_option linter.unusedVariables false

namespace OMV.C15

variable {K : Type} [Field K] [LinearOrder K] [IsStrictOrderedRing K]

/-! ## Bracketing -/

/-- `InterpAlgorithm.bracket`, from **any** start index `last_index`, on any strictly increasing
grid of ≥ 2 points: flag −1 exactly below the table, +1 exactly above (index `n-1`: the
"last-interval rule" every kernel then maps to `n-2`), and otherwise an interval `idx ≤ n-2` with
`g idx ≤ x ≤ g (idx+1)`. -/
theorem C15_bracket_spec (g : Nat → K) (n : Nat) (hn : 2 ≤ n) (hg : StrictOn n g) (last : Nat)
    (hlast : last < n) (x : K) :
    (x < g 0 → bracket g n last x = (0, Flag.below)) ∧
    (g (n - 1) < x → bracket g n last x = (n - 1, Flag.above)) ∧
    (g 0 ≤ x → x ≤ g (n - 1) →
      ∃ idx, bracket g n last x = (idx, Flag.inside) ∧ idx + 1 < n ∧ g idx ≤ x ∧ x ≤ g (idx + 1)) :=
  bracket_spec g n hn hg last hlast x

/-- The vectorized bracketing of the fixed-dimension tables, `np.searchsorted(grid, x, 'left') - 1`:
`-1` at or below the first node, `n-1` above the last, otherwise the interval with
`g idx < x ≤ g (idx+1)` — the same cell the scalar `bracket` finds (they may differ only when `x`
is a node, where both neighbouring cells are valid). -/
theorem C15_bracketVec_spec (g : Nat → K) (n : Nat) (hn : 2 ≤ n) (hg : StrictOn n g) (x : K) :
    (x ≤ g 0 → bracketVec g n x = -1) ∧
    (g (n - 1) < x → bracketVec g n x = ((n - 1 : Nat) : Int)) ∧
    (g 0 < x → x ≤ g (n - 1) →
      ∃ idx : Nat, bracketVec g n x = (idx : Int) ∧ idx + 1 < n ∧ g idx < x ∧ x ≤ g (idx + 1)) :=
  bracketVec_spec g n hn hg x

/-! ## Node exactness -/

/-- Every method of OpenMDAO's own (`slinear`, `lagrange2`, `lagrange3`, `akima`, `cubic`), in any
number of dimensions, on strictly increasing grids of any sign, returns the table value at every
grid node — for **every** choice of the bracketing interval that contains the node (whatever the
cached `last_index`), and in particular for a fresh table. -/
theorem C15_node_exact (m : Method) (fix : Bool) (eps : K) (ds : List (Dim K)) (tbl : List Nat → K)
    (is : List Nat) (hg : GridsOK m.minPts ds) (hi : IsNode ds is) :
    (∀ idxs, NodeBracket ds idxs is →
      evalIdx (m.kernel fix eps) ds idxs tbl (nodePoint ds is) = tbl is) ∧
    evalND (m.kernel fix eps) ds tbl (nodePoint ds is) = tbl is := by
  have hk : KNode m.minPts (m.kernel fix eps) := by
    cases m
    · exact slinear_node
    · exact lagrange2_node
    · exact lagrange3_node
    · exact akima_node fix eps
    · exact cubic_node
  have h2 : 2 ≤ m.minPts := by cases m <;> simp [Method.minPts]
  exact ⟨fun idxs hb => evalIdx_node hk ds idxs is tbl hg hb,
    evalIdx_node hk ds _ is tbl hg (bracketAll_node h2 ds is hg hi)⟩

/-- One-dimensional reading: the value at node `i` is `v i`, from either neighbouring interval. -/
theorem C15_node_exact_1d (m : Method) (fix : Bool) (eps : K) (n : Nat) (g v : Nat → K) (idx i : Nat)
    (hn : m.minPts ≤ n) (hg : StrictOn n g) (hi : idx + 1 < n) (hc : i = idx ∨ i = idx + 1) :
    m.kernel fix eps n g v idx (g i) = v i := by
  cases m
  · exact slinear_node n g v idx i hn hg hi hc
  · exact lagrange2_node n g v idx i hn hg hi hc
  · exact lagrange3_node n g v idx i hn hg hi hc
  · exact akima_node fix eps n g v idx i hn hg hi hc
  · exact cubic_node n g v idx i hn hg hi hc

/-! ## Polynomial reproduction -/

/-- Every method reproduces every tensor-product polynomial of its degree per variable
(multilinear for `slinear`, `akima`, `cubic`; quadratic / cubic per variable for `lagrange2` /
`lagrange3`) in any number of dimensions, on strictly increasing grids of any sign, at **every**
point (inside the table and, with extrapolation on, outside), for every in-range choice of the
bracket indices and in particular for a fresh table. -/
theorem C15_reproduce (m : Method) (fix : Bool) (eps : K) (he : 0 ≤ eps) (ds : List (Dim K)) (p : MPoly K)
    (xs : List K) (hg : GridsOK m.minPts ds) (hp : DegOK m.degree ds.length p)
    (hx : xs.length = ds.length) :
    (∀ idxs, IdxOK ds idxs → evalIdx (m.kernel fix eps) ds idxs (polyTbl ds p) xs = polyVal p xs) ∧
    evalND (m.kernel fix eps) ds (polyTbl ds p) xs = polyVal p xs := by
  have h2 : 2 ≤ m.minPts := by cases m <;> simp [Method.minPts]
  exact ⟨fun idxs hi => evalIdx_poly (kernel_rep m fix eps he) ds idxs p xs hg hi hp hx,
    evalIdx_poly (kernel_rep m fix eps he) ds _ p xs hg (bracketAll_idxOK h2 ds xs hg hx) hp hx⟩

/-- Akima on linear data in one dimension (any bracket index, any point). -/
theorem C15_reproduce_akima_1d (fix : Bool) (eps : K) (he : 0 ≤ eps) (n : Nat) (g : Nat → K) (a b : K)
    (idx : Nat) (x : K) (hn : 4 ≤ n) (hg : StrictOn n g) (hi : idx < n) :
    akimaK fix eps n g (fun i => a * g i + b) idx x = a * x + b := by
  have := akima_rep fix eps he n g idx x (fun k => if k = 0 then b else a) hn hg hi
  have h2 : ∀ y, psum (fun k => if k = 0 then b else a) y (1 + 1) = a * y + b := fun y => by
    rw [show (1 + 1 : Nat) = 2 from rfl, psum_two]; simp
  simp only [h2] at this
  exact this

/-- The natural cubic spline on linear data in one dimension: all second derivatives vanish. -/
theorem C15_reproduce_cubic_1d (n : Nat) (g : Nat → K) (a b : K) (idx : Nat) (x : K) (hn : 4 ≤ n)
    (hg : StrictOn n g) (hi : idx < n) :
    cubicK n g (fun i => a * g i + b) idx x = a * x + b ∧
    ∀ i, (cubicSecond n g (fun i => a * g i + b)).getD i 0 = 0 := by
  have := cubic_rep n g idx x (fun k => if k = 0 then b else a) hn hg hi
  have h2 : ∀ y, psum (fun k => if k = 0 then b else a) y (1 + 1) = a * y + b := fun y => by
    rw [show (1 + 1 : Nat) = 2 from rfl, psum_two]; simp
  simp only [h2] at this
  exact ⟨this, cubicSecond_linear (by omega) hg (fun _ => rfl)⟩

/-! ## Bounds check -/

/-- The tolerance `eps` of the pre-check is non-negative when the last grid coordinate is
(or always, for the repaired `1e-14 * |grid[-1]|`). -/
theorem C15_eps_nonneg (absEps : Bool) (c glast : K) (hc : 0 ≤ c)
    (h : absEps = true ∨ 0 ≤ glast) : 0 ≤ tolEps absEps c glast :=
  tolEps_nonneg absEps c glast hc h

/-- With `eps = 1e-14 * |grid[-1]|` (the repaired check), for every grid: the check raises
`OutOfBoundsError` iff some requested coordinate lies outside `[g₀ − e, g_last + e]` of its
dimension, passes iff none does, and never raises anything else. -/
theorem C15_bounds_iff (c : K) (hc : 0 ≤ c) (ds : List (Dim K)) (cols : List (List K)) :
    (checkAll true c ds cols = Check.oob ↔ ¬ AllInBand true c ds cols) ∧
    (checkAll true c ds cols = Check.ok ↔ AllInBand true c ds cols) ∧
    checkAll true c ds cols ≠ Check.crash := by
  have ht : TolOK true c ds := fun d _ => tolEps_nonneg true c _ hc (Or.inl rfl)
  obtain ⟨a, b, d⟩ := checkAll_spec true c ds cols ht
  exact ⟨b, a, d⟩

/-- The check as written (`eps = 1e-14 * grid[-1]`): the same statement needs every grid to end at a
non-negative coordinate. -/
theorem C15_bounds_iff_partial (c : K) (hc : 0 ≤ c) (ds : List (Dim K)) (cols : List (List K))
    (hlast : ∀ d ∈ ds, 0 ≤ d.2 (d.1 - 1)) :
    (checkAll false c ds cols = Check.oob ↔ ¬ AllInBand false c ds cols) ∧
    (checkAll false c ds cols = Check.ok ↔ AllInBand false c ds cols) ∧
    checkAll false c ds cols ≠ Check.crash := by
  have ht : TolOK false c ds := fun d hd => tolEps_nonneg false c _ hc (Or.inr (hlast d hd))
  obtain ⟨a, b, d⟩ := checkAll_spec false c ds cols ht
  exact ⟨b, a, d⟩

/-- Grid `[-5, -4, -2, -1]`. -/
def gridNeg : Nat → Rat := fun i => [(-5 : Rat), -4, -2, -1].getD i 0

/-- Without that hypothesis the statement is false of the current code: on the grid
`[-5, -4, -2, -1]` the in-bounds query at the last node (and at the first node) is neither accepted
nor reported as out of bounds — the code raises `KeyError: pop from an empty set`; the repaired
tolerance accepts both. -/
theorem C15_bounds_crash_counterexample :
    checkDim false (1 / 100000000000000 : Rat) gridNeg 4 [-1] = Check.crash ∧
    checkDim false (1 / 100000000000000 : Rat) gridNeg 4 [-5] = Check.crash ∧
    checkDim true (1 / 100000000000000 : Rat) gridNeg 4 [-1, -5] = Check.ok := by decide +kernel

/-! ## Fixed-dimension tables agree with the general ones -/

/-- `1D/2D/3D-slinear` return what the general `slinear` recursion returns for the same cell.
`ix` is the cell index produced by the fixed-table bracketing (`-1` below the table, else a node
index); `i` the index the general table uses (`0` below the table). -/
theorem C15_fixed_eq_general_slinear
    (nx ny nz : Nat) (gx gy gz : Nat → K) (tbl : List Nat → K) (ix iy iz : Int) (i j k : Nat)
    (x y z : K) (hnx : 2 ≤ nx) (hny : 2 ≤ ny) (hnz : 2 ≤ nz) (hgx : StrictOn nx gx)
    (hgy : StrictOn ny gy) (hgz : StrictOn nz gz) (hi : i < nx) (hj : j < ny) (hk : k < nz)
    (hx : ix = (i : Int) ∨ (ix = -1 ∧ i = 0)) (hy : iy = (j : Int) ∨ (iy = -1 ∧ j = 0))
    (hz : iz = (k : Int) ∨ (iz = -1 ∧ k = 0)) :
    slinear1D nx gx tbl ix x = evalIdx slinearK [(nx, gx)] [i] tbl [x] ∧
    slinear2D nx ny gx gy tbl ix iy x y = evalIdx slinearK [(nx, gx), (ny, gy)] [i, j] tbl [x, y] ∧
    slinear3D nx ny nz gx gy gz tbl ix iy iz x y z =
      evalIdx slinearK [(nx, gx), (ny, gy), (nz, gz)] [i, j, k] tbl [x, y, z] := by
  have ex : fixIdx1 nx ix = slinStart nx i := by
    rcases hx with h | ⟨h, h0⟩
    · rw [h]; exact fixIdx1_nat i (by omega)
    · rw [h, h0]; exact fixIdx1_neg hnx
  have ey : fixIdx1 ny iy = slinStart ny j := by
    rcases hy with h | ⟨h, h0⟩
    · rw [h]; exact fixIdx1_nat j (by omega)
    · rw [h, h0]; exact fixIdx1_neg hny
  have ez : fixIdx1 nz iz = slinStart nz k := by
    rcases hz with h | ⟨h, h0⟩
    · rw [h]; exact fixIdx1_nat k (by omega)
    · rw [h, h0]; exact fixIdx1_neg hnz
  have n1 := hgx.sub_ne (Nat.lt_succ_self (slinStart nx i)) (slinStart_lt hnx hi)
  have n2 := hgy.sub_ne (Nat.lt_succ_self (slinStart ny j)) (slinStart_lt hny hj)
  have n3 := hgz.sub_ne (Nat.lt_succ_self (slinStart nz k)) (slinStart_lt hnz hk)
  exact ⟨slinear1D_eq_aux nx gx tbl ix i x ex,
    slinear2D_eq_aux nx ny gx gy tbl ix iy i j x y ex ey n1 n2,
    slinear3D_eq_aux nx ny nz gx gy gz tbl ix iy iz i j k x y z ex ey ez n1 n2 n3⟩

/-- `1D/2D/3D-lagrange2` and `1D/2D/3D-lagrange3` (cell coefficients in the power basis of the
cell-local coordinate, contracted by `einsum`) return what the general recursion returns for the
same cell. -/
theorem C15_fixed_eq_general_lagrange
    (nx ny nz : Nat) (gx gy gz : Nat → K) (tbl : List Nat → K) (ix iy iz : Int) (i j k : Nat)
    (x y z : K) (hgx : StrictOn nx gx) (hgy : StrictOn ny gy) (hgz : StrictOn nz gz)
    (hx : ix = (i : Int) ∨ (ix = -1 ∧ i = 0)) (hy : iy = (j : Int) ∨ (iy = -1 ∧ j = 0))
    (hz : iz = (k : Int) ∨ (iz = -1 ∧ k = 0)) :
    (3 ≤ nx → 3 ≤ ny → 3 ≤ nz →
      lagrange2_1D nx gx tbl ix x = evalIdx lagrange2K [(nx, gx)] [i] tbl [x] ∧
      lagrange2_2D nx ny gx gy tbl ix iy x y =
        evalIdx lagrange2K [(nx, gx), (ny, gy)] [i, j] tbl [x, y] ∧
      lagrange2_3D nx ny nz gx gy gz tbl ix iy iz x y z =
        evalIdx lagrange2K [(nx, gx), (ny, gy), (nz, gz)] [i, j, k] tbl [x, y, z]) ∧
    (4 ≤ nx → 4 ≤ ny → 4 ≤ nz →
      lagrange3_1D nx gx tbl ix x = evalIdx lagrange3K [(nx, gx)] [i] tbl [x] ∧
      lagrange3_2D nx ny gx gy tbl ix iy x y =
        evalIdx lagrange3K [(nx, gx), (ny, gy)] [i, j] tbl [x, y] ∧
      lagrange3_3D nx ny nz gx gy gz tbl ix iy iz x y z =
        evalIdx lagrange3K [(nx, gx), (ny, gy), (nz, gz)] [i, j, k] tbl [x, y, z]) := by
  constructor
  · intro hnx hny hnz
    have e : ∀ (n : Nat) (ii : Int) (a : Nat), 3 ≤ n → (ii = (a : Int) ∨ (ii = -1 ∧ a = 0)) →
        fixIdx2 n ii = lag2Start n a := by
      intro n ii a hn h
      rcases h with h | ⟨h, h0⟩
      · rw [h]; exact fixIdx2_nat a hn
      · rw [h, h0]; exact fixIdx2_neg hn
    exact ⟨lagrange2_1D_eq_aux hnx hgx tbl ix i x (e nx ix i hnx hx),
      lagrange2_2D_eq_aux hnx hny hgx hgy tbl ix iy i j x y (e nx ix i hnx hx) (e ny iy j hny hy),
      lagrange2_3D_eq_aux hnx hny hnz hgx hgy hgz tbl ix iy iz i j k x y z (e nx ix i hnx hx)
        (e ny iy j hny hy) (e nz iz k hnz hz)⟩
  · intro hnx hny hnz
    have e : ∀ (n : Nat) (ii : Int) (a : Nat), 4 ≤ n → (ii = (a : Int) ∨ (ii = -1 ∧ a = 0)) →
        fixIdx3 n ii = lag3Start n a := by
      intro n ii a hn h
      rcases h with h | ⟨h, h0⟩
      · rw [h]; exact fixIdx3_nat a hn
      · rw [h, h0]; exact fixIdx3_neg hn
    exact ⟨lagrange3_1D_eq_aux hnx hgx tbl ix i x (e nx ix i hnx hx),
      lagrange3_2D_eq_aux hnx hny hgx hgy tbl ix iy i j x y (e nx ix i hnx hx) (e ny iy j hny hy),
      lagrange3_3D_eq_aux hnx hny hnz hgx hgy hgz tbl ix iy iz i j k x y z (e nx ix i hnx hx)
        (e ny iy j hny hy) (e nz iz k hnz hz)⟩

/-- Akima: the vectorized `1D-akima` table (four independent end-condition blocks) and the general
`akima` table (`if … elif …` chain) use the same five slopes — except on a 4-point grid in the
middle interval, where `idx == 1` shadows `idx == ngrid - 3`. -/
theorem C15_fixed_eq_general_akima_partial (n : Nat) (g v : Nat → K) (idx : Nat) (hn : 4 ≤ n)
    (hi : idx + 1 < n) (hne : ¬ (n = 4 ∧ idx = 1)) :
    akimaSlopes false n g v idx = akimaSlopes true n g v idx := by
  unfold akimaSlopes
  simp only [Bool.false_eq_true, if_false, if_true]
  by_cases c0 : idx = 0
  · have e1 : ¬ idx = 1 := by omega
    have e3 : ¬ idx = n - 3 := by omega
    have e2 : ¬ idx = n - 2 := by omega
    simp only [if_pos c0, if_neg e1, if_neg e3, if_neg e2]
  · by_cases c1 : idx = 1
    · have e3 : ¬ idx = n - 3 := by omega
      have e2 : ¬ idx = n - 2 := by omega
      simp only [if_neg c0, if_pos c1, if_neg e3, if_neg e2]
    · by_cases c3 : idx = n - 3
      · have e2 : ¬ idx = n - 2 := by omega
        simp only [if_neg c0, if_neg c1, if_pos c3, if_neg e2]
      · by_cases c2 : idx = n - 2
        · simp only [if_neg c0, if_neg c1, if_neg c3, if_pos c2]
        · simp only [if_neg c0, if_neg c1, if_neg c3, if_neg c2]

/-- Grid `[0, 1, 2, 4]` with values `[1, 3, 2, 7]`. -/
def grid4 : Nat → Rat := fun i => [(0 : Rat), 1, 2, 4].getD i 0
def vals4 : Nat → Rat := fun i => [(1 : Rat), 3, 2, 7].getD i 0

/-- On that 4-point grid at `x = 3/2` the general `akima` table returns `1409/572`, the vectorized
`1D-akima` table `5/2`, and the single-point `1D-akima` path reads an unassigned `m5`
(`UnboundLocalError`, `none` in the model); with the repaired end conditions (`fix = true`) all three
return `5/2`. -/
theorem C15_fixed_akima_counterexample :
    akimaK false (1 / 10 ^ 30 : Rat) 4 grid4 vals4 1 (3 / 2) = 1409 / 572 ∧
    akimaK true (1 / 10 ^ 30 : Rat) 4 grid4 vals4 1 (3 / 2) = 5 / 2 ∧
    akima1D false true (1 / 10 ^ 30 : Rat) 4 grid4 vals4 1 (3 / 2) = some (5 / 2) ∧
    akima1D false false (1 / 10 ^ 30 : Rat) 4 grid4 vals4 1 (3 / 2) = none ∧
    akima1D true false (1 / 10 ^ 30 : Rat) 4 grid4 vals4 1 (3 / 2) = some (5 / 2) := by decide +kernel

/-! ## Non-vacuity: the hypotheses are met by concrete non-trivial instances -/

/-- A strictly increasing all-negative grid. -/
example : StrictOn 4 gridNeg := by
  intro i j hij hj
  have : j = 1 ∨ j = 2 ∨ j = 3 := by omega
  rcases this with rfl | rfl | rfl
  · have : i = 0 := by omega
    subst this; decide +kernel
  · have : i = 0 ∨ i = 1 := by omega
    rcases this with rfl | rfl <;> decide +kernel
  · have : i = 0 ∨ i = 1 ∨ i = 2 := by omega
    rcases this with rfl | rfl | rfl <;> decide +kernel

/-- On it: bracketing from a stale start index, node exactness and quadratic reproduction of
`lagrange2`, linear reproduction of `akima` and `cubic`, and the repaired bounds check. -/
example :
    bracket gridNeg 4 3 (-3) = (1, Flag.inside) ∧
    bracket gridNeg 4 0 (-1) = (2, Flag.inside) ∧
    bracket gridNeg 4 2 (-6) = (0, Flag.below) ∧
    lagrange2K 4 gridNeg (fun i => gridNeg i ^ 2) (bracket0 gridNeg 4 (-3)) (-3) = 9 ∧
    lagrange3K 4 gridNeg (fun i => gridNeg i ^ 3) (bracket0 gridNeg 4 (-3)) (-3) = -27 ∧
    akimaK false (1 / 10 ^ 30 : Rat) 4 gridNeg (fun i => 2 * gridNeg i + 1) 1 (-3) = -5 ∧
    cubicK 4 gridNeg (fun i => 2 * gridNeg i + 1) 1 (-3) = -5 ∧
    cubicK 4 gridNeg vals4 1 (-4) = 3 ∧
    evalND slinearK [(4, gridNeg), (4, grid4)] (fun is => gridNeg (is.getD 0 0) * grid4 (is.getD 1 0))
      [-3, 3] = -9 ∧
    checkAll true (1 / 10 ^ 14 : Rat) [(4, gridNeg)] [[-1, -5, -3]] = Check.ok ∧
    checkAll true (1 / 10 ^ 14 : Rat) [(4, gridNeg)] [[-1, -11 / 2]] = Check.oob := by
  decide +kernel

end OMV.C15
