/-
C08 — Solver scaling never changes physical results.
-/
import OMV.Model.C08
import OMV.Model.Spec
import OMV.Proofs.SpecExpr
import Mathlib.Tactic.FieldSimp
import Mathlib.Tactic.Ring

namespace OMV.C08

open Finset OMV.Spec

variable {K : Type} [Field K]

/-- Scaling is a bijection between physical and solver values whenever `ref ≠ ref0`
(either sign, so also for `ref < ref0`). -/
theorem C08_scale_bijection (a0 a1 x xh : K) (h : a1 ≠ 0) :
    toPhys a0 a1 (toScaled a0 a1 x) = x ∧ toScaled a0 a1 (toPhys a0 a1 xh) = xh := by
  unfold toPhys toScaled
  constructor <;> field_simp <;> ring

/-- A state solves the physical residual equations iff its scaled image solves the scaled ones:
the solver-visible residual is zero exactly when the physical residual is. -/
theorem C08_fixed_points (rr r : K) (h : rr ≠ 0) : resScaled rr r = 0 ↔ r = 0 := by
  unfold resScaled
  constructor
  · intro h0; have := div_eq_zero_iff.mp h0; tauto
  · intro h0; simp [h0]

/-- Forward linear solves: if `x` solves the physical system `A x = b`, the scaled vectors
`x / su`, `b / sr` solve the scaled system `(Sr⁻¹ A Su) x̂ = b̂`; hence any solver working on
scaled vectors returns the scaled image of the physical solution. -/
theorem C08_totals_invariant_fwd (n : Nat) (A : Nat → Nat → K) (su sr x b : Nat → K)
    (hu : ∀ j, su j ≠ 0) (hr : ∀ k, sr k ≠ 0)
    (hx : ∀ k, k < n → sumTo n (fun j => A k j * x j) = b k) :
    ∀ k, k < n → sumTo n (fun j => scaledEntry A su sr k j * linScaled (su j) (x j))
      = linScaled (sr k) (b k) := by
  intro k hk
  have := hx k hk
  simp only [sumTo_eq] at *
  unfold scaledEntry linScaled
  rw [← this, div_eq_mul_inv, Finset.sum_mul]
  apply Finset.sum_congr rfl
  intro j _
  have := hu j; have := hr k
  field_simp

/-- Reverse linear solves: the adjoint system in scaled vectors is `(Su⁻¹ Aᵀ Sr) ŷ = ĉ`. -/
theorem C08_totals_invariant_rev (n : Nat) (A : Nat → Nat → K) (su sr y c : Nat → K)
    (hu : ∀ j, su j ≠ 0) (hr : ∀ k, sr k ≠ 0)
    (hy : ∀ j, j < n → sumTo n (fun k => A k j * y k) = c j) :
    ∀ j, j < n → sumTo n (fun k => scaledEntryRev A su sr k j * linScaled (sr k) (y k))
      = linScaled (su j) (c j) := by
  intro j hj
  have := hy j hj
  simp only [sumTo_eq] at *
  unfold scaledEntryRev linScaled
  rw [← this, div_eq_mul_inv, Finset.sum_mul]
  apply Finset.sum_congr rfl
  intro k _
  have := hu j; have := hr k
  field_simp

/-- Why a solver that factorises the *forward* scaled matrix `M = Sr⁻¹ A Su` must rescale in
reverse mode: the scaled adjoint system `(Su⁻¹ Aᵀ Sr) ŷ = ĉ` is `Mᵀ (Sr² ŷ) = Su² ĉ`
(this is the DirectSolver repair recorded in known_findings.json). -/
theorem C08_direct_rev_identity (n : Nat) (A : Nat → Nat → K) (su sr yh ch : Nat → K)
    (hu : ∀ j, su j ≠ 0) (hr : ∀ k, sr k ≠ 0) (j : Nat) :
    sumTo n (fun k => scaledEntryRev A su sr k j * yh k) = ch j ↔
    sumTo n (fun k => scaledEntry A su sr k j * (sr k ^ 2 * yh k)) = su j ^ 2 * ch j := by
  simp only [sumTo_eq]
  unfold scaledEntryRev scaledEntry
  have e : ∀ k, A k j * su j / sr k * (sr k ^ 2 * yh k) = su j ^ 2 * (A k j * sr k / su j * yh k) := by
    intro k; have := hu j; have := hr k; field_simp
  simp only [e, ← Finset.mul_sum]
  constructor
  · intro h; rw [h]
  · intro h
    have h2 : su j ^ 2 ≠ 0 := pow_ne_zero 2 (hu j)
    exact mul_left_cancel₀ h2 h

/-- An explicit component's linear solve is `d_out = -d_res` in physical units. Copying the
*scaled* vectors instead is correct only when outputs and residuals share their scale. -/
theorem C08_explicit_copy (su sr dr : K) (hu : su ≠ 0) (hr : sr ≠ 0) (hd : dr ≠ 0) :
    linScaled su (-(dr)) = -(linScaled sr dr) ↔ su = sr := by
  unfold linScaled
  constructor
  · intro h
    have h' : dr / su = dr / sr := by
      have := congrArg Neg.neg h; simpa [neg_div] using this
    field_simp at h'
    exact h'.symm
  · intro h; rw [h, neg_div]

example : toPhys (3 : ℚ) (-2) (toScaled 3 (-2) 7) = 7 := by norm_num [toPhys, toScaled]

end OMV.C08
