/-
C19 — Loading a recorded case restores the recorded state.
-/
import OMV.Model.C19
import OMV.Proofs.SpecSweep
import Mathlib.Data.List.Nodup

namespace OMV.C19

open OMV.Spec

variable {K : Type}

theorem loadCase_not_mem (s : Store K) (c : List (Nat × List K)) (w : Nat)
    (h : ∀ e ∈ c, e.1 ≠ w) : loadCase s c w = s w := by
  induction c generalizing s with
  | nil => rfl
  | cons e es ih =>
    simp only [loadCase, List.foldl_cons]
    have := ih (update s e.1 e.2) (fun x hx => h x (List.mem_cons_of_mem _ hx))
    simp only [loadCase] at this
    rw [this]
    have hne : w ≠ e.1 := fun eq => h e (List.mem_cons_self) eq.symm
    simp [update, hne]

/-- **Frame.** Variables that are not in the case keep their value. -/
theorem C19_frame (s : Store K) (c : List (Nat × List K)) (w : Nat)
    (h : ∀ e ∈ c, e.1 ≠ w) : loadCase s c w = s w := loadCase_not_mem s c w h

/-- **Restore.** After `load_case`, every recorded variable reads back its recorded value, provided
the case names each variable once. -/
theorem C19_restore (s : Store K) (c : List (Nat × List K)) (hd : (c.map Prod.fst).Nodup) :
    ∀ e ∈ c, loadCase s c e.1 = e.2 := by
  induction c generalizing s with
  | nil => intro e he; cases he
  | cons a as ih =>
    intro e he
    have hnd : a.1 ∉ as.map Prod.fst ∧ (as.map Prod.fst).Nodup := by
      rw [List.map_cons] at hd; exact List.nodup_cons.mp hd
    simp only [loadCase, List.foldl_cons]
    rcases List.mem_cons.mp he with rfl | hmem
    · have := loadCase_not_mem (update s e.1 e.2) as e.1 (by
        intro x hx heq
        exact hnd.1 (List.mem_map.mpr ⟨x, hx, heq⟩))
      simp only [loadCase] at this
      rw [this]; simp [update]
    · have := ih (update s a.1 a.2) hnd.2 e hmem
      simpa [loadCase] using this

/-- a variable recorded twice with different values cannot be restored to both: the
"each variable once" hypothesis is needed -/
theorem C19_restore_needs_distinct :
    loadCase (fun _ => ([] : List Int)) [(0, [1]), (0, [2])] 0 ≠ [1] := by decide

theorem stepComp_fixed [Add K] [Mul K] [OfNat K 0] (u : Nat → K) (c : Comp K) (h : Solved u c) :
    stepComp u c = u := by
  funext i
  unfold stepComp
  by_cases hi : inRange c i
  · simp [hi, h i hi]
  · simp [hi]

/-- **Re-run.** If the recorded state is converged (every explicit component's outputs equal its
function of the transferred inputs), a run-once pass started from the loaded state leaves every
output where it was: run_model reproduces the recorded outputs. -/
theorem C19_rerun [Add K] [Mul K] [OfNat K 0] (cs : List (Comp K)) (u : Nat → K)
    (h : ∀ c ∈ cs, Solved u c) : sweep u cs = u := by
  induction cs with
  | nil => rfl
  | cons c cs ih =>
    simp only [sweep, List.foldl_cons]
    rw [stepComp_fixed u c (h c (List.mem_cons_self))]
    exact ih (fun c' hc' => h c' (List.mem_cons_of_mem _ hc'))

example : loadCase (fun _ => ([0] : List Int)) [(1, [5, 6]), (3, [7])] 1 = [5, 6] ∧
    loadCase (fun _ => ([0] : List Int)) [(1, [5, 6]), (3, [7])] 2 = [0] := by decide

end OMV.C19
