/-
C03 — Simultaneous-derivative coloring reconstructs every Jacobian entry.
Property theorems only (plus non-vacuity examples).  Helper lemmas: `OMV/Proofs/C03*.lean`.

Reading guide.  `recover C (compress C M)` is the jacobian the framework ends up with when the real
matrix is `M` and the coloring is `C`: `compress` = the colored solves (sums of the columns/rows of
a color), `recover` = the writes of `simul_coloring_jac_setter` followed by `_apply_subtractions`.
"`M` has pattern `P`" is `∀ p, p ∉ P.nz → M p = 0`.  All statements are for every pattern (no size
bound) and every matrix over every commutative ring.
-/
import OMV.Proofs.C03Lin
import OMV.Proofs.C03Greedy
import OMV.Proofs.C03Order
import OMV.Proofs.C03Uni
import OMV.Proofs.C03Scale

namespace OMV.C03

/-! ## Reconstruction is linear; a finite certificate decides it for all matrices -/

/-- `recover ∘ compress` is linear in the matrix: it commutes with every additive map of the value
type (so with sums, differences, scalar multiples, ring homomorphisms, evaluation of symbolic
coefficient vectors). -/
theorem C03_recover_linear {α β : Type} [Zero α] [Add α] [Sub α] [Zero β] [Add β] [Sub β]
    (φ : α → β) (hφ : IsAdditive φ) (C : Coloring) (M : Pos → α) (q : Pos) :
    getAt (recover C (compress C (fun p => φ (M p)))) q = φ (getAt (recover C (compress C M)) q) := by
  rw [recover_compress_hom hφ, getAt_mapJac hφ]

/-- Soundness of the decidable certificate: if the one symbolic run `certify P C` accepts, then for
every commutative ring and every matrix with pattern `P` the colored computation returns exactly
the matrix (every nonzero recovered, nothing else written). -/
theorem C03_certificate {R : Type} [CommRing R] (P : Pattern) (C : Coloring)
    (h : certify P C = true) (M : Pos → R) (hM : ∀ p, p ∉ P.nz → M p = 0) (q : Pos) :
    getAt (recover C (compress C M)) q = M q :=
  certify_sound P C h M hM q

/-- The smallest pattern (found by enumeration) for which `_compute_coloring(J, 'auto',
direct=False)` returns a bidirectional coloring with a subtraction: 2 solves instead of 3. -/
def exPattern : Pattern := { nrows := 3, ncols := 3, nz := [(0, 2), (1, 0), (1, 1), (1, 2), (2, 2)] }

/-- The real coloring of `exPattern` (substitution method). -/
def exColoring : Coloring :=
  { fwd := [[2]], fwdNz := [[], [], [0, 1]], rev := [[1, 2]], revNz := [[], [0, 1], [2]],
    subs := [((2, 2), [(1, 2)])] }

-- non-vacuity: the certificate accepts the real bidirectional coloring with its subtraction, and
-- rejects the same coloring without the subtraction, with the subtraction aimed at the wrong entry,
-- and with rows 1 and 2 wrongly merged with row 0.
example : certify exPattern exColoring = true := by decide +kernel
example : certify exPattern { exColoring with subs := [] } = false := by decide +kernel
example : certify exPattern { exColoring with subs := [((2, 2), [(0, 2)])] } = false := by
  decide +kernel
example : certify exPattern { rev := [[0, 1, 2]], revNz := [[2], [0, 1, 2], [2]] } = false := by
  decide +kernel

/-! ## The greedy coloring and its visiting order -/

/-- `_get_full_disjoint_col_matrix_cols`, for every adjacency structure and every visiting order:
no group is empty; inside a group no member is a neighbour of a later member (so with a symmetric
adjacency no two members are structurally non-orthogonal); the groups together contain exactly the
visited columns, each as often as it was visited (so each once when the order has no repetition);
and there are at most as many groups as visited columns. -/
theorem C03_greedy_proper (adj : Nat → List Nat) (order : List Nat) :
    (∀ g ∈ greedyColor adj order, g ≠ []) ∧
    (∀ g ∈ greedyColor adj order, g.Pairwise fun a b => a ∉ adj b) ∧
    (greedyColor adj order).flatten.Perm order ∧
    (greedyColor adj order).length ≤ order.length := by
  have h := greedyFrom_spec adj order [] (by simp) (by simp)
  simpa [greedyColor_eq, GroupOK] using h

/-- `_order_by_ID`: the loop never revisits a column (a visited column sits at `-ncols` plus at most
`ncols - 1` later increments, below every unvisited column), so the visiting order is a permutation
of the columns that occur in the adjacency matrix — for every adjacency structure. -/
theorem C03_orderByID_visits_once (adj : Nat → List Nat) (n : Nat) :
    (orderByID adj n).Perm (markedCols adj n) ∧ (orderByID adj n).Nodup := by
  have h := orderByID_perm adj n
  exact ⟨h, h.nodup_iff.mpr (markedCols_nodup adj n)⟩

-- non-vacuity: ties go to the lowest index (column 0), then its neighbour 3 has the highest
-- incidence degree and jumps the queue.
example : orderByID (adjOf (adjList ⟨3, 4, [(0, 0), (0, 3), (1, 1), (1, 3), (2, 2)]⟩)) 4
    = [0, 3, 1, 2] := by decide +kernel
example : fwdGroups ⟨3, 4, [(0, 0), (0, 3), (1, 1), (1, 3), (2, 2)]⟩ = [[0, 1, 2], [3]] := by
  decide +kernel

/-- Columns of the pattern that hold a nonzero. -/
def nonzeroCols (P : Pattern) : List Nat := (List.range P.ncols).filter fun c => P.nz.any fun p => p.2 == c

/-- `_compute_coloring(J, 'fwd')` assigns every column holding a nonzero to exactly one color (the
groups, concatenated, are a permutation of those columns), no color is empty, two columns of one
color never share a nonzero row, and the stored nonzero rows are those of the pattern. -/
theorem C03_fwd_partition (P : Pattern) (hw : P.wf = true) :
    (colorFwd P).fwd.flatten.Perm (nonzeroCols P) ∧
    (∀ g ∈ (colorFwd P).fwd, g ≠ []) ∧
    (∀ g ∈ (colorFwd P).fwd, ∀ a ∈ g, ∀ b ∈ g, a ≠ b → ∀ r, ¬ ((r, a) ∈ P.nz ∧ (r, b) ∈ P.nz)) := by
  obtain ⟨hne, _, hperm, _⟩ := fwdGroups_spec P
  refine ⟨?_, hne, (colorFwd_proper P hw).orth⟩
  refine hperm.trans (List.Perm.of_eq ?_)
  unfold markedCols nonzeroCols
  apply List.filter_congr
  intro c hc
  have hcn : c < P.ncols := List.mem_range.mp hc
  by_cases hnz : ∃ p ∈ P.nz, p.2 = c
  · obtain ⟨⟨r, c'⟩, hp, rfl⟩ := hnz
    have h1 := (mem_markedCols.mp (marked_of_nz hw hp)).2
    have h2 : (P.nz.any fun p => p.2 == c') = true := List.any_eq_true.mpr ⟨(r, c'), hp, by simp⟩
    rw [h1, h2]
  · have h2 : (P.nz.any fun p => p.2 == c) = false := by
      rw [List.any_eq_false]
      intro p hp hpc
      exact hnz ⟨p, hp, by simpa using hpc⟩
    have h1 : isMarked (adjOf (adjList P)) P.ncols c = false := by
      cases hm : isMarked (adjOf (adjList P)) P.ncols c
      · rfl
      · exfalso
        unfold isMarked at hm
        obtain ⟨c0, _, hc0⟩ := List.any_eq_true.mp hm
        have : c ∈ adjOf (adjList P) c0 := by simpa using hc0
        obtain ⟨_, _, r, _, _, hr⟩ := mem_adjOf.mp this
        exact hnz ⟨(r, c), hr, rfl⟩
    rw [h1, h2]

/-! ## Unidirectional colorings are exact and never cost more than no coloring -/

/-- `_compute_coloring(J, 'fwd')` and `_compute_coloring(J, 'rev')`: for every pattern and every matrix
with that pattern the colored computation returns the matrix, and the number of colors (linear
solves) is at most the number of columns (fwd) resp. rows (rev), i.e. never more than uncolored. -/
theorem C03_unidirectional_exact {R : Type} [CommRing R] (P : Pattern) (hw : P.wf = true)
    (M : Pos → R) (hM : ∀ p, p ∉ P.nz → M p = 0) :
    (∀ q, getAt (recover (colorFwd P) (compress (colorFwd P) M)) q = M q) ∧
    (∀ q, getAt (recover (colorRev P) (compress (colorRev P) M)) q = M q) ∧
    (colorFwd P).totalSolves ≤ P.ncols ∧ (colorRev P).totalSolves ≤ P.nrows := by
  refine ⟨fun q => properFwd_exact P _ (colorFwd_proper P hw) M hM q, ?_, ?_, ?_⟩
  · intro q
    have hp := colorFwd_proper P.transpose (wf_transpose hw)
    have hM' : ∀ p, p ∉ P.transpose.nz → M (swapPos p) = 0 :=
      fun p hp => hM _ (fun h => hp (mem_transpose.mpr h))
    have := properFwd_exact P.transpose _ hp (fun p => M (swapPos p)) hM' (swapPos q)
    have e := recover_rev_eq (fwdGroups P.transpose)
      ((List.range P.nrows).map (colRows P.transpose)) M q
    exact e.trans this
  · have := (fwdGroups_spec P).2.2.2
    simpa [Coloring.totalSolves, colorFwd] using this
  · have := (fwdGroups_spec P.transpose).2.2.2
    simpa [Coloring.totalSolves, colorRev, Pattern.transpose] using this

-- non-vacuity: a well-formed non-trivial pattern and a matrix supported on it
example : (⟨3, 4, [(0, 0), (0, 3), (1, 1), (1, 3), (2, 2)]⟩ : Pattern).wf = true ∧
    (colorFwd ⟨3, 4, [(0, 0), (0, 3), (1, 1), (1, 3), (2, 2)]⟩).fwd = [[0, 1, 2], [3]] ∧
    (colorRev ⟨3, 4, [(0, 0), (0, 3), (1, 1), (1, 3), (2, 2)]⟩).rev = [[0, 2], [1]] := by
  decide +kernel

/-! ## Mode `'auto'` -/

/-- The fallback logic of `_compute_coloring(J, 'auto')` returns one of the three candidates and never
one that needs more solves than the forward or the reverse coloring. -/
theorem C03_auto_not_worse (b f r : Coloring) :
    (chooseBest b f r).totalSolves ≤ f.totalSolves ∧
    (chooseBest b f r).totalSolves ≤ r.totalSolves ∧
    (chooseBest b f r = b ∨ chooseBest b f r = f ∨ chooseBest b f r = r) := by
  unfold chooseBest
  dsimp only
  by_cases h1 : b.totalSolves ≥ f.totalSolves
  · rw [if_pos h1]
    by_cases h2 : f.totalSolves > r.totalSolves
    · rw [if_pos h2]; exact ⟨by omega, by omega, Or.inr (Or.inr rfl)⟩
    · rw [if_neg h2]; exact ⟨by omega, by omega, Or.inr (Or.inl rfl)⟩
  · rw [if_neg h1]
    by_cases h2 : b.totalSolves > r.totalSolves
    · rw [if_pos h2]; exact ⟨by omega, by omega, Or.inr (Or.inr rfl)⟩
    · rw [if_neg h2]; exact ⟨by omega, by omega, Or.inl rfl⟩

/-- Mode `'auto'` for every pattern: whatever `MNCO_bidir` returned, the coloring that is kept needs
at most `min(nrows, ncols)` solves (never more than the uncolored computation in the cheaper
direction), and if the bidirectional candidate passes the certificate the kept coloring is exact
for every matrix with the pattern. -/
theorem C03_auto_exact {R : Type} [CommRing R] (P : Pattern) (hw : P.wf = true) (bidir : Coloring)
    (M : Pos → R) (hM : ∀ p, p ∉ P.nz → M p = 0) :
    (colorAuto P bidir).totalSolves ≤ min P.nrows P.ncols ∧
    (certify P bidir = true →
      ∀ q, getAt (recover (colorAuto P bidir) (compress (colorAuto P bidir) M)) q = M q) := by
  obtain ⟨hf, hr, hcf, hcr⟩ := C03_unidirectional_exact P hw M hM
  obtain ⟨h1, h2, h3⟩ := C03_auto_not_worse bidir (colorFwd P) (colorRev P)
  refine ⟨?_, ?_⟩
  · unfold colorAuto; omega
  · intro hc q
    unfold colorAuto
    rcases h3 with e | e | e <;> rw [e]
    · exact C03_certificate P bidir hc M hM q
    · exact hf q
    · exact hr q

example : colorAuto exPattern exColoring = exColoring := by decide +kernel

/-! ## Scaling of the total jacobian and the subtractions -/

/-- If the subtractions are applied before the elementwise unit/driver scaling (`late = false`), a
certified coloring returns the scaled matrix, for every scaling. -/
theorem C03_scaled_exact {R : Type} [CommRing R] (P : Pattern) (C : Coloring)
    (h : certify P C = true) (M : Pos → R) (hM : ∀ p, p ∉ P.nz → M p = 0) (s : Pos → R) (q : Pos) :
    getAt (recoverScaled false C s (compress C M)) q = M q * s q := by
  show getAt (scaleJac s (recover C (compress C M))) q = _
  rw [getAt_scaleJac, C03_certificate P C h M hM q]

/-- The code as it is (`late = true`: scaling first, subtractions on the scaled values) is exact
under the extra hypothesis that every subtraction combines positions with one common scale factor
(in particular for colorings without subtractions: fwd, rev, bidirectional-direct). -/
theorem C03_scaled_late_partial {R : Type} [CommRing R] (P : Pattern) (C : Coloring)
    (h : certify P C = true) (M : Pos → R) (hM : ∀ p, p ∉ P.nz → M p = 0) (s : Pos → R)
    (hU : ∀ sub ∈ C.subs, ∀ k ∈ sub.2, s k = s sub.1) (q : Pos) :
    getAt (recoverScaled true C s (compress C M)) q = M q * s q := by
  show getAt (applySubs (scaleJac s (rawJac C (compress C M))) C.subs) q = _
  rw [applySubs_scaleJac s C.subs hU, getAt_scaleJac]
  exact congrArg (· * s q) (C03_certificate P C h M hM q)

/-- Without that hypothesis the statement is false of the current order of operations: the certified
coloring `exColoring`, the all-ones matrix on its pattern and a response scaler of 2 on row 2 give
3 at position (2, 2) instead of 2. -/
theorem C03_scaled_late_counterexample :
    certify exPattern exColoring = true ∧
    getAt (recoverScaled true exColoring (fun p => if p.1 = 2 then (2 : Int) else 1)
      (compress exColoring (fun p => if exPattern.nz.contains p then (1 : Int) else 0))) (2, 2) = 3 ∧
    getAt (recoverScaled false exColoring (fun p => if p.1 = 2 then (2 : Int) else 1)
      (compress exColoring (fun p => if exPattern.nz.contains p then (1 : Int) else 0))) (2, 2) = 2 := by
  decide +kernel

end OMV.C03
