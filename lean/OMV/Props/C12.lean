/-
C12 — FD and complex-step approximations are faithful and side-effect free.
Property theorems only (plus non-vacuity examples).  The coefficient table
`OMV.C12.Generated.fdTable` is regenerated from /repo on every run; the theorems below that mention
it are re-checked by the kernel on whatever was extracted.

Full-strength statements that are false of the current code and are therefore kept as
`_partial` + counterexample:

* "after any approximation, *including one left by an exception in a run*, the three vectors equal
  the saved ones" — holds for `Cfg.restoreOnRaise = true` (`C12_state_restored`); for the code as
  it is: `C12_state_restored_partial` + `C12_state_not_restored_on_raise`;
* "colored = uncolored for any step_calc" — the colored runs use the approximation datum of the
  first colored `wrt` for every column: `C12_colored_eq_partial` (same datum) +
  `C12_colored_ne_uncolored_rel_step`.
-/
import OMV.Model.C12
import OMV.Generated.C12FdTable
import OMV.Proofs.C12
import OMV.Proofs.C12Machine
import OMV.Proofs.C12Table
import Mathlib.Tactic.NormNum

set_option linter.unusedSectionVars false
set_option linter.unusedVariables false

namespace OMV.C12

open OMV.Spec (Dual Expr)
open OMV.C12.Generated

/-! ## the regenerated table -/

/-- Kernel check on the regenerated table: every row satisfies the order conditions of the order it
is filed under (consistency `c₀ + Σcᵢ = 0`, `Σcᵢδᵢ = 1`, and `Σcᵢδᵢᵏ = 0` for `2 ≤ k ≤ order`,
equally many deltas and coefficients), and every form of `DEFAULT_ORDER` has its row. -/
theorem C12_table_checked :
    (fdTable.all (fun e => orderOK e.1.2 e.2) &&
     defaultOrderTable.all (fun d => (fdLookup fdTable d.1 d.2).isSome)) = true := table_checked

section Order

variable {K : Type} [Field K] [CharZero K]

/-- **Taylor identity of the difference quotient** for an arbitrary coefficient row, over any
field, for every step `h ≠ 0` and every cubic `f`:
`fdApply = m₀/h·f(x) + m₁·f'(x) + h·m₂·f''(x)/2 + h²·m₃·f'''/6`
(written without division: `f''/2 = a₂ + 3a₃x`, `f'''/6 = a₃`). -/
theorem C12_fd_taylor_identity {F : Type} [Field F] (r : FdRow F) (a0 a1 a2 a3 x h : F) (hh : h ≠ 0) :
    fdApply r h (cubic a0 a1 a2 a3) x
      = moment0 r / h * cubic a0 a1 a2 a3 x + moment r 1 * cubic' a1 a2 a3 x
          + h * moment r 2 * (a2 + 3 * a3 * x) + h ^ 2 * moment r 3 * a3 :=
  fdApply_cubic r a0 a1 a2 a3 x h hh

/-- **Order conditions, on the regenerated table**: every row is exact on affine functions, and a
row of order ≥ 2 is exact on quadratics — for every `h ≠ 0`, at every point, in every field of
characteristic zero. -/
theorem C12_order_conditions (e : (String × Nat) × FdRow Rat) (he : e ∈ fdTable)
    (h : K) (hh : h ≠ 0) (a0 a1 a2 a3 x : K) :
    (a2 = 0 → a3 = 0 → fdApply (castRow e.2) h (cubic a0 a1 a2 a3) x = cubic' a1 a2 a3 x) ∧
    (2 ≤ e.1.2 → a3 = 0 → fdApply (castRow e.2) h (cubic a0 a1 a2 a3) x = cubic' a1 a2 a3 x) := by
  obtain ⟨h0, h1, h2, _⟩ := orderOK_spec e.1.2 e.2 (table_orderOK e he)
  have e0 : moment0 (castRow e.2 : FdRow K) = 0 := by rw [moment0_cast, h0]; simp
  have e1 : moment (castRow e.2 : FdRow K) 1 = 1 := by rw [moment_cast, h1]; simp
  constructor
  · intro ha2 ha3
    rw [fdApply_cubic _ _ _ _ _ _ _ hh, e0, e1, ha2, ha3]; ring
  · intro hp ha3
    have e2 : moment (castRow e.2 : FdRow K) 2 = 0 := by rw [moment_cast, h2 hp]; simp
    rw [fdApply_cubic _ _ _ _ _ _ _ hh, e0, e1, e2, ha3]; ring

/-- **forward difference**: exact derivative plus the truncation term `h·f''(x)/2 + h²·f'''/6`,
exactly, on cubics (so: exact on affine `f`, remainder `h·f''/2` on quadratics). -/
theorem C12_truncation_forward (r : FdRow Rat)
    (hr : rowFor fdTable defaultOrderTable "forward" = some r)
    (h : K) (hh : h ≠ 0) (a0 a1 a2 a3 x : K) :
    fdApply (castRow r) h (cubic a0 a1 a2 a3) x
      = cubic' a1 a2 a3 x + h * cubic'' a2 a3 x / 2 + h ^ 2 * cubic''' a3 / 6 := by
  have hm : formMoments "forward" = some (0, 1, 1, 1) := by decide +kernel
  unfold formMoments at hm
  rw [hr] at hm
  simp only [Option.map_some, Option.some.injEq] at hm
  obtain ⟨e0, e1, e2, e3⟩ := castMoments (K := K) r _ _ _ _ hm
  rw [fdApply_cubic _ _ _ _ _ _ _ hh, e0, e1, e2, e3]
  simp only [cubic'', cubic''', Rat.cast_zero, Rat.cast_one]
  field_simp
  ring

/-- **backward difference**: remainder `−h·f''(x)/2 + h²·f'''/6`, exactly, on cubics. -/
theorem C12_truncation_backward (r : FdRow Rat)
    (hr : rowFor fdTable defaultOrderTable "backward" = some r)
    (h : K) (hh : h ≠ 0) (a0 a1 a2 a3 x : K) :
    fdApply (castRow r) h (cubic a0 a1 a2 a3) x
      = cubic' a1 a2 a3 x - h * cubic'' a2 a3 x / 2 + h ^ 2 * cubic''' a3 / 6 := by
  have hm : formMoments "backward" = some (0, 1, -1, 1) := by decide +kernel
  unfold formMoments at hm
  rw [hr] at hm
  simp only [Option.map_some, Option.some.injEq] at hm
  obtain ⟨e0, e1, e2, e3⟩ := castMoments (K := K) r _ _ _ _ hm
  rw [fdApply_cubic _ _ _ _ _ _ _ hh, e0, e1, e2, e3]
  simp only [cubic'', cubic''', Rat.cast_zero, Rat.cast_one, Rat.cast_neg]
  field_simp
  ring

/-- **central difference**: exact on quadratics, remainder `h²·f'''/6`, exactly, on cubics. -/
theorem C12_truncation_central (r : FdRow Rat)
    (hr : rowFor fdTable defaultOrderTable "central" = some r)
    (h : K) (hh : h ≠ 0) (a0 a1 a2 a3 x : K) :
    fdApply (castRow r) h (cubic a0 a1 a2 a3) x
      = cubic' a1 a2 a3 x + h ^ 2 * cubic''' a3 / 6 := by
  have hm : formMoments "central" = some (0, 1, 0, 1) := by decide +kernel
  unfold formMoments at hm
  rw [hr] at hm
  simp only [Option.map_some, Option.some.injEq] at hm
  obtain ⟨e0, e1, e2, e3⟩ := castMoments (K := K) r _ _ _ _ hm
  rw [fdApply_cubic _ _ _ _ _ _ _ hh, e0, e1, e2, e3]
  simp only [cubic''', Rat.cast_zero, Rat.cast_one]
  field_simp
  ring

-- non-vacuity: the three forms have rows, and a concrete cubic at a concrete point
example : (rowFor fdTable defaultOrderTable "forward").isSome ∧
    (rowFor fdTable defaultOrderTable "backward").isSome ∧
    (rowFor fdTable defaultOrderTable "central").isSome ∧
    rowFor fdTable defaultOrderTable "sideways" = none := by decide +kernel

example : ∃ r, rowFor fdTable defaultOrderTable "forward" = some r ∧
    fdApply r (1/4 : Rat) (fun t => 1 + 2 * t + 3 * t * t + t * t * t) 2 = 26 + (1/4) * 18 / 2 + (1/16) * 6 / 6 :=
  ⟨{ deltas := [1], coeffs := [1], current := -1 }, by decide +kernel, by decide +kernel⟩

end Order

/-! ## complex step -/

/-- **complex step is exact**: for every polynomial expression, every point and every `h ≠ 0`,
the dual (imaginary) part at `x + ε·h·e_j` times `1/h` is the symbolic partial derivative. -/
theorem C12_cs_exact {K : Type} [Field K] (e : Expr K) (env : Nat → K) (j : Nat) (h : K)
    (hh : h ≠ 0) : csApply e env j h = Expr.eval env (Expr.diff j e) := by
  unfold csApply
  have := OMV.Spec.eval_dual env (fun v => if v = j then h else 0) e
  rw [this]
  simp only [evalD_indicator]
  field_simp

example : csApply (Expr.mul (Expr.var 0) (Expr.mul (Expr.var 0) (Expr.var 1)))
    (fun i => if i = 0 then (3 : Rat) else 5) 0 (1/1000) = 30 := by decide +kernel

/-! ## step size -/

/-- **the step used is admissible**: in every `rel_*` branch it is `≥ minimum_step > 0`;
with `abs` it is the given step (so nonzero when the given step is). -/
theorem C12_step_positive {K : Type} [Field K] [LinearOrder K] [IsStrictOrderedRing K]
    (sc : StepCalc) (step minStep : K) (v : List K) (nrm : K) (loc : Nat) (h : K)
    (hmin : 0 < minStep) (hs : stepAt sc step minStep v nrm loc = some h) :
    (sc ≠ StepCalc.abs → minStep ≤ h ∧ 0 < h) ∧ (sc = StepCalc.abs → h = step) := by
  cases sc with
  | abs =>
    simp only [stepAt, stepScalar, Option.some.injEq] at hs
    exact ⟨fun hne => absurd rfl hne, fun _ => hs.symm⟩
  | relAvg =>
    simp only [stepAt, stepScalar, Option.some.injEq] at hs
    have hge : minStep ≤ h := by rw [← hs]; exact clampMin_ge _ _
    exact ⟨fun _ => ⟨hge, lt_of_lt_of_le hmin hge⟩, fun hc => by cases hc⟩
  | relLegacy =>
    simp only [stepAt, stepScalar, Option.some.injEq] at hs
    have hge : minStep ≤ h := by rw [← hs]; exact clampMin_ge _ _
    exact ⟨fun _ => ⟨hge, lt_of_lt_of_le hmin hge⟩, fun hc => by cases hc⟩
  | relElement =>
    simp only [stepAt] at hs
    have hge : minStep ≤ h := stepVector_ge step minStep v loc h hs
    exact ⟨fun _ => ⟨hge, lt_of_lt_of_le hmin hge⟩, fun hc => by cases hc⟩

example : stepAt StepCalc.relElement (1/16 : Rat) (1/8) [1, 0, -4] 0 1 = some (1/8) ∧
    stepAt StepCalc.relElement (1/16 : Rat) (1/8) [1, 0, -4] 0 2 = some (1/4) ∧
    stepAt StepCalc.relAvg (1/16 : Rat) (1/8) [1, 0, -5] 0 0 = some (1/8) ∧
    stepAt StepCalc.relLegacy (1/16 : Rat) (1/8) [3, 4] 5 0 = some (5/16) := by decide +kernel

/-! ## state restoration -/

section State

variable {K : Type} [Field K] [DecidableEq K]

/-- **side-effect freedom, every exit** (patched `finally`, `restoreOnRaise = true`): after an FD
or CS approximation — completed or aborted by an exception in any run — inputs, outputs and
residuals are the saved ones. -/
theorem C12_state_restored (cfg : Cfg) (hc : cfg.restoreOnRaise = true) (total : Bool)
    (jobs : List (Job K)) (st0 : St K) :
    (∀ run : Run K, (fdApprox cfg run total jobs st0).1 = st0) ∧
    (∀ (run : Run (Dual K)) (h : K), (csApprox cfg run total h jobs st0).1 = st0) :=
  ⟨fun run => fdApprox_restored_cfg cfg hc run total jobs st0,
   fun run h => csApprox_restored_cfg cfg hc run total h jobs st0⟩

/-- **side-effect freedom, the code as it is** (any `cfg`): whenever the approximation completes
(returns its columns) the three vectors are the saved ones — whatever the runs did to them in
between, in whatever order the columns were taken; and it completes whenever no run raises. -/
theorem C12_state_restored_partial (cfg : Cfg) (total : Bool) (jobs : List (Job K)) (st0 : St K) :
    (∀ run : Run K, (fdApprox cfg run total jobs st0).2.isSome →
        (fdApprox cfg run total jobs st0).1 = st0) ∧
    (∀ (run : Run (Dual K)) (h : K), (csApprox cfg run total h jobs st0).2.isSome →
        (csApprox cfg run total h jobs st0).1 = st0) ∧
    (∀ run : Run K, NeverRaises run → (fdApprox cfg run total jobs st0).2.isSome) ∧
    (∀ (run : Run (Dual K)) (h : K), NeverRaises run →
        (csApprox cfg run total h jobs st0).2.isSome) :=
  ⟨fun run => fdApprox_restored_of_some cfg run total jobs st0,
   fun run h => csApprox_restored_of_some cfg run total h jobs st0,
   fun run hr => fdApprox_completes cfg hr total jobs st0,
   fun run h hr => csApprox_completes cfg hr total h jobs st0⟩

end State

/-- an explicit component `y = x²` whose `compute` raises when `x > 1` (`apply_nonlinear` has
already overwritten the residual with `-outputs` at that point) -/
def cexRun : Run Rat := fun st =>
  if 1 < st.ins 0 then .error { st with res := fun i => - st.outs i }
  else .ok { st with res := fun i => if i = 0 then st.ins 0 * st.ins 0 - st.outs 0 else 0 }

def cexSt : St Rat :=
  { ins := fun i => if i = 0 then 1 else 0, outs := fun i => if i = 0 then 1 else 0,
    res := fun _ => 0 }

def cexJobs : List (Job Rat) :=
  [{ info := [(Vec.input, [0])],
     pd := pointData false { deltas := [1], coeffs := [1], current := -1 } (1/2),
     emit := [(0, none)] }]

/-- **counterexample for the code as it is** (`restoreOnRaise = false`): a forward difference whose
perturbed evaluation raises leaves the input perturbed (`1 + h`) and the residual overwritten, for
FD; for CS the residual is left overwritten. -/
theorem C12_state_not_restored_on_raise :
    (fdApprox ⟨false⟩ cexRun false cexJobs cexSt).1.ins 0 = 3/2 ∧
    (fdApprox ⟨false⟩ cexRun false cexJobs cexSt).1.res 0 = -1 ∧
    cexSt.ins 0 = 1 ∧ cexSt.res 0 = 0 ∧
    (fdApprox ⟨false⟩ cexRun false cexJobs cexSt).2 = none ∧
    (csApprox ⟨false⟩
      (fun st => if 0 < (st.ins 0).du then .error { st with res := fun i => - st.outs i }
                 else .ok st) false (1/2) cexJobs cexSt).1.res 0 = -1 ∧
    (fdApprox ⟨true⟩ cexRun false cexJobs cexSt).1.ins 0 = 1 := by
  decide +kernel

/-! ## the machine computes the difference quotients -/

section Machine

variable {K : Type} [Field K] [DecidableEq K]

/-- **What the run-point machine returns** for a system whose residuals are a function `F` of its
inputs (and are current: `res = F ins`): the vectors unchanged and, for every job, the columns
`pointCol` — sums of `F(x + δ·1_idxs)·coeff` taken at the *saved* point `x`, independent of the
order of the jobs and of what earlier jobs did. -/
theorem C12_machine_columns (cfg : Cfg) (F : (Nat → K) → Nat → K) (st0 : St K)
    (hres : st0.res = F st0.ins)
    (specs : List (List Nat × PointData K × List (Nat × Option (List Nat)))) :
    fdApprox cfg (runOf F) false (specs.map mkJob) st0
      = (st0, some (specs.flatMap (fun s =>
          emitCols s.2.2 (fun r => pointCol F st0.ins s.1 s.2.1 r)))) := by
  unfold fdApprox
  simp only [fdJobs_runOf F st0 hres, List.nil_append]

/-- an uncolored column entry is the scalar difference quotient `fdApply` of row `r` of `F` along
coordinate `j` (both scalings of the coefficients, `/h` and `*(1/h)`) -/
theorem C12_uncolored_entry_is_fdApply (F : (Nat → K) → Nat → K) (x : Nat → K) (row : FdRow K)
    (h : K) (b : Bool) (j r : Nat) :
    uncoloredEntry F x (pointData b row h) j r = fdApply row h (fun t => F (upd x j t) r) (x j) := by
  rw [uncoloredEntry_eq_fdCombine]
  unfold fdApply
  cases b
  · rfl
  · rw [pointData_relElem]

end Machine

/-! ## colored = uncolored -/

section Colored

variable {K : Type} [Field K] [CharZero K] [DecidableEq K]

/-- **colored FD = uncolored FD** (partial: the colored runs and the uncolored runs use the *same*
approximation datum `pointData b row h`, `row` any row of the regenerated table — the situation
for `step_calc='abs'` with one step and form for all colored columns).
If the color passes the structural certificate (every row that structurally depends on a column is
in that column's `nzrows`; `nzrows` of different columns of the color are disjoint) then every
entry of every column recovered from the simultaneous perturbation equals the entry computed by
perturbing that column alone. -/
theorem C12_colored_eq_partial (e : (String × Nat) × FdRow Rat) (he : e ∈ fdTable) (h : K)
    (hh : h ≠ 0) (b : Bool) (F : (Nat → K) → Nat → K) (x : Nat → K) (dep : Nat → List Nat)
    (nrows : Nat) (color : List (Nat × List Nat)) (hdep : ∀ r, DependsOnlyOn F r (dep r))
    (hc : certifyColor dep nrows color = true) :
    ∀ jn ∈ color, ∀ r, r < nrows →
      coloredEntry F x (pointData b (castRow e.2) h) (color.map (·.1)) jn.2 r
        = uncoloredEntry F x (pointData b (castRow e.2) h) jn.1 r := by
  have h0 := (orderOK_spec e.1.2 e.2 (table_orderOK e he)).1
  have e0 : moment0 (castRow e.2 : FdRow K) = 0 := by rw [moment0_cast, h0]; simp
  exact colored_eq_uncolored F x _ dep nrows color hdep
    (coeffSum_pointData (castRow e.2) h hh b e0) hc

/-- **columns left out of the coloring**: a column `j` that is in no color is not approximated at
all (its jacobian column stays zero).  Under the cover certificate such a column is read by no row,
and then the uncolored difference quotient is zero as well — so the whole colored jacobian equals
the whole uncolored one. -/
theorem C12_uncolored_zero_outside_coloring (e : (String × Nat) × FdRow Rat) (he : e ∈ fdTable)
    (h : K) (hh : h ≠ 0) (b : Bool) (F : (Nat → K) → Nat → K) (x : Nat → K) (dep : Nat → List Nat)
    (nrows ncols : Nat) (colors : List (List (Nat × List Nat)))
    (hdep : ∀ r, DependsOnlyOn F r (dep r)) (hc : certifyCover dep nrows ncols colors = true)
    (j : Nat) (hj : j < ncols) (hnot : ∀ col ∈ colors, ∀ jn ∈ col, jn.1 ≠ j) :
    ∀ r, r < nrows → uncoloredEntry F x (pointData b (castRow e.2) h) j r = 0 := by
  have h0 := (orderOK_spec e.1.2 e.2 (table_orderOK e he)).1
  have e0 : moment0 (castRow e.2 : FdRow K) = 0 := by rw [moment0_cast, h0]; simp
  intro r hr
  exact uncolored_zero_of_independent F x _ (dep r) j r (hdep r)
    (certifyCover_spec dep nrows ncols colors hc j hj hnot r hr)
    (coeffSum_pointData (castRow e.2) h hh b e0)

example : certifyCover (fun r => [r]) 2 3 [[(0, [0]), (1, [1])]] = true ∧
    certifyCover (fun r => [r]) 3 3 [[(0, [0]), (1, [1])]] = false := by decide +kernel

/-- **colored CS = uncolored CS** for a system evaluated over dual numbers that maps real points to
real values. -/
theorem C12_colored_eq_cs (F : (Nat → Dual K) → Nat → Dual K) (x : Nat → K) (h : K)
    (dep : Nat → List Nat) (nrows : Nat) (color : List (Nat × List Nat))
    (hdep : ∀ r, DependsOnlyOn F r (dep r)) (hreal : ∀ r, (F (dlift x) r).du = 0)
    (hc : certifyColor dep nrows color = true) :
    ∀ jn ∈ color, ∀ r, r < nrows →
      csColoredEntry F x h (color.map (·.1)) jn.2 r = csPointCol F x [jn.1] h r :=
  cs_colored_eq_uncolored F x h dep nrows color hdep hreal hc

/-- two independent squares `y_r = x_r²` -/
def sqF : (Nat → Rat) → Nat → Rat := fun x r => x r * x r
def sqX : Nat → Rat := fun i => if i = 0 then 1 else if i = 1 then 4 else 0

-- non-vacuity of the certificate: a diagonal 2×2 system, both columns in one color
example : certifyColor (fun r => [r]) 2 [(0, [0]), (1, [1])] = true ∧
    certifyColor (fun r => if r = 0 then [0, 1] else [r]) 2 [(0, [0]), (1, [1])] = false := by
  decide +kernel

/-- **counterexample for "any step_calc"** (the code as it is): two scalar inputs `x₀ = 1`,
`x₁ = 4` in one color, forward difference, `step_calc='rel_avg'`, `step = 1/16`.  The colored run
uses the datum of the first colored `wrt` (`h = 1/16`) for both columns; the uncolored run of
`x₁` uses its own (`h = 1/4`): `8 + 1/16 ≠ 8 + 1/4`. -/
theorem C12_colored_ne_uncolored_rel_step :
    ∃ row hc hu, rowFor fdTable defaultOrderTable "forward" = some row ∧
      coloredStep StepCalc.relAvg (1/16 : Rat) (1/1000) [([1], 1), ([4], 4)] = some hc ∧
      stepAt StepCalc.relAvg (1/16 : Rat) (1/1000) [4] 4 0 = some hu ∧
      certifyColor (fun r => [r]) 2 [(0, [0]), (1, [1])] = true ∧
      coloredEntry sqF sqX (pointData false row hc) [0, 1] [1] 1 = 8 + 1/16 ∧
      uncoloredEntry sqF sqX (pointData false row hu) 1 1 = 8 + 1/4 :=
  ⟨{ deltas := [1], coeffs := [1], current := -1 }, 1/16, 1/4,
    by decide +kernel, by decide +kernel, by decide +kernel, by decide +kernel,
    by decide +kernel, by decide +kernel⟩

end Colored

end OMV.C12
