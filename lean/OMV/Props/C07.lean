/-
C07 — set_val and get_val round-trip through promotion, indices and units.
-/
import OMV.Model.C07
import OMV.Proofs.SpecList
import Mathlib.Tactic.FieldSimp
import Mathlib.Tactic.Ring
import Mathlib.Data.List.Nodup

namespace OMV.C07

open OMV.Spec

variable {K : Type}

theorem setAt_not_mem (arr : Nat → K) (pos : List Nat) (vals : List K) (j : Nat) (h : j ∉ pos) :
    setAt arr pos vals j = arr j := by
  induction pos generalizing arr vals with
  | nil => cases vals <;> rfl
  | cons p ps ih =>
    cases vals with
    | nil => rfl
    | cons v vs =>
      simp only [setAt]
      rw [ih _ vs (fun hm => h (List.mem_cons_of_mem _ hm))]
      have : j ≠ p := fun e => h (e ▸ List.mem_cons_self)
      simp [this]

/-- **Frame.** Entries that are not selected keep their value. -/
theorem C07_frame (arr : Nat → K) (pos : List Nat) (vals : List K) (j : Nat) (h : j ∉ pos) :
    setAt arr pos vals j = arr j := setAt_not_mem arr pos vals j h

/-- **Round trip.** With pairwise distinct selected positions, reading the positions back
returns exactly the values written. -/
theorem C07_get_set (arr : Nat → K) (pos : List Nat) (vals : List K)
    (hl : pos.length = vals.length) (hd : pos.Nodup) :
    getAt (setAt arr pos vals) pos = vals := by
  induction pos generalizing arr vals with
  | nil => cases vals <;> simp_all [getAt]
  | cons p ps ih =>
    cases vals with
    | nil => simp at hl
    | cons v vs =>
      have hnd := List.nodup_cons.mp hd
      simp only [getAt, List.map_cons, setAt]
      congr 1
      · rw [setAt_not_mem _ ps vs p hnd.1]; simp
      · exact ih _ vs (by simpa using hl) hnd.2

/-- With a repeated position the last value written wins, so the round trip cannot hold:
the hypothesis of distinct positions is needed. -/
theorem C07_dup_last_wins :
    getAt (setAt (fun _ => (0 : Int)) [1, 1] [5, 7]) [1, 1] = [7, 7] := by decide

/-- **Units.** Converting to the array's units on the way in and back on the way out is the
identity for every non-zero factor (offset units included). -/
theorem C07_units_roundtrip [Field K] (fac off v : K) (h : fac ≠ 0) :
    fromStore fac off (toStore fac off v) = v := by
  unfold fromStore toStore convert
  field_simp
  ring

/-- **Phase independence.** Writing into the root vector at the variable's offset is the same
as writing into the variable's own array (metadata-backed before final_setup, vector-backed
afterwards): both stores implement one abstract store. -/
theorem C07_phase_independent (o : Nat) (big : Nat → K) (pos : List Nat) (vals : List K) :
    embed o (setAt big (pos.map (o + ·)) vals) = setAt (embed o big) pos vals := by
  induction pos generalizing big vals with
  | nil => cases vals <;> rfl
  | cons p ps ih =>
    cases vals with
    | nil => rfl
    | cons v vs =>
      simp only [List.map_cons, setAt]
      rw [ih]
      congr 1
      funext i
      simp [embed]

/-- Indexing through a `src_indices` chain and then through the user's `indices` is one gather
through the composed positions (so a set through an input reaches exactly those source entries). -/
theorem C07_chain_positions [OfNat K 0] (levels : List (List Nat)) (v : List K)
    (h : ChainOk v.length levels) :
    gather (chainPos v.length levels) v = chainVal levels v := by
  unfold chainVal chainPos
  have := chain_fold levels (List.range v.length) v (by simpa using h)
  rw [gather_range] at this
  exact this.symm

example : getAt (setAt (fun i => (10 * i : Int)) [3, 0] [7, 9]) [3, 0] = [7, 9] ∧
    setAt (fun i => (10 * i : Int)) [3, 0] [7, 9] 2 = 20 := by decide

end OMV.C07
