/-
C18 — Case recordings survive a crash at any point as a consistent prefix.
Property theorems only (plus non-vacuity examples and kernel-checked counterexamples).

Hypothesis everywhere (trusted, not proved): sqlite's atomic commit — after a crash the file holds the
effects of exactly the transactions committed so far, in commit order (`crash k s` is *defined* as the
committed component of the connection state after `k` statements).  `accept s = some txns` says that
the traced stream `s` has the shape the recorder produces: the start-up sequence, then transactions
each of which is one case (`INSERT` case row; `INSERT` global row carrying `lastrowid`), one auxiliary
insert, or one `UPDATE metadata`.  The harness checks `accept` on the real statement stream.
-/
import OMV.Proofs.C18

namespace OMV.C18

/-- An accepted stream is the start-up sequence followed by well-formed transactions. -/
theorem C18_accept_sound (s : List Stmt) (txns : List Txn) (h : accept s = some txns) :
    s = startup ++ flatten txns ∧ rowidsOk [] txns = true := accept_sound s txns h

/-- Crash at ANY statement boundary `k` after start-up: the reader opens the file and lists exactly the
first `m` cases of the complete run, where `m` is the number of case transactions completed before
`k`; the stored case rows are exactly those `m` cases (no case row without its global row and no
global row without its case row, since both lists equal the same prefix). -/
theorem C18_prefix (s : List Stmt) (txns : List Txn) (h : accept s = some txns) (k : Nat)
    (hk : startup.length ≤ k) :
    let m := completeCases txns (k - startup.length)
    (crash k s).read = some ((caseList txns).take m) ∧
    (crash k s).cases = (caseList txns).take m ∧
    (caseList txns).take m <+: caseList txns := by
  obtain ⟨hs, hok⟩ := accept_sound s txns h
  subst hs
  have hm := main txns startDb inv_startDb (by simpa [startDb] using hok) (k - startup.length)
  rw [← crash_after_startup txns k hk] at hm
  obtain ⟨⟨hopen, hlook⟩, hcases⟩ := hm
  have hc : (crash k (startup ++ flatten txns)).cases =
      (caseList txns).take (completeCases txns (k - startup.length)) := by
    simpa [startDb] using hcases
  refine ⟨?_, hc, List.take_prefix _ _⟩
  unfold Db.read
  rw [hopen, if_pos rfl, hlook, hc]

/-- The metadata `SqliteCaseReader.__init__` needs is present at every boundary after start-up. -/
theorem C18_readable (s : List Stmt) (txns : List Txn) (h : accept s = some txns) (k : Nat)
    (hk : startup.length ≤ k) : (crash k s).openable = true := by
  obtain ⟨hs, hok⟩ := accept_sound s txns h
  subst hs
  have hm := main txns startDb inv_startDb (by simpa [startDb] using hok) (k - startup.length)
  rw [← crash_after_startup txns k hk] at hm
  exact hm.1.1

/-- No crash (all statements executed): every case of the run is listed. -/
theorem C18_complete_run (s : List Stmt) (txns : List Txn) (h : accept s = some txns) :
    (crash s.length s).read = some (caseList txns) := by
  have hs := (accept_sound s txns h).1
  have hk : startup.length ≤ s.length := by rw [hs]; simp
  have := (C18_prefix s txns h s.length hk).1
  have hlen : s.length - startup.length = (flatten txns).length := by rw [hs]; simp
  simp only [hlen, completeCases_all] at this
  simpa using this

/-- A later crash point never shows fewer cases. -/
theorem C18_monotone (s : List Stmt) (txns : List Txn) (h : accept s = some txns) (k k' : Nat)
    (hk : startup.length ≤ k) (hkk : k ≤ k') :
    ∃ l l', (crash k s).read = some l ∧ (crash k' s).read = some l' ∧ l <+: l' := by
  refine ⟨_, _, (C18_prefix s txns h k hk).1, (C18_prefix s txns h k' (by omega)).1, ?_⟩
  have hm := completeCases_mono txns (k - startup.length) (k' - startup.length) (by omega)
  have e : List.take (completeCases txns (k - startup.length)) (caseList txns) =
      List.take (completeCases txns (k - startup.length))
        (List.take (completeCases txns (k' - startup.length)) (caseList txns)) := by
    rw [List.take_take, Nat.min_eq_left hm]
  rw [e]; exact List.take_prefix _ _

-- non-vacuity: a small accepted stream (two cases, an auxiliary insert in between, a second startup)
example :
    let s := startup ++ [.begin, .insertAux .driverMeta, .commit,
                         .begin, .insertCase .system 0, .insertGlobal .system 1, .commit,
                         .begin, .updateMeta, .commit,
                         .begin, .insertAux .driverMeta, .rollback,
                         .begin, .insertCase .driver 1, .insertGlobal .driver 1, .commit]
    accept s = some [.aux .driverMeta true, .case .system 0 1, .updMeta, .aux .driverMeta false,
                     .case .driver 1 1] ∧
    (crash (startup.length + 5) s).read = some [] ∧            -- inside the first case transaction
    (crash (startup.length + 7) s).read = some [(.system, 0)] ∧
    (crash (startup.length + 16) s).read = some [(.system, 0)] ∧ -- before the last COMMIT
    (crash s.length s).read = some [(.system, 0), (.driver, 1)] := by
  decide +kernel

/-- The start-up itself is not atomic: a crash while `_initialize_database`/the first `startup` run
leaves a file the reader cannot open (no metadata row yet, or its name maps still NULL).  The property
is therefore about crash points *after the recorder started*. -/
theorem C18_startup_window :
    (crash 11 startup).openable = false ∧ (crash 17 startup).openable = false ∧
    (crash 19 startup).openable = false ∧ (crash 20 startup).openable = true := by
  decide +kernel

/-- Why the single transaction matters: if the case row and its `global_iterations` row were committed
separately (a stream `accept` rejects), a crash in between leaves a case row the reader never lists. -/
theorem C18_needs_single_transaction :
    let s := startup ++ [.begin, .insertCase .system 0, .commit, .begin, .insertGlobal .system 1, .commit]
    accept s = none ∧
    (crash (startup.length + 3) s).cases = [(.system, 0)] ∧
    (crash (startup.length + 3) s).read = some [] := by
  decide +kernel

/-- Why `lastrowid` matters: a global row pointing past its table makes a listed case unreadable. -/
theorem C18_needs_rowid :
    let s := startup ++ [.begin, .insertCase .system 0, .insertGlobal .system 2, .commit]
    accept s = none ∧ (crash s.length s).read = none := by
  decide +kernel

end OMV.C18
