/-
C09 — Iterative solvers honour their termination contract.
Property theorems only (plus non-vacuity examples). Model: `OMV/Model/C09.lean` (`solveNL` =
`NonlinearSolver._solve`, `solveLN` = `LinearSolver._solve`, per-class `_iter_initialize`).
All theorems hold for every solver class, every option set, with or without complex step, and
every norm history `hist : Nat → Norm` (finite values, `nan`, `inf`).
-/
import OMV.Model.C09
import OMV.Proofs.C09
import OMV.Generated.C09SolverOpts
import Mathlib.Tactic.NormNum

namespace OMV.C09

variable (c : SolverClass) (o : Opts) (cs : Bool) (hist : Nat → Norm)

/-! ## Nonlinear loop (`NewtonSolver`, `BroydenSolver`, `NonlinearBlockGS`, `NonlinearBlockJac`) -/

/-- Bookkeeping of the result: it is the state after exactly `singles` loop bodies. The norm the
solver ends with is the last one it measured, `norm0` is the one fixed by `_iter_initialize`, every
loop body makes one `_single_iteration` and one `_iter_get_norm` call. -/
theorem C09_result_is_history :
    (solveNL c o cs hist).finalNorm = seenNorm c o hist (solveNL c o cs hist).singles ∧
    (solveNL c o cs hist).norm0 = (iterInitialize c o.maxiter hist).norm0 ∧
    (solveNL c o cs hist).iters = initialIterCount c o.maxiter + (solveNL c o cs hist).singles ∧
    (solveNL c o cs hist).evals =
      (iterInitialize c o.maxiter hist).evals + (solveNL c o cs hist).singles := by
  obtain ⟨k, hk, _, _⟩ := solveNL_char c o cs hist
  rw [solveNL_eq]
  simp only [mkResult, hk]
  rw [stateAfter_singles]
  exact ⟨seenNorm_eq c o cs hist k, stateAfter_norm0 c o cs hist k, stateAfter_iter c o cs hist k,
    stateAfter_evals c o cs hist k⟩

/-- **Iteration bound.** Without complex step the solver performs at most `maxiter` iterations
(`_iter_count ≤ maxiter`, hence at most `maxiter` calls of `_single_iteration`); under complex step
the only excess is the single forced iteration: `_iter_count ≤ max maxiter 1`. -/
theorem C09_iter_bound :
    (cs = false → (solveNL c o cs hist).iters ≤ o.maxiter) ∧
    (solveNL c o cs hist).iters ≤ max o.maxiter 1 ∧
    (solveNL c o cs hist).singles ≤ max o.maxiter 1 := by
  obtain ⟨k, hk, hall, _⟩ := solveNL_char c o cs hist
  have hi : (solveNL c o cs hist).iters = initialIterCount c o.maxiter + k := by
    rw [solveNL_eq]; simp only [mkResult, hk]; exact stateAfter_iter c o cs hist k
  have hs : (solveNL c o cs hist).singles = k := by
    rw [solveNL_eq]; simp only [mkResult, hk]; exact stateAfter_singles c o cs hist k
  have h0 := initialIterCount_le c o.maxiter
  have h1 := initialIterCount_succ_le c o.maxiter
  rw [hi, hs]
  cases k with
  | zero => refine ⟨fun _ => by omega, by omega, by omega⟩
  | succ k =>
    have hc := hall k (Nat.lt_succ_self k)
    unfold contNL at hc
    rw [stateAfter_force, stateAfter_iter] at hc
    simp only [Bool.or_eq_true, Bool.and_eq_true, decide_eq_true_eq] at hc
    rcases hc with hc | hc
    · have := hc.1.1
      refine ⟨fun _ => by omega, by omega, by omega⟩
    · obtain ⟨hcs, hk0⟩ := hc
      subst hk0
      refine ⟨fun h => (by rw [hcs] at h; cases h), by omega, by omega⟩

/-- **Why it stopped.** On exit the `while` condition is false: the iteration limit is reached, or
the current norm is not above both tolerances (this includes a `nan` norm), or the stall flag is
set. (Fuel `maxiter + 1` of the model is always enough.) -/
theorem C09_stop_reason :
    o.maxiter ≤ (solveNL c o cs hist).iters ∨
    aboveBoth o (solveNL c o cs hist).finalNorm (solveNL c o cs hist).norm0 = false ∨
    (solveNL c o cs hist).stalledFlag = true := by
  obtain ⟨k, hk, _, hstop⟩ := solveNL_char c o cs hist
  rw [solveNL_eq]
  simp only [mkResult, hk]
  unfold contNL at hstop
  simp only [Bool.or_eq_false_iff, Bool.and_eq_false_iff, decide_eq_false_iff_not,
    Bool.not_eq_false'] at hstop
  rcases hstop.1 with (h | h) | h
  · left; omega
  · right; left; exact h
  · right; right; simpa using h

/-- **First hit.** Every executed iteration `j` (0-based) other than the one forced under complex
step started from a state that was below the iteration limit, above *both* tolerances and not
stalled. Hence the solver never iterates past an iterate that met `atol` or `rtol`. -/
theorem C09_first_hit (j : Nat) (hj : j < (solveNL c o cs hist).singles) :
    (cs = true ∧ j = 0) ∨
    (initialIterCount c o.maxiter + j < o.maxiter ∧
     aboveBoth o (seenNorm c o hist j) (solveNL c o cs hist).norm0 = true ∧
     (stateAfter c o cs hist j).stall.stalled = false) := by
  have hn0 := (C09_result_is_history c o cs hist).2.1
  obtain ⟨k, hk, hall, _⟩ := solveNL_char c o cs hist
  have hs : (solveNL c o cs hist).singles = k := by
    rw [solveNL_eq]; simp only [mkResult, hk]; exact stateAfter_singles c o cs hist k
  rw [hs] at hj
  have hc := hall j hj
  unfold contNL at hc
  rw [stateAfter_force, stateAfter_iter, seenNorm_eq, stateAfter_norm0] at hc
  simp only [Bool.or_eq_true, Bool.and_eq_true, decide_eq_true_eq, Bool.not_eq_true'] at hc
  rcases hc with hc | hc
  · right; rw [hn0]; exact ⟨hc.1.1, hc.1.2, hc.2⟩
  · left; exact hc

/-- The solver stops at the first iterate that meets a tolerance: if the norm seen after `j`
iterations is finite and not above both tolerances, no more than `j` iterations are performed
(except that under complex step iteration 0 is always performed). -/
theorem C09_stops_at_first_met (j : Nat) (hcs : cs = false ∨ 0 < j)
    (hmet : meetsTol o (seenNorm c o hist j) (solveNL c o cs hist).norm0 = true) :
    (solveNL c o cs hist).singles ≤ j := by
  by_contra hlt
  have hlt : j < (solveNL c o cs hist).singles := by omega
  rcases C09_first_hit c o cs hist j hlt with h | h
  · rcases hcs with h' | h'
    · rw [h'] at h; cases h.1
    · omega
  · unfold meetsTol at hmet
    rw [h.2.1] at hmet
    simp at hmet

/-- A `nan` norm ends the loop at once (it fails both `>` tests). -/
theorem C09_nan_stops (j : Nat) (hcs : cs = false ∨ 0 < j) (hnan : seenNorm c o hist j = Norm.nan) :
    (solveNL c o cs hist).singles ≤ j := by
  by_contra hlt
  have hlt : j < (solveNL c o cs hist).singles := by omega
  rcases C09_first_hit c o cs hist j hlt with h | h
  · rcases hcs with h' | h'
    · rw [h'] at h; cases h.1
    · omega
  · rw [hnan] at h
    simp [aboveBoth, Norm.gt] at h

/-- **Success is sound.** A solve that reports success ends with a finite norm that is not above
both tolerances (`meetsTol`). -/
theorem C09_success_sound (h : (solveNL c o cs hist).outcome = Outcome.converged) :
    meetsTol o (solveNL c o cs hist).finalNorm (solveNL c o cs hist).norm0 = true := by
  rw [solveNL_eq] at h ⊢
  simp only [mkResult] at h ⊢
  unfold classifyNL at h
  unfold meetsTol
  split_ifs at h with h1 h2 h3
  simp only [Bool.not_eq_true', Bool.not_eq_false] at h1
  simp only [Bool.not_eq_true] at h3
  simp [h1, h3]

/-- The same in explicit form: the final norm is a finite number `q` with `q ≤ atol` or
`q / norm0 ≤ rtol`, provided the reference norm `norm0` is not `nan` (it is `nan` only when the
very first measured norm is `nan`, which without complex step is reported as a failure). -/
theorem C09_success_explicit (h : (solveNL c o cs hist).outcome = Outcome.converged)
    (h0 : (solveNL c o cs hist).norm0 ≠ Norm.nan) :
    ∃ q, (solveNL c o cs hist).finalNorm = Norm.fin q ∧
      (q ≤ o.atol ∨ ((Norm.fin q).div (solveNL c o cs hist).norm0).le o.rtol = true) := by
  have hm := C09_success_sound c o cs hist h
  have hz : (solveNL c o cs hist).norm0.isZero = false := by
    rw [(C09_result_is_history c o cs hist).2.1]; exact init_norm0_nonzero c o.maxiter hist
  unfold meetsTol aboveBoth at hm
  generalize (solveNL c o cs hist).norm0 = n0 at *
  generalize (solveNL c o cs hist).finalNorm = fn at *
  cases fn with
  | nan => simp [Norm.isFinite] at hm
  | inf => simp [Norm.isFinite] at hm
  | fin q =>
    refine ⟨q, rfl, ?_⟩
    cases n0 with
    | nan => exact absurd rfl h0
    | inf =>
      simp [Norm.isFinite, Norm.gt, Norm.div] at hm
      simp only [Norm.div, Norm.le, decide_eq_true_eq]
      exact hm
    | fin y =>
      have hy : y ≠ 0 := by simpa [Norm.isZero] using hz
      simp [Norm.isFinite, Norm.gt, Norm.div, hy] at hm
      simp only [Norm.div, hy, if_false, Norm.le, decide_eq_true_eq]
      exact hm

/-- **Failure is reported whenever no tolerance is met** (full strength): a final norm that is
`nan`, `inf` or above both tolerances is never reported as success. -/
theorem C09_fail_of_not_met
    (h : meetsTol o (solveNL c o cs hist).finalNorm (solveNL c o cs hist).norm0 = false) :
    (solveNL c o cs hist).outcome ≠ Outcome.converged := by
  intro hc
  rw [C09_success_sound c o cs hist hc] at h
  cases h

/-- `nan`/`inf` norms are classified first, as their own failure kind. -/
theorem C09_nan_inf_fails (h : (solveNL c o cs hist).finalNorm.isFinite = false) :
    (solveNL c o cs hist).outcome = Outcome.nanInf := by
  rw [solveNL_eq] at h ⊢
  simp only [mkResult] at h ⊢
  unfold classifyNL
  simp [h]

/-- **Failure iff no tolerance met** (full strength, every class, every option set including stall
detection, with or without complex step): a failure is reported exactly when the solver stops with
a final norm that is `nan`, `inf` or above both tolerances. -/
theorem C09_fail_iff :
    (solveNL c o cs hist).outcome ≠ Outcome.converged ↔
      meetsTol o (solveNL c o cs hist).finalNorm (solveNL c o cs hist).norm0 = false := by
  rw [solveNL_eq]
  simp only [mkResult]
  unfold classifyNL meetsTol
  generalize (finalNL c o cs hist).norm.isFinite = a
  generalize aboveBoth o (finalNL c o cs hist).norm (finalNL c o cs hist).norm0 = b
  generalize (finalNL c o cs hist).stall.stalled = d
  cases a <;> cases b <;> cases d <;> simp

/-- The failure kind "stalled" is reported only with the stall flag set and no tolerance met. -/
theorem C09_stalled_outcome (h : (solveNL c o cs hist).outcome = Outcome.stalled) :
    (solveNL c o cs hist).stalledFlag = true ∧
    meetsTol o (solveNL c o cs hist).finalNorm (solveNL c o cs hist).norm0 = false := by
  rw [solveNL_eq] at h ⊢
  simp only [mkResult] at h ⊢
  unfold classifyNL at h
  unfold meetsTol
  generalize (finalNL c o cs hist).norm.isFinite = a at *
  generalize aboveBoth o (finalNL c o cs hist).norm (finalNL c o cs hist).norm0 = b at *
  generalize (finalNL c o cs hist).stall.stalled = d at *
  cases a <;> cases b <;> cases d <;> simp at h ⊢

/-- History of the pre-fix defect: `1.0, 1.004e-10, 0.996e-10` (then `nan`). -/
def stallWitnessHist : Nat → Norm :=
  fun k => [Norm.fin 1, Norm.fin (1004 / 10000000000000), Norm.fin (996 / 10000000000000)].getD k
    Norm.nan

/-- Options of the witness: `atol = 1e-10`, `rtol = 1e-30`, `stall_limit = 1`,
`stall_tol = 1e-12` (default), `stall_tol_type = 'rel'` (default), `maxiter = 10` (default). -/
def stallWitnessOpts : Opts :=
  { maxiter := 10, atol := 1 / 10000000000, rtol := 1 / 1000000000000000000000000000000,
    stallLimit := 1, stallTol := 1 / 1000000000000, stallRel := true, errOnNonConverge := true }

/-- **Why the order of the tests matters.** On the witness the second iterate is below `atol` and
within `stall_tol` of the first, so the stall flag rises in the iteration that converges. The
current code reports success (no `AnalysisError`); the classification used before the fix
(`classifyNLPreFix`, stall flag tested first) reports a "stalled" failure although a tolerance is
met. The same history is replayed on the implementation from `corpus/C09`. -/
theorem C09_prefix_order_breaks_fail_iff :
    (solveNL .newton stallWitnessOpts false stallWitnessHist).outcome = Outcome.converged ∧
    (solveNL .newton stallWitnessOpts false stallWitnessHist).raised = false ∧
    (solveNL .newton stallWitnessOpts false stallWitnessHist).iters = 2 ∧
    (solveNL .newton stallWitnessOpts false stallWitnessHist).stalledFlag = true ∧
    meetsTol stallWitnessOpts (solveNL .newton stallWitnessOpts false stallWitnessHist).finalNorm
      (solveNL .newton stallWitnessOpts false stallWitnessHist).norm0 = true ∧
    classifyNLPreFix stallWitnessOpts
      (loopNL stallWitnessOpts false stallWitnessHist (stallWitnessOpts.maxiter + 1)
        (initState .newton stallWitnessOpts false stallWitnessHist)) = Outcome.stalled := by
  decide +kernel

/-- **Stall detection is sound.** When the stall flag is set (outcome "stalled"), stall detection
was enabled, at least `stall_limit` iterations were made and the norms (relative or absolute, per
`stall_tol_type`) seen after each of the last `stall_limit` iterations all lie within `stall_tol`
of one common reference value (the code's `stall_norm`). -/
theorem C09_stall_sound (h : (solveNL c o cs hist).stalledFlag = true) :
    0 < o.stallLimit ∧ o.stallLimit ≤ (solveNL c o cs hist).singles ∧
    ∃ ref : Norm, ∀ i, (solveNL c o cs hist).singles - o.stallLimit < i →
      i ≤ (solveNL c o cs hist).singles →
      (ref.absDiff (normForStall c o hist i)).le o.stallTol = true := by
  obtain ⟨k, hk, hall, _⟩ := solveNL_char c o cs hist
  have hs : (solveNL c o cs hist).singles = k := by
    rw [solveNL_eq]; simp only [mkResult, hk]; exact stateAfter_singles c o cs hist k
  have hf : (stateAfter c o cs hist k).stall.stalled = true := by
    rw [solveNL_eq] at h; simpa only [mkResult, hk] using h
  have hon : 0 < o.stallLimit := by
    by_contra hz
    have hz : o.stallLimit = 0 := by omega
    rw [stateAfter_not_stalled_of_off c o cs hist hz k] at hf
    cases hf
  rw [hs]
  cases k with
  | zero => cases hf
  | succ k =>
    have hprev : (stateAfter c o cs hist k).stall.stalled = false := by
      have hc := hall k (Nat.lt_succ_self k)
      unfold contNL at hc
      rw [stateAfter_force] at hc
      simp only [Bool.or_eq_true, Bool.and_eq_true, decide_eq_true_eq, Bool.not_eq_true'] at hc
      rcases hc with hc | hc
      · exact hc.2
      · rw [hc.2]; rfl
    have hlim := stalled_rises c o cs hist k hprev hf
    obtain ⟨hle, hwin⟩ := stall_window c o cs hist hon (k + 1)
    refine ⟨hon, by omega, (stateAfter c o cs hist (k + 1)).stall.stallNorm, ?_⟩
    intro i h1 h2
    exact hwin i (by omega) h2

/-- **`AnalysisError` iff failure and `err_on_non_converge`.** -/
theorem C09_raise_iff :
    (solveNL c o cs hist).raised = true ↔
      ((solveNL c o cs hist).outcome ≠ Outcome.converged ∧ o.errOnNonConverge = true) := by
  rw [solveNL_eq]
  simp only [mkResult]
  unfold reportFailure
  cases classifyNL o (finalNL c o cs hist) <;> simp

/-! ## Linear loop (`LinearBlockGS`, `LinearBlockJac`)

`LinearSolver._solve` is a separate copy of the loop without stall bookkeeping and without the
forced iteration; `solveLN_eq_solveNL` shows it is `solveNL` with `stall_limit = 0`, `cs = false`,
so the contract holds for it at full strength. -/

theorem C09_ln_iter_bound :
    (solveLN c o hist).iters ≤ o.maxiter ∧ (solveLN c o hist).singles ≤ o.maxiter := by
  rw [solveLN_eq_solveNL]
  have h := (C09_iter_bound c (noStall o) false hist).1 rfl
  have h2 := (C09_result_is_history c (noStall o) false hist).2.2.1
  have e : (noStall o).maxiter = o.maxiter := rfl
  rw [e] at h h2
  exact ⟨h, by omega⟩

theorem C09_ln_first_hit (j : Nat) (hj : j < (solveLN c o hist).singles) :
    initialIterCount c o.maxiter + j < o.maxiter ∧
    aboveBoth o (seenNorm c o hist j) (solveLN c o hist).norm0 = true := by
  rw [solveLN_eq_solveNL] at hj ⊢
  rcases C09_first_hit c (noStall o) false hist j hj with h | h
  · cases h.1
  · exact ⟨h.1, h.2.1⟩

theorem C09_ln_stop_reason :
    o.maxiter ≤ (solveLN c o hist).iters ∨
    aboveBoth o (solveLN c o hist).finalNorm (solveLN c o hist).norm0 = false := by
  rw [solveLN_eq_solveNL]
  rcases C09_stop_reason c (noStall o) false hist with h | h | h
  · left; exact h
  · right; exact h
  · have hns : (solveNL c (noStall o) false hist).stalledFlag = false := by
      obtain ⟨k, hk, _, _⟩ := solveNL_char c (noStall o) false hist
      rw [solveNL_eq]; simp only [mkResult, hk]
      exact stateAfter_not_stalled_of_off c (noStall o) false hist rfl k
    rw [hns] at h; cases h

theorem C09_ln_success_sound (h : (solveLN c o hist).outcome = Outcome.converged) :
    meetsTol o (solveLN c o hist).finalNorm (solveLN c o hist).norm0 = true := by
  rw [solveLN_eq_solveNL] at h ⊢
  exact C09_success_sound c (noStall o) false hist h

/-- For the linear loop the property's "failure iff no tolerance met" holds at full strength. -/
theorem C09_ln_fail_iff :
    (solveLN c o hist).outcome ≠ Outcome.converged ↔
      meetsTol o (solveLN c o hist).finalNorm (solveLN c o hist).norm0 = false := by
  rw [solveLN_eq_solveNL]
  exact C09_fail_iff c (noStall o) false hist

theorem C09_ln_raise_iff :
    (solveLN c o hist).raised = true ↔
      ((solveLN c o hist).outcome ≠ Outcome.converged ∧ o.errOnNonConverge = true) := by
  rw [solveLN_eq_solveNL]
  exact C09_raise_iff c (noStall o) false hist

/-! ## The shipped option defaults (table regenerated from `/repo` on every run) -/

/-- Every class ships with stall detection off, positive tolerances and a positive iteration
limit. -/
theorem C09_shipped_defaults_hyps :
    ∀ d ∈ Generated.shippedDefaults,
      d.2.2.stallLimit = 0 ∧ 0 < d.2.2.atol ∧ 0 < d.2.2.rtol ∧ 0 < d.2.2.maxiter := by
  decide +kernel

/-- In particular, with the shipped defaults every class satisfies "failure reported iff no tolerance met" at
full strength, for every history, with or without complex step. -/
theorem C09_shipped_defaults_fail_iff :
    ∀ d ∈ Generated.shippedDefaults, ∀ (cs : Bool) (hist : Nat → Norm),
      (solve d.2.1 d.2.2 cs hist).outcome ≠ Outcome.converged ↔
        meetsTol d.2.2 (solve d.2.1 d.2.2 cs hist).finalNorm (solve d.2.1 d.2.2 cs hist).norm0
          = false := by
  intro d _ cs hist
  unfold solve
  split
  · exact C09_ln_fail_iff d.2.1 d.2.2 hist
  · exact C09_fail_iff d.2.1 d.2.2 cs hist

/-! ## Non-vacuity: concrete instances meeting the hypotheses -/

/-- Newton, `maxiter = 3`: 1.0 → 0.5 → 1e-11 converges in 2 iterations, the third is not run. -/
example :
    let o : Opts := { maxiter := 3, atol := 1 / 10000000000, rtol := 1 / 10000000000 }
    let h : Nat → Norm := fun k => [Norm.fin 1, Norm.fin (1/2), Norm.fin (1/100000000000),
      Norm.fin 5].getD k Norm.nan
    (solveNL .newton o false h).iters = 2 ∧ (solveNL .newton o false h).outcome = .converged ∧
    meetsTol o (seenNorm .newton o h 2) (solveNL .newton o false h).norm0 = true ∧
    (solveNL .newton o false h).raised = false := by decide +kernel

/-- NLBGS, `maxiter = 3`, never converging, `err_on_non_converge`: 3 iterations (the initial sweep
counts), 2 `_single_iteration` calls, `AnalysisError`. -/
example :
    let o : Opts := { maxiter := 3, atol := 1 / 10000000000, rtol := 1 / 10000000000,
                      errOnNonConverge := true }
    let h : Nat → Norm := fun _ => Norm.fin 1
    (solveNL (.nlbgs false) o false h).iters = 3 ∧ (solveNL (.nlbgs false) o false h).singles = 2 ∧
    (solveNL (.nlbgs false) o false h).outcome = .notConverged ∧
    (solveNL (.nlbgs false) o false h).raised = true := by decide +kernel

/-- Complex step: converged at once, still one (forced) iteration; `nan` after it is a failure. -/
example :
    let o : Opts := { maxiter := 0, atol := 1 / 10000000000, rtol := 1 / 10000000000 }
    let h : Nat → Norm := fun k => [Norm.fin 0, Norm.nan].getD k Norm.nan
    (solveNL .newton o true h).iters = 1 ∧ (solveNL .newton o true h).outcome = .nanInf := by
  decide +kernel

/-- LinearBlockGS with `maxiter = 1`: no initial evaluation, synthetic norm 1.0, one iteration. -/
example :
    let o : Opts := { maxiter := 1, atol := 1 / 10000000000, rtol := 1 / 10000000000 }
    let h : Nat → Norm := fun k => [Norm.fin (1/2)].getD k Norm.nan
    (solveLN .lnbgs o h).iters = 1 ∧ (solveLN .lnbgs o h).evals = 1 ∧
    (solveLN .lnbgs o h).outcome = .notConverged := by decide +kernel

end OMV.C09
