/-
C31 — Evaluations are deterministic and derivative queries are read-only.
The frame theorem is close to definitional for this model (queries are modelled as functions of
the state); what carries weight is the idempotence of run_model and the differential runs.
-/
import OMV.Model.C31
import OMV.Proofs.SpecSweep

namespace OMV.C31

open OMV.Spec

variable {K : Type} [Add K] [Mul K] [OfNat K 0]

theorem stepComp_fixed (u : Nat → K) (c : Comp K) (h : Solved u c) : stepComp u c = u := by
  funext i
  unfold stepComp
  by_cases hi : inRange c i
  · simp [hi, h i hi]
  · simp [hi]

theorem sweep_fixed (cs : List (Comp K)) (u : Nat → K) (h : ∀ c ∈ cs, Solved u c) :
    sweep u cs = u := by
  induction cs with
  | nil => rfl
  | cons c cs ih =>
    simp only [sweep, List.foldl_cons]
    rw [stepComp_fixed u c (h c (List.mem_cons_self))]
    exact ih (fun c' hc' => h c' (List.mem_cons_of_mem _ hc'))

/-- **run_model is idempotent**: for a model whose order respects data flow, running it again
from the state it produced changes nothing (every component is already solved). -/
theorem C31_run_idempotent (cs : List (Comp K)) (u : Nat → K) (h : TopoOK cs) :
    sweep (sweep u cs) cs = sweep u cs :=
  sweep_fixed cs (sweep u cs) (sweep_solves cs u h)

/-- **Determinism**: the state after a call sequence is a function of the start state and the
calls; two runs from equal states coincide. -/
theorem C31_deterministic {R : Type} (cs : List (Comp K)) (u u' : Nat → K)
    (calls : List (@Call K R)) (h : u = u') : runCalls cs u calls = runCalls cs u' calls := by
  rw [h]

/-- **Queries are read-only**: interleaving any number of queries into a call sequence does not
change the final state. -/
theorem C31_queries_frame {R : Type} (cs : List (Comp K)) (u : Nat → K)
    (calls : List (@Call K R)) :
    runCalls cs u calls
      = runCalls cs u (calls.filter (fun c => match c with | .runModel => true | .query _ => false)) := by
  induction calls generalizing u with
  | nil => rfl
  | cons c rest ih =>
    cases c with
    | runModel =>
      simp only [runCalls, List.foldl_cons, List.filter_cons, stepApi]
      exact ih (sweep u cs)
    | query q =>
      simp only [runCalls, List.foldl_cons, List.filter_cons, stepApi]
      exact ih u

/-- any number of run_model calls (≥ 1), interleaved with queries, ends in the state of one
run_model -/
theorem C31_runs_collapse {R : Type} (cs : List (Comp K)) (u : Nat → K) (h : TopoOK cs)
    (calls : List (@Call K R)) :
    runCalls cs (sweep u cs) calls = sweep u cs := by
  induction calls with
  | nil => rfl
  | cons c rest ih =>
    cases c with
    | runModel =>
      simp only [runCalls, List.foldl_cons, stepApi]
      rw [C31_run_idempotent cs u h]; exact ih
    | query q =>
      simp only [runCalls, List.foldl_cons, stepApi]; exact ih

end OMV.C31
