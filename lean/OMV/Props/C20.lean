/-
C20 — Driver scaling is an exact, invertible affine map applied consistently.
Property theorems only (plus non-vacuity examples); helper lemmas are in `OMV/Proofs/C20.lean`.
-/
import OMV.Model.C20
import OMV.Proofs.C20
import OMV.Generated.C20Consts
import Mathlib.Algebra.Order.Field.Basic
import Mathlib.Tactic.Ring
import Mathlib.Tactic.FieldSimp
import Mathlib.Tactic.Linarith
import Mathlib.Tactic.NormNum

set_option linter.unusedSectionVars false
set_option linter.unusedVariables false
set_option linter.unusedSimpArgs false

namespace OMV.C20

variable {K : Type} [Field K] [LinearOrder K] [IsStrictOrderedRing K]

/-! ## ref / ref0 → adder / scaler -/

/-- `determine_adder_scaler` with scalar ref/ref0 (either may be left at its default `ref=1`,
`ref0=0`) returns an affine map that sends `ref0` to 0 and `ref` to 1. -/
theorem C20_ref_map (ref0 ref : Option K) (hsome : ref0.isSome ∨ ref.isSome)
    (h : ref.getD 1 ≠ ref0.getD 0) :
    ∃ a s, determineAdderScaler (ref0.map Sv.scalar) (ref.map Sv.scalar) none none
          = .ok (Sv.scalar a, Sv.scalar s) ∧
      scaleElem a s (ref0.getD 0) = 0 ∧ scaleElem a s (ref.getD 1) = 1 := by
  have hne : ref.getD 1 + -(ref0.getD 0) ≠ 0 := by
    intro h0; exact h (add_neg_eq_zero.mp h0)
  refine ⟨-(ref0.getD 0), 1 / (ref.getD 1 + -(ref0.getD 0)), ?_, ?_, ?_⟩
  · cases ref0 <;> cases ref <;>
      simp_all [determineAdderScaler, Sv.zip, Sv.map]
  · unfold scaleElem; ring
  · unfold scaleElem; field_simp

/-- Array ref/ref0: the returned adder/scaler arrays, applied by `_apply_vec_scaling`, send the
vector `ref0` to all zeros and the vector `ref` to all ones (`Forall₂` carries equal lengths and
`ref[i] ≠ ref0[i]`). -/
theorem C20_ref_map_array (ref0 ref : List K) (h : List.Forall₂ (fun r r0 => r ≠ r0) ref ref0) :
    ∃ a s, determineAdderScaler (some (Sv.array ref0)) (some (Sv.array ref)) none none
          = .ok (Sv.array a, Sv.array s) ∧
      vecScale (some (Sv.array a)) (some (Sv.array s)) ⟨ref0, false⟩
          = .ok ⟨List.replicate ref.length 0, true⟩ ∧
      vecScale (some (Sv.array a)) (some (Sv.array s)) ⟨ref, false⟩
          = .ok ⟨List.replicate ref.length 1, true⟩ := by
  have hlen : ref.length = ref0.length := h.length_eq
  refine ⟨ref0.map (fun x => -x),
    (List.zipWith (· + ·) ref (ref0.map (fun x => -x))).map (fun d => 1 / d), ?_, ?_, ?_⟩
  · simp [determineAdderScaler, Sv.zip, Sv.map, hlen]
  · have key : List.zipWith (· * ·) (List.zipWith (· + ·) ref0 (ref0.map (fun x => -x)))
        ((List.zipWith (· + ·) ref (ref0.map (fun x => -x))).map (fun d => 1 / d))
        = List.replicate ref.length 0 := by
      clear hlen
      induction h with
      | nil => rfl
      | cons hab _ ih =>
        simp only [List.map_cons, List.zipWith_cons_cons, List.length_cons, List.replicate_succ, ih]
        congr 1; ring
    rw [vecScale_arrays _ _ _ (by simp) (by simp [hlen]), key]
  · have key : List.zipWith (· * ·) (List.zipWith (· + ·) ref (ref0.map (fun x => -x)))
        ((List.zipWith (· + ·) ref (ref0.map (fun x => -x))).map (fun d => 1 / d))
        = List.replicate ref.length 1 := by
      clear hlen
      induction h with
      | nil => rfl
      | @cons r r0 _ _ hab _ ih =>
        simp only [List.map_cons, List.zipWith_cons_cons, List.length_cons, List.replicate_succ, ih]
        congr 1
        have : r + -r0 ≠ 0 := fun h0 => hab (add_neg_eq_zero.mp h0)
        field_simp
    rw [vecScale_arrays _ _ _ (by simp [hlen]) (by simp [hlen]), key]

/-- ref/ref0 and scaler/adder are mutually exclusive (the precedence rule of the code). -/
theorem C20_ref_excludes_scaler (ref0 ref adder scaler : Option (Sv K))
    (hr : ref0.isSome ∨ ref.isSome) (hs : scaler.isSome ∨ adder.isSome) :
    determineAdderScaler ref0 ref adder scaler = .error .mutex := by
  unfold determineAdderScaler
  rcases hr with hr | hr <;> rcases hs with hs | hs <;> simp [hr, hs]

/-- Without ref/ref0 the declared scaler/adder are used as they are, defaults `1` and `0`. -/
theorem C20_scaler_adder_passthrough (adder scaler : Option (Sv K)) :
    determineAdderScaler none none adder scaler
      = .ok (adder.getD (Sv.scalar 0), scaler.getD (Sv.scalar 1)) := by
  simp [determineAdderScaler]

example : determineAdderScaler (some (Sv.scalar (1 : Rat))) (some (Sv.scalar 5)) none none
    = .ok (Sv.scalar (-1), Sv.scalar (1/4)) ∧ scaleElem (-1 : Rat) (1/4) 1 = 0 ∧
      scaleElem (-1 : Rat) (1/4) 5 = 1 := by decide +kernel

/-! ## invertibility -/

/-- Elementwise: unscaling undoes scaling and scaling undoes unscaling, for every adder and every
non-zero scaler. -/
theorem C20_inverse (a s x : K) (hs : s ≠ 0) :
    unscaleElem a s (scaleElem a s x) = x ∧ scaleElem a s (unscaleElem a s x) = x := by
  unfold unscaleElem scaleElem
  constructor <;> field_simp <;> ring

/-- Vector level, model → optimizer → model: whatever `_apply_vec_scaling` did to an unscaled vector
(any mix of `None` / float / array adder and scaler, with broadcasting) is undone exactly by
`_apply_vec_unscaling`, including the `driver_scaling` flag. -/
theorem C20_inverse_vec (adder scaler : Option (Sv K)) (d : List K) (w : OVec K)
    (hnz : OptAll (fun s => s ≠ 0) scaler)
    (h : vecScale adder scaler ⟨d, false⟩ = .ok w) :
    vecUnscale adder scaler w = .ok ⟨d, false⟩ := by
  obtain ⟨d1, d2, h1, h2, rfl⟩ := vecScale_unscaled.mp h
  have i2 : optOp (· / ·) d2 scaler = .ok d1 :=
    optOp_inv (P := fun s => s ≠ 0) (fun x y hy => by field_simp) hnz h2
  have i1 : optOp (· - ·) d1 adder = .ok d :=
    optOp_inv (P := fun _ => True) (fun x y _ => by ring) (optAll_true adder) h1
  exact vecUnscale_scaled.mpr ⟨d1, d, i2, i1, rfl⟩

/-- Vector level, optimizer → model → optimizer. -/
theorem C20_inverse_vec' (adder scaler : Option (Sv K)) (y : List K) (w : OVec K)
    (hnz : OptAll (fun s => s ≠ 0) scaler)
    (h : vecUnscale adder scaler ⟨y, true⟩ = .ok w) :
    vecScale adder scaler w = .ok ⟨y, true⟩ := by
  obtain ⟨d1, d2, h1, h2, rfl⟩ := vecUnscale_scaled.mp h
  have i2 : optOp (· + ·) d2 adder = .ok d1 :=
    optOp_inv (P := fun _ => True) (fun x y _ => by ring) (optAll_true adder) h2
  have i1 : optOp (· * ·) d1 scaler = .ok y :=
    optOp_inv (P := fun s => s ≠ 0) (fun x y hy => by field_simp) hnz h1
  exact vecScale_unscaled.mpr ⟨d1, y, i2, i1, rfl⟩

/-- The `driver_scaling` flag makes the maps idempotent: a vector that is already scaled is not
scaled again, an unscaled one is not unscaled again (scaling is applied exactly once however many
call sites ask for it). -/
theorem C20_no_double_scaling (adder scaler : Option (Sv K)) (v w : OVec K) :
    (vecScale adder scaler v = .ok w → vecScale adder scaler w = .ok w) ∧
    (vecUnscale adder scaler v = .ok w → vecUnscale adder scaler w = .ok w) := by
  obtain ⟨d, b⟩ := v
  constructor
  · intro h
    cases b with
    | true => simp [vecScale] at h; subst h; simp [vecScale]
    | false =>
      obtain ⟨d1, d2, _, _, rfl⟩ := vecScale_unscaled.mp h
      simp [vecScale]
  · intro h
    cases b with
    | false => simp [vecUnscale] at h; subst h; simp [vecUnscale]
    | true =>
      obtain ⟨d1, d2, _, _, rfl⟩ := vecUnscale_scaled.mp h
      simp [vecUnscale]

example : vecScale (some (Sv.scalar (1 : Rat))) (some (Sv.array [2, -4])) ⟨[3, 5], false⟩
    = .ok ⟨[8, -24], true⟩ ∧
    vecUnscale (some (Sv.scalar (1 : Rat))) (some (Sv.array [2, -4])) ⟨[8, -24], true⟩
    = .ok ⟨[3, 5], false⟩ := by decide +kernel

/-! ## unit conversion folded into the map -/

/-- Converting to the declared units and then scaling is one affine map with total scaler
`factor * scaler` and total adder `offset + adder / factor`. -/
theorem C20_units_fold (f o a s x : K) (hf : f ≠ 0) :
    driverElem f o a s x = scaleElem (o + a / f) (f * s) x := by
  unfold driverElem scaleElem unitConv
  field_simp
  ring

/-- The path back used by `_set_design_vars` (unscale, then convert from driver units to source units
with the reverse conversion `factor⁻¹`, `-(offset * factor)`) is the exact inverse of the path out. -/
theorem C20_units_roundtrip (f o a s : K) (hf : f ≠ 0) (hs : s ≠ 0) (x y : K) :
    unitConv (1 / f) (-(o * f)) (unscaleElem a s (driverElem f o a s x)) = x ∧
    driverElem f o a s (unitConv (1 / f) (-(o * f)) (unscaleElem a s y)) = y := by
  unfold driverElem scaleElem unitConv unscaleElem
  constructor <;> field_simp <;> ring

example : driverElem (1000 : Rat) 0 (-1) (1/2) 1 = 999/2 ∧
    unitConv (1/1000 : Rat) 0 (unscaleElem (-1) (1/2) (999/2)) = 1 := by decide +kernel

/-! ## bounds -/

/-- One bound element: a finite bound is mapped by the same affine map as the values, an unbounded one
(`≤ -INF_BOUND` for a lower, `≥ INF_BOUND` for an upper bound) stays the sentinel whatever the
adder and scaler are. -/
theorem C20_bounds_image (inf a s v : K) (isLower : Bool) :
    (isInfBound inf isLower v = false → boundElem inf isLower a s v = scaleElem a s v) ∧
    (isInfBound inf isLower v = true → boundElem inf isLower a s v = sentinel inf isLower) := by
  unfold boundElem scaleElem
  constructor <;> intro h <;> simp [h]

/-- `_scale_bound` on a whole variable (bound given as float or array, adder and scaler as float or
array of the variable's size): every element of the result is `boundElem` of its own element —
the all-unbounded fast path and the masked path agree with the elementwise description. -/
theorem C20_bounds_image_vec (inf : K) (isLower : Bool) (adder scaler val : Sv K) (n : Nat)
    (arr la ls : List K) (hv : val.bcast n = .ok arr) (ha : adder.strict n = .ok la)
    (hs : scaler.strict n = .ok ls) :
    scaleBound inf isLower (some adder) (some scaler) n (some val)
      = .ok (zip3With (fun v a s => boundElem inf isLower a s v) arr la ls) := by
  have hal : la.length = arr.length := by rw [Sv.strict_length ha, Sv.bcast_length hv]
  have hsl : ls.length = arr.length := by rw [Sv.strict_length hs, Sv.bcast_length hv]
  unfold scaleBound
  simp only [Option.getD_some, hv]
  by_cases hall : arr.all (isInfBound inf isLower) = true
  · simp only [hall, if_true]
    rw [zip3With_boundElem_all_inf inf isLower arr la ls hall hal hsl]
  · simp only [hall, Bool.false_eq_true, if_false, optStrict, ha, hs, optList]
    rw [zip3With_boundElemOpt_some]

/-- A bound that was not given (`None`) is the sentinel for every element, and neither adder nor
scaler (nor their shapes) are looked at. -/
theorem C20_unbounded_stays_sentinel (inf : K) (isLower : Bool) (adder scaler : Option (Sv K))
    (n : Nat) :
    scaleBound inf isLower adder scaler n none = .ok (List.replicate n (sentinel inf isLower)) := by
  have hs : isInfBound inf isLower (sentinel inf isLower) = true := by
    cases isLower <;> simp [isInfBound, sentinel]
  unfold scaleBound
  simp only [Option.getD_none, Sv.bcast]
  have hall : (List.replicate n (sentinel inf isLower)).all (isInfBound inf isLower) = true := by
    rw [List.all_eq_true]; intro x hx; rw [(List.mem_replicate.mp hx).2]; exact hs
  simp [hall]

/-- Positive scaler: a model value is inside the model interval exactly when its image is inside the
interval of the scaled bounds (the optimizer's feasible set is the image of the model's). -/
theorem C20_bounds_interval_pos (a s lo hi x : K) (hs : 0 < s) :
    (lo ≤ x ∧ x ≤ hi) ↔
      (scaleElem a s lo ≤ scaleElem a s x ∧ scaleElem a s x ≤ scaleElem a s hi) := by
  unfold scaleElem
  rw [mul_le_mul_iff_of_pos_right hs, mul_le_mul_iff_of_pos_right hs, add_le_add_iff_right,
    add_le_add_iff_right]

/-- Negative scaler: the image interval is reversed — the image of the model's lower bound is an
upper bound in optimizer space and vice versa (this is why `_compute_scaled_bounds` exchanges the two
scaled bounds where the scaler is negative, see `C20_bounds_feasible_image`). -/
theorem C20_bounds_interval_neg (a s lo hi x : K) (hs : s < 0) :
    (lo ≤ x ∧ x ≤ hi) ↔
      (scaleElem a s hi ≤ scaleElem a s x ∧ scaleElem a s x ≤ scaleElem a s lo) := by
  unfold scaleElem
  rw [mul_le_mul_right_of_neg hs, mul_le_mul_right_of_neg hs, add_le_add_iff_right,
    add_le_add_iff_right]
  exact And.comm

/-- Full strength, repaired code (`swapNeg = true`): the pair of scaled bounds the optimizer is given
describes exactly the image of the model's feasible interval, for every non-zero scaler of either
sign and every adder: `x` satisfies the model bounds `L`, `U` (a sentinel meaning "no bound") iff its
image `(x + adder)·scaler` satisfies the scaled pair.  The side conditions say that the image of a
finite bound does not itself reach a sentinel. -/
theorem C20_bounds_feasible_image (inf a s L U x : K) (hs : s ≠ 0)
    (hL : isInfBound inf true L = false → -inf < scaleElem a s L ∧ scaleElem a s L < inf)
    (hU : isInfBound inf false U = false → -inf < scaleElem a s U ∧ scaleElem a s U < inf) :
    feasB inf
      (swapElem inf (true && decide (s < 0)) (boundElem inf true a s L) (boundElem inf false a s U)).1
      (swapElem inf (true && decide (s < 0)) (boundElem inf true a s L) (boundElem inf false a s U)).2
      (scaleElem a s x) = feasB inf L U x := by
  have bl : boundElem inf true a s L = if L ≤ -inf then -inf else scaleElem a s L := by
    simp [boundElem, isInfBound, sentinel, scaleElem]
  have bu : boundElem inf false a s U = if inf ≤ U then inf else scaleElem a s U := by
    simp [boundElem, isInfBound, sentinel, scaleElem]
  rw [bl, bu, Bool.eq_iff_iff]
  simp only [isInfBound, if_true, Bool.false_eq_true, if_false, decide_eq_false_iff_not] at hL hU
  rcases lt_or_gt_of_ne hs with hneg | hpos
  · have e1 := fun u v => scale_le_neg a s u v hneg
    by_cases hLi : L ≤ -inf <;> by_cases hUi : inf ≤ U
    · simp [feasB, swapElem, hneg, hLi, hUi]
    · obtain ⟨u1, u2⟩ := hU hUi
      simp [feasB, swapElem, hneg, hLi, hUi, not_le.mpr u1, not_le.mpr u2, e1]
    · obtain ⟨l1, l2⟩ := hL hLi
      simp [feasB, swapElem, hneg, hLi, hUi, not_le.mpr l1, not_le.mpr l2, e1]
    · obtain ⟨u1, u2⟩ := hU hUi
      obtain ⟨l1, l2⟩ := hL hLi
      simp [feasB, swapElem, hneg, hLi, hUi, not_le.mpr u1, not_le.mpr u2, not_le.mpr l1,
        not_le.mpr l2, e1, and_comm]
  · have e1 := fun u v => scale_le_pos a s u v hpos
    have hn : ¬ s < 0 := not_lt.mpr hpos.le
    by_cases hLi : L ≤ -inf <;> by_cases hUi : inf ≤ U
    · simp [feasB, swapElem, hn, hLi, hUi]
    · obtain ⟨u1, u2⟩ := hU hUi
      simp [feasB, swapElem, hn, hLi, hUi, not_le.mpr u1, not_le.mpr u2, e1]
    · obtain ⟨l1, l2⟩ := hL hLi
      simp [feasB, swapElem, hn, hLi, hUi, not_le.mpr l1, not_le.mpr l2, e1]
    · obtain ⟨u1, u2⟩ := hU hUi
      obtain ⟨l1, l2⟩ := hL hLi
      simp [feasB, swapElem, hn, hLi, hUi, not_le.mpr u1, not_le.mpr u2, not_le.mpr l1,
        not_le.mpr l2, e1]

/-- `_partial`, pinned snapshot (`swapNeg = false`, each bound scaled on its own): the same statement
holds only for a positive scaler. -/
theorem C20_bounds_feasible_image_partial (inf a s L U x : K) (hs : 0 < s)
    (hL : isInfBound inf true L = false → -inf < scaleElem a s L ∧ scaleElem a s L < inf)
    (hU : isInfBound inf false U = false → -inf < scaleElem a s U ∧ scaleElem a s U < inf) :
    feasB inf
      (swapElem inf (false && decide (s < 0)) (boundElem inf true a s L) (boundElem inf false a s U)).1
      (swapElem inf (false && decide (s < 0)) (boundElem inf true a s L) (boundElem inf false a s U)).2
      (scaleElem a s x) = feasB inf L U x := by
  have h := C20_bounds_feasible_image inf a s L U x (ne_of_gt hs) hL hU
  have hn : decide (s < 0) = false := decide_eq_false (not_lt.mpr hs.le)
  simpa [hn] using h

/-- The un-exchanged variant is wrong for a negative scaler: `lower = 0`, no upper bound,
`scaler = -1` (INF_BOUND played by 10): `x = 1` is feasible in the model but its image `-1` violates
the pair `(0, 10)` the optimizer would be given; the exchanged pair `(-10, 0)` accepts it. -/
theorem C20_bounds_unswapped_negative_counterexample :
    feasB (10 : Rat) 0 10 1 = true ∧
    feasB (10 : Rat)
      (swapElem 10 (false && decide ((-1 : Rat) < 0)) (boundElem 10 true 0 (-1) 0) (boundElem 10 false 0 (-1) 10)).1
      (swapElem 10 (false && decide ((-1 : Rat) < 0)) (boundElem 10 true 0 (-1) 0) (boundElem 10 false 0 (-1) 10)).2
      (scaleElem 0 (-1) 1) = false ∧
    feasB (10 : Rat)
      (swapElem 10 (true && decide ((-1 : Rat) < 0)) (boundElem 10 true 0 (-1) 0) (boundElem 10 false 0 (-1) 10)).1
      (swapElem 10 (true && decide ((-1 : Rat) < 0)) (boundElem 10 true 0 (-1) 0) (boundElem 10 false 0 (-1) 10)).2
      (scaleElem 0 (-1) 1) = true := by decide +kernel

/-- Arrays: `_compute_scaled_bounds` on a whole variable (bounds, adder, scaler as float or array, mixed
signs allowed) returns, element by element, the pair of `C20_bounds_feasible_image` — the
`np.any(scaler < 0)` fast path and the masked exchange agree with the elementwise description. -/
theorem C20_scaled_bounds_vec (swapNeg : Bool) (inf : K) (adder scaler lower upper : Sv K) (n : Nat)
    (Ls Us la ls : List K) (hl : lower.bcast n = .ok Ls) (hu : upper.bcast n = .ok Us)
    (ha : adder.strict n = .ok la) (hs : scaler.strict n = .ok ls) :
    scaledBounds swapNeg inf (some adder) (some scaler) n (some lower) (some upper)
      = .ok (zip3With (fun s l u => (swapElem inf (swapNeg && decide (s < 0)) l u).1) ls
              (zip3With (fun v a s => boundElem inf true a s v) Ls la ls)
              (zip3With (fun v a s => boundElem inf false a s v) Us la ls),
             zip3With (fun s l u => (swapElem inf (swapNeg && decide (s < 0)) l u).2) ls
              (zip3With (fun v a s => boundElem inf true a s v) Ls la ls)
              (zip3With (fun v a s => boundElem inf false a s v) Us la ls)) := by
  have hLs := Sv.bcast_length hl
  have hUs := Sv.bcast_length hu
  have hla := Sv.strict_length ha
  have hls := Sv.strict_length hs
  have hlo := zip3With_length_eq (fun v a s => boundElem inf true a s v) n Ls la ls hLs hla hls
  have hup := zip3With_length_eq (fun v a s => boundElem inf false a s v) n Us la ls hUs hla hls
  unfold scaledBounds
  rw [C20_bounds_image_vec inf true adder scaler lower n Ls la ls hl ha hs,
    C20_bounds_image_vec inf false adder scaler upper n Us la ls hu ha hs]
  by_cases hc : (swapNeg && scaler.any (fun s => decide (s < 0))) = true
  · have hsw : swapNeg = true := by
      cases swapNeg <;> simp_all
    subst hsw
    simp only [hc, if_true, Sv.strict_bcast hs, zip3With_map_left, Bool.true_and]
  · have hid := zip3With_swap_id inf (fun s => swapNeg && decide (s < 0)) ls
      (zip3With (fun v a s => boundElem inf true a s v) Ls la ls)
      (zip3With (fun v a s => boundElem inf false a s v) Us la ls)
      (by
        intro s hsm
        cases swapNeg with
        | false => rfl
        | true =>
          have : scaler.any (fun s => decide (s < 0)) = false := by simpa using hc
          simpa using Sv.strict_any_false hs this s hsm)
      (by rw [hls, hlo]) (by rw [hup, hlo])
    simp only [hc, Bool.false_eq_true, if_false, hid.1, hid.2]

example : scaledBounds true (10 : Rat) (some (Sv.scalar 1)) (some (Sv.array [2, -4])) 2
    (some (Sv.array [-1, -10])) (some (Sv.array [3, 5])) = .ok ([0, -24], [8, 10]) := by
  decide +kernel

/-- The regenerated `INF_BOUND` is positive, so the two sentinels are distinct and ordered. -/
theorem C20_inf_sentinels :
    0 < Generated.infBound ∧ -Generated.infBound < Generated.infBound := by decide +kernel

example : scaleBound (10 : Rat) true (some (Sv.scalar 1)) (some (Sv.array [2, 4, 8])) 3
    (some (Sv.array [-1, -10, 3])) = .ok [0, -10, 32] ∧
    (2 : Rat) ≤ 3 ∧ scaleElem (1 : Rat) 2 2 ≤ scaleElem 1 2 3 := by decide +kernel

/-! ## Jacobian blocks -/

/-- `apply_jac_scaling` on one rectangular block: entry `(i, j)` becomes
`out_scaler[i] * J[i][j] * (1 / in_scaler[j])`, i.e. `J_s = diag(s_f) · J · diag(s_x)⁻¹`, for float
or array scalers. -/
theorem C20_jac_block (so si : Sv K) (J : Block K) (nc : Nat) (hrect : ∀ r ∈ J, r.length = nc)
    (lo li : List K) (hso : so.bcast J.length = .ok lo) (hsi : si.bcast nc = .ok li) :
    jacScale (some so) (some si) J
      = .ok (List.zipWith (fun s r => List.zipWith (fun x t => s * x / t) r li) lo J) := by
  unfold jacScale rowScale
  simp only [hso]
  rw [colScale_zipWith si nc li hsi lo J hrect]
  congr 2
  funext s r
  congr 1
  funext x t
  ring

/-- With unit conversion of response (`factor uf`) and design variable (`factor ux`) applied first by
`_apply_unit_scaling`: entry `(i, j)` is `(s_f[i]·uf) · J[i][j] / (ux · s_x[j])` — the quotient of the
total scalers of `C20_units_fold`. -/
theorem C20_jac_block_units (so si : Sv K) (uf ux : K) (huf : uf ≠ 0) (hux : ux ≠ 0) (J : Block K)
    (nc : Nat) (hrect : ∀ r ∈ J, r.length = nc) (lo li : List K)
    (hso : so.bcast J.length = .ok lo) (hsi : si.bcast nc = .ok li) :
    jacScale (some so) (some si) (jacUnit (some uf) (some ux) J)
      = .ok (List.zipWith (fun s r => List.zipWith (fun x t => (s * uf) * x / (ux * t)) r li) lo J) := by
  have hJ : jacUnit (some uf) (some ux) J = J.map (fun r => r.map (fun x => x * uf * (1 / ux))) := by
    simp [jacUnit, huf, hux, List.map_map, Function.comp_def]
  rw [hJ, C20_jac_block so si _ nc (by
      intro r hr
      obtain ⟨r', hr', rfl⟩ := List.mem_map.mp hr
      simpa using hrect r' hr') lo li (by simpa using hso) hsi]
  rw [List.zipWith_map_right]
  congr 2
  funext s r
  rw [List.zipWith_map_left]
  congr 1
  funext x t
  ring

/-- The unit factors enter every driver-scaled Jacobian, whether the request lists the variables in
the driver's own order or not (`custom` arbitrary): the gated path is the formula of
`C20_jac_block_units`. -/
theorem C20_jac_units_gate (custom : Bool) (so si : Sv K) (uf ux : K) (huf : uf ≠ 0) (hux : ux ≠ 0)
    (J : Block K) (nc : Nat) (hrect : ∀ r ∈ J, r.length = nc) (lo li : List K)
    (hso : so.bcast J.length = .ok lo) (hsi : si.bcast nc = .ok li) :
    jacScale (some so) (some si) (jacUnitGate custom true (some uf) (some ux) J)
      = .ok (List.zipWith (fun s r => List.zipWith (fun x t => (s * uf) * x / (ux * t)) r li) lo J) := by
  simp only [jacUnitGate, Bool.not_true, Bool.and_false, Bool.false_eq_true, if_false]
  exact C20_jac_block_units so si uf ux huf hux J nc hrect lo li hso hsi

example : jacScale (some (Sv.scalar (4 : Rat))) (some (Sv.scalar 2))
    (jacUnitGate true true (some 1000) (some (1/10)) [[4]]) = .ok [[80000]] := by decide +kernel

/-- The scaled row is the derivative of the scaled response with respect to the scaled design
variables: for an affine response `g(x) = r·x + c`, moving the optimizer's point from `y` to `y'`
changes the scaled response by `J_s · (y' - y)` with `J_s[j] = s_f · r[j] · (1 / s_x[j])` — the
entries `apply_jac_scaling` writes.  Adders of response and design variables drop out. -/
theorem C20_jac_chain_rule (cols : List (Col K)) (sf af c : K) :
    scaleElem af sf (dot (cols.map (·.r)) (cols.map (fun q => unscaleElem q.a q.s q.y')) + c)
      - scaleElem af sf (dot (cols.map (·.r)) (cols.map (fun q => unscaleElem q.a q.s q.y)) + c)
      = dot (cols.map (fun q => sf * q.r * (1 / q.s))) (cols.map (fun q => q.y' - q.y)) := by
  have e1 : dot (cols.map (fun q => sf * q.r * (1 / q.s))) (cols.map (fun q => q.y' - q.y))
      = sf * dot (cols.map (·.r))
          (cols.map (fun q => unscaleElem q.a q.s q.y' - unscaleElem q.a q.s q.y)) := by
    rw [← dot_map_smul_left]
    apply dot_map_congr
    intro q _
    unfold unscaleElem
    ring
  rw [e1, ← dot_map_sub]
  unfold scaleElem
  ring

/-- Both dict layouts (`jac[of][wrt]` and `jac[(of, wrt)]`) are scaled identically: scaling the nested
dict and flattening it is the same as scaling the flattened dict, including which error is raised. -/
theorem C20_jac_layouts_agree (m : JacMeta K) (jac : List (String × List (String × Block K))) :
    mapOk flattenJac (jacNested m jac) = jacFlat m (flattenJac jac) := by
  induction jac with
  | nil => rfl
  | cons ob rest ih =>
    simp only [jacNested, jacFlat] at ih ⊢
    simp only [flattenJac, List.flatMap_cons, mapE_append, mapE_map, mapE] at ih ⊢
    rw [flat_inner (jacBlockStep m ob.1) ob.1 ob.2, ← ih]
    cases mapE (fun wb : String × Block K =>
        mapOk (fun b => (wb.1, b)) (jacBlockStep m ob.1 wb.1 wb.2)) ob.2 with
    | error e => rfl
    | ok inner =>
      cases mapE (fun ob : String × List (String × Block K) =>
          mapOk (fun inner => (ob.1, inner))
            (mapE (fun wb : String × Block K =>
              mapOk (fun b => (wb.1, b)) (jacBlockStep m ob.1 wb.1 wb.2)) ob.2)) rest with
      | error e => rfl
      | ok r => simp [flattenJac, List.flatMap_cons]

example : jacScale (some (Sv.array [(2 : Rat), 4])) (some (Sv.scalar (-2))) [[1, 2], [3, 4]]
    = .ok [[-1, -2], [-6, -8]] := by decide +kernel

/-! ## Lagrange multipliers -/

/-- KKT stationarity transfers from optimizer space to model space with the multipliers of the
docstring formula `λ = λ_s · s_g / s_f` (constraints) and `μ = μ_s · s_x / s_f` (active bound of the
design variable itself).  Stated for the stationarity equation of one design-variable element with
scaler `sx`; `gf` is the objective's model gradient entry, each active constraint element contributes
its model Jacobian entry `G`, scaler `sg` and scaled multiplier `lam`; the scaled gradient entries are
the ones `apply_jac_scaling` writes.  No adder occurs anywhere: the result is independent of them. -/
theorem C20_multiplier_invariant (sf sx gf mus : K) (cons : List (ConRow K)) (hsf : sf ≠ 0)
    (hsx : sx ≠ 0)
    (hstat : sf * gf * (1 / sx)
        + dot (cons.map (fun q => q.sg * q.G * (1 / sx))) (cons.map (·.lam)) + mus = 0) :
    gf + dot (cons.map (·.G)) (cons.map (fun q => multUnscaleElem sf q.sg q.lam))
      + multUnscaleElem sf sx mus = 0 := by
  have e1 : dot (cons.map (fun q => q.sg * q.G * (1 / sx))) (cons.map (·.lam))
      = (1 / sx) * dot (cons.map (fun q => q.sg * q.G)) (cons.map (·.lam)) := by
    rw [← dot_map_smul_left]
    apply dot_map_congr; intro q _; ring
  have e2 : dot (cons.map (·.G)) (cons.map (fun q => multUnscaleElem sf q.sg q.lam))
      = (1 / sf) * dot (cons.map (fun q => q.sg * q.G)) (cons.map (·.lam)) := by
    rw [← dot_map_smul_left]
    apply dot_map_congr; intro q _; unfold multUnscaleElem; ring
  rw [e1] at hstat
  rw [e2]
  unfold multUnscaleElem
  have h2 : (sx / sf) * (sf * gf * (1 / sx)
      + 1 / sx * dot (cons.map (fun q => q.sg * q.G)) (cons.map (·.lam)) + mus) = 0 := by
    rw [hstat]; ring
  rw [← h2]
  field_simp

/-- Two scalings of the same problem: multipliers that satisfy scaled stationarity under either
scaling unscale to multipliers satisfying the *same* model-space equation, so wherever that equation
has a unique solution (independent active gradients) the reported model-unit multipliers coincide.
Conversely every model-space multiplier is reached: scaling it and unscaling returns it. -/
theorem C20_multiplier_roundtrip (sf s lam : K) (hsf : sf ≠ 0) (hs : s ≠ 0) :
    multUnscaleElem sf s (lam * (sf / s)) = lam := by
  unfold multUnscaleElem
  field_simp

/-- What `apply_mult_unscaling` computes for one variable, for a float or array `total_scaler` (or
`None`) and with the unit conversion factors of the variable and of the objective: exactly the
docstring formula elementwise, with the combined scalers `s·u` and `s_f·u_f` — the derivatives of the
total maps of `C20_units_fold`, i.e. the `sf`, `sg`, `sx` of `C20_multiplier_invariant`. -/
theorem C20_multiplier_unscale (so : K) (uo : Option K) (s : Option (Sv K)) (u : Option K)
    (mult ls : List K) (hs : (s.getD (Sv.scalar 1)).bcast mult.length = .ok ls) :
    multUnscale (some (Sv.scalar so)) uo s u mult
      = .ok (List.zipWith (fun l si => multUnscaleElem (so * uo.getD 1) (si * u.getD 1) l) mult ls) := by
  unfold multUnscale
  rw [combinedScaler_eq s u, combinedScaler_eq (some (Sv.scalar so)) uo]
  have e : (Sv.scalar so).map (fun x => x * uo.getD 1) = Sv.scalar (so * uo.getD 1) := rfl
  simp only [Option.getD_some, e, Sv.zip_scalar_right]
  have hb := Sv.bcast_map (fun x => x / (so * uo.getD 1))
    (Sv.bcast_map (fun x => x * u.getD 1) hs)
  unfold bcastOp
  rw [hb]
  simp only [List.map_map, List.zipWith_map_right]
  rfl

example : multUnscale (some (Sv.scalar (1/2 : Rat))) none (some (Sv.array [2, 4])) (some 1000) [1, 3]
    = .ok [4000, 24000] := by decide +kernel

end OMV.C20
