/-
C22 — Constraint violation is measured correctly elementwise and in driver units.
Property theorems only (plus non-vacuity examples).
-/
import OMV.Model.C22
import Mathlib.Algebra.Order.Field.Basic
import Mathlib.Tactic.Linarith
import Mathlib.Tactic.Ring
import Mathlib.Tactic.NormNum

set_option linter.unusedSectionVars false

namespace OMV.C22

variable {K : Type} [Field K] [LinearOrder K] [IsStrictOrderedRing K]

/-- The three masked in-place updates of the code compute the specified violation, for consistent
bounds. -/
theorem C22_viol_formula (g lo hi : K) (h : lo ≤ hi) : violCode g lo hi = violSpec g lo hi := by
  unfold violCode violSpec
  by_cases h1 : g < lo
  · have h2 : ¬ hi < g := not_lt.mpr (le_trans h1.le h)
    have h3 : ¬ (lo ≤ g ∧ g ≤ hi) := fun hh => absurd h1 (not_lt.mpr hh.1)
    simp [h1, h2, h3]
  · by_cases h2 : hi < g
    · have h3 : ¬ (lo ≤ g ∧ g ≤ hi) := fun hh => absurd h2 (not_lt.mpr hh.2)
      simp [h1, h2, h3]
    · have h3 : lo ≤ g ∧ g ≤ hi := ⟨not_lt.mp h1, not_lt.mp h2⟩
      simp [h1, h2, h3]

/-- The hypothesis `lo ≤ hi` is needed: with crossed bounds an element lies in both index sets and
both bounds are subtracted. -/
theorem C22_viol_formula_needs_consistent_bounds :
    violCode (3/2 : Rat) 2 1 ≠ violSpec (3/2 : Rat) 2 1 := by decide +kernel

/-- Zero exactly when the element is feasible. -/
theorem C22_zero_iff_feasible (g lo hi : K) (h : lo ≤ hi) :
    violCode g lo hi = 0 ↔ lo ≤ g ∧ g ≤ hi := by
  rw [C22_viol_formula g lo hi h]
  unfold violSpec
  constructor
  · intro hv
    by_cases h1 : g < lo
    · simp [h1] at hv; exact absurd (sub_eq_zero.mp hv) (ne_of_lt h1)
    · by_cases h2 : hi < g
      · simp [h1, h2] at hv; exact absurd (sub_eq_zero.mp hv) (ne_of_gt h2)
      · exact ⟨not_lt.mp h1, not_lt.mp h2⟩
  · rintro ⟨a, b⟩
    simp [not_lt.mpr a, not_lt.mpr b]

/-- Sign convention: negative below the lower bound, positive above the upper bound, and the
magnitude is the distance to the violated bound. -/
theorem C22_signed_distance (g lo hi : K) (h : lo ≤ hi) :
    (g < lo → violCode g lo hi = g - lo ∧ violCode g lo hi < 0) ∧
    (hi < g → violCode g lo hi = g - hi ∧ 0 < violCode g lo hi) := by
  rw [C22_viol_formula g lo hi h]
  unfold violSpec
  constructor
  · intro h1; simp [h1]
  · intro h2
    have h1 : ¬ g < lo := not_lt.mpr (le_trans h (le_of_lt h2))
    simp [h1, h2]

/-- Driver units, positive scaler: the violation measured on driver-scaled value and bounds equals
the model-unit violation times the scaler; the adder does not enter. -/
theorem C22_scaled_pos (g lo hi a s : K) (hs : 0 < s) :
    violSpec (drv a s g) (drv a s lo) (drv a s hi) = violSpec g lo hi * s := by
  unfold violSpec drv
  have e1 : (g + a) * s < (lo + a) * s ↔ g < lo := by
    rw [mul_lt_mul_iff_of_pos_right hs]; exact add_lt_add_iff_right a
  have e2 : (hi + a) * s < (g + a) * s ↔ hi < g := by
    rw [mul_lt_mul_iff_of_pos_right hs]; exact add_lt_add_iff_right a
  by_cases h1 : g < lo
  · simp only [e1, h1, if_true]; ring
  · by_cases h2 : hi < g
    · simp only [e1, e2, h1, h2, if_true, if_false]; ring
    · simp only [e1, e2, h1, h2, if_false]; ring

/-- Driver units, negative scaler: the scaled interval is reversed, so the scaled lower bound is
the image of the model upper bound; the same product formula holds. -/
theorem C22_scaled_neg (g lo hi a s : K) (h : lo ≤ hi) (hs : s < 0) :
    violSpec (drv a s g) (drv a s hi) (drv a s lo) = violSpec g lo hi * s := by
  unfold violSpec drv
  have e1 : (g + a) * s < (hi + a) * s ↔ hi < g := by
    rw [mul_lt_mul_right_of_neg hs]; exact add_lt_add_iff_right a
  have e2 : (lo + a) * s < (g + a) * s ↔ g < lo := by
    rw [mul_lt_mul_right_of_neg hs]; exact add_lt_add_iff_right a
  by_cases h1 : g < lo
  · have h2 : ¬ hi < g := not_lt.mpr (le_trans h1.le h)
    simp only [e1, e2, h1, h2, if_true, if_false]; ring
  · by_cases h2 : hi < g
    · simp only [e1, e2, h1, h2, if_true, if_false]; ring
    · simp only [e1, e2, h1, h2, if_false]; ring

/-- What the API returns with `driver_scaling=True` is `violation * total_scaler`
(`scaleBy`), i.e. by `C22_scaled_pos` the violation in driver units. -/
theorem C22_scaled (g lo hi a s : K) (h : lo ≤ hi) (hs : 0 < s) :
    scaleBy (some s) (violCode g lo hi) = violSpec (drv a s g) (drv a s lo) (drv a s hi) := by
  rw [C22_scaled_pos g lo hi a s hs, C22_viol_formula g lo hi h]; rfl

/-- Equality constraints: zero iff satisfied; scaled deviation is the deviation in driver units. -/
theorem C22_eq_zero_iff (g e : K) : violEq g e = 0 ↔ g = e := by
  unfold violEq; exact sub_eq_zero

theorem C22_eq_scaled (g e a s : K) : violEq (drv a s g) (drv a s e) = violEq g e * s := by
  unfold violEq drv; ring

/-- Array level: every element of the returned vector is the spec of its own element. -/
theorem C22_vec_pointwise (g l h : List K) (i : Nat) (hi : i < (zip3With violCode g l h).length)
    (hg : i < g.length) (hl : i < l.length) (hh : i < h.length) :
    (zip3With violCode g l h)[i] = violCode g[i] l[i] h[i] := by
  induction g generalizing l h i with
  | nil => simp at hg
  | cons a as ih =>
    cases l with
    | nil => simp at hl
    | cons b bs =>
      cases h with
      | nil => simp at hh
      | cons c cs =>
        cases i with
        | zero => simp [zip3With]
        | succ k =>
          simp only [zip3With, List.getElem_cons_succ]
          exact ih bs cs k _ _ _ _

-- non-vacuity: hypotheses are met by a concrete non-trivial instance
example : (1 : Rat) ≤ 5 ∧ violCode (8 : Rat) 1 5 = 3 ∧ violCode (0 : Rat) 1 5 = -1 ∧
    violCode (2 : Rat) 1 5 = 0 := by decide +kernel

end OMV.C22
