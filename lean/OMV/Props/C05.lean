/-
C05 — Index objects follow NumPy indexing semantics.
Property theorems only (plus non-vacuity examples).  Helper lemmas: OMV/Proofs/C05.lean.
-/
import OMV.Model.C05
import OMV.Proofs.C05
import OMV.Proofs.C05b

namespace OMV.C05

/-! ## Slices: what a resolved slice selects -/

/-- The positions selected by a slice on an axis of extent `n` are exactly the arithmetic
progression `s, s+st, s+2st, …` strictly before `e`, where `(s, e, st) = slice.indices(n)`; the
`k`-th selected position is `s + k*st` and their number is Python's length formula `rangeLen`. -/
theorem C05_slice_progression (a b c : Option Int) (n : Nat) (s e st : Int)
    (h : pyIndices a b c n = some (s, e, st)) :
    npSlice a b c n = .ok ((arange s e st).map Int.toNat) ∧
    (arange s e st).length = rangeLen s e st ∧
    (∀ k (hk : k < (arange s e st).length), (arange s e st)[k] = s + (k : Int) * st) ∧
    (∀ x, x ∈ arange s e st ↔
      ∃ k : Nat, x = s + (k : Int) * st ∧ (0 < st → x < e) ∧ (st < 0 → e < x)) := by
  obtain ⟨h0, _⟩ := pyIndices_bounds a b c n s e st h
  refine ⟨by simp [npSlice, h, pure, Except.pure], arange_length s e st,
    fun k hk => arange_getElem s e st k hk, fun x => mem_arange s e st x h0⟩

/-- Every selected position lies inside the axis, and no more than `n` positions are selected. -/
theorem C05_slice_indices_in_bounds (a b c : Option Int) (n : Nat) (s e st : Int)
    (h : pyIndices a b c n = some (s, e, st)) :
    (∀ x ∈ arange s e st, 0 ≤ x ∧ x < n) ∧ rangeLen s e st ≤ n := by
  obtain ⟨_, _, hp, hn⟩ := pyIndices_bounds a b c n s e st h
  exact ⟨fun x hx => mem_arange_in_bounds a b c n s e st h x hx,
    rangeLen_le s e st n (fun h => by have := hp h; omega) (fun h => by have := hn h; omega)⟩

example : pyIndices (some (-2)) none (some (-2)) 7 = some (5, -1, -2) ∧
    arange 5 (-1) (-2) = [5, 3, 1] := by decide +kernel

/-! ## Shaped instances: resolving negatives and open slices does not change the selection -/

/-- `IntIndexer.shaped_instance` / `ArrayIndexer.shaped_instance`: once the bounds check against
the axis extent has passed, adding the extent to negative entries does not change what NumPy
selects, and the resolved entries pass the check again. -/
theorem C05_shaped_int_preserves (n : Nat) :
    (∀ i : Int, checkInt i n = .ok () →
      wrapIdx n (shapedInt i n) = wrapIdx n i ∧ 0 ≤ shapedInt i n ∧ shapedInt i n < n) ∧
    (∀ d : List Int, checkArr d n = .ok () →
      wrapAll n (d.map (shapedInt · n)) = wrapAll n d ∧
      checkArr (d.map (shapedInt · n)) n = .ok ()) :=
  ⟨fun i h => ⟨wrapIdx_shapedInt i n h, shapedInt_range i n ((checkInt_ok i n).mp h)⟩,
   fun d h => ⟨wrapAll_shaped d n h, checkArr_shaped d n h⟩⟩

example : checkInt (-2) 5 = .ok () ∧ shapedInt (-2) 5 = 3 := by decide +kernel

/-- `SliceIndexer.shaped_instance`: for every slice and every extent `n` (no bounds-check
hypothesis), the resolved slice selects the same positions on an axis of extent `n`: the -1 that
`slice.indices` returns for "before the first entry" is never put back into a slice.  If the
slice passed `_check_bounds` against `n`, the resolved slice passes it again. -/
theorem C05_shaped_slice_preserves (a b c : Option Int) (n : Nat)
    (a' b' : Option Int) (st' : Int)
    (hsh : shapedSlice a b (c.getD 1) n = .ok (a', b', st')) :
    npSlice a' b' (some st') n = npSlice a b c n ∧
      (checkSlice a b n = .ok () → checkSlice a' b' n = .ok ()) :=
  ⟨npSlice_shapedSlice a b c n a' b' st' hsh,
   fun hchk => checkSlice_shaped a b _ n a' b' st' hchk hsh⟩

example : shapedSlice (some (-3)) none 1 5 = .ok (some 2, some 5, 1) ∧
    shapedSlice none (some 3) (-1) 6 = .ok (some 5, some 3, -1) ∧
    shapedSlice (some 1) (some (-5)) (-1) 3 = .ok (some 1, none, -1) ∧
    shapedSlice (some (-10)) (some 0) (-1) 3 = .ok (some 0, some 0, -1) := by decide +kernel

/-- Regression witnesses for the two slice defects fixed in /repo (e1a49c4): a non-tuple
negative-step slice below `-shape[0]` into a rank-2 source (`1:-5:-1` and `-10:0:-1` on (3, 4),
bounds-checked against the total size 12) and the open-start negative-step slice on a flat source
(`:3:-1`, `:3:-2` on size 6) now give NumPy's positions and shape. -/
theorem C05_fixed_slice_witnesses :
    (omIndexer (.one (.slice (some 1) (some (-5)) (some (-1)))) [3, 4] false).map
      (fun o => (o.positions, o.rshape)) = .ok (.ok [4, 5, 6, 7, 0, 1, 2, 3], .ok [2, 4]) ∧
    npIndex [3, 4] (.one (.slice (some 1) (some (-5)) (some (-1))))
      = .ok ([4, 5, 6, 7, 0, 1, 2, 3], [2, 4]) ∧
    (omIndexer (.one (.slice (some (-10)) (some 0) (some (-1)))) [3, 4] false).map
      (fun o => (o.positions, o.rshape)) = .ok (.ok [], .ok [0, 4]) ∧
    npIndex [3, 4] (.one (.slice (some (-10)) (some 0) (some (-1)))) = .ok ([], [0, 4]) ∧
    (omIndexer (.one (.slice none (some 3) (some (-1)))) [6] true).map (·.positions)
      = .ok (.ok [5, 4]) ∧
    (omIndexer (.one (.slice none (some 3) (some (-2)))) [2, 3] true).map (·.positions)
      = .ok (.ok [5]) ∧
    npIndex [6] (.one (.slice none (some 3) (some (-2)))) = .ok ([5], [1]) := by decide +kernel

/-! ## Refinement: tuples -/

/-- A tuple index without ellipsis (`MultiIndexer`, any rank, `flat_src` or not): whenever
`indexer(...)` accepts it, the flat positions (`shaped_array()`) and the result shape
(`indexed_src_shape`) are exactly NumPy's for the same tuple.  (`stepOk`: no zero slice step, which
both sides reject.) -/
theorem C05_tuple_refines_numpy (xs : List Ix) (srcShape : List Nat) (flat : Bool) (out : Out)
    (hne : xs.any isEll = false) (hstep : ∀ x ∈ xs, stepOk x)
    (h : omIndexer (.tup xs) srcShape flat = .ok out) :
    let shp := if flat then [prod srcShape] else srcShape
    out.positions = (npIndex shp (.tup xs)).map (fun r => natsToInts r.1) ∧
      out.rshape = (npIndex shp (.tup xs)).map (·.2) := by
  simp only [omIndexer, hne, Bool.false_eq_true, if_false] at h
  refine omMulti_refines xs _ flat out hne hstep ?_ h
  intro hf; simp [hf]

example : (omIndexer (.tup [.int (-1), .slice none none (some 2), .arr [2] [0, -1]]) [2, 5, 3] false).map
    (·.positions) = .ok (.ok [15, 21, 27, 17, 23, 29]) := by decide +kernel

/-! ## Refinement: tuples with an ellipsis -/

/-- A tuple with one ellipsis into a source of rank >= 2 (`EllipsisIndexer`): the code expands the
ellipsis and proceeds as for a plain tuple.  That is NumPy's result provided the expansion does not
change NumPy's placement rule for the advanced block (`advConsecutive`), which is the case unless
the ellipsis expands to *no* axis between two advanced indices. -/
theorem C05_ellipsis_refines_partial (xs : List Ix) (shp : List Nat) (out : Out)
    (h1 : xs.countP isEll = 1) (hstep : ∀ x ∈ xs, stepOk x) (hrank : shp.length ≠ 1)
    (hcons : advConsecutive (xs.flatMap (ellFill (shp.length + 1 - xs.length))) = advConsecutive xs)
    (h : omIndexer (.tup xs) shp false = .ok out) :
    out.positions = (npIndex shp (.tup xs)).map (fun r => natsToInts r.1) ∧
      out.rshape = (npIndex shp (.tup xs)).map (·.2) := by
  have hany : xs.any isEll = true := by
    rw [List.any_eq_true]
    have : 0 < xs.countP isEll := by omega
    obtain ⟨x, hx, he⟩ := List.countP_pos_iff.mp this
    exact ⟨x, hx, he⟩
  simp only [omIndexer, hany, if_true, Bool.false_eq_true, if_false] at h
  exact omEllipsis_refines xs shp out h1 hstep hrank hcons h

example : (omIndexer (.tup [.ellipsis, .arr [2] [0, -1], .int 1]) [2, 3, 4] false).map (·.positions)
    = .ok (.ok [1, 9, 13, 21]) := by decide +kernel

/-- The placement hypothesis is needed: in `a[:, [0], ..., [0, 0]]` on shape (1, 1, 1) the ellipsis
expands to nothing, the code drops it and the two arrays become adjacent: result shape (1, 2)
where NumPy (arrays separated by the ellipsis, block first) gives (2, 1). -/
theorem C05_ellipsis_zero_width_counterexample :
    (omIndexer (.tup [.slice none none none, .arr [1] [0], .ellipsis, .arr [2] [0, 0]]) [1, 1, 1]
      false).map (·.rshape) = .ok (.ok [1, 2]) ∧
    (npIndex [1, 1, 1] (.tup [.slice none none none, .arr [1] [0], .ellipsis, .arr [2] [0, 0]])).map
      (·.2) = .ok [2, 1] := by decide +kernel

/-! ## Refinement: non-tuple indices into a rank-1 (or flattened) source -/

/-- `indexer(i)` on a rank-1 / flat source (`ShapedIntIndexer.as_array = [idx]`). -/
theorem C05_rank1_int_refines (i : Int) (srcShape : List Nat) (flat ts : Bool) (out : Out)
    (hr : flat = true ∨ srcShape.length = 1)
    (h : omIndexer (.one (.int i)) srcShape flat ts = .ok out) :
    let shp := if flat then [prod srcShape] else srcShape
    out.positions = (npIndex shp (.one (.int i))).map (fun r => natsToInts r.1) ∧
      out.rshape = (npIndex shp (.one (.int i))).map (·.2) := by
  obtain ⟨N, hN⟩ := rank1_shape srcShape flat hr
  simp only [omIndexer, hN] at h ⊢
  exact omOne_int_rank1 i N flat ts out h

example : (omIndexer (.one (.int (-2))) [2, 3] true).map (·.positions) = .ok (.ok [4]) ∧
    npIndex [6] (.one (.int (-2))) = .ok ([4], []) := by decide +kernel

/-- `indexer(arr)` with a 1-D integer array on a rank-1 / flat source
(`ShapedArrayIndexer.as_array = ravel`). -/
theorem C05_rank1_array_refines (d : List Int) (srcShape : List Nat) (flat : Bool) (out : Out)
    (hr : flat = true ∨ srcShape.length = 1)
    (h : omIndexer (.one (.arr [d.length] d)) srcShape flat false = .ok out) :
    let shp := if flat then [prod srcShape] else srcShape
    out.positions = (npIndex shp (.one (.arr [d.length] d))).map (fun r => natsToInts r.1) ∧
      out.rshape = (npIndex shp (.one (.arr [d.length] d))).map (·.2) := by
  obtain ⟨N, hN⟩ := rank1_shape srcShape flat hr
  simp only [omIndexer, hN] at h ⊢
  exact omOne_arr_rank1 d N flat out h

example : (omIndexer (.one (.arr [3] [0, -1, 2])) [2, 3] true).map (·.positions)
    = .ok (.ok [0, 5, 2]) := by decide +kernel

/-- `indexer(slice)` on a rank-1 / flat source: the fast path
`np.arange(*slc.indices(sys.maxsize))` on the resolved slice gives NumPy's positions and shape for
every slice with a non-zero step (a zero step is rejected by both sides), for every source small
enough to be allocated (`prod srcShape <= 2^40 < sys.maxsize`). -/
theorem C05_rank1_slice_refines (a b c : Option Int) (srcShape : List Nat)
    (flat ts : Bool) (out : Out)
    (hr : flat = true ∨ srcShape.length = 1)
    (h0 : c.getD 1 ≠ 0)
    (hN : (prod srcShape : Int) < maxsize) (hA : prod srcShape ≤ allocLimit)
    (h : omIndexer (.one (.slice a b c)) srcShape flat ts = .ok out) :
    let shp := if flat then [prod srcShape] else srcShape
    out.positions = (npIndex shp (.one (.slice a b c))).map (fun r => natsToInts r.1) ∧
      out.rshape = (npIndex shp (.one (.slice a b c))).map (·.2) := by
  obtain ⟨N, hN'⟩ := rank1_shape srcShape flat hr
  have hp : prod srcShape = N := by
    cases flat with
    | true => simpa using hN'
    | false =>
      simp only [Bool.false_eq_true, if_false] at hN'
      rw [hN', prod_single]
  rw [hp] at hN hA
  simp only [omIndexer, hN'] at h ⊢
  exact omOne_slice_rank1 a b c N flat ts out h0 hN hA h

example : (omIndexer (.one (.slice (some (-2)) none (some (-2)))) [7] false).map (·.positions)
    = .ok (.ok [5, 3, 1]) ∧
    (omIndexer (.one (.slice none (some 1) (some (-2)))) [7] false).map (·.positions)
    = .ok (.ok [6, 4, 2]) := by decide +kernel

/-! ## Non-tuple slices into a source of any rank -/

/-- `indexer(slice)` with `flat_src=False` on a source of rank >= 2: the slice applies to axis 0
and whole sub-arrays are selected; positions and result shape are NumPy's whenever the call is
accepted (`_check_bounds` is made against the total size here, which no longer matters). -/
theorem C05_bare_slice_multidim_refines (a b c : Option Int) (n0 : Nat) (rest : List Nat) (ts : Bool)
    (out : Out) (hrank : rest ≠ []) (h0 : c.getD 1 ≠ 0)
    (h : omIndexer (.one (.slice a b c)) (n0 :: rest) false ts = .ok out) :
    out.positions = (npIndex (n0 :: rest) (.one (.slice a b c))).map (fun r => natsToInts r.1) ∧
      out.rshape = (npIndex (n0 :: rest) (.one (.slice a b c))).map (·.2) := by
  simp only [omIndexer, Bool.false_eq_true, if_false] at h
  exact omOne_slice_anyrank a b c n0 rest false ts out hrank h0 h

example : (omIndexer (.one (.slice (some 5) none (some (-2)))) [3, 2] false).map (·.positions)
    = .ok (.ok [4, 5, 0, 1]) := by decide +kernel

/-! ## Non-tuple indices into a rank >= 2 source with `flat_src=False` -/

/-- The result shape is right for a non-tuple int into a source of any rank … -/
theorem C05_bare_int_shape_refines (i : Int) (n0 : Nat) (rest : List Nat) (ts : Bool) (out : Out)
    (h : omIndexer (.one (.int i)) (n0 :: rest) false ts = .ok out) :
    out.rshape = (npIndex (n0 :: rest) (.one (.int i))).map (·.2) := by
  simp only [omIndexer, Bool.false_eq_true, if_false, omOne, List.headD_cons, bind, Except.bind,
    pure, Except.pure] at h
  split at h
  · simp at h
  · rename_i u hchk
    cases u
    simp only [Except.ok.injEq] at h
    subst h
    have hc : checkAll [Ix.int i] (n0 :: rest) = .ok () := by
      simp [checkAll, checkIx, hchk, bind, Except.bind, pure, Except.pure]
    have hs : shapedAll [Ix.int i] (n0 :: rest) = .ok [Ix.int (shapedInt i n0)] := by
      simp [shapedAll, shapedIx, bind, Except.bind, pure, Except.pure]
    have := (npIndex_shaped [Ix.int i] _ (n0 :: rest) rfl (by simp) hc hs).1
    show Except.map _ (npIndex (n0 :: rest) (.tup [Ix.int (shapedInt i n0)])) =
      Except.map _ (npIndex (n0 :: rest) (.tup [Ix.int i]))
    rw [this]

example : (omIndexer (.one (.int (-1))) [3, 4] false).map (·.rshape) = .ok (.ok [4]) ∧
    (npIndex [3, 4] (.one (.int (-1)))).map (·.2) = .ok [4] := by decide +kernel

/-- … but the flat positions are not: `ShapedIntIndexer.as_array` returns `[idx]` whatever the
rank, where NumPy selects the whole row. `indexer(1, src_shape=(3, 4), flat_src=False)`. -/
theorem C05_bare_int_multidim_counterexample :
    (omIndexer (.one (.int 1)) [3, 4] false).map (·.positions) = .ok (.ok [1]) ∧
    (omIndexer (.one (.int 1)) [3, 4] false).map (·.rshape) = .ok (.ok [4]) ∧
    npIndex [3, 4] (.one (.int 1)) = .ok ([4, 5, 6, 7], [4]) := by decide +kernel

/-- Same for a non-tuple 1-D integer array (`ShapedArrayIndexer.as_array` returns the array);
moreover its bounds are checked against the total size, so `[0, 5]` is accepted for shape (3, 4)
although NumPy raises. `indexer([0, 2], src_shape=(3, 4), flat_src=False)`. -/
theorem C05_bare_array_multidim_counterexample :
    (omIndexer (.one (.arr [2] [0, 2])) [3, 4] false).map (·.positions) = .ok (.ok [0, 2]) ∧
    npIndex [3, 4] (.one (.arr [2] [0, 2])) = .ok ([0, 1, 2, 3, 8, 9, 10, 11], [2, 4]) ∧
    (omIndexer (.one (.arr [2] [0, 5])) [3, 4] false).map (·.positions) = .ok (.ok [0, 5]) ∧
    npIndex [3, 4] (.one (.arr [2] [0, 5])) = .error .index := by decide +kernel

/-- A non-tuple array with ndim >= 2 is reinterpreted as `tuple(rows)` (NumPy < 1.23 semantics,
with a deprecation warning): `[[0, 1], [1, 0]]` on shape (3, 4) selects elements (0,1) and (1,0)
where NumPy selects rows 0, 1, 1, 0; on a flat source the call raises RuntimeError. -/
theorem C05_array2d_reinterpreted_counterexample :
    (omIndexer (.one (.arr [2, 2] [0, 1, 1, 0])) [3, 4] false).map (fun o => (o.positions, o.rshape))
      = .ok (.ok [1, 4], .ok [2]) ∧
    npIndex [3, 4] (.one (.arr [2, 2] [0, 1, 1, 0]))
      = .ok ([0, 1, 2, 3, 4, 5, 6, 7, 4, 5, 6, 7, 0, 1, 2, 3], [2, 2, 4]) ∧
    (omIndexer (.one (.arr [2, 2] [0, 1, 1, 0])) [3, 4] true).map (·.positions) = .error .runtime ∧
    npIndex [12] (.one (.arr [2, 2] [0, 1, 1, 0])) = .ok ([0, 1, 1, 0], [2, 2]) := by decide +kernel

/-! ## Bounds checks -/

/-- For integers and integer arrays, `_check_bounds` against the extent of the axis accepts
exactly what NumPy accepts on that axis.  (For slices the code is deliberately stricter than NumPy,
which clamps: `checkSlice_ok` in the proofs file gives the exact accepted set.) -/
theorem C05_bounds_error_iff (n : Nat) :
    (∀ i : Int, checkInt i n = .ok () ↔ ∃ k, wrapIdx n i = .ok k) ∧
    (∀ d : List Int, checkArr d n = .ok () ↔ ∃ l, wrapAll n d = .ok l) ∧
    (∀ a b : Option Int, checkSlice a b n = .ok () ↔
      (a = b ∨ ((∀ v, a = some v → -(n : Int) ≤ v ∧ v < n) ∧
                (∀ w, b = some w → -(n : Int) ≤ w ∧ w ≤ n)))) := by
  refine ⟨fun i => ⟨fun h => ⟨_, wrapIdx_of_check i n h⟩, ?_⟩,
    fun d => ⟨fun h => ⟨_, wrapAll_of_check d n h⟩, ?_⟩, fun a b => checkSlice_ok a b n⟩
  · rintro ⟨k, hk⟩
    refine (checkInt_ok i n).mpr ?_
    unfold wrapIdx at hk
    split at hk
    · simp [throw, throwThe, MonadExceptOf.throw] at hk
    · omega
  · rintro ⟨l, hl⟩
    refine (checkArr_ok d n).mpr ?_
    induction d generalizing l with
    | nil => simp
    | cons x xs ih =>
      simp only [wrapAll, bind, Except.bind] at hl
      split at hl
      · simp at hl
      · rename_i j hj
        split at hl
        · simp at hl
        · rename_i js hjs
          intro y hy
          rcases List.mem_cons.mp hy with rfl | hy'
          · unfold wrapIdx at hj
            split at hj
            · simp [throw, throwThe, MonadExceptOf.throw] at hj
            · omega
          · exact ih js hjs y hy'

example : checkInt 5 5 = .error .index ∧ wrapIdx 5 5 = .error .index ∧
    checkSlice (some 0) (some 6) 5 = .error .index ∧ npSlice (some 0) (some 6) none 5 = .ok [0, 1, 2, 3, 4] := by
  decide +kernel

/-! ## array2slice -/

/-- Soundness: if `array2slice` returns a slice, that slice selects exactly the array's entries,
in order, on every source large enough to contain them (and then all entries are non-negative, so
no wrap-around is involved). -/
theorem C05_array2slice_sound (a : List Int) (s e : Int) (st : Option Int)
    (h : array2slice a = some (s, e, st)) (n : Nat) (hn : ∀ x ∈ a, x < (n : Int)) :
    npSlice (some s) (some e) st n = .ok (a.map Int.toNat) ∧ (∀ x ∈ a, 0 ≤ x) :=
  array2slice_sound a s e st h n hn

example : array2slice [7, 5, 3] = some (7, 2, some (-2)) ∧
    npSlice (some 7) (some 2) (some (-2)) 9 = .ok [7, 5, 3] := by decide +kernel

/-- Completeness on progressions: a non-negative arithmetic progression of length >= 2 with
non-zero step is converted, except the descending one that ends at 0 (its stop would be -1, which
a slice would read as "last element"): there `None` is returned and the array is kept, which loses
nothing. -/
theorem C05_array2slice_none_iff (x st : Int) (m : Nat) (hst : st ≠ 0)
    (hnn : ∀ v ∈ prog x st (m + 2), 0 ≤ v) :
    array2slice (prog x st (m + 2)) = none ↔ (st < 0 ∧ x + ((m : Int) + 1) * st = 0) := by
  have h0 : 0 ≤ x := by
    have := hnn x ((mem_prog x st _ x).mpr ⟨0, by omega, by simp⟩); exact this
  have h1 : 0 ≤ x + st := by
    have := hnn (x + st) ((mem_prog x st _ _).mpr ⟨1, by omega, by simp⟩); exact this
  have hl : 0 ≤ x + ((m : Int) + 1) * st := by
    have := hnn (x + ((m : Int) + 1) * st) ((mem_prog x st _ _).mpr ⟨m + 1, by omega, by simp⟩)
    exact this
  rw [array2slice_prog x st m hst]
  have hc : ¬ (x < 0 ∨ x + st < 0) := by omega
  simp only [hc, if_false]
  by_cases hp : 0 < st
  · simp only [hp, if_true]
    constructor
    · intro h; simp at h
    · intro h; omega
  · simp only [hp, if_false]
    by_cases hq : 0 < x + ((m : Int) + 1) * st
    · simp only [hq, if_true]
      constructor
      · intro h; simp at h
      · intro h; omega
    · simp only [hq, if_false, true_iff]
      omega

example : array2slice (prog 4 (-2) 3) = none ∧ prog 4 (-2) 3 = [4, 2, 0] := by decide +kernel

/-- `indexer(arr, try_slice=True)` on a rank-1 / flat source: when the array is converted to a
slice, the selected positions are still exactly the array's entries, in order, and the result
shape is the array's shape — conversion of an index array to a slice never changes the selection. -/
theorem C05_try_slice_preserves (d : List Int) (srcShape : List Nat) (flat : Bool) (out : Out)
    (s e : Int) (st : Option Int) (h2 : array2slice d = some (s, e, st))
    (hr : flat = true ∨ srcShape.length = 1)
    (hall : ∀ x ∈ d, x < (prod srcShape : Int))
    (hN : (prod srcShape : Int) < maxsize) (hA : prod srcShape ≤ allocLimit)
    (h : omIndexer (.one (.arr [d.length] d)) srcShape flat true = .ok out) :
    out.positions = .ok d ∧ out.rshape = .ok [d.length] := by
  obtain ⟨N, hN'⟩ := rank1_shape srcShape flat hr
  have hp : prod srcShape = N := by
    cases flat with
    | true => simpa using hN'
    | false =>
      simp only [Bool.false_eq_true, if_false] at hN'
      rw [hN', prod_single]
  rw [hp] at hN hA hall
  simp only [omIndexer, hN'] at h
  exact omOne_trySlice_rank1 d N flat out s e st h2 hall hN hA h

example : (omIndexer (.one (.arr [3] [5, 3, 1])) [7] false true).map (·.positions)
    = .ok (.ok [5, 3, 1]) ∧ array2slice [5, 3, 1] = some (5, 0, some (-2)) := by decide +kernel

/-! ## Flat positions and result shape of basic indexing -/

/-- For a full-rank tuple of integers and slices NumPy's flat source positions are
`Σ_axis idx_axis * stride_axis` (C-order strides of the source shape), enumerated over the
Cartesian product of the per-axis index lists in C order; the result shape lists the slice
extents.  `ravel` maps in-bounds multi-indices injectively into `[0, prod shape)`. -/
theorem C05_flat_position_formula (shape : List Nat) (xs : List Ix)
    (hlen : xs.length = shape.length) (hb : ∀ x ∈ xs, x.basic)
    (axes : List Ax) (hr : resolveAll false xs shape = .ok axes) :
    npIndex shape (.tup xs) =
      .ok ((cartesian (axes.map axisList)).map (ravel shape), sliceLens axes) ∧
    (∀ idx, InBounds idx shape → ravel shape idx < prod shape) ∧
    (∀ idx idx', InBounds idx shape → InBounds idx' shape →
      ravel shape idx = ravel shape idx' → idx = idx') :=
  ⟨npIndex_basic shape xs hlen hb axes hr, ravel_lt shape, ravel_inj shape⟩

example : npIndex [3, 4] (.tup [.slice (some 1) none none, .int (-1)]) = .ok ([7, 11], [2]) ∧
    ravel [3, 4] [2, 3] = 11 := by decide +kernel

/-- The number of selected positions is the product of the result shape. -/
theorem C05_result_shape_size (shape : List Nat) (xs : List Ix)
    (hlen : xs.length = shape.length) (hb : ∀ x ∈ xs, x.basic)
    (pos rshape : List Nat) (h : npIndex shape (.tup xs) = .ok (pos, rshape)) :
    pos.length = prod rshape := by
  cases hr : resolveAll false xs shape with
  | error e =>
    have hcnt := countP_isEll_basic xs hb
    have hem : emptyBlock xs = false := by simp [emptyBlock, ixShapes_basic xs hb, prod]
    simp [npIndex, specEntries, expand, hcnt, hlen, hem, hr, bind, Except.bind, pure,
      Except.pure] at h
  | ok axes =>
    obtain ⟨hbasic, hal⟩ := resolveAll_basic false xs shape axes hb hlen hr
    have hz : ∀ p ∈ axes.zip (strides shape), p.1.basic := by
      intro p hp
      obtain ⟨a, s⟩ := p
      exact hbasic a (mem_zip_fst hp)
    have hcnt := countP_isEll_basic xs hb
    have hem : emptyBlock xs = false := by simp [emptyBlock, ixShapes_basic xs hb, prod]
    simp only [npIndex, specEntries, expand, hcnt, Nat.sub_zero, gt_iff_lt, Nat.lt_irrefl, if_false,
      Nat.not_lt_zero, Nat.zero_ne_one, hlen, Nat.sub_self, List.replicate_zero, List.append_nil,
      bind, Except.bind, pure, Except.pure, hem, hr, assemble_basic _ _ hz, Except.ok.injEq,
      Prod.mk.injEq] at h
    obtain ⟨rfl, rfl⟩ := h
    rw [List.length_map, outer_length]

end OMV.C05
