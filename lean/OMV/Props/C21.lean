/-
C21 — Optimizer success implies a feasible reported design.
Property theorems only (plus non-vacuity examples and the counterexamples for the anchored code).

`Variant.fixed` is the repaired glue, `Variant.current` the code in the anchored tree
(see `OMV/Model/C21.lean`).  `inf` stands for `INF_BOUND`; all statements are over an arbitrary
linearly ordered field, the counterexamples are over `Rat` with `inf = 1000`.
-/
import OMV.Model.C21
import OMV.Proofs.C21
import OMV.Proofs.C21New
import OMV.Proofs.C21Opt
import Mathlib.Tactic.NormNum
import Mathlib.Algebra.BigOperators.Fin

set_option linter.unusedSectionVars false
set_option linter.unusedVariables false

namespace OMV.C21

variable {K : Type} [Field K] [LinearOrder K] [IsStrictOrderedRing K]

/-! ## 1. The constraint dicts say exactly "every element is within its bounds" (SLSQP, COBYLA) -/

/-- Repaired loop: for every bound pattern (per element lower / upper / both / none, or equality;
scalar or array), all dicts handed to scipy are satisfied within `tol` iff every element respects
every bound that is set, within `tol` (driver units). -/
theorem C21_dicts_cover (v : Variant) (hv : v.rebind = false) (inf tol : K) (c : Con K)
    (g : Nat → K) (htol : 0 ≤ tol) (hg : ∀ j, j < c.size → g j < inf) :
    (∀ r ∈ oldRecords v inf c, recSat tol r.kind (confunc inf c g r)) ↔
      ∀ j, j < c.size → ElemOK inf tol c g j :=
  dicts_cover_gen v inf tol c g htol hg (fun h => by rw [hv] at h; exact absurd h (by simp))

/-- Anchored loop (`upper = upper[j]` rebinds the arrays): the same equivalence only when element 0
is double-sided or no later element is. -/
theorem C21_dicts_cover_partial (inf tol : K) (c : Con K) (g : Nat → K) (htol : 0 ≤ tol)
    (hg : ∀ j, j < c.size → g j < inf)
    (hpat : isDbl inf (c.upper 0) (c.lower 0) = true ∨
      ∀ j, 0 < j → j < c.size → isDbl inf (c.upper j) (c.lower j) = false) :
    (∀ r ∈ oldRecords Variant.current inf c, recSat tol r.kind (confunc inf c g r)) ↔
      ∀ j, j < c.size → ElemOK inf tol c g j :=
  dicts_cover_gen Variant.current inf tol c g htol hg (fun _ => hpat)

/-- `lower = [-INF, 0]`, `upper = [5, 1]`: element 0 is upper-only, element 1 two-sided. -/
def cexOld : Con Rat :=
  ⟨2, fun j => if j = 0 then -1000 else 0, fun j => if j = 0 then 5 else 1, none, false⟩

/-- The anchored loop loses the upper bound of element 1: at `g = [3, 3]` every dict is satisfied
exactly, yet element 1 exceeds its upper bound 1 by 2.  The repaired loop rejects the point. -/
theorem C21_dicts_lose_bound :
    (∀ r ∈ oldRecords Variant.current 1000 cexOld,
        recSat 0 r.kind (confunc 1000 cexOld (fun _ => 3) r)) ∧
      ¬ ElemOK 1000 0 cexOld (fun _ => 3) 1 ∧
      ¬ (∀ r ∈ oldRecords Variant.fixed 1000 cexOld,
        recSat 0 r.kind (confunc 1000 cexOld (fun _ => 3) r)) := by
  decide +kernel

-- non-vacuity: a mixed pattern (upper-only, two-sided, lower-only, unbounded) with a feasible point
example :
    let c : Con Rat := ⟨4, fun j => if j = 1 then 0 else if j = 2 then -2 else -1000,
      fun j => if j = 0 then 5 else if j = 1 then 1 else 1000, none, false⟩
    let g : Nat → Rat := fun j => if j = 0 then 5 else if j = 1 then 1/2 else 7
    (oldRecords Variant.fixed 1000 c).length = 5 ∧
      (∀ r ∈ oldRecords Variant.fixed 1000 c, recSat 0 r.kind (confunc 1000 c g r)) ∧
      (∀ j, j < c.size → ElemOK 1000 0 c g j) := by
  decide +kernel

/-! ## 2. New-style constraint objects (trust-constr) -/

/-- Repaired code: one `NonlinearConstraint` per element, or a `LinearConstraint` with all rows and
the constant term moved into the bounds.  All objects satisfied iff all elements feasible. -/
theorem C21_newstyle_cover (v : Variant) (hl : v.lastOnly = false) (hr : v.linRow0 = false)
    (inf tol : K) (c : Con K) (g ax off : Nat → K) (htol : 0 ≤ tol)
    (hg : ∀ j, j < c.size → -inf < g j ∧ g j < inf)
    (he : ∀ e, c.equals = some e → ∀ j, j < c.size → -inf < e j ∧ e j < inf)
    (haff : c.linear = true → ∀ j, j < c.size → g j = ax j + off j) :
    ∃ recs, newRecords v inf c off = some recs ∧
      ((∀ r ∈ recs, newSat tol g ax r) ↔ ∀ j, j < c.size → ElemOK inf tol c g j) := by
  unfold newRecords
  cases hlin : c.linear
  · simp only [hl, Bool.false_eq_true, if_false]
    refine ⟨_, rfl, ?_⟩
    rw [forall_mem_map_range]
    constructor
    · intro h j hj
      exact (nl_sat_iff inf tol c g ax j htol (hg j hj) (fun e hc => he e hc j hj)).mp (h j hj)
    · intro h j hj
      exact (nl_sat_iff inf tol c g ax j htol (hg j hj) (fun e hc => he e hc j hj)).mpr (h j hj)
  · simp only [hr, Bool.false_eq_true, if_false, if_true]
    refine ⟨_, rfl, ?_⟩
    rw [forall_mem_map_range]
    constructor
    · intro h j hj
      exact (lin_sat_iff inf tol c g ax off j htol (hg j hj) (haff hlin j hj)).mp (h j hj)
    · intro h j hj
      exact (lin_sat_iff inf tol c g ax off j htol (hg j hj) (haff hlin j hj)).mpr (h j hj)

/-- Anchored code: the equivalence holds for constraints of size 1 whose linear form has no
constant term. -/
theorem C21_newstyle_partial (inf tol : K) (c : Con K) (g ax off : Nat → K) (htol : 0 ≤ tol)
    (hsize : c.size = 1) (hg : -inf < g 0 ∧ g 0 < inf)
    (he : ∀ e, c.equals = some e → -inf < e 0 ∧ e 0 < inf)
    (haff : c.linear = true → g 0 = ax 0 ∧ off 0 = 0) :
    ∃ recs, newRecords Variant.current inf c off = some recs ∧
      ((∀ r ∈ recs, newSat tol g ax r) ↔ ∀ j, j < c.size → ElemOK inf tol c g j) := by
  have hall : (∀ j, j < 1 → ElemOK inf tol c g j) ↔ ElemOK inf tol c g 0 := by
    constructor
    · intro h; exact h 0 (by omega)
    · intro h j hj
      have : j = 0 := by omega
      rw [this]; exact h
  unfold newRecords
  cases hlin : c.linear
  · simp only [Variant.current, hsize, Bool.false_eq_true, if_false, if_true]
    refine ⟨_, rfl, ?_⟩
    rw [hall]
    simp only [List.range_one, List.map_cons, List.map_nil, List.getLast?_singleton,
      Option.toList_some, List.mem_singleton, forall_eq]
    exact nl_sat_iff inf tol c g ax 0 htol hg he
  · obtain ⟨h1, h2⟩ := haff hlin
    simp only [Variant.current, hsize, if_true]
    refine ⟨_, rfl, ?_⟩
    rw [hall]
    simp only [List.mem_singleton, forall_eq]
    have := lin_sat_iff inf tol c g ax off 0 htol hg (by rw [h1, h2, add_zero])
    rw [h2, sub_zero, sub_zero] at this
    exact this

/-- two elements, both with upper bound 1 -/
def cexNl : Con Rat := ⟨2, fun _ => -1000, fun _ => 1, none, false⟩

/-- The anchored code appends only the last element's `NonlinearConstraint`: `g = [3, 0]` satisfies
everything scipy was given although element 0 exceeds its bound. -/
theorem C21_newstyle_loses_elements :
    ∃ recs, newRecords Variant.current 1000 cexNl (fun _ => 0) = some recs ∧ recs.length = 1 ∧
      (∀ r ∈ recs, newSat 0 (fun j => if j = 0 then 3 else 0) (fun _ => 0) r) ∧
      ¬ ElemOK 1000 0 cexNl (fun j => if j = 0 then 3 else 0) 0 :=
  ⟨[.nl 1 (-1000) 1], by decide +kernel, by decide +kernel, by decide +kernel, by decide +kernel⟩

/-- one linear element `g = A x + 5` with upper bound 1 -/
def cexLin : Con Rat := ⟨1, fun _ => -1000, fun _ => 1, none, true⟩

/-- The anchored `LinearConstraint(A, lb, ub)` forgets the constant term: `A x = 1`, `g = 6`. -/
theorem C21_newstyle_drops_offset :
    ∃ recs, newRecords Variant.current 1000 cexLin (fun _ => 5) = some recs ∧
      (∀ r ∈ recs, newSat 0 (fun _ => 6) (fun _ => 1) r) ∧
      ¬ ElemOK 1000 0 cexLin (fun _ => 6) 0 :=
  ⟨[.lin 0 (-1000) 1], by decide +kernel, by decide +kernel, by decide +kernel⟩

/-- ... and cannot be built at all for a linear constraint with more than one element (scipy raises:
`lb`/`ub` of length `size` against one row). -/
theorem C21_newstyle_linear_rejected (inf : K) (c : Con K) (off : Nat → K)
    (hlin : c.linear = true) (hsize : c.size ≠ 1) :
    newRecords Variant.current inf c off = none := by
  simp [newRecords, Variant.current, hlin, hsize]

-- non-vacuity of the repaired variant on the two counterexample constraints
example :
    (∃ recs, newRecords Variant.fixed 1000 cexNl (fun _ => 0) = some recs ∧ recs.length = 2) ∧
    (∃ recs, newRecords Variant.fixed 1000 cexLin (fun _ => 5) = some recs ∧
      ¬ (∀ r ∈ recs, newSat 0 (fun _ => 6) (fun _ => 1) r)) :=
  ⟨⟨[.nl 0 (-1000) 1, .nl 1 (-1000) 1], by decide +kernel, by decide +kernel⟩,
   ⟨[.lin 0 (-1005) (-4)], by decide +kernel, by decide +kernel⟩⟩

/-! ## 3. The Jacobian row has the sign of the record's own function -/

/-- Every old-style record function is affine in `g[idx]` with slope `recSlope`. -/
theorem C21_confunc_slope (inf : K) (c : Con K) (g g' : Nat → K) (r : Rec) :
    confunc inf c g' r - confunc inf c g r =
      ((recSlope inf false c r : Int) : K) * (g' r.idx - g r.idx) := by
  unfold confunc recSlope
  cases hc : c.equals with
  | some e => simp
  | none =>
    by_cases h : (r.dbl || decide (c.lower r.idx ≤ -inf)) = true
    · simp only [h, if_true, Bool.false_eq_true, if_false]; push_cast; ring
    · simp only [h, if_false, Bool.false_eq_true]; push_cast; ring

/-- `_congradfunc` returns the row with the sign of that slope for old-style dicts (both variants),
provided the model lower bound is "unset" exactly when the scaled one is, and for new-style objects
in the repaired code. -/
theorem C21_grad_sign (v : Variant) (inf : K) (c : Con K) (r : Rec) (modelLowerUnset : Bool)
    (hsent : modelLowerUnset = decide (c.lower r.idx ≤ -inf)) :
    congradSign v false c.equals.isSome modelLowerUnset r.dbl = recSlope inf false c r ∧
      (v.negNew = false →
        congradSign v true c.equals.isSome modelLowerUnset r.dbl = recSlope inf true c r) := by
  unfold congradSign recSlope
  cases hc : c.equals with
  | some e => simp
  | none =>
    subst hsent
    constructor
    · by_cases h : (r.dbl || decide (c.lower r.idx ≤ -inf)) = true <;> simp [h]
    · intro hn
      by_cases h : (r.dbl || decide (c.lower r.idx ≤ -inf)) = true <;> simp [h, hn]

/-- Anchored code: for an upper-only new-style constraint the function is `g` (slope +1) but the
row is negated. -/
theorem C21_grad_sign_new_wrong :
    congradSign Variant.current true false true false = -1 ∧
      recSlope (1000 : Rat) true cexNl ⟨.ineq, 0, false⟩ = 1 := by
  decide +kernel

/-! ## 4. Design-variable bounds -/

theorem C21_dv_bounds (inf tol lo hi x : K) :
    boundSat tol (dvBound inf lo hi) x ↔ IntervalOK inf tol lo hi x := by
  unfold boundSat dvBound IntervalOK
  by_cases h1 : lo ≤ -inf <;> by_cases h2 : inf ≤ hi <;> simp [h1, h2]

example : boundSat (0 : Rat) (dvBound 1000 (-1000) 2) 2 ∧ ¬ boundSat (0 : Rat) (dvBound 1000 (-1000) 2) 3
    ∧ dvBound (1000 : Rat) (-1000) 2 = (none, some 2) := by decide +kernel

/-! ## 5. From driver units to model units -/

/-- Positive scaler: feasibility within `tol` against the scaled bounds is feasibility within
`tol / s` against the model bounds; sentinels stay sentinels. -/
theorem C21_model_units (inf tol lo hi a s x : K) (hs : 0 < s)
    (hlo : -inf < lo → -inf < (lo + a) * s) (hhi : hi < inf → (hi + a) * s < inf) :
    IntervalOK inf tol (scaleBound inf true lo a s) (scaleBound inf false hi a s) ((x + a) * s) ↔
      IntervalOK inf (tol / s) lo hi x := by
  unfold IntervalOK
  rw [lower_scaled_pos inf tol lo a s x hs hlo, upper_scaled_pos inf tol hi a s x hs hhi]

/-- Equality constraints, any non-zero scaler. -/
theorem C21_model_units_eq (tol e a s x : K) (hs : s ≠ 0) :
    EqOK tol ((e + a) * s) ((x + a) * s) ↔ EqOK (tol / |s|) e x := by
  unfold EqOK
  have e1 : (x + a) * s - (e + a) * s = (x - e) * s := by ring
  rw [e1]
  rcases lt_or_gt_of_ne hs with h | h
  · have habs : |s| = -s := abs_of_neg h
    have hpos : 0 < -s := by linarith
    have ht : tol / |s| * (-s) = tol := by rw [habs]; field_simp
    constructor
    · rintro ⟨h1, h2⟩
      constructor
      · have : (-(tol / |s|)) * (-s) ≤ (x - e) * (-s) := by rw [neg_mul, ht]; linarith
        exact le_of_mul_le_mul_right this hpos
      · have : (x - e) * (-s) ≤ (tol / |s|) * (-s) := by rw [ht]; linarith
        exact le_of_mul_le_mul_right this hpos
    · rintro ⟨h1, h2⟩
      have a1 := mul_le_mul_of_nonneg_right h1 (le_of_lt hpos)
      have a2 := mul_le_mul_of_nonneg_right h2 (le_of_lt hpos)
      rw [neg_mul, ht] at a1
      rw [ht] at a2
      constructor <;> linarith
  · have habs : |s| = s := abs_of_pos h
    have ht : tol / |s| * s = tol := by rw [habs]; field_simp
    constructor
    · rintro ⟨h1, h2⟩
      constructor
      · have : (-(tol / |s|)) * s ≤ (x - e) * s := by rw [neg_mul, ht]; linarith
        exact le_of_mul_le_mul_right this h
      · have : (x - e) * s ≤ (tol / |s|) * s := by rw [ht]; linarith
        exact le_of_mul_le_mul_right this h
    · rintro ⟨h1, h2⟩
      have a1 := mul_le_mul_of_nonneg_right h1 (le_of_lt h)
      have a2 := mul_le_mul_of_nonneg_right h2 (le_of_lt h)
      rw [neg_mul, ht] at a1
      rw [ht] at a2
      constructor <;> linarith

/-- Negative scaler, anchored code (lower scaled from lower, upper from upper): the driver-unit
interval is the model interval *reversed* — the optimizer is asked for `x <= lower` and
`x >= upper`. -/
theorem C21_model_units_neg (inf tol lo hi a s x : K) (hs : s < 0)
    (hlo : -inf < lo → -inf < (lo + a) * s) (hhi : hi < inf → (hi + a) * s < inf) :
    IntervalOK inf tol (scaleBound inf true lo a s) (scaleBound inf false hi a s) ((x + a) * s) ↔
      ((lo ≤ -inf ∨ x ≤ lo + tol / (-s)) ∧ (inf ≤ hi ∨ hi - tol / (-s) ≤ x)) := by
  have hpos : 0 < -s := by linarith
  have ht : tol / (-s) * (-s) = tol := div_mul_cancel₀ tol (ne_of_gt hpos)
  unfold IntervalOK
  constructor
  · rintro ⟨h1, h2⟩
    constructor
    · by_cases hl : lo ≤ -inf
      · exact Or.inl hl
      · right
        rw [scaleBound_lower_set inf lo a s hl] at h1
        rcases h1 with h1 | h1
        · exact absurd h1 (not_le.mpr (hlo (not_le.mp hl)))
        · have : x * (-s) ≤ (lo + tol / (-s)) * (-s) := by rw [add_mul, ht]; linarith
          exact le_of_mul_le_mul_right this hpos
    · by_cases hh : inf ≤ hi
      · exact Or.inl hh
      · right
        rw [scaleBound_upper_set inf hi a s hh] at h2
        rcases h2 with h2 | h2
        · exact absurd h2 (not_le.mpr (hhi (not_le.mp hh)))
        · have : (hi - tol / (-s)) * (-s) ≤ x * (-s) := by rw [sub_mul, ht]; linarith
          exact le_of_mul_le_mul_right this hpos
  · rintro ⟨h1, h2⟩
    constructor
    · by_cases hl : lo ≤ -inf
      · left; rw [scaleBound_lower_unset inf lo a s hl]
      · right
        rw [scaleBound_lower_set inf lo a s hl]
        rcases h1 with h1 | h1
        · exact absurd h1 hl
        · have := mul_le_mul_of_nonneg_right h1 (le_of_lt hpos)
          rw [add_mul, ht] at this; linarith
    · by_cases hh : inf ≤ hi
      · left; rw [scaleBound_upper_unset inf hi a s hh]
      · right
        rw [scaleBound_upper_set inf hi a s hh]
        rcases h2 with h2 | h2
        · exact absurd h2 hh
        · have := mul_le_mul_of_nonneg_right h2 (le_of_lt hpos)
          rw [sub_mul, ht] at this; linarith

/-- Repaired code exchanges the scaled bounds when `s < 0`: model-unit feasibility again. -/
theorem C21_model_units_neg_fixed (v : Variant) (hv : v.noSwap = false) (inf tol lo hi a s x : K)
    (hs : s < 0) (hlo : -inf < lo → (lo + a) * s < inf) (hhi : hi < inf → -inf < (hi + a) * s) :
    IntervalOK inf tol (scaledPair v inf 0 lo hi a s).1 (scaledPair v inf 0 lo hi a s).2
        ((x + a) * s) ↔ IntervalOK inf (tol / (-s)) lo hi x := by
  have hpos : 0 < -s := by linarith
  have ht : tol / (-s) * (-s) = tol := div_mul_cancel₀ tol (ne_of_gt hpos)
  have hsp : scaledPair v inf 0 lo hi a s =
      ((if inf ≤ hi then -inf else (hi + a) * s), (if lo ≤ -inf then inf else (lo + a) * s)) := by
    simp [scaledPair, hv, hs]
  rw [hsp]
  unfold IntervalOK
  constructor
  · rintro ⟨h1, h2⟩
    constructor
    · by_cases hl : lo ≤ -inf
      · exact Or.inl hl
      · right
        simp only [if_neg hl] at h2
        rcases h2 with h2 | h2
        · exact absurd h2 (not_le.mpr (hlo (not_le.mp hl)))
        · have : (lo - tol / (-s)) * (-s) ≤ x * (-s) := by rw [sub_mul, ht]; linarith
          exact le_of_mul_le_mul_right this hpos
    · by_cases hh : inf ≤ hi
      · exact Or.inl hh
      · right
        simp only [if_neg hh] at h1
        rcases h1 with h1 | h1
        · exact absurd h1 (not_le.mpr (hhi (not_le.mp hh)))
        · have : x * (-s) ≤ (hi + tol / (-s)) * (-s) := by rw [add_mul, ht]; linarith
          exact le_of_mul_le_mul_right this hpos
  · rintro ⟨h1, h2⟩
    constructor
    · by_cases hh : inf ≤ hi
      · left; simp [hh]
      · right
        simp only [if_neg hh]
        rcases h2 with h2 | h2
        · exact absurd h2 hh
        · have := mul_le_mul_of_nonneg_right h2 (le_of_lt hpos)
          rw [add_mul, ht] at this; linarith
    · by_cases hl : lo ≤ -inf
      · left; simp [hl]
      · right
        simp only [if_neg hl]
        rcases h1 with h1 | h1
        · exact absurd h1 hl
        · have := mul_le_mul_of_nonneg_right h1 (le_of_lt hpos)
          rw [sub_mul, ht] at this; linarith

/-- Anchored code, `lower = 0`, no upper bound, scaler `-1`: the point `x = -5` (below the lower
bound by 5) is feasible for what the optimizer is given; the repaired pair rejects it. -/
theorem C21_neg_scaler_reverses :
    IntervalOK (1000 : Rat) 0 (scaleBound 1000 true 0 0 (-1)) (scaleBound 1000 false 1000 0 (-1))
        ((-5 + 0) * (-1)) ∧
      ¬ IntervalOK (1000 : Rat) 0 0 1000 (-5) ∧
      ¬ IntervalOK (1000 : Rat) 0 (scaledPair Variant.fixed 1000 0 0 1000 0 (-1)).1
        (scaledPair Variant.fixed 1000 0 0 1000 0 (-1)).2 ((-5 + 0) * (-1)) := by
  decide +kernel

example : IntervalOK (1000 : Rat) (1/4) (scaleBound 1000 true 1 3 2) (scaleBound 1000 false 1000 3 2)
    ((1 - 1/8 + 3) * 2) ∧ IntervalOK (1000 : Rat) ((1/4) / 2) 1 1000 (1 - 1/8) := by decide +kernel

/-! ## 6. The callbacks answer for the design they are asked about -/

/-- Anchored code: if the optimizer evaluates the objective first at every new design (and the
objective gradient before the constraint Jacobians), every callback's answer was computed at the
design in its argument. -/
theorem C21_callbacks_pure {X : Type} [DecidableEq X] (v : Variant) (hv : v.noSync = true)
    (s : St X) (cs : List (Call X)) (h : ObjFirst s.model s.gcache cs) :
    (run v s cs).1 = cs.map Call.arg :=
  run_pure v hv s cs h

/-- Without that discipline (trust-constr in the installed scipy asks for the constraint Jacobian,
the constraint value and the objective gradient at a new design *before* the objective) the
anchored callbacks answer for the previous design. -/
theorem C21_callbacks_stale :
    (run Variant.current (⟨0, some 0⟩ : St Nat)
        [Call.obj 1, Call.grad 1, Call.cgrad 2, Call.con 2, Call.grad 2, Call.obj 2]).1
      = [1, 1, 1, 1, 1, 2] ∧
      ¬ ObjFirst (0 : Nat) (some 0)
        [Call.obj 1, Call.grad 1, Call.cgrad 2, Call.con 2, Call.grad 2, Call.obj 2] := by
  decide +kernel

/-- Repaired code (callbacks run the model at their argument when it is elsewhere): pure for every
call sequence. -/
theorem C21_callbacks_pure_fixed {X : Type} [DecidableEq X] (v : Variant) (hv : v.noSync = false)
    (s : St X) (cs : List (Call X)) : (run v s cs).1 = cs.map Call.arg :=
  run_pure_fixed v hv s cs

/-- Anchored code: the model is left at the design of the last objective evaluation ... -/
theorem C21_model_left_at_last_objective {X : Type} [DecidableEq X] (v : Variant)
    (hv : v.noSync = true) (s : St X) (pre post : List (Call X)) (x : X)
    (hpost : ∀ c ∈ post, ∀ y, c ≠ Call.obj y) :
    (run v s (pre ++ Call.obj x :: post)).2.model = x :=
  run_final v hv s pre post x hpost

/-- ... which need not be the design the optimizer returns (COBYLA returns its best vertex):
objective evaluated at 1, then at 2, design 1 returned. -/
theorem C21_model_not_at_result :
    (finish Variant.current (run Variant.current (⟨0, none⟩ : St Nat)
      [Call.obj 1, Call.con 1, Call.obj 2, Call.con 2]).2 1).model = 2 ∧
    (finish Variant.fixed (run Variant.fixed (⟨0, none⟩ : St Nat)
      [Call.obj 1, Call.con 1, Call.obj 2, Call.con 2]).2 1).model = 1 := by
  decide +kernel

-- non-vacuity: the order SLSQP uses
example : ObjFirst (0 : Nat) none
    [Call.obj 1, Call.con 1, Call.grad 1, Call.cgrad 1, Call.obj 2, Call.con 2, Call.obj 3,
     Call.con 3, Call.grad 3, Call.cgrad 3] := by decide +kernel

/-! ## 7. Contract ⇒ property -/

/-- One constraint with model-unit bounds `lo, hi`, adders `a` and scalers `s`, as the driver
presents it to the optimizer. -/
def scaledCon (inf : K) (size : Nat) (lo hi a s : Nat → K) : Con K :=
  ⟨size, fun j => scaleBound inf true (lo j) (a j) (s j),
    fun j => scaleBound inf false (hi j) (a j) (s j), none, false⟩

/-- The optimizer contract: on success every supplied dict is satisfied within `tol` at the
returned design, the returned design is within the supplied bounds, and the last objective
evaluation was at the returned design.  Then (repaired loop, positive scalers) the model is left at
the returned design, every element of every inequality constraint is within its *model-unit*
bounds up to `tol / scaler`, and so is every design variable. -/
theorem C21_success_feasible {X : Type} [DecidableEq X] (v : Variant) (hv : v.rebind = false)
    (inf tol : K)
    (htol : 0 ≤ tol)
    -- constraints: size, model bounds, adder, scaler, model values at the returned design
    (cons : List (Nat × (Nat → K) × (Nat → K) × (Nat → K) × (Nat → K) × (Nat → K)))
    (hs : ∀ q ∈ cons, ∀ j, j < q.1 → 0 < q.2.2.2.2.1 j)
    (hfin : ∀ q ∈ cons, ∀ j, j < q.1 →
      (-inf < q.2.1 j → -inf < (q.2.1 j + q.2.2.2.1 j) * q.2.2.2.2.1 j) ∧
      (q.2.2.1 j < inf → (q.2.2.1 j + q.2.2.2.1 j) * q.2.2.2.2.1 j < inf) ∧
      (q.2.2.2.2.2 j + q.2.2.2.1 j) * q.2.2.2.2.1 j < inf)
    -- design variables: scaled bounds and returned (scaled) value
    (dvs : List (K × K × K))
    -- callbacks issued by the optimizer
    (s0 : St X) (xr : X) (calls : List (Call X))
    -- only the anchored glue needs the optimizer to evaluate the objective last at `xr`
    (hlast : v.noFinalSync = true → v.noSync = true ∧ ∃ pre post,
      calls = pre ++ Call.obj xr :: post ∧ ∀ c ∈ post, ∀ y, c ≠ Call.obj y)
    -- contract
    (hsat : ∀ q ∈ cons,
      let c := scaledCon inf q.1 q.2.1 q.2.2.1 q.2.2.2.1 q.2.2.2.2.1
      let g := fun j => (q.2.2.2.2.2 j + q.2.2.2.1 j) * q.2.2.2.2.1 j
      ∀ r ∈ oldRecords v inf c, recSat tol r.kind (confunc inf c g r))
    (hbnd : ∀ d ∈ dvs, boundSat tol (dvBound inf d.1 d.2.1) d.2.2) :
    (finish v (run v s0 calls).2 xr).model = xr ∧
      (∀ q ∈ cons, ∀ j, j < q.1 →
        IntervalOK inf (tol / q.2.2.2.2.1 j) (q.2.1 j) (q.2.2.1 j) (q.2.2.2.2.2 j)) ∧
      (∀ d ∈ dvs, IntervalOK inf tol d.1 d.2.1 d.2.2) := by
  refine ⟨?_, ?_, ?_⟩
  · unfold finish
    cases hf : v.noFinalSync
    · simp
    · obtain ⟨hs', pre, post, hc, hpost⟩ := hlast hf
      simp only [if_true]
      rw [hc]
      exact run_final v hs' s0 pre post xr hpost
  · intro q hq j hj
    obtain ⟨f1, f2, f3⟩ := hfin q hq j hj
    have hcov := (C21_dicts_cover v hv inf tol
      (scaledCon inf q.1 q.2.1 q.2.2.1 q.2.2.2.1 q.2.2.2.2.1)
      (fun j => (q.2.2.2.2.2 j + q.2.2.2.1 j) * q.2.2.2.2.1 j) htol
      (fun i hi => (hfin q hq i hi).2.2)).mp (hsat q hq) j hj
    simp only [ElemOK, scaledCon] at hcov
    exact (C21_model_units inf tol (q.2.1 j) (q.2.2.1 j) (q.2.2.2.1 j) (q.2.2.2.2.1 j)
      (q.2.2.2.2.2 j) (hs q hq j hj) f1 f2).mp hcov
  · intro d hd
    exact (C21_dv_bounds inf tol d.1 d.2.1 d.2.2).mp (hbnd d hd)

/-! ## 8. Optimality: independent of driver scaling, certified by KKT -/

/-- The set of minimisers is invariant under any bijective change of variables (`T`, e.g. the
componentwise `(x + adder) * scaler` with non-zero scalers) combined with a positive affine
rescaling of the objective; the feasible set in the new variables is the image of the old one
(for the constraints that is `C21_model_units`). -/
theorem C21_scaling_invariant_argmin {X Y : Type} (T : X → Y) (Tinv : Y → X)
    (hl : ∀ x, Tinv (T x) = x) (hr : ∀ y, T (Tinv y) = y) (a s : K) (hs : 0 < s)
    (f : X → K) (F : X → Prop) (x : X) :
    IsArgmin f F x ↔ IsArgmin (fun y => (f (Tinv y) + a) * s) (fun y => F (Tinv y)) (T x) := by
  unfold IsArgmin
  constructor
  · rintro ⟨h1, h2⟩
    refine ⟨by show F (Tinv (T x)); rw [hl]; exact h1, fun y hy => ?_⟩
    show (f (Tinv (T x)) + a) * s ≤ (f (Tinv y) + a) * s
    rw [hl]
    have := h2 (Tinv y) hy
    exact mul_le_mul_of_nonneg_right (by linarith) (le_of_lt hs)
  · rintro ⟨h1, h2⟩
    have h1' : F (Tinv (T x)) := h1
    rw [hl] at h1'
    refine ⟨h1', fun y hy => ?_⟩
    have h3 : (f (Tinv (T x)) + a) * s ≤ (f (Tinv (T y)) + a) * s :=
      h2 (T y) (by show F (Tinv (T y)); rw [hl]; exact hy)
    rw [hl, hl] at h3
    have := le_of_mul_le_mul_right h3 hs
    linarith

/-- The driver's change of variables is such a bijection. -/
theorem C21_affine_bijection {ι : Type} (a s : ι → K) (hs : ∀ i, s i ≠ 0) :
    (∀ x : ι → K, (fun i => (fun i => (x i + a i) * s i) i / s i - a i) = x) ∧
    (∀ y : ι → K, (fun i => ((fun i => y i / s i - a i) i + a i) * s i) = y) := by
  constructor
  · intro x; funext i; have := hs i; field_simp; ring
  · intro y; funext i; have := hs i; field_simp; ring

/-- Strictly convex objective with exact second-order expansion at `xs`
(`f y = f xs + grad . (y - xs) + q (y - xs)`, `q d > 0` for `d ≠ 0`; for a QP `q d = d'Qd / 2`),
affine constraints `A_k . x <= b_k` (lower bounds as negated rows, equalities as two rows):
a feasible point with multipliers satisfying the KKT conditions is the unique minimiser. -/
theorem C21_kkt_unique {ι κ : Type} [Fintype ι] [Fintype κ] (f : (ι → K) → K) (grad xs : ι → K)
    (q : (ι → K) → K)
    (hexp : ∀ y, f y = f xs + dot grad (fun i => y i - xs i) + q (fun i => y i - xs i))
    (hq : ∀ d : ι → K, d ≠ 0 → 0 < q d)
    (A : κ → ι → K) (b lam : κ → K)
    (hlam : ∀ k, 0 ≤ lam k)
    (hcomp : ∀ k, lam k * (dot (A k) xs - b k) = 0)
    (hstat : ∀ i, grad i + ∑ k, lam k * A k i = 0)
    (y : ι → K) (hy : ∀ k, dot (A k) y ≤ b k) (hne : y ≠ xs) :
    f xs < f y := by
  have h1 := kkt_dir_nonneg grad xs y A b lam hlam hcomp hstat hy
  have hd : (fun i => y i - xs i) ≠ 0 := by
    intro h
    apply hne
    funext i
    have := congrFun h i
    simp only [Pi.zero_apply] at this
    linarith
  have h2 := hq _ hd
  rw [hexp y]
  linarith

-- non-vacuity: min (x0-2)^2 + (x1-2)^2  s.t.  x0 + x1 <= 2 ;  xs = (1,1), lam = 2
example :
    let f : (Fin 2 → Rat) → Rat := fun x => (x 0 - 2) ^ 2 + (x 1 - 2) ^ 2
    let xs : Fin 2 → Rat := fun _ => 1
    let grad : Fin 2 → Rat := fun _ => -2
    let q : (Fin 2 → Rat) → Rat := fun d => d 0 ^ 2 + d 1 ^ 2
    let A : Fin 1 → Fin 2 → Rat := fun _ _ => 1
    (∀ y, f y = f xs + dot grad (fun i => y i - xs i) + q (fun i => y i - xs i)) ∧
    (∀ i, grad i + ∑ k : Fin 1, (2 : Rat) * A k i = 0) ∧
    (∀ k : Fin 1, (2 : Rat) * (dot (A k) xs - 2) = 0) := by
  refine ⟨fun y => ?_, fun i => ?_, fun k => ?_⟩
  · simp only [dot, Fin.sum_univ_two]; ring
  · simp
  · simp only [dot, Fin.sum_univ_two]; norm_num

end OMV.C21
