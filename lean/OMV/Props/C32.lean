/-
C32 — Feed-forward models are fully solved by one ordered pass.
-/
import OMV.Model.C32
import OMV.Model.Spec
import OMV.Proofs.SpecSweep
import Mathlib.Data.List.Basic
import Mathlib.Data.List.Perm.Basic

namespace OMV.C32

open OMV.Spec

theorem mem_orderScc (orders : Nat → Nat) (s : List Nat) (x : Nat) :
    x ∈ orderScc orders s ↔ x ∈ s := by
  unfold orderScc
  split
  · exact List.mem_mergeSort
  · exact Iff.rfl

theorem sccIndex_mem (sccs : List (List Nat)) (x : Nat) (h : sccIndex sccs x < sccs.length) :
    x ∈ sccs[sccIndex sccs x] := by
  unfold sccIndex at h ⊢
  have := List.findIdx_getElem (xs := sccs) (p := fun s => s.contains x) (w := h)
  simpa using this

/-- With a valid (networkx) SCC list, the automatic order runs every subsystem after all of its
data predecessors in other SCCs: for each connection `u → v` between different SCCs, `u` comes
before `v`. -/
theorem C32_order_valid (nodes : List Nat) (edges : List Edge) (sccs : List (List Nat))
    (orders : Nat → Nat) (h : isTopoSccList nodes edges sccs = true)
    (u v : Nat) (hu : u ∈ nodes) (hv : v ∈ nodes) (he : (u, v) ∈ edges)
    (hne : sccIndex sccs u ≠ sccIndex sccs v) :
    Before (autoOrder sccs orders) u v := by
  unfold isTopoSccList at h
  rw [Bool.and_eq_true] at h
  obtain ⟨hc, hf⟩ := h
  have hcu : sccIndex sccs u < sccs.length := by
    have := List.all_eq_true.mp hc u hu; simpa using this
  have hcv : sccIndex sccs v < sccs.length := by
    have := List.all_eq_true.mp hc v hv; simpa using this
  have hle : sccIndex sccs u ≤ sccIndex sccs v := by
    have := List.all_eq_true.mp hf (u, v) he; simpa using this
  have hlt : sccIndex sccs u < sccIndex sccs v := Nat.lt_of_le_of_ne hle hne
  refine ⟨(sccs.take (sccIndex sccs u + 1)).flatMap (orderScc orders),
          (sccs.drop (sccIndex sccs u + 1)).flatMap (orderScc orders), ?_, ?_, ?_⟩
  · unfold autoOrder
    rw [← List.flatMap_append, List.take_append_drop]
  · rw [List.mem_flatMap]
    refine ⟨sccs[sccIndex sccs u], ?_, (mem_orderScc _ _ _).mpr (sccIndex_mem sccs u hcu)⟩
    rw [List.mem_take_iff_getElem]
    exact ⟨sccIndex sccs u, by omega, rfl⟩
  · rw [List.mem_flatMap]
    refine ⟨sccs[sccIndex sccs v], ?_, (mem_orderScc _ _ _).mpr (sccIndex_mem sccs v hcv)⟩
    rw [List.mem_drop_iff_getElem]
    refine ⟨sccIndex sccs v - (sccIndex sccs u + 1), by omega, ?_⟩
    congr 1; omega

/-- Subsystems inside a cycle keep their declared relative order. -/
theorem C32_cycle_order_kept (orders : Nat → Nat) (s : List Nat) :
    (orderScc orders s).Pairwise (fun a b => orders a ≤ orders b) ∨ s.length ≤ 1 := by
  unfold orderScc
  by_cases h : s.length > 1
  · left
    simp only [h, if_true]
    have := List.pairwise_mergeSort (le := fun a b => decide (orders a ≤ orders b))
      (fun a b c hab hbc => by simp at *; omega) (fun a b => by simp; omega) s
    simpa using this
  · right; omega

/-- The new order is a rearrangement of the same subsystems: nothing is dropped or duplicated. -/
theorem C32_autoOrder_perm (sccs : List (List Nat)) (orders : Nat → Nat) :
    (autoOrder sccs orders).Perm sccs.flatten := by
  unfold autoOrder
  rw [show sccs.flatten = sccs.flatMap id from by simp]
  apply List.Perm.flatMap_left
  intro s _
  unfold orderScc
  split
  · exact List.mergeSort_perm _ _
  · exact List.Perm.refl _

/-- The out-of-order report is exactly the set of connections between different SCCs whose
target is currently placed before its source. -/
theorem C32_out_of_order_detects (edges : List Edge) (sccs : List (List Nat)) (orders : Nat → Nat)
    (e : Edge) :
    e ∈ outOfOrder edges sccs orders ↔
      e ∈ edges ∧ ∃ s ∈ sccs, e.1 ∈ s ∧ e.2 ∉ s ∧ orders e.1 > orders e.2 := by
  unfold outOfOrder
  rw [List.mem_flatMap]
  constructor
  · rintro ⟨s, hs, hm⟩
    rw [List.mem_filter] at hm
    obtain ⟨he, hp⟩ := hm
    simp only [Bool.and_eq_true, List.contains_eq_mem, decide_eq_true_eq, Bool.not_eq_true',
      decide_eq_false_iff_not] at hp
    exact ⟨he, s, hs, hp.1.1, hp.1.2, hp.2⟩
  · rintro ⟨he, s, hs, h1, h2, h3⟩
    refine ⟨s, hs, ?_⟩
    rw [List.mem_filter]
    refine ⟨he, ?_⟩
    simp only [Bool.and_eq_true, List.contains_eq_mem, decide_eq_true_eq, Bool.not_eq_true',
      decide_eq_false_iff_not]
    exact ⟨⟨h1, h2⟩, h3⟩

/-- When nothing is reported the declared order is kept, and it already places every cross-SCC
source no later than its target. -/
theorem C32_no_reorder_when_valid (declared : List Nat) (edges : List Edge)
    (sccs : List (List Nat)) (orders : Nat → Nat)
    (h : (outOfOrder edges sccs orders).isEmpty = true) :
    finalOrder declared edges sccs orders = declared ∧
    ∀ e ∈ edges, ∀ s ∈ sccs, e.1 ∈ s → e.2 ∉ s → orders e.1 ≤ orders e.2 := by
  constructor
  · simp [finalOrder, h]
  · intro e he s hs h1 h2
    by_contra hgt
    have : e ∈ outOfOrder edges sccs orders :=
      (C32_out_of_order_detects edges sccs orders e).mpr ⟨he, s, hs, h1, h2, by omega⟩
    rw [List.isEmpty_iff] at h
    rw [h] at this
    cases this

/-- One pass in an order that respects data flow leaves every explicit component's residual at
zero (outputs equal the component function of the *final* inputs). -/
theorem C32_one_pass_solves {K : Type} [Add K] [Mul K] [OfNat K 0] (cs : List (Comp K))
    (u : Nat → K) (h : TopoOK cs) : ∀ c ∈ cs, Solved (sweep u cs) c :=
  sweep_solves cs u h

/-- "executes after all of its data predecessors" is what `TopoOK` needs: if every source of
every component is either written by no component (an independent variable) or only by components
earlier in the list, and output blocks are pairwise disjoint, then the order respects data flow. -/
theorem C32_predecessors_first_topo {K : Type} (cs : List (Comp K))
    (hsrc : ∀ (pre post : List (Comp K)) (c : Comp K), cs = pre ++ c :: post →
        ∀ c' ∈ c :: post, NoWriteTo c' c)
    (hdis : ∀ (pre post : List (Comp K)) (c : Comp K), cs = pre ++ c :: post →
        ∀ c' ∈ post, Disjoint c c') : TopoOK cs := by
  induction cs with
  | nil => trivial
  | cons c cs ih =>
    refine ⟨hsrc [] cs c rfl c (List.mem_cons_self), ?_, ?_⟩
    · intro c' hc'
      exact ⟨hsrc [] cs c rfl c' (List.mem_cons_of_mem _ hc'), hdis [] cs c rfl c' hc'⟩
    · apply ih
      · intro pre post d hd c' hc'
        exact hsrc (c :: pre) post d (by rw [hd]; rfl) c' hc'
      · intro pre post d hd c' hc'
        exact hdis (c :: pre) post d (by rw [hd]; rfl) c' hc'

-- non-vacuity: a 4-node graph 0→1, 1↔2 cycle, 2→3, declared order 3,2,1,0 (reversed)
example : isTopoSccList [0, 1, 2, 3] [(0, 1), (1, 2), (2, 1), (2, 3)] [[0], [2, 1], [3]] = true ∧
    autoOrder [[0], [2, 1], [3]] (fun x => 3 - x) = [0, 2, 1, 3] ∧
    outOfOrder [(0, 1), (1, 2), (2, 1), (2, 3)] [[0], [2, 1], [3]] (fun x => 3 - x)
      = [(0, 1), (2, 3)] := by
  refine ⟨by decide, ?_, by decide⟩
  simp [autoOrder, orderScc, List.mergeSort, List.MergeSort.Internal.splitInTwo]

end OMV.C32
