/-
C27 — Option declarations are enforced and temporary values always restored.
Property theorems only (plus non-vacuity examples).  Model: `OMV/Model/C27.lean`
(`openmdao/utils/options_dictionary.py`), helper lemmas: `OMV/Proofs/C27*.lean`.

`cfg.restoreOnRaise = false` is the `temporary()` currently in the repository,
`cfg.restoreOnRaise = true` the patched one (try/finally, reverse-order restore).
-/
import OMV.Proofs.C27Exec

namespace OMV.C27

/-! ## Assigning succeeds exactly when the value satisfies the declaration -/

/-- The operational `_assert_valid` (sequential checks, first exception wins) accepts exactly the
values that satisfy the declaration read declaratively: allowed `None`, or member of `values` /
instance of `types` and inside the bounds; and the `check_valid` predicate in either case. -/
theorem C27_accept_iff_valid (cv : Nat → Val → Bool) (d : Decl) (v : Val) :
    assertValid cv d v = none ↔ Satisfies cv d v :=
  assertValid_eq_none cv d v

/-- A rejection by `_assert_valid` is a `ValueError` or a `TypeError`. -/
theorem C27_reject_class (cv : Nat → Val → Bool) (d : Decl) (v : Val) (e : Exc)
    (h : assertValid cv d v = some e) : e = .valueError ∨ e = .typeError :=
  assertValid_class cv d v e h

/-- `opts[n] = v` succeeds iff the dictionary is writable, `n` (after alias forwarding) reaches a
declared option, and `v` satisfies the declaration of that option. -/
theorem C27_set_succeeds_iff (cfg : Cfg) (s : State) (n : String) (v : Val) :
    (∃ s', setOpt cfg s n v = .ok s') ↔
      s.readOnly = false ∧ ∃ t et, s.targetOf n = some t ∧ lookup t s.dict = some et ∧
        Satisfies cfg.checkValid et.decl v := by
  constructor
  · rintro ⟨s', h⟩
    obtain ⟨t, et, h1, h2, h3, h4, _⟩ := setOpt_ok_spec h
    exact ⟨h3, t, et, h1, h2, h4⟩
  · rintro ⟨h3, t, et, h1, h2, h4⟩
    exact ⟨_, setOpt_succeeds h1 h2 h3 ((assertValid_eq_none _ _ _).mpr h4)⟩

/-- An accepted assignment stores exactly `v` in the reached option and changes nothing else:
other values, all declarations, the read-only flag and the context cache stay; reading `n` back
returns `v`. -/
theorem C27_set_effect (cfg : Cfg) (s s' : State) (n : String) (v : Val)
    (h : setOpt cfg s n v = .ok s') :
    ∃ t, s.targetOf n = some t ∧ s'.valOf t = some v ∧ (∀ m, m ≠ t → s'.valOf m = s.valOf m) ∧
      SameDecls s s' ∧ s'.cache = s.cache ∧ getOpt s' n = .ok v := by
  obtain ⟨t, et, h1, h2, _, _, rfl⟩ := setOpt_ok_spec h
  have hv : ∀ m, (s.store t v).valOf m = if t = m then some v else s.valOf m :=
    fun m => store_valOf s t m v et h2
  refine ⟨t, h1, by rw [hv]; simp, ?_, store_sameDecls s t v, rfl, ?_⟩
  · intro m hm
    have : ¬ t = m := fun h => hm h.symm
    rw [hv]; simp [this]
  · rw [getOpt_ok_iff]
    exact ⟨t, by rw [(store_sameDecls s t v).targetOf n]; exact h1, by rw [hv]; simp⟩

/-! ## A rejected assignment leaves the previous state -/

/-- A rejected `opts[n] = v` leaves the whole state (all values, declarations, cache) unchanged. -/
theorem C27_reject_keeps (cfg : Cfg) (s : State) (n : String) (v : Val) (e : Exc)
    (h : (step cfg s (.set n v)).2 = .err e) : (step cfg s (.set n v)).1 = s := by
  simp only [step] at h ⊢
  cases hs : setOpt cfg s n v with
  | error x => simp
  | ok s' => rw [hs] at h; simp at h

/-- A rejected `update` / `set(**kw)`: the assignments before the offending one were all accepted
and applied, the offending one is rejected by `__setitem__` in the state reached so far, and
nothing after it is touched. -/
theorem C27_update_reject_keeps (cfg : Cfg) (kvs : List (String × Val)) (s : State) (e : Exc)
    (h : (updateLoop cfg kvs s).2 = some e) :
    ∃ pre n v post, kvs = pre ++ (n, v) :: post ∧ (updateLoop cfg pre s).2 = none ∧
      setOpt cfg (updateLoop cfg pre s).1 n v = .error e ∧
      (updateLoop cfg kvs s).1 = (updateLoop cfg pre s).1 := by
  induction kvs generalizing s with
  | nil => simp [updateLoop] at h
  | cons p rest ih =>
    obtain ⟨n, v⟩ := p
    cases hs : setOpt cfg s n v with
    | error x =>
      simp only [updateLoop, hs, Option.some.injEq] at h
      subst h
      exact ⟨[], n, v, rest, rfl, rfl, hs, by simp [updateLoop, hs]⟩
    | ok s' =>
      simp only [updateLoop, hs] at h
      obtain ⟨pre, n', v', post, h1, h2, h3, h4⟩ := ih s' h
      refine ⟨(n, v) :: pre, n', v', post, by simp [h1], ?_, ?_, ?_⟩
      · simpa [updateLoop, hs] using h2
      · simpa [updateLoop, hs] using h3
      · simpa [updateLoop, hs] using h4

/-! ## Read-only dictionaries -/

/-- In a read-only dictionary every assignment raises `KeyError`, and no program of assignments,
reads, updates, `temporary()` contexts and exceptions changes any entry. -/
theorem C27_readonly (cfg : Cfg) (s : State) (hr : s.readOnly = true) :
    (∀ n v, setOpt cfg s n v = .error .keyError) ∧
    ∀ p : Prog, p.NoDecl → (exec cfg p s).st.dict = s.dict ∧ (exec cfg p s).st.readOnly = true := by
  refine ⟨fun n v => setOpt_readOnly hr n v, ?_⟩
  intro p hp
  have := exec_readOnly cfg p s hp hr
  exact ⟨this.1, by rw [this.2]; exact hr⟩

/-! ## Deprecation aliases -/

/-- Reading or assigning a deprecated option declared with `deprecation=(msg, new)` is the same as
reading or assigning `new` (same result, same exception class, same resulting state), when `new`
does not forward any further. -/
theorem C27_alias_forwards (cfg : Cfg) (s : State) (old new : String) (e : Entry)
    (ho : lookup old s.dict = some e) (ha : e.decl.alias = some (some new))
    (hn : ∀ e', lookup new s.dict = some e' → ∀ a, e'.decl.alias ≠ some (some a)) (v : Val) :
    setOpt cfg s old v = setOpt cfg s new v ∧ getOpt s old = getOpt s new := by
  cases hl : lookup new s.dict with
  | none =>
    constructor
    · cases hr : s.readOnly <;> simp [setOpt, follow, ho, ha, hl, hr]
    · simp [getOpt, follow, ho, ha, hl]
  | some e' =>
    have hf : follow s new e' = .ok (new, e') := by
      unfold follow
      cases hx : e'.decl.alias with
      | none => rfl
      | some oa =>
        cases oa with
        | none => rfl
        | some a => exact absurd hx (hn e' hl a)
    constructor
    · simp only [setOpt, ho, hl, hf]
      simp [follow, ha, hl]
    · simp only [getOpt, ho, hl, hf]
      simp [follow, ha, hl]

/-! ## Held values stay valid -/

/-- Every public operation keeps the invariant "each value held satisfies the declaration of its
option", except a `declare` whose default is rejected (the code stores the entry before it
validates the default).  The empty dictionary satisfies it. -/
theorem C27_valid_values_invariant (cfg : Cfg) (s : State) (op : Op) (hg : Good cfg s)
    (hd : ∀ n a, op = .declare n a → (step cfg s op).2 = .ok) : Good cfg (step cfg s op).1 := by
  cases op with
  | declare n a =>
    have hok := hd n a rfl
    simp only [step, ofExc_eq_ok] at hok ⊢
    exact declare_good hg hok
  | undeclare n =>
    intro m e w hm hw
    simp only [step, lookup_erase] at hm
    by_cases hnm : n = m
    · simp [hnm] at hm
    · simp only [hnm, if_false] at hm; exact hg m e w hm hw
  | set n v => exact (step_keeps (strict := false) (by simp [Prog.NoDecl]) hg).2.1
  | get n => exact (step_keeps (strict := false) (by simp [Prog.NoDecl]) hg).2.1
  | update kvs => exact (step_keeps (strict := false) (by simp [Prog.NoDecl]) hg).2.1
  | contains n => exact (step_keeps (strict := false) (by simp [Prog.NoDecl]) hg).2.1

theorem C27_empty_good (cfg : Cfg) (ro : Bool) : Good cfg (State.empty ro) := by
  intro n e v h; simp [State.empty, lookup] at h

/-! ## `temporary()` restores every option it changed -/

theorem getOpt_of_targetOf (s : State) (o : String) :
    getOpt s o = match s.targetOf o with
      | none => .error .keyError
      | some t => match s.valOf t with
        | some v => .ok v
        | none => .error .runtimeError := by
  rw [getOpt_eq]
  rcases resolve_cases s o with ⟨h1, h2⟩ | ⟨t, et, h1, h2, h3⟩
  · rw [h1, h2]
  · rw [h1, h2]; cases hv : et.val <;> simp [State.valOf, h3, hv]

/-- Reading `o` gives the same result in two states with the same declarations in which the
option reached by `o` holds the same value. -/
theorem getOpt_eq_of_restored {s s' : State} (hs : SameDecls s s') (o : String)
    (h : ∀ t, s.targetOf o = some t → s'.valOf t = s.valOf t) : getOpt s' o = getOpt s o := by
  rw [getOpt_of_targetOf s' o, getOpt_of_targetOf s o, hs.targetOf o]
  cases ht : s.targetOf o with
  | none => rfl
  | some t => simp only [h t ht]

/-- **Patched code (`restoreOnRaise = true`), full statement.**  For a writable dictionary holding
valid values, every keyword list (valid or invalid temporaries, deprecated aliases together with
their targets, undeclared names) and every body without declarations — any sequence of
assignments, reads, updates, nested `temporary()` contexts, `try/except` blocks, injected
exceptions, strict or caught failures; normal exit, exit by exception, or failure while
entering — after the `with` statement every option reached by a keyword holds the value it held
before, `opts[o]` reads as before for every keyword `o`, every cache stack is what it was before
(so an empty cache is empty again), and no declaration changed. -/
theorem C27_temporary_restores (cfg : Cfg) (hfix : cfg.restoreOnRaise = true)
    (s : State) (hw : s.readOnly = false) (hg : Good cfg s)
    (kw : List (String × Val)) (strict : Bool) (body : Prog) (hb : body.NoDecl) :
    (∀ o ∈ kw.map (·.1), ∀ t, s.targetOf o = some t →
      (exec cfg (.temp kw strict body) s).st.valOf t = s.valOf t) ∧
    (∀ o ∈ kw.map (·.1), getOpt (exec cfg (.temp kw strict body) s).st o = getOpt s o) ∧
    (∀ o, stackOf (exec cfg (.temp kw strict body) s).st.cache o = stackOf s.cache o) ∧
    SameDecls s (exec cfg (.temp kw strict body) s).st ∧
    Good cfg (exec cfg (.temp kw strict body) s).st := by
  have hspec := tempFix_spec (cfg := cfg) (kw := kw) (strict := strict)
    (body := fun s' => exec cfg body s') hw hg
    (fun s1 hw1 hg1 => exec_keeps cfg body s1 hb hw1 hg1 (Or.inl hfix))
  have hex : exec cfg (.temp kw strict body) s =
      tempFix cfg kw strict (fun s' => exec cfg body s') s := by
    simp only [exec, hfix, if_true]
  rw [hex]
  obtain ⟨⟨k1, k2, k3⟩, hv⟩ := hspec
  exact ⟨hv, fun o ho => getOpt_eq_of_restored k1 o (hv o ho), k3, k1, k2⟩

/-- **Current code (`restoreOnRaise = false`), what does hold.**  The same conclusion under two
extra hypotheses: `Quiet` — every context opened during the run (this one and those nested in the
body) is entered completely and no exception crosses it — and `DistinctTargets` — the keywords do
not name a deprecated alias together with its target. -/
theorem C27_temporary_restores_partial (cfg : Cfg) (_hcur : cfg.restoreOnRaise = false)
    (s : State) (hw : s.readOnly = false) (hg : Good cfg s)
    (kw : List (String × Val)) (strict : Bool) (body : Prog) (hb : body.NoDecl)
    (hq : Quiet cfg (.temp kw strict body) s) (hdist : DistinctTargets s kw) :
    (∀ o ∈ kw.map (·.1), ∀ t, s.targetOf o = some t →
      (exec cfg (.temp kw strict body) s).st.valOf t = s.valOf t) ∧
    (∀ o ∈ kw.map (·.1), getOpt (exec cfg (.temp kw strict body) s).st o = getOpt s o) ∧
    (∀ o, stackOf (exec cfg (.temp kw strict body) s).st.cache o = stackOf s.cache o) ∧
    SameDecls s (exec cfg (.temp kw strict body) s).st ∧
    Good cfg (exec cfg (.temp kw strict body) s).st ∧
    (exec cfg (.temp kw strict body) s).raised = false := by
  obtain ⟨q1, q2, q3, q4⟩ := hq
  have hf := enterCur_frame (cfg := cfg) kw s hw hg q1 q2
  have hw1 : (enterCur cfg kw s).1.readOnly = false := by rw [hf.1.1]; exact hw
  have hkb := exec_keeps cfg body (enterCur cfg kw s).1 hb hw1 hf.2.1 (Or.inr q3)
  have hspec := tempCur_spec (cfg := cfg) (kw := kw) (strict := strict)
    (body := fun s' => exec cfg body s') hw hg q1 q2 hkb q4
  have hex : exec cfg (.temp kw strict body) s =
      tempCur cfg kw strict (fun s' => exec cfg body s') s := by
    simp only [exec, _hcur, Bool.false_eq_true, if_false]
  -- the restoring loop succeeded, so nothing propagates
  have hnr : (tempCur cfg kw strict (fun s' => exec cfg body s') s).raised = false := by
    obtain ⟨s'', j1, _⟩ := hf.2.2.2.2 (exec cfg body (enterCur cfg kw s).1).st (hf.1.trans hkb.1) hkb.2.1
      (fun o _ => hkb.2.2 o)
    simp only [tempCur, q2, q4, j1]
    simp
  rw [hex]
  obtain ⟨⟨k1, k2, k3⟩, hv⟩ := hspec
  exact ⟨hv hdist, fun o ho => getOpt_eq_of_restored k1 o (hv hdist o ho), k3, k1, k2, hnr⟩

/-! ### Counterexamples for the current code (witnesses replayed on the implementation by the
harness: `corpus/C27/known-defects.json`) -/

def cfgCur : Cfg := ⟨false, fun _ _ => true⟩
def cfgFix : Cfg := ⟨true, fun _ _ => true⟩

def argsInt (default : Int) : DeclArgs :=
  { default := some (.atom (.int default)), values := none, types := .one .int, lower := none,
    upper := none, allowNone := false, checkValid := none, recordable := true, alias := none }

def argsStr (default : String) : DeclArgs :=
  { default := some (.atom (.str default)), values := none, types := .one .str, lower := none,
    upper := none, allowNone := false, checkValid := none, recordable := true, alias := none }

def argsAlias (new : String) : DeclArgs :=
  { default := none, values := none, types := .none, lower := none, upper := none,
    allowNone := false, checkValid := none, recordable := true, alias := some (some new) }

/-- `declare('a', default=1, types=int); declare('b', default='x', types=str);
declare('old', deprecation=(msg, 'a'))` on an empty dictionary. -/
def sampleState (cfg : Cfg) : State :=
  (step cfg (step cfg (step cfg (State.empty false) (.declare "a" (argsInt 1))).1
    (.declare "b" (argsStr "x"))).1 (.declare "old" (argsAlias "a"))).1

/-- No `try/finally`: after `with opts.temporary(a=2): raise` the option keeps the temporary value
and the saved value stays in `_context_cache`; the patched code restores both. -/
theorem C27_temporary_leaks_on_exception :
    (exec cfgCur (.temp [("a", .atom (.int 2))] false .raise) (sampleState cfgCur)).st.valOf "a"
      = some (.atom (.int 2)) ∧
    stackOf (exec cfgCur (.temp [("a", .atom (.int 2))] false .raise) (sampleState cfgCur)).st.cache "a"
      = [.atom (.int 1)] ∧
    (sampleState cfgCur).valOf "a" = some (.atom (.int 1)) ∧
    (exec cfgFix (.temp [("a", .atom (.int 2))] false .raise) (sampleState cfgFix)).st
      = sampleState cfgFix := by
  decide +kernel

/-- A rejected second temporary (`temporary(a=2, b=5)` with `b` a `str` option) raises while
entering and leaves the first option changed and its saved value in the cache. -/
theorem C27_temporary_leaks_on_failed_enter :
    (exec cfgCur (.temp [("a", .atom (.int 2)), ("b", .atom (.int 5))] false .skip)
      (sampleState cfgCur)).st.valOf "a" = some (.atom (.int 2)) ∧
    stackOf (exec cfgCur (.temp [("a", .atom (.int 2)), ("b", .atom (.int 5))] false .skip)
      (sampleState cfgCur)).st.cache "a" = [.atom (.int 1)] ∧
    (exec cfgFix (.temp [("a", .atom (.int 2)), ("b", .atom (.int 5))] false .skip)
      (sampleState cfgFix)).st = sampleState cfgFix := by
  decide +kernel

/-- Forward-order restore: `temporary(old=5, a=6)` with `old` a deprecated alias of `a` leaves
`a = 5` on a normal exit (`Quiet` holds, `DistinctTargets` does not); the patched code, restoring
in reverse order, gives back `1`. -/
theorem C27_temporary_alias_order :
    (exec cfgCur (.temp [("old", .atom (.int 5)), ("a", .atom (.int 6))] false .skip)
      (sampleState cfgCur)).st.valOf "a" = some (.atom (.int 5)) ∧
    (exec cfgCur (.temp [("old", .atom (.int 5)), ("a", .atom (.int 6))] false .skip)
      (sampleState cfgCur)).raised = false ∧
    ¬ DistinctTargets (sampleState cfgCur) [("old", .atom (.int 5)), ("a", .atom (.int 6))] ∧
    (exec cfgFix (.temp [("old", .atom (.int 5)), ("a", .atom (.int 6))] false .skip)
      (sampleState cfgFix)).st = sampleState cfgFix := by
  unfold DistinctTargets
  decide +kernel

/-! ### Documented Python semantics (not findings) -/

def declBool : Decl :=
  ({ default := none, values := none, types := .one .bool, lower := none, upper := none,
     allowNone := false, checkValid := none, recordable := true, alias := none } : DeclArgs).toDecl

def declBoolTuple : Decl :=
  ({ default := none, values := none, types := .many [.bool], lower := none, upper := none,
     allowNone := false, checkValid := none, recordable := true, alias := none } : DeclArgs).toDecl

def declMixed : Decl :=
  { values := some [.int 1, .int 2, .float (5/2), .str "a"], types := .none,
    lower := some 1, upper := some 2, allowNone := true, checkValid := some 0, recordable := true,
    alias := none }

/-- `types=bool` is stored as `values=(True, False)` and compared with `==`: `1`, `0` and `1.0`
are accepted, `2` and `'x'` are not; `types=(bool,)` uses `isinstance` and rejects `1`. -/
theorem C27_bool_accepts_one :
    let d : Decl := declBool
    let d' : Decl := declBoolTuple
    assertValid (fun _ _ => true) d (.atom (.int 1)) = none ∧
    assertValid (fun _ _ => true) d (.atom (.float 1)) = none ∧
    assertValid (fun _ _ => true) d (.atom (.int 0)) = none ∧
    assertValid (fun _ _ => true) d (.atom (.int 2)) = some .valueError ∧
    assertValid (fun _ _ => true) d (.atom (.str "x")) = some .valueError ∧
    assertValid (fun _ _ => true) d' (.atom (.int 1)) = some .typeError ∧
    assertValid (fun _ _ => true) d' (.atom (.bool true)) = none := by
  decide +kernel

/-! ### Non-vacuity: the hypotheses are met by concrete non-trivial instances -/

-- a declaration with values, bounds, allow_none and a check_valid predicate: accepted / rejected
example :
    let d : Decl := declMixed
    let cv : Nat → Val → Bool := fun _ v => decide (v ≠ .atom (.bool true))
    assertValid cv d (.atom (.int 2)) = none ∧ assertValid cv d (.atom (.float 2)) = none ∧
    assertValid cv d (.atom .none) = none ∧
    assertValid cv d (.atom (.bool true)) = some .valueError ∧       -- True == 1 but check_valid
    assertValid cv d (.atom (.float (5/2))) = some .valueError ∧     -- in values, above upper
    assertValid cv d (.atom (.str "a")) = some .typeError ∧          -- in values, '>' raises
    assertValid cv d (.atom (.int 3)) = some .valueError := by
  decide +kernel

-- the sample state is reachable, writable, and the hypotheses of the restore theorems hold for a
-- nested body with a caught exception
example : (sampleState cfgFix).readOnly = false ∧
    Prog.NoDecl (.seq (.op (.set "b" (.atom (.str "y"))) false)
      (.catch (.temp [("b", .atom (.str "z"))] true .raise))) := by
  constructor
  · decide +kernel
  · simp [Prog.NoDecl]

example : Good cfgFix (sampleState cfgFix) := by
  unfold sampleState
  apply C27_valid_values_invariant _ _ _ _ (fun n a _ => by decide +kernel)
  apply C27_valid_values_invariant _ _ _ _ (fun n a _ => by decide +kernel)
  apply C27_valid_values_invariant _ _ _ _ (fun n a _ => by decide +kernel)
  exact C27_empty_good _ _

-- current code: a quiet run with distinct targets (hypotheses of the partial theorem), and the
-- state really changes inside the body
example :
    (enterCur cfgCur [("a", .atom (.int 2)), ("b", .atom (.str "t"))] (sampleState cfgCur)).2 = none ∧
    (enterCur cfgCur [("a", .atom (.int 2)), ("b", .atom (.str "t"))] (sampleState cfgCur)).1.valOf "a"
      = some (.atom (.int 2)) ∧
    (exec cfgCur (.temp [("a", .atom (.int 2)), ("b", .atom (.str "t"))] false
      (.op (.set "a" (.atom (.int 7))) false)) (sampleState cfgCur)).st = sampleState cfgCur := by
  decide +kernel

example : DistinctTargets (sampleState cfgCur) [("a", .atom (.int 2)), ("b", .atom (.str "t"))] := by
  unfold DistinctTargets; decide +kernel

-- read-only dictionary, alias forwarding
example : (step cfgCur { sampleState cfgCur with readOnly := true } (.set "a" (.atom (.int 3)))).2
    = .err .keyError := by decide +kernel

example : (step cfgCur (sampleState cfgCur) (.get "old")).2 = .val (.atom (.int 1)) ∧
    (step cfgCur (step cfgCur (sampleState cfgCur) (.set "old" (.atom (.int 4)))).1 (.get "a")).2
      = .val (.atom (.int 4)) ∧
    (step cfgCur (sampleState cfgCur) (.set "old" (.atom (.str "no")))).2 = .err .typeError := by
  decide +kernel

end OMV.C27
