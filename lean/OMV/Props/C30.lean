/-
C30 — Complex-step-safe helpers agree with NumPy and differentiate exactly.
Property theorems only (plus non-vacuity examples).

`Dual K` is a complex-step input to first order in the step (`re + i·h·du`, `h > 0`), or a jax
value/tangent pair.  Part 1 is algebra over an arbitrary linearly ordered field (so it covers `ℚ`,
what the driver runs, and `ℝ`, what the property means); the primitives `sqrt`, `arctan2`, `tanh`,
`floor` enter through the hypotheses that are stated.  Part 2 instantiates the model at `ℝ` with
Mathlib's `Real.sqrt`, `Real.arctan`, `Real.tanh` and shows that the dual part is the derivative
(`HasDerivAt`) of the real function along the perturbation.
-/
import OMV.Model.C30
import OMV.Proofs.C30
import OMV.Proofs.C30Analytic

set_option linter.unusedSectionVars false
set_option linter.unusedSimpArgs false
set_option linter.unusedVariables false

namespace OMV.C30

section algebra
variable {K : Type} [Field K] [LinearOrder K] [IsStrictOrderedRing K]

/-! ## abs -/

/-- Real input (no imaginary part): every branch returns NumPy's `|a|` with zero imaginary part. -/
theorem C30_abs_real_agrees (z : Dual K) (h : z.du = 0) :
    absScalar z = ⟨|z.re|, 0⟩ ∧ absElemReal z = ⟨|z.re|, 0⟩ ∧ absElemCs z = ⟨|z.re|, 0⟩ := by
  obtain ⟨a, b⟩ := z
  simp only at h; subst h
  refine ⟨?_, ?_, ?_⟩
  · unfold absScalar
    by_cases ha : a < 0
    · simp only [ha, if_true, abs_of_neg ha]; ext <;> simp
    · simp [ha, abs_of_nonneg (not_lt.mp ha)]
  · ext <;> simp [absElemReal, sgn_mul_self]
  · ext
    · by_cases ha : a = 0
      · subst ha; simp [absElemCs, sign1x]
      · simp [absElemCs, sign1x, ha, sgn_mul_self]
    · simp [absElemCs]

/-- Away from the kink both branches return `|a| + ε·sign(a)·b`. -/
theorem C30_abs_dual (z : Dual K) (h : z.re ≠ 0) :
    absScalar z = ⟨|z.re|, sgn z.re * z.du⟩ ∧ absElemCs z = ⟨|z.re|, sgn z.re * z.du⟩ := by
  obtain ⟨a, b⟩ := z
  simp only at h
  constructor
  · unfold absScalar
    rcases lt_or_gt_of_ne h with ha | ha
    · simp only [ha, if_true, sgn_neg ha, abs_of_neg ha]; ext <;> simp
    · simp only [not_lt.mpr ha.le, if_false, sgn_pos ha, abs_of_pos ha]; ext <;> simp
  · ext
    · simp [absElemCs, sign1x, h, sgn_mul_self]
    · simp [absElemCs, sign1x, h, mul_comm]

/-- At the kink (`a = 0`): the ndarray branch returns the one-sided directional derivative `|b|`
(NumPy-1.x sign rule `sign(x.imag)`), the scalar branch returns `b` (the right derivative `+1`).
The real part is `0` in both. -/
theorem C30_abs_kink (b : K) :
    absElemCs (⟨0, b⟩ : Dual K) = ⟨0, |b|⟩ ∧ absScalar (⟨0, b⟩ : Dual K) = ⟨0, b⟩ := by
  constructor
  · ext <;> simp [absElemCs, sign1x, sgn_mul_self]
  · simp [absScalar]

/-- The two branches agree except at the kink with a negative perturbation. -/
theorem C30_abs_scalar_eq_array (z : Dual K) (h : z.re ≠ 0 ∨ 0 ≤ z.du) :
    absScalar z = absElemCs z := by
  by_cases h0 : z.re = 0
  · obtain ⟨a, b⟩ := z
    simp only at h0; subst h0
    have hb : 0 ≤ b := by simpa using h
    rw [(C30_abs_kink b).1, (C30_abs_kink b).2, abs_of_nonneg hb]
  · rw [(C30_abs_dual z h0).1, (C30_abs_dual z h0).2]

/-- ... and there they differ (`abs(0 - 1e-40j)` is `-1e-40j`, `abs(array(0 - 1e-40j))` is `+1e-40j`). -/
theorem C30_abs_scalar_array_differ_at_kink :
    absScalar (⟨0, -1⟩ : Dual Rat) = ⟨0, -1⟩ ∧ absArray [(⟨0, -1⟩ : Dual Rat)] = [⟨0, 1⟩] := by
  decide +kernel

/-- The masked assignments of the NumPy-2 branch compute, element by element, the NumPy-1.x rule
`x * (sign(x.real) if x.real != 0 else sign(x.imag))`. -/
theorem C30_abs_masked_elementwise (xs : List (Dual K)) :
    absArrayMasked xs = xs.map absElemCs := by
  unfold absArrayMasked
  simp only
  have h1 := maskSet_select (fun z : Dual K => decide (z.re ≠ 0)) (fun z => sgn z.re) xs
    (xs.map (fun _ => (0 : K))) (by simp)
  rw [h1]
  have h2 := maskSet_select (fun z : Dual K => decide (z.re = 0)) (fun z => sgn z.du) xs
    (List.zipWith (fun x d => if decide (x.re ≠ 0) = true then sgn x.re else d) xs
      (xs.map (fun _ => (0 : K)))) (by simp)
  rw [h2]
  clear h1 h2
  induction xs with
  | nil => simp
  | cons x xs ih =>
    simp only [List.map_cons, List.zipWith_cons_cons, List.cons.injEq]
    refine ⟨?_, ih⟩
    unfold absElemCs sign1x
    by_cases h : x.re = 0 <;> simp [h]

/-- Which branch `np.any(np.iscomplex(x))` selects does not matter: the ndarray result is always the
elementwise rule. -/
theorem C30_abs_array_elementwise (xs : List (Dual K)) : absArray xs = xs.map absElemCs := by
  unfold absArray
  split
  · exact C30_abs_masked_elementwise xs
  · rename_i h
    simp only [List.any_eq_true, decide_eq_true_eq, not_exists, not_and, not_not] at h
    apply List.map_congr_left
    intro z hz
    have hd := h z hz
    rw [(C30_abs_real_agrees z hd).2.1, (C30_abs_real_agrees z hd).2.2]

/-- The dual part is the derivative, exactly (abs is piecewise linear): for `a ≠ 0` the real function
`t ↦ |a + t·b|` equals `re + t·du` as long as the perturbation does not reach the kink; at the kink
the ndarray branch is the one-sided derivative along `b` (`t ≥ 0`) and the scalar branch is the
derivative on the side `t·b ≥ 0`. -/
theorem C30_abs_derivative (a b t : K) :
    (a ≠ 0 → |t * b| < |a| →
      |a + t * b| = (absElemCs ⟨a, b⟩).re + t * (absElemCs ⟨a, b⟩).du) ∧
    (0 ≤ t → |0 + t * b| = (absElemCs ⟨0, b⟩).re + t * (absElemCs ⟨0, b⟩).du) ∧
    (0 ≤ t * b → |0 + t * b| = (absScalar ⟨0, b⟩).re + t * (absScalar ⟨0, b⟩).du) := by
  refine ⟨?_, ?_, ?_⟩
  · intro ha hlt
    rw [(C30_abs_dual ⟨a, b⟩ ha).2]
    simp only
    have h1 := abs_lt.mp hlt
    rcases lt_or_gt_of_ne ha with h | h
    · rw [abs_of_neg h] at h1 ⊢
      rw [sgn_neg h, abs_of_neg (by linarith [h1.2])]; ring
    · rw [abs_of_pos h] at h1 ⊢
      rw [sgn_pos h, abs_of_pos (by linarith [h1.1])]; ring
  · intro ht
    rw [(C30_abs_kink b).1]
    simp [abs_mul, abs_of_nonneg ht]
  · intro htb
    rw [(C30_abs_kink b).2]
    simp [abs_of_nonneg htb]

/-! ## norm -/

/-- Real input: `norm` returns `sqrt(Σ a²)` (NumPy's 2-norm / Frobenius norm) with zero imaginary
part. -/
theorem C30_norm_real_agrees (sqrt : K → K) (h0 : sqrt 0 = 0) (zs : List (Dual K))
    (hreal : ∀ z ∈ zs, z.du = 0) :
    csNorm sqrt zs = ⟨sqrt ((zs.map (fun z => z.re * z.re)).sum), 0⟩ := by
  have hdu : (zs.map (fun z => z.re * z.du)).sum = 0 := by
    apply List.sum_eq_zero
    intro x hx
    obtain ⟨z, hz, rfl⟩ := List.mem_map.mp hx
    simp [hreal z hz]
  have hdd : (zs.map (fun z => z.du * z.du)).sum = 0 := by
    apply List.sum_eq_zero
    intro x hx
    obtain ⟨z, hz, rfl⟩ := List.mem_map.mp hx
    simp [hreal z hz]
  unfold csNorm
  simp only [sumSq_re, sumK_eq]
  split
  · rename_i hz
    rw [hz, hdd, h0]
  · unfold dsqrt
    ext
    · simp [sumSq_re]
    · simp [sumSq_du, hdu]

/-- Away from the zero vector: `n = sqrt(Σ a²)`, `n² = Σ a²` and the imaginary part is
`Σ aᵢ bᵢ / n` (stated as `du · n = Σ aᵢ bᵢ`, with `n > 0`). -/
theorem C30_norm_dual (sqrt : K → K) (hs : ∀ s, 0 ≤ s → sqrt s * sqrt s = s)
    (hp : ∀ s, 0 ≤ sqrt s) (zs : List (Dual K))
    (hne : (zs.map (fun z => z.re * z.re)).sum ≠ 0) :
    (csNorm sqrt zs).re = sqrt ((zs.map (fun z => z.re * z.re)).sum) ∧
    (csNorm sqrt zs).re * (csNorm sqrt zs).re = (zs.map (fun z => z.re * z.re)).sum ∧
    0 < (csNorm sqrt zs).re ∧
    (csNorm sqrt zs).du * (csNorm sqrt zs).re = (zs.map (fun z => z.re * z.du)).sum := by
  have hnn : 0 ≤ (zs.map (fun z => z.re * z.re)).sum := by
    have := sum_sq_nonneg (zs.map Dual.re)
    simpa [List.map_map, Function.comp_def] using this
  have hsq := hs _ hnn
  have hpos : 0 < sqrt ((zs.map (fun z => z.re * z.re)).sum) := by
    rcases (hp ((zs.map (fun z => z.re * z.re)).sum)).lt_or_eq with h | h
    · exact h
    · rw [← h] at hsq; simp at hsq; exact absurd hsq.symm hne
  have hN : csNorm sqrt zs = ⟨sqrt ((zs.map (fun z => z.re * z.re)).sum),
      2 * (zs.map (fun z => z.re * z.du)).sum
        / ((1 + 1) * sqrt ((zs.map (fun z => z.re * z.re)).sum))⟩ := by
    unfold csNorm
    simp only [sumSq_re, if_neg hne]
    unfold dsqrt
    simp only [sumSq_re, sumSq_du]
  rw [hN]
  refine ⟨rfl, hsq, hpos, ?_⟩
  simp only
  generalize sqrt ((zs.map (fun z => z.re * z.re)).sum) = r at hpos
  have hr : r ≠ 0 := hpos.ne'
  field_simp
  ring

/-- Equivalently: as dual numbers, `norm(x)² = Σ x²`. -/
theorem C30_norm_sq (sqrt : K → K) (hs : ∀ s, 0 ≤ s → sqrt s * sqrt s = s)
    (hp : ∀ s, 0 ≤ sqrt s) (zs : List (Dual K))
    (hne : (zs.map (fun z => z.re * z.re)).sum ≠ 0) :
    csNorm sqrt zs * csNorm sqrt zs = sumSq zs := by
  obtain ⟨_, h2, _, h4⟩ := C30_norm_dual sqrt hs hp zs hne
  ext
  · simp [h2, sumSq_re]
  · simp only [mul_du, sumSq_du]
    rw [mul_comm (csNorm sqrt zs).re, h4]; ring

/-- At the zero vector `norm` returns the one-sided directional derivative `‖b‖ = sqrt(Σ b²)`:
`‖0 + t·b‖ = t·‖b‖` for `t ≥ 0`. -/
theorem C30_norm_zero (sqrt : K → K) (hs : ∀ s, 0 ≤ s → sqrt s * sqrt s = s)
    (hp : ∀ s, 0 ≤ sqrt s) (zs : List (Dual K)) (hz : ∀ z ∈ zs, z.re = 0) (t : K) (ht : 0 ≤ t) :
    csNorm sqrt zs = ⟨0, sqrt ((zs.map (fun z => z.du * z.du)).sum)⟩ ∧
    sqrt ((zs.map (fun z => (0 + t * z.du) * (0 + t * z.du))).sum)
      = (csNorm sqrt zs).re + t * (csNorm sqrt zs).du := by
  have hre : (zs.map (fun z => z.re * z.re)).sum = 0 := by
    apply List.sum_eq_zero
    intro x hx
    obtain ⟨z, hz', rfl⟩ := List.mem_map.mp hx
    simp [hz z hz']
  have h1 : csNorm sqrt zs = ⟨0, sqrt ((zs.map (fun z => z.du * z.du)).sum)⟩ := by
    unfold csNorm
    simp only [sumSq_re, hre, if_true, sumK_eq]
  refine ⟨h1, ?_⟩
  rw [h1]
  simp only [zero_add]
  have hB : 0 ≤ (zs.map (fun z => z.du * z.du)).sum := by
    have := sum_sq_nonneg (zs.map Dual.du)
    simpa [List.map_map, Function.comp_def] using this
  have hscale := sum_scale_sq t (zs.map Dual.du)
  simp only [List.map_map, Function.comp_def] at hscale
  rw [hscale]
  set B := (zs.map (fun z => z.du * z.du)).sum with hBdef
  have hL := hs (t * t * B) (by positivity)
  have hR : (t * sqrt B) * (t * sqrt B) = t * t * B := by
    have := hs B hB
    calc (t * sqrt B) * (t * sqrt B) = t * t * (sqrt B * sqrt B) := by ring
      _ = t * t * B := by rw [this]
  have hnn1 := hp (t * t * B)
  have hnn2 : 0 ≤ t * sqrt B := mul_nonneg ht (hp B)
  have := (mul_self_inj hnn1 hnn2).mp (by rw [hL, hR])
  rw [this]

/-! ## arctan2 -/

/-- Real inputs away from the origin: both the complex-dtype branch and the real branch return
`np.arctan2(a, c)` with zero imaginary part. -/
theorem C30_arctan2_real_agrees (f : K → K → K) (a c : K) (h : a ≠ 0 ∨ c ≠ 0) :
    csArctan2 f true ⟨a, 0⟩ ⟨c, 0⟩ = some ⟨f a c, 0⟩ ∧
    csArctan2 f false ⟨a, 0⟩ ⟨c, 0⟩ = some ⟨f a c, 0⟩ := by
  have hden : a * a + c * c ≠ 0 := by
    rcases h with h | h
    · have := mul_self_pos.mpr h; nlinarith [mul_self_nonneg c]
    · have := mul_self_pos.mpr h; nlinarith [mul_self_nonneg a]
  constructor
  · simp [csArctan2, hden]
  · simp [csArctan2]

/-- Away from the origin the imaginary part is `(c·b − a·d)/(a² + c²)`, the derivative of the angle
of the point `(c, a)` moving with velocity `(d, b)`: it vanishes for a radial perturbation and equals
`k` for the rotation `(d, b) = k·(−a, c)`. -/
theorem C30_arctan2_dual (f : K → K → K) (a b c d : K) (h : a ≠ 0 ∨ c ≠ 0) :
    ∃ v, csArctan2 f true ⟨a, b⟩ ⟨c, d⟩ = some v ∧ v.re = f a c ∧
      v.du = (c * b - a * d) / (a ^ 2 + c ^ 2) ∧
      (∀ k, b = k * a → d = k * c → v.du = 0) ∧
      (∀ k, b = k * c → d = -(k * a) → v.du = k) := by
  have hden : a * a + c * c ≠ 0 := by
    rcases h with h | h
    · have := mul_self_pos.mpr h; nlinarith [mul_self_nonneg c]
    · have := mul_self_pos.mpr h; nlinarith [mul_self_nonneg a]
  refine ⟨⟨f a c, (c * b - a * d) / (a * a + c * c)⟩, ?_, rfl, ?_, ?_, ?_⟩
  · simp [csArctan2, hden]
  · simp only [pow_two]
  · intro k hb hd
    simp only [hb, hd]
    rw [div_eq_zero_iff]; left; ring
  · intro k hb hd
    simp only [hb, hd]
    rw [div_eq_iff hden]; ring

/-- At the origin the complex-dtype branch divides by zero (`nan` / `ZeroDivisionError`), also for
inputs without imaginary part; the real branch returns `np.arctan2(0, 0)`. -/
theorem C30_arctan2_origin (f : K → K → K) (b d : K) :
    csArctan2 f true ⟨0, b⟩ ⟨0, d⟩ = none ∧
    csArctan2 f false (⟨0, 0⟩ : Dual K) ⟨0, 0⟩ = some ⟨f 0 0, 0⟩ := by
  simp [csArctan2]

/-! ## jax smooth helpers -/

/-- `act_tanh`: value `(b−a)/2·(1 + tanh u) + a` with `u = (x − z)/mu`, and tangent
`(db−da)/2·(1 + tanh u) + (b−a)/2·(1 − tanh² u)·(dx − dz)/mu + da`. -/
theorem C30_act_tanh_dual (th : K → K) (x z a b : Dual K) (mu : K) :
    (actTanh th x mu z a b).re
      = (b.re - a.re) / 2 * (1 + th ((x.re - z.re) / mu)) + a.re ∧
    (actTanh th x mu z a b).du
      = (b.du - a.du) / 2 * (1 + th ((x.re - z.re) / mu))
        + (b.re - a.re) / 2 * (1 - th ((x.re - z.re) / mu) ^ 2) * ((x.du - z.du) / mu)
        + a.du := by
  unfold actTanh
  simp only [add_re, add_du, mul_re, mul_du, const_re, const_du, sub_re, sub_du, dtanh_re,
    dtanh_du, divK_re, divK_du, half_eq]
  constructor <;> ring

/-- `act_tanh` stays between its two levels when `|tanh| ≤ 1`, and is the midpoint at `x = z`. -/
theorem C30_act_tanh_range (th : K → K) (hb : ∀ u, -1 ≤ th u ∧ th u ≤ 1) (x z mu a b : K)
    (hab : a ≤ b) :
    a ≤ (actTanh th (Dual.const x) mu (Dual.const z) (Dual.const a) (Dual.const b)).re ∧
    (actTanh th (Dual.const x) mu (Dual.const z) (Dual.const a) (Dual.const b)).re ≤ b ∧
    (th 0 = 0 →
      (actTanh th (Dual.const z) mu (Dual.const z) (Dual.const a) (Dual.const b)).re
        = (a + b) / 2) := by
  simp only [(C30_act_tanh_dual th _ _ _ _ mu).1, const_re]
  obtain ⟨h1, h2⟩ := hb ((x - z) / mu)
  refine ⟨?_, ?_, ?_⟩
  · nlinarith
  · nlinarith
  · intro h0
    simp [h0]; ring

/-- `smooth_max`: with `w = (1 + tanh((x−y)/mu))/2` the value is `w·x + (1−w)·y` and the tangent is
`w·dx + (1−w)·dy + (x−y)·(1 − tanh²)/2·(dx−dy)/mu`. -/
theorem C30_smooth_max_dual (th : K → K) (x y : Dual K) (mu : K) :
    let t := th ((x.re - y.re) / mu)
    let w := (1 + t) / 2
    (smoothMax th x y mu).re = w * x.re + (1 - w) * y.re ∧
    (smoothMax th x y mu).du
      = w * x.du + (1 - w) * y.du + (x.re - y.re) * ((1 - t ^ 2) / 2 * ((x.du - y.du) / mu)) := by
  unfold smoothMax
  simp only [add_re, add_du, mul_re, mul_du, sub_re, sub_du, const_re, const_du,
    (C30_act_tanh_dual th _ _ _ _ mu).1, (C30_act_tanh_dual th _ _ _ _ mu).2]
  constructor <;> ring

/-- `smooth_min` is the mirror image: `w·y + (1−w)·x`. -/
theorem C30_smooth_min_dual (th : K → K) (x y : Dual K) (mu : K) :
    let t := th ((x.re - y.re) / mu)
    let w := (1 + t) / 2
    (smoothMin th x y mu).re = w * y.re + (1 - w) * x.re ∧
    (smoothMin th x y mu).du
      = w * y.du + (1 - w) * x.du - (x.re - y.re) * ((1 - t ^ 2) / 2 * ((x.du - y.du) / mu)) := by
  unfold smoothMin
  simp only [add_re, add_du, mul_re, mul_du, sub_re, sub_du, const_re, const_du,
    (C30_act_tanh_dual th _ _ _ _ mu).1, (C30_act_tanh_dual th _ _ _ _ mu).2]
  constructor <;> ring

/-- Values and tangents of `smooth_max` and `smooth_min` always add up to those of `x + y`. -/
theorem C30_smooth_max_add_min (th : K → K) (x y : Dual K) (mu : K) :
    smoothMax th x y mu + smoothMin th x y mu = x + y := by
  have h1 := C30_smooth_max_dual th x y mu
  have h2 := C30_smooth_min_dual th x y mu
  simp only at h1 h2
  ext
  · simp only [add_re, h1.1, h2.1]; ring
  · simp only [add_du, h1.2, h2.2]; ring

/-- Both are convex combinations (`|tanh| ≤ 1`): they lie between `min(x,y)` and `max(x,y)`; and
when `tanh` has the sign of its argument and `mu > 0`, `smooth_min ≤ (x+y)/2 ≤ smooth_max`. -/
theorem C30_smooth_max_between (th : K → K) (hb : ∀ u, -1 ≤ th u ∧ th u ≤ 1) (x y mu : K) :
    min x y ≤ (smoothMax th (Dual.const x) (Dual.const y) mu).re ∧
    (smoothMax th (Dual.const x) (Dual.const y) mu).re ≤ max x y ∧
    min x y ≤ (smoothMin th (Dual.const x) (Dual.const y) mu).re ∧
    (smoothMin th (Dual.const x) (Dual.const y) mu).re ≤ max x y := by
  have h1 := (C30_smooth_max_dual th (Dual.const x) (Dual.const y) mu).1
  have h2 := (C30_smooth_min_dual th (Dual.const x) (Dual.const y) mu).1
  simp only [const_re] at h1 h2
  rw [h1, h2]
  obtain ⟨ht1, ht2⟩ := hb ((x - y) / mu)
  rcases le_total x y with hxy | hxy
  · rw [min_eq_left hxy, max_eq_right hxy]
    refine ⟨?_, ?_, ?_, ?_⟩ <;> nlinarith
  · rw [min_eq_right hxy, max_eq_left hxy]
    refine ⟨?_, ?_, ?_, ?_⟩ <;> nlinarith

theorem C30_smooth_max_ge_mean (th : K → K) (hsgn : ∀ u, 0 ≤ u * th u) (x y mu : K)
    (hmu : 0 < mu) :
    (smoothMin th (Dual.const x) (Dual.const y) mu).re ≤ (x + y) / 2 ∧
    (x + y) / 2 ≤ (smoothMax th (Dual.const x) (Dual.const y) mu).re := by
  have h1 := (C30_smooth_max_dual th (Dual.const x) (Dual.const y) mu).1
  have h2 := (C30_smooth_min_dual th (Dual.const x) (Dual.const y) mu).1
  simp only [const_re] at h1 h2
  rw [h1, h2]
  have h := hsgn ((x - y) / mu)
  have h' : 0 ≤ (x - y) * th ((x - y) / mu) := by
    have : (x - y) * th ((x - y) / mu) = mu * ((x - y) / mu * th ((x - y) / mu)) := by
      field_simp
    rw [this]; exact mul_nonneg hmu.le h
  constructor <;> nlinarith

/-- `smooth_max` is symmetric in its arguments when `tanh` is odd (values and tangents). -/
theorem C30_smooth_max_symm (th : K → K) (hodd : ∀ u, th (-u) = -th u) (x y : Dual K) (mu : K) :
    smoothMax th x y mu = smoothMax th y x mu ∧ smoothMin th x y mu = smoothMin th y x mu := by
  have e : (y.re - x.re) / mu = -((x.re - y.re) / mu) := by ring
  have h1 := C30_smooth_max_dual th x y mu
  have h2 := C30_smooth_max_dual th y x mu
  have h3 := C30_smooth_min_dual th x y mu
  have h4 := C30_smooth_min_dual th y x mu
  simp only at h1 h2 h3 h4
  constructor
  · ext
    · rw [h1.1, h2.1, e, hodd]; ring
    · rw [h1.2, h2.2, e, hodd]; ring
  · ext
    · rw [h3.1, h4.1, e, hodd]; ring
    · rw [h3.2, h4.2, e, hodd]; ring

/-- `smooth_abs(x) = x·tanh(x/mu)`, tangent `(tanh u + x·(1 − tanh² u)/mu)·dx`; it is
`smooth_max(x, −x)` with `mu/2`; and for a sign-preserving `tanh` bounded by 1 and `mu > 0`,
`0 ≤ smooth_abs(x) ≤ |x|`. -/
theorem C30_smooth_abs_dual (th : K → K) (x : Dual K) (mu : K) :
    (smoothAbs th x mu).re = x.re * th (x.re / mu) ∧
    (smoothAbs th x mu).du
      = (th (x.re / mu) + x.re * ((1 - th (x.re / mu) ^ 2) / mu)) * x.du ∧
    smoothAbs th x (mu / 2) = smoothMax th x (-x) mu := by
  have h := C30_act_tanh_dual th x (Dual.const 0) (Dual.const (-1)) (Dual.const 1) mu
  have hm := C30_smooth_max_dual th x (-x) mu
  have h' := C30_act_tanh_dual th x (Dual.const 0) (Dual.const (-1)) (Dual.const 1) (mu / 2)
  simp only [const_re, const_du, sub_zero, neg_re, neg_du] at h hm h'
  have e : (x.re - -x.re) / mu = x.re / (mu / 2) := by
    rw [sub_neg_eq_add, div_div_eq_mul_div]; ring
  refine ⟨?_, ?_, ?_⟩
  · unfold smoothAbs; rw [mul_re, h.1]; ring
  · unfold smoothAbs; rw [mul_du, h.1, h.2]; ring
  · ext
    · unfold smoothAbs; rw [mul_re, h'.1, hm.1, e]; ring
    · unfold smoothAbs; rw [mul_du, h'.1, h'.2, hm.2, e]
      by_cases hmu : mu = 0
      · subst hmu; simp; ring
      · field_simp; ring

theorem C30_smooth_abs_range (th : K → K) (hb : ∀ u, -1 ≤ th u ∧ th u ≤ 1)
    (hsgn : ∀ u, 0 ≤ u * th u) (x mu : K) (hmu : 0 < mu) :
    0 ≤ (smoothAbs th (Dual.const x) mu).re ∧ (smoothAbs th (Dual.const x) mu).re ≤ |x| := by
  rw [(C30_smooth_abs_dual th (Dual.const x) mu).1]
  simp only [const_re]
  have h := hsgn (x / mu)
  obtain ⟨h1, h2⟩ := hb (x / mu)
  have h' : 0 ≤ x * th (x / mu) := by
    have : x * th (x / mu) = mu * (x / mu * th (x / mu)) := by field_simp
    rw [this]; exact mul_nonneg hmu.le h
  refine ⟨h', ?_⟩
  rcases le_total 0 x with hx | hx
  · rw [abs_of_nonneg hx]; nlinarith
  · rw [abs_of_nonpos hx]; nlinarith

/-- `smooth_round`: value `⌊x⌋ + (1 + tanh((x − ⌊x⌋ − 1/2)/mu))/2`, within `[⌊x⌋, ⌊x⌋ + 1]`, equal to
`x` at half-integers (`tanh 0 = 0`); the tangent is `(1 − tanh²)/(2·mu)·dx` (`floor` contributes
none). -/
theorem C30_smooth_round_dual (th fl : K → K) (x : Dual K) (mu : K) :
    let t := th ((x.re - fl x.re - 1 / 2) / mu)
    (smoothRound th fl x mu).re = fl x.re + (1 + t) / 2 ∧
    (smoothRound th fl x mu).du = (1 - t ^ 2) / 2 * (x.du / mu) ∧
    ((∀ u, -1 ≤ th u ∧ th u ≤ 1) →
      fl x.re ≤ (smoothRound th fl x mu).re ∧ (smoothRound th fl x mu).re ≤ fl x.re + 1) ∧
    (th 0 = 0 → x.re = fl x.re + 1 / 2 → (smoothRound th fl x mu).re = x.re) := by
  have hre : (smoothRound th fl x mu).re
      = fl x.re + (1 + th ((x.re - fl x.re - 1 / 2) / mu)) / 2 := by
    unfold smoothRound
    simp only [add_re, mul_re, const_re, sub_re, dtanh_re, divK_re, half_eq]
    ring
  refine ⟨hre, ?_, ?_, ?_⟩
  · unfold smoothRound
    simp only [add_du, mul_du, const_re, const_du, sub_re, sub_du, dtanh_re, dtanh_du, divK_re,
      divK_du, half_eq]
    ring
  · intro hb
    obtain ⟨h1, h2⟩ := hb ((x.re - fl x.re - 1 / 2) / mu)
    rw [hre]
    constructor <;> linarith
  · intro h0 hx
    rw [hre]
    have h1 : x.re - fl x.re - 1 / 2 = 0 := by linarith
    have : (x.re - fl x.re - 1 / 2) / mu = 0 := by rw [h1]; simp
    rw [this, h0]; linarith

end algebra

/-! ## Part 2 — at `ℝ` the dual part is the derivative

`line z t` is the real input `z.re + t·z.du` (`Proofs/C30Analytic.lean`); each statement says that the
real function obtained by running the model on the real line through the input has, at `t = 0`, the
value `re` and the derivative `du` that the model returns for the perturbed input. -/

section analytic

/-- `norm`: `t ↦ sqrt(Σ (aᵢ + t bᵢ)²)` has derivative `du` at the non-zero vector `a`. -/
theorem C30_norm_hasDerivAt (zs : List (Dual ℝ))
    (hne : (zs.map (fun z => z.re * z.re)).sum ≠ 0) :
    (csNorm Real.sqrt zs).re = Real.sqrt ((zs.map (fun z => z.re * z.re)).sum) ∧
    HasDerivAt (fun t => Real.sqrt ((zs.map (fun z => (z.re + t * z.du) * (z.re + t * z.du))).sum))
      (csNorm Real.sqrt zs).du 0 := by
  have h := (tracks_sumSq zs).sqrt (by rw [sumSq_re]; exact hne)
  have e : csNorm Real.sqrt zs = dsqrt Real.sqrt (sumSq zs) := by
    unfold csNorm; simp only [sumSq_re, if_neg hne]
  rw [e]
  refine ⟨?_, h.2⟩
  simp [dsqrt, sumSq_re]

/-- `arctan2`: on `c ≠ 0` the angle is `arctan(a/c)` up to a constant (`0`, `±π`), on `a ≠ 0` it is
`−arctan(c/a)` up to a constant (`±π/2`); both have derivative `du` along the perturbation. -/
theorem C30_arctan2_hasDerivAt (f : ℝ → ℝ → ℝ) (a b c d : ℝ) (v : Dual ℝ)
    (hv : csArctan2 f true ⟨a, b⟩ ⟨c, d⟩ = some v) :
    (c ≠ 0 → HasDerivAt (fun t => Real.arctan ((a + t * b) / (c + t * d))) v.du 0) ∧
    (a ≠ 0 → HasDerivAt (fun t => -Real.arctan ((c + t * d) / (a + t * b))) v.du 0) := by
  unfold csArctan2 at hv
  simp only [if_true] at hv
  split at hv
  · exact absurd hv (by simp)
  rename_i hden
  have hvd : v.du = (c * b - a * d) / (a * a + c * c) := by
    have := Option.some.inj hv; rw [← this]
  have hy := (Tracks.line ⟨a, b⟩).2
  have hx := (Tracks.line ⟨c, d⟩).2
  simp only at hy hx
  constructor
  · intro hc
    have h := (hy.div hx (by simpa using hc)).arctan
    refine h.congr_deriv ?_
    rw [hvd]
    simp only [Pi.div_apply, zero_mul, add_zero]
    field_simp
    ring
  · intro ha
    have h := (hx.div hy (by simpa using ha)).arctan.neg
    refine h.congr_deriv ?_
    rw [hvd]
    simp only [Pi.div_apply, zero_mul, add_zero]
    field_simp
    ring

/-- `act_tanh` (all of `x`, `z`, `a`, `b` may be perturbed; `mu` is a parameter). -/
theorem C30_act_tanh_hasDerivAt (x z a b : Dual ℝ) (mu : ℝ) :
    HasDerivAt
      (fun t => (actTanh Real.tanh (line x t) mu (line z t) (line a t) (line b t)).re)
      (actTanh Real.tanh x mu z a b).du 0 :=
  (tracks_actTanh (Tracks.line x) (Tracks.line z) (Tracks.line a) (Tracks.line b) mu).2

theorem C30_smooth_max_hasDerivAt (x y : Dual ℝ) (mu : ℝ) :
    HasDerivAt (fun t => (smoothMax Real.tanh (line x t) (line y t) mu).re)
      (smoothMax Real.tanh x y mu).du 0 := by
  have hw := tracks_actTanh (Tracks.line x) (Tracks.line y) (Tracks.const 0) (Tracks.const 1) mu
  exact ((hw.mul (Tracks.line x)).add (((Tracks.const 1).sub hw).mul (Tracks.line y))).2

theorem C30_smooth_min_hasDerivAt (x y : Dual ℝ) (mu : ℝ) :
    HasDerivAt (fun t => (smoothMin Real.tanh (line x t) (line y t) mu).re)
      (smoothMin Real.tanh x y mu).du 0 := by
  have hw := tracks_actTanh (Tracks.line x) (Tracks.line y) (Tracks.const 0) (Tracks.const 1) mu
  exact ((hw.mul (Tracks.line y)).add (((Tracks.const 1).sub hw).mul (Tracks.line x))).2

theorem C30_smooth_abs_hasDerivAt (x : Dual ℝ) (mu : ℝ) :
    HasDerivAt (fun t => (smoothAbs Real.tanh (line x t) mu).re)
      (smoothAbs Real.tanh x mu).du 0 := by
  have hw := tracks_actTanh (Tracks.line x) (Tracks.const 0) (Tracks.const (-1)) (Tracks.const 1) mu
  exact ((Tracks.line x).mul hw).2

/-- `smooth_round` between integers (`x ∉ ℤ`, where `floor` is locally constant). -/
theorem C30_smooth_round_hasDerivAt (x : Dual ℝ) (mu : ℝ) (hx : (⌊x.re⌋ : ℝ) ≠ x.re) :
    HasDerivAt (fun t => (smoothRound Real.tanh (fun r => (⌊r⌋ : ℝ)) (line x t) mu).re)
      (smoothRound Real.tanh (fun r => (⌊r⌋ : ℝ)) x mu).du 0 := by
  -- with the floor frozen at `n = ⌊x.re⌋`
  have hfro : HasDerivAt
      (fun t => (smoothRound Real.tanh (fun _ => (⌊x.re⌋ : ℝ)) (line x t) mu).re)
      (smoothRound Real.tanh (fun r => (⌊r⌋ : ℝ)) x mu).du 0 := by
    have hn := Tracks.const (⌊x.re⌋ : ℝ)
    exact (hn.add ((Tracks.const half).mul ((Tracks.const 1).add
      ((((Tracks.line x).sub hn).sub (Tracks.const half)).divK mu).tanh))).2
  refine hfro.congr_of_eventuallyEq ?_
  have hlt : (⌊x.re⌋ : ℝ) < x.re := lt_of_le_of_ne (Int.floor_le _) hx
  have hgt : x.re < (⌊x.re⌋ : ℝ) + 1 := Int.lt_floor_add_one _
  have hcont : ContinuousAt (fun t : ℝ => x.re + t * x.du) 0 := by fun_prop
  have hmem : Set.Ioo (⌊x.re⌋ : ℝ) ((⌊x.re⌋ : ℝ) + 1) ∈ nhds (x.re + 0 * x.du) := by
    apply isOpen_Ioo.mem_nhds
    simp only [zero_mul, add_zero]
    exact ⟨hlt, hgt⟩
  filter_upwards [hcont.eventually hmem] with t ht
  have hfl : ⌊x.re + t * x.du⌋ = ⌊x.re⌋ := by
    rw [Int.floor_eq_iff]; exact ⟨ht.1.le, ht.2⟩
  simp only [smoothRound, line, const_re, hfl]

/-- The hypotheses under which Part 1 is stated hold for the real primitives. -/
theorem C30_real_primitives_meet_hypotheses :
    (∀ u : ℝ, -1 ≤ Real.tanh u ∧ Real.tanh u ≤ 1) ∧ (∀ u : ℝ, Real.tanh (-u) = -Real.tanh u) ∧
    (∀ u : ℝ, 0 ≤ u * Real.tanh u) ∧ Real.tanh 0 = 0 ∧
    (∀ s : ℝ, 0 ≤ s → Real.sqrt s * Real.sqrt s = s) ∧ (∀ s : ℝ, 0 ≤ Real.sqrt s) ∧
    Real.sqrt 0 = 0 ∧ (∀ r : ℝ, (⌊r⌋ : ℝ) ≤ r ∧ r < (⌊r⌋ : ℝ) + 1) := by
  refine ⟨fun u => ⟨(Real.neg_one_lt_tanh u).le, (Real.tanh_lt_one u).le⟩, Real.tanh_neg, ?_,
    Real.tanh_zero, fun s hs => Real.mul_self_sqrt hs, Real.sqrt_nonneg, Real.sqrt_zero,
    fun r => ⟨Int.floor_le r, Int.lt_floor_add_one r⟩⟩
  intro u
  rw [Real.tanh_eq_sinh_div_cosh, ← mul_div_assoc]
  apply div_nonneg _ (Real.cosh_pos u).le
  rcases le_total 0 u with h | h
  · exact mul_nonneg h (Real.sinh_nonneg_iff.mpr h)
  · exact mul_nonneg_of_nonpos_of_nonpos h (Real.sinh_nonpos_iff.mpr h)

-- the hypotheses of Part 2 are met: a non-zero vector, a point off the origin, a non-integer
example : (([⟨3, 1⟩, ⟨4, -2⟩] : List (Dual ℝ)).map (fun z => z.re * z.re)).sum ≠ 0 := by norm_num
example : ∃ v, csArctan2 (fun _ _ => (0 : ℝ)) true ⟨1, 3⟩ ⟨2, -1⟩ = some v := by
  refine ⟨⟨0, (2 * 3 - 1 * -1) / (1 * 1 + 2 * 2)⟩, ?_⟩
  unfold csArctan2
  norm_num
example : ((⌊(1 / 2 : ℝ)⌋ : ℤ) : ℝ) ≠ 1 / 2 := by
  have : ⌊(1 / 2 : ℝ)⌋ = 0 := by rw [Int.floor_eq_iff]; norm_num
  rw [this]; norm_num

end analytic

/-! ## non-vacuity: concrete instances meet the hypotheses

The hypotheses on `sqrt`, `tanh`, `floor` of Part 1 are met by the real functions
(`C30_real_primitives_meet_hypotheses`); the examples below run the model on `ℚ` with the stand-ins
`exSqrt` (exact on 25) and `exTh` of `Proofs/C30.lean`. -/

-- abs: away from the kink, at the kink, and an array that takes the masked branch
example : absElemCs (⟨-3/2, 2⟩ : Dual Rat) = ⟨3/2, -2⟩ ∧ absScalar (⟨-3/2, 2⟩ : Dual Rat) = ⟨3/2, -2⟩
    ∧ absArray [(⟨0, -1⟩ : Dual Rat), ⟨-3/2, 2⟩, ⟨0, 0⟩, ⟨5, 0⟩] = [⟨0, 1⟩, ⟨3/2, -2⟩, ⟨0, 0⟩, ⟨5, 0⟩]
    := by decide +kernel

-- norm: (3 + ε, 4 − 2ε) ↦ 5 − ε  (Σ a b / n = (3 − 8)/5)
example : csNorm exSqrt [(⟨3, 1⟩ : Dual Rat), ⟨4, -2⟩] = ⟨5, -1⟩ := by decide +kernel
-- arctan2: y = 1 + 3ε, x = 2 − ε  ↦ dual part (2·3 + 1·1)/5
example : (csArctan2 (fun _ _ => (0 : Rat)) true ⟨1, 3⟩ ⟨2, -1⟩).map Dual.du = some (7/5) := by
  decide +kernel
-- smooth helpers with the odd, bounded, sign-preserving stand-in `exTh u = u/(1+|u|)` for `tanh`
example : (smoothMax exTh (⟨1, 1⟩ : Dual Rat) ⟨0, 0⟩ 1).re = 3/4 ∧
    (smoothMin exTh (⟨1, 1⟩ : Dual Rat) ⟨0, 0⟩ 1).re = 1/4 ∧
    (smoothAbs exTh (⟨-1, 1⟩ : Dual Rat) 1).re = 1/2 ∧
    (smoothRound exTh (fun q => (q.floor : Rat)) (⟨5/2, 1⟩ : Dual Rat) 1).re = 5/2 := by
  decide +kernel

end OMV.C30
