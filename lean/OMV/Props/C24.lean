/-
C24 — Relevance pruning is unobservable in results (feed-forward models).
-/
import OMV.Model.C24
import Mathlib.Tactic.Ring
import Mathlib.Algebra.Ring.Basic

namespace OMV.C24

variable {K : Type} [CommRing K]

theorem attach_map {α β : Type} (l : List α) (f : α → β) :
    l.attach.map (fun j => f j.1) = l.map f := by simp

theorem attach_any {α : Type} (l : List α) (f : α → Bool) :
    l.attach.any (fun j => f j.1) = l.any f := by simp

theorem val_eq (seed : Nat → K) (W : Nat → Nat → K) (k : Nat) :
    val seed W k = seed k + sumList ((List.range k).map (fun j => W k j * val seed W j)) := by
  rw [val]; congr 2
  exact attach_map (List.range k) (fun j => W k j * val seed W j)

theorem valSkip_eq (keep : Nat → Bool) (seed : Nat → K) (W : Nat → Nat → K) (k : Nat) :
    valSkip keep seed W k = if keep k then
      seed k + sumList ((List.range k).map (fun j => W k j * valSkip keep seed W j)) else 0 := by
  rw [valSkip]
  split
  · congr 2
    exact attach_map (List.range k) (fun j => W k j * valSkip keep seed W j)
  · rfl

theorem reach_eq (seedNZ : Nat → Bool) (wNZ : Nat → Nat → Bool) (k : Nat) :
    reach seedNZ wNZ k = (seedNZ k || (List.range k).any (fun j => wNZ k j && reach seedNZ wNZ j)) := by
  rw [reach]; congr 1
  exact attach_any (List.range k) (fun j => wNZ k j && reach seedNZ wNZ j)

theorem infl_eq (wNZ : Nat → Nat → Bool) (r k : Nat) :
    infl wNZ r k = (decide (k = r) ||
      (List.range (r - k)).any (fun t => wNZ (k + 1 + t) k && infl wNZ r (k + 1 + t))) := by
  rw [infl]; congr 1
  exact attach_any (List.range (r - k)) (fun t => wNZ (k + 1 + t) k && infl wNZ r (k + 1 + t))

theorem sumList_congr (l : List Nat) (f g : Nat → K) (h : ∀ j ∈ l, f j = g j) :
    sumList (l.map f) = sumList (l.map g) := by
  induction l with
  | nil => rfl
  | cons a as ih =>
    simp only [List.map_cons, sumList, List.foldr_cons]
    rw [h a (List.mem_cons_self)]
    congr 1
    exact ih (fun j hj => h j (List.mem_cons_of_mem _ hj))

theorem sumList_zero (l : List Nat) (f : Nat → K) (h : ∀ j ∈ l, f j = 0) :
    sumList (l.map f) = 0 := by
  induction l with
  | nil => rfl
  | cons a as ih =>
    simp only [List.map_cons, sumList, List.foldr_cons]
    rw [h a (List.mem_cons_self)]
    have := ih (fun j hj => h j (List.mem_cons_of_mem _ hj))
    simp only [sumList] at this
    rw [this]; ring

/-- the relevance graph over-approximates the nonzero structure of seeds and partials -/
def Sound (seed : Nat → K) (W : Nat → Nat → K) (seedNZ : Nat → Bool) (wNZ : Nat → Nat → Bool) : Prop :=
  (∀ k, seedNZ k = false → seed k = 0) ∧ (∀ k j, wNZ k j = false → W k j = 0)

/-- A variable that no seed can reach has a zero linear solution: its system contributes nothing
and may be skipped. -/
theorem C24_irrelevant_zero (seed : Nat → K) (W : Nat → Nat → K) (seedNZ : Nat → Bool)
    (wNZ : Nat → Nat → Bool) (hs : Sound seed W seedNZ wNZ) :
    ∀ k, reach seedNZ wNZ k = false → val seed W k = 0 := by
  intro k
  induction k using Nat.strong_induction_on with
  | _ k ih =>
    intro hk
    rw [reach_eq, Bool.or_eq_false_iff] at hk
    rw [val_eq, hs.1 k hk.1, sumList_zero]
    · ring
    · intro j hj
      have hjk := List.mem_range.mp hj
      have h2 := List.any_eq_false.mp hk.2 j hj
      rw [Bool.and_eq_true, not_and_or] at h2
      rcases h2 with h2 | h2
      · rw [hs.2 k j (by simpa using h2)]; ring
      · rw [ih j hjk (by simpa using h2)]; ring

/-- Skipping every system outside the forward-reachable set leaves the whole solution unchanged. -/
theorem C24_skip_unreachable (seed : Nat → K) (W : Nat → Nat → K) (seedNZ : Nat → Bool)
    (wNZ : Nat → Nat → Bool) (hs : Sound seed W seedNZ wNZ) (keep : Nat → Bool)
    (hk : ∀ k, reach seedNZ wNZ k = true → keep k = true) :
    ∀ k, valSkip keep seed W k = val seed W k := by
  intro k
  induction k using Nat.strong_induction_on with
  | _ k ih =>
    rw [valSkip_eq]
    by_cases h : keep k = true
    · simp only [h, if_true]
      rw [val_eq]
      congr 1
      exact sumList_congr _ _ _ (fun j hj => by rw [ih j (List.mem_range.mp hj)])
    · simp only [h]
      have : reach seedNZ wNZ k = false := by
        by_contra hc
        exact h (hk k (by simpa using hc))
      rw [C24_irrelevant_zero seed W seedNZ wNZ hs k this]
      simp

theorem infl_le (wNZ : Nat → Nat → Bool) (r k : Nat) (h : infl wNZ r k = true) : k ≤ r := by
  rw [infl_eq] at h
  by_contra hc
  have : r - k = 0 := by omega
  rw [this] at h
  simp at h
  omega

theorem infl_pred (wNZ : Nat → Nat → Bool) (r k j : Nat) (hj : j < k) (hw : wNZ k j = true)
    (hk : infl wNZ r k = true) : infl wNZ r j = true := by
  have hkr := infl_le wNZ r k hk
  rw [infl_eq]
  apply Bool.or_eq_true_iff.mpr
  right
  rw [List.any_eq_true]
  refine ⟨k - (j + 1), List.mem_range.mpr (by omega), ?_⟩
  have e : j + 1 + (k - (j + 1)) = k := by omega
  rw [e, hw, hk]; rfl

/-- **Responses are unchanged.** Keeping only the systems that are both reachable from the seeds
and able to influence the response `r` (the relevance set: forward array ∩ reverse array) gives the
same value at `r` as the full solve. -/
theorem C24_response_unchanged (seed : Nat → K) (W : Nat → Nat → K) (seedNZ : Nat → Bool)
    (wNZ : Nat → Nat → Bool) (hs : Sound seed W seedNZ wNZ) (keep : Nat → Bool) (r : Nat)
    (hk : ∀ k, reach seedNZ wNZ k = true → infl wNZ r k = true → keep k = true) :
    valSkip keep seed W r = val seed W r := by
  have key : ∀ k, infl wNZ r k = true → valSkip keep seed W k = val seed W k := by
    intro k
    induction k using Nat.strong_induction_on with
    | _ k ih =>
      intro hik
      rw [valSkip_eq]
      by_cases h : keep k = true
      · simp only [h, if_true]
        rw [val_eq]
        congr 1
        apply sumList_congr
        intro j hj
        have hjk := List.mem_range.mp hj
        by_cases hw : wNZ k j = true
        · rw [ih j hjk (infl_pred wNZ r k j hjk hw hik)]
        · rw [hs.2 k j (by simpa using hw)]; ring
      · simp only [h]
        have : reach seedNZ wNZ k = false := by
          by_contra hc
          exact h (hk k (by simpa using hc) hik)
        rw [C24_irrelevant_zero seed W seedNZ wNZ hs k this]
        simp
  apply key
  rw [infl_eq]; simp

-- non-vacuity: chain 0 → 1 → 3, branch 2 (unseeded, irrelevant), 4 depends on 2 only
example :
    let seed : Nat → Int := fun k => if k = 0 then 1 else 0
    let W : Nat → Nat → Int := fun k j =>
      if (k, j) = (1, 0) then 2 else if (k, j) = (3, 1) then 5 else if (k, j) = (4, 2) then 7 else 0
    val seed W 3 = 10 ∧ val seed W 4 = 0 ∧
      valSkip (fun k => k = 0 || k = 1 || k = 3) seed W 3 = 10 := by
  refine ⟨by decide +kernel, by decide +kernel, by decide +kernel⟩

/-! ### fd/cs approximations chosen under relevance: no memory of earlier compute_totals calls -/

theorem addMethods_mem_left (ms : List Nat) (ds : List Decl) (m : Nat) (h : m ∈ ms) :
    m ∈ addMethods ms ds := by
  induction ds generalizing ms with
  | nil => simpa [addMethods] using h
  | cons d ds ih =>
    rw [addMethods]
    apply ih
    split
    · exact h
    · exact List.mem_append_left _ h

theorem addMethods_mem_decl (ms : List Nat) (ds : List Decl) (d : Decl) (h : d ∈ ds) :
    d.method ∈ addMethods ms ds := by
  induction ds generalizing ms with
  | nil => cases h
  | cons e ds ih =>
    rw [addMethods]
    rcases List.mem_cons.mp h with rfl | h
    · apply addMethods_mem_left
      split
      · rename_i hc; simpa using hc
      · simp
    · exact ih _ h

/-- after the repair every declared approximated partial is a candidate, whatever is live -/
theorem approxKeys_fixed (live : List Nat) (rel : Nat → Bool) (decls : List Decl) :
    approxKeys (methodsOf true live decls) rel decls = decls.filter (fun d => rel d.wrt) := by
  unfold approxKeys methodsOf
  apply List.filter_congr
  intro d hd
  have := addMethods_mem_decl live decls d hd
  simp [this]

/-- **History independence.**  What a call gives to the scheme of `m` depends on the declared
partials and on the *current* relevance only — not on the calls made before, nor on the state the
history started from. -/
theorem C24_approx_history_independent (decls : List Decl) (hist : List (Nat → Bool))
    (live0 : List Nat) (rel : Nat → Bool) (m : Nat) :
    approxQuery true decls (hist.foldl (approxStep true decls) live0) rel m =
      ((lastOfEachWrt (decls.filter (fun d => rel d.wrt))).filter (fun d => d.method == m)).map
        (·.wrt) := by
  unfold approxQuery schemeWrts
  rw [approxKeys_fixed]

theorem lastOfEachWrt_covers (ds : List Decl) (d : Decl) (h : d ∈ ds) :
    ∃ e ∈ lastOfEachWrt ds, e.wrt = d.wrt := by
  induction ds generalizing d with
  | nil => cases h
  | cons a ds ih =>
    rw [lastOfEachWrt]
    rcases List.mem_cons.mp h with rfl | h
    · split
      · rename_i hany
        obtain ⟨e, he, hw⟩ := List.any_eq_true.mp hany
        obtain ⟨e', he', hw'⟩ := ih e he
        exact ⟨e', he', by rw [hw']; simpa using hw⟩
      · exact ⟨d, List.mem_cons_self, rfl⟩
    · obtain ⟨e, he, hw⟩ := ih d h
      split
      · exact ⟨e, he, hw⟩
      · exact ⟨e, List.mem_cons_of_mem _ he, hw⟩

theorem lastOfEachWrt_sub (ds : List Decl) (d : Decl) (h : d ∈ lastOfEachWrt ds) : d ∈ ds := by
  induction ds with
  | nil => simp [lastOfEachWrt] at h
  | cons a ds ih =>
    rw [lastOfEachWrt] at h
    split at h
    · exact List.mem_cons_of_mem _ (ih h)
    · rcases List.mem_cons.mp h with rfl | h
      · exact List.mem_cons_self
      · exact List.mem_cons_of_mem _ (ih h)

/-- **Completeness after any history.**  Every declared approximated partial whose `wrt` is relevant
for the current of/wrt is perturbed by some scheme (so its sub-jacobian is not left at zero). -/
theorem C24_approx_complete (decls : List Decl) (hist : List (Nat → Bool)) (live0 : List Nat)
    (rel : Nat → Bool) (d : Decl) (hd : d ∈ decls) (hr : rel d.wrt = true) :
    ∃ m, d.wrt ∈ approxQuery true decls (hist.foldl (approxStep true decls) live0) rel m := by
  have hmem : d ∈ decls.filter (fun d => rel d.wrt) := List.mem_filter.mpr ⟨hd, by simpa using hr⟩
  obtain ⟨e, he, hw⟩ := lastOfEachWrt_covers _ d hmem
  refine ⟨e.method, ?_⟩
  rw [C24_approx_history_independent]
  refine List.mem_map.mpr ⟨e, List.mem_filter.mpr ⟨he, by simp⟩, hw⟩

/-- nothing irrelevant is approximated (either variant, any state) -/
theorem C24_approx_sound (fixed : Bool) (decls : List Decl) (live : List Nat) (rel : Nat → Bool)
    (m w : Nat) (h : w ∈ approxQuery fixed decls live rel m) : rel w = true := by
  unfold approxQuery schemeWrts at h
  obtain ⟨e, he, rfl⟩ := List.mem_map.mp h
  have h1 := lastOfEachWrt_sub _ e (List.mem_filter.mp he).1
  have h2 := (List.mem_filter.mp h1).2
  simp at h2
  exact h2.2

/-- The pinned snapshot is *not* history independent: one call for which the only approximated
partial is irrelevant, and the next call — for which it is relevant — approximates nothing. -/
theorem C24_approx_history_old_counterexample :
    let d : Decl := ⟨0, 0, 0⟩
    (∃ m, d.wrt ∈ approxQuery false [d] [d.method] (fun _ => true) m) ∧
    ∀ m, approxQuery false [d] ([fun _ => false].foldl (approxStep false [d]) [d.method])
      (fun _ => true) m = [] := by
  refine ⟨⟨0, by decide⟩, ?_⟩
  intro m
  simp [approxQuery, approxStep, methodsOf, schemeWrts, approxKeys, lastOfEachWrt]

-- non-vacuity: two methods, a wrt shared by two keys, a history that empties a scheme
example :
    let decls : List Decl := [⟨0, 10, 1⟩, ⟨1, 10, 2⟩, ⟨1, 11, 1⟩]
    let hist : List (Nat → Bool) := [fun _ => false, fun w => w == 11]
    approxQuery true decls (hist.foldl (approxStep true decls) []) (fun _ => true) 1 = [11] ∧
    approxQuery true decls (hist.foldl (approxStep true decls) []) (fun _ => true) 2 = [10] ∧
    hist.foldl (approxStep true decls) [1, 2] = [1] := by
  refine ⟨by decide, by decide, by decide⟩

end OMV.C24
