/-
C16 — Interpolation derivatives are exact derivatives of the interpolant.
Property theorems only (plus non-vacuity examples).  Helper lemmas: `OMV/Proofs/C16*.lean`.

"Exact derivative" is stated algebraically: the evaluators of `OMV.C15` are polymorphic and are run
on dual numbers `a + ε b` (`ε² = 0`); for these piecewise-rational functions the `ε` part of
`f(x + ε d)` **is** the directional derivative `f'(x)·d` (it is what complex step computes to first
order).  Branch decisions (bracketing) look at real parts only, i.e. the point is inside a cell.
-/
import OMV.Proofs.C16Top
import Mathlib.Tactic.NormNum

set_option linter.unusedSectionVars false
set_option linter.unusedVariables false

namespace OMV.C16

open OMV.C15

variable {K : Type} [Field K] [LinearOrder K] [IsStrictOrderedRing K]

/-! ## Derivative with respect to the query point -/

/-- One dimension, `slinear` / `lagrange2` / `lagrange3`: the kernel evaluated at `x + ε dx` on
values `v i + ε dv i` is the kernel value plus `ε` times (the derivative formula written in the code
times `dx`, plus the kernel of the `dv`).  Every bracket index, every point (also extrapolated). -/
theorem C16_dx_exact_1d (m : Method) (hm : Lin3 m) (fix : Bool) (eps : K) (kdx : Kernel K)
    (hk : codeDx m = some kdx) (n : Nat) (g v dv : Nat → K) (idx : Nat) (x dx : K)
    (hn : m.minPts ≤ n) (hg : StrictOn n g) (hi : idx < n) :
    m.kernel fix (Dual.const eps) n (fun i => Dual.const (g i)) (fun i => ⟨v i, dv i⟩) idx ⟨x, dx⟩ =
      ⟨m.kernel fix eps n g v idx x, kdx n g v idx x * dx + m.kernel fix eps n g dv idx x⟩ := by
  obtain ⟨_, _, _, kdx', hk', hd⟩ := lin3_facts m hm fix eps
  rw [hk] at hk'
  cases hk'
  exact hd n g v dv idx x dx hn hg hi

/-- Any number of dimensions: the gradient assembled by the code (`gradIdx`: own-coordinate formula
at the top, the kernel applied to the sub-table gradients below) is the `ε` part of the evaluator at
`x + ε·dirs`, for every direction — for any in-range bracket indices, and for a fresh table
(`dualDir`, the quantity the driver computes by running the evaluator on dual numbers). -/
theorem C16_dx_exact (m : Method) (hm : Lin3 m) (fix : Bool) (eps : K) (kdx : Kernel K)
    (hk : codeDx m = some kdx) (ds : List (Dim K)) (tbl : List Nat → K) (xs dirs : List K)
    (hg : GridsOK m.minPts ds) (hx : xs.length = ds.length) (hd : dirs.length = ds.length) :
    (∀ idxs, IdxOK ds idxs →
      evalIdx (m.kernel fix (Dual.const eps)) (liftDims ds) idxs (fun is => Dual.const (tbl is))
          (seed xs dirs) =
        ⟨evalIdx (m.kernel fix eps) ds idxs tbl xs,
         dotTo (gradIdx (m.kernel fix eps) kdx ds idxs tbl xs) dirs ds.length⟩) ∧
    dualDir m fix eps ds tbl xs dirs =
      dotTo (gradIdx (m.kernel fix eps) kdx ds (bracketAll ds xs) tbl xs) dirs ds.length := by
  obtain ⟨ha, hs, _, kdx', hk', hdual⟩ := lin3_facts m hm fix eps
  rw [hk] at hk'
  cases hk'
  have h2 : 2 ≤ m.minPts := by cases m <;> simp [Method.minPts]
  have key : ∀ idxs, IdxOK ds idxs →
      evalIdx (m.kernel fix (Dual.const eps)) (liftDims ds) idxs (fun is => Dual.const (tbl is))
          (seed xs dirs) =
        ⟨evalIdx (m.kernel fix eps) ds idxs tbl xs,
         dotTo (gradIdx (m.kernel fix eps) kdx ds idxs tbl xs) dirs ds.length⟩ := by
    intro idxs hi
    have := evalIdx_dual hdual ha hs ds idxs (fun is => Dual.const (tbl is)) xs dirs hg hi hx hd
    simp only [Dual.const_re, Dual.const_du] at this
    rw [this, evalIdx_zero hs]
    simp
  refine ⟨key, ?_⟩
  unfold dualDir evalND
  rw [bracketAll_dual ds xs dirs hx hd, key _ (bracketAll_idxOK h2 ds xs hg hx)]

/-! ## Linearity in the table, and the value gradient -/

/-- `interp(a·V + W) = a·interp(V) + interp(W)` for `slinear`, `lagrange2`, `lagrange3`, in any
number of dimensions, at every point (same bracket indices; a fresh table brackets by the point
only). -/
theorem C16_linear_in_values (m : Method) (hm : Lin3 m) (fix : Bool) (eps : K) (ds : List (Dim K))
    (V W : List Nat → K) (a : K) (xs : List K) :
    (∀ idxs, evalIdx (m.kernel fix eps) ds idxs (fun is => a * V is + W is) xs =
      a * evalIdx (m.kernel fix eps) ds idxs V xs + evalIdx (m.kernel fix eps) ds idxs W xs) ∧
    evalND (m.kernel fix eps) ds (fun is => a * V is + W is) xs =
      a * evalND (m.kernel fix eps) ds V xs + evalND (m.kernel fix eps) ds W xs := by
  obtain ⟨ha, hs, _, _⟩ := lin3_facts m hm fix eps
  have key : ∀ idxs, evalIdx (m.kernel fix eps) ds idxs (fun is => a * V is + W is) xs =
      a * evalIdx (m.kernel fix eps) ds idxs V xs + evalIdx (m.kernel fix eps) ds idxs W xs := by
    intro idxs
    rw [evalIdx_add ha ds idxs (fun is => a * V is) W xs, evalIdx_smul hs ds idxs a V xs]
  exact ⟨key, key _⟩

/-- The value is the table contracted with the outer product of the per-axis unit-vector weights
that `InterpND.training_gradients` returns (`wsum`): `interp = Σ d_dvalues · V`, and the weights do
not depend on the table, so they are the exact derivative with respect to every table entry. -/
theorem C16_dvalues_exact (m : Method) (hm : Lin3 m) (fix : Bool) (eps : K) (ds : List (Dim K))
    (tbl : List Nat → K) (xs : List K) (hg : GridsOK m.minPts ds) (hx : xs.length = ds.length) :
    (∀ idxs, IdxOK ds idxs →
      evalIdx (m.kernel fix eps) ds idxs tbl xs = wsum (m.kernel fix eps) ds idxs tbl xs) ∧
    evalND (m.kernel fix eps) ds tbl xs = wsum (m.kernel fix eps) ds (bracketAll ds xs) tbl xs := by
  obtain ⟨ha, hs, hl, _⟩ := lin3_facts m hm fix eps
  have h2 : 2 ≤ m.minPts := by cases m <;> simp [Method.minPts]
  exact ⟨fun idxs hi => evalIdx_eq_wsum ha hs hl ds idxs tbl xs hg hi,
    evalIdx_eq_wsum ha hs hl ds _ tbl xs hg (bracketAll_idxOK h2 ds xs hg hx)⟩

/-- One axis: the kernel value is `Σ_i w_i · v_i` with `w = trainWeights`. -/
theorem C16_dvalues_exact_1d (m : Method) (hm : Lin3 m) (fix : Bool) (eps : K) (n : Nat) (g v : Nat → K)
    (idx : Nat) (x : K) (hn : m.minPts ≤ n) (hi : idx < n) :
    m.kernel fix eps n g v idx x =
      sumTo (fun i => (trainWeights (m.kernel fix eps) n g idx x).getD i 0 * v i) n := by
  obtain ⟨ha, hs, hl, _⟩ := lin3_facts m hm fix eps
  exact kern_eq_weights ha hs hl n g v idx x hn hi

/-- Grid `[-3, -1, 0, 2, 5]`. -/
def g5 : Nat → Rat := fun i => [(-3 : Rat), -1, 0, 2, 5].getD i 0
def u5 : Nat → Rat := fun i => [(1 : Rat), 3, 2, 7, 1].getD i 0
def w5 : Nat → Rat := fun i => [(0 : Rat), 0, 4, 0, 0].getD i 0

/-- Akima is not additive in the table (its end slopes are weighted by `|Δ slope|`), so for Akima
`InterpND.training_gradients` (unit-vector responses) is not the value gradient; the components use
Akima's own analytic `d_dvalues` instead.  It is still homogeneous of degree one, so
`value = Σ d_dvalues · V` holds (checked on the real code by the harness). -/
theorem C16_akima_not_additive :
    akimaK false (1 / 10 ^ 30 : Rat) 5 g5 (fun i => u5 i + w5 i) 1 (-1 / 2) ≠
      akimaK false (1 / 10 ^ 30 : Rat) 5 g5 u5 1 (-1 / 2) + akimaK false (1 / 10 ^ 30 : Rat) 5 g5 w5 1 (-1 / 2) ∧
    akimaK false (1 / 10 ^ 30 : Rat) 5 g5 (fun i => 3 * u5 i) 1 (-1 / 2) =
      3 * akimaK false (1 / 10 ^ 30 : Rat) 5 g5 u5 1 (-1 / 2) := by decide +kernel

/-! ## Non-vacuity -/

example : Lin3 Method.lagrange2 ∧ codeDx (K := Rat) Method.lagrange2 = some lagrange2Dx :=
  ⟨Or.inr (Or.inl rfl), rfl⟩

/-- Concrete instance on a grid with negative coordinates: the dual-number gradient of a fresh 2-D
`lagrange2` table equals the code's gradient, the weights reproduce the value, and the 1-D Akima
dual derivative is a genuine number. -/
example :
    let ds : List (Nat × (Nat → Rat)) := [(5, g5), (5, g5)]
    let tbl : List Nat → Rat := fun is => u5 (is.getD 0 0) * w5 (is.getD 1 0) + u5 (is.getD 1 0)
    dualDx Method.lagrange2 false (1 / 10 ^ 30) ds tbl [-1 / 2, 1] 0 =
      (gradIdx lagrange2K lagrange2Dx ds (bracketAll ds [-1 / 2, 1]) tbl [-1 / 2, 1]).getD 0 0 ∧
    dualDx Method.lagrange2 false (1 / 10 ^ 30) ds tbl [-1 / 2, 1] 1 =
      (gradIdx lagrange2K lagrange2Dx ds (bracketAll ds [-1 / 2, 1]) tbl [-1 / 2, 1]).getD 1 0 ∧
    evalND lagrange2K ds tbl [-1 / 2, 1] = wsum lagrange2K ds (bracketAll ds [-1 / 2, 1]) tbl [-1 / 2, 1] ∧
    dualDx Method.lagrange2 false (1 / 10 ^ 30) ds tbl [-1 / 2, 1] 0 ≠ 0 ∧
    dualDx Method.akima false (1 / 10 ^ 30) [(5, g5)] (fun is => u5 (is.getD 0 0)) [-1 / 2] 0 ≠ 0 := by
  decide +kernel

end OMV.C16
