/-
C13 — Derivative checks report exactly what they compare.
Property theorems only (plus non-vacuity examples and counterexamples for the shipped code).

Reading guide.  `A r c` is the approximated (fd / cs) Jacobian entry delivered to
`_CheckingJacobian.set_col`; `p : Pattern` the declared sparsity of the sub-jacobian; `thr` the
`uncovered_threshold` (1e-16 in `check_partials`).  `Placement.always` is the audit as
`DiagonalSubjac` does it and as the repaired COO / CSC / CSR code does it; `insideInit` and `never`
are what `COOSubjac._set_coo_col` / `CSCSubjac.set_col` and `CSRSubjac.set_col` ship.
-/
import OMV.Model.C13
import OMV.Proofs.C13
import Mathlib.Algebra.Order.Field.Basic
import Mathlib.Tactic.Linarith
import Mathlib.Tactic.Ring
import Mathlib.Tactic.NormNum

set_option linter.unusedSectionVars false
set_option linter.unusedVariables false
set_option linter.unusedSimpArgs false

namespace OMV.C13

variable {K : Type} [Field K] [LinearOrder K] [IsStrictOrderedRing K]

/-- `(r, c)` is an approximated entry outside the declared pattern whose magnitude exceeds the
threshold — what the property says must be flagged. -/
def Uncovered (thr : K) (p : Pattern) (nrows ncols : Nat) (A : Nat → Nat → K) (r c : Nat) : Prop :=
  r < nrows ∧ c < ncols ∧ p.mem r c = false ∧ thr < |A r c|

/-- A 2×2 all-ones approximated Jacobian (used against a declared diagonal in the examples). -/
def exA : Nat → Nat → Rat := fun _ _ => 1

/-! ## The sparsity audit -/

/-- **Completeness and soundness of the audit with the `extend` in the right place**, for every
audited storage class (COO / rows-cols, CSC, CSR, diagonal): after all columns have been set,
`uncovered_nz` is exactly the set of out-of-pattern entries above the threshold. -/
theorem C13_uncovered_complete (recThr : Bool) (thr : K) (hthr : 0 ≤ thr) (p : Pattern)
    (hp : p.audits = true) (nrows ncols : Nat) (A : Nat → Nat → K) (r c : Nat) :
    (r, c) ∈ (auditAll .always recThr thr p nrows ncols A).uncovered.getD [] ↔
      Uncovered thr p nrows ncols A r c := by
  rw [auditAll_eq_fold _ _ _ _ hp, auditFold_always]
  have hm : (r, c) ∈ specList thr nrows (coveredRows p nrows) A (List.range ncols) ↔
      Uncovered thr p nrows ncols A r c := by
    rw [mem_specList thr hthr]
    unfold Uncovered
    constructor
    · rintro ⟨hc, hr, hcov, ht⟩
      refine ⟨hr, List.mem_range.mp hc, ?_, ht⟩
      have := (mem_coveredRows p nrows r c hr).not.mp hcov
      simpa using this
    · rintro ⟨hr, hc, hmem, ht⟩
      refine ⟨List.mem_range.mpr hc, hr, ?_, ht⟩
      rw [mem_coveredRows p nrows r c hr]; simp [hmem]
  by_cases hs : specList thr nrows (coveredRows p nrows) A (List.range ncols) = []
  · rw [if_pos hs]
    rw [← hm, hs]; simp [Info.empty]
  · rw [if_neg hs]
    simpa [Info.empty] using hm

/-- … and every such entry is listed exactly once (the report prints the number of entries). -/
theorem C13_uncovered_nodup (recThr : Bool) (thr : K) (p : Pattern) (hp : p.audits = true)
    (nrows ncols : Nat) (A : Nat → Nat → K) :
    ((auditAll .always recThr thr p nrows ncols A).uncovered.getD []).Nodup := by
  rw [auditAll_eq_fold _ _ _ _ hp, auditFold_always_getD]
  simpa [Info.empty] using specList_nodup thr nrows (coveredRows p nrows) A ncols

/-- The `uncovered_nz` key is present exactly when there is something to flag. -/
theorem C13_uncovered_key_iff (recThr : Bool) (thr : K) (hthr : 0 ≤ thr) (p : Pattern)
    (hp : p.audits = true) (nrows ncols : Nat) (A : Nat → Nat → K) :
    (auditAll .always recThr thr p nrows ncols A).uncovered.isSome = true ↔
      ∃ r c, Uncovered thr p nrows ncols A r c := by
  have hc := C13_uncovered_complete recThr thr hthr p hp nrows ncols A
  rw [auditAll_eq_fold _ _ _ _ hp, auditFold_always] at *
  by_cases hs : specList thr nrows (coveredRows p nrows) A (List.range ncols) = []
  · simp only [hs, if_true, Info.empty, Option.isSome_none, Bool.false_eq_true, false_iff]
    rintro ⟨r, c, h⟩
    have := (hc r c).mpr h
    simp [hs, Info.empty] at this
  · simp only [hs, if_false, Option.isSome_some, true_iff]
    obtain ⟨⟨r, c⟩, hrc⟩ := List.exists_mem_of_ne_nil _ hs
    refine ⟨r, c, (hc r c).mp ?_⟩
    simpa [hs, Info.empty] using hrc

/-- **Soundness for every placement** (so also for the shipped code): nothing inside the pattern,
nothing at or below the threshold, nothing outside the matrix is ever reported. -/
theorem C13_uncovered_sound (pl : Placement) (recThr : Bool) (thr : K) (hthr : 0 ≤ thr)
    (p : Pattern) (hp : p.audits = true) (nrows ncols : Nat) (A : Nat → Nat → K) (r c : Nat)
    (h : (r, c) ∈ (auditAll pl recThr thr p nrows ncols A).uncovered.getD []) :
    Uncovered thr p nrows ncols A r c := by
  cases pl with
  | always => exact (C13_uncovered_complete recThr thr hthr p hp nrows ncols A r c).mp h
  | never =>
    rw [auditAll_eq_fold _ _ _ _ hp, auditFold_never] at h
    simp only [Info.empty] at h
    split at h <;> simp at h
  | insideInit =>
    rw [auditAll_eq_fold _ _ _ _ hp] at h
    unfold Info.empty at h
    rw [auditFold_insideInit_none] at h
    cases hf : (List.range ncols).find?
        (fun c => !(newOf thr nrows (coveredRows p nrows) A c).isEmpty) with
    | none => simp [hf] at h
    | some c0 =>
      rw [hf] at h
      simp only [Option.map_some, Option.getD_some] at h
      have hc0 : c0 ∈ List.range ncols := List.mem_of_find?_eq_some hf
      have hin : (r, c) ∈ specList thr nrows (coveredRows p nrows) A (List.range ncols) := by
        unfold specList
        exact List.mem_flatMap.mpr ⟨c0, hc0, h⟩
      apply (C13_uncovered_complete recThr thr hthr p hp nrows ncols A r c).mp
      rw [auditAll_eq_fold _ _ _ _ hp, auditFold_always]
      have hs : specList thr nrows (coveredRows p nrows) A (List.range ncols) ≠ [] :=
        List.ne_nil_of_mem hin
      simpa [hs, Info.empty] using hin

/-- **What the shipped COO / rows-cols / CSC audit reports**: exactly the offending entries of the
*first* offending column.  (`C13_uncovered_complete` is false for `insideInit`; this is the exact
extra condition.) -/
theorem C13_uncovered_complete_partial (recThr : Bool) (thr : K) (hthr : 0 ≤ thr) (p : Pattern)
    (hp : p.audits = true) (nrows ncols : Nat) (A : Nat → Nat → K) (r c : Nat) :
    (r, c) ∈ (auditAll .insideInit recThr thr p nrows ncols A).uncovered.getD [] ↔
      Uncovered thr p nrows ncols A r c ∧
        ∀ r' c', c' < c → ¬ Uncovered thr p nrows ncols A r' c' := by
  have hnew : ∀ r c, (r, c) ∈ newOf thr nrows (coveredRows p nrows) A c ↔
      (r < nrows ∧ p.mem r c = false ∧ thr < |A r c|) := by
    intro r c
    unfold newOf
    simp only [List.mem_map, Prod.mk.injEq]
    constructor
    · rintro ⟨r', hr', rfl, _⟩
      obtain ⟨h1, h2, h3⟩ := (mem_offending thr hthr nrows _ _ _).mp hr'
      refine ⟨h1, ?_, h3⟩
      have := (mem_coveredRows p nrows r' c h1).not.mp h2
      simpa using this
    · rintro ⟨h1, h2, h3⟩
      refine ⟨r, (mem_offending thr hthr nrows _ _ _).mpr ⟨h1, ?_, h3⟩, rfl, trivial⟩
      rw [mem_coveredRows p nrows r c h1]; simp [h2]
  have hsnd : ∀ r c c0, (r, c) ∈ newOf thr nrows (coveredRows p nrows) A c0 → c = c0 := by
    intro r c c0 h
    unfold newOf at h
    simp only [List.mem_map, Prod.mk.injEq] at h
    obtain ⟨_, _, _, h⟩ := h
    exact h.symm
  rw [auditAll_eq_fold _ _ _ _ hp]
  unfold Info.empty
  rw [auditFold_insideInit_none]
  cases hf : (List.range ncols).find?
      (fun c => !(newOf thr nrows (coveredRows p nrows) A c).isEmpty) with
  | none =>
    simp only [Option.map_none, Option.getD_none, List.not_mem_nil, false_iff, not_and]
    intro hu
    exfalso
    have := List.find?_eq_none.mp hf c (List.mem_range.mpr hu.2.1)
    have this : newOf thr nrows (coveredRows p nrows) A c = [] := by simpa using this
    have hm := (hnew r c).mpr ⟨hu.1, hu.2.2.1, hu.2.2.2⟩
    rw [this] at hm
    exact absurd hm (List.not_mem_nil)
  | some c0 =>
    simp only [Option.map_some, Option.getD_some]
    obtain ⟨hp0, as, bs, hsplit, hbefore⟩ := List.find?_eq_some_iff_append.mp hf
    have hc0 : c0 < ncols := List.mem_range.mp (List.mem_of_find?_eq_some hf)
    -- every column before c0 has no offenders
    have hlt : ∀ c', c' < c0 → newOf thr nrows (coveredRows p nrows) A c' = [] := by
      intro c' hc'
      have hmem : c' ∈ as := by
        have hpw : (List.range ncols).Pairwise (· < ·) := List.pairwise_lt_range
        rw [hsplit] at hpw
        have hc'in : c' ∈ as ++ c0 :: bs := by
          rw [← hsplit]; exact List.mem_range.mpr (lt_trans hc' hc0)
        rcases List.mem_append.mp hc'in with h | h
        · exact h
        · rcases List.mem_cons.mp h with h | h
          · omega
          · have := (List.pairwise_append.mp hpw).2.1
            have h2 := (List.pairwise_cons.mp this).1 c' h
            omega
      have := hbefore c' hmem
      simpa using this
    have hne : newOf thr nrows (coveredRows p nrows) A c0 ≠ [] := by simpa using hp0
    constructor
    · intro h
      have hcc := hsnd r c c0 h
      subst hcc
      obtain ⟨h1, h2, h3⟩ := (hnew r c).mp h
      refine ⟨⟨h1, hc0, h2, h3⟩, ?_⟩
      intro r' c' hc' hu
      have hm := (hnew r' c').mpr ⟨hu.1, hu.2.2.1, hu.2.2.2⟩
      rw [hlt c' hc'] at hm
      exact absurd hm (List.not_mem_nil)
    · rintro ⟨hu, hfirst⟩
      have hcc : c = c0 := by
        rcases lt_trichotomy c c0 with h | h | h
        · have hm := (hnew r c).mpr ⟨hu.1, hu.2.2.1, hu.2.2.2⟩
          rw [hlt c h] at hm
          exact absurd hm (List.not_mem_nil)
        · exact h
        · obtain ⟨⟨r0, c1⟩, hrc⟩ := List.exists_mem_of_ne_nil _ hne
          have : c1 = c0 := hsnd r0 c1 c0 hrc
          subst this
          obtain ⟨h1, h2, h3⟩ := (hnew r0 c1).mp hrc
          exact absurd ⟨h1, hc0, h2, h3⟩ (hfirst r0 c1 h)
      subst hcc
      exact (hnew r c).mpr ⟨hu.1, hu.2.2.1, hu.2.2.2⟩

/-- **Several steps, state shared between the steps** (`auditStepsPersist`, what the shallow copy
in `_CheckingJacobian._setup` does), extend in the right place: as a *set* the report is the union
of the out-of-pattern entries of the steps … -/
theorem C13_uncovered_steps_union (recThr : Bool) (thr : K) (hthr : 0 ≤ thr) (p : Pattern)
    (hp : p.audits = true) (nrows ncols : Nat) (As : List (Nat → Nat → K)) (r c : Nat) :
    (r, c) ∈ (auditStepsPersist .always recThr thr p nrows ncols As).uncovered.getD [] ↔
      ∃ A ∈ As, Uncovered thr p nrows ncols A r c := by
  unfold auditStepsPersist
  suffices h : ∀ (info : Info K),
      (r, c) ∈ (As.foldl (fun info A => auditFrom info .always recThr thr p nrows ncols A)
        info).uncovered.getD [] ↔
      ((r, c) ∈ info.uncovered.getD [] ∨ ∃ A ∈ As, Uncovered thr p nrows ncols A r c) by
    simpa [Info.empty] using h Info.empty
  induction As with
  | nil => intro info; simp
  | cons A As ih =>
    intro info
    rw [List.foldl_cons, ih, auditFrom_eq_fold _ _ _ _ _ hp, auditFold_always_getD,
      List.mem_append]
    have hm : (r, c) ∈ specList thr nrows (coveredRows p nrows) A (List.range ncols) ↔
        Uncovered thr p nrows ncols A r c := by
      have := C13_uncovered_complete recThr thr hthr p hp nrows ncols A r c
      rw [auditAll_eq_fold _ _ _ _ hp, auditFold_always_getD] at this
      simpa [Info.empty] using this
    rw [hm]
    constructor
    · rintro ((h | h) | ⟨B, hB, h⟩)
      · exact Or.inl h
      · exact Or.inr ⟨A, by simp, h⟩
      · exact Or.inr ⟨B, by simp [hB], h⟩
    · rintro (h | ⟨B, hB, h⟩)
      · exact Or.inl (Or.inl h)
      · rcases List.mem_cons.mp hB with rfl | hB
        · exact Or.inl (Or.inr h)
        · exact Or.inr ⟨B, hB, h⟩

/-- … but as a *list* it repeats entries: de-indenting the `extend` without giving every checking
jacobian its own `info` reports each entry once per step. -/
theorem C13_persist_always_duplicates :
    (auditStepsPersist .always true (1 / 10 ^ 16 : Rat) (.coo [0, 1] [0, 1]) 2 2
      [exA, exA]).uncovered = some [(1, 0), (0, 1), (1, 0), (0, 1)] := by
  decide +kernel

/-- **What the shipped CSR audit reports**: never a single entry. -/
theorem C13_uncovered_never_reports_nothing (recThr : Bool) (thr : K) (p : Pattern)
    (hp : p.audits = true) (nrows ncols : Nat) (A : Nat → Nat → K) :
    (auditAll .never recThr thr p nrows ncols A).uncovered.getD [] = [] := by
  rw [auditAll_eq_fold _ _ _ _ hp, auditFold_never]
  simp only [Info.empty]
  split <;> simp

/-- Dense sub-jacobians are never audited (and have nothing outside their pattern). -/
theorem C13_dense_never_flagged (pl : Placement) (recThr : Bool) (thr : K) (nrows ncols : Nat)
    (A : Nat → Nat → K) :
    report (auditAll pl recThr thr Pattern.dense nrows ncols A) = Report.clean ∧
      ∀ r c, ¬ Uncovered thr Pattern.dense nrows ncols A r c := by
  rw [auditAll_dense]
  exact ⟨rfl, fun r c h => by simp [Uncovered, Pattern.mem] at h⟩

/-- **The report of the repaired code** (`Variant.fixed`), every storage class: either nothing is
out of pattern and the result has no `uncovered_nz` key, or the key holds exactly the out-of-pattern
entries together with the threshold; `check_partials` never raises. -/
theorem C13_report_fixed (thr : K) (hthr : 0 ≤ thr) (p : Pattern) (nrows ncols : Nat)
    (A : Nat → Nat → K) :
    (report (auditAll (p.placement .fixed) (p.recordsThreshold .fixed) thr p nrows ncols A) =
        Report.clean ∧ ∀ r c, ¬ Uncovered thr p nrows ncols A r c) ∨
    (∃ l, report (auditAll (p.placement .fixed) (p.recordsThreshold .fixed) thr p nrows ncols A) =
        Report.flagged l thr ∧ (∃ r c, Uncovered thr p nrows ncols A r c) ∧
        ∀ r c, (r, c) ∈ l ↔ Uncovered thr p nrows ncols A r c) := by
  by_cases hp : p.audits = true
  · have hpl : p.placement .fixed = .always := by cases p <;> rfl
    have hrt : p.recordsThreshold .fixed = true := by cases p <;> rfl
    rw [hpl, hrt]
    have hcomp := C13_uncovered_complete true thr hthr p hp nrows ncols A
    have hkey := C13_uncovered_key_iff true thr hthr p hp nrows ncols A
    have hthrs : (auditAll .always true thr p nrows ncols A).uncovered.isSome →
        (auditAll .always true thr p nrows ncols A).threshold = some thr := by
      rw [auditAll_eq_fold _ _ _ _ hp]
      exact auditFold_threshold .always thr nrows _ A _ Info.empty (by simp [Info.empty])
    cases hu : (auditAll .always true thr p nrows ncols A).uncovered with
    | none =>
      left
      refine ⟨by simp [report, hu], ?_⟩
      intro r c h
      have := hkey.mpr ⟨r, c, h⟩
      simp [hu] at this
    | some l =>
      right
      have ht := hthrs (by simp [hu])
      refine ⟨l, by simp [report, hu, ht], hkey.mp (by simp [hu]), ?_⟩
      intro r c
      have := hcomp r c
      simpa [hu] using this
  · have hd : p = Pattern.dense := by
      cases p <;> simp [Pattern.audits] at hp ⊢
    subst hd
    left
    exact C13_dense_never_flagged _ _ thr nrows ncols A

/-- **The shipped diagonal audit makes `check_partials` raise** whenever a diagonal partial has an
off-diagonal approximated nonzero: `uncovered_nz` is written but `uncovered_threshold` is not, and
`Component.check_partials` reads both. -/
theorem C13_shipped_diag_raises (thr : K) (hthr : 0 ≤ thr) (nrows ncols : Nat)
    (A : Nat → Nat → K) (h : ∃ r c, Uncovered thr Pattern.diag nrows ncols A r c) :
    report (auditAll (Pattern.diag.placement .shipped) (Pattern.diag.recordsThreshold .shipped)
      thr Pattern.diag nrows ncols A) = Report.keyError := by
  have hp : Pattern.diag.audits = true := rfl
  show report (auditAll .always false thr Pattern.diag nrows ncols A) = Report.keyError
  have hkey := (C13_uncovered_key_iff false thr hthr Pattern.diag hp nrows ncols A).mpr h
  have hthr' : (auditAll .always false thr Pattern.diag nrows ncols A).threshold = none := by
    rw [auditAll_eq_fold _ _ _ _ hp, auditFold_no_threshold]; rfl
  cases hu : (auditAll .always false thr Pattern.diag nrows ncols A).uncovered with
  | none => simp [hu] at hkey
  | some l => simp [report, hu, hthr']

/-! ### counterexamples: the full statement fails for the shipped placements -/

/-- Shipped COO / rows-cols: entry `(0, 1)` is out of pattern and nonzero but is not reported
(only column 0 is). -/
theorem C13_uncovered_complete_fails_insideInit :
    (auditAll .insideInit true (1 / 10 ^ 16 : Rat) (.coo [0, 1] [0, 1]) 2 2 exA).uncovered
        = some [(1, 0)] ∧
      Pattern.mem (.coo [0, 1] [0, 1]) 0 1 = false ∧ (1 / 10 ^ 16 : Rat) < absK (exA 0 1) := by
  decide +kernel

/-- Shipped CSC: same. -/
theorem C13_uncovered_complete_fails_csc :
    (auditAll ((Pattern.csc [0, 1, 2] [0, 1]).placement .shipped) true (1 / 10 ^ 16 : Rat)
        (.csc [0, 1, 2] [0, 1]) 2 2 exA).uncovered = some [(1, 0)] ∧
      Pattern.mem (.csc [0, 1, 2] [0, 1]) 0 1 = false := by
  decide +kernel

/-- Shipped CSR: the key is created but stays empty. -/
theorem C13_uncovered_complete_fails_csr :
    (auditAll ((Pattern.csr [0, 1, 2] [0, 1]).placement .shipped) true (1 / 10 ^ 16 : Rat)
        (.csr [0, 1, 2] [0, 1]) 2 2 exA).uncovered = some [] ∧
      Pattern.mem (.csr [0, 1, 2] [0, 1]) 1 0 = false := by
  decide +kernel

/-- Shipped diagonal: `KeyError`. -/
theorem C13_report_fails_diag :
    report (auditAll (Pattern.diag.placement .shipped) (Pattern.diag.recordsThreshold .shipped)
      (1 / 10 ^ 16 : Rat) Pattern.diag 2 2 exA) = Report.keyError := by
  decide +kernel

/-- The repaired code on the same instance reports both entries (non-vacuity of
`C13_uncovered_complete` / `C13_report_fixed`). -/
example :
    report (auditAll ((Pattern.coo [0, 1] [0, 1]).placement .fixed) true (1 / 10 ^ 16 : Rat)
      (.coo [0, 1] [0, 1]) 2 2 exA) = Report.flagged [(1, 0), (0, 1)] (1 / 10 ^ 16) := by
  decide +kernel

example : (0 : Rat) ≤ 1 / 10 ^ 16 ∧ (Pattern.coo [0, 1] [0, 1]).audits = true := by
  decide +kernel

/-! ## Stored values: `J_fd` -/

/-- **`J_fd` holds the approximated values that were computed**: the dense view of the checking
jacobian after all columns were set is the approximated Jacobian on the declared positions and zero
elsewhere, whatever the declared values were (`init`), for every storage class. -/
theorem C13_jfd_is_masked_approximation (p : Pattern) (nrows ncols : Nat) (init : List K)
    (A : Nat → Nat → K) (r c : Nat) (hr : r < nrows) (hc : c < ncols) :
    todense (storeAll (initStore (p.positions nrows ncols) init) ncols A) r c =
      if p.mem r c = true then A r c else 0 := by
  rw [todense_storeAll _ _ _ _ _ _ hc]
  by_cases h : p.mem r c = true
  · simp [h, (mem_positions p nrows ncols r c hr hc).mpr h]
  · have : (r, c) ∉ p.positions nrows ncols :=
      fun hm => h ((mem_positions p nrows ncols r c hr hc).mp hm)
    simp [h, this]

/-- **Nothing that was approximated is lost** (repaired code): every approximated entry above the
threshold is either returned in `J_fd` or listed in `uncovered_nz`. -/
theorem C13_every_nonzero_accounted (thr : K) (hthr : 0 ≤ thr) (p : Pattern) (nrows ncols : Nat)
    (init : List K) (A : Nat → Nat → K) (r c : Nat) (hr : r < nrows) (hc : c < ncols)
    (hnz : thr < |A r c|) :
    todense (storeAll (initStore (p.positions nrows ncols) init) ncols A) r c = A r c ∨
      (r, c) ∈ (auditAll (p.placement .fixed) (p.recordsThreshold .fixed) thr p nrows ncols
        A).uncovered.getD [] := by
  rw [C13_jfd_is_masked_approximation p nrows ncols init A r c hr hc]
  by_cases h : p.mem r c = true
  · left; simp [h]
  · right
    have hp : p.audits = true := by
      cases p <;> simp [Pattern.audits, Pattern.mem] at h ⊢
    have hpl : p.placement .fixed = .always := by cases p <;> rfl
    rw [hpl]
    exact (C13_uncovered_complete _ thr hthr p hp nrows ncols A r c).mpr
      ⟨hr, hc, by simpa using h, hnz⟩

example : todense (storeAll (initStore ((Pattern.csc [0, 1, 2] [0, 1]).positions 2 2) [5, 7]) 2
    (fun r c => ((r : Rat) + 1) * 10 + c)) 1 1 = 21 := by decide +kernel

/-- **Each reported `J_fd[i]` is the matrix of step `i`** — when every step has a private array
(or there is a single step).  For declared dense partials the shipped code shares one array between
the steps (`reportedSteps true`), and then this fails: -/
theorem C13_jfd_steps_partial {α : Type} (aliased : Bool) (stored : List α)
    (h : aliased = false ∨ stored.length ≤ 1) : reportedSteps aliased stored = stored := by
  unfold reportedSteps
  rcases h with h | h
  · simp [h]
  · cases aliased
    · simp
    · match stored, h with
      | [], _ => simp
      | [a], _ => simp

/-- Two steps with different approximations: the first reported matrix is the second step's. -/
theorem C13_jfd_steps_fail_aliased :
    reportedSteps true [[(9 : Rat) / 4], [33 / 16]] = [[33 / 16], [33 / 16]] := by
  decide +kernel

/-! ## The error kernel -/

/-- **Reported errors are differences of the compared values.**  For arrays of equal non-zero size
`get_tol_violation(x, ref, atol, rtol)` returns, for one index `i` (the first index maximising the
tolerance violation): the two compared values `x[i]`, `ref[i]`; `abs error = |x[i] − ref[i]|`;
`tol violation = |x[i] − ref[i]| − (atol + rtol·|ref[i]|)`, which dominates the violation of every
other entry; and `rel error = abs error / |ref[i]|`, or `inf` exactly when `ref[i] = 0`. -/
theorem C13_errors_are_differences (x ref : List K) (atol rtol : K)
    (hlen : x.length = ref.length) (hne : x ≠ []) :
    ∃ i, i < x.length ∧
      (getTolViolation x ref atol rtol).xAtMax = x.getD i 0 ∧
      (getTolViolation x ref atol rtol).refAtMax = ref.getD i 0 ∧
      (getTolViolation x ref atol rtol).absAtMax = |x.getD i 0 - ref.getD i 0| ∧
      (getTolViolation x ref atol rtol).maxViol =
        |x.getD i 0 - ref.getD i 0| - (atol + rtol * |ref.getD i 0|) ∧
      (∀ j, j < x.length → |x.getD j 0 - ref.getD j 0| - (atol + rtol * |ref.getD j 0|) ≤
        (getTolViolation x ref atol rtol).maxViol) ∧
      (∀ j, j < i → |x.getD j 0 - ref.getD j 0| - (atol + rtol * |ref.getD j 0|) <
        (getTolViolation x ref atol rtol).maxViol) ∧
      (ref.getD i 0 ≠ 0 → (getTolViolation x ref atol rtol).relAtMax =
        some (|x.getD i 0 - ref.getD i 0| / |ref.getD i 0|)) ∧
      (ref.getD i 0 = 0 → (getTolViolation x ref atol rtol).relAtMax = none) := by
  have hxl : 0 < x.length := List.length_pos_iff.mpr hne
  have hvl : (viols x ref atol rtol).length = x.length := by simp [viols, hlen]
  have hvne : viols x ref atol rtol ≠ [] := by
    intro h; rw [h] at hvl; simp at hvl; omega
  have hae : (absErrs x ref).isEmpty = false := by
    have : (absErrs x ref).length = x.length := by simp [absErrs, hlen]
    cases h : absErrs x ref with
    | nil => rw [h] at this; simp at this; omega
    | cons _ _ => rfl
  obtain ⟨h1, h2, h3⟩ := argmax_spec (viols x ref atol rtol) hvne
  rw [getTolViolation_of_ne x ref atol rtol hae]
  generalize hi : argmax (viols x ref atol rtol) = i at *
  have hix : i < x.length := by rw [← hvl]; exact h1
  have hir : i < ref.length := by rw [← hlen]; exact hix
  have hv := viols_getD x ref atol rtol i hix hir
  have ha := absErrs_getD x ref i hix hir
  refine ⟨i, hix, rfl, rfl, ha, hv, ?_, ?_, ?_, ?_⟩
  · intro j hj
    have := h2 j (by rw [hvl]; exact hj)
    rw [viols_getD x ref atol rtol j hj (by rw [← hlen]; exact hj)] at this
    exact this
  · intro j hj
    have hjx : j < x.length := lt_trans hj hix
    have := h3 j hj
    rw [viols_getD x ref atol rtol j hjx (by rw [← hlen]; exact hjx)] at this
    exact this
  · intro hr0
    show (if ref.getD i 0 = 0 then none else some ((absErrs x ref).getD i 0 /
      absK (ref.getD i 0))) = _
    rw [if_neg hr0, ha, absK_eq_abs]
  · intro hr0
    show (if ref.getD i 0 = 0 then none else some ((absErrs x ref).getD i 0 /
      absK (ref.getD i 0))) = _
    rw [if_pos hr0]

/-- **`above_tol` ⇔ some compared entry violates `|x − ref| ≤ atol + rtol·|ref|`.** -/
theorem C13_above_tol_iff (x ref : List K) (atol rtol : K) (hlen : x.length = ref.length) :
    (getTolViolation x ref atol rtol).above = true ↔
      ∃ j, j < x.length ∧ atol + rtol * |ref.getD j 0| < |x.getD j 0 - ref.getD j 0| := by
  by_cases hne : x = []
  · subst hne
    simp [getTolViolation, absErrs]
  · have hxl : 0 < x.length := List.length_pos_iff.mpr hne
    have hvl : (viols x ref atol rtol).length = x.length := by simp [viols, hlen]
    have hae : (absErrs x ref).isEmpty = false := by
      have : (absErrs x ref).length = x.length := by simp [absErrs, hlen]
      cases h : absErrs x ref with
      | nil => rw [h] at this; simp at this; omega
      | cons _ _ => rfl
    have : (getTolViolation x ref atol rtol).above =
        (viols x ref atol rtol).any (fun v => decide (0 < v)) := by
      rw [getTolViolation_of_ne x ref atol rtol hae]
    rw [this, any_pos_iff, hvl]
    constructor
    · rintro ⟨j, hj, hp⟩
      rw [viols_getD x ref atol rtol j hj (by rw [← hlen]; exact hj)] at hp
      exact ⟨j, hj, by linarith⟩
    · rintro ⟨j, hj, hp⟩
      refine ⟨j, hj, ?_⟩
      rw [viols_getD x ref atol rtol j hj (by rw [← hlen]; exact hj)]
      linarith

/-- The flag agrees with the sign of the reported `tol violation`. -/
theorem C13_above_tol_iff_maxviol_pos (x ref : List K) (atol rtol : K)
    (hlen : x.length = ref.length) (hne : x ≠ []) :
    (getTolViolation x ref atol rtol).above = true ↔
      0 < (getTolViolation x ref atol rtol).maxViol := by
  obtain ⟨i, hi, _, _, _, hmv, hall, _, _, _⟩ :=
    C13_errors_are_differences x ref atol rtol hlen hne
  rw [C13_above_tol_iff x ref atol rtol hlen]
  constructor
  · rintro ⟨j, hj, hp⟩
    have := hall j hj
    linarith
  · intro hp
    exact ⟨i, hi, by rw [hmv] at hp; linarith⟩

/-- With `rtol = 0` the reported `abs error` is the largest entrywise difference. -/
theorem C13_abs_error_is_max_when_rtol_zero (x ref : List K) (atol : K)
    (hlen : x.length = ref.length) (hne : x ≠ []) (j : Nat) (hj : j < x.length) :
    |x.getD j 0 - ref.getD j 0| ≤ (getTolViolation x ref atol 0).absAtMax := by
  obtain ⟨i, hi, _, _, habs, hmv, hall, _, _, _⟩ :=
    C13_errors_are_differences x ref atol 0 hlen hne
  have := hall j hj
  rw [hmv] at this
  rw [habs]
  linarith

/-- With `rtol > 0` it need not be: the entry with the largest violation is reported, not the
entry with the largest difference. -/
theorem C13_abs_error_not_max_in_general :
    (getTolViolation [10, 1] [(110 : Rat), 0] 0 1).absAtMax = 1 := by decide +kernel

/-- **Magnitudes** are the largest absolute entry of the reported matrix. -/
theorem C13_magnitude_is_max (v : K) (vs : List K) :
    (∀ w ∈ v :: vs, |w| ≤ magUpdate 0 (some (v :: vs))) ∧
      (∃ w ∈ v :: vs, magUpdate 0 (some (v :: vs)) = |w|) := by
  obtain ⟨h1, w, hw, he⟩ := maxAbs_spec v vs
  have hnn : 0 ≤ maxAbs (v :: vs) := le_trans (abs_nonneg v) (h1 v (by simp))
  unfold magUpdate
  by_cases hlt : (0 : K) < maxAbs (v :: vs)
  · simp only [hlt, if_true]
    exact ⟨h1, w, hw, he⟩
  · have hz : maxAbs (v :: vs) = 0 := le_antisymm (not_lt.mp hlt) hnn
    simp only [hlt, if_false]
    refine ⟨fun u hu => by rw [← hz]; exact h1 u hu, w, hw, by rw [← he, hz]⟩

/-- **The check of an explicit component flags a pair iff some entry of `J_fwd` differs from the
corresponding entry of one of the reported `J_fd` by more than the tolerance.** -/
theorem C13_check_flags_iff (f : List K) (jfds : List (List K)) (totals d : Bool) (atol rtol : K)
    (hlen : ∀ j ∈ jfds, f.length = j.length) :
    (computeDerivErrors (some f) none jfds false totals d atol rtol).aboveTol = true ↔
      ∃ jfd ∈ jfds, ∃ k, k < f.length ∧
        atol + rtol * |jfd.getD k 0| < |f.getD k 0 - jfd.getD k 0| := by
  simp only [computeDerivErrors, Bool.false_and, Bool.false_eq_true, if_false, Option.map_some,
    Option.map_none, Bool.false_or, List.any_map, List.any_eq_true, Function.comp]
  constructor
  · rintro ⟨j, hj, hp⟩
    have hp' : (getTolViolation f j atol rtol).above = true := by
      cases d <;> simpa using hp
    exact ⟨j, hj, (C13_above_tol_iff f j atol rtol (hlen j hj)).mp hp'⟩
  · rintro ⟨j, hj, hk⟩
    refine ⟨j, hj, ?_⟩
    have := (C13_above_tol_iff f j atol rtol (hlen j hj)).mpr hk
    cases d <;> simp [this]

/-- **An undeclared partial** (no analytic value at all) is compared against zero: it is flagged
iff some approximated entry exceeds the tolerance. -/
theorem C13_undeclared_flagged_iff (jfds : List (List K)) (totals d : Bool) (atol rtol : K) :
    (computeDerivErrors (none : Option (List K)) none jfds false totals d atol rtol).aboveTol
        = true ↔
      ∃ jfd ∈ jfds, ∃ k, k < jfd.length ∧ atol + rtol * |jfd.getD k 0| < |jfd.getD k 0| := by
  simp only [computeDerivErrors, Bool.false_and, Bool.false_eq_true, if_false,
    Option.map_none, Bool.false_or, List.any_map, List.any_eq_true, Function.comp]
  have key : ∀ j : List K, (getTolViolation (j.map (fun _ => (0 : K))) j atol rtol).above = true ↔
      ∃ k, k < j.length ∧ atol + rtol * |j.getD k 0| < |j.getD k 0| := by
    intro j
    rw [C13_above_tol_iff _ j atol rtol (by simp)]
    simp only [List.length_map]
    constructor
    · rintro ⟨k, hk, hp⟩
      refine ⟨k, hk, ?_⟩
      have : (j.map (fun _ => (0 : K))).getD k 0 = 0 := getD_map_zero j k
      rw [this, zero_sub, abs_neg] at hp
      exact hp
    · rintro ⟨k, hk, hp⟩
      refine ⟨k, hk, ?_⟩
      have : (j.map (fun _ => (0 : K))).getD k 0 = 0 := getD_map_zero j k
      rw [this, zero_sub, abs_neg]
      exact hp
  constructor
  · rintro ⟨j, hj, hp⟩
    have hp' : (getTolViolation (j.map (fun _ => (0 : K))) j atol rtol).above = true := by
      cases d <;> simpa using hp
    exact ⟨j, hj, (key j).mp hp'⟩
  · rintro ⟨j, hj, hk⟩
    refine ⟨j, hj, ?_⟩
    have := (key j).mpr hk
    cases d <;> simpa using this

-- non-vacuity of the kernel theorems: a 2-entry comparison where the second entry violates
example : ([1, 2] : List Rat).length = ([1, 4] : List Rat).length ∧ ([1, 2] : List Rat) ≠ [] ∧
    (getTolViolation [1, 2] [(1 : Rat), 4] (1 / 2) (1 / 4)).above = true ∧
    (getTolViolation [1, 2] [(1 : Rat), 4] (1 / 2) (1 / 4)).absAtMax = 2 ∧
    (getTolViolation [1, 2] [(1 : Rat), 4] (1 / 2) (1 / 4)).relAtMax = some (1 / 2) ∧
    (getTolViolation [1, 2] [(1 : Rat), 4] (1 / 2) (1 / 4)).maxViol = 1 / 2 := by
  decide +kernel

example : (getTolViolation [3] [(0 : Rat)] 0 0).relAtMax = none := by decide +kernel

end OMV.C13
