/-
C17 — Recorded cases are faithful, filtered and ordered.
Property theorems only (plus non-vacuity examples and kernel-checked counterexamples).

Reading guide.  `Selected incl excl n` is the declarative include/exclude rule; `Glob` the declarative
meaning of a pattern.  An `Entry` is a recorded row together with the recording stack it was recorded
under; `isDesc c e` says that `e` was recorded under stack `c` or below it (list prefix).  `Collide c k`
is the only way the reader's string test `k.startswith(c)` can differ from the list prefix: `k`
continues `c` at `c`'s last level with a counter whose decimal digits extend those of `c`'s counter
(`…|1` vs `…|10…`).
-/
import OMV.Proofs.C17Glob
import OMV.Proofs.C17Contract

namespace OMV.C17

/-! ## Variable selection -/

/-- The glob matcher used by `check_path` decides exactly the declarative pattern relation. -/
theorem C17_glob_match_spec (p s : Str) : globMatch p s = true ↔ Glob p s := glob_iff p s

/-- `check_path`: a name is kept iff some include pattern matches and no exclude pattern does. -/
theorem C17_check_path_spec (n : Str) (incl excl : List Str) :
    checkPath n incl excl = true ↔
      (∃ i ∈ incl, Glob i n) ∧ ¬ ∃ x ∈ excl, Glob x n := checkPath_iff n incl excl

/-- Driver / problem cases: what `_get_vars_to_record` + `record_iteration` store is exactly the
declarative rule.  Outputs: under `record_outputs`, a variable is stored iff its promoted name is
selected by the patterns, or it is a design variable / objective / constraint whose flag (or
`record_responses`) is on, or — with `record_inputs` — it is the source of a promoted input selected
by the patterns.  Inputs are selected by absolute name, residuals like outputs by promoted name. -/
theorem C17_selection_spec (o : Opts) (e : Env) (v : Str) :
    (v ∈ (driverStored o e).output ↔
      o.recordOutputs = true ∧
      ((∃ x ∈ e.outputs, x.abs = v ∧ Selected o.includes o.excludes x.prom) ∨
       (o.recordDesvars = true ∧ v ∈ e.desvars) ∨
       ((o.recordObjectives = true ∨ o.recordResponses = true) ∧ v ∈ e.objectives) ∨
       ((o.recordConstraints = true ∨ o.recordResponses = true) ∧ v ∈ e.constraints) ∨
       (o.recordInputs = true ∧ ∃ x ∈ e.inputs, x.src = v ∧ Selected o.includes o.excludes x.prom))) ∧
    (v ∈ (driverStored o e).input ↔
      o.recordInputs = true ∧ ∃ x ∈ e.inputs, x.abs = v ∧ Selected o.includes o.excludes x.abs) ∧
    (v ∈ (driverStored o e).residual ↔
      o.recordResiduals = true ∧ ∃ x ∈ e.outputs, x.abs = v ∧ Selected o.includes o.excludes x.prom) := by
  refine ⟨driver_output_spec o e v, ?_, ?_⟩
  · unfold driverStored driverFilter
    cases h : o.recordInputs <;> simp [mem_sel]
  · unfold driverStored driverFilter
    cases h : o.recordResiduals <;> simp [mem_sel]

/-- System cases (`System._setup_recording` + `System.record_iteration`): inputs by absolute name,
outputs and residuals by the name promoted to the recording system, each under its own flag (the
code's reuse of the output list for the residuals does not change the set). -/
theorem C17_selection_spec_system (o : Opts) (e : Env) (v : Str) :
    (v ∈ (systemStored o e).input ↔
      o.recordInputs = true ∧ ∃ x ∈ e.inputs, x.abs = v ∧ Selected o.includes o.excludes x.abs) ∧
    (v ∈ (systemStored o e).output ↔
      o.recordOutputs = true ∧ ∃ x ∈ e.outputs, x.abs = v ∧ Selected o.includes o.excludes x.prom) ∧
    (v ∈ (systemStored o e).residual ↔
      o.recordResiduals = true ∧ ∃ x ∈ e.outputs, x.abs = v ∧ Selected o.includes o.excludes x.prom) := by
  unfold systemStored systemFilter
  refine ⟨?_, ?_, ?_⟩
  · cases h : o.recordInputs <;> simp [mem_sel]
  · cases h : o.recordOutputs <;> simp [mem_sel]
  · cases h1 : o.recordOutputs <;> cases h2 : o.recordResiduals <;> simp [mem_sel]

/-- Solver cases (`Solver._setup_solvers` + `Solver.record_iteration`): everything is matched by
absolute name against the patterns prefixed with the pathname of the solver's system. -/
theorem C17_selection_spec_solver (o : Opts) (e : Env) (v : Str) :
    let incl := solverPatterns e.pathname o.includes
    let excl := solverPatterns e.pathname o.excludes
    (v ∈ (solverStored o e).input ↔
      o.recordInputs = true ∧ ∃ x ∈ e.inputs, x.abs = v ∧ Selected incl excl x.abs) ∧
    (v ∈ (solverStored o e).output ↔
      o.recordOutputs = true ∧ ∃ x ∈ e.outputs, x.abs = v ∧ Selected incl excl x.abs) ∧
    (v ∈ (solverStored o e).residual ↔
      o.recordResiduals = true ∧ ∃ x ∈ e.outputs, x.abs = v ∧ Selected incl excl x.abs) := by
  unfold solverStored solverFilter
  refine ⟨?_, ?_, ?_⟩
  · cases h : o.recordInputs <;> simp [mem_sel]
  · cases h : o.recordOutputs <;> simp [mem_sel]
  · cases h : o.recordResiduals <;> simp [mem_sel]

-- non-vacuity: `*y?` matches `g.y1`, excludes win, a desvar is stored although no pattern selects it
example : globMatch "*y?".toList "g.y1".toList = true ∧ globMatch "*y?".toList "g.y".toList = false ∧
    checkPath "g.y1".toList ["*".toList] ["*y1".toList] = false := by decide +kernel

example :
    (driverStored
      { includes := ["f".toList], excludes := [], recordInputs := false, recordOutputs := true,
        recordResiduals := false, recordDesvars := true }
      { outputs := [⟨"ivc.x".toList, "x".toList⟩, ⟨"c.f".toList, "f".toList⟩, ⟨"c.g".toList, "g".toList⟩],
        inputs := [], desvars := ["ivc.x".toList] }).output = ["c.f".toList, "ivc.x".toList] := by
  decide +kernel

/-! ## Coordinates, order, descendants -/

/-- `Recording.__exit__` records after the body: a recorded node comes last in what its subtree
records, and everything recorded below it carries a proper extension of its coordinate. -/
theorem C17_recording_postorder (stack : Coord) (name : Str) (count : Nat) (children : List Exec) :
    Exec.log stack (.node name count true children) =
      Exec.logs (stack ++ [(name, count)]) children ++ [stack ++ [(name, count)]] ∧
    ∀ k ∈ Exec.logs (stack ++ [(name, count)]) children,
      (stack ++ [(name, count)]) <+: k ∧ k ≠ stack ++ [(name, count)] :=
  recording_postorder stack name count children

/-- `list_cases()` (no source, flat) returns the recorded cases in recording order, whatever the
interleaving of the four case tables: the `global_iterations` rows written together with the case
rows resolve back to the right names. -/
theorem C17_order (cfg : Cfg) (rows : List Row) (recurse : Bool) :
    (match (Db.build rows).listCases cfg none recurse true with
     | .flat l => some l
     | _ => none) = some (rows.map (·.name)) := by
  unfold Db.listCases
  simp [listRecurseFlat_all]

/-- The string test used by the reader against the list prefix on recording stacks: for
separator-free names, `render k` starts with `render c` iff `c` is a list prefix of `k` **or** the two
collide in the digits of `c`'s last counter. -/
theorem C17_prefix_bridge (c k : Coord) (hc : WF c) (hk : WF k) :
    renderStack c <+: renderStack k ↔ (c <+: k ∨ Collide c k) :=
  ⟨prefix_or_collide_of_render_prefix c k hc hk,
   fun h => h.elim (render_prefix_of_prefix c k) (render_prefix_of_collide c k)⟩

-- non-vacuity of the bridge: a list prefix, and a collision that is not one
example :
    let c : Coord := [("rank0:Driver".toList, 1), ("root._solve_nonlinear".toList, 1)]
    let k : Coord := c ++ [("NLRunOnce".toList, 0)]
    barFree c = true ∧ barFree k = true ∧ c.isPrefixOf k = true ∧
      (renderStack c).isPrefixOf (renderStack k) = true ∧
      sameSlot [("rank0:Driver".toList, 1)] [("rank0:Driver".toList, 12), ("x".toList, 0)] = some (1, 12) := by
  decide +kernel

/-- A collision forces the later counter to be at least ten times the earlier one, hence it is
excluded as soon as counters under one parent do not decrease in time (`b ≤ a`). -/
theorem C17_collision_excluded (c k : Coord)
    (hmono : ∀ P nm a b r, c = P ++ [(nm, a)] → k = P ++ (nm, b) :: r → b ≤ a) : ¬ Collide c k :=
  not_collide_of_mono c k hmono

/-- The bare `startswith` is not the list prefix: `rank0:Driver|1` is a string prefix of
`rank0:Driver|10|root._solve_nonlinear|10` although iteration 10 is not below iteration 1. -/
theorem C17_startswith_is_not_list_prefix :
    let c : Coord := [("rank0:Driver".toList, 1)]
    let k : Coord := [("rank0:Driver".toList, 10), ("root._solve_nonlinear".toList, 10)]
    (renderStack c).isPrefixOf (renderStack k) = true ∧ c.isPrefixOf k = false := by
  decide +kernel

/-- `list_cases(coordinate)` (= `_list_cases_recurse_flat`) returns, in recording order, exactly the
cases recorded under that coordinate or below it, for the case `e` at any position of a log, provided
* names are renderings of separator-free stacks (problem cases: any separator-free name),
* no name is recorded twice,
* the stored counter of `e` is its position (one recorder, not restarted),
* nothing after `e` extends `e`'s coordinate (post-order),
* counters of `e`'s own slot did not run backwards before `e`. -/
theorem C17_descendants (pre post : List Entry) (e : Entry) (c : Coord)
    (hc : e.coord = some c)
    (hwf : ∀ x ∈ pre ++ e :: post, EntryWF x)
    (hnodup : ((pre ++ e :: post).map (·.row.name)).Nodup)
    (hcounter : e.row.counter = pre.length + 1)
    (hpost : ∀ x ∈ post, isDesc c x = false)
    (hmono : ∀ x ∈ pre, ∀ k, x.coord = some k →
      ∀ P nm a b r, c = P ++ [(nm, a)] → k = P ++ (nm, b) :: r → b ≤ a) :
    (Db.build ((pre ++ e :: post).map (·.row))).listRecurseFlat e.row.name =
      .ok (((pre ++ e :: post).filter (isDesc c)).map (·.row.name)) :=
  descendants_main pre post e c hc hwf hnodup hcounter hpost hmono

/-- The same with the hypotheses in the decidable form the driver evaluates on every real log
(`logContract`, `countersSync`, `nodupB`): when those checks pass, the descendant query is right at
every position of that log. -/
theorem C17_descendants_of_contract (log : List Entry)
    (h1 : logContract (log.map (·.coord)) = true)
    (h2 : countersSync (log.map (·.row)) = true)
    (h3 : nodupB (log.map (·.row.name)) = true)
    (h4 : ∀ x ∈ log, ∀ c, x.coord = some c → x.row.name = renderStack c)
    (h5 : ∀ x ∈ log, x.coord = none → BarFree x.row.name)
    (pre post : List Entry) (e : Entry) (c : Coord) (hlog : log = pre ++ e :: post)
    (hc : e.coord = some c) :
    (Db.build (log.map (·.row))).listRecurseFlat e.row.name =
      .ok ((log.filter (isDesc c)).map (·.row.name)) :=
  descendants_of_contract log h1 h2 h3 h4 h5 pre post e c hlog hc

/-- Without the counter hypothesis the query is wrong: after the recorder's counter restarted
(a requester started on a recorder that already holds cases) the scan stops short of the case itself. -/
theorem C17_descendants_needs_counter_sync :
    let r1 : Row := ⟨.system, renderStack [("rank0:root._solve_nonlinear".toList, 0)], "root".toList, 1⟩
    let r2 : Row := ⟨.system, renderStack [("p_rank0:root._solve_nonlinear".toList, 0),
                        ("NLRunOnce".toList, 0), ("c._solve_nonlinear".toList, 0)], "c".toList, 1⟩
    let r3 : Row := ⟨.system, renderStack [("p_rank0:root._solve_nonlinear".toList, 0)], "root".toList, 2⟩
    (Db.build [r1, r2, r3]).listRecurseFlat r3.name = .ok [r2.name] := by
  decide +kernel

/-- Without the monotone-counter hypothesis the digit collision is real: iteration 1 recorded after
iteration 10 lists the cases of iteration 10 as its own. -/
theorem C17_descendants_needs_monotone :
    let a1 : Row := ⟨.system, renderStack [("rank0:Driver".toList, 10), ("root._solve_nonlinear".toList, 10)],
                      "root".toList, 1⟩
    let a2 : Row := ⟨.driver, renderStack [("rank0:Driver".toList, 10)], "Driver".toList, 2⟩
    let b1 : Row := ⟨.system, renderStack [("rank0:Driver".toList, 1), ("root._solve_nonlinear".toList, 1)],
                      "root".toList, 3⟩
    let b2 : Row := ⟨.driver, renderStack [("rank0:Driver".toList, 1)], "Driver".toList, 4⟩
    (Db.build [a1, a2, b1, b2]).listRecurseFlat b2.name = .ok [a1.name, a2.name, b1.name, b2.name] := by
  decide +kernel

-- non-vacuity of `C17_descendants`: a two-iteration driver log, queried at the first iteration
example :
    let e1 : Entry := ⟨⟨.system, renderStack [("rank0:Driver".toList, 0), ("root._solve_nonlinear".toList, 0)],
                        "root".toList, 1⟩, some [("rank0:Driver".toList, 0), ("root._solve_nonlinear".toList, 0)]⟩
    let e2 : Entry := ⟨⟨.driver, renderStack [("rank0:Driver".toList, 0)], "Driver".toList, 2⟩,
                        some [("rank0:Driver".toList, 0)]⟩
    let e3 : Entry := ⟨⟨.system, renderStack [("rank0:Driver".toList, 1), ("root._solve_nonlinear".toList, 1)],
                        "root".toList, 3⟩, some [("rank0:Driver".toList, 1), ("root._solve_nonlinear".toList, 1)]⟩
    let e4 : Entry := ⟨⟨.driver, renderStack [("rank0:Driver".toList, 1)], "Driver".toList, 4⟩,
                        some [("rank0:Driver".toList, 1)]⟩
    let log := [e1, e2, e3, e4]
    logContract (log.map (·.coord)) = true ∧ countersSync (log.map (·.row)) = true ∧
      nodupB (log.map (·.row.name)) = true ∧
      (Db.build (log.map (·.row))).listRecurseFlat e2.row.name = .ok [e1.row.name, e2.row.name] := by
  decide +kernel

/-! ## `get_case` -/

/-- `get_case(name)` returns the case recorded under that name when the name is unique in the file. -/
theorem C17_get_case (rows : List Row) (r : Row) (hr : r ∈ rows)
    (hu : ∀ x ∈ rows, x.name = r.name → x = r) :
    (Db.build rows).getCaseByName r.name = .ok r := getCaseByName_ok rows r hr hu

/-- `get_case(i)` returns the `i`-th recorded case — for cases that are not problem cases (or with the
repair `getCaseProblem`). -/
theorem C17_get_case_index_partial (cfg : Cfg) (rows : List Row) (i : Nat) (r : Row)
    (hi : rows[i]? = some r) (hu : ∀ x ∈ rows, x.name = r.name → x = r)
    (hk : r.kind ≠ .problem ∨ cfg.getCaseProblem = true) :
    (Db.build rows).getCaseByIndex cfg (i : Int) = .ok r := getCaseByIndex_ok cfg rows i r hi hu hk

/-- Current code: the index of a problem case is used as an index into the driver table, so
`get_case(-1)` after `problem.record('final')` returns the last *driver* case. -/
theorem C17_get_case_index_problem_counterexample :
    let d0 : Row := ⟨.driver, "rank0:Driver|0".toList, "Driver".toList, 1⟩
    let d1 : Row := ⟨.driver, "rank0:Driver|1".toList, "Driver".toList, 2⟩
    let p : Row := ⟨.problem, "final".toList, "final".toList, 3⟩
    (Db.build [d0, d1, p]).getCaseByIndex {} (-1) = .ok d1 ∧
    (Db.build [d0, d1, p]).getCaseByIndex { getCaseProblem := true } (-1) = .ok p := by
  decide +kernel

/-- Without unique names `get_case` cannot be faithful: the second case of a repeated name is shadowed
by the first (two runs without distinct `case_prefix`). -/
theorem C17_get_case_needs_unique_names :
    let a : Row := ⟨.system, "rank0:root._solve_nonlinear|0".toList, "root".toList, 1⟩
    let b : Row := ⟨.system, "rank0:root._solve_nonlinear|0".toList, "root".toList, 2⟩
    (Db.build [a, b]).getCaseByIndex {} 1 = .ok a := by
  decide +kernel

-- non-vacuity: an index into a log with a problem case in the middle
example :
    let rows : List Row := [⟨.system, "a|0".toList, "root".toList, 1⟩, ⟨.problem, "mid".toList, "mid".toList, 2⟩,
                            ⟨.driver, "d|0".toList, "Driver".toList, 3⟩]
    (Db.build rows).getCaseByIndex {} 2 = .ok ⟨.driver, "d|0".toList, "Driver".toList, 3⟩ ∧
    (Db.build rows).getCaseByName "mid".toList = .ok ⟨.problem, "mid".toList, "mid".toList, 2⟩ := by
  decide +kernel

/-! ## Source queries: three defects of the current reader, and their repairs -/

/-- `list_sources` prefixes `root.` unless the source *starts with* `root`; a subsystem called
`rootfind` is therefore listed as `rootfind`, while its cases parse to `root.rootfind`:
`list_cases('rootfind')` is empty and `list_cases('root.rootfind')` is "not found".  With the exact
test both are consistent. -/
theorem C17_list_sources_root_prefix_counterexample :
    let nm := "rank0:root._solve_nonlinear|0|NLRunOnce|0|rootfind._solve_nonlinear|0".toList
    let db := Db.build [⟨.system, nm, "rootfind".toList, 1⟩]
    db.tableSources {} .system = ["rootfind".toList] ∧
    (match db.listCases {} (some "rootfind".toList) false true with | .flat l => l | _ => [[]]) = [] ∧
    (match db.listCases {} (some "root.rootfind".toList) false true with | .err .sourceNotFound => true | _ => false) = true ∧
    db.tableSources { rootPrefixExact := true } .system = ["root.rootfind".toList] ∧
    (match db.listCases { rootPrefixExact := true } (some "root.rootfind".toList) false true with
      | .flat l => l | _ => []) = [nm] := by
  decide +kernel

/-- `SolverCases._get_source` locates the system node by the *first* occurrence of
`<last path component>._solve_nonlinear`; for a group called `t` that is inside `root._solve_nonlinear`
and the coordinate cannot be parsed (the default pre-loading `CaseReader` then fails to open the file).
Searching from the right parses it. -/
theorem C17_solver_source_counterexample :
    let nm := "rank0:root._solve_nonlinear|0|NLRunOnce|0|t._solve_nonlinear|0|NonlinearBlockGS|1".toList
    solverSource {} nm = .error .cantParse ∧
    solverSource { solverIndexLast := true } nm = .ok "root.t.nonlinear_solver".toList := by
  decide +kernel

/-- Newton with `solve_subsystems`: the case `NewtonSolver|0|Newton_subsolve|0` is recorded by the
Newton solver (its `global_iterations` source is `g.nonlinear_solver`) but node counting attributes
it to the line search, so `list_cases('root.g.nonlinear_solver', recurse=False)` omits it.  Using the
recorded source column lists it. -/
theorem C17_newton_subsolve_source_counterexample :
    let n0 := "rank0:root._solve_nonlinear|0|NLRunOnce|0|g._solve_nonlinear|0|NewtonSolver|0|Newton_subsolve|0".toList
    let n1 := "rank0:root._solve_nonlinear|0|NLRunOnce|0|g._solve_nonlinear|0|NewtonSolver|0".toList
    let db := Db.build [⟨.solver, n0, "g.nonlinear_solver".toList, 1⟩, ⟨.solver, n1, "g.nonlinear_solver".toList, 2⟩]
    solverSource {} n0 = .ok "root.g.nonlinear_solver.linesearch".toList ∧
    db.tableListCases {} .solver "root.g.nonlinear_solver".toList = .ok [n1] ∧
    db.tableListCases { sourceFromRows := true } .solver "root.g.nonlinear_solver".toList = .ok [n0, n1] := by
  decide +kernel

end OMV.C17
