/-
`#audit_module M "Cxx_"` prints, for every theorem declared in module `M` whose last name
component starts with the given prefix, one line

    AUDIT <name> :: <axiom> <axiom> ...

The harness parses these lines: the set of names is the list of discharged obligations and any
axiom outside {propext, Classical.choice, Quot.sound} fails the obligation.
-/
import Lean

open Lean Elab Command

private def lastComponent : Name → String
  | .str _ s => s
  | .num _ n => toString n
  | .anonymous => ""

elab "#audit_module " m:ident pfx:str : command => do
  let env ← getEnv
  let some idx := env.getModuleIdx? m.getId
    | throwError "audit: module {m.getId} not imported"
  let names := env.header.moduleData[idx.toNat]!.constNames
  let mut count : Nat := 0
  for n in names do
    if n.isInternal then continue
    if !(lastComponent n).startsWith pfx.getString then continue
    match env.find? n with
    | some (.thmInfo _) =>
      let axs ← Lean.collectAxioms n
      let axs := axs.qsort (fun a b => a.toString < b.toString)
      let s := " ".intercalate (axs.toList.map (·.toString))
      logInfo m!"AUDIT {n} :: {s}"
      count := count + 1
    | _ => pure ()
  logInfo m!"AUDIT-COUNT {count}"
