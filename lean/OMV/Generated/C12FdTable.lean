import OMV.Model.C12
namespace OMV.C12.Generated
def fdTable : OMV.C12.FdTable := [
  (("forward", 1), { deltas := [1], coeffs := [1], current := -1 }),
  (("backward", 1), { deltas := [-1], coeffs := [-1], current := 1 }),
  (("central", 2), { deltas := [1, -1], coeffs := [(1:Rat)/2, -(1:Rat)/2], current := 0 })]
def defaultOrderTable : List (String × Nat) := [("forward", 1), ("backward", 1), ("central", 2)]
end OMV.C12.Generated
