/-
Driver for C34: runs the model of the function-based / jax components (argument binding, outputs,
jacobian assembly in both directions, colored evaluation + `_expand_jac`, column order of the
implicit component) over `Rat` (rational function bodies) or `Float` (transcendental ones), with
the expression-language AD engine `exprAD`.
-/
import OMV.Model.Basic
import OMV.Model.C34
open Lean OMV OMV.C14 OMV.C34

/-! ### numbers (as in Driver/C14.lean) -/

def pow2Exp? (d : Nat) : Option Nat :=
  let k := d.log2
  if 2 ^ k == d then some k else none

/-- Exact for the dyadic rationals that are values of doubles. -/
def ratToFloat (q : Rat) : Float :=
  match pow2Exp? q.den with
  | some k => (Float.ofInt q.num).scaleB (-(k : Int))
  | none => Float.ofInt q.num / Float.ofNat q.den

/-- Exact rational value of a finite double (via its bit pattern). -/
def floatToRat? (f : Float) : Option Rat :=
  let b : Nat := f.toBits.toNat
  let neg : Bool := b / 2 ^ 63 == 1
  let ex : Nat := (b / 2 ^ 52) % 2048
  let man : Nat := b % 2 ^ 52
  if ex == 2047 then none
  else
    let m : Nat := if ex == 0 then man else man + 2 ^ 52
    let e : Int := if ex == 0 then -1074 else (ex : Int) - 1075
    let mi : Int := if neg then -(m : Int) else (m : Int)
    if e ≥ 0 then some ((mi * (2 ^ e.toNat : Nat) : Int) : Rat)
    else some (mkRat mi (2 ^ (-e).toNat))

def jFloat (f : Float) : Json :=
  match floatToRat? f with
  | some q => jRat q
  | none => jStr "nan"

/-! ### primitive tables: the functions the generator uses -/

def primNames : List String := ["sin", "cos", "exp", "tanh", "sqrt"]

def fPrim (f : String) (x : Float) : Float :=
  match f with
  | "sin" => Float.sin x
  | "cos" => Float.cos x
  | "exp" => Float.exp x
  | "tanh" => Float.tanh x
  | "sqrt" => Float.sqrt x
  | _ => 0.0 / 0.0

def fPrim' (f : String) (x : Float) : Float :=
  match f with
  | "sin" => Float.cos x
  | "cos" => -Float.sin x
  | "exp" => Float.exp x
  | "tanh" => 1.0 - Float.tanh x * Float.tanh x
  | "sqrt" => 0.5 / Float.sqrt x
  | _ => 0.0 / 0.0

def floatAlg : Alg Float := mkAlg ratToFloat fPrim (fun _ a _ => a)
def floatDeriv : Deriv Float := ⟨fPrim', fun _ _ _ => 0.0, fun _ _ _ => 0.0⟩

/-! ### parsing -/

partial def parseExpr (j : Json) : Option Expr := do
  let k ← fieldStr? j "k"
  match k with
  | "lit" => return .lit (← fieldRat? j "q")
  | "var" => return .var (← fieldNat? j "v")
  | "neg" => return .neg (← field? j "a" >>= parseExpr)
  | "add" => return .add (← field? j "a" >>= parseExpr) (← field? j "b" >>= parseExpr)
  | "sub" => return .sub (← field? j "a" >>= parseExpr) (← field? j "b" >>= parseExpr)
  | "mul" => return .mul (← field? j "a" >>= parseExpr) (← field? j "b" >>= parseExpr)
  | "div" => return .div (← field? j "a" >>= parseExpr) (← field? j "b" >>= parseExpr)
  | "powi" => return .powi (← field? j "a" >>= parseExpr) (← fieldInt? j "n")
  | "prim" =>
    let f ← fieldStr? j "f"
    if primNames.contains f then return .prim f (← field? j "a" >>= parseExpr) else none
  | "sum" => return .sum (← field? j "a" >>= parseExpr)
  | "dot" => return .dot (← field? j "a" >>= parseExpr) (← field? j "b" >>= parseExpr)
  | "idx" => return .idx (← field? j "a" >>= parseExpr) (← fieldNat? j "i")
  | "rev" => return .rev (← field? j "a" >>= parseExpr)
  | _ => none

def isRationalExpr : Expr → Bool
  | .lit _ => true
  | .var _ => true
  | .neg a => isRationalExpr a
  | .add a b => isRationalExpr a && isRationalExpr b
  | .sub a b => isRationalExpr a && isRationalExpr b
  | .mul a b => isRationalExpr a && isRationalExpr b
  | .div a b => isRationalExpr a && isRationalExpr b
  | .powi a _ => isRationalExpr a
  | .prim _ _ => false
  | .prim2 _ _ _ => false
  | .sum a => isRationalExpr a
  | .dot a b => isRationalExpr a && isRationalExpr b
  | .idx a _ => isRationalExpr a
  | .rev a => isRationalExpr a

def parseArg (j : Json) : Option Arg := do
  let r ← fieldStr? j "role"
  let s ← fieldNats? j "shape"
  match r with
  | "in" => return ⟨.input, s⟩
  | "opt" => return ⟨.option, s⟩
  | "state" => return ⟨.state (← fieldNat? j "resid"), s⟩
  | _ => none

def parseColoring (j : Json) : Option Coloring := do
  let nz ← (← fieldList? j "nz").mapM fun p => do
    match ← getList? p with
    | [r, c] => return (← getNat? r, ← getNat? c)
    | _ => none
  let gs ← (← fieldList? j "groups").mapM fun g => (getList? g) >>= fun l => l.mapM getNat?
  return { nz := nz, groups := gs }

/-! ### one component -/

/-- Shapes, sizes and the structural well-formedness NumPy needs. -/
def funcWf (f : Func) (vals : List (List Rat)) : Bool :=
  f.comp.wf && vals.length == f.args.length &&
  (List.zipWith (fun (a : Arg) (l : List Rat) => prod a.shape == l.length) f.args vals).all id &&
  -- every return value has exactly the declared size (or one entry that is broadcast)
  f.rets.all (fun r => (shapeOf f.comp.sh r.2).size == prod r.1 || (shapeOf f.comp.sh r.2).broad)

def runComp {K : Type} [OfNat K 0] [OfNat K 1] (A : Alg K) (D : Deriv K) (out : K → Json)
    (kind : String) (f : Func) (argvals : Nat → Nat → K) (byName : Bool) (dir : String)
    (single : Bool) (coloring : Option Coloring) : Option Json := do
  let implicit := kind == "ifc" || kind == "jic"
  -- the vectors as the framework holds them, then the binding of the code
  let uin : Nat → Nat → K := argvals
  let uout : Nat → Nat → K := fun k j => argvals (f.stateOfResid k) j
  let x := orderedInvals byName f (inputVector f uin) uout argvals
  let ad := exprAD A D f x
  let osize := f.osize
  let colSizesOM : List Nat := if implicit then f.omColSizes else f.colSizes
  let colVar (q : Nat) : Nat :=
    if implicit then ((List.range f.rets.length).map f.stateOfResid ++ f.inputVars).getD q f.args.length
    else q
  let ncols := sumL colSizesOM
  -- exact partials in the same layout
  let exact (row col : Nat) : K :=
    let ur := locate f.retSizes row
    let qj := locate colSizesOM col
    exactJ A D f x ur.1 (colVar qj.1) ur.2 qj.2
  -- `_jax_derivs2partials` layout for the jax components without coloring
  let derivs (row col : Nat) : K :=
    let ur := locate f.retSizes row
    let qj := locate colSizesOM col
    let p := colVar qj.1
    let J : Nat → Nat → K :=
      if dir == "fwd" then fun r c => ad.jvp (eyeSeed f.colSizes (offset f.colSizes p + c)) ur.1 r
      else fun r c => ad.vjp (eyeSeed f.retSizes (offset f.retSizes ur.1 + r)) p c
    derivBlock J (f.retShape ur.1) (f.argShape p) ur.2 qj.2
  let Jfun : Option (Nat → Nat → K) :=
    match kind, dir, coloring with
    | "efc", "fwd", none => some (if single then efcFwdSingle f ad else efcFwd f ad)
    | "efc", "rev", none => some (efcRev f ad)
    | "efc", "fwd", some C => some (efcFwdColored f ad C)
    | "efc", "rev", some C => some (efcRevColored f ad C)
    | "jec", _, none => some derivs
    | "jec", "fwd", some C => some (efcFwdColored f ad C)
    | "jec", "rev", some C => some (efcRevColored f ad C)
    | "ifc", "fwd", none =>
      some (if single then fun row c => efcFwdSingle f ad row (f.jac2func.getD c f.isize)
            else ifcFwd f ad)
    | "ifc", "rev", none => some (ifcRev byName f ad)
    | "ifc", "fwd", some C => some (ifcFwdColored f ad C)
    | "ifc", "rev", some C => some (ifcRevColored byName f ad C)
    | "jic", _, none => some derivs
    | _, _, _ => none
  let Jf ← Jfun
  let mat (g : Nat → Nat → K) : Json :=
    jArr (fun row => jArr (fun col => out (g row col)) (List.range ncols)) (List.range osize)
  let colorOk : Json :=
    match coloring with
    | none => Json.null
    | some C => jBool (if dir == "fwd" then coloringOkFwd C else coloringOkRev C)
  return jObj [
    ("ok", jBool true),
    ("out", jArr (fun u => jArr (fun r => out (outVal A D f x u r)) (List.range (f.retSize u)))
      (List.range f.rets.length)),
    ("J", mat Jf), ("exact", mat exact), ("colorOk", colorOk),
    ("statesInOrder", jBool f.statesInOrder),
    ("omVars", jNats ((List.range f.rets.length).map f.stateOfResid ++ f.inputVars)),
    ("inputVars", jNats f.inputVars)]

def handle (j : Json) : Option Json := do
  let op ← fieldStr? j "op"
  match op with
  | "comp" =>
    let kind ← fieldStr? j "kind"
    let args ← (← fieldList? j "args").mapM parseArg
    let rets ← (← fieldList? j "rets").mapM fun o => do
      let s ← fieldNats? o "shape"
      let e ← field? o "expr" >>= parseExpr
      return (s, e)
    let vals ← (← fieldList? j "vals").mapM fun l => (getList? l) >>= fun l => l.mapM getRat?
    let byName ← fieldBool? j "byName"
    let dir ← fieldStr? j "dir"
    let single ← fieldBool? j "single"
    let coloring ← optField? j "coloring" parseColoring
    let f : Func := { args := args, rets := rets }
    if !funcWf f vals then
      return jObj [("ok", jBool false), ("err", jStr "not-wf")]
    let r :=
      if rets.all fun o => isRationalExpr o.2 then
        runComp ratAlg ratDeriv jRat kind f
          (fun p i => (vals.getD p []).getD i 0) byName dir (single && rets.length == 1) coloring
      else
        runComp floatAlg floatDeriv jFloat kind f
          (fun p i => ratToFloat ((vals.getD p []).getD i 0)) byName dir
          (single && rets.length == 1) coloring
    match r with
    | some a => return a
    | none => return jObj [("ok", jBool false), ("err", jStr "unsupported")]
  | "c_order" =>
    -- ravel / unravel against `np.ravel_multi_index` / `np.unravel_index`
    let s ← fieldNats? j "shape"
    let k ← fieldNat? j "k"
    return jObj [("idx", jNats (unravel s k)), ("back", jNat (ravel s (unravel s k))),
      ("size", jNat (prod s))]
  | _ => none

def main : IO Unit := runDriver handle
