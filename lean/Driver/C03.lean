import OMV.Model.Basic
import OMV.Model.C03
open Lean OMV OMV.C03

def getPos? (j : Json) : Option Pos := do
  let l ← getList? j
  match l with
  | [a, b] => do
    let r ← getNat? a
    let c ← getNat? b
    pure (r, c)
  | _ => none

def getNatList? (j : Json) : Option (List Nat) := getList? j >>= fun l => l.mapM getNat?
def getNatLists? (j : Json) : Option (List (List Nat)) := getList? j >>= fun l => l.mapM getNatList?
def getPosList? (j : Json) : Option (List Pos) := getList? j >>= fun l => l.mapM getPos?

def getSub? (j : Json) : Option (Pos × List Pos) := do
  let l ← getList? j
  match l with
  | [a, b] => do
    let p ← getPos? a
    let ks ← getPosList? b
    pure (p, ks)
  | _ => none

def getPattern? (j : Json) : Option Pattern := do
  let nr ← fieldNat? j "nrows"
  let nc ← fieldNat? j "ncols"
  let nz ← field? j "nz" >>= getPosList?
  pure { nrows := nr, ncols := nc, nz := nz }

def getColoring? (j : Json) : Option Coloring := do
  let f ← field? j "fwd" >>= getNatLists?
  let fz ← field? j "fwdNz" >>= getNatLists?
  let r ← field? j "rev" >>= getNatLists?
  let rz ← field? j "revNz" >>= getNatLists?
  let s ← fieldList? j "subs" >>= fun l => l.mapM getSub?
  pure { fwd := f, fwdNz := fz, rev := r, revNz := rz, subs := s }

def jPos (p : Pos) : Json := jNats [p.1, p.2]
def jNatLists (l : List (List Nat)) : Json := jArr jNats l

def jColoring (C : Coloring) : Json :=
  jObj [("fwd", jNatLists C.fwd), ("fwdNz", jNatLists C.fwdNz), ("rev", jNatLists C.rev),
        ("revNz", jNatLists C.revNz),
        ("subs", jArr (fun s => Json.arr #[jPos s.1, jArr jPos s.2]) C.subs),
        ("total", jNat C.totalSolves)]

/-- The matrix with the given values on the pattern (first occurrence), zero elsewhere. -/
def matOf (nz : List Pos) (vals : List Rat) (p : Pos) : Rat :=
  match (nz.zip vals).find? (fun qv => qv.1 == p) with
  | some qv => qv.2
  | none => 0

def handle1 (j : Json) : Option Json := do
  let op ← fieldStr? j "op"
  match op with
  | "color" =>
    let P ← getPattern? j
    let mode ← fieldStr? j "mode"
    match mode with
    | "fwd" =>
      let A := adjList P
      pure (jObj [("col", jColoring (colorFwd P)), ("order", jNats (orderByID (adjOf A) P.ncols))])
    | "rev" =>
      let A := adjList P.transpose
      pure (jObj [("col", jColoring (colorRev P)), ("order", jNats (orderByID (adjOf A) P.nrows))])
    | _ => none
  | "certify" =>
    let P ← getPattern? j
    let C ← field? j "col" >>= getColoring?
    let ok := certify P C
    let bad := if ok then [] else certifyFailures P C
    pure (jObj [("ok", jBool ok), ("wf", jBool P.wf), ("bad", jArr jPos bad)])
  | "auto" =>
    let P ← getPattern? j
    let B ← field? j "bidir" >>= getColoring?
    let f := colorFwd P
    let r := colorRev P
    let c := chooseBest B f r
    let kept := if c.totalSolves == B.totalSolves && c.fwd == B.fwd && c.rev == B.rev then "bidir"
                else if c.rev.isEmpty then "fwd" else "rev"
    pure (jObj [("col", jColoring c), ("kept", jStr kept), ("nfwd", jNat f.totalSolves),
                ("nrev", jNat r.totalSolves)])
  | "recover" =>
    let P ← getPattern? j
    let C ← field? j "col" >>= getColoring?
    let vals ← fieldRats? j "vals"
    let M := matOf P.nz vals
    let comp := compress C M
    let J : Jac Rat ←
      match field? j "rowscale", field? j "colscale" with
      | some rs, some cs => do
        let rs ← getList? rs >>= fun l => l.mapM getRat?
        let cs ← getList? cs >>= fun l => l.mapM getRat?
        let late ← fieldBool? j "late"
        pure (recoverScaled late C (fun p => rs.getD p.1 1 * cs.getD p.2 1) comp)
      | _, _ => pure (recover C comp)
    let outside := (C.writePositions.filter (fun q => !P.nz.contains q)).eraseDups
    pure (jObj [("J", jRats (P.nz.map (getAt J))),
                ("outside", jArr (fun q => Json.arr #[jPos q, jRat (getAt J q)]) outside)])
  | _ => none

/-- `{"op":"batch", <pattern>, "reqs":[...]}`: every sub-request inherits the pattern fields. -/
def handle (j : Json) : Option Json := do
  let op ← fieldStr? j "op"
  if op == "batch" then
    let reqs ← fieldList? j "reqs"
    let base := (j.setObjVal! "reqs" Json.null)
    let res ← reqs.mapM fun r => handle1 (base.mergeObj r)
    pure (jObj [("res", Json.arr res.toArray)])
  else handle1 j

def main : IO Unit := runDriver handle
