import OMV.Model.Basic
import OMV.Model.C10
open Lean OMV OMV.C10

/-- `null` → absent bound. -/
def getOptRat? (j : Json) : Option (Option Rat) :=
  match j with
  | Json.null => some none
  | _ => (getRat? j).map some

/-- A bound array: `null` (the code's `None`: no variable declares this bound) or a list whose
entries are numbers or `null` (`∓inf`). -/
def getBounds? (j : Json) (k : String) (n : Nat) : Option (List (Option Rat)) :=
  match field? j k with
  | none => some (List.replicate n none)
  | some Json.null => some (List.replicate n none)
  | some v => getList? v >>= fun l => if l.length = n then l.mapM getOptRat? else none

def getMethod? (j : Json) : Option Method :=
  match fieldStr? j "method" with
  | some "vector" => some .vector
  | some "scalar" => some .scalar
  | some "wall" => some .wall
  | _ => none

def zip4 : List Rat → List Rat → List (Option Rat) → List (Option Rat) → List (Entry Rat)
  | u :: us, d :: ds, l :: ls, h :: hs => { u := u, du := d, lo := l, hi := h } :: zip4 us ds ls hs
  | _, _, _, _ => []

def getEntries? (j : Json) (uKey : String) : Option (List (Entry Rat)) := do
  let u ← fieldRats? j uKey
  let du ← fieldRats? j "du"
  if du.length ≠ u.length then none
  let lo ← getBounds? j "lower" u.length
  let hi ← getBounds? j "upper" u.length
  pure (zip4 u du lo hi)

def jOptRat : Option Rat → Json
  | none => Json.null
  | some q => jRat q

def jEntries (es : List (Entry Rat)) : List (String × Json) :=
  [("u", jRats (es.map (·.u))), ("du", jRats (es.map (·.du)))]

def getLS? (j : Json) : Option (LS Rat) :=
  match fieldStr? j "ls" with
  | some "bchk" => some .bchk
  | some "ag" => do
    let α ← fieldRat? j "alpha"
    let ρ ← fieldRat? j "rho"
    let n ← fieldNat? j "maxiter"
    pure (.ag α ρ n)
  | _ => none

def getPVar? (j : Json) : Option (PVar Rat) := do
  let ref ← fieldRat? j "ref"
  let ref0 ← fieldRat? j "ref0"
  let lower ← optField? j "lower" getRat?
  let upper ← optField? j "upper" getRat?
  let x ← fieldRat? j "x"
  let dx ← fieldRat? j "dx"
  pure { md := { ref := ref, ref0 := ref0, lower := lower, upper := upper }, x := x, dx := dx }

def handle (j : Json) : Option Json := do
  let op ← fieldStr? j "op"
  match op with
  | "kernel" =>
    -- the three module-level kernels, called directly (no `_has_bounds` test)
    let m ← getMethod? j
    let α ← fieldRat? j "alpha"
    let es ← getEntries? j "u"
    let clamp ← fieldBool? j "clamp"
    if α = 0 then pure (jObj [("ok", jBool false), ("err", jStr "alpha=0")]) else
    let r := match m with
      | .vector => enforceVector clamp α es
      | .scalar => enforceScalar α es
      | .wall => enforceWall α es
    pure (jObj (("ok", jBool true) :: ("d_alpha", jRat (dAlpha es)) :: jEntries r))
  | "newton" =>
    let swap ← fieldBool? j "swap"
    let clamp ← fieldBool? j "clamp"
    let ls ← getLS? j
    let m ← getMethod? j
    let vs ← fieldList? j "vars" >>= fun l => l.mapM getPVar?
    if ls.alpha = 0 then pure (jObj [("ok", jBool false), ("err", jStr "alpha=0")]) else
    if vs.any (fun v => v.md.ref = v.md.ref0) then
      pure (jObj [("ok", jBool false), ("err", jStr "ref=ref0")]) else
    let es := vs.map (mkEntry swap)
    let its := newtonUpdate swap clamp ls m vs
    let startIn := vs.all (fun v => decide (InB v.md.lower v.md.upper v.x))
    let okIt (it : List Rat) : Bool :=
      (List.zipWith (fun v y => decide (InB v.md.lower v.md.upper y) &&
          decide (Along ls.alpha v.x v.dx y)) vs it).all id
    pure (jObj [("ok", jBool true),
                ("iterates", jArr jRats its),
                ("scaled", jArr (fun it => jRats (it.map (·.u))) (lsIterates clamp ls m es)),
                ("lower", jArr jOptRat (es.map (·.lo))),
                ("upper", jArr jOptRat (es.map (·.hi))),
                ("start_in_bounds", jBool startIn),
                ("property_holds", jArr (fun it => jBool (okIt it)) its)])
  | _ => none

def main : IO Unit := runDriver handle
