import OMV.Model.Basic
import OMV.Model.Spec
import Driver.SpecJson
import OMV.Model.C04Idx
open Lean OMV OMV.Spec OMV.SpecJson

/-! index specifications on the wire (same format as Driver/C05):
  ix   := {"i": n} | {"s": [start|null, stop|null, step|null]} | {"a": [shape...], "d": [data...]} | "e"
  spec := {"one": ix} | {"tup": [ix, ...]} -/
def optInt4? (j : Json) : Option (Option Int) :=
  match j with
  | Json.null => some none
  | _ => (getInt? j).map some

def getIx4? (j : Json) : Option C05.Ix :=
  match j with
  | Json.str "e" => some .ellipsis
  | _ =>
    match field? j "i" with
    | some v => (getInt? v).map C05.Ix.int
    | none =>
      match fieldList? j "s" with
      | some [a, b, c] => do
        let a ← optInt4? a
        let b ← optInt4? b
        let c ← optInt4? c
        pure (.slice a b c)
      | some _ => none
      | none => do
        let sh ← fieldNats? j "a"
        let d ← fieldInts? j "d"
        if d.length = C05.prod sh ∧ sh.length ≥ 1 then pure (.arr sh d) else none

def getSpec4? (j : Json) : Option C05.Spec :=
  match field? j "one" with
  | some v => (getIx4? v).map C05.Spec.one
  | none => do
    let l ← fieldList? j "tup"
    let xs ← l.mapM getIx4?
    pure (.tup xs)

def errStr4 : C05.Err → String
  | .index => "index" | .value => "value" | .runtime => "runtime" | .huge => "huge"

def jChain : C05.R (List (List Nat)) → Json
  | .ok ps => jObj [("ok", jArr jNats ps)]
  | .error e => jObj [("err", jStr (errStr4 e))]

/-- run `iters` sweeps, recording what every component reads at each evaluation -/
def sweepLog (comps : List (Comp Rat)) (u : Nat → Rat) : (Nat → Rat) × List (List Rat) :=
  comps.foldl (fun (acc : (Nat → Rat) × List (List Rat)) c =>
    (stepComp acc.1 c, acc.2 ++ [inputsOf acc.1 c])) (u, [])

def sweepsLog (comps : List (Comp Rat)) : Nat → (Nat → Rat) → List (List Rat) →
    (Nat → Rat) × List (List Rat)
  | 0, u, log => (u, log)
  | k + 1, u, log =>
    let r := sweepLog comps u
    -- materialise the state so closures do not nest across iterations
    sweepsLog comps k r.1 (log ++ r.2)

def handle (j : Json) : Option Json := do
  let op ← fieldStr? j "op"
  match op with
  | "chain" =>
    let n ← fieldNat? j "n"
    let levels ← (← fieldList? j "levels").mapM (fun l => getList? l >>= fun x => x.mapM getNat?)
    pure (jObj [("pos", jNats (chainPos n levels))])
  | "chainspec" =>
    -- positions of every level from the index specifications: OpenMDAO's indexer model and NumPy
    let shape ← fieldNats? j "shape"
    let levels ← (← fieldList? j "levels").mapM (fun l => do
      let sp ← field? l "spec" >>= getSpec4?
      let fl ← fieldBool? l "flat"
      pure (sp, fl))
    let om := C04Idx.chainSpecsOm shape levels
    let np := C04Idx.chainSpecsNp shape levels
    let pos : Json := match C04Idx.connPositions shape levels with
      | .ok p => jNats p
      | .error _ => Json.null
    pure (jObj [("om", jChain om), ("np", jChain np), ("pos", pos)])
  | "sweep" =>
    let n ← fieldNat? j "n"
    let u0 ← fieldRats? j "u0"
    let iters ← fieldNat? j "iters"
    let comps ← (← fieldList? j "comps").mapM getComp?
    -- positions of each connection are sent as chains and composed here
    let r := sweepsLog comps iters (stateOfList u0) []
    pure (jObj [("u", jRats (listOfState n r.1)), ("log", jArr jRats r.2)])
  | "scaled" =>
    -- b0 + b1*xh for the input, vs convert(a0 + a1*xh)
    let fac ← fieldRat? j "fac"; let off ← fieldRat? j "off"
    let a0 ← fieldRat? j "a0"; let a1 ← fieldRat? j "a1"; let xh ← fieldRat? j "xh"
    pure (jObj [("b0", jRat (inScale0 fac off a0)), ("b1", jRat (inScale1 fac off a1)),
                ("in_phys", jRat (unscale (inScale0 fac off a0) (inScale1 fac off a1) xh)),
                ("conv", jRat (convert fac off (unscale a0 a1 xh)))])
  | _ => none

def main : IO Unit := runDriver handle
