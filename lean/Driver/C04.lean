import OMV.Model.Basic
import OMV.Model.Spec
import Driver.SpecJson
open Lean OMV OMV.Spec OMV.SpecJson

/-- run `iters` sweeps, recording what every component reads at each evaluation -/
def sweepLog (comps : List (Comp Rat)) (u : Nat → Rat) : (Nat → Rat) × List (List Rat) :=
  comps.foldl (fun (acc : (Nat → Rat) × List (List Rat)) c =>
    (stepComp acc.1 c, acc.2 ++ [inputsOf acc.1 c])) (u, [])

def sweepsLog (comps : List (Comp Rat)) : Nat → (Nat → Rat) → List (List Rat) →
    (Nat → Rat) × List (List Rat)
  | 0, u, log => (u, log)
  | k + 1, u, log =>
    let r := sweepLog comps u
    -- materialise the state so closures do not nest across iterations
    sweepsLog comps k r.1 (log ++ r.2)

def handle (j : Json) : Option Json := do
  let op ← fieldStr? j "op"
  match op with
  | "chain" =>
    let n ← fieldNat? j "n"
    let levels ← (← fieldList? j "levels").mapM (fun l => getList? l >>= fun x => x.mapM getNat?)
    pure (jObj [("pos", jNats (chainPos n levels))])
  | "sweep" =>
    let n ← fieldNat? j "n"
    let u0 ← fieldRats? j "u0"
    let iters ← fieldNat? j "iters"
    let comps ← (← fieldList? j "comps").mapM getComp?
    -- positions of each connection are sent as chains and composed here
    let r := sweepsLog comps iters (stateOfList u0) []
    pure (jObj [("u", jRats (listOfState n r.1)), ("log", jArr jRats r.2)])
  | "scaled" =>
    -- b0 + b1*xh for the input, vs convert(a0 + a1*xh)
    let fac ← fieldRat? j "fac"; let off ← fieldRat? j "off"
    let a0 ← fieldRat? j "a0"; let a1 ← fieldRat? j "a1"; let xh ← fieldRat? j "xh"
    pure (jObj [("b0", jRat (inScale0 fac off a0)), ("b1", jRat (inScale1 fac off a1)),
                ("in_phys", jRat (unscale (inScale0 fac off a0) (inScale1 fac off a1) xh)),
                ("conv", jRat (convert fac off (unscale a0 a1 xh)))])
  | _ => none

def main : IO Unit := runDriver handle
