/-
C11 driver.  One request describes one assembled matrix (dr/do or dr/di): its sub-jacobians
(pattern, offsets, resolved src_indices, factor) and an update history (`conv`, values per
sub-jacobian).  The answer lists, after every update, the dense form reached through each modelled
code path (CSCMatrix, CSRMatrix, DenseMatrix, summed COO triplets) and the dictionary application
on the given seed vectors.  Functions of the model are tabulated after every step (`tab*` / `ofTab*`) so that
the closures do not grow with the history.
-/
import OMV.Model.Basic
import OMV.Model.C11
open Lean OMV OMV.C11

abbrev Q := Rat

/- Tabulation: the arrays are computed once (as values bound in `step`), the functions read them.
Outside the table the matrices of the model are zero (all positions lie inside). -/
def tabNat (n : Nat) (f : Nat → Q) : Array Q := (Array.range n).map f
def ofTabNat (a : Array Q) : Nat → Q := fun i => a.getD i 0

def tabPos (nr nc : Nat) (f : Pos → Q) : Array Q :=
  (Array.range (nr * nc)).map (fun k => f (k / nc, k % nc))
def ofTabPos (nr nc : Nat) (a : Array Q) : Pos → Q :=
  fun p => if p.1 < nr ∧ p.2 < nc then a.getD (p.1 * nc + p.2) 0 else 0

def getPat? (j : Json) : Option Pat := do
  match ← fieldStr? j "t" with
  | "dense" => pure (.dense (← fieldNat? j "m") (← fieldNat? j "n"))
  | "coo" => pure (.coo (← fieldNats? j "rows") (← fieldNats? j "cols"))
  | "diag" => pure (.diag (← fieldNat? j "n"))
  | _ => none

def getSub? (j : Json) : Option (SubJ Q × Nat) := do
  let pat ← field? j "pat" >>= getPat?
  let src ← optField? j "src" (fun v => getList? v >>= fun l => l.mapM getNat?)
  let factor ← optField? j "factor" getRat?
  pure ({ pat := pat, row0 := ← fieldNat? j "row0", col0 := ← fieldNat? j "col0",
          parentNcols := ← fieldNat? j "pn", src := src, factor := factor }, ← fieldNat? j "nin")

def getRatss? (j : Json) : Option (List (List Q)) :=
  getList? j >>= fun l => l.mapM (fun r => getList? r >>= fun x => x.mapM getRat?)

def getConv? (s : String) : Option (Q → Q) :=
  match s with
  | "id" => some id
  | "zero" => some (fun _ => 0)
  | _ => none

def table (nr nc : Nat) (f : Pos → Q) : List (List Q) :=
  (List.range nr).map (fun r => (List.range nc).map (fun c => f (r, c)))

def jMat (m : List (List Q)) : Json := jArr jRats m

def matVec (nc : Nat) (f : Pos → Q) (x : List Q) (r : Nat) : Q :=
  ((List.range nc).map (fun c => f (r, c) * x.getD c 0)).sum

def matVecT (nr : Nat) (f : Pos → Q) (y : List Q) (c : Nat) : Q :=
  ((List.range nr).map (fun r => f (r, c) * y.getD r 0)).sum

structure St where
  csc : Nat → Q
  csr : Nat → Q
  dense : Pos → Q
  coo : List (List Q)

def runHist (nr nc : Nat) (subs : List (SubJ Q × Nat)) (whole : Bool)
    (hist : List ((Q → Q) × List (List Q))) (xs ys : List (List Q)) : List Json :=
  let ss := subs.map (·.1)
  let P := cooPositions ss
  let bCsc := sparseBuild leCsc ss
  let bCsr := sparseBuild leCsr ss
  let uCsc := slotPos leCsc P
  let uCsr := slotPos leCsr P
  let rep := hasRepeated P
  let init : St := { csc := fun _ => 0, csr := fun _ => 0, dense := fun _ => 0,
                     coo := ss.map (fun s => s.positions.map (fun _ => (0 : Q))) }
  let step (acc : St × List Json) (h : (Q → Q) × List (List Q)) : St × List Json :=
    let st := acc.1
    let conv := h.1
    let vals := h.2
    let aCsc := tabNat uCsc.length (sparseStep bCsc ss conv st.csc vals)
    let aCsr := tabNat uCsr.length (sparseStep bCsr ss conv st.csr vals)
    let csc := ofTabNat aCsc
    let csr := ofTabNat aCsr
    let aDense := if rep then #[] else tabPos nr nc (denseStep whole ss conv st.dense vals)
    let dense := if rep then st.dense else ofTabPos nr nc aDense
    let coo := if rep then cooStep ss conv st.coo vals else st.coo
    let T := allTrips (ss.zip vals)
    let tCsc := tabPos nr nc (sparseDense uCsc csc)
    let tCsr := tabPos nr nc (sparseDense uCsr csr)
    let tDen := tabPos nr nc (if rep then cooDense ss coo else dense)
    let tSpec := tabPos nr nc (denseAt T)
    let fCsc := ofTabPos nr nc tCsc
    let fCsr := ofTabPos nr nc tCsr
    let fDen := ofTabPos nr nc tDen
    let fSpec := ofTabPos nr nc tSpec
    let rows := List.range nr
    let cols := List.range nc
    let sv := subs.zip vals
    let out := jObj [
      ("csc", jMat (table nr nc fCsc)), ("csr", jMat (table nr nc fCsr)),
      ("dense", jMat (table nr nc fDen)), ("coo", jMat (table nr nc fSpec)),
      ("fwd_csc", jMat (xs.map (fun x => rows.map (matVec nc fCsc x)))),
      ("fwd_csr", jMat (xs.map (fun x => rows.map (matVec nc fCsr x)))),
      ("fwd_dense", jMat (xs.map (fun x => rows.map (matVec nc fDen x)))),
      ("fwd_coo", jMat (xs.map (fun x => rows.map (mulVec T (fun c => x.getD c 0))))),
      ("fwd_dict", jMat (xs.map (fun x => rows.map (fun r =>
          (sv.map (fun z => dictFwd z.1.1 z.2 (fun c => x.getD c 0) r)).sum)))),
      ("rev_csc", jMat (ys.map (fun y => cols.map (matVecT nr fCsc y)))),
      ("rev_csr", jMat (ys.map (fun y => cols.map (matVecT nr fCsr y)))),
      ("rev_dense", jMat (ys.map (fun y => cols.map (matVecT nr fDen y)))),
      ("rev_coo", jMat (ys.map (fun y => cols.map (mulVecT T (fun r => y.getD r 0))))),
      ("rev_dict", jMat (ys.map (fun y => cols.map (fun c =>
          (sv.map (fun z => dictRev z.1.1 z.1.2 z.2 (fun r => y.getD r 0) c)).sum))))]
    ({ csc := csc, csr := csr, dense := dense, coo := coo }, acc.2 ++ [out])
  (hist.foldl step (init, [])).2

def handle (j : Json) : Option Json := do
  let op ← fieldStr? j "op"
  match op with
  | "chain" =>
    let n ← fieldNat? j "n"
    let levels ← (← fieldList? j "levels").mapM (fun l => getList? l >>= fun x => x.mapM getInt?)
    pure (jObj [("pos", jNats (chainIdx n levels))])
  | "run" =>
    let nr ← fieldNat? j "nrows"
    let nc ← fieldNat? j "ncols"
    let subs ← (← fieldList? j "subs").mapM getSub?
    let whole ← fieldBool? j "whole_view"
    let hist ← (← fieldList? j "hist").mapM (fun h => do
      let c ← fieldStr? h "conv" >>= getConv?
      let v ← field? h "vals" >>= getRatss?
      pure (c, v))
    let xs ← field? j "x" >>= getRatss?
    let ys ← field? j "y" >>= getRatss?
    let ss := subs.map (·.1)
    let P := cooPositions ss
    let built := sparseBuild leCsc ss
    pure (jObj [
      ("steps", Json.arr (runHist nr nc subs whole hist xs ys).toArray),
      ("rep", jBool (hasRepeated P)),
      ("pos", jArr (fun p : Pos => jNats [p.1, p.2]) P),
      ("csc_map", jNats (cooToSlot leCsc P)), ("csr_map", jNats (cooToSlot leCsr P)),
      ("csc_uniq", jArr (fun p : Pos => jNats [p.1, p.2]) (slotPos leCsc P)),
      ("csr_uniq", jArr (fun p : Pos => jNats [p.1, p.2]) (slotPos leCsr P)),
      ("flags", jArr jBool (built.map (·.2)))])
  | _ => none

def main : IO Unit := runDriver handle
