import OMV.Model.Basic
import OMV.Model.C27
open Lean OMV OMV.C27

/-! JSON-lines driver for C27: runs `OMV.C27.exec` on a program and returns the event log. -/

def getAtom? (j : Json) : Option Atom :=
  match j with
  | Json.null => some Atom.none
  | Json.bool b => some (Atom.bool b)
  | Json.str s => some (Atom.str s)
  | Json.num _ => (getInt? j).map Atom.int
  | Json.obj _ => (fieldRat? j "f").map Atom.float
  | _ => none

def getVal? (j : Json) : Option Val :=
  match j with
  | Json.arr a => (a.toList.mapM getAtom?).map Val.list
  | _ => (getAtom? j).map Val.atom

def getTy? (j : Json) : Option Ty :=
  match j with
  | Json.str "bool" => some Ty.bool
  | Json.str "int" => some Ty.int
  | Json.str "float" => some Ty.float
  | Json.str "str" => some Ty.str
  | Json.str "list" => some Ty.list
  | _ => none

def getTypes? (j : Json) : Option TypeSpec :=
  match j with
  | Json.null => some TypeSpec.none
  | Json.arr a => (a.toList.mapM getTy?).map TypeSpec.many
  | _ => (getTy? j).map TypeSpec.one

def getKVs? (j : Json) : Option (List (String × Val)) := do
  let l ← getList? j
  l.mapM fun p => do
    let pr ← getList? p
    match pr with
    | [n, v] => do pure ((← getStr? n), (← getVal? v))
    | _ => none

def getAlias? (j : Json) : Option (Option String) := optField? j "to" getStr?

def getDeclArgs? (j : Json) : Option DeclArgs := do
  let default ← optField? j "default" (fun d => field? d "v" >>= getVal?)
  let values ← optField? j "values" (fun v => getList? v >>= fun l => l.mapM getAtom?)
  let types ← getTypes? ((field? j "types").getD Json.null)
  let lower ← optField? j "lower" getRat?
  let upper ← optField? j "upper" getRat?
  let allowNone ← fieldBool? j "allow_none"
  let cv ← optField? j "cv" getNat?
  let recordable ← fieldBool? j "rec"
  let alias ← optField? j "alias" getAlias?
  pure { default, values, types, lower, upper, allowNone, checkValid := cv, recordable, alias }

def getOp? (j : Json) : Option Op := do
  let k ← fieldStr? j "k"
  match k with
  | "declare" => do pure (Op.declare (← fieldStr? j "n") (← getDeclArgs? j))
  | "undeclare" => do pure (Op.undeclare (← fieldStr? j "n"))
  | "set" => do pure (Op.set (← fieldStr? j "n") (← field? j "v" >>= getVal?))
  | "get" => do pure (Op.get (← fieldStr? j "n"))
  | "update" => do pure (Op.update (← field? j "kvs" >>= getKVs?))
  | "contains" => do pure (Op.contains (← fieldStr? j "n"))
  | _ => none

mutual
  partial def getProg? (j : Json) : Option Prog := do
    let l ← getList? j
    let ps ← l.mapM getStmt?
    pure (ps.foldr Prog.seq Prog.skip)
  partial def getStmt? (j : Json) : Option Prog := do
    let s ← fieldStr? j "s"
    match s with
    | "op" => do pure (Prog.op (← field? j "o" >>= getOp?) (← fieldBool? j "strict"))
    | "raise" => pure Prog.raise
    | "temp" => do
      pure (Prog.temp (← field? j "kw" >>= getKVs?) (← fieldBool? j "strict")
        (← field? j "body" >>= getProg?))
    | "catch" => do pure (Prog.catch (← field? j "body" >>= getProg?))
    | _ => none
end

/-- The concrete `check_valid` callbacks of the harness (same numbering as `harness/c27.py`). -/
def cvTable (k : Nat) (v : Val) : Bool :=
  match k with
  | 0 => true
  | 1 => false
  | 2 => decide (v ≠ Val.atom Atom.none)
  | 3 => decide (v.num ≠ some 0)
  | 4 => match v with
         | Val.atom (Atom.str s) => decide (s.length ≤ 2)
         | _ => true
  | _ => true

def jAtom : Atom → Json
  | Atom.none => Json.null
  | Atom.bool b => Json.bool b
  | Atom.int i => jInt i
  | Atom.float q => jObj [("f", jRat q)]
  | Atom.str s => Json.str s

def jVal : Val → Json
  | Val.atom a => jAtom a
  | Val.list l => jArr jAtom l

def excName : Exc → String
  | Exc.keyError => "KeyError"
  | Exc.valueError => "ValueError"
  | Exc.typeError => "TypeError"
  | Exc.runtimeError => "RuntimeError"
  | Exc.indexError => "IndexError"

def jOut : Out → Json
  | Out.ok => Json.str "ok"
  | Out.val v => jObj [("v", jVal v)]
  | Out.bool b => jObj [("b", Json.bool b)]
  | Out.err e => jObj [("e", Json.str (excName e))]

def jObs (o : Obs) : Json :=
  jObj [("opts", jArr (fun p => Json.arr #[Json.str p.1, jOut p.2]) o.opts),
        ("rec", jArr Json.str o.recordable),
        ("pending", jNat o.pending)]

def kindName : EvKind → String
  | EvKind.op => "op"
  | EvKind.raise => "raise"
  | EvKind.enter => "enter"
  | EvKind.exit => "exit"
  | EvKind.exitExc => "exitExc"

def jEvent (e : Event) : Json :=
  jObj [("k", Json.str (kindName e.kind)), ("out", jOut e.out), ("obs", jObs e.obs)]

def handle (j : Json) : Option Json := do
  let op ← fieldStr? j "op"
  match op with
  | "run" =>
    let fixed ← fieldBool? j "fixed"
    let ro ← fieldBool? j "read_only"
    let p ← field? j "prog" >>= getProg?
    let r := exec ⟨fixed, cvTable⟩ p (State.empty ro)
    pure (jObj [("raised", Json.bool r.raised), ("log", jArr jEvent r.log)])
  | _ => none

def main : IO Unit := runDriver handle
