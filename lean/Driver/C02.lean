import OMV.Model.Basic
import OMV.Model.C02
open Lean OMV OMV.C02 OMV.Spec

def getTrips? (j : Json) : Option (List (Trip Rat)) := do
  let l ← getList? j
  l.mapM (fun e => do
    match ← getList? e with
    | [a, b, c] => pure { r := ← getNat? a, c := ← getNat? b, a := ← getRat? c }
    | _ => none)

def vecOf (l : List Rat) : Nat → Rat := fun i => l.getD i 0

def handle (j : Json) : Option Json := do
  let op ← fieldStr? j "op"
  match op with
  | "coo" =>
    -- ⟨w, A v⟩ and ⟨Aᵀ w, v⟩ for a triplet list (duplicates allowed)
    let nr ← fieldNat? j "nr"; let nc ← fieldNat? j "nc"
    let T ← field? j "T" >>= getTrips?
    let v ← fieldRats? j "v"; let w ← fieldRats? j "w"
    let keep : Trip Rat → Bool := fun _ => true
    let av := (List.range nr).map (applyFwd T keep (vecOf v))
    let atw := (List.range nc).map (applyRev T keep (vecOf w))
    pure (jObj [("Av", jRats av), ("ATw", jRats atw),
                ("wAv", jRat (dot nr (vecOf w) (vecOf av))),
                ("ATwv", jRat (dot nc (vecOf atw) (vecOf v)))])
  | "transfer" =>
    let n ← fieldNat? j "n"
    let idx ← fieldNats? j "idx"
    let v ← fieldRats? j "v"; let w ← fieldRats? j "w"
    let m := idx.length
    let ix : Nat → Nat := fun k => idx.getD k 0
    let g := (List.range m).map (gatherF ix (vecOf v))
    let s := (List.range n).map (scatterAdd ix m (vecOf w))
    pure (jObj [("gather", jRats g), ("scatter", jRats s),
                ("lhs", jRat (dot m (vecOf w) (vecOf g))), ("rhs", jRat (dot n (vecOf s) (vecOf v)))])
  | _ => none

def main : IO Unit := runDriver handle
