/-
C33 driver: builds the six root vectors of a model description (layout + scale factors), the
requested (sub-)vector handles, and runs an operation history through `OMV.C33.step`.
One request = one history; the answer lists, per harness step, the outputs and every root array
that changed.
-/
import OMV.Model.Basic
import OMV.Model.C33
open Lean OMV OMV.C33

abbrev Q := Rat

def getCx? (j : Json) : Option (Cx Q) :=
  match j with
  | Json.arr a =>
    match a.toList with
    | [r, i] => do pure ⟨← getRat? r, ← getRat? i⟩
    | _ => none
  | _ => (getRat? j).map Cx.ofReal

def getCxs? (j : Json) : Option (List (Cx Q)) := getList? j >>= fun l => l.mapM getCx?

def jCx (z : Cx Q) : Json := if z.im == 0 then jRat z.re else Json.arr #[jRat z.re, jRat z.im]
def jCxs (l : List (Cx Q)) : Json := jArr jCx l

def getVar? (j : Json) : Option Var := do
  match ← getList? j with
  | [n, s] => pure ⟨← getStr? n, ← (← getList? s).mapM getNat?⟩
  | _ => none

def getFactor? (j : Json) : Option (Factor Q) := do
  match ← getList? j with
  | [n, a0, a1, u] =>
    let unit : Option (Q × Q) ← match u with
      | Json.null => pure none
      | _ => match ← getList? u with
        | [f, o] => pure (some (← getRat? f, ← getRat? o))
        | _ => none
    pure ⟨← getStr? n, ← (← getList? a0).mapM getRat?, ← (← getList? a1).mapM getRat?, unit⟩
  | _ => none

/-- One kind (input / output / residual): its two root vectors (nonlinear, linear). -/
def getKind? (j : Json) : Option (List Var × RootVec Q × RootVec Q × Bool) := do
  let isinput ← fieldBool? j "isinput"
  let vars ← (← fieldList? j "vars").mapM getVar?
  let factors ← (← fieldList? j "factors").mapM getFactor?
  let scaling ← fieldBool? j "scaling"
  let adder ← fieldBool? j "adder"
  let outsc ← fieldBool? j "outscaling"
  let nlData ← field? j "nl_data" >>= getCxs?
  let lnData ← field? j "ln_data" >>= getCxs?
  let nlAlloc ← fieldBool? j "nl_alloc"
  let lnAlloc ← fieldBool? j "ln_alloc"
  let sc := setupScaling (K := Q) isinput outsc adder (totalLen vars) (mkViews vars) factors
  let nl : RootVec Q := { data := nlData, allocComplex := nlAlloc,
                          scaling := if scaling then some sc.1 else none, nlScaler := sc.1.1 }
  let ln : RootVec Q := { data := lnData, allocComplex := lnAlloc,
                          scaling := if scaling then some sc.2 else none, nlScaler := sc.1.1 }
  pure (vars, nl, ln, outsc && isinput)

def getHandle? (kinds : List (List Var)) (j : Json) : Option (Option Handle) := do
  let vid ← fieldNat? j "vid"
  let sref ← fieldBool? j "sref"
  let chain ← (← fieldList? j "chain").mapM fun c => do (← getList? c).mapM getStr?
  let vars ← kinds[vid / 2]?
  let pick (names : List String) : Option (List Var) :=
    names.mapM fun n => vars.find? (fun v => v.name == n)
  let root := rootHandle vid vars sref
  let rec go (h : Handle) : List (List String) → Option (Option Handle)
    | [] => some (some h)
    | names :: rest => do
      let vs ← pick names
      match subHandle h vs sref with
      | none => some none
      | some h' => go h' rest
  go root chain

def getIdx? (j : Json) : Option Idx :=
  match j with
  | Json.null => some .full
  | _ => do
    match ← getList? j with
    | [t, a, b] => if (← getStr? t) == "r" then pure (.range (← getNat? a) (← getNat? b)) else none
    | [t, l] => if (← getStr? t) == "l" then pure (.list (← (← getList? l).mapM getNat?)) else none
    | _ => none

def getBinOp? (s : String) : Option BinOp :=
  match s with
  | "set" => some .set | "add" => some .add | "sub" => some .sub | "mul" => some .mul
  | _ => none

def getOp? (hs : Array (Option Handle)) (j : Json) : Option (Op Q) := do
  let H (k : String) : Option Handle := do (← hs[← fieldNat? j k]?)
  match ← fieldStr? j "o" with
  | "arith" =>
    let sj ← field? j "src"
    let src : Src Q ←
      match field? sj "vals", field? sj "scal", field? sj "vec" with
      | some v, _, _ => (getCxs? v).map Src.vals
      | none, some c, some h => do pure (Src.scalVec (← getCx? c) (← hs[← getNat? h]?.join))
      | none, none, some h => do pure (Src.vec (← hs[← getNat? h]?.join))
      | _, _, _ => none
    pure (.arith (← H "t") (← getBinOp? (← fieldStr? j "f")) (← fieldBool? j "raw") src
      (← getIdx? ((field? j "idx").getD Json.null)))
  | "named" =>
    pure (.named (← H "t") (← fieldStr? j "name") (← getBinOp? (← fieldStr? j "f"))
      (← fieldBool? j "raw") (← field? j "vals" >>= getCxs?)
      (← getIdx? ((field? j "idx").getD Json.null)))
  | "selset" =>
    let sel ← optField? j "sel" (fun x => do (← getList? x).mapM getNat?)
    let bvals ← optField? j "bvals" getCxs?
    pure (.setVarSel (← H "t") (← fieldStr? j "name") sel bvals (← field? j "vals" >>= getCxs?))
  | "iop" =>
    pure (.namedIop (← H "t") (← fieldStr? j "name") (← getBinOp? (← fieldStr? j "f"))
      (← field? j "vals" >>= getCxs?))
  | "get" => pure (.get (← H "t") (← fieldStr? j "name"))
  | "all" => pure (.getAll (← H "t"))
  | "dot" => pure (.dot (← H "t") (← H "s"))
  | "norm2" => pure (.norm2 (← H "t"))
  | "scale" => pure (.scale (← H "t") (← fieldBool? j "norm") (← fieldBool? j "rev"))
  | "cs" => pure (.setCS (← fieldBool? j "b"))
  | _ => none

def jOut : Out Q → Json
  | .none => Json.null
  | .scalar z => jObj [("s", Json.arr #[jRat z.re, jRat z.im])]
  | .vals l => jObj [("v", jCxs l)]
  | .err e => jObj [("err", jStr e)]

def jHandle : Option Handle → Json
  | none => Json.null
  | some h => jObj [("off", jNat h.off), ("len", jNat h.len),
      ("views", jArr (fun (v : View) => Json.arr #[jStr v.name, jNat v.start, jNat v.stop]) h.views)]

def jScaling (v : RootVec Q) : Json :=
  match v.scaling with
  | none => Json.null
  | some (s, a) => Json.arr #[jRats s, match a with | none => Json.null | some a => jRats a]

/-- Run the model ops of one harness step; report outputs and changed root arrays. -/
def runStep (st : State Q) (ops : List (Op Q)) : State Q × Json :=
  let (st', outs) := ops.foldl (fun (acc : State Q × List Json) o =>
    let r := step acc.1 o
    (r.1, acc.2 ++ [jOut r.2])) (st, [])
  let changed := (List.range st'.vecs.length).filterMap fun i =>
    match st.vecs[i]?, st'.vecs[i]? with
    | some a, some b => if a.data == b.data then none else
        some (Json.arr #[jNat i, jCxs b.data])
    | _, _ => none
  (st', jObj [("outs", Json.arr outs.toArray), ("data", Json.arr changed.toArray),
              ("cs", jBool st'.cs)])

def handle (j : Json) : Option Json := do
  let op ← fieldStr? j "op"
  match op with
  | "run" =>
    let kinds ← (← fieldList? j "kinds").mapM getKind?
    let kvars := kinds.map (·.1)
    let vecs := kinds.foldr (fun k acc => k.2.1 :: k.2.2.1 :: acc) []
    let hs ← (← fieldList? j "handles").mapM (getHandle? kvars)
    let harr := hs.toArray
    if hs.any Option.isNone then
      -- a sub-system's first variable is not a variable of its parent: the layout assumption of
      -- `_initialize_data` is violated; reported, not an infrastructure error
      return jObj [("ok", jBool false), ("err", jStr "handle"), ("handles", jArr jHandle hs)]
    let steps ← (← fieldList? j "ops").mapM fun s => do (← getList? s).mapM (getOp? harr)
    let st0 : State Q := { cs := (← fieldBool? j "cs"), vecs := vecs }
    let (stN, outs) := steps.foldl (fun (acc : State Q × List Json) s =>
      let r := runStep acc.1 s
      (r.1, acc.2 ++ [r.2])) (st0, [])
    pure (jObj [("ok", jBool true), ("handles", jArr jHandle hs),
                ("scaling", jArr jScaling vecs),
                ("steps", Json.arr outs.toArray),
                ("final", jArr (fun (v : RootVec Q) => jCxs v.data) stN.vecs)])
  | _ => none

def main : IO Unit := runDriver handle
