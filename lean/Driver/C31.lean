import OMV.Model.Basic
import OMV.Model.Spec
import OMV.Model.C31
import Driver.SpecJson
open Lean OMV OMV.Spec OMV.SpecJson OMV.C31

/-- calls: list of "run" | "query"; returns the state after every call -/
def handle (j : Json) : Option Json := do
  let op ← fieldStr? j "op"
  match op with
  | "calls" =>
    let n ← fieldNat? j "n"
    let u0 ← fieldRats? j "u0"
    let comps ← (← fieldList? j "comps").mapM getComp?
    let calls ← (← fieldList? j "calls").mapM getStr?
    let r := calls.foldl (fun (acc : List Rat × List Json) c =>
      let u := stateOfList acc.1
      let call : @Call Rat Rat := if c == "run" then Call.runModel else Call.query (fun s => s 0)
      let u' := listOfState n (stepApi comps u call).1
      (u', acc.2 ++ [jRats u'])) (u0, [])
    pure (jObj [("states", Json.arr r.2.toArray)])
  | _ => none

def main : IO Unit := runDriver handle
