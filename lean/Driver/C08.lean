import OMV.Model.Basic
import OMV.Model.C08
import OMV.Model.Lin
open Lean OMV OMV.C08 OMV.Lin

def getMat? (j : Json) : Option Mat := do
  let rows ← getList? j
  let l ← rows.mapM (fun r => getList? r >>= fun x => x.mapM getRat?)
  pure (matOfLists l)

def handle (j : Json) : Option Json := do
  let op ← fieldStr? j "op"
  match op with
  | "scale" =>
    -- scaled image of a physical output vector and of a residual vector
    let a0 ← fieldRats? j "a0"; let a1 ← fieldRats? j "a1"; let rr ← fieldRats? j "rr"
    let x ← fieldRats? j "x"; let r ← fieldRats? j "r"
    let xs := (List.range x.length).map (fun i => toScaled (a0.getD i 0) (a1.getD i 1) (x.getD i 0))
    let back := (List.range x.length).map (fun i => toPhys (a0.getD i 0) (a1.getD i 1) (xs.getD i 0))
    let rs := (List.range r.length).map (fun i => resScaled (rr.getD i 1) (r.getD i 0))
    pure (jObj [("xs", jRats xs), ("back", jRats back), ("rs", jRats rs)])
  | "linsys" =>
    -- physical solve vs scaled solve, forward and reverse
    let n ← fieldNat? j "n"
    let A ← field? j "A" >>= getMat?
    let su ← fieldRats? j "su"; let sr ← fieldRats? j "sr"
    let b ← fieldRats? j "b"
    let sU : Nat → Rat := fun i => su.getD i 1
    let sR : Nat → Rat := fun i => sr.getD i 1
    let Af : Nat → Nat → Rat := fun k i => mget A k i
    let bm := mkMat n 1 (fun i _ => b.getD i 0)
    let M := mkMat n n (fun k i => scaledEntry Af sU sR k i)
    let Mrev := mkMat n n (fun jj k => scaledEntryRev Af sU sR k jj)   -- row j, column k
    let bsF := mkMat n 1 (fun i _ => linScaled (sR i) (b.getD i 0))
    let bsR := mkMat n 1 (fun i _ => linScaled (sU i) (b.getD i 0))
    match solveCertified n 1 A bm, solveCertified n 1 M bsF,
          solveCertified n 1 (transpose n n A) bm, solveCertified n 1 Mrev bsR with
    | some x, some xh, some y, some yh =>
      let okF := (List.range n).all (fun i => mget xh i 0 == linScaled (sU i) (mget x i 0))
      let okR := (List.range n).all (fun i => mget yh i 0 == linScaled (sR i) (mget y i 0))
      pure (jObj [("ok", jBool true), ("x", jRats ((List.range n).map (fun i => mget x i 0))),
                  ("y", jRats ((List.range n).map (fun i => mget y i 0))),
                  ("fwd_consistent", jBool okF), ("rev_consistent", jBool okR)])
    | _, _, _, _ => pure (jObj [("ok", jBool false)])
  | _ => none

def main : IO Unit := runDriver handle
