import OMV.Model.Basic
import OMV.Model.C24
open Lean OMV OMV.C24

/-- sparse W: list of [k, j, "w"] -/
def getW? (j : Json) : Option (List (Nat × Nat × Rat)) := do
  let l ← getList? j
  l.mapM (fun e => do
    match ← getList? e with
    | [a, b, c] => pure (← getNat? a, ← getNat? b, ← getRat? c)
    | _ => none)

def handle (j : Json) : Option Json := do
  let op ← fieldStr? j "op"
  match op with
  | "relevance" =>
    let n ← fieldNat? j "n"
    let Wl ← field? j "W" >>= getW?
    let seedl ← fieldRats? j "seed"
    let r ← fieldNat? j "r"
    let W : Nat → Nat → Rat := fun k jj =>
      match Wl.find? (fun e => e.1 == k && e.2.1 == jj) with
      | some e => e.2.2
      | none => 0
    let seed : Nat → Rat := fun k => seedl.getD k 0
    let seedNZ : Nat → Bool := fun k => seed k != 0
    let wNZ : Nat → Nat → Bool := fun k jj => W k jj != 0
    let rch := (List.range n).map (reach seedNZ wNZ)
    let inf := (List.range n).map (infl wNZ r)
    let keep : Nat → Bool := fun k => rch.getD k false && inf.getD k false
    -- memoised forward substitution (the recursive `val` is exponential when executed naively)
    let full := (List.range n).foldl (fun (xs : List Rat) k =>
      xs ++ [seed k + sumList ((List.range k).map (fun jj => W k jj * xs.getD jj 0))]) []
    let skip := (List.range n).foldl (fun (xs : List Rat) k =>
      xs ++ [if keep k then seed k + sumList ((List.range k).map (fun jj => W k jj * xs.getD jj 0))
             else 0]) []
    -- the definitions the theorems are about, evaluated directly at the response
    let vr := if n ≤ 12 then some (val seed W r) else none
    let vs := if n ≤ 12 then some (valSkip keep seed W r) else none
    pure (jObj [("reach", jArr jBool rch), ("infl", jArr jBool inf),
                ("val_r", jRat (full.getD r 0)), ("skip_r", jRat (skip.getD r 0)),
                ("def_val_r", match vr with | some v => jRat v | none => Json.null),
                ("def_skip_r", match vs with | some v => jRat v | none => Json.null)])
  | "approx_seq" =>
    -- a history of `_add_approximations` calls on one component: decls [[of, wrt, method]],
    -- live0 the methods that have a scheme before the first call, rels the relevant wrt ids per call
    let fixed ← fieldBool? j "fixed"
    let dl ← fieldList? j "decls"
    let decls ← dl.mapM (fun e => do
      match ← getList? e with
      | [a, b, c] => pure ({ of := ← getNat? a, wrt := ← getNat? b, method := ← getNat? c } : Decl)
      | _ => none)
    let live0 ← fieldNats? j "live0"
    let rl ← fieldList? j "rels"
    let rels ← rl.mapM (fun e => do (← getList? e).mapM getNat?)
    let (_, outs) := rels.foldl (fun (acc : List Nat × List Json) r =>
      let rel : Nat → Bool := fun w => r.contains w
      let live := acc.1
      let after := approxStep fixed decls live rel
      let row := jArr (fun m => Json.arr #[jNat m, jNats (approxQuery fixed decls live rel m)]) after
      (after, acc.2 ++ [row])) (live0, [])
    pure (jObj [("steps", Json.arr outs.toArray)])
  | _ => none

def main : IO Unit := runDriver handle
