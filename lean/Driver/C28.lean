import OMV.Model.Basic
import OMV.Model.Lin
import OMV.Model.C28
open Lean OMV OMV.C28

/-! JSON-lines driver for C28: runs the definitions of `OMV.C28` on `Rat`. -/

def getRats? (j : Json) : Option (List Rat) := getList? j >>= fun l => l.mapM getRat?
def getMat? (j : Json) : Option (List (List Rat)) := getList? j >>= fun l => l.mapM getRats?
def fieldMat? (j : Json) (k : String) : Option (List (List Rat)) := field? j k >>= getMat?
def jMat (m : List (List Rat)) : Json := jArr jRats m

/-- column `l` of a matrix given as rows -/
def col (M : List (List Rat)) (l : Nat) : List Rat := M.map (fun r => r.getD l 0)
def ncols (M : List (List Rat)) : Nat := (M.head?.map List.length).getD 0
def cols (M : List (List Rat)) : List (List Rat) := (List.range (ncols M)).map (col M)

def isZero (l : List Rat) : Bool := l.all (· == 0)

def ident (n : Nat) : Lin.Mat := Lin.mkMat n n (fun i j => if i == j then 1 else 0)

/-- exact solve `A W = B` with certificate `A W = B` and a checked left inverse `L A = I`
(so the solution is unique) -/
def solveUnique (n m : Nat) (A B : Lin.Mat) : Option Lin.Mat := do
  let W ← Lin.solveCertified n m A B
  let L ← Lin.solve n n A (ident n)
  if Lin.matEq n n (Lin.matMul n n n L A) (ident n) then some W else none

/-- least squares through the normal equations; every column of the answer is checked with
`normalResidual` (the definition the theorem is about) -/
def rsFit (X : List (List Rat)) (Y : List (List Rat)) : Option (List (List Rat)) := do
  let D := rsDesign X
  let m := D.length
  let nc := ncols D
  let Dm := Lin.matOfLists D
  let Dt := Lin.transpose m nc Dm
  let A := Lin.matMul nc m nc Dt Dm
  let B := Lin.matMul nc m (ncols Y) Dt (Lin.matOfLists Y)
  let W ← solveUnique nc (ncols Y) A B
  let betas := cols (Lin.matToLists W)
  let ys := cols Y
  if (betas.zip ys).all (fun (b, y) => isZero (normalResidual nc D b y)) then some betas else none

def handleRs (j : Json) : Option Json := do
  let Q ← fieldMat? j "Q"
  let betas? : Option (List (List Rat)) ←
    match field? j "beta" with
    | some b => (getMat? b).map some
    | none => do
      let X ← fieldMat? j "X"
      let Y ← fieldMat? j "Y"
      pure (rsFit X Y)
  match betas? with
  | none => pure (jObj [("ok", jBool false), ("err", jStr "singular")])
  | some betas =>
    pure (jObj [("ok", jBool true), ("beta", jMat betas),
      ("pred", jMat (Q.map (fun q => betas.map (fun b => rsPredict b q)))),
      ("jac", jArr jMat (Q.map (fun q => betas.map (fun b => rsLinearize b q))))])

def handleWeighted (j : Json) : Option Json := do
  let tvm ← fieldRats? j "tvm"
  let tvr ← fieldRats? j "tvr"
  let tpr ← fieldRats? j "tpr"
  let p ← fieldNat? j "p"
  let ds ← fieldRats? j "ds"
  let diffs ← fieldMat? j "diffs"
  let ys ← fieldMat? j "ys"
  let outs := (List.range tvm.length).map (fun l => (tvm.getD l 0, tvr.getD l 1, col ys l))
  let pred := outs.map (fun (m, r, y) => weightedPredict m r p ds y)
  let hit := ds.any (· == 0)
  let jac := outs.map (fun (m, r, y) => weightedLinearize r tpr p ds diffs (y.map (normalize m r)))
  pure (jObj [("pred", jRats pred), ("hit", jBool hit), ("jac", jMat jac)])

def handleLinear (j : Json) : Option Json := do
  let tvm ← fieldRats? j "tvm"
  let tvr ← fieldRats? j "tvr"
  let tpm ← fieldRats? j "tpm"
  let tpr ← fieldRats? j "tpr"
  let P ← fieldMat? j "P"          -- raw neighbour points, nearest first
  let Y ← fieldMat? j "Y"          -- raw neighbour outputs
  let normals ← fieldMat? j "normals"   -- one (nx ++ [nz]) per output
  let x ← fieldRats? j "x"
  let Pn := P.map (fun p => normV p tpm tpr)
  let xn := normV x tpm tpr
  let n := tpr.length
  let res := (List.range tvm.length).map (fun l =>
    let m := tvm.getD l 0
    let r := tvr.getD l 1
    let nrm := normals.getD l []
    let nx := nrm.take n
    let nz := nrm.getD n 0
    let yl := col Y l
    let vn := yl.map (normalize m r)
    (planeContract nx nz Pn vn,
     linearPredict m r nx nz (Pn.headD []) (yl.headD 0) xn,
     linearLinearize r tpr nx nz))
  pure (jObj [("contract", jArr jBool (res.map (·.1))), ("pred", jRats (res.map (·.2.1))),
    ("jac", jMat (res.map (·.2.2)))])

structure RbfRowIn where
  idx : List Nat
  ds : List Rat
  dN : Rat

def getRbfRow? (j : Json) : Option RbfRowIn := do
  pure ⟨← fieldNats? j "idx", ← fieldRats? j "ds", ← fieldRat? j "dN"⟩

def handleRbf (j : Json) : Option Json := do
  let tvm ← fieldRats? j "tvm"
  let tvr ← fieldRats? j "tvr"
  let tpr ← fieldRats? j "tpr"
  let fam ← fieldInt? j "fam"
  let signFixed ← fieldBool? j "signFixed"
  let tiny ← fieldRat? j "tiny"
  let Y ← fieldMat? j "Y"
  let trainRows ← fieldList? j "train" >>= fun l => l.mapM getRbfRow?
  let queries ← fieldList? j "queries"
  match rbfTable signFixed (rbfClass tpr.length) fam with
  | none => pure (jObj [("ok", jBool false), ("err", jStr "family")])
  | some e =>
    let m := Y.length
    let nout := tvm.length
    let Rt := trainRows.map (fun r => rbfDenseRow m e r.idx r.ds r.dN)
    let TV := Y.map (fun row => (List.range nout).map (fun l =>
      normalize (tvm.getD l 0) (tvr.getD l 1) (row.getD l 0)))
    match solveUnique m nout (Lin.matOfLists Rt) (Lin.matOfLists TV) with
    | none => pure (jObj [("ok", jBool false), ("err", jStr "singular")])
    | some W =>
      let Wc := cols (Lin.matToLists W)
      let out ← queries.mapM (fun q => do
        let r ← getRbfRow? q
        let xpi ← fieldMat? q "xpi"
        let xpm ← fieldRats? q "xpm"
        let pred := (List.range nout).map (fun l =>
          rbfPredict (tvm.getD l 0) (tvr.getD l 1) m e r.idx r.ds r.dN (Wc.getD l []))
        let jac := (List.range nout).map (fun l =>
          rbfLinearize (tvr.getD l 1) tpr tiny e r.ds r.dN xpi xpm (gather (Wc.getD l []) r.idx))
        pure (jObj [("pred", jRats pred), ("jac", jMat jac)]))
      let absR (x : Rat) : Rat := if x < 0 then -x else x
      let wmax := Wc.map (fun c => c.foldl (fun acc x => if acc < absR x then absR x else acc) 0)
      pure (jObj [("ok", jBool true), ("q", Json.arr out.toArray), ("wmax", jRats wmax)])

def handleKriging (j : Json) : Option Json := do
  let ymean ← fieldRats? j "ymean"
  let ystd ← fieldRats? j "ystd"
  let xmean ← fieldRats? j "xmean"
  let xstd ← fieldRats? j "xstd"
  let theta ← fieldRats? j "theta"
  let Xn ← fieldMat? j "Xn"        -- normalised training inputs (attribute `X`)
  let alpha ← fieldMat? j "alpha"  -- m × nout
  let x ← fieldRats? j "x"
  let r ← fieldRats? j "r"
  let xn := normV x xmean xstd
  let diffs := Xn.map (fun Xk => subV xn Xk)
  let ac := cols alpha
  let pred := (List.range ymean.length).map (fun l =>
    krigPredict (ymean.getD l 0) (ystd.getD l 1) r (ac.getD l []))
  let jac := (List.range ymean.length).map (fun l =>
    krigLinearize (ystd.getD l 1) xstd theta r diffs (ac.getD l []))
  -- the exponent of every correlation, so that the harness can validate the `r` it supplied
  let expo := Xn.map (fun Xk => -(dot theta ((subV xn Xk).map (fun d => d * d))))
  pure (jObj [("pred", jRats pred), ("jac", jMat jac), ("expo", jRats expo)])

def handleComp (j : Json) : Option Json := do
  let vec ← fieldNat? j "vec"
  let nOf ← fieldNat? j "nOf"
  let sizes ← fieldNats? j "sizes"
  let derivs ← fieldList? j "derivs" >>= fun l => l.mapM getMat?
  let flat ← fieldList? j "inputs" >>= fun l => l.mapM getMat?  -- per point: per variable values
  let flatOut := flat.map (fun vars => flatInputs vars)
  if vec ≤ 1 then
    let J := compPartials (derivs.headD []) 0 sizes
    pure (jObj [("flat", jMat flatOut), ("J", jArr jMat J)])
  else
    let dfun : Nat → List (List Rat) := fun k => derivs.getD k []
    let rec offs (idx : Nat) : List Nat → List (Nat × Nat)
      | [] => []
      | s :: rest => (idx, s) :: offs (idx + s) rest
    let J := (offs 0 sizes).map (fun (idx, sz) =>
      (List.range (vec * nOf)).map (fun r => (List.range (vec * sz)).map (fun c =>
        vecDense dfun vec nOf sz idx r c)))
    pure (jObj [("flat", jMat flatOut), ("J", jArr jMat J)])

def handle (j : Json) : Option Json := do
  let op ← fieldStr? j "op"
  match op with
  | "rs" => handleRs j
  | "weighted" => handleWeighted j
  | "linear" => handleLinear j
  | "rbf" => handleRbf j
  | "kriging" => handleKriging j
  | "comp" => handleComp j
  | _ => none

def main : IO Unit := runDriver handle
