import OMV.Model.Basic
import OMV.Model.C09
open Lean OMV OMV.C09

def getNorm? (j : Json) : Option Norm :=
  match j with
  | Json.str "nan" => some Norm.nan
  | Json.str "inf" => some Norm.inf
  | _ => (getRat? j).map Norm.fin

def jNorm : Norm → Json
  | .nan => jStr "nan"
  | .inf => jStr "inf"
  | .fin q => jRat q

def getClass? (s : String) (useApply : Bool) : Option SolverClass :=
  match s with
  | "newton" => some .newton
  | "broyden" => some .broyden
  | "nlbgs" => some (.nlbgs useApply)
  | "nlbj" => some .nlbj
  | "lnbgs" => some .lnbgs
  | "lnbj" => some .lnbj
  | _ => none

def outcomeStr : Outcome → String
  | .converged => "converged"
  | .nanInf => "nan_inf"
  | .stalled => "stalled"
  | .notConverged => "not_converged"

def handle (j : Json) : Option Json := do
  let op ← fieldStr? j "op"
  match op with
  | "solve" =>
    let cname ← fieldStr? j "cls"
    let ua ← fieldBool? j "use_apply_nonlinear"
    let c ← getClass? cname ua
    let o : Opts := {
      maxiter := (← fieldNat? j "maxiter"),
      atol := (← fieldRat? j "atol"),
      rtol := (← fieldRat? j "rtol"),
      stallLimit := (← fieldNat? j "stall_limit"),
      stallTol := (← fieldRat? j "stall_tol"),
      stallRel := (← fieldBool? j "stall_rel"),
      errOnNonConverge := (← fieldBool? j "err") }
    let cs ← fieldBool? j "cs"
    let hl ← fieldList? j "hist" >>= fun l => l.mapM getNorm?
    -- beyond the scripted history the norm is NaN; the harness checks `evals ≤ length`
    let hist : Nat → Norm := fun k => hl.getD k Norm.nan
    let r := solve c o cs hist
    pure (jObj [("iters", jNat r.iters), ("singles", jNat r.singles), ("evals", jNat r.evals),
                ("outcome", jStr (outcomeStr r.outcome)), ("raised", jBool r.raised),
                ("norm0", jNorm r.norm0), ("final", jNorm r.finalNorm),
                ("stalled_flag", jBool r.stalledFlag),
                ("meets", jBool (meetsTol o r.finalNorm r.norm0))])
  | _ => none

def main : IO Unit := runDriver handle
