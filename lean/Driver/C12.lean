/-
C12 driver: runs `OMV.C12.fdApprox` / `csApprox` (the definitions the theorems are about) on a
concrete polynomial system.

Requests
* `{"op":"table"}` → the coefficient table and default orders compiled into this binary.
* `{"op":"certify","dep":[[cols read by row r]...],"nrows":n,"ncols":m,
    "colors":[[[jcol,[nzrows]]...]...]}`
* `{"op":"approx", "method":"fd"|"cs", "total":bool, "restore_on_raise":bool,
    "n_in":N, "n_out":M, "ins":[..], "outs":[..], "res":[..],
    "comps":[{"transfer":[[inpos,outpos]..], "outpos":[..], "f":[Expr over input positions],
              "guard": null | [inpos, "thr"] | [inpos, "thr", "du"]}],
    "cs_step": "n/d",
    "jobs":[{"info":[["in"|"out",[positions]]], "form":.., "step":.., "step_calc":..,
             "minimum_step":.., "wrt_val":[..], "nrm": null|"n/d", "loc":k,
             "emit":[[jcol, null|[rows]]]}]}`

The system run (what `run_apply_nonlinear` / `run_solve_nonlinear` do to the three vectors, for
explicit polynomial components under a run-once solver):
* partials (`total=false`, one component): `residuals = -outputs`; `compute` (raises when the
  guard input exceeds its threshold); `residuals = f(inputs) - outputs` (outputs unchanged);
* totals / semi-totals (`total=true`): per component in order: transfer its connected inputs from
  the outputs vector, zero its residuals, `compute` (guard), write its outputs.
-/
import OMV.Model.Basic
import OMV.Model.Spec
import OMV.Model.C12
import OMV.Generated.C12FdTable
import Driver.SpecJson
open Lean OMV OMV.Spec OMV.SpecJson OMV.C12 OMV.C12.Generated

structure CompJ where
  transfer : List (Nat × Nat)
  outpos : List Nat
  f : List (Expr Rat)
  guard : Option (Nat × Rat)
  /-- the guard looks at the dual (imaginary) part instead of the real part -/
  guardDu : Bool

def getPair? (j : Json) : Option (Nat × Nat) := do
  match ← getList? j with
  | [a, b] => pure (← getNat? a, ← getNat? b)
  | _ => none

def getCompJ? (j : Json) : Option CompJ := do
  let tr ← (← fieldList? j "transfer").mapM getPair?
  let op ← fieldNats? j "outpos"
  let f ← (← fieldList? j "f").mapM getExpr?
  let g ← optField? j "guard" (fun g => do
    match ← getList? g with
    | [a, b] => pure ((← getNat? a, ← getRat? b), false)
    | [a, b, Json.str "du"] => pure ((← getNat? a, ← getRat? b), true)
    | _ => none)
  pure { transfer := tr, outpos := op, f := f, guard := g.map (·.1),
         guardDu := match g with | some (_, b) => b | none => false }

def setAt {α : Type} (v : Nat → α) (i : Nat) (x : α) : Nat → α := fun k => if k = i then x else v k

/-- index of `i` in `l` -/
def idxOf? (l : List Nat) (i : Nat) : Option Nat :=
  (l.zipIdx.find? (fun p => p.1 == i)).map (·.2)

/-- `base` with `vals[k]` written at position `pos[k]` -/
def scatter {α : Type} (pos : List Nat) (vals : List α) (dflt : α) (base : Nat → α) : Nat → α :=
  fun i =>
    match idxOf? pos i with
    | some k => vals.getD k dflt
    | none => base i

section Sys
variable {α : Type} [Add α] [Mul α] [Neg α] (c : Rat → α) (re du : α → Rat) (zero : α)

/-- `compute` raises when the guarded input exceeds its threshold (real part), or — `guardDu` —
when its imaginary part exceeds it (a component that fails under complex step) -/
def guardTrips (comp : CompJ) (ins : Nat → α) : Bool :=
  match comp.guard with
  | some (i, thr) => decide (thr < (if comp.guardDu then du (ins i) else re (ins i)))
  | none => false

/-- `ExplicitComponent._apply_nonlinear` of the single component -/
def runPartial (comp : CompJ) : Run α := fun st =>
  let res1 : Nat → α := fun i => if i ∈ comp.outpos then - st.outs i else st.res i
  if guardTrips re du comp st.ins then .error { st with res := res1 }
  else
    let vals := (comp.f.zip comp.outpos).map (fun ep => Expr.evalWith c st.ins ep.1 + (- st.outs ep.2))
    .ok { st with res := scatter comp.outpos vals zero st.res }

/-- one component of a run-once `_solve_nonlinear` -/
def stepComp (comp : CompJ) (st : St α) : Except (St α) (St α) :=
  let ins1 : Nat → α := comp.transfer.foldl (fun v p => setAt v p.1 (st.outs p.2)) st.ins
  let res1 : Nat → α := fun i => if i ∈ comp.outpos then zero else st.res i
  let st1 : St α := { ins := ins1, outs := st.outs, res := res1 }
  if guardTrips re du comp ins1 then .error st1
  else
    let vals := comp.f.map (Expr.evalWith c ins1)
    .ok { st1 with outs := scatter comp.outpos vals zero st1.outs }

def runTotal (comps : List CompJ) : Run α := fun st =>
  comps.foldlM (fun s comp => stepComp c re du zero comp s) st

end Sys

def getInfo? (j : Json) : Option (Vec × List Nat) := do
  match ← getList? j with
  | [v, l] =>
    let vs ← getStr? v
    let idx ← (← getList? l).mapM getNat?
    match vs with
    | "in" => pure (Vec.input, idx)
    | "out" => pure (Vec.output, idx)
    | _ => none
  | _ => none

def getEmit? (j : Json) : Option (Nat × Option (List Nat)) := do
  match ← getList? j with
  | [c, Json.null] => pure (← getNat? c, none)
  | [c, l] => pure (← getNat? c, some (← (← getList? l).mapM getNat?))
  | _ => none

/-- exact square root of a non-negative rational, when it is one -/
def sqrtRat? (q : Rat) : Option Rat :=
  if q < 0 then none else
    let n := q.num.toNat
    let d := q.den
    let rn := Nat.sqrt n
    let rd := Nat.sqrt d
    if rn * rn == n && rd * rd == d then some (mkRat rn rd) else none

inductive JobErr where
  | form | stepCalc | index | nrm

/-- `add_approximation` + `_get_approx_data` for one job: the step and the scaled data -/
def jobData (j : Json) : Option (Except JobErr (Rat × PointData Rat × Bool)) := do
  let form ← fieldStr? j "form"
  let step ← fieldRat? j "step"
  let scs ← fieldStr? j "step_calc"
  let mn ← fieldRat? j "minimum_step"
  let v ← fieldRats? j "wrt_val"
  let nrmJ ← optField? j "nrm" getRat?
  let loc ← fieldNat? j "loc"
  match rowFor fdTable defaultOrderTable form with
  | none => pure (.error .form)
  | some row =>
    match StepCalc.parse scs with
    | none => pure (.error .stepCalc)
    | some sc =>
      let ss := v.foldl (fun a x => a + x * x) 0
      let (nrm, exact) : Rat × Bool :=
        match nrmJ with
        | some n => (n, decide (0 ≤ n) && n * n == ss)
        | none =>
          match sqrtRat? ss with
          | some r => (r, true)
          | none => (0, false)
      if sc == StepCalc.relLegacy && nrmJ.isNone && !exact then pure (.error .nrm) else
      match stepAt sc step mn v nrm loc with
      | none => pure (.error .index)
      | some h => pure (.ok (h, pointData (sc == StepCalc.relElement) row h,
                             exact || sc != StepCalc.relLegacy))

def jCols (nrows : Nat) (cols : List (Nat × (Nat → Rat))) : Json :=
  jArr (fun (p : Nat × (Nat → Rat)) =>
    Json.arr #[jNat p.1, jRats ((List.range nrows).map p.2)]) cols

def jErr (s : String) : Json := jObj [("ok", jBool false), ("err", jStr s)]

def handle (j : Json) : Option Json := do
  let op ← fieldStr? j "op"
  match op with
  | "table" =>
    pure (jObj [
      ("table", jArr (fun (e : (String × Nat) × FdRow Rat) =>
        jObj [("form", jStr e.1.1), ("order", jNat e.1.2), ("deltas", jRats e.2.deltas),
              ("coeffs", jRats e.2.coeffs), ("current", jRat e.2.current),
              ("order_ok", jBool (orderOK e.1.2 e.2))]) fdTable),
      ("default_order", jArr (fun (d : String × Nat) => Json.arr #[jStr d.1, jNat d.2])
        defaultOrderTable)])
  | "certify" =>
    let dep ← (← fieldList? j "dep").mapM (fun l => do (← getList? l).mapM getNat?)
    let nrows ← fieldNat? j "nrows"
    let colors ← (← fieldList? j "colors").mapM (fun col => do
      (← getList? col).mapM (fun e => do
        match ← getList? e with
        | [c, l] => pure (← getNat? c, ← (← getList? l).mapM getNat?)
        | _ => none))
    let ncols ← fieldNat? j "ncols"
    let depf : Nat → List Nat := fun r => dep.getD r []
    pure (jObj [("ok", jBool true),
                ("certified", jArr (fun col => jBool (certifyColor depf nrows col)) colors),
                ("covered", jBool (certifyCover depf nrows ncols colors))])
  | "approx" =>
    let method ← fieldStr? j "method"
    let total ← fieldBool? j "total"
    let ror ← fieldBool? j "restore_on_raise"
    let nIn ← fieldNat? j "n_in"
    let nOut ← fieldNat? j "n_out"
    let ins ← fieldRats? j "ins"
    let outs ← fieldRats? j "outs"
    let res ← fieldRats? j "res"
    let comps ← (← fieldList? j "comps").mapM getCompJ?
    let jobsJ ← fieldList? j "jobs"
    let st0 : St Rat := { ins := stateOfList ins, outs := stateOfList outs, res := stateOfList res }
    let cfg : Cfg := { restoreOnRaise := ror }
    let fin (r : St Rat × Option (List (Nat × (Nat → Rat)))) (steps : List Rat) (exact : Bool) :
        Json :=
      jObj [("ok", jBool true), ("raised", jBool r.2.isNone),
            ("cols", match r.2 with | some cs => jCols nOut cs | none => Json.null),
            ("ins", jRats (listOfState nIn r.1.ins)), ("outs", jRats (listOfState nOut r.1.outs)),
            ("res", jRats (listOfState nOut r.1.res)), ("steps", jRats steps),
            ("nrm_exact", jBool exact)]
    match method with
    | "fd" =>
      let parsed ← jobsJ.mapM (fun jj => do
        let info ← (← fieldList? jj "info").mapM getInfo?
        let emit ← (← fieldList? jj "emit").mapM getEmit?
        let d ← jobData jj
        pure (info, emit, d))
      match parsed.find? (fun p => match p.2.2 with | .error _ => true | .ok _ => false) with
      | some (_, _, .error e) =>
        pure (jErr (match e with
          | .form => "form" | .stepCalc => "step_calc" | .index => "index" | .nrm => "nrm"))
      | _ =>
        let jobs : List (Job Rat) := parsed.filterMap (fun p =>
          match p.2.2 with
          | .ok (_, pd, _) => some { info := p.1, pd := pd, emit := p.2.1 }
          | .error _ => none)
        let steps := parsed.filterMap (fun p =>
          match p.2.2 with | .ok (h, _, _) => some h | .error _ => none)
        let exact := parsed.all (fun p => match p.2.2 with | .ok (_, _, b) => b | .error _ => true)
        let run : Run Rat :=
          if total then runTotal id id (fun _ => 0) 0 comps
          else match comps with
            | [comp] => runPartial id id (fun _ => 0) 0 comp
            | _ => fun st => .ok st
        pure (fin (fdApprox cfg run total jobs st0) steps exact)
    | "cs" =>
      let h ← fieldRat? j "cs_step"
      let jobs ← jobsJ.mapM (fun jj => do
        let info ← (← fieldList? jj "info").mapM getInfo?
        let emit ← (← fieldList? jj "emit").mapM getEmit?
        pure ({ info := info, pd := { deltas := [], coeffs := [], cur := 0 }, emit := emit } :
          Job Rat))
      let dzero : Dual Rat := ⟨0, 0⟩
      let run : Run (Dual Rat) :=
        if total then runTotal Dual.const (fun d => d.re) (fun d => d.du) dzero comps
        else match comps with
          | [comp] => runPartial Dual.const (fun d => d.re) (fun d => d.du) dzero comp
          | _ => fun st => .ok st
      pure (fin (csApprox cfg run total h jobs st0) [h] true)
    | _ => none
  | _ => none

def main : IO Unit := runDriver handle
