import OMV.Model.Basic
import OMV.Model.Spec
import OMV.Model.Lin
import Driver.SpecJson
open Lean OMV OMV.Spec OMV.SpecJson OMV.Lin

def jMat (M : Mat) : Json := jArr jRats (matToLists M)

/-- residual system after substituting the transfer expressions for the input variables -/
def substResid (nOutParam : Nat) (ins : List (InputDef Rat)) (R : List (Expr Rat)) : List (Expr Rat) :=
  R.map (Expr.subst (inputSubst nOutParam ins))

/-- `gsSweep` with the iterate materialised after every visit (the closure chain of the definition
would be re-evaluated exponentially often); same steps, same order -/
def gsSweepMat (n : Nat) (a : Nat → Nat → Rat) (b : Nat → Rat) (order : List Nat) : Nat → Rat :=
  let final : Array Rat := order.foldl (fun (arr : Array Rat) i =>
    ((List.range n).map (gsStep n a b (fun k => arr.getD k 0) i)).toArray) (Array.replicate n 0)
  fun k => final.getD k 0

def handle (j : Json) : Option Json := do
  let op ← fieldStr? j "op"
  match op with
  | "totals" =>
    let n ← fieldNat? j "n"
    let L ← fieldNat? j "L"
    let ins ← (← fieldList? j "ins").mapM getInputDef?
    let R0 ← (← fieldList? j "resid").mapM getExpr?
    let envl ← fieldRats? j "env"
    let ofs ← fieldNats? j "of"
    let wrt ← fieldNats? j "wrt"
    let R := substResid (n + L) ins R0
    let env : Nat → Rat := fun i => envl.getD i 0
    let resid := R.map (Expr.eval env)
    let residZero := resid.all (· == 0) && R.length == n
    let A := mkMat n n (fun k jj => jacEntry R env k jj)
    let B := mkMat n L (fun k l => jacEntry R env k (n + l))
    let negB := mkMat n L (fun k l => - mget B k l)
    let nof := ofs.length
    let E := mkMat n nof (fun k i => if ofs.getD i n == k then 1 else 0)
    match solveCertified n L A negB, solveCertified n nof (transpose n n A) E with
    | some X, some Y =>
      let Jf := mkMat nof wrt.length (fun i l => mget X (ofs.getD i 0) (wrt.getD l 0))
      let Jr := mkMat nof wrt.length (fun i l =>
        - (List.range n).foldl (fun acc k => acc + mget Y k i * mget B k (wrt.getD l 0)) 0)
      -- LinearRunOnce at scalar granularity (C01_runonce_triangular): one pass over the unknowns in
      -- execution order on A (fwd) / in reverse order on Aᵀ (rev), from the zero vector
      let order := List.range n
      let a : Nat → Nat → Rat := fun i jj => mget A i jj
      let at' : Nat → Nat → Rat := fun i jj => mget A jj i
      let tri := order.all (fun p => order.all (fun q => !(p < q) || a p q == 0))
      let diagOk := order.all (fun i => a i i != 0)
      let fwdEq := (List.range L).all (fun l =>
        let x := gsSweepMat n a (fun k => mget negB k l) order
        order.all (fun k => x k == mget X k l))
      let revEq := (List.range nof).all (fun i =>
        let y := gsSweepMat n at' (fun k => mget E k i) order.reverse
        order.all (fun k => y k == mget Y k i))
      pure (jObj [("ok", jBool true), ("resid_zero", jBool residZero), ("J", jMat Jf),
                  ("fwd_eq_rev", jBool (matEq nof wrt.length Jf Jr)),
                  ("tri", jBool (tri && diagOk)), ("runonce_fwd", jBool fwdEq),
                  ("runonce_rev", jBool revEq)])
    | _, _ => pure (jObj [("ok", jBool false), ("err", jStr "singular"),
                          ("resid_zero", jBool residZero)])
  | _ => none

def main : IO Unit := runDriver handle
