import OMV.Model.Basic
import OMV.Model.Spec
import OMV.Model.Lin
import Driver.SpecJson
open Lean OMV OMV.Spec OMV.SpecJson OMV.Lin

def jMat (M : Mat) : Json := jArr jRats (matToLists M)

/-- residual system after substituting the transfer expressions for the input variables -/
def substResid (nOutParam : Nat) (ins : List (InputDef Rat)) (R : List (Expr Rat)) : List (Expr Rat) :=
  R.map (Expr.subst (inputSubst nOutParam ins))

def handle (j : Json) : Option Json := do
  let op ← fieldStr? j "op"
  match op with
  | "totals" =>
    let n ← fieldNat? j "n"
    let L ← fieldNat? j "L"
    let ins ← (← fieldList? j "ins").mapM getInputDef?
    let R0 ← (← fieldList? j "resid").mapM getExpr?
    let envl ← fieldRats? j "env"
    let ofs ← fieldNats? j "of"
    let wrt ← fieldNats? j "wrt"
    let R := substResid (n + L) ins R0
    let env : Nat → Rat := fun i => envl.getD i 0
    let resid := R.map (Expr.eval env)
    let residZero := resid.all (· == 0) && R.length == n
    let A := mkMat n n (fun k jj => jacEntry R env k jj)
    let B := mkMat n L (fun k l => jacEntry R env k (n + l))
    let negB := mkMat n L (fun k l => - mget B k l)
    let nof := ofs.length
    let E := mkMat n nof (fun k i => if ofs.getD i n == k then 1 else 0)
    match solveCertified n L A negB, solveCertified n nof (transpose n n A) E with
    | some X, some Y =>
      let Jf := mkMat nof wrt.length (fun i l => mget X (ofs.getD i 0) (wrt.getD l 0))
      let Jr := mkMat nof wrt.length (fun i l =>
        - (List.range n).foldl (fun acc k => acc + mget Y k i * mget B k (wrt.getD l 0)) 0)
      pure (jObj [("ok", jBool true), ("resid_zero", jBool residZero), ("J", jMat Jf),
                  ("fwd_eq_rev", jBool (matEq nof wrt.length Jf Jr))])
    | _, _ => pure (jObj [("ok", jBool false), ("err", jStr "singular"),
                          ("resid_zero", jBool residZero)])
  | _ => none

def main : IO Unit := runDriver handle
