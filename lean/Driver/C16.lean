import OMV.Model.Basic
import OMV.Model.C16
open Lean OMV OMV.C15 OMV.C16

def akimaEps : Rat := mkRat 1 1000000000000000000000000000000

def gridFn (l : List Rat) : Nat → Rat := fun i => l.getD i 0

def flatIdx (shape is : List Nat) : Nat :=
  (shape.zip is).foldl (fun acc (p : Nat × Nat) => acc * p.1 + p.2) 0

def tblOf (shape : List Nat) (vals : Array Rat) : List Nat → Rat := fun is =>
  vals.getD (flatIdx shape is) 0

/-- All multi-indices of a shape, row-major. -/
def allIdx : List Nat → List (List Nat)
  | [] => [[]]
  | n :: rest => (List.range n).flatMap (fun i => (allIdx rest).map (fun js => i :: js))

def method? (m : String) : Option Method :=
  match m with
  | "slinear" => some .slinear
  | "lagrange2" => some .lagrange2
  | "lagrange3" => some .lagrange3
  | "akima" => some .akima
  | "cubic" => some .cubic
  | _ => none

def codeDx? (m : Method) : Option (Kernel Rat) := codeDx m

def handle (j : Json) : Option Json := do
  let op ← fieldStr? j "op"
  match op with
  | "grad" =>
    let ms ← fieldStr? j "method"
    let m ← method? ms
    let grids ← fieldList? j "grids" >>= fun l => l.mapM (fun r => getList? r >>= fun q => q.mapM getRat?)
    let vals ← fieldRats? j "values"
    let pt ← fieldRats? j "pt"
    let wantDv ← fieldBool? j "dv"
    let fix ← fieldBool? j "akimaFix"
    let ds : List (Nat × (Nat → Rat)) := grids.map (fun l => (l.length, gridFn l))
    let shape := grids.map List.length
    let tbl := tblOf shape vals.toArray
    let kern : Kernel Rat := m.kernel fix akimaEps
    let idxs := bracketAll ds pt
    let v := evalND kern ds tbl pt
    let dx := (List.range ds.length).map (fun k => dualDx m fix akimaEps ds tbl pt k)
    let dxc : Json := match codeDx? m with
      | some kdx => jRats (gradIdx kern kdx ds idxs tbl pt)
      | none => Json.null
    let w : Json := Json.arr ((ds.zip (idxs.zip pt)).map (fun (d, i, x) =>
      jRats (trainWeights kern d.1 d.2 i x))).toArray
    let dv : Json := if wantDv then jRats ((allIdx shape).map (fun e => dualDv m fix akimaEps ds tbl pt e))
      else Json.null
    pure (jObj [("v", jRat v), ("dx", jRats dx), ("dxc", dxc), ("w", w), ("dv", dv),
                ("ws", jRat (wsum kern ds idxs tbl pt))])
  | _ => none

def main : IO Unit := runDriver handle
