import OMV.Model.Basic
import OMV.Model.C13
open Lean OMV OMV.C13

/-- matrix as list of rows -/
def getMat? (j : Json) : Option (List (List Rat)) :=
  getList? j >>= fun rows => rows.mapM (fun r => getList? r >>= fun l => l.mapM getRat?)

def matFn (m : List (List Rat)) : Nat → Nat → Rat := fun r c => (m.getD r []).getD c 0

def jMat (m : List (List Rat)) : Json := jArr jRats m

def getPattern? (j : Json) : Option Pattern := do
  let fmt ← fieldStr? j "fmt"
  match fmt with
  | "dense" => pure .dense
  | "diag" => pure .diag
  | "coo" =>
    let rows ← fieldNats? j "rows"
    let cols ← fieldNats? j "cols"
    if rows.length = cols.length then pure (.coo rows cols) else none
  | "csc" =>
    let ip ← fieldNats? j "indptr"
    let ix ← fieldNats? j "indices"
    pure (.csc ip ix)
  | "csr" =>
    let ip ← fieldNats? j "indptr"
    let ix ← fieldNats? j "indices"
    pure (.csr ip ix)
  | _ => none

def getPlacement? (s : String) : Option Placement :=
  match s with
  | "always" => some .always
  | "insideInit" => some .insideInit
  | "never" => some .never
  | _ => none

def jTol (t : Option (TolViolation Rat)) : Json :=
  match t with
  | none => Json.null
  | some t => jObj [("tv", jRat t.maxViol), ("x", jRat t.xAtMax), ("ref", jRat t.refAtMax),
      ("above", jBool t.above), ("abs", jRat t.absAtMax),
      ("rel", match t.relAtMax with | some r => jRat r | none => jStr "inf")]

def jReport (r : Report Rat) : Json :=
  match r with
  | .clean => jObj [("kind", jStr "clean")]
  | .keyError => jObj [("kind", jStr "keyerror")]
  | .flagged nz thr => jObj [("kind", jStr "flagged"),
      ("nz", jArr (fun (rc : Nat × Nat) => jNats [rc.1, rc.2]) nz), ("thr", jRat thr)]

def handle (j : Json) : Option Json := do
  let op ← fieldStr? j "op"
  match op with
  | "subjac" =>
    let p ← getPattern? j
    let pl ← fieldStr? j "placement" >>= getPlacement?
    let recThr ← fieldBool? j "recthr"
    let nrows ← fieldNat? j "nrows"
    let ncols ← fieldNat? j "ncols"
    let thr ← fieldRat? j "thr"
    let atol ← fieldRat? j "atol"
    let rtol ← fieldRat? j "rtol"
    let fds ← fieldList? j "fds" >>= fun l => l.mapM getMat?
    let init ← (optField? j "init" (fun v => getList? v >>= fun l => l.mapM getRat?))
    let jfwd ← optField? j "jfwd" getMat?
    let jrev ← optField? j "jrev" getMat?
    let mfree ← fieldBool? j "matrix_free"
    let totals ← fieldBool? j "totals"
    let directional ← fieldBool? j "directional"
    let aliased ← fieldBool? j "alias"
    let persist ← fieldBool? j "persist"
    -- sparsity audit and stored values, one fresh checking jacobian per step
    let rep :=
      if persist then report (auditStepsPersist pl recThr thr p nrows ncols (fds.map matFn))
      else combineReports (fds.map (fun m => report (auditAll pl recThr thr p nrows ncols (matFn m))))
    let pos := p.positions nrows ncols
    let stored : List (List (List Rat)) := reportedSteps aliased (fds.map (fun m =>
      let s := storeAll (initStore pos (init.getD [])) ncols (matFn m)
      (List.range nrows).map (fun r => (List.range ncols).map (fun c => todense s r c))))
    -- error kernel on what is reported
    let jf : Option (List Rat) := jfwd.map (fun m =>
      if directional then rowSums m else m.flatten)
    let jr : Option (List Rat) := jrev.map (fun m => m.flatten)
    let de := computeDerivErrors jf jr (stored.map List.flatten) mfree totals directional atol rtol
    pure (jObj [
      ("report", jReport rep),
      ("jfd", jArr jMat stored),
      ("jfwd", match jf with | some l => jRats l | none => Json.null),
      ("errs", jArr (fun (e : ErrData Rat) =>
        jObj [("fwd", jTol e.forward), ("rev", jTol e.reverse), ("fr", jTol e.fwdRev)]) de.steps),
      ("mag", jRats [de.magFwd, de.magRev, de.magFd]),
      ("above", jBool de.aboveTol)])
  | "tol" =>
    let x ← fieldRats? j "x"
    let ref ← fieldRats? j "ref"
    let atol ← fieldRat? j "atol"
    let rtol ← fieldRat? j "rtol"
    pure (jTol (some (getTolViolation x ref atol rtol)))
  | _ => none

def main : IO Unit := runDriver handle
