import OMV.Model.Basic
import OMV.Model.Spec
import OMV.Model.C32
import Driver.SpecJson
open Lean OMV OMV.Spec OMV.SpecJson OMV.C32

def getEdge? (j : Json) : Option Edge := do
  match ← getList? j with
  | [a, b] => do pure (← getNat? a, ← getNat? b)
  | _ => none

def jEdge (e : Edge) : Json := jNats [e.1, e.2]

/-- executable check of `Solved` for one component on a state -/
def solvedB (u : Nat → Rat) (c : Comp Rat) : Bool :=
  let outs := c.f (inputsOf u c)
  (List.range c.len).all (fun k => u (c.start + k) == outs.getD k 0)

def handle (j : Json) : Option Json := do
  let op ← fieldStr? j "op"
  match op with
  | "order" =>
    let nodes ← fieldNats? j "nodes"
    let edges ← (← fieldList? j "edges").mapM getEdge?
    let sccs ← (← fieldList? j "sccs").mapM (fun l => getList? l >>= fun x => x.mapM getNat?)
    let ordl ← fieldNats? j "orders"      -- orders[i] = declared position of node i
    let declared ← fieldNats? j "declared"
    let orders : Nat → Nat := fun x => ordl.getD x 0
    pure (jObj [("valid", jBool (isTopoSccList nodes edges sccs)),
                ("out_of_order", jArr jEdge (outOfOrder edges sccs orders)),
                ("auto", jNats (autoOrder sccs orders)),
                ("final", jNats (finalOrder declared edges sccs orders))])
  | "sweep" =>
    let n ← fieldNat? j "n"
    let u0 ← fieldRats? j "u0"
    let comps ← (← fieldList? j "comps").mapM getComp?
    let u := sweep (stateOfList u0) comps
    let ul := listOfState n u
    let u' := stateOfList ul
    pure (jObj [("u", jRats ul), ("solved", jArr jBool (comps.map (solvedB u')))])
  | _ => none

def main : IO Unit := runDriver handle
