/-
Driver for C30: runs the model of the complex-step-safe helpers and the smooth helpers at `K = Rat`.
Rational arithmetic is exact; the real-valued primitives (`sqrt`, `arctan2`, `tanh`) are the IEEE
double functions applied to the nearest double of their rational argument, their (finite) double
result taken as an exact rational; `floor` is the exact rational floor.
-/
import OMV.Model.Basic
import OMV.Model.C30
open Lean OMV OMV.C30

/-! ### numbers -/

def pow2Exp? (d : Nat) : Option Nat :=
  let k := d.log2
  if 2 ^ k == d then some k else none

/-- Nearest double (exact for values of doubles; otherwise within a couple of ulp). -/
def ratToFloat (q : Rat) : Float :=
  match pow2Exp? q.den with
  | some k => (Float.ofInt q.num).scaleB (-(k : Int))
  | none =>
    let e := max q.num.natAbs.log2 q.den.log2
    let sh := if e > 900 then e - 900 else 0
    Float.ofInt (q.num / (2 ^ sh : Nat)) / Float.ofNat (q.den / 2 ^ sh)

/-- Exact rational value of a finite double (via its bit pattern). -/
def floatToRat? (f : Float) : Option Rat :=
  let b : Nat := f.toBits.toNat
  let neg : Bool := b / 2 ^ 63 == 1
  let ex : Nat := (b / 2 ^ 52) % 2048
  let man : Nat := b % 2 ^ 52
  if ex == 2047 then none
  else
    let m : Nat := if ex == 0 then man else man + 2 ^ 52
    let e : Int := if ex == 0 then -1074 else (ex : Int) - 1075
    let mi : Int := if neg then -(m : Int) else (m : Int)
    if e ≥ 0 then some ((mi * (2 ^ e.toNat : Nat) : Int) : Rat)
    else some (mkRat mi (2 ^ (-e).toNat))

def viaFloat (f : Float → Float) (q : Rat) : Rat := (floatToRat? (f (ratToFloat q))).getD 0

def sqrtQ : Rat → Rat := viaFloat Float.sqrt
def tanhQ : Rat → Rat := viaFloat Float.tanh
def atan2Q (y x : Rat) : Rat := (floatToRat? (Float.atan2 (ratToFloat y) (ratToFloat x))).getD 0
def floorQ (q : Rat) : Rat := (q.floor : Rat)

/-! ### JSON -/

def getDual? (j : Json) : Option (Dual Rat) := do
  match ← getList? j with
  | [r, d] => pure ⟨← getRat? r, ← getRat? d⟩
  | _ => none

def getDuals? (j : Json) : Option (List (Dual Rat)) := getList? j >>= fun l => l.mapM getDual?

def fieldDual? (j : Json) (k : String) : Option (Dual Rat) := field? j k >>= getDual?
def fieldDuals? (j : Json) (k : String) : Option (List (Dual Rat)) := field? j k >>= getDuals?

def jDual (z : Dual Rat) : Json := Json.arr #[jRat z.re, jRat z.du]
def jDuals (zs : List (Dual Rat)) : Json := jArr jDual zs

def zip2? {α β γ : Type} (f : α → β → γ) (xs : List α) (ys : List β) : Option (List γ) :=
  if xs.length = ys.length then some (List.zipWith f xs ys) else none

def zip4? {α : Type} (f : α → α → α → α → α) (xs zs as bs : List α) : Option (List α) :=
  if xs.length = zs.length ∧ xs.length = as.length ∧ xs.length = bs.length then
    some ((List.range xs.length).filterMap fun i => do
      pure (f (← xs[i]?) (← zs[i]?) (← as[i]?) (← bs[i]?)))
  else none

def handle (j : Json) : Option Json := do
  let op ← fieldStr? j "op"
  match op with
  | "abs_scalar" =>
    let z ← fieldDual? j "z"
    pure (jObj [("v", jDual (absScalar z))])
  | "abs_array" =>
    let zs ← fieldDuals? j "z"
    pure (jObj [("v", jDuals (absArray zs)), ("masked", jDuals (absArrayMasked zs)),
                ("elem", jDuals (zs.map absElemCs))])
  | "norm" =>
    let ndim ← fieldNat? j "ndim"
    let rowsJ ← fieldList? j "rows"
    let rows ← rowsJ.mapM getDuals?
    let axis ← optField? j "axis" getInt?
    match csNormAxis sqrtQ ndim rows axis with
    | none => pure (jObj [("ok", jBool false), ("err", jStr "axis")])
    | some v =>
      -- the exact rational core `np.sum(x**2, axis)` of the same slices
      let slices : List (List (Dual Rat)) :=
        match axis with
        | none => [rows.flatten]
        | some ax =>
          if ndim ≤ 1 then [rows.flatten]
          else if normAxis ndim ax == some 0 then columns rows else rows
      pure (jObj [("ok", jBool true), ("v", jDuals v), ("ssq", jDuals (slices.map sumSq))])
  | "arctan2" =>
    let y ← fieldDual? j "y"
    let x ← fieldDual? j "x"
    let c ← fieldBool? j "complex"
    match csArctan2 atan2Q c y x with
    | none => pure (jObj [("ok", jBool false), ("err", jStr "origin")])
    | some v => pure (jObj [("ok", jBool true), ("v", jDual v)])
  | "act_tanh" =>
    let xs ← fieldDuals? j "x"
    let mu ← fieldRat? j "mu"
    let zs ← fieldDuals? j "z"
    let as ← fieldDuals? j "a"
    let bs ← fieldDuals? j "b"
    let v ← zip4? (fun x z a b => actTanh tanhQ x mu z a b) xs zs as bs
    pure (jObj [("v", jDuals v)])
  | "smooth_max" =>
    let xs ← fieldDuals? j "x"
    let ys ← fieldDuals? j "y"
    let mu ← fieldRat? j "mu"
    let v ← zip2? (fun x y => smoothMax tanhQ x y mu) xs ys
    pure (jObj [("v", jDuals v)])
  | "smooth_min" =>
    let xs ← fieldDuals? j "x"
    let ys ← fieldDuals? j "y"
    let mu ← fieldRat? j "mu"
    let v ← zip2? (fun x y => smoothMin tanhQ x y mu) xs ys
    pure (jObj [("v", jDuals v)])
  | "smooth_abs" =>
    let xs ← fieldDuals? j "x"
    let mu ← fieldRat? j "mu"
    pure (jObj [("v", jDuals (xs.map fun x => smoothAbs tanhQ x mu))])
  | "smooth_round" =>
    let xs ← fieldDuals? j "x"
    let mu ← fieldRat? j "mu"
    pure (jObj [("v", jDuals (xs.map fun x => smoothRound tanhQ floorQ x mu))])
  | _ => none

def main : IO Unit := runDriver handle
