import OMV.Model.Basic
import OMV.Model.C05
open Lean OMV OMV.C05

/-
Wire format (harness/c05.py):
  ix   := {"i": n} | {"s": [start|null, stop|null, step|null]} | {"a": [shape...], "d": [data...]} | "e"
  spec := {"one": ix} | {"tup": [ix, ...]}
Requests:
  {"op":"idx","shape":[..],"flat":bool,"ts":bool,"spec":spec}
     -> {"np": res, "om": {"create": "ok"|err, "pos": res, "shape": res}}
        res := {"ok":[..]} | {"err": "index"|"value"|"runtime"|"huge"};  np res has "pos" and "shape"
  {"op":"a2s","a":[..]} -> {"r": null | [start, stop, step|null]}
  {"op":"a2s_batch","prefix":[..],"n":k,"lo":l,"hi":h} / {"op":"a2s_list","arrays":[[..],..]}
     -> {"r": [[position, [start, stop, step|null]], ...]}   (only arrays that convert)
-/

def optInt? (j : Json) : Option (Option Int) :=
  match j with
  | Json.null => some none
  | _ => (getInt? j).map some

def getIx? (j : Json) : Option Ix :=
  match j with
  | Json.str "e" => some .ellipsis
  | _ =>
    match field? j "i" with
    | some v => (getInt? v).map Ix.int
    | none =>
      match fieldList? j "s" with
      | some [a, b, c] => do
        let a ← optInt? a
        let b ← optInt? b
        let c ← optInt? c
        pure (.slice a b c)
      | some _ => none
      | none => do
        let sh ← fieldNats? j "a"
        let d ← fieldInts? j "d"
        if d.length = prod sh ∧ sh.length ≥ 1 then pure (.arr sh d) else none

def getSpec? (j : Json) : Option Spec :=
  match field? j "one" with
  | some v => (getIx? v).map Spec.one
  | none => do
    let l ← fieldList? j "tup"
    let xs ← l.mapM getIx?
    pure (.tup xs)

def errStr : Err → String
  | .index => "index"
  | .value => "value"
  | .runtime => "runtime"
  | .huge => "huge"

def jRes {α} (f : α → Json) : R α → Json
  | .ok v => jObj [("ok", f v)]
  | .error e => jObj [("err", jStr (errStr e))]

def completions (vals : List Int) : Nat → List (List Int)
  | 0 => [[]]
  | m + 1 => vals.flatMap (fun v => (completions vals m).map (v :: ·))

def jSlice : Int × Int × Option Int → Json
  | (s, e, st) => Json.arr #[jInt s, jInt e, match st with | none => Json.null | some t => jInt t]

def a2sMany (arrs : List (List Int)) : Json :=
  let rec go (k : Nat) (l : List (List Int)) (acc : Array Json) : Array Json :=
    match l with
    | [] => acc
    | a :: rest =>
      match array2slice a with
      | none => go (k + 1) rest acc
      | some r => go (k + 1) rest (acc.push (Json.arr #[jNat k, jSlice r]))
  Json.arr (go 0 arrs #[])

def handle (j : Json) : Option Json := do
  let op ← fieldStr? j "op"
  match op with
  | "idx" =>
    let shape ← fieldNats? j "shape"
    let flat ← fieldBool? j "flat"
    let ts ← fieldBool? j "ts"
    let spec ← field? j "spec" >>= getSpec?
    if shape.length = 0 then none else
    let src := if flat then [prod shape] else shape
    let np := npIndex src spec
    let npJ := match np with
      | .ok (p, s) => jObj [("pos", jNats p), ("shape", jNats s)]
      | .error e => jObj [("err", jStr (errStr e))]
    let omJ := match omIndexer spec shape flat ts with
      | .error e => jObj [("create", jStr (errStr e))]
      | .ok o => jObj [("create", jStr "ok"), ("pos", jRes jInts o.positions),
                       ("shape", jRes jNats o.rshape)]
    pure (jObj [("np", npJ), ("om", omJ)])
  | "a2s" =>
    let a ← fieldInts? j "a"
    match array2slice a with
    | none => pure (jObj [("r", Json.null)])
    | some r => pure (jObj [("r", jSlice r)])
  | "a2s_batch" =>
    -- all arrays `prefix ++ t`, `t` over `[lo..hi]^(n - |prefix|)` in itertools.product order;
    -- answer: the (position, slice) pairs for which array2slice returns a slice
    let pre ← fieldInts? j "prefix"
    let n ← fieldNat? j "n"
    let lo ← fieldInt? j "lo"
    let hi ← fieldInt? j "hi"
    let vals := (List.range (hi - lo + 1).toNat).map (fun (k : Nat) => lo + (k : Int))
    let arrs := (completions vals (n - pre.length)).map (pre ++ ·)
    pure (jObj [("r", a2sMany arrs)])
  | "a2s_list" =>
    let l ← fieldList? j "arrays"
    let arrs ← l.mapM (fun a => getList? a >>= fun x => x.mapM getInt?)
    pure (jObj [("r", a2sMany arrs)])
  | _ => none

def main : IO Unit := runDriver handle
