import OMV.Model.Basic
import OMV.Model.C26
open Lean OMV OMV.C26

/-- flat vector from a JSON list (`0` outside) -/
def vecOf {α : Type} [OfNat α 0] (l : List α) : Nat → α :=
  let a := l.toArray
  fun i => a.getD i 0

def denseRows {α : Type} [Add α] [OfNat α 0] (J : Coo α) (nr nc : Nat) : List (List α) :=
  (List.range nr).map (fun r => (List.range nc).map (fun c => J.dense r c))

def jMat (m : List (List Rat)) : Json := jArr jRats m

def fieldRatss? (j : Json) (k : String) : Option (List (List Rat)) :=
  fieldList? j k >>= fun l => l.mapM (fun r => getList? r >>= fun e => e.mapM getRat?)

/-- exact dyadic value of a finite `Float` (IEEE-754 binary64 decoded from its bits) -/
def floatToRat (f : Float) : Option Rat :=
  let b : Nat := f.toBits.toNat
  let sign : Nat := b / 2 ^ 63
  let ex : Nat := (b / 2 ^ 52) % 2048
  let man : Nat := b % 2 ^ 52
  if ex == 2047 then none else
    let m : Nat := if ex == 0 then man else man + 2 ^ 52
    let e : Int := if ex == 0 then -1074 else (ex : Int) - 1075
    let q : Rat := if e ≥ 0 then (m : Rat) * ((2 : Rat) ^ e.toNat)
                   else (m : Rat) / ((2 : Rat) ^ (-e).toNat)
    some (if sign == 1 then -q else q)

def ratToFloat (q : Rat) : Float := Float.ofInt q.num / Float.ofNat q.den

def jFloat (f : Float) : Json :=
  match floatToRat f with
  | some q => jRat q
  | none => jStr "nan"

def handle (j : Json) : Option Json := do
  let op ← fieldStr? j "op"
  match op with
  | "addsub" =>
    let n ← fieldNat? j "n"
    let m ← fieldNat? j "m"
    let acc ← fieldBool? j "acc"
    let ids ← fieldNats? j "ids"
    let sf ← fieldRats? j "sf"
    let xs ← fieldRatss? j "x"
    let xv := (xs.map vecOf).toArray
    let x : Nat → Nat → Rat := fun w => xv.getD w (fun _ => 0)
    let terms := ids.zip sf
    pure (jObj [("out", jRats ((List.range n).map (addsubOut terms x))),
                ("J", jArr jMat ((List.range m).map
                  (fun w => denseRows (addsubJac acc terms n w) n n)))])
  | "mux" =>
    let v ← fieldNat? j "v"
    let post ← fieldNat? j "post"
    let insize ← fieldNat? j "insize"
    let xs ← fieldRatss? j "x"
    let xv := (xs.map vecOf).toArray
    let x : Nat → Nat → Rat := fun w => xv.getD w (fun _ => 0)
    pure (jObj [("out", jRats ((List.range (v * insize)).map (muxOut v post x))),
                ("J", jArr jMat ((List.range v).map
                  (fun i => denseRows (muxJac (α := Rat) v post insize i) (v * insize) insize)))])
  | "dot" =>
    let v ← fieldNat? j "v"
    let len ← fieldNat? j "len"
    let m ← fieldNat? j "m"
    let aId ← fieldNat? j "aid"
    let bId ← fieldNat? j "bid"
    let acc ← fieldBool? j "acc"
    let xs ← fieldRatss? j "x"
    let xv := (xs.map vecOf).toArray
    let x : Nat → Nat → Rat := fun w => xv.getD w (fun _ => 0)
    pure (jObj [("out", jRats ((List.range v).map (dotOut len (x aId) (x bId)))),
                ("J", jArr jMat ((List.range m).map
                  (fun w => denseRows (dotJac acc v len aId bId x w) v (v * len))))])
  | "cross" =>
    let v ← fieldNat? j "v"
    let m ← fieldNat? j "m"
    let aId ← fieldNat? j "aid"
    let bId ← fieldNat? j "bid"
    let acc ← fieldBool? j "acc"
    let xs ← fieldRatss? j "x"
    let xv := (xs.map vecOf).toArray
    let x : Nat → Nat → Rat := fun w => xv.getD w (fun _ => 0)
    pure (jObj [("out", jRats ((List.range (3 * v)).map (crossOut (x aId) (x bId)))),
                ("J", jArr jMat ((List.range m).map
                  (fun w => denseRows (crossJac acc v aId bId x w) (3 * v) (3 * v))))])
  | "matvec" =>
    let v ← fieldNat? j "v"
    let nr ← fieldNat? j "nr"
    let nc ← fieldNat? j "nc"
    let A ← fieldRats? j "A"
    let x ← fieldRats? j "x"
    pure (jObj [("out", jRats ((List.range (v * nr)).map (matvecOut nr nc (vecOf A) (vecOf x)))),
                ("JA", jMat (denseRows (matvecJacA v nr nc (vecOf x)) (v * nr) (v * nr * nc))),
                ("JX", jMat (denseRows (matvecJacX v nr nc (vecOf A)) (v * nr) (v * nc)))])
  | "vecmag" =>
    let v ← fieldNat? j "v"
    let len ← fieldNat? j "len"
    let a ← fieldRats? j "a"
    let af : Nat → Float := vecOf (a.map ratToFloat)
    let J := vecmagJac Float.sqrt v len af
    pure (jObj [("out", jArr jFloat ((List.range v).map (vecmagOut Float.sqrt len af))),
                ("J", jArr (jArr jFloat) (denseRows J v (v * len)))])
  | "eq" =>
    let normalize ← fieldBool? j "normalize"
    let useMult ← fieldBool? j "use_mult"
    let mult ← fieldRats? j "mult"
    let lhs ← fieldRats? j "lhs"
    let rhs ← fieldRats? j "rhs"
    let slab ← fieldNat? j "slab"
    let n := rhs.length
    let mu := vecOf mult
    let l := vecOf lhs
    let r := vecOf rhs
    let sm := slabSmall slab r
    pure (jObj [("out", jRats ((List.range n).map
                  (fun i => eqOut normalize useMult (mu i) (l i) (r i)))),
                ("Jmult", jMat (denseRows
                  (diagCoo n (fun i => eqDMult normalize (sm i) (l i) (r i))) n n)),
                ("Jlhs", jMat (denseRows
                  (diagCoo n (fun i => eqDLhs normalize (sm i) useMult (mu i) (r i))) n n)),
                ("Jrhs", jMat (denseRows
                  (diagCoo n (fun i => eqDRhs normalize (sm i) useMult (mu i) (l i) (r i))) n n))])
  | "linsys" =>
    let size ← fieldNat? j "size"
    let v ← fieldNat? j "v"
    let vecA ← fieldBool? j "vecA"
    let A ← fieldRats? j "A"
    let b ← fieldRats? j "b"
    let x ← fieldRats? j "x"
    let full := v * size
    let na := if vecA then v * (size * size) else size * size
    pure (jObj [("out", jRats ((List.range full).map
                  (linsysRes size vecA (vecOf A) (vecOf b) (vecOf x)))),
                ("JA", jMat (denseRows (linsysJacA size v vecA (vecOf x)) full na)),
                ("JX", jMat (denseRows (linsysJacX size v vecA (vecOf A)) full full)),
                ("JB", jMat (denseRows (linsysJacB (α := Rat) size v) full full))])
  | "spline" =>
    let v ← fieldNat? j "v"
    let ni ← fieldNat? j "ni"
    let ncp ← fieldNat? j "ncp"
    let val ← fieldRats? j "val"
    pure (jObj [("J", jMat (denseRows (splineJac v ni ncp (vecOf val)) (v * ni) (v * ncp)))])
  | _ => none

def main : IO Unit := runDriver handle
