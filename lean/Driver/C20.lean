import OMV.Model.Basic
import OMV.Model.C20
import OMV.Generated.C20Consts
open Lean OMV OMV.C20

/-! JSON-lines driver for C20: runs the definitions of `OMV.Model.C20` over `Rat`. -/

def getSv? (j : Json) : Option (Sv Rat) :=
  match j with
  | Json.arr a => (a.toList.mapM getRat?).map Sv.array
  | _ => (getRat? j).map Sv.scalar

def jSv (v : Sv Rat) : Json :=
  match v with
  | .scalar x => jRat x
  | .array l => jRats l

def jOptSv (v : Option (Sv Rat)) : Json :=
  match v with
  | none => Json.null
  | some v => jSv v

def errStr : Err → String
  | .mutex => "mutex"
  | .zerodiv => "zerodiv"
  | .shape => "shape"

def jErr (stage : String) (e : Err) : Json :=
  jObj [("ok", jBool false), ("err", jStr (errStr e)), ("stage", jStr stage)]

def getPair? (j : Json) : Option (Rat × Rat) :=
  match getList? j with
  | some [a, b] => do pure ((← getRat? a), (← getRat? b))
  | _ => none

def getBlock? (j : Json) : Option (Block Rat) := do
  let rows ← getList? j
  rows.mapM (fun r => getList? r >>= fun l => l.mapM getRat?)

def jBlock (b : Block Rat) : Json := jArr jRats b

/-- A declaration `{ref0, ref, adder, scaler, drop_default}` → the stored `total_scaler`
(`determine_adder_scaler`, then `set_design_var_options`' post-processing when `drop_default`). -/
def getTotalScaler? (j : Json) : Option (Except Err (Option (Sv Rat))) := do
  let ref0 ← optField? j "ref0" getSv?
  let ref ← optField? j "ref" getSv?
  let adder ← optField? j "adder" getSv?
  let scaler ← optField? j "scaler" getSv?
  let drop ← fieldBool? j "drop_default"
  match determineAdderScaler ref0 ref adder scaler with
  | .error e => pure (.error e)
  | .ok (_, ts) => pure (.ok (if drop then dropDefault 1 ts else some ts))

def getNamedDecl? (j : Json) : Option (Except Err (List (String × Option (Sv Rat)))) := do
  let l ← getList? j
  let es ← l.mapM (fun e =>
    match getList? e with
    | some [n, d] => do
      let name ← getStr? n
      let t ← getTotalScaler? d
      pure (match t with | .ok v => Except.ok (name, v) | .error e => Except.error e)
    | _ => none)
  pure (mapE id es)

def getNamedRat? (j : Json) : Option (List (String × Rat)) := do
  let l ← getList? j
  l.mapM (fun e =>
    match getList? e with
    | some [n, v] => do pure ((← getStr? n), (← getRat? v))
    | _ => none)

def inf : Rat := OMV.C20.Generated.infBound

/-- Group consecutive `(of, wrt, block)` triples by `of` (the order of a nested dict). -/
def nest (bs : List ((String × String) × Block Rat)) : List (String × List (String × Block Rat)) :=
  bs.foldl (fun acc kb =>
    match acc.reverse with
    | (o, inner) :: rest =>
      if o == kb.1.1 then (rest.reverse ++ [(o, inner ++ [(kb.1.2, kb.2)])])
      else acc ++ [(kb.1.1, [(kb.1.2, kb.2)])]
    | [] => [(kb.1.1, [(kb.1.2, kb.2)])]) []

def handleVoi (j : Json) : Option Json := do
  let ref0 ← optField? j "ref0" getSv?
  let ref ← optField? j "ref" getSv?
  let adder ← optField? j "adder" getSv?
  let scaler ← optField? j "scaler" getSv?
  let unit ← optField? j "unit" getPair?
  let back ← optField? j "back" getPair?
  let drop ← fieldBool? j "drop_default"
  let x ← fieldRats? j "x"
  let y ← optField? j "y" (fun v => getList? v >>= fun l => l.mapM getRat?)
  let lower ← optField? j "lower" getSv?
  let upper ← optField? j "upper" getSv?
  let equals ← optField? j "equals" getSv?
  let bounds ← fieldBool? j "bounds"
  let swapNeg ← fieldBool? j "swap_neg"
  match determineAdderScaler ref0 ref adder scaler with
  | .error e => pure (jErr "das" e)
  | .ok (ta, ts) =>
    let a : Option (Sv Rat) := if drop then dropDefault 0 ta else some ta
    let s : Option (Sv Rat) := if drop then dropDefault 1 ts else some ts
    match voiValue unit a s true x, voiValue unit a s false x with
    | .error e, _ => pure (jErr "value" e)
    | _, .error e => pure (jErr "value" e)
    | .ok vs, .ok vu =>
      let n := x.length
      let setR : Except Err Json :=
        match y with
        | none => .ok Json.null
        | some y => match setDesignVar back a s y with
          | .ok v => .ok (jRats v)
          | .error e => .error e
      -- get_design_var_values(driver_scaling=True) followed by _set_design_vars(driver_scaling=True):
      -- the vector scaled by `vecScale` (flag set) is unscaled again and written back
      let xu : List Rat := match unit with
        | none => x
        | some (f, o) => x.map (unitConv f o)
      let rt : Except Err (List Rat) :=
        match vecScale a s { data := xu, scaled := false } with
        | .error e => .error e
        | .ok w =>
          match vecUnscale a s w with
          | .error e => .error e
          | .ok v =>
            if v.scaled then .error .shape else
            match back with
            | none => .ok v.data
            | some (f, o) => .ok (v.data.map (unitConv f o))
      -- Driver._set_design_var(name, value): value in driver units, only the unit conversion
      let su : Json := match y, back with
        | none, _ => Json.null
        | some y, none => jRats y
        | some y, some (f, o) => jRats (y.map (unitConv f o))
      let bnd : Except Err (List (String × Json)) :=
        if !bounds then .ok [] else
        match scaledBounds swapNeg inf a s n lower upper with
        | .error e => .error e
        | .ok (lo, hi) =>
          match equals with
          | none => .ok [("lower", jRats lo), ("upper", jRats hi), ("equals", Json.null)]
          | some eq =>
            match scaleBound inf false a s n (some eq) with
            | .error e => .error e
            | .ok q => .ok [("lower", jRats lo), ("upper", jRats hi), ("equals", jRats q)]
      match setR, bnd, rt with
      | .error e, _, _ => pure (jErr "set" e)
      | _, .error e, _ => pure (jErr "bounds" e)
      | _, _, .error e => pure (jErr "roundtrip" e)
      | .ok sj, .ok bj, .ok rtv =>
        pure (jObj ([("ok", jBool true), ("total_adder", jOptSv a), ("total_scaler", jOptSv s),
          ("scaled", jRats vs), ("unscaled", jRats vu), ("set", sj), ("roundtrip", jRats rtv),
          ("set_units", su)] ++ bj))

def handleJac (j : Json) : Option Json := do
  let objectiveE ← field? j "objective" >>= getNamedDecl?
  let constraintE ← field? j "constraint" >>= getNamedDecl?
  let designVarE ← field? j "design_var" >>= getNamedDecl?
  let uOut ← field? j "units_out" >>= getNamedRat?
  let uIn ← field? j "units_in" >>= getNamedRat?
  let layout ← fieldStr? j "layout"
  let scaling ← fieldBool? j "driver_scaling"
  let custom ← fieldBool? j "custom"
  let bl ← fieldList? j "blocks"
  let blocks ← bl.mapM (fun e =>
    match getList? e with
    | some [o, w, b] => do pure (((← getStr? o), (← getStr? w)), (← getBlock? b))
    | _ => none)
  match objectiveE, constraintE, designVarE with
  | .error e, _, _ => pure (jErr "das" e)
  | _, .error e, _ => pure (jErr "das" e)
  | _, _, .error e => pure (jErr "das" e)
  | .ok objective, .ok constraint, .ok designVar =>
  let m : JacMeta Rat := { objective := objective, constraint := constraint, designVar := designVar }
  -- total_jac.py:_apply_unit_scaling, then (if has_scaling) autoscaler.apply_jac_scaling
  let unitBlocks := blocks.map (fun kb => (kb.1, jacUnitGate custom scaling (uOut.lookup kb.1.1) (uIn.lookup kb.1.2) kb.2))
  if !scaling then
    pure (jObj [("ok", jBool true),
      ("blocks", jArr (fun kb => Json.arr #[jStr kb.1.1, jStr kb.1.2, jBlock kb.2]) unitBlocks)])
  else
  let res : Except Err (List ((String × String) × Block Rat)) :=
    match layout with
    | "nested" =>
      match jacNested m (nest unitBlocks) with
      | .ok r => .ok (flattenJac r)
      | .error e => .error e
    | _ => jacFlat m unitBlocks
  match res with
  | .error e => pure (jErr "jac" e)
  | .ok r =>
    pure (jObj [("ok", jBool true),
      ("blocks", jArr (fun kb => Json.arr #[jStr kb.1.1, jStr kb.1.2, jBlock kb.2]) r)])

def handle (j : Json) : Option Json := do
  let op ← fieldStr? j "op"
  match op with
  | "das" =>
    let ref0 ← optField? j "ref0" getSv?
    let ref ← optField? j "ref" getSv?
    let adder ← optField? j "adder" getSv?
    let scaler ← optField? j "scaler" getSv?
    match determineAdderScaler ref0 ref adder scaler with
    | .error e => pure (jErr "das" e)
    | .ok (a, s) => pure (jObj [("ok", jBool true), ("adder", jSv a), ("scaler", jSv s)])
  | "voi" => handleVoi j
  | "jac" => handleJac j
  | "mult" =>
    let o ← field? j "obj" >>= getTotalScaler?
    let s ← field? j "s" >>= getTotalScaler?
    let ou ← optField? j "obj_unit" getRat?
    let su ← optField? j "s_unit" getRat?
    let m ← fieldRats? j "mult"
    match o, s with
    | .error e, _ => pure (jErr "das" e)
    | _, .error e => pure (jErr "das" e)
    | .ok o, .ok s =>
      match multUnscale o ou s su m with
      | .error e => pure (jErr "mult" e)
      | .ok v => pure (jObj [("ok", jBool true), ("v", jRats v)])
  | "inf" => pure (jObj [("ok", jBool true), ("inf", jRat inf)])
  | _ => none

def main : IO Unit := runDriver handle
