import OMV.Model.Basic
import OMV.Model.C15
open Lean OMV OMV.C15

/-- 1e-14 of `InterpND._interpolate` and the default `eps = 1e-30` of the Akima tables. -/
def tolC : Rat := mkRat 1 100000000000000
def akimaEps : Rat := mkRat 1 1000000000000000000000000000000

def gridFn (l : List Rat) : Nat → Rat := fun i => l.getD i 0

/-- Row-major table from its flat values and shape. -/
def tblOf (shape : List Nat) (vals : Array Rat) : List Nat → Rat := fun is =>
  let flat := (shape.zip is).foldl (fun acc (p : Nat × Nat) => acc * p.1 + p.2) 0
  vals.getD flat 0

def getRatLists? (j : Json) : Option (List (List Rat)) :=
  getList? j >>= fun l => l.mapM (fun r => getList? r >>= fun q => q.mapM getRat?)

def transpose (rows : List (List Rat)) (nd : Nat) : List (List Rat) :=
  (List.range nd).map (fun d => rows.map (fun r => r.getD d 0))

def generalKernel? (fix : Bool) (m : String) : Option (Kernel Rat) :=
  match m with
  | "slinear" => some slinearK
  | "lagrange2" => some lagrange2K
  | "lagrange3" => some lagrange3K
  | "akima" => some (akimaK fix akimaEps)
  | "cubic" => some cubicK
  | _ => none

/-- Value of one point; `none` inside = the method itself crashed (1D-akima on 4 points). -/
def evalPoint (fix : Bool) (m : String) (vec : Bool) (ds : List (Nat × (Nat → Rat))) (tbl : List Nat → Rat)
    (xs : List Rat) : Option (Option Rat) :=
  match generalKernel? fix m with
  | some k => some (some (evalND k ds tbl xs))
  | none =>
    let br := fun (d : Nat × (Nat → Rat)) (x : Rat) =>
      if vec then bracketVec d.2 d.1 x else bracketDim d.2 d.1 0 x
    match m, ds, xs with
    | "1D-slinear", [d], [x] => some (some (slinear1D d.1 d.2 tbl (br d x) x))
    | "2D-slinear", [d, e], [x, y] =>
      some (some (slinear2D d.1 e.1 d.2 e.2 tbl (br d x) (br e y) x y))
    | "3D-slinear", [d, e, f], [x, y, z] =>
      some (some (slinear3D d.1 e.1 f.1 d.2 e.2 f.2 tbl (br d x) (br e y) (br f z) x y z))
    | "1D-lagrange2", [d], [x] => some (some (lagrange2_1D d.1 d.2 tbl (br d x) x))
    | "2D-lagrange2", [d, e], [x, y] =>
      some (some (lagrange2_2D d.1 e.1 d.2 e.2 tbl (br d x) (br e y) x y))
    | "3D-lagrange2", [d, e, f], [x, y, z] =>
      some (some (lagrange2_3D d.1 e.1 f.1 d.2 e.2 f.2 tbl (br d x) (br e y) (br f z) x y z))
    | "1D-lagrange3", [d], [x] => some (some (lagrange3_1D d.1 d.2 tbl (br d x) x))
    | "2D-lagrange3", [d, e], [x, y] =>
      some (some (lagrange3_2D d.1 e.1 d.2 e.2 tbl (br d x) (br e y) x y))
    | "3D-lagrange3", [d, e, f], [x, y, z] =>
      some (some (lagrange3_3D d.1 e.1 f.1 d.2 e.2 f.2 tbl (br d x) (br e y) (br f z) x y z))
    | "1D-akima", [d], [x] =>
      some (akima1D fix vec akimaEps d.1 d.2 (fun i => tbl [i]) (br d x) x)
    | _, _, _ => none

def checkStr : Check → String
  | .ok => "ok"
  | .oob => "oob"
  | .crash => "crash"

def flagInt : Flag → Int
  | .below => -1
  | .inside => 0
  | .above => 1

def handle (j : Json) : Option Json := do
  let op ← fieldStr? j "op"
  match op with
  | "interp" =>
    let m ← fieldStr? j "method"
    let vec ← fieldBool? j "vec"
    let extrap ← fieldBool? j "extrapolate"
    let absEps ← fieldBool? j "absEps"
    let fix ← fieldBool? j "akimaFix"
    let grids ← field? j "grids" >>= getRatLists?
    let vals ← fieldRats? j "values"
    let pts ← field? j "pts" >>= getRatLists?
    let ds : List (Nat × (Nat → Rat)) := grids.map (fun l => (l.length, gridFn l))
    let tbl := tblOf (grids.map List.length) vals.toArray
    let chk : Check := if extrap then .ok else checkAll absEps tolC ds (transpose pts ds.length)
    match chk with
    | .ok =>
      let vs ← pts.mapM (fun p => evalPoint fix m vec ds tbl p)
      pure (jObj [("chk", jStr "ok"),
                  ("v", jArr (fun (o : Option Rat) => match o with
                                | some q => jRat q
                                | none => Json.null) vs)])
    | r => pure (jObj [("chk", jStr (checkStr r))])
  | "bracket" =>
    let grid ← fieldRats? j "grid"
    let last ← fieldNat? j "last"
    let x ← fieldRat? j "x"
    let r := bracket (gridFn grid) grid.length last x
    pure (jObj [("idx", jNat r.1), ("flag", jInt (flagInt r.2)),
                ("vec", jInt (bracketVec (gridFn grid) grid.length x))])
  | _ => none

def main : IO Unit := runDriver handle
