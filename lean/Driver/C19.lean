import OMV.Model.Basic
import OMV.Model.Spec
import OMV.Model.C19
import Driver.SpecJson
open Lean OMV OMV.Spec OMV.SpecJson OMV.C19

def handle (j : Json) : Option Json := do
  let op ← fieldStr? j "op"
  match op with
  | "load" =>
    -- store: list of value lists (variable k at position k); case: list of [k, [vals]]
    let init ← (← fieldList? j "store").mapM (fun l => getList? l >>= fun x => x.mapM getRat?)
    let cs ← (← fieldList? j "case").mapM (fun e => do
      match ← getList? e with
      | [k, v] => do pure (← getNat? k, ← (← getList? v).mapM getRat?)
      | _ => none)
    let s0 : Store Rat := fun k => init.getD k []
    let s := loadCase s0 cs
    pure (jObj [("store", jArr jRats ((List.range init.length).map s))])
  | "sweep" =>
    let n ← fieldNat? j "n"
    let u0 ← fieldRats? j "u0"
    let comps ← (← fieldList? j "comps").mapM getComp?
    let u := sweep (stateOfList u0) comps
    pure (jObj [("u", jRats (listOfState n u))])
  | _ => none

def main : IO Unit := runDriver handle
