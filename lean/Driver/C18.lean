import OMV.Model.Basic
import OMV.Model.C18
open Lean OMV OMV.C18

/-! JSON-lines driver for C18: accepts/rejects a traced statement stream and evaluates the reader on the
database found after a crash at each requested statement boundary (`OMV.C18.crash`, `Db.read`). -/

def getKind? (j : Json) : Option Kind :=
  match j with
  | Json.str "driver" => some .driver
  | Json.str "system" => some .system
  | Json.str "solver" => some .solver
  | Json.str "problem" => some .problem
  | _ => none

def kindStr : Kind → String
  | .driver => "driver" | .system => "system" | .solver => "solver" | .problem => "problem"

def getTable? (j : Json) : Option Table :=
  match j with
  | Json.str "global_iterations" => some .global
  | Json.str "driver_iterations" => some .driverIt
  | Json.str "driver_derivatives" => some .driverDeriv
  | Json.str "problem_cases" => some .problemCases
  | Json.str "system_iterations" => some .systemIt
  | Json.str "solver_iterations" => some .solverIt
  | Json.str "metadata" => some .metadata
  | Json.str "driver_metadata" => some .driverMeta
  | Json.str "system_metadata" => some .systemMeta
  | Json.str "solver_metadata" => some .solverMeta
  | _ => none

def getStmt? (j : Json) : Option Stmt := do
  match ← getList? j with
  | [Json.str "begin"] => pure .begin
  | [Json.str "commit"] => pure .commit
  | [Json.str "rollback"] => pure .rollback
  | [Json.str "create", t] => pure (.create (← getTable? t))
  | [Json.str "index", t] => pure (.index (← getTable? t))
  | [Json.str "insert_meta"] => pure .insertMeta
  | [Json.str "update_meta"] => pure .updateMeta
  | [Json.str "aux", t] => pure (.insertAux (← getTable? t))
  | [Json.str "case", k, n] => pure (.insertCase (← getKind? k) (← getNat? n))
  | [Json.str "global", k, r] => pure (.insertGlobal (← getKind? k) (← getNat? r))
  | [Json.str "other"] => pure .other
  | _ => none

def jCase (c : Kind × Nat) : Json := Json.arr #[jStr (kindStr c.1), jNat c.2]

def handle (j : Json) : Option Json := do
  let s ← fieldList? j "stream" >>= fun l => l.mapM getStmt?
  match ← fieldStr? j "op" with
  | "accept" =>
    match accept s with
    | some txns => pure (jObj [("accepted", jBool true), ("startup", jNat startup.length),
                               ("cases", jArr jCase (caseList txns))])
    | none => pure (jObj [("accepted", jBool false), ("startup", jNat startup.length)])
  | "crash" =>
    let ks ← fieldNats? j "ks"
    let txns := (accept s).getD []
    let rs := ks.map fun k =>
      let db := crash k s
      jObj [("k", jNat k), ("open", jBool db.openable),
            ("read", match db.read with
                     | some l => jArr jCase l
                     | none => Json.null),
            ("rows", jArr jCase db.cases),
            ("m", jNat (completeCases txns (k - startup.length)))]
    pure (jObj [("r", Json.arr rs.toArray)])
  | _ => none

def main : IO Unit := runDriver handle
