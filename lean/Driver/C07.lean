import OMV.Model.Basic
import OMV.Model.C07
open Lean OMV OMV.C07

/-- ops: [{"pos":[..], "vals":[rat..], "fac":rat, "off":rat}]  (vals in user units) -/
def handle (j : Json) : Option Json := do
  let op ← fieldStr? j "op"
  match op with
  | "store" =>
    let init ← fieldRats? j "init"
    let ops ← fieldList? j "ops"
    let n := init.length
    let step : (Nat → Rat) × List Json → Json → Option ((Nat → Rat) × List Json) := fun acc o => do
      let pos ← fieldNats? o "pos"
      let vals ← fieldRats? o "vals"
      let fac ← fieldRat? o "fac"
      let off ← fieldRat? o "off"
      let stored := vals.map (toStore fac off)
      let arr := setAt acc.1 pos stored
      -- materialise
      let l := (List.range n).map arr
      let arr' : Nat → Rat := fun i => l.getD i 0
      let back := (getAt arr' pos).map (fromStore fac off)
      pure (arr', acc.2 ++ [jObj [("arr", jRats l), ("get", jRats back)]])
    let r ← ops.foldlM step ((fun i => init.getD i 0), [])
    pure (jObj [("steps", Json.arr r.2.toArray)])
  | _ => none

def main : IO Unit := runDriver handle
